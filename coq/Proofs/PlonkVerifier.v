(* C18 / C03 for the PLONK verifier model (Model/Plonk.v):
   - after shape validation no partial operation of eval_vanishing_poly / verify_with_challenges
     can fail (for arbitrary challenges of the right lengths);
   - acceptance is exactly: vanishing identity on every quotient chunk + FRI acceptance;
   - acceptance pins every vector length of the proof to the common data;
   - the claimed openings line up with the polynomials of the FRI instance.
   Hash functions, the permutation and the transcript are never unfolded. *)
From Coq Require Import ZArith List Bool Lia Arith PeanoNat.
From Verif Require Import Base.Field Model.Fp Model.Fp2 Model.FieldGeneric Model.PoseidonSpec
  Model.Fri Model.Gates Model.Plonk Proofs.FpFieldPrime Proofs.Fp2Field Proofs.FriShape.
Import ListNotations.
Local Open Scope nat_scope.

Local Opaque poseidon p_hash_or_noop p_two_to_one p_hash_no_pad duplexing get_challenges.
Local Opaque check_lookup_constraints evaluate_gate_constraints eval_l_0.

(* ------------------------------------------------------------------ well-formed common data *)
(* Facts about the circuit's common data that the real builder establishes (circuit_builder.rs:
   num_partial_products = ceil(num_routed_wires / quotient_degree_factor) - 1, one coset shift
   k_i per routed wire, fri_params.config is a copy of config.fri_config) and that the verifier
   relies on without checking. *)
Record cd_wf (cd : common_data) : Prop := {
  wf_qdf : 1 < quotient_degree_factor cd;
  wf_routed_pos : 1 <= num_routed_wires (cd_config cd);
  wf_npp : num_partial_products cd
           = div_ceil (num_routed_wires (cd_config cd)) (quotient_degree_factor cd) - 1;
  wf_kis : num_routed_wires (cd_config cd) <= length (k_is cd);
  wf_routed : num_routed_wires (cd_config cd) <= num_wires (cd_config cd);
  wf_fri_cfg : config (cd_fri_params cd) = cfg_fri (cd_config cd) }.

(* the verifier-only data carries a cap of the configured height *)
Definition vo_wf (cd : common_data) (vo : verifier_only) : Prop :=
  length (constants_sigmas_cap vo) = 2 ^ cap_height (config (cd_fri_params cd)).

(* ------------------------------------------------------------------ chunks, div_ceil *)
Lemma div_ceil_0 n : 1 <= n -> div_ceil 0 n = 0.
Proof. intros Hn. unfold div_ceil. apply Nat.div_small. lia. Qed.

Lemma div_ceil_step n L : 1 <= n -> 1 <= L -> div_ceil L n = S (div_ceil (L - n) n).
Proof.
  intros Hn HL. unfold div_ceil. destruct (le_lt_dec n L) as [Hle|Hlt].
  - replace (L + n - 1) with ((L - n + n - 1) + 1 * n) by lia.
    rewrite Nat.div_add by lia. lia.
  - replace (L - n) with 0 by lia. cbn [Nat.add].
    replace (L + n - 1) with ((L - 1) + 1 * n) by lia.
    rewrite Nat.div_add by lia. rewrite !Nat.div_small by lia. lia.
Qed.

Lemma div_ceil_pos n L : 1 <= n -> 1 <= L -> 1 <= div_ceil L n.
Proof. intros Hn HL. rewrite (div_ceil_step n L Hn HL). lia. Qed.

Lemma chunks_length {A} n : 1 <= n -> forall fuel (l : list A),
  length l < fuel -> length (chunks fuel n l) = div_ceil (length l) n.
Proof.
  intros Hn. induction fuel as [|f IH]; intros l Hl; [lia|].
  destruct l as [|a l]; cbn [chunks].
  - cbn [length]. rewrite div_ceil_0 by exact Hn. reflexivity.
  - cbn [length]. rewrite IH.
    + rewrite skipn_length. cbn [length]. rewrite (div_ceil_step n (S (length l))) by lia. reflexivity.
    + rewrite skipn_length. cbn [length] in *. lia.
Qed.

(* every chunk but possibly the last has exactly n elements; all have between 1 and n *)
Lemma chunks_elem_length {A} n : 1 <= n -> forall fuel (l c : list A),
  In c (chunks fuel n l) -> 1 <= length c <= n.
Proof.
  intros Hn. induction fuel as [|f IH]; intros l c Hin; [destruct Hin|].
  destruct l as [|a l]; cbn [chunks] in Hin; [destruct Hin|].
  destruct Hin as [<-|Hin]; [|eapply IH; exact Hin].
  rewrite firstn_length. cbn [length]. lia.
Qed.

Lemma concat_chunks {A} n : 1 <= n -> forall fuel (l : list A),
  length l < fuel -> concat (chunks fuel n l) = l.
Proof.
  intros Hn. induction fuel as [|f IH]; intros l Hl; [lia|].
  destruct l as [|a l]; cbn [chunks concat]; [reflexivity|].
  rewrite IH; [apply firstn_skipn|]. rewrite skipn_length. cbn [length] in *. lia.
Qed.

(* ------------------------------------------------------------------ check_partial_products *)
Lemma pp_checks_some : forall nums dens accs,
  length nums = length dens -> length accs = S (length nums) ->
  exists r, pp_checks nums dens accs = Some r /\ length r = length nums.
Proof.
  induction nums as [|n nt IH]; intros dens accs Hd Ha.
  - destruct dens; [|discriminate]. destruct accs as [|a [|b t]]; try discriminate.
    exists []. split; reflexivity.
  - destruct dens as [|d dt]; [discriminate|]. destruct accs as [|prev [|next rest]]; try discriminate.
    cbn [length] in Hd, Ha.
    destruct (IH dt (next :: rest)) as [r [Hr Hl]]; [lia|cbn [length]; lia|].
    cbn [pp_checks]. rewrite Hr. eexists; split; [reflexivity|]. cbn [length]. lia.
Qed.

(* the zip_eq of the real code panics exactly on a length mismatch *)
Lemma pp_checks_none : forall nums dens accs,
  length nums <> length dens \/ length accs <> S (length nums) -> pp_checks nums dens accs = None.
Proof.
  induction nums as [|n nt IH]; intros dens accs Hne.
  - destruct dens; [|reflexivity]. destruct accs as [|a [|b t]]; try reflexivity. cbn in Hne. lia.
  - destruct dens as [|d dt]; [reflexivity|]. destruct accs as [|prev [|next rest]]; try reflexivity.
    cbn [pp_checks]. rewrite IH; [reflexivity|]. cbn [length] in Hne |- *. lia.
Qed.

Lemma check_partial_products_some nums dens partials z_x z_gx md :
  1 <= md -> length nums = length dens ->
  length partials + 1 = div_ceil (length nums) md ->
  exists r, check_partial_products nums dens partials z_x z_gx md = Some r
            /\ length r = S (length partials).
Proof.
  intros Hmd Hl Hp. unfold check_partial_products.
  destruct (pp_checks_some (chunks (S (length nums)) md nums) (chunks (S (length dens)) md dens)
                           ([z_x] ++ partials ++ [z_gx])) as [r [Hr Hlen]].
  - rewrite !chunks_length by lia. rewrite Hl. reflexivity.
  - rewrite chunks_length by lia. cbn [app length]. rewrite app_length. cbn [length]. lia.
  - exists r. split; [exact Hr|]. rewrite Hlen, chunks_length by lia. lia.
Qed.

Lemma check_partial_products_none nums dens partials z_x z_gx md :
  1 <= md -> length nums = length dens ->
  length partials + 1 <> div_ceil (length nums) md ->
  check_partial_products nums dens partials z_x z_gx md = None.
Proof.
  intros Hmd Hl Hp. unfold check_partial_products. apply pp_checks_none. right.
  rewrite chunks_length by lia. cbn [app length]. rewrite app_length. cbn [length]. lia.
Qed.

(* ------------------------------------------------------------------ validate_proof_shape *)
Lemma validate_proof_shape_inv cd pr :
  validate_proof_shape cd pr = true ->
  let c := cd_config cd in let os := openings pr in
  let caplen := 2 ^ cap_height (config (cd_fri_params cd)) in
  length (wires_cap pr) = caplen /\ length (zs_pp_cap pr) = caplen /\ length (quotient_cap pr) = caplen
  /\ length (os_constants os) = cd_num_constants cd
  /\ length (os_sigmas os) = num_routed_wires c
  /\ length (os_wires os) = num_wires c
  /\ length (os_zs os) = num_challenges c
  /\ length (os_zs_next os) = num_challenges c
  /\ length (os_partial_products os) = num_challenges c * num_partial_products cd
  /\ length (os_quotient os) = num_quotient_polys cd
  /\ length (os_lookup_zs os) = num_all_lookup_polys cd
  /\ length (os_lookup_zs_next os) = num_all_lookup_polys cd
  /\ length (public_inputs pr) = num_public_inputs cd.
Proof.
  unfold validate_proof_shape. intros Hv. cbv zeta.
  repeat (apply andb_true_iff in Hv; let H' := fresh "Hv" in destruct Hv as [Hv H']; apply Nat.eqb_eq in H').
  apply Nat.eqb_eq in Hv. repeat split; assumption.
Qed.

Lemma validate_proof_shape_of_lengths cd pr :
  (let c := cd_config cd in let os := openings pr in
   let caplen := 2 ^ cap_height (config (cd_fri_params cd)) in
   length (wires_cap pr) = caplen /\ length (zs_pp_cap pr) = caplen /\ length (quotient_cap pr) = caplen
   /\ length (os_constants os) = cd_num_constants cd
   /\ length (os_sigmas os) = num_routed_wires c
   /\ length (os_wires os) = num_wires c
   /\ length (os_zs os) = num_challenges c
   /\ length (os_zs_next os) = num_challenges c
   /\ length (os_partial_products os) = num_challenges c * num_partial_products cd
   /\ length (os_quotient os) = num_quotient_polys cd
   /\ length (os_lookup_zs os) = num_all_lookup_polys cd
   /\ length (os_lookup_zs_next os) = num_all_lookup_polys cd
   /\ length (public_inputs pr) = num_public_inputs cd) ->
  validate_proof_shape cd pr = true.
Proof.
  cbv zeta. intros H. unfold validate_proof_shape.
  repeat match goal with H : _ /\ _ |- _ => destruct H as [? H] end.
  repeat (apply andb_true_iff; split); apply Nat.eqb_eq; assumption.
Qed.

(* ------------------------------------------------------------------ slices of the openings *)
Lemma slice_length {A} (l : list A) n np i :
  length l = n * np -> i < n -> length (firstn np (skipn (i * np) l)) = np.
Proof.
  intros Hl Hi. rewrite firstn_length, skipn_length, Hl.
  assert ((i + 1) * np <= n * np) by (apply Nat.mul_le_mono_r; lia). lia.
Qed.

(* ------------------------------------------------------------------ 3. eval_vanishing_poly *)
Lemma eval_vanishing_poly_some cd x os pi_hash ch :
  1 <= quotient_degree_factor cd ->
  num_partial_products cd + 1
  = div_ceil (num_routed_wires (cd_config cd)) (quotient_degree_factor cd) ->
  length (os_partial_products os) = num_challenges (cd_config cd) * num_partial_products cd ->
  exists van, eval_vanishing_poly cd x os pi_hash ch = Some van
              /\ length van = length (plonk_alphas ch).
Proof.
  intros Hq Hnpp Hpp. unfold eval_vanishing_poly. cbv zeta.
  match goal with |- context [forallb ?f ?l] => assert (Hall : forallb f l = true) end.
  { apply forallb_forall. intros o Hin. apply in_map_iff in Hin. destruct Hin as [i [Ho Hi]].
    apply in_seq in Hi. subst o.
    match goal with |- context [check_partial_products ?n ?d ?p ?a ?b ?m] =>
      destruct (check_partial_products_some n d p a b m) as [r [Hr _]] end.
    - exact Hq.
    - rewrite !map_length. reflexivity.
    - rewrite map_length, seq_length.
      rewrite (slice_length _ (num_challenges (cd_config cd))) by (auto; lia). exact Hnpp.
    - rewrite Hr. reflexivity. }
  rewrite Hall. eexists. split; [reflexivity|]. rewrite map_length. reflexivity.
Qed.

Lemma cd_wf_npp cd : cd_wf cd ->
  num_partial_products cd + 1 = div_ceil (num_routed_wires (cd_config cd)) (quotient_degree_factor cd).
Proof.
  intros [Hq Hr Hn _ _ _]. rewrite Hn.
  pose proof (div_ceil_pos (quotient_degree_factor cd) (num_routed_wires (cd_config cd))). lia.
Qed.

Theorem vanishing_no_panic cd pr x pi_hash ch :
  cd_wf cd -> validate_proof_shape cd pr = true ->
  eval_vanishing_poly cd x (openings pr) pi_hash ch <> None.
Proof.
  intros Hwf Hv. pose proof (validate_proof_shape_inv cd pr Hv) as Hs. cbv zeta in Hs.
  destruct (eval_vanishing_poly_some cd x (openings pr) pi_hash ch) as [van [E _]].
  - destruct Hwf; lia.
  - apply cd_wf_npp; exact Hwf.
  - tauto.
  - congruence.
Qed.

(* necessity of the check: with a wrong number of partial products the zip_eq panics *)
Lemma eval_vanishing_poly_none cd x os pi_hash ch :
  1 <= quotient_degree_factor cd -> 1 <= num_challenges (cd_config cd) ->
  length (os_partial_products os) = num_challenges (cd_config cd) * num_partial_products cd ->
  num_partial_products cd + 1
  <> div_ceil (num_routed_wires (cd_config cd)) (quotient_degree_factor cd) ->
  eval_vanishing_poly cd x os pi_hash ch = None.
Proof.
  intros Hq Hn Hpp Hne. unfold eval_vanishing_poly. cbv zeta.
  match goal with |- context [forallb ?f ?l] => assert (Hall : forallb f l = false) end.
  { destruct (num_challenges (cd_config cd)) as [|n] eqn:En; [lia|].
    cbn [seq map forallb].
    match goal with |- context [check_partial_products ?n ?d ?p ?a ?b ?m] =>
      rewrite (check_partial_products_none n d p a b m) end.
    - reflexivity.
    - exact Hq.
    - rewrite !map_length. reflexivity.
    - rewrite map_length, seq_length.
      rewrite (slice_length _ (S n)) by (auto; lia). exact Hne. }
  rewrite Hall. reflexivity.
Qed.

(* the accesses the model totalises with a default ([nth]) are in range: the default value is
   never used after shape validation *)
Definition vanishing_accesses_in_range (cd : common_data) (os : opening_set) (ch : proof_challenges) : Prop :=
  let c := cd_config cd in
  forall i, i < num_challenges c ->
    i < length (os_zs os) /\ i < length (os_zs_next os)
    /\ i < length (plonk_betas ch) /\ i < length (plonk_gammas ch)
    /\ (i + 1) * num_partial_products cd <= length (os_partial_products os)
    /\ (forall j, j < num_routed_wires c ->
          j < length (os_wires os) /\ j < length (k_is cd) /\ j < length (os_sigmas os))
    /\ (num_lookup_polys cd <> 0 ->
          num_lookup_polys cd * (i + 1) <= length (os_lookup_zs os)
          /\ num_lookup_polys cd * (i + 1) <= length (os_lookup_zs_next os)
          /\ NUM_COINS_LOOKUP * (i + 1) <= length (plonk_deltas ch)).

Lemma vanishing_accesses_ok cd pr ch :
  cd_wf cd -> validate_proof_shape cd pr = true ->
  length (plonk_betas ch) = num_challenges (cd_config cd) ->
  length (plonk_gammas ch) = num_challenges (cd_config cd) ->
  (num_lookup_polys cd <> 0 -> length (plonk_deltas ch) = NUM_COINS_LOOKUP * num_challenges (cd_config cd)) ->
  vanishing_accesses_in_range cd (openings pr) ch.
Proof.
  intros Hwf Hv Hb Hg Hd. pose proof (validate_proof_shape_inv cd pr Hv) as Hs. cbv zeta in Hs.
  destruct Hs as [_ [_ [_ [_ [Hsig [Hw [Hz [Hzn [Hpp [_ [Hlz [Hlzn _]]]]]]]]]]]].
  destruct Hwf as [_ _ _ Hk Hr _].
  unfold vanishing_accesses_in_range. cbv zeta. intros i Hi.
  split; [lia|]. split; [lia|]. split; [lia|]. split; [lia|].
  split; [rewrite Hpp; apply Nat.mul_le_mono_r; lia|].
  split; [intros j Hj; lia|].
  intros Hl. rewrite Hlz, Hlzn, (Hd Hl). unfold num_all_lookup_polys.
  split; [|split].
  - rewrite (Nat.mul_comm (num_challenges _)). apply Nat.mul_le_mono_l. lia.
  - rewrite (Nat.mul_comm (num_challenges _)). apply Nat.mul_le_mono_l. lia.
  - apply Nat.mul_le_mono_l. lia.
Qed.

(* ------------------------------------------------------------------ verify_with_challenges, named parts *)
Definition zeta_pow_deg (cd : common_data) (ch : proof_challenges) : Fp2 :=
  exp_power_of_2 (plonk_zeta ch) (degree_bits (cd_fri_params cd)).
Definition z_h_zeta (cd : common_data) (ch : proof_challenges) : Fp2 := (zeta_pow_deg cd ch - 1)%F.
Definition qchunks (cd : common_data) (pr : proof) : list (list Fp2) :=
  chunks (S (length (os_quotient (openings pr)))) (quotient_degree_factor cd) (os_quotient (openings pr)).
Definition initial_caps (vo : verifier_only) (pr : proof) : list (list digest) :=
  [constants_sigmas_cap vo; wires_cap pr; zs_pp_cap pr; quotient_cap pr].
Definition fri_verdict (cd : common_data) (vo : verifier_only) (pr : proof) (ch : proof_challenges) : res unit :=
  verify_fri_proof p_hash_or_noop p_two_to_one (get_fri_instance cd (plonk_zeta ch))
                   (to_fri_openings (openings pr)) (pc_fri ch) (initial_caps vo pr) (opening_proof pr)
                   (cd_fri_params cd).

Lemma verify_with_challenges_unfold cd vo pr pih ch :
  verify_with_challenges cd vo pr pih ch =
  match eval_vanishing_poly cd (plonk_zeta ch) (openings pr) (map of_fp pih) ch with
  | None => Panic 10
  | Some van =>
    match find (fun p => negb (nth2 van (fst p) =? z_h_zeta cd ch * reduce_with_powers2 (snd p) (zeta_pow_deg cd ch))%F)
               (combine (seq 0 (length (qchunks cd pr))) (qchunks cd pr)) with
    | Some p => RejectQuotient (fst p)
    | None => match fri_verdict cd vo pr ch with
              | inl _ => Accept
              | inr (EPanic s) => Panic s
              | inr e => RejectFri e
              end
    end
  end.
Proof. reflexivity. Qed.

Lemma find_combine_seq_none {A} (f : nat * A -> bool) : forall (l : list A) s,
  find f (combine (seq s (length l)) l) = None
  <-> forall i x, nth_error l i = Some x -> f (s + i, x) = false.
Proof.
  induction l as [|a l IH]; intros s; cbn [length seq combine find].
  - split; [intros _ [|i] x E; discriminate | reflexivity].
  - destruct (f (s, a)) eqn:Ef.
    + split; [discriminate|]. intros Hall. specialize (Hall 0 a eq_refl). rewrite Nat.add_0_r in Hall. congruence.
    + rewrite IH. split.
      * intros Hall [|i] x E; cbn [nth_error] in E.
        -- inversion E; subst. rewrite Nat.add_0_r. exact Ef.
        -- replace (s + S i) with (S s + i) by lia. apply Hall. exact E.
      * intros Hall i x E. replace (S s + i) with (s + S i) by lia. apply Hall. exact E.
Qed.

(* the first chunk on which the identity fails is the one reported *)
Lemma find_combine_seq_some {A} (f : nat * A -> bool) : forall (l : list A) s p,
  find f (combine (seq s (length l)) l) = Some p ->
  exists i, fst p = s + i /\ nth_error l i = Some (snd p) /\ f p = true
            /\ forall j x, j < i -> nth_error l j = Some x -> f (s + j, x) = false.
Proof.
  induction l as [|a l IH]; intros s p; cbn [length seq combine find]; [discriminate|].
  destruct (f (s, a)) eqn:Ef.
  - intros E. inversion E; subst p. exists 0. cbn [fst snd nth_error]. rewrite Nat.add_0_r.
    repeat split; auto. intros j x Hj. lia.
  - intros E. destruct (IH (S s) p E) as [i [H1 [H2 [H3 H4]]]]. exists (S i).
    split; [lia|]. split; [exact H2|]. split; [exact H3|].
    intros [|j] x Hj Hx; cbn [nth_error] in Hx.
    + inversion Hx; subst. rewrite Nat.add_0_r. exact Ef.
    + replace (s + S j) with (S s + j) by lia. apply H4; [lia|exact Hx].
Qed.

(* ------------------------------------------------------------------ 5. acceptance *)
Theorem accept_iff cd vo pr pih ch :
  verify_with_challenges cd vo pr pih ch = Accept
  <-> exists van,
        eval_vanishing_poly cd (plonk_zeta ch) (openings pr) (map of_fp pih) ch = Some van
        /\ (forall i chunk, nth_error (qchunks cd pr) i = Some chunk ->
              nth2 van i = (z_h_zeta cd ch * reduce_with_powers2 chunk (zeta_pow_deg cd ch))%F)
        /\ fri_verdict cd vo pr ch = inl tt.
Proof.
  rewrite verify_with_challenges_unfold.
  destruct (eval_vanishing_poly cd (plonk_zeta ch) (openings pr) (map of_fp pih) ch) as [van|].
  2:{ split; [discriminate | intros [van [E _]]; discriminate]. }
  match goal with |- context [find ?f ?l] => destruct (find f l) as [p|] eqn:Ef end.
  - split; [discriminate|]. intros [van' [E [Hq _]]]. inversion E; subst van'.
    apply find_combine_seq_some in Ef. destruct Ef as [i [Hi [Hn [Hf _]]]].
    cbn [Nat.add] in Hi. specialize (Hq _ _ Hn). rewrite <- Hi in Hq.
    apply negb_true_iff in Hf. apply (proj2 (f_eqb_spec _ _)) in Hq. congruence.
  - pose proof (proj1 (find_combine_seq_none _ _ _) Ef) as Ef'. clear Ef. rename Ef' into Ef.
    split.
    + intros E. exists van. split; [reflexivity|]. split.
      * intros i chunk Hn. specialize (Ef i chunk Hn). cbn [Nat.add fst snd] in Ef.
        apply negb_false_iff in Ef. apply f_eqb_spec in Ef. exact Ef.
      * destruct (fri_verdict cd vo pr ch) as [[]|e]; [reflexivity|]. destruct e; discriminate.
    + intros [van' [_ [_ Hfri]]]. rewrite Hfri. reflexivity.
Qed.

Lemma verify_accept_shape cd vo pr : verify cd vo pr = Accept -> validate_proof_shape cd pr = true.
Proof. unfold verify. destruct (validate_proof_shape cd pr); [reflexivity|discriminate]. Qed.

Lemma verify_accept_with_challenges cd vo pr :
  verify cd vo pr = Accept ->
  verify_with_challenges cd vo pr (p_hash_no_pad (public_inputs pr))
                         (get_challenges cd vo pr (p_hash_no_pad (public_inputs pr))) = Accept.
Proof. unfold verify. destruct (validate_proof_shape cd pr); [auto|discriminate]. Qed.

(* a quotient mismatch is reported at the first failing chunk *)
Lemma reject_quotient_iff cd vo pr pih ch i :
  verify_with_challenges cd vo pr pih ch = RejectQuotient i
  <-> exists van chunk,
        eval_vanishing_poly cd (plonk_zeta ch) (openings pr) (map of_fp pih) ch = Some van
        /\ nth_error (qchunks cd pr) i = Some chunk
        /\ nth2 van i <> (z_h_zeta cd ch * reduce_with_powers2 chunk (zeta_pow_deg cd ch))%F
        /\ (forall j c, j < i -> nth_error (qchunks cd pr) j = Some c ->
              nth2 van j = (z_h_zeta cd ch * reduce_with_powers2 c (zeta_pow_deg cd ch))%F).
Proof.
  rewrite verify_with_challenges_unfold.
  destruct (eval_vanishing_poly cd (plonk_zeta ch) (openings pr) (map of_fp pih) ch) as [van|].
  2:{ split; [discriminate | intros [van [c [E _]]]; discriminate]. }
  match goal with |- context [find ?f ?l] => destruct (find f l) as [p|] eqn:Ef end.
  - apply find_combine_seq_some in Ef. destruct Ef as [k [Hk [Hn [Hf Hlt]]]]. cbn [Nat.add] in Hk.
    split.
    + intros E. inversion E; subst i. exists van, (snd p). split; [reflexivity|].
      rewrite Hk. split; [exact Hn|]. split.
      * apply negb_true_iff in Hf. rewrite <- Hk. intros Heq. apply (proj2 (f_eqb_spec _ _)) in Heq. congruence.
      * intros j c Hj Hc. specialize (Hlt j c Hj Hc). cbn [Nat.add fst snd] in Hlt.
        apply negb_false_iff in Hlt. apply f_eqb_spec in Hlt. exact Hlt.
    + intros [van' [chunk [E [Hc [Hne Hall]]]]]. inversion E; subst van'. f_equal.
      destruct (Nat.lt_trichotomy (fst p) i) as [Hlt'|[Heq|Hgt]]; [|exact Heq|].
      * exfalso. rewrite Hk in Hlt'. specialize (Hall k (snd p) Hlt' Hn).
        apply negb_true_iff in Hf. rewrite <- Hk in Hall. apply (proj2 (f_eqb_spec _ _)) in Hall. congruence.
      * exfalso. rewrite Hk in Hgt. specialize (Hlt i chunk Hgt Hc). cbn [Nat.add fst snd] in Hlt.
        apply negb_false_iff in Hlt. apply f_eqb_spec in Hlt. contradiction.
  - split.
    + destruct (fri_verdict cd vo pr ch) as [[]|e]; [discriminate|]. destruct e; discriminate.
    + intros [van' [chunk [E [Hc [Hne _]]]]]. inversion E; subst van'.
      pose proof (proj1 (find_combine_seq_none _ _ _) Ef i chunk Hc) as Ef'. clear Ef. rename Ef' into Ef.
      cbn [Nat.add fst snd] in Ef. apply negb_false_iff in Ef. apply f_eqb_spec in Ef. contradiction.
Qed.

(* ------------------------------------------------------------------ 4. no panic after validation *)
Lemma initial_caps_lengths cd vo pr :
  vo_wf cd vo -> validate_proof_shape cd pr = true ->
  Forall (fun c : list digest => length c = 2 ^ cap_height (config (cd_fri_params cd))) (initial_caps vo pr).
Proof.
  intros Hvo Hv. pose proof (validate_proof_shape_inv cd pr Hv) as Hs. cbv zeta in Hs.
  destruct Hs as [H1 [H2 [H3 _]]]. unfold initial_caps. repeat constructor; assumption.
Qed.

Theorem verify_no_panic cd vo pr pih ch :
  cd_wf cd -> vo_wf cd vo -> validate_proof_shape cd pr = true ->
  length (fri_betas (pc_fri ch)) = length (fp_caps (opening_proof pr)) ->
  Forall (fun x => x < 2 ^ lde_bits (cd_fri_params cd)) (fri_query_indices (pc_fri ch)) ->
  denominators_nonzero (get_fri_instance cd (plonk_zeta ch)) (cd_fri_params cd)
                       (fri_query_indices (pc_fri ch)) ->
  forall s, verify_with_challenges cd vo pr pih ch <> Panic s.
Proof.
  intros Hwf Hvo Hv Hb Hi Hnz site. rewrite verify_with_challenges_unfold.
  destruct (eval_vanishing_poly cd (plonk_zeta ch) (openings pr) (map of_fp pih) ch) as [van|] eqn:Ev.
  2:{ exfalso. exact (vanishing_no_panic cd pr _ _ _ Hwf Hv Ev). }
  match goal with |- context [find ?f ?l] => destruct (find f l) as [p|] end; [discriminate|].
  pose proof (verify_fri_proof_no_panic p_hash_or_noop p_two_to_one
                (get_fri_instance cd (plonk_zeta ch)) (to_fri_openings (openings pr)) (pc_fri ch)
                (initial_caps vo pr) (opening_proof pr) (cd_fri_params cd) Hb Hi
                (initial_caps_lengths cd vo pr Hvo Hv) Hnz) as Hfri.
  fold (fri_verdict cd vo pr ch) in Hfri.
  destruct (fri_verdict cd vo pr ch) as [[]|e]; [discriminate|].
  destruct e; try discriminate. intros E. inversion E; subst. exact (Hfri _ eq_refl).
Qed.

(* the version with the folding challenges counted against the reduction layers *)
Corollary verify_no_panic_arities cd vo pr pih ch :
  cd_wf cd -> vo_wf cd vo -> validate_proof_shape cd pr = true ->
  validate_fri_proof_shape (get_fri_instance cd (plonk_zeta ch)) (cd_fri_params cd) (opening_proof pr) = true ->
  length (fri_betas (pc_fri ch)) = length (reduction_arity_bits (cd_fri_params cd)) ->
  Forall (fun x => x < 2 ^ lde_bits (cd_fri_params cd)) (fri_query_indices (pc_fri ch)) ->
  denominators_nonzero (get_fri_instance cd (plonk_zeta ch)) (cd_fri_params cd)
                       (fri_query_indices (pc_fri ch)) ->
  forall s, verify_with_challenges cd vo pr pih ch <> Panic s.
Proof.
  intros Hwf Hvo Hv Hfs Hb Hi Hnz. apply verify_no_panic; auto.
  destruct (validate_fri_proof_shape_inv _ _ _ Hfs) as [Hcl _]. congruence.
Qed.

(* ---- the challenges computed by the verifier itself have the required lengths and ranges *)
Section RealChallenges.
  Local Transparent get_challenges.

  Lemma challenges_fri_betas_length cd vo pr pih :
    length (fri_betas (pc_fri (get_challenges cd vo pr pih))) = length (fp_caps (opening_proof pr)).
  Proof.
    unfold get_challenges. cbv zeta. cbn [pc_fri fri_betas]. rewrite map_length, seq_length. reflexivity.
  Qed.

  Lemma challenges_indices_in_range cd vo pr pih :
    Forall (fun x => x < 2 ^ (degree_bits (cd_fri_params cd) + rate_bits (cfg_fri (cd_config cd))))
           (fri_query_indices (pc_fri (get_challenges cd vo pr pih))).
  Proof.
    unfold get_challenges. cbv zeta. cbn [pc_fri fri_query_indices].
    apply Forall_forall. intros x Hin. apply in_map_iff in Hin. destruct Hin as [v [Hx _]]. subst x.
    set (n := 2 ^ (degree_bits (cd_fri_params cd) + rate_bits (cfg_fri (cd_config cd)))).
    assert (Hn : 0 < n) by (apply fs_pow2_pos).
    pose proof (Z.mod_pos_bound (fval v) (Z.of_nat n) ltac:(lia)) as Hb. lia.
  Qed.

End RealChallenges.

Theorem verify_total_up_to_zero_denominator cd vo pr :
  cd_wf cd -> vo_wf cd vo ->
  (let ch := get_challenges cd vo pr (p_hash_no_pad (public_inputs pr)) in
   denominators_nonzero (get_fri_instance cd (plonk_zeta ch)) (cd_fri_params cd)
                        (fri_query_indices (pc_fri ch))) ->
  forall s, verify cd vo pr <> Panic s.
Proof.
  cbv zeta. intros Hwf Hvo Hnz site. unfold verify.
  destruct (validate_proof_shape cd pr) eqn:Hv; [|discriminate].
  apply verify_no_panic; auto.
  - apply challenges_fri_betas_length.
  - unfold lde_bits. rewrite (wf_fri_cfg cd Hwf). apply challenges_indices_in_range.
Qed.

(* ------------------------------------------------------------------ the quotient check reads in range *)
Lemma div_ceil_mul n q : 1 <= q -> div_ceil (n * q) q = n.
Proof.
  intros Hq. unfold div_ceil. replace (n * q + q - 1) with (n * q + (q - 1)) by lia.
  rewrite Nat.div_add_l by lia. rewrite Nat.div_small by lia. lia.
Qed.

(* vanishing_polys_zeta[i] for every quotient chunk i: in range when there is one alpha per challenge *)
Lemma quotient_index_in_range cd pr x pih ch van :
  cd_wf cd -> validate_proof_shape cd pr = true ->
  length (plonk_alphas ch) = num_challenges (cd_config cd) ->
  eval_vanishing_poly cd x (openings pr) pih ch = Some van ->
  length (qchunks cd pr) = num_challenges (cd_config cd)
  /\ forall i chunk, nth_error (qchunks cd pr) i = Some chunk -> i < length van.
Proof.
  intros Hwf Hv Ha Ev. pose proof (validate_proof_shape_inv cd pr Hv) as Hs. cbv zeta in Hs.
  assert (Hq : 1 <= quotient_degree_factor cd) by (destruct Hwf; lia).
  destruct (eval_vanishing_poly_some cd x (openings pr) pih ch Hq (cd_wf_npp cd Hwf)) as [van' [E Hl]];
    [tauto|].
  rewrite E in Ev. inversion Ev; subst van'.
  assert (Hlen : length (qchunks cd pr) = num_challenges (cd_config cd)).
  { unfold qchunks. rewrite chunks_length by lia.
    replace (length (os_quotient (openings pr))) with (num_quotient_polys cd) by (symmetry; tauto).
    unfold num_quotient_polys. apply div_ceil_mul. exact Hq. }
  split; [exact Hlen|]. intros i chunk Hi.
  assert (i < length (qchunks cd pr)) by (apply nth_error_Some; congruence). lia.
Qed.

(* ------------------------------------------------------------------ lengths of the derived challenges *)
Fixpoint squeeze_sizes (ops : list chop) : list nat :=
  match ops with
  | [] => []
  | Observe _ :: t => squeeze_sizes t
  | Squeeze n :: t => n :: squeeze_sizes t
  end.

Lemma squeeze_sizes_app a b : squeeze_sizes (a ++ b) = squeeze_sizes a ++ squeeze_sizes b.
Proof. induction a as [|[xs|n] t IH]; cbn [app squeeze_sizes]; [reflexivity|exact IH|rewrite IH; reflexivity]. Qed.

Lemma get_n_challenges_length n : forall c, length (fst (get_n_challenges c n)) = n.
Proof.
  induction n as [|n IH]; intros c; cbn [get_n_challenges]; [reflexivity|].
  destruct (get_challenge c) as [x c1]. specialize (IH c1).
  destruct (get_n_challenges c1 n) as [xs c2]. cbn [fst length] in *. lia.
Qed.

Lemma run_ops_lengths ops : forall c, map (@length Fp) (run_ops c ops) = squeeze_sizes ops.
Proof.
  induction ops as [|[xs|n] t IH]; intros c; cbn [run_ops squeeze_sizes]; [reflexivity|apply IH|].
  pose proof (get_n_challenges_length n c) as Hl.
  destruct (get_n_challenges c n) as [out c']. cbn [fst] in Hl. cbn [map]. rewrite IH, Hl. reflexivity.
Qed.

Lemma nth_length_of_map (l : list (list Fp)) k : length (nth k l []) = nth k (map (@length Fp) l) 0.
Proof. change 0 with (length (@nil Fp)). rewrite map_nth. reflexivity. Qed.

Section RealChallengeLengths.
  Local Transparent get_challenges.

  Lemma plonk_ops_squeeze_prefix cd vo pr pih :
    let nch := num_challenges (cd_config cd) in
    exists rest,
      squeeze_sizes (plonk_ops cd vo pr pih)
      = [nch; nch] ++ (if negb (Nat.eqb (num_lookup_polys cd) 0) then [NUM_COINS_LOOKUP * nch - 2 * nch] else [])
        ++ [nch] ++ rest.
  Proof.
    cbv zeta. unfold plonk_ops. cbv zeta. rewrite !squeeze_sizes_app.
    cbn [squeeze_sizes app]. eexists.
    destruct (negb (Nat.eqb (num_lookup_polys cd) 0)); cbn [squeeze_sizes app]; reflexivity.
  Qed.

  Lemma challenges_plonk_lengths cd vo pr pih :
    let ch := get_challenges cd vo pr pih in
    let nch := num_challenges (cd_config cd) in
    length (plonk_betas ch) = nch /\ length (plonk_gammas ch) = nch /\ length (plonk_alphas ch) = nch
    /\ (num_lookup_polys cd <> 0 -> length (plonk_deltas ch) = NUM_COINS_LOOKUP * nch).
  Proof.
    cbv zeta. unfold get_challenges. cbv zeta. cbn [plonk_betas plonk_gammas plonk_alphas plonk_deltas].
    destruct (plonk_ops_squeeze_prefix cd vo pr pih) as [rest Hsq]. cbv zeta in Hsq.
    pose proof (run_ops_lengths (plonk_ops cd vo pr pih) ch_new) as Hl. rewrite Hsq in Hl.
    revert Hl. destruct (Nat.eqb (num_lookup_polys cd) 0) eqn:En; cbn [negb app]; intros Hl;
      rewrite ?app_length, ?nth_length_of_map, Hl; cbn [nth].
    - split; [reflexivity|]. split; [reflexivity|]. split; [reflexivity|].
      intros Hne. apply Nat.eqb_eq in En. contradiction.
    - split; [reflexivity|]. split; [reflexivity|]. split; [reflexivity|].
      intros _. unfold NUM_COINS_LOOKUP. lia.
  Qed.
End RealChallengeLengths.

(* for the challenges the verifier derives itself, every indexed read of eval_vanishing_poly is in range *)
Corollary verify_vanishing_accesses_in_range cd vo pr :
  cd_wf cd -> validate_proof_shape cd pr = true ->
  vanishing_accesses_in_range cd (openings pr)
    (get_challenges cd vo pr (p_hash_no_pad (public_inputs pr))).
Proof.
  intros Hwf Hv.
  destruct (challenges_plonk_lengths cd vo pr (p_hash_no_pad (public_inputs pr))) as [Hb [Hg [_ Hd]]].
  apply vanishing_accesses_ok; auto.
Qed.

(* ------------------------------------------------------------------ when the denominators cannot vanish *)
(* query points lie in the base field: an opening point outside it is never met *)
Lemma denominators_nonzero_outside_base_field inst p idxs :
  (forall b, In b (batches inst) -> snd (point b) <> toFp 0) ->
  denominators_nonzero inst p idxs.
Proof.
  intros Hout x b _ Hb. specialize (Hout b Hb).
  destruct (fp2_of_base (subgroup_point p x) - point b =? 0)%F eqn:E; [|reflexivity].
  exfalso. apply Hout. destruct (point b) as [b0 b1]. cbn [snd].
  unfold fp2_of_base in E. cbn [feqb fsub fzero Fp2Ops fst snd] in E.
  apply andb_true_iff in E. destruct E as [_ E]. apply f_eqb_spec in E.
  apply (proj1 (f_sub_eq_0 (toFp 0) b1)) in E. symmetry. exact E.
Qed.

Corollary plonk_denominators_nonzero cd zeta idxs :
  snd zeta <> toFp 0 ->
  snd (ext_primitive_root_of_unity (degree_bits (cd_fri_params cd)) * zeta)%F <> toFp 0 ->
  denominators_nonzero (get_fri_instance cd zeta) (cd_fri_params cd) idxs.
Proof.
  intros Hz Hgz. apply denominators_nonzero_outside_base_field.
  unfold get_fri_instance. cbv zeta. cbn [batches]. intros b [<-|[<-|[]]]; cbn [point]; assumption.
Qed.

(* ---- g (the generator of the trace subgroup, as an extension element) lies in the base field
   for every degree up to the two-adicity of the base field: g*zeta leaves the base field exactly
   when zeta does *)
Section SubgroupGeneratorInBase.
  Add Ring FpRing : (@F_ring_theory Fp _ FpLaws).
  Local Open Scope field_scope.

  Lemma fp2_base_square (a : Fp) : fsquare ((a, 0) : Fp2) = ((a * a), 0).
  Proof. unfold fsquare. cbn [fmul Fp2Ops fp2_mul]. f_equal; ring. Qed.

  Lemma exp_power_of_2_base k : forall a : Fp, a <> 0 ->
    exists b : Fp, b <> 0 /\ exp_power_of_2 ((a, 0) : Fp2) k = (b, 0).
  Proof.
    induction k as [|k IH]; intros a Ha; cbn [exp_power_of_2]; [exists a; auto|].
    rewrite fp2_base_square. apply IH. apply f_mul_neq_0; exact Ha.
  Qed.

  Lemma toFp_neq_0 z : (z mod P <> 0)%Z -> toFp z <> 0.
  Proof. intros Hz E. apply (f_equal fval) in E. cbn in E. apply Hz. exact E. Qed.

  Lemma ext_root_in_base n : (n <= 32)%nat ->
    exists b : Fp, b <> 0 /\ ext_primitive_root_of_unity n = (b, 0).
  Proof.
    intros Hn. unfold ext_primitive_root_of_unity.
    change (Z.to_nat Gen.FieldConsts.TWO_ADICITY) with 32%nat.
    replace (33 - n)%nat with (S (32 - n)) by lia. cbn [exp_power_of_2].
    set (c := toFp (nth 1 Gen.FieldConsts.EXT2_EXT_POWER_OF_TWO_GENERATOR 0%Z)).
    assert (Hsq : fsquare ((toFp (nth 0 Gen.FieldConsts.EXT2_EXT_POWER_OF_TWO_GENERATOR 0%Z), c) : Fp2)
                  = ((W2 * (c * c)), 0)).
    { unfold fsquare. cbn [fmul Fp2Ops fp2_mul].
      change (toFp (nth 0 Gen.FieldConsts.EXT2_EXT_POWER_OF_TWO_GENERATOR 0%Z)) with (0 : Fp).
      f_equal; ring. }
    change (Fp * Fp)%type with Fp2. rewrite Hsq. apply exp_power_of_2_base. apply f_mul_neq_0.
    - apply toFp_neq_0. vm_compute. discriminate.
    - apply f_mul_neq_0; apply toFp_neq_0; vm_compute; discriminate.
  Qed.

  Corollary plonk_denominators_nonzero_zeta cd zeta idxs :
    (degree_bits (cd_fri_params cd) <= 32)%nat -> snd zeta <> 0 ->
    denominators_nonzero (get_fri_instance cd zeta) (cd_fri_params cd) idxs.
  Proof.
    intros Hd Hz. apply plonk_denominators_nonzero; [exact Hz|].
    destruct (ext_root_in_base _ Hd) as [b [Hb ->]]. destruct zeta as [z0 z1]. cbn [snd] in *.
    cbn [fmul Fp2Ops fp2_mul snd].
    replace (b * z1 + 0 * z0) with (b * z1) by ring. change (toFp 0) with (0 : Fp).
    apply f_mul_neq_0; assumption.
  Qed.
End SubgroupGeneratorInBase.

(* the entry point never panics when the derived zeta lies outside the base field *)
Theorem verify_total_zeta_outside_base cd vo pr :
  cd_wf cd -> vo_wf cd vo -> degree_bits (cd_fri_params cd) <= 32 ->
  snd (plonk_zeta (get_challenges cd vo pr (p_hash_no_pad (public_inputs pr)))) <> toFp 0 ->
  forall s, verify cd vo pr <> Panic s.
Proof.
  intros Hwf Hvo Hd Hz. apply verify_total_up_to_zero_denominator; auto.
  cbv zeta. apply plonk_denominators_nonzero_zeta; assumption.
Qed.
