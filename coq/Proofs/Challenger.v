(* C13 (d) - the challenger.
   * ch_wf is an invariant of the public operations; under it the `assert!` of duplexing and the
     `expect` of get_challenge never fire;
   * recursive_challenger_eq_native: for every sequence of observe / squeeze operations the
     RecursiveChallenger behaviour (buffer everything, absorb in RATE-chunks at the next
     challenge) returns the same challenges as the native Challenger;
   * any chunking of the observed elements into observe_elements calls gives the same run;
   * no stale output: observe_element never looks at the output buffer, and in every reachable
     state the buffered outputs are a prefix of the rate part of the CURRENT sponge state with no
     input pending - every challenge is read from a permutation applied after the last observe;
   * the state after observing xs and compacting is the sponge's absorb state. *)
From Coq Require Import ZArith List Arith Bool Lia.
From Verif Require Import Base.Field Model.Sponge Model.Challenger Proofs.Sponge.
Import ListNotations.

Section ChallengerFacts.
  Context {F : Type} {FO : FieldOps F}.
  Variable permute : list F -> list F.
  Hypothesis Hperm : forall s, length (permute s) = 12%nat.
  Local Open Scope nat_scope.

  Notation st := (chstate F).
  Notation absorbP := (absorb permute).

  Lemma is_nil_true {A} (l : list A) : is_nil l = true <-> l = [].
  Proof. destruct l; cbn; split; congruence. Qed.
  Lemma is_nil_false {A} (l : list A) : is_nil l = false <-> l <> [].
  Proof. destruct l; cbn; split; congruence. Qed.

  Lemma squeeze_nonnil (s : list F) : length s = 12 -> squeeze s <> [].
  Proof. intros H E. apply (f_equal (@length F)) in E. rewrite (squeeze_length s H) in E. discriminate E. Qed.

  (* ------------------------------------------------------------ well-formedness / no panic *)
  Lemma ch_new_wf : ch_wf (@ch_new F FO).
  Proof. split; [apply zero_state_length | cbn; unfold SPONGE_RATE; lia]. Qed.

  Lemma duplexing_wf (s : st) : ch_wf (duplexing permute s).
  Proof. split; cbn; [apply Hperm | unfold SPONGE_RATE; lia]. Qed.

  Lemma observe_element_wf (s : st) x : ch_wf s -> ch_wf (observe_element permute s x).
  Proof.
    intros [Hs Hi]. unfold observe_element. cbn [input_buffer sponge_state].
    destruct (Nat.eqb_spec (length (input_buffer s ++ [x])) SPONGE_RATE) as [E|E].
    - apply duplexing_wf.
    - split; cbn; [exact Hs|]. rewrite app_length in *. cbn [length] in *. lia.
  Qed.

  Lemma observe_elements_wf xs : forall (s : st), ch_wf s -> ch_wf (observe_elements permute s xs).
  Proof.
    induction xs as [|x xs IH]; intros s H; [exact H|]. apply IH. apply observe_element_wf. exact H.
  Qed.

  Lemma get_challenge_wf (s : st) : ch_wf s -> ch_wf (snd (get_challenge permute s)).
  Proof.
    intros H. unfold get_challenge.
    destruct (negb (is_nil (input_buffer s)) || is_nil (output_buffer s))%bool; cbn [pop_last snd].
    - apply (duplexing_wf s).
    - exact H.
  Qed.

  Lemma get_n_challenges_wf n : forall (s : st), ch_wf s -> ch_wf (snd (get_n_challenges permute n s)).
  Proof.
    induction n as [|n IH]; intros s H; [exact H|]. cbn [get_n_challenges].
    pose proof (get_challenge_wf s H) as H1. destruct (get_challenge permute s) as [c s1]. cbn [snd] in H1.
    specialize (IH s1 H1). destruct (get_n_challenges permute n s1) as [cs s2]. exact IH.
  Qed.

  (* the assert of duplexing holds at both call sites *)
  Lemma duplexing_assert_in_observe (s : st) x : ch_wf s ->
    duplexing_assert (mkCh (sponge_state s) (input_buffer s ++ [x]) []) = true.
  Proof.
    intros [_ Hi]. unfold duplexing_assert. cbn [input_buffer]. apply Nat.leb_le.
    rewrite app_length. cbn [length]. lia.
  Qed.
  Lemma duplexing_assert_in_get_challenge (s : st) : ch_wf s -> duplexing_assert s = true.
  Proof. intros [_ Hi]. unfold duplexing_assert. apply Nat.leb_le. lia. Qed.

  (* the buffer popped by get_challenge is never empty *)
  Lemma get_challenge_pops_nonempty (s : st) : ch_wf s ->
    output_buffer (if (negb (is_nil (input_buffer s)) || is_nil (output_buffer s))%bool
                   then duplexing permute s else s) <> [].
  Proof.
    intros H. destruct (is_nil (input_buffer s)) eqn:Ei; cbn [negb orb].
    - destruct (is_nil (output_buffer s)) eqn:Eo.
      + cbn. apply squeeze_nonnil, Hperm.
      + apply is_nil_false. exact Eo.
    - cbn. apply squeeze_nonnil, Hperm.
  Qed.

  (* ------------------------------------------------------------ no stale output *)
  Lemma observe_element_ignores_output s_st ib ob1 ob2 x :
    observe_element permute (mkCh s_st ib ob1) x = observe_element permute (mkCh s_st ib ob2) x.
  Proof. reflexivity. Qed.

  Definition ch_fresh (s : st) : Prop :=
    ch_wf s /\
    (output_buffer s <> [] ->
     input_buffer s = [] /\ exists k, k <= SPONGE_RATE /\ output_buffer s = firstn k (sponge_state s)).

  Lemma squeeze_firstn (s : list F) : squeeze s = firstn SPONGE_RATE s.
  Proof. reflexivity. Qed.

  Lemma duplexing_fresh (s : st) : ch_fresh (duplexing permute s).
  Proof.
    split; [apply duplexing_wf|]. intros _. cbn. split; [reflexivity|].
    exists SPONGE_RATE. split; [lia|reflexivity].
  Qed.

  Lemma ch_new_fresh : ch_fresh (@ch_new F FO).
  Proof. split; [apply ch_new_wf|]. cbn. intros H; contradiction. Qed.

  Lemma observe_element_fresh (s : st) x : ch_wf s -> ch_fresh (observe_element permute s x).
  Proof.
    intros H. unfold observe_element. cbn [input_buffer sponge_state].
    destruct (Nat.eqb_spec (length (input_buffer s ++ [x])) SPONGE_RATE) as [E|E].
    - apply duplexing_fresh.
    - split.
      + pose proof (observe_element_wf s x H) as W. unfold observe_element in W. cbn [input_buffer sponge_state] in W.
        destruct (Nat.eqb_spec (length (input_buffer s ++ [x])) SPONGE_RATE); [contradiction|exact W].
      + cbn. intros C; contradiction.
  Qed.

  Lemma last_firstn_S : forall k (l : list F) d, k < length l -> last (firstn (S k) l) d = nth k l d.
  Proof.
    induction k as [|k IH]; intros l d Hk; destruct l as [|a l]; cbn [length] in Hk; try lia.
    - reflexivity.
    - cbn [firstn nth]. specialize (IH l d ltac:(lia)).
      destruct l as [|b l]; [cbn in Hk; lia|]. cbn [firstn] in *. cbn [last]. exact IH.
  Qed.

  (* every challenge is an element of the rate part of the current sponge state, which has absorbed
     all observed inputs *)
  Theorem get_challenge_fresh (s : st) : ch_fresh s ->
    let '(c, s') := get_challenge permute s in
    ch_fresh s' /\ input_buffer s' = [] /\
    exists k, k < SPONGE_RATE /\ output_buffer s' = firstn k (sponge_state s') /\
              c = nth k (sponge_state s') fzero.
  Proof.
    intros [Hwf Hfr]. unfold get_challenge.
    set (s1 := if (negb (is_nil (input_buffer s)) || is_nil (output_buffer s))%bool then duplexing permute s else s).
    assert (H1 : ch_wf s1 /\ input_buffer s1 = [] /\
                 exists k, k <= SPONGE_RATE /\ k <> 0 /\ output_buffer s1 = firstn k (sponge_state s1)).
    { unfold s1. destruct (is_nil (input_buffer s)) eqn:Ei; cbn [negb orb].
      - destruct (is_nil (output_buffer s)) eqn:Eo.
        + split; [apply duplexing_wf|]. split; [reflexivity|]. exists SPONGE_RATE. split; [lia|]. split; [unfold SPONGE_RATE; lia|]. reflexivity.
        + apply is_nil_false in Eo. destruct (Hfr Eo) as (Hi & k & Hk & Ek).
          split; [exact Hwf|]. split; [exact Hi|]. exists k. repeat split; try assumption.
          intros ->. rewrite Ek in Eo. apply Eo. reflexivity.
      - split; [apply duplexing_wf|]. split; [reflexivity|]. exists SPONGE_RATE. split; [lia|]. split; [unfold SPONGE_RATE; lia|]. reflexivity. }
    clearbody s1. destruct H1 as ([Hl1 Hi1] & Hib & k & Hk & Hk0 & Ek).
    destruct k as [|k]; [contradiction|]. unfold pop_last. rewrite Ek.
    assert (Hkl : k < length (sponge_state s1)) by (rewrite Hl1; unfold SPONGE_RATE, SPONGE_WIDTH in *; lia).
    rewrite removelast_firstn by exact Hkl. rewrite last_firstn_S by exact Hkl.
    cbn [sponge_state input_buffer output_buffer]. split; [|split].
    - split; [split; assumption|]. cbn [output_buffer input_buffer sponge_state]. intros _. split; [exact Hib|].
      exists k. split; [lia|reflexivity].
    - exact Hib.
    - exists k. split; [unfold SPONGE_RATE in *; lia|]. split; reflexivity.
  Qed.

  (* ------------------------------------------------------------ simulation native / recursive *)
  Definition Rel (n r : st) : Prop :=
    length (sponge_state r) = 12 /\
    exists full rest,
      input_buffer r = full ++ rest /\ full_chunks full /\ length rest < SPONGE_RATE /\
      sponge_state n = absorbP (sponge_state r) full /\ input_buffer n = rest /\
      ((input_buffer r = [] /\ output_buffer n = output_buffer r) \/
       (input_buffer r <> [] /\ output_buffer r = [] /\
        output_buffer n = if is_nil rest then squeeze (sponge_state n) else [])).

  Lemma Rel_new : Rel (@ch_new F FO) (@ch_new F FO).
  Proof.
    split; [apply zero_state_length|]. exists [], [].
    split; [reflexivity|]. split; [constructor|]. split; [cbn; unfold SPONGE_RATE; lia|].
    split; [reflexivity|]. split; [reflexivity|]. left. split; reflexivity.
  Qed.

  Lemma Rel_native_length n r : Rel n r -> length (sponge_state n) = 12.
  Proof.
    intros (Hl & full & rest & _ & _ & _ & Hs & _). rewrite Hs. apply absorb_length; assumption.
  Qed.

  Lemma Rel_observe n r x : Rel n r -> Rel (observe_element permute n x) (r_observe_element r x).
  Proof.
    intros HR. pose proof (Rel_native_length n r HR) as Hln.
    destruct HR as (Hl & full & rest & Hib & Hfc & Hrest & Hs & Hin & _).
    unfold observe_element, r_observe_element. cbn [input_buffer sponge_state].
    rewrite Hin. split; [exact Hl|].
    destruct (Nat.eqb_spec (length (rest ++ [x])) SPONGE_RATE) as [E|E].
    - (* the 8th pending element: the native challenger duplexes now *)
      exists (full ++ (rest ++ [x])), []. unfold duplexing. cbn [sponge_state input_buffer output_buffer is_nil].
      assert (Hst : permute (set_from_iter (sponge_state n) (rest ++ [x]) 0)
                    = absorbP (sponge_state r) (full ++ (rest ++ [x]))).
      { rewrite set_from_iter_overwrite by (rewrite Hln, E; unfold SPONGE_RATE; lia).
        rewrite (absorb_app_full permute full Hfc). rewrite <- Hs.
        rewrite (absorb_one_chunk permute); [reflexivity| destruct rest; discriminate | lia]. }
      split; [rewrite Hib, app_nil_r, app_assoc; reflexivity|].
      split; [apply full_chunks_app; assumption|].
      split; [cbn; unfold SPONGE_RATE; lia|].
      split; [exact Hst|]. split; [reflexivity|].
      right. split; [destruct (input_buffer r); discriminate|]. split; reflexivity.
    - exists full, (rest ++ [x]). cbn [sponge_state input_buffer output_buffer].
      split; [rewrite Hib, app_assoc; reflexivity|]. split; [exact Hfc|].
      split; [rewrite app_length in *; cbn [length] in *; lia|].
      split; [exact Hs|]. split; [reflexivity|].
      right. split; [destruct (input_buffer r); discriminate|]. split; [reflexivity|].
      destruct rest; reflexivity.
  Qed.

  Lemma Rel_observe_elements xs : forall n r, Rel n r ->
    Rel (observe_elements permute n xs) (r_observe_elements r xs).
  Proof.
    induction xs as [|x xs IH]; intros n r H; [exact H|]. apply IH. apply Rel_observe. exact H.
  Qed.

  Lemma app_eq_nil_l {A} (a b : list A) : a ++ b = [] -> a = [] /\ b = [].
  Proof. destruct a; cbn; intros E; [split; [reflexivity|exact E] | discriminate E]. Qed.

  (* after the pending inputs are absorbed both machines are in the same state *)
  Lemma Rel_flush n r : Rel n r ->
    let n1 := if (negb (is_nil (input_buffer n)) || is_nil (output_buffer n))%bool then duplexing permute n else n in
    let r1 := absorb_buffered_inputs permute r in
    let r2 := if is_nil (output_buffer r1)
              then let s' := permute (sponge_state r1) in mkCh s' (input_buffer r1) (squeeze s') else r1 in
    n1 = r2 /\ input_buffer n1 = [] /\ length (sponge_state n1) = 12.
  Proof.
    intros HR. pose proof (Rel_native_length n r HR) as Hln.
    destruct HR as (Hl & full & rest & Hib & Hfc & Hrest & Hs & Hin & Hob).
    cbn zeta. unfold absorb_buffered_inputs.
    destruct Hob as [[Hnil Hob] | (Hnn & Hobr & Hobn)].
    - (* nothing pending on either side *)
      rewrite Hnil in Hib. symmetry in Hib. apply app_eq_nil_l in Hib. destruct Hib as [-> ->].
      rewrite Hnil. cbn [is_nil]. rewrite absorb_nil in Hs.
      rewrite Hin. cbn [is_nil negb orb]. rewrite Hob.
      destruct n as [sn ibn obn], r as [sr ibr obr]. cbn [sponge_state input_buffer output_buffer] in *. subst.
      destruct (is_nil obr) eqn:Eo.
      + unfold duplexing. cbn [sponge_state input_buffer]. rewrite set_from_iter_overwrite by (cbn; lia).
        rewrite overwrite_nil. split; [reflexivity|]. split; [reflexivity|]. cbn. apply Hperm.
      + split; [reflexivity|]. split; [reflexivity|exact Hl].
    - apply is_nil_false in Hnn. rewrite Hnn.
      set (s1 := absorbP (sponge_state r) (input_buffer r)).
      assert (Hs1 : length s1 = 12) by (apply absorb_length; assumption).
      cbn [output_buffer]. pose proof (squeeze_nonnil s1 Hs1) as Hsq. apply is_nil_false in Hsq. rewrite Hsq.
      assert (Es1 : s1 = absorbP (sponge_state n) rest).
      { unfold s1. rewrite Hib, (absorb_app_full permute full Hfc), <- Hs. reflexivity. }
      rewrite Hin, Hobn. destruct rest as [|a rest].
      + cbn [is_nil negb orb]. pose proof (squeeze_nonnil _ Hln) as Hq. apply is_nil_false in Hq. rewrite Hq.
        rewrite absorb_nil in Es1.
        destruct n as [sn ibn obn]. cbn [sponge_state input_buffer output_buffer] in *. subst.
        rewrite Es1. split; [reflexivity|]. split; [reflexivity|exact Hln].
      + cbn [is_nil negb orb]. unfold duplexing. rewrite Hin.
        rewrite set_from_iter_overwrite by (rewrite Hln; unfold SPONGE_RATE in Hrest; lia).
        rewrite (absorb_one_chunk permute) in Es1; [|discriminate|lia].
        rewrite <- Es1. split; [reflexivity|]. split; [reflexivity|exact Hs1].
  Qed.

  Lemma Rel_same (s : st) : length (sponge_state s) = 12 -> input_buffer s = [] -> Rel s s.
  Proof.
    intros Hl Hi. split; [exact Hl|]. exists [], []. rewrite Hi.
    split; [reflexivity|]. split; [constructor|]. split; [cbn; unfold SPONGE_RATE; lia|].
    split; [reflexivity|]. split; [reflexivity|]. left. split; reflexivity.
  Qed.

  Lemma Rel_get_challenge n r : Rel n r ->
    fst (get_challenge permute n) = fst (r_get_challenge permute r) /\
    Rel (snd (get_challenge permute n)) (snd (r_get_challenge permute r)).
  Proof.
    intros HR. pose proof (Rel_flush n r HR) as HF. cbn zeta in HF.
    unfold get_challenge, r_get_challenge.
    destruct HF as (E & Hi & Hl). rewrite <- E.
    set (n1 := if (negb (is_nil (input_buffer n)) || is_nil (output_buffer n))%bool then duplexing permute n else n) in *.
    cbn [pop_last fst snd]. split; [reflexivity|].
    apply Rel_same; cbn; assumption.
  Qed.

  Lemma Rel_get_n_challenges k : forall n r, Rel n r ->
    fst (get_n_challenges permute k n) = fst (r_get_n_challenges permute k r) /\
    Rel (snd (get_n_challenges permute k n)) (snd (r_get_n_challenges permute k r)).
  Proof.
    induction k as [|k IH]; intros n r HR; cbn [get_n_challenges r_get_n_challenges].
    - split; [reflexivity|exact HR].
    - destruct (Rel_get_challenge n r HR) as [Ec HR1].
      destruct (get_challenge permute n) as [c n1]. destruct (r_get_challenge permute r) as [c' r1].
      cbn [fst snd] in *. subst c'. destruct (IH n1 r1 HR1) as [Ecs HR2].
      destruct (get_n_challenges permute k n1) as [cs n2]. destruct (r_get_n_challenges permute k r1) as [cs' r2].
      cbn [fst snd] in *. subst cs'. split; [reflexivity|exact HR2].
  Qed.

  Lemma Rel_run ops : forall out n r, Rel n r ->
    fst (fold_left (ch_step permute) ops (out, n)) = fst (fold_left (rch_step permute) ops (out, r)).
  Proof.
    induction ops as [|op ops IH]; intros out n r HR; cbn [fold_left]; [reflexivity|].
    destruct op as [xs|k]; cbn [ch_step rch_step].
    - apply IH. apply Rel_observe_elements. exact HR.
    - destruct (Rel_get_n_challenges k n r HR) as [E HR1].
      destruct (get_n_challenges permute k n) as [cs n1]. destruct (r_get_n_challenges permute k r) as [cs' r1].
      cbn [fst snd] in *. subst cs'. apply IH. exact HR1.
  Qed.

  Theorem recursive_challenger_eq_native : forall ops, run_native permute ops = run_recursive permute ops.
  Proof. intros ops. unfold run_native, run_recursive, run_native_from, run_recursive_from. apply Rel_run, Rel_new. Qed.

  (* ------------------------------------------------------------ chunking of observations *)
  Lemma observe_elements_app (s : st) xs ys :
    observe_elements permute s (xs ++ ys) = observe_elements permute (observe_elements permute s xs) ys.
  Proof. unfold observe_elements. apply fold_left_app. Qed.

  Lemma observe_elements_concat chunks : forall (s : st),
    fold_left (observe_elements permute) chunks s = observe_elements permute s (concat chunks).
  Proof.
    induction chunks as [|c chunks IH]; intros s; cbn [fold_left concat]; [reflexivity|].
    rewrite IH, observe_elements_app. reflexivity.
  Qed.

  Theorem observe_chunking_irrelevant : forall chunks ops (s : st),
    run_native_from permute s (map Observe chunks ++ ops)
    = run_native_from permute s (Observe (concat chunks) :: ops).
  Proof.
    intros chunks ops s. unfold run_native_from. rewrite fold_left_app. cbn [fold_left ch_step].
    f_equal. generalize (@nil F). revert s.
    induction chunks as [|c chunks IH]; intros s out; cbn [map fold_left concat ch_step]; [reflexivity|].
    rewrite IH. rewrite observe_elements_app. reflexivity.
  Qed.

  (* ------------------------------------------------------------ compact = sponge absorb state *)
  Lemma r_observe_elements_spec xs : forall (s : st),
    r_observe_elements s xs = mkCh (sponge_state s) (input_buffer s ++ xs)
                                   (match xs with [] => output_buffer s | _ => [] end).
  Proof.
    induction xs as [|x xs IH]; intros s.
    - cbn. rewrite app_nil_r. destruct s; reflexivity.
    - cbn [r_observe_elements fold_left]. fold (r_observe_elements (r_observe_element s x) xs).
      rewrite IH. cbn [r_observe_element sponge_state input_buffer output_buffer].
      rewrite <- app_assoc. cbn [app]. destruct xs; reflexivity.
  Qed.

  Theorem challenger_state_is_sponge : forall xs,
    fst (compact permute (observe_elements permute ch_new xs)) = absorbP zero_state xs.
  Proof.
    intros xs. pose proof (Rel_observe_elements xs _ _ Rel_new) as HR.
    rewrite r_observe_elements_spec in HR. cbn [ch_new sponge_state input_buffer output_buffer app] in HR.
    set (n := observe_elements permute ch_new xs) in *.
    pose proof (Rel_native_length _ _ HR) as Hln.
    destruct HR as (Hl & full & rest & Hib & Hfc & Hrest & Hs & Hin & _).
    cbn [sponge_state input_buffer output_buffer] in *.
    unfold compact. rewrite Hin. subst xs. rewrite (absorb_app_full permute full Hfc), <- Hs.
    destruct rest as [|a rest]; cbn [is_nil negb fst sponge_state].
    - rewrite absorb_nil. reflexivity.
    - unfold duplexing. cbn [sponge_state]. rewrite Hin.
      rewrite set_from_iter_overwrite by (rewrite Hln; unfold SPONGE_RATE in Hrest; lia).
      rewrite (absorb_one_chunk permute); [reflexivity|discriminate|lia].
  Qed.
End ChallengerFacts.
