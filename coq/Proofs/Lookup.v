(* C08 kernel: algebra of the Sum / LDC transition constraints, telescoping of the partial
   running sums over the rows of a table, the counting identity behind the logarithmic
   derivative argument, the RE recurrence and its root bound, and completeness of the prover's
   lookup polynomials. *)
From Coq Require Import List Arith Bool Lia.
From Verif Require Import Base.Field Base.Poly Model.Permutation Proofs.Permutation Model.Lookup.
Import ListNotations.
Local Open Scope field_scope.

Section LookupProofs.
  Context {F : Type} `{FL : FieldLaws F}.
  Add Field Fflk : (@F_field_theory F _ FL).

  (* ------------------------------------------------------------ sums *)
  Lemma fold_left_add {A} (g : A -> F) (l : list A) a :
    fold_left (fun acc i => acc + g i) l a = a + fsum (map g l).
  Proof.
    revert a. induction l as [|x l IH]; intros a; cbn [fold_left map fsum fold_right].
    - ring.
    - rewrite IH. unfold fsum. ring.
  Qed.

  Lemma fsum_cons a l : fsum (a :: l) = a + fsum l.
  Proof. reflexivity. Qed.

  Lemma fsum_map_scale {A} (c : F) (g : A -> F) l : fsum (map (fun i => c * g i) l) = c * fsum (map g l).
  Proof. induction l as [|x l IH]; cbn [map]; rewrite ?fsum_cons; [cbn; ring|]. rewrite IH. ring. Qed.

  Lemma fsum_map_neg {A} (g : A -> F) l : fsum (map (fun i => - g i) l) = - fsum (map g l).
  Proof. induction l as [|x l IH]; cbn [map]; rewrite ?fsum_cons; [cbn; ring|]. rewrite IH. ring. Qed.

  Lemma fsum_map_ext_in {A} (g h : A -> F) l : (forall i, In i l -> g i = h i) -> fsum (map g l) = fsum (map h l).
  Proof. intros E. f_equal. apply map_ext_in. exact E. Qed.

  Lemma fsum_flat_map {A B} (g : B -> F) (h : A -> list B) l :
    fsum (map g (flat_map h l)) = fsum (map (fun a => fsum (map g (h a))) l).
  Proof.
    induction l as [|a l IH]; cbn [flat_map map]; [reflexivity|].
    rewrite map_app, fsum_app, fsum_cons, IH. reflexivity.
  Qed.

  Lemma fsum_concat (ls : list (list F)) : fsum (concat ls) = fsum (map fsum ls).
  Proof. induction ls as [|l ls IH]; cbn [concat map]; [reflexivity|]. rewrite fsum_app, fsum_cons, IH. reflexivity. Qed.

  (* ------------------------------------------------------------ products with one factor left out *)
  Lemma prod_all_spec (f : nat -> F) r : prod_all f r = fprod (map f r).
  Proof. unfold prod_all. apply fprodl_fprod. Qed.

  Lemma prod_except_notin (f : nat -> F) r i : ~ In i r -> prod_except f r i = prod_all f r.
  Proof.
    intros Hni. unfold prod_except, prod_all. f_equal. apply map_ext_in. intros j Hj.
    destruct (Nat.eqb j i) eqn:E; [|reflexivity]. apply Nat.eqb_eq in E. subst. contradiction.
  Qed.

  Lemma prod_except_in (f : nat -> F) r i :
    NoDup r -> In i r -> prod_except f r i * f i = prod_all f r.
  Proof.
    intros Hnd Hin. induction r as [|j r IH]; [contradiction|].
    apply NoDup_cons_iff in Hnd. destruct Hnd as [Hnj Hnd].
    unfold prod_except, prod_all in *. rewrite !fprodl_fprod in *. cbn [map]. rewrite !fprod_cons.
    destruct Hin as [->|Hin].
    - rewrite Nat.eqb_refl.
      pose proof (prod_except_notin f r i Hnj) as E. unfold prod_except, prod_all in E.
      rewrite !fprodl_fprod in E. rewrite E. ring.
    - destruct (Nat.eqb j i) eqn:E.
      + apply Nat.eqb_eq in E. subst. contradiction.
      + specialize (IH Hnd Hin).
        transitivity (f j * (fprod (map (fun j0 => if Nat.eqb j0 i then 1 else f j0) r) * f i)); [ring|].
        rewrite IH. reflexivity.
  Qed.

  Lemma prod_except_inv (f : nat -> F) r i :
    NoDup r -> In i r -> f i <> 0 -> prod_except f r i = prod_all f r * finv (f i).
  Proof.
    intros Hnd Hin Hnz. rewrite <- (prod_except_in f r i Hnd Hin).
    transitivity (prod_except f r i * (f i * finv (f i))); [|ring].
    rewrite f_inv_r by exact Hnz. ring.
  Qed.

  Lemma prod_all_nonzero (f : nat -> F) r : (forall j, In j r -> f j <> 0) -> prod_all f r <> 0.
  Proof.
    intros Hnz. rewrite prod_all_spec. apply fprod_neq_0. apply Forall_forall. intros y Hy.
    apply in_map_iff in Hy. destruct Hy as (j & <- & Hj). auto.
  Qed.

  (* ------------------------------------------------------------ transition algebra *)
  Section Transition.
    Variables (alpha a : F) (w : list F) (r : list nat).
    Hypothesis r_nodup : NoDup r.

    Let ft j := alpha - looked_combo a w j.
    Let fl j := alpha - looking_combo a w j.

    Lemma sum_transition_factored z prev :
      (forall j, In j r -> ft j <> 0) ->
      sum_transition alpha a w r z prev =
      prod_all ft r * ((z - prev) - fsum (map (fun i => multiplicity w i * finv (ft i)) r)).
    Proof.
      intros Hnz. unfold sum_transition. fold ft. rewrite fold_left_add.
      rewrite (fsum_map_ext_in _ (fun i => prod_all ft r * (multiplicity w i * finv (ft i)))).
      - rewrite fsum_map_scale. ring.
      - intros i Hi. rewrite prod_except_inv by auto. ring.
    Qed.

    Lemma ldc_transition_factored z prev :
      (forall j, In j r -> fl j <> 0) ->
      ldc_transition alpha a w r z prev =
      prod_all fl r * ((z - prev) + fsum (map (fun i => finv (fl i)) r)).
    Proof.
      intros Hnz. unfold ldc_transition. fold fl. rewrite fold_left_add.
      rewrite (fsum_map_ext_in _ (fun i => prod_all fl r * finv (fl i))).
      - rewrite fsum_map_scale. ring.
      - intros i Hi. rewrite prod_except_inv by auto. ring.
    Qed.

    (* with non-zero factors the constraints say exactly: z - prev = sum m_i/(alpha - t_i), resp. -sum 1/(alpha - f_j) *)
    Theorem sum_transition_algebra z prev :
      (forall j, In j r -> ft j <> 0) ->
      (sum_transition alpha a w r z prev = 0 <->
       z - prev = fsum (map (fun i => multiplicity w i * finv (alpha - looked_combo a w i)) r)).
    Proof.
      intros Hnz. rewrite sum_transition_factored by exact Hnz. split.
      - intros E. apply f_mul_eq_0 in E. destruct E as [E|E].
        + exfalso. revert E. apply prod_all_nonzero. exact Hnz.
        + apply f_sub_eq_0. exact E.
      - intros E. unfold ft. rewrite E. ring.
    Qed.

    Theorem ldc_transition_algebra z prev :
      (forall j, In j r -> fl j <> 0) ->
      (ldc_transition alpha a w r z prev = 0 <->
       z - prev = - fsum (map (fun i => finv (alpha - looking_combo a w i)) r)).
    Proof.
      intros Hnz. rewrite ldc_transition_factored by exact Hnz. split.
      - intros E. apply f_mul_eq_0 in E. destruct E as [E|E].
        + exfalso. revert E. apply prod_all_nonzero. exact Hnz.
        + apply f_sub_eq_0. rewrite <- E. unfold fl. ring.
      - intros E. unfold fl. rewrite E. ring.
    Qed.
  End Transition.

  (* ------------------------------------------------------------ the partial polynomials cover all slots *)
  Lemma div_ceil_mul a b : (1 <= b)%nat -> (a <= div_ceil a b * b)%nat.
  Proof.
    intros Hb. unfold div_ceil.
    pose proof (Nat.div_mod (a + b - 1) b ltac:(lia)) as E.
    pose proof (Nat.mod_upper_bound (a + b - 1) b ltac:(lia)) as U.
    nia.
  Qed.

  Lemma range_app lo mid hi : (lo <= mid)%nat -> (mid <= hi)%nat -> range lo mid ++ range mid hi = range lo hi.
  Proof.
    intros H1 H2. unfold range. replace (hi - lo)%nat with ((mid - lo) + (hi - mid))%nat by lia.
    rewrite seq_app. f_equal. f_equal. lia.
  Qed.

  Lemma slot_ranges_concat deg nslots k :
    concat (map (fun poly => slot_range poly deg nslots) (seq 0 k)) = range 0 (Nat.min (k * deg) nslots).
  Proof.
    induction k as [|k IH].
    - reflexivity.
    - rewrite seq_S, map_app, concat_app, IH. cbn [map concat plus]. rewrite app_nil_r.
      unfold slot_range. replace ((k + 1) * deg)%nat with (S k * deg)%nat by lia.
      destruct (le_lt_dec (k * deg) nslots) as [Hle|Hgt].
      + rewrite (Nat.min_l (k * deg) nslots) by lia. apply range_app; lia.
      + rewrite (Nat.min_r (k * deg) nslots) by lia. rewrite (Nat.min_r (S k * deg) nslots) by lia.
        unfold range at 2. replace (nslots - k * deg)%nat with 0%nat by lia. cbn [seq]. apply app_nil_r.
  Qed.

  Lemma slot_ranges_cover deg nslots k :
    (nslots <= k * deg)%nat ->
    concat (map (fun poly => slot_range poly deg nslots) (seq 0 k)) = seq 0 nslots.
  Proof.
    intros Hc. rewrite slot_ranges_concat, Nat.min_r by exact Hc. unfold range. rewrite Nat.sub_0_r. reflexivity.
  Qed.

  Lemma slot_range_nodup poly deg nslots : NoDup (slot_range poly deg nslots).
  Proof. unfold slot_range, range. apply seq_NoDup. Qed.

  Lemma slot_range_in poly deg nslots s : In s (slot_range poly deg nslots) -> (s < nslots)%nat.
  Proof. unfold slot_range, range. rewrite in_seq. lia. Qed.

  (* ------------------------------------------------------------ the counting identity of the argument *)
  (* fofnat n = 1 + ... + 1 (F::from_canonical_usize) *)
  Fixpoint fofnat (n : nat) : F := match n with O => 0 | S n' => 1 + fofnat n' end.

  (* table values ts (by index), looking values = ts[e_j] for the hit list es, multiplicity of index e =
     number of hits: sum_e m_e * g(t_e) = sum_j g(f_j), for every g (here g(v) = 1/(alpha - v)) *)
  Lemma count_sum (g : nat -> F) (es : list nat) (N : nat) :
    (forall e, In e es -> (e < N)%nat) ->
    fsum (map (fun e => fofnat (count_occ Nat.eq_dec es e) * g e) (seq 0 N)) = fsum (map g es).
  Proof.
    induction es as [|i es IH]; intros Hlt.
    - cbn [count_occ fofnat map fsum fold_right].
      induction (seq 0 N) as [|x l IHl]; cbn [map]; rewrite ?fsum_cons; [reflexivity|]. rewrite IHl. cbn. ring.
    - cbn [map]. rewrite fsum_cons. rewrite <- IH by (intros e He; apply Hlt; right; exact He).
      assert (Hi : (i < N)%nat) by (apply Hlt; left; reflexivity).
      clear IH Hlt.
      (* split off the contribution of index i *)
      assert (G : forall l, NoDup l ->
                fsum (map (fun e => fofnat (count_occ Nat.eq_dec (i :: es) e) * g e) l) =
                (if in_dec Nat.eq_dec i l then g i else 0) + fsum (map (fun e => fofnat (count_occ Nat.eq_dec es e) * g e) l)).
      { induction l as [|x l IHl]; intros Hnd.
        - cbn. ring.
        - apply NoDup_cons_iff in Hnd. destruct Hnd as [Hx Hnd]. cbn [map]. rewrite !fsum_cons, IHl by exact Hnd.
          cbn [count_occ]. destruct (Nat.eq_dec i x) as [->|Hne].
          + destruct (in_dec Nat.eq_dec x (x :: l)) as [_|Hc]; [|exfalso; apply Hc; left; reflexivity].
            destruct (in_dec Nat.eq_dec x l) as [Hc|_]; [contradiction|]. cbn [fofnat]. ring.
          + destruct (in_dec Nat.eq_dec i (x :: l)) as [[Hc|Hin]|Hnin].
            * congruence.
            * destruct (in_dec Nat.eq_dec i l) as [_|Hc]; [ring|contradiction].
            * destruct (in_dec Nat.eq_dec i l) as [Hc|_]; [exfalso; apply Hnin; right; exact Hc|ring]. }
      rewrite G by apply seq_NoDup.
      destruct (in_dec Nat.eq_dec i (seq 0 N)) as [_|Hc]; [reflexivity|].
      exfalso. apply Hc. apply in_seq. lia.
  Qed.

  Theorem logup_balance (ts : list F) (es : list nat) (gf : F -> F) :
    (forall e, In e es -> (e < length ts)%nat) ->
    fsum (map (fun e => fofnat (count_occ Nat.eq_dec es e) * gf (nth e ts 0)) (seq 0 (length ts))) =
    fsum (map gf (map (fun e => nth e ts 0) es)).
  Proof. intros Hlt. rewrite map_map. apply (count_sum (fun e => gf (nth e ts 0))). exact Hlt. Qed.

  (* ------------------------------------------------------------ the RE recurrence *)
  Lemma re_fold_app delta start l1 l2 : re_fold delta (re_fold delta start l1) l2 = re_fold delta start (l1 ++ l2).
  Proof. unfold re_fold. rewrite fold_left_app. reflexivity. Qed.

  (* re_fold from s over cs = s * delta^|cs| + (polynomial with reversed coefficients cs) at delta *)
  Lemma re_fold_peval delta start cs :
    re_fold delta start cs = start * fpow delta (length cs) + peval (rev cs) delta.
  Proof.
    revert start. induction cs as [|c cs IH]; intros start.
    - cbn. ring.
    - unfold re_fold in *. cbn [fold_left length rev]. rewrite IH, peval_app. cbn [peval fpow].
      rewrite rev_length. ring.
  Qed.

  Lemma poly_eval_spec coeffs x : poly_eval coeffs x = peval coeffs x.
  Proof.
    unfold poly_eval. pose proof (re_fold_peval x 0 (rev coeffs)) as E. unfold re_fold in E.
    rewrite E, rev_involutive. ring.
  Qed.

  (* the end value demanded by the verifier: get_lut_poly evaluated at delta = the RE recurrence run from 0
     over the declared table padded with its first entry *)
  Definition padded_combos (tab : list (F * F)) (b : F) (nlut : nat) : list F :=
    map (fun '(i, o) => i + b * o) tab ++
    repeat (let '(pi, po) := hd (0, 0) tab in pi + b * po) ((nlut - length tab mod nlut) mod nlut).

  Lemma padded_length tab nlut : (1 <= nlut)%nat ->
    length (padded_combos tab 0 nlut) = (nlut * div_ceil (length tab) nlut)%nat.
  Proof.
    intros Hn. unfold padded_combos. rewrite app_length, map_length, repeat_length.
    set (n := length tab). unfold div_ceil.
    pose proof (Nat.div_mod n nlut ltac:(lia)) as E. pose proof (Nat.mod_upper_bound n nlut ltac:(lia)) as U.
    destruct (Nat.eq_dec (n mod nlut) 0) as [Z|NZ].
    - rewrite Z, Nat.sub_0_r, Nat.mod_same by lia.
      assert (Hq : ((n + nlut - 1) / nlut = n / nlut)%nat).
      { symmetry. apply (Nat.div_unique (n + nlut - 1) nlut (n / nlut) (nlut - 1)); lia. }
      rewrite Hq. lia.
    - rewrite (Nat.mod_small (nlut - n mod nlut) nlut) by lia.
      assert (Hq : ((n + nlut - 1) / nlut = S (n / nlut))%nat).
      { symmetry. apply (Nat.div_unique (n + nlut - 1) nlut (S (n / nlut)) (n mod nlut - 1)); lia. }
      rewrite Hq. lia.
  Qed.

  Lemma lut_poly_eval_spec tab (ch : challenges) nlut :
    tab <> [] -> (1 <= nlut)%nat ->
    lut_poly_eval tab ch nlut = Some (re_fold (ch_delta ch) 0 (padded_combos tab (ch_b ch) nlut)).
  Proof.
    intros Hne Hn. unfold lut_poly_eval, get_lut_poly. destruct tab as [|[pi po] tab']; [congruence|].
    set (tab := (pi, po) :: tab').
    assert (Hlen : length (padded_combos tab (ch_b ch) nlut) = (nlut * div_ceil (length tab) nlut)%nat).
    { rewrite <- (padded_length tab nlut Hn). unfold padded_combos. rewrite !app_length, !map_length, !repeat_length. reflexivity. }
    unfold padded_combos in Hlen. rewrite app_length, map_length, repeat_length in Hlen.
    fold tab. rewrite <- Hlen.
    destruct (Nat.ltb_spec (length tab + (nlut - length tab mod nlut) mod nlut)
                           (length tab + (nlut - length tab mod nlut) mod nlut)) as [Hc|_]; [lia|].
    rewrite Nat.sub_diag. cbn [repeat]. rewrite app_nil_r. f_equal.
    rewrite poly_eval_spec, re_fold_peval. unfold padded_combos, tab. cbn [hd]. ring.
  Qed.

  (* ------------------------------------------------------------ chains over an interval of rows *)
  Lemma interval_chain (X T : nat -> F) lo hi :
    (lo <= hi)%nat -> (forall r, (lo <= r < hi)%nat -> X r = X (S r) + T r) ->
    X lo = X hi + fsum (map T (range lo hi)).
  Proof.
    intros Hle. remember (hi - lo)%nat as d eqn:Hd. revert lo Hle Hd.
    induction d as [|d IH]; intros lo Hle Hd Hstep.
    - assert (lo = hi) by lia. subst. unfold range. rewrite Nat.sub_diag. cbn. ring.
    - unfold range. rewrite <- Hd. cbn [seq map]. rewrite fsum_cons.
      rewrite (Hstep lo) by lia. rewrite (IH (S lo)) by (try lia; intros r Hr; apply Hstep; lia).
      unfold range. replace (hi - S lo)%nat with d by lia. ring.
  Qed.

  Lemma re_chain delta (RE : nat -> F) (cs : nat -> list F) lo hi :
    (lo <= hi)%nat -> (forall r, (lo <= r < hi)%nat -> RE r = re_fold delta (RE (S r)) (cs r)) ->
    RE lo = re_fold delta (RE hi) (flat_map cs (rev (range lo hi))).
  Proof.
    intros Hle. remember (hi - lo)%nat as d eqn:Hd. revert lo Hle Hd.
    induction d as [|d IH]; intros lo Hle Hd Hstep.
    - assert (lo = hi) by lia. subst. unfold range. rewrite Nat.sub_diag. reflexivity.
    - unfold range. rewrite <- Hd. cbn [seq rev]. rewrite flat_map_app. cbn [flat_map]. rewrite app_nil_r.
      rewrite <- re_fold_app. rewrite (Hstep lo) by lia. f_equal.
      rewrite (IH (S lo)) by (try lia; intros r Hr; apply Hstep; lia).
      unfold range. replace (hi - S lo)%nat with d by lia. reflexivity.
  Qed.

  Lemma map_repeat' {A B} (f : A -> B) a n : map f (repeat a n) = repeat (f a) n.
  Proof. induction n; cbn [repeat map]; congruence. Qed.

  Lemma map_nth_seq {A B} (f : A -> B) (l : list A) d : map f l = map (fun i => f (nth i l d)) (seq 0 (length l)).
  Proof.
    induction l as [|a l IH]; [reflexivity|]. cbn [length seq map nth]. f_equal.
    rewrite IH, <- seq_shift, map_map. reflexivity.
  Qed.

  (* ------------------------------------------------------------ one table: rows, values, equations *)
  Section Region.
    Variables (num_routed qdf npl : nat) (tab : list (F * F)) (ch : @challenges F) (g : region).
    (* wires of each row, RE and the partial SLDC values S k r (k < npl) of each row *)
    Variables (W : nat -> list F) (RE : nat -> F) (S : nat -> nat -> F).

    Let nlu := (num_routed / 2)%nat.
    Let nlut := (num_routed / 3)%nat.
    Let lu_deg := (qdf - 1)%nat.
    Let lut_deg := div_ceil nlut npl.
    Let alpha := ch_alpha ch.
    Let ca := ch_a ch.

    Definition zs_at (r : nat) : list F := RE r :: map (fun k => S k r) (seq 0 npl).
    Definition prevS (k r : nat) : F := if (k =? 0)%nat then S (npl - 1) (r + 1) else S (k - 1) r.
    Definition sum_term (r s : nat) : F := multiplicity (W r) s * finv (alpha - looked_combo ca (W r) s).
    Definition ldc_term (r s : nat) : F := finv (alpha - looking_combo ca (W r) s).

    (* what the prover's loops establish on a LookupTableGate row / a LookupGate row *)
    Definition lut_sum_eq (r : nat) : Prop :=
      forall k, (k < npl)%nat -> S k r = prevS k r + fsum (map (sum_term r) (slot_range k lut_deg nlut)).
    Definition lut_eq (r : nat) : Prop :=
      RE r = re_fold (ch_delta ch) (RE (r + 1)) (map (looked_combo (ch_b ch) (W r)) (seq 0 nlut)) /\ lut_sum_eq r.
    Definition lu_eq (r : nat) : Prop :=
      forall k, (k < npl)%nat -> S k r = prevS k r - fsum (map (ldc_term r) (slot_range k lu_deg nlu)).

    Definition lut_factors_ok (r : nat) : Prop := forall s, (s < nlut)%nat -> alpha - looked_combo ca (W r) s <> 0.
    Definition lu_factors_ok (r : nat) : Prop := forall s, (s < nlu)%nat -> alpha - looking_combo ca (W r) s <> 0.

    Hypothesis npl_pos : (1 <= npl)%nat.
    Hypothesis cover_lut : (nlut <= npl * lut_deg)%nat.
    Hypothesis cover_lu : (nlu <= npl * lu_deg)%nat.

    (* a whole row: the last partial value moves by the sum over all slots *)
    Lemma partial_accumulate (h : nat -> F) (sgn : F) deg nslots r :
      (forall k, (k < npl)%nat -> S k r = prevS k r + sgn * fsum (map h (slot_range k deg nslots))) ->
      forall k, (k < npl)%nat ->
        S k r = S (npl - 1) (r + 1) + sgn * fsum (map h (concat (map (fun p => slot_range p deg nslots) (seq 0 (Datatypes.S k))))).
    Proof.
      intros Heq k. induction k as [|k IH]; intros Hk.
      - rewrite (Heq 0%nat Hk). unfold prevS. cbn [Nat.eqb seq map concat]. rewrite app_nil_r. reflexivity.
      - rewrite (Heq (Datatypes.S k) Hk). unfold prevS. cbn [Nat.eqb].
        replace (Datatypes.S k - 1)%nat with k by lia. rewrite IH by lia.
        rewrite (seq_S (Datatypes.S k) 0), map_app, concat_app, map_app, fsum_app. cbn [plus map concat].
        rewrite app_nil_r. ring.
    Qed.

    Lemma lut_row_total r :
      lut_sum_eq r -> S (npl - 1) r = S (npl - 1) (r + 1) + fsum (map (sum_term r) (seq 0 nlut)).
    Proof.
      intros Heq.
      pose proof (partial_accumulate (sum_term r) 1 lut_deg nlut r) as PA.
      rewrite (PA ltac:(intros k Hk; rewrite (Heq k Hk); ring) (npl - 1)%nat ltac:(lia)).
      replace (Datatypes.S (npl - 1)) with npl by lia. rewrite slot_ranges_cover by exact cover_lut. ring.
    Qed.

    Lemma lu_row_total r :
      lu_eq r -> S (npl - 1) r = S (npl - 1) (r + 1) - fsum (map (ldc_term r) (seq 0 nlu)).
    Proof.
      intros Heq.
      pose proof (partial_accumulate (ldc_term r) (- (1)) lu_deg nlu r) as PA.
      rewrite (PA ltac:(intros k Hk; rewrite (Heq k Hk); ring) (npl - 1)%nat ltac:(lia)).
      replace (Datatypes.S (npl - 1)) with npl by lia. rewrite slot_ranges_cover by exact cover_lu. ring.
    Qed.

    Hypothesis layout : (last_lu g < last_lut g)%nat /\ (last_lut g <= first_lut g)%nat.

    Definition lut_rows : list nat := range (last_lut g) (first_lut g + 1).
    Definition lu_rows : list nat := range (last_lu g) (last_lut g).

    (* telescoping over the whole table: end value - start value = Sum - LDC *)
    Theorem sldc_chain_telescopes :
      (forall r, In r lut_rows -> lut_sum_eq r) -> (forall r, In r lu_rows -> lu_eq r) ->
      S (npl - 1) (last_lu g) =
      S (npl - 1) (first_lut g + 1)
      + fsum (map (fun r => fsum (map (sum_term r) (seq 0 nlut))) lut_rows)
      - fsum (map (fun r => fsum (map (ldc_term r) (seq 0 nlu))) lu_rows).
    Proof.
      intros Hlut Hlu.
      pose proof (interval_chain (fun r => S (npl - 1) r) (fun r => - fsum (map (ldc_term r) (seq 0 nlu)))
                                 (last_lu g) (last_lut g) ltac:(lia)) as C2.
      cbv beta in C2. rewrite C2; clear C2.
      2:{ intros r Hr. replace (Datatypes.S r) with (r + 1)%nat by lia. rewrite lu_row_total; [ring|]. apply Hlu.
          unfold lu_rows, range. apply in_seq. lia. }
      pose proof (interval_chain (fun r => S (npl - 1) r) (fun r => fsum (map (sum_term r) (seq 0 nlut)))
                                 (last_lut g) (first_lut g + 1) ltac:(lia)) as C1.
      cbv beta in C1. rewrite C1; clear C1.
      2:{ intros r Hr. replace (Datatypes.S r) with (r + 1)%nat by lia. apply lut_row_total. apply Hlut.
          unfold lut_rows, range. apply in_seq. lia. }
      fold lut_rows. fold lu_rows.
      pose proof (fsum_map_neg (fun r => fsum (map (ldc_term r) (seq 0 nlu))) lu_rows) as E. cbv beta in E.
      rewrite E. ring.
    Qed.

    (* soundness direction: vanishing transition constraints (with non-zero factors) force the telescoped identity,
       whatever the start value on the row after the table is *)
    Theorem sldc_chain_sound :
      (forall r, In r lut_rows -> lut_factors_ok r /\
         forall k, (k < npl)%nat -> sum_transition alpha ca (W r) (slot_range k lut_deg nlut) (S k r) (prevS k r) = 0) ->
      (forall r, In r lu_rows -> lu_factors_ok r /\
         forall k, (k < npl)%nat -> ldc_transition alpha ca (W r) (slot_range k lu_deg nlu) (S k r) (prevS k r) = 0) ->
      S (npl - 1) (last_lu g) - S (npl - 1) (first_lut g + 1) =
      fsum (map (fun r => fsum (map (sum_term r) (seq 0 nlut))) lut_rows)
      - fsum (map (fun r => fsum (map (ldc_term r) (seq 0 nlu))) lu_rows).
    Proof.
      intros Hlut Hlu. rewrite sldc_chain_telescopes; [ring| |].
      - intros r Hr k Hk. destruct (Hlut r Hr) as [Hf Hc]. specialize (Hc k Hk).
        apply sum_transition_algebra in Hc.
        + unfold sum_term. fold alpha in Hc. fold ca in Hc. rewrite <- Hc. ring.
        + apply slot_range_nodup.
        + intros j Hj. apply Hf. eapply slot_range_in. exact Hj.
      - intros r Hr k Hk. destruct (Hlu r Hr) as [Hf Hc]. specialize (Hc k Hk).
        apply ldc_transition_algebra in Hc.
        + unfold ldc_term. fold alpha in Hc. fold ca in Hc.
          transitivity (prevS k r + (S k r - prevS k r)); [ring|]. rewrite Hc. ring.
        + apply slot_range_nodup.
        + intros j Hj. apply Hf. eapply slot_range_in. exact Hj.
    Qed.

    (* the looked (value, multiplicity) slots and the looking values of the table, flattened *)
    Definition looked_flat : list (F * F) :=
      flat_map (fun r => map (fun s => (looked_combo ca (W r) s, multiplicity (W r) s)) (seq 0 nlut)) lut_rows.
    Definition looking_flat : list F :=
      flat_map (fun r => map (looking_combo ca (W r)) (seq 0 nlu)) lu_rows.

    (* every looking value is the value of a table slot (its hit), multiplicities are the hit counts *)
    Definition multiplicities_are_counts : Prop :=
      exists hits : list nat,
        (forall e, In e hits -> (e < length looked_flat)%nat) /\
        looking_flat = map (fun e => fst (nth e looked_flat (0, 0))) hits /\
        map snd looked_flat = map (fun e => fofnat (count_occ Nat.eq_dec hits e)) (seq 0 (length looked_flat)).

    Lemma sum_equals_ldc :
      multiplicities_are_counts ->
      fsum (map (fun r => fsum (map (sum_term r) (seq 0 nlut))) lut_rows) =
      fsum (map (fun r => fsum (map (ldc_term r) (seq 0 nlu))) lu_rows).
    Proof.
      intros (hits & Hlt & Hlook & Hmult).
      set (gf := fun v : F => finv (alpha - v)).
      transitivity (fsum (map (fun tm : F * F => snd tm * gf (fst tm)) looked_flat)).
      { unfold looked_flat. rewrite fsum_flat_map. apply fsum_map_ext_in. intros r _.
        rewrite map_map. reflexivity. }
      transitivity (fsum (map gf looking_flat)).
      2:{ unfold looking_flat. rewrite fsum_flat_map. apply fsum_map_ext_in. intros r _. rewrite map_map. reflexivity. }
      rewrite (map_nth_seq (fun tm : F * F => snd tm * gf (fst tm)) looked_flat (0, 0)).
      rewrite Hlook.
      pose proof (logup_balance (map fst looked_flat) hits gf) as LB. rewrite map_length in LB.
      specialize (LB Hlt).
      rewrite (map_ext_in _ (fun e => fofnat (count_occ Nat.eq_dec hits e) * gf (nth e (map fst looked_flat) 0))).
      - rewrite LB. do 2 f_equal. apply map_ext. intros e. exact (map_nth fst looked_flat (0, 0) e).
      - intros e He. apply in_seq in He.
        rewrite <- (map_nth fst looked_flat (0, 0) e). cbn [fst]. f_equal.
        rewrite <- (map_nth snd looked_flat (0, 0) e). rewrite Hmult. cbn [snd].
        rewrite nth_indep with (d' := fofnat (count_occ Nat.eq_dec hits 0%nat)) by (rewrite map_length, seq_length; lia).
        rewrite (map_nth (fun e0 => fofnat (count_occ Nat.eq_dec hits e0))), seq_nth by lia. reflexivity.
    Qed.

    (* completeness of the running sums: they end at zero *)
    Theorem sldc_final_zero :
      (forall r, In r lut_rows -> lut_eq r) -> (forall r, In r lu_rows -> lu_eq r) ->
      S (npl - 1) (first_lut g + 1) = 0 -> multiplicities_are_counts ->
      S (npl - 1) (last_lu g) = 0.
    Proof.
      intros Hlut Hlu H0 Hm. rewrite sldc_chain_telescopes; [|intros r Hr; apply Hlut; exact Hr|exact Hlu].
      rewrite H0, (sum_equals_ldc Hm). ring.
    Qed.

    (* RE ends at the value of get_lut_poly when the table rows hold the declared table, padded with entry 0 *)
    Definition table_rows_hold_table : Prop :=
      flat_map (fun r => map (fun s => (wire (W r) (3 * s), wire (W r) (3 * s + 1))) (seq 0 nlut)) (rev lut_rows) =
      tab ++ repeat (hd (0, 0) tab) ((nlut - length tab mod nlut) mod nlut).

    Theorem re_end_value :
      (forall r, In r lut_rows -> lut_eq r) -> RE (first_lut g + 1) = 0 -> table_rows_hold_table ->
      RE (last_lut g) = re_fold (ch_delta ch) 0 (padded_combos tab (ch_b ch) nlut).
    Proof.
      intros Hlut H0 Htab.
      pose proof (re_chain (ch_delta ch) RE (fun r => map (looked_combo (ch_b ch) (W r)) (seq 0 nlut))
                           (last_lut g) (first_lut g + 1) ltac:(lia)) as C.
      rewrite C, H0; clear C.
      2:{ intros r Hr. replace (Datatypes.S r) with (r + 1)%nat by lia. apply Hlut. unfold lut_rows, range. apply in_seq. lia. }
      f_equal. fold lut_rows.
      assert (E : flat_map (fun r => map (looked_combo (ch_b ch) (W r)) (seq 0 nlut)) (rev lut_rows) =
                  map (fun io : F * F => fst io + ch_b ch * snd io)
                      (flat_map (fun r => map (fun s => (wire (W r) (3 * s), wire (W r) (3 * s + 1))) (seq 0 nlut)) (rev lut_rows))).
      { induction (rev lut_rows) as [|x l IHl]; [reflexivity|]. cbn [flat_map]. rewrite map_app, IHl, map_map. reflexivity. }
      rewrite E, Htab. unfold padded_combos. rewrite map_app, map_repeat'. f_equal.
      - apply map_ext. intros [i o]. reflexivity.
      - destruct (hd (0, 0) tab) as [pi po]. reflexivity.
    Qed.

    (* ---------------------------------------------------------- the constraints of a row *)
    Hypothesis qdf_pos : (1 <= qdf)%nat.
    Hypothesis nlut_pos : (1 <= nlut)%nat.
    Hypothesis tab_nonempty : tab <> [].
    Hypothesis wires_len : forall r, (num_routed <= length (W r))%nat.

    Definition constraints_at (r : nat) (nz : list F) : option (list F) :=
      lookup_constraints num_routed qdf [tab] ch (W r) (zs_at r) nz (lookup_selectors_at [g] r).

    Lemma nth_S_row k r : (k < npl)%nat -> nth k (map (fun k0 => S k0 r) (seq 0 npl)) 0 = S k r.
    Proof.
      intros Hk. rewrite nth_indep with (d' := S 0%nat r) by (rewrite map_length, seq_length; exact Hk).
      rewrite (map_nth (fun k0 => S k0 r)), seq_nth by exact Hk. reflexivity.
    Qed.

    Definition sel_vals (r : nat) : list F := lookup_selectors_at [g] r.
    Definition end_value : F := re_fold (ch_delta ch) 0 (padded_combos tab (ch_b ch) nlut).

    Definition trans_terms (r : nat) (zgx : list F) : list F :=
      flat_map (fun poly =>
                  let prev := if (poly =? 0)%nat then nth (npl - 1) zgx 0 else nth (poly - 1) (map (fun k => S k r) (seq 0 npl)) 0 in
                  let z := nth poly (map (fun k => S k r) (seq 0 npl)) 0 in
                  [ sel (sel_vals r) 0 * sum_transition alpha ca (W r) (slot_range poly lut_deg nlut) z prev;
                    sel (sel_vals r) 1 * ldc_transition alpha ca (W r) (slot_range poly lu_deg nlu) z prev ])
               (seq 0 npl).

    Lemma constraints_at_explicit r nzre zgx :
      (npl <= length zgx)%nat ->
      constraints_at r (nzre :: zgx) =
      Some ([ sel (sel_vals r) 3 * S (npl - 1) r; sel (sel_vals r) 2 * S (npl - 1) r; sel (sel_vals r) 2 * RE r ]
            ++ [ sel (sel_vals r) 4 * (RE r - end_value) ]
            ++ [ sel (sel_vals r) 0 * (RE r - re_fold (ch_delta ch) nzre (map (looked_combo (ch_b ch) (W r)) (seq 0 nlut))) ]
            ++ trans_terms r zgx).
    Proof.
      intros Hz. unfold constraints_at, lookup_constraints, zs_at. fold nlut. fold nlu.
      rewrite map_length, seq_length.
      assert (Hsel : length (lookup_selectors_at [g] r) = 5%nat) by reflexivity.
      destruct ((qdf =? 0)%nat || (npl =? 0)%nat || (nlut =? 0)%nat || (length zgx <? npl)%nat
                || (length (lookup_selectors_at [g] r) <? 4 + length [tab])%nat
                || (length (W r) <? num_routed)%nat) eqn:G.
      { exfalso. rewrite Hsel in G. cbn [length plus] in G.
        repeat (apply orb_prop in G; destruct G as [G|G]);
          try (apply Nat.eqb_eq in G; lia); try (apply Nat.ltb_lt in G; try lia).
        specialize (wires_len r). lia. }
      cbn [map sequence]. rewrite (lut_poly_eval_spec tab ch nlut tab_nonempty nlut_pos).
      cbn [length seq combine map app].
      rewrite (nth_S_row (npl - 1) r) by lia.
      reflexivity.
    Qed.

    Lemma in_range_spec lo hi r : in_range lo hi r = true <-> (lo <= r < hi)%nat.
    Proof. unfold in_range. rewrite andb_true_iff, Nat.leb_le, Nat.ltb_lt. reflexivity. Qed.

    Lemma b2f_false_mul (b : bool) x : b = false -> b2f b * x = 0.
    Proof. intros ->. cbn. ring. Qed.

    Lemma sel_vals_spec r :
      sel_vals r = [ b2f (in_range (last_lut g) (first_lut g + 1) r); b2f (in_range (last_lu g) (last_lut g) r);
                     b2f (r =? first_lut g + 1)%nat; b2f (r =? last_lu g)%nat; b2f (r =? last_lut g)%nat ].
    Proof. unfold sel_vals, lookup_selectors_at. cbn [existsb map app]. rewrite !orb_false_r. reflexivity. Qed.

    Theorem region_constraints_zero :
      (forall r, In r lut_rows -> lut_eq r /\ lut_factors_ok r) ->
      (forall r, In r lu_rows -> lu_eq r /\ lu_factors_ok r) ->
      RE (first_lut g + 1) = 0 -> S (npl - 1) (first_lut g + 1) = 0 ->
      S (npl - 1) (last_lu g) = 0 -> RE (last_lut g) = end_value ->
      forall r nz, length nz = Datatypes.S npl ->
        ((last_lu g <= r <= first_lut g)%nat -> nz = zs_at (r + 1)) ->
        exists cs, constraints_at r nz = Some cs /\ all_zero cs.
    Proof.
      intros Hlut Hlu Hre0 Hs0 Hfin Hend r nz Hlen Hnz.
      destruct nz as [|nzre zgx]; [discriminate|]. cbn [length] in Hlen.
      eexists. split; [apply constraints_at_explicit; lia|].
      unfold trans_terms. rewrite sel_vals_spec. unfold sel. cbn [nth].
      assert (Hin_lut : In r lut_rows <-> (last_lut g <= r <= first_lut g)%nat).
      { unfold lut_rows, range. rewrite in_seq. lia. }
      assert (Hin_lu : In r lu_rows <-> (last_lu g <= r < last_lut g)%nat).
      { unfold lu_rows, range. rewrite in_seq. lia. }
      unfold all_zero. rewrite !Forall_app, Forall_flat_map.
      destruct (le_lt_dec (last_lut g) r) as [H1|H1]; [destruct (le_lt_dec r (first_lut g)) as [H2|H2]|].
      - (* LookupTableGate row *)
        destruct (Hlut r (proj2 Hin_lut (conj H1 H2))) as ((Hre & Hsum) & Hfac).
        specialize (Hnz ltac:(lia)). injection Hnz as -> ->.
        assert (E0 : in_range (last_lut g) (first_lut g + 1) r = true) by (apply in_range_spec; lia).
        assert (E1 : in_range (last_lu g) (last_lut g) r = false).
        { apply not_true_iff_false. rewrite in_range_spec. lia. }
        assert (E2 : (r =? first_lut g + 1)%nat = false) by (apply Nat.eqb_neq; lia).
        assert (E3 : (r =? last_lu g)%nat = false) by (apply Nat.eqb_neq; lia).
        rewrite E0, E1, E2, E3. cbn [b2f].
        repeat split; repeat constructor; try ring.
        + destruct (Nat.eqb_spec r (last_lut g)) as [->|_]; cbn [b2f]; [rewrite Hend|]; ring.
        + rewrite Hre. ring.
        + apply Forall_forall. intros k Hk. apply in_seq in Hk. cbv zeta.
          repeat constructor; [|ring].
          rewrite (nth_S_row k r) by lia.
          assert (Hprev : (if (k =? 0)%nat then nth (npl - 1) (map (fun k0 => S k0 (r + 1)) (seq 0 npl)) 0
                           else nth (k - 1) (map (fun k0 => S k0 r) (seq 0 npl)) 0) = prevS k r).
          { unfold prevS. destruct (k =? 0)%nat eqn:Ek.
            - rewrite nth_S_row by lia. reflexivity.
            - apply Nat.eqb_neq in Ek. rewrite nth_S_row by lia. reflexivity. }
          rewrite Hprev.
          assert (Z : sum_transition alpha ca (W r) (slot_range k lut_deg nlut) (S k r) (prevS k r) = 0).
          { apply sum_transition_algebra.
            - apply slot_range_nodup.
            - intros j Hj. apply Hfac. eapply slot_range_in. exact Hj.
            - rewrite (Hsum k) by lia. unfold sum_term. ring. }
          rewrite Z. ring.
      - (* rows above the table: the init row, or a row outside *)
        assert (E0 : in_range (last_lut g) (first_lut g + 1) r = false).
        { apply not_true_iff_false. rewrite in_range_spec. lia. }
        assert (E1 : in_range (last_lu g) (last_lut g) r = false).
        { apply not_true_iff_false. rewrite in_range_spec. lia. }
        assert (E3 : (r =? last_lu g)%nat = false) by (apply Nat.eqb_neq; lia).
        assert (E4 : (r =? last_lut g)%nat = false) by (apply Nat.eqb_neq; lia).
        rewrite E0, E1, E3, E4. cbn [b2f].
        repeat split; repeat constructor; try ring.
        + destruct (Nat.eqb_spec r (first_lut g + 1)) as [->|_]; cbn [b2f]; [rewrite Hs0|]; ring.
        + destruct (Nat.eqb_spec r (first_lut g + 1)) as [->|_]; cbn [b2f]; [rewrite Hre0|]; ring.
        + apply Forall_forall. intros k Hk. cbv zeta. repeat constructor; ring.
      - destruct (le_lt_dec (last_lu g) r) as [H3|H3].
        + (* LookupGate row *)
          destruct (Hlu r (proj2 Hin_lu (conj H3 H1))) as (Heq & Hfac).
          specialize (Hnz ltac:(lia)). injection Hnz as -> ->.
          assert (E0 : in_range (last_lut g) (first_lut g + 1) r = false).
          { apply not_true_iff_false. rewrite in_range_spec. lia. }
          assert (E1 : in_range (last_lu g) (last_lut g) r = true) by (apply in_range_spec; lia).
          assert (E2 : (r =? first_lut g + 1)%nat = false) by (apply Nat.eqb_neq; lia).
          assert (E4 : (r =? last_lut g)%nat = false) by (apply Nat.eqb_neq; lia).
          rewrite E0, E1, E2, E4. cbn [b2f].
          repeat split; repeat constructor; try ring.
          * destruct (Nat.eqb_spec r (last_lu g)) as [->|_]; cbn [b2f]; [rewrite Hfin|]; ring.
          * apply Forall_forall. intros k Hk. apply in_seq in Hk. cbv zeta.
            repeat constructor; [ring|].
            rewrite (nth_S_row k r) by lia.
            assert (Hprev : (if (k =? 0)%nat then nth (npl - 1) (map (fun k0 => S k0 (r + 1)) (seq 0 npl)) 0
                             else nth (k - 1) (map (fun k0 => S k0 r) (seq 0 npl)) 0) = prevS k r).
            { unfold prevS. destruct (k =? 0)%nat eqn:Ek.
              - rewrite nth_S_row by lia. reflexivity.
              - apply Nat.eqb_neq in Ek. rewrite nth_S_row by lia. reflexivity. }
            rewrite Hprev.
            assert (Z : ldc_transition alpha ca (W r) (slot_range k lu_deg nlu) (S k r) (prevS k r) = 0).
            { apply ldc_transition_algebra.
              - apply slot_range_nodup.
              - intros j Hj. apply Hfac. eapply slot_range_in. exact Hj.
              - rewrite (Heq k) by lia. unfold ldc_term. ring. }
            rewrite Z. ring.
        + (* rows below the table *)
          assert (E0 : in_range (last_lut g) (first_lut g + 1) r = false).
          { apply not_true_iff_false. rewrite in_range_spec. lia. }
          assert (E1 : in_range (last_lu g) (last_lut g) r = false).
          { apply not_true_iff_false. rewrite in_range_spec. lia. }
          assert (E2 : (r =? first_lut g + 1)%nat = false) by (apply Nat.eqb_neq; lia).
          assert (E3 : (r =? last_lu g)%nat = false) by (apply Nat.eqb_neq; lia).
          assert (E4 : (r =? last_lut g)%nat = false) by (apply Nat.eqb_neq; lia).
          rewrite E0, E1, E2, E3, E4. cbn [b2f].
          repeat split; repeat constructor; try ring.
          apply Forall_forall. intros k Hk. cbv zeta. repeat constructor; ring.
    Qed.
  End Region.

  (* ------------------------------------------------------------ the prover's arrays *)
  Lemma upd_length {A} (l : list A) i v : (i < length l)%nat -> length (upd l i v) = length l.
  Proof.
    intros Hi. unfold upd. rewrite app_length, firstn_length. cbn [length]. rewrite skipn_length. lia.
  Qed.

  Lemma upd_cons_S {A} (x : A) l i v : upd (x :: l) (Datatypes.S i) v = x :: upd l i v.
  Proof. reflexivity. Qed.

  Lemma nth_upd_same {A} (l : list A) i v d : (i < length l)%nat -> nth i (upd l i v) d = v.
  Proof.
    revert l. induction i as [|i IH]; intros [|x l] Hi; cbn [length] in Hi; try lia.
    - reflexivity.
    - rewrite upd_cons_S. cbn [nth]. apply IH. lia.
  Qed.

  Lemma nth_upd_other {A} (l : list A) i j v d : (i < length l)%nat -> j <> i -> nth j (upd l i v) d = nth j l d.
  Proof.
    revert l j. induction i as [|i IH]; intros [|x l] j Hi Hne; cbn [length] in Hi; try lia.
    - destruct j; [congruence|]. reflexivity.
    - rewrite upd_cons_S. destruct j; [reflexivity|]. cbn [nth]. apply IH; lia.
  Qed.

  Definition wf_polys (n npl : nat) (polys : list (list F)) : Prop :=
    length polys = (npl + 1)%nat /\ forall k, (k <= npl)%nat -> length (nth k polys []) = n.

  Lemma setv_wf n npl polys k row v :
    wf_polys n npl polys -> (k <= npl)%nat -> (row < n)%nat -> wf_polys n npl (setv polys k row v).
  Proof.
    intros [Hl Hr] Hk Hrow. unfold setv. split.
    - rewrite upd_length by lia. exact Hl.
    - intros k' Hk'. destruct (Nat.eq_dec k' k) as [->|Hne].
      + rewrite nth_upd_same by lia. rewrite upd_length; rewrite Hr; auto.
      + rewrite nth_upd_other by lia. apply Hr. exact Hk'.
  Qed.

  Lemma getv_setv_same n npl polys k row v :
    wf_polys n npl polys -> (k <= npl)%nat -> (row < n)%nat -> getv (setv polys k row v) k row = v.
  Proof.
    intros [Hl Hr] Hk Hrow. unfold getv, setv. rewrite nth_upd_same by lia.
    apply nth_upd_same. rewrite Hr; auto.
  Qed.

  Lemma getv_setv_other n npl polys k row v k' row' :
    wf_polys n npl polys -> (k <= npl)%nat -> (row < n)%nat -> (k' <> k \/ row' <> row) ->
    getv (setv polys k row v) k' row' = getv polys k' row'.
  Proof.
    intros [Hl Hr] Hk Hrow Hne. unfold getv, setv. destruct (Nat.eq_dec k' k) as [->|Hk'].
    - rewrite nth_upd_same by lia. destruct Hne as [Hc|Hrw]; [congruence|].
      apply nth_upd_other; [rewrite Hr; auto|exact Hrw].
    - rewrite nth_upd_other by lia. reflexivity.
  Qed.

  Lemma zeros_wf n npl : wf_polys n npl (repeat (repeat 0 n) (npl + 1)).
  Proof.
    split; [apply repeat_length|]. intros k Hk.
    rewrite nth_indep with (d' := repeat 0 n) by (rewrite repeat_length; lia).
    rewrite nth_repeat. apply repeat_length.
  Qed.

  Lemma zeros_getv n npl k row : getv (repeat (repeat 0 n) (npl + 1)) k row = 0.
  Proof.
    unfold getv. destruct (lt_dec k (npl + 1)) as [Hk|Hk].
    - rewrite nth_indep with (d' := repeat 0 n) by (rewrite repeat_length; lia).
      rewrite nth_repeat. apply nth_repeat.
    - rewrite (nth_overflow (repeat (repeat 0 n) (npl + 1))) by (rewrite repeat_length; lia). destruct row; reflexivity.
  Qed.

  (* the slot loop of one row, for a generic per-slot value *)
  Section SlotLoop.
    Variables (n npl row : nat) (val : list (list F) -> nat -> F).
    (* the value written for [slot] may read the current arrays only at row+1 (slot 0) or at the previous slot *)
    Let sstep (polys : list (list F)) (slot : nat) : list (list F) := setv polys (Datatypes.S slot) row (val polys slot).

    Lemma slot_loop a len P :
      wf_polys n npl P -> (row < n)%nat -> (a + len <= npl)%nat ->
      let P' := fold_left sstep (seq a len) P in
      wf_polys n npl P' /\
      (forall k' r', ~ (r' = row /\ (a < k' <= a + len)%nat) -> getv P' k' r' = getv P k' r').
    Proof.
      revert a P. induction len as [|len IH]; intros a P Hwf Hrow Hle; cbn [seq fold_left].
      - split; [exact Hwf|reflexivity].
      - assert (Hwf1 : wf_polys n npl (sstep P a)) by (apply setv_wf; auto; lia).
        destruct (IH (Datatypes.S a) (sstep P a) Hwf1 Hrow ltac:(lia)) as [Hwf' Hfr].
        split; [exact Hwf'|]. intros k' r' Hout.
        rewrite Hfr by lia. unfold sstep. apply (getv_setv_other n npl); auto; lia.
    Qed.

    Variable c : nat -> F.
    Hypothesis val_spec : forall polys slot,
      val polys slot = (if (slot =? 0)%nat then getv polys npl (Datatypes.S row) else getv polys slot row) + c slot.

    Lemma slot_loop_values a len P :
      wf_polys n npl P -> (row < n)%nat -> (a + len <= npl)%nat ->
      let P' := fold_left sstep (seq a len) P in
      forall j, (a <= j < a + len)%nat ->
        getv P' (Datatypes.S j) row =
        (if (j =? 0)%nat then getv P npl (Datatypes.S row) else getv P' j row) + c j.
    Proof.
      revert a P. induction len as [|len IH]; intros a P Hwf Hrow Hle; cbn [seq fold_left]; intros j Hj; [lia|].
      assert (Hwf1 : wf_polys n npl (sstep P a)) by (apply setv_wf; auto; lia).
      destruct (slot_loop (Datatypes.S a) len (sstep P a) Hwf1 Hrow ltac:(lia)) as [_ Hfr].
      destruct (Nat.eq_dec j a) as [->|Hne].
      - rewrite Hfr by lia. unfold sstep at 1. rewrite (getv_setv_same n npl) by (auto; lia).
        rewrite val_spec. destruct (a =? 0)%nat eqn:Ea; [reflexivity|].
        apply Nat.eqb_neq in Ea. rewrite Hfr by lia. unfold sstep.
        rewrite (getv_setv_other n npl) by (auto; lia). reflexivity.
      - rewrite (IH (Datatypes.S a) (sstep P a) Hwf1 Hrow ltac:(lia) j ltac:(lia)).
        destruct (j =? 0)%nat eqn:Ej; [apply Nat.eqb_eq in Ej; lia|]. reflexivity.
    Qed.
  End SlotLoop.

  Section ProverRows.
    Variables (n num_routed npl mlut mlu : nat) (ch : @challenges F) (W : nat -> list F).
    Let nlu := (num_routed / 2)%nat.
    Let nlut := (num_routed / 3)%nat.
    Let alpha := ch_alpha ch.
    Let ca := ch_a ch.

    Definition REp (P : list (list F)) (r : nat) : F := getv P 0 r.
    Definition Sp (P : list (list F)) (k r : nat) : F := getv P (Datatypes.S k) r.

    (* the equations of a table row / a looking row, read off the arrays *)
    Definition lut_eq_p (P : list (list F)) (r : nat) : Prop :=
      REp P r = re_fold (ch_delta ch) (REp P (r + 1)) (map (looked_combo (ch_b ch) (W r)) (seq 0 nlut)) /\
      forall k, (k < npl)%nat ->
        Sp P k r = (if (k =? 0)%nat then Sp P (npl - 1) (r + 1) else Sp P (k - 1) r)
                   + fsum (map (fun s => multiplicity (W r) s * finv (alpha - looked_combo ca (W r) s)) (slot_range k mlut nlut)).
    Definition lu_eq_p (P : list (list F)) (r : nat) : Prop :=
      forall k, (k < npl)%nat ->
        Sp P k r = (if (k =? 0)%nat then Sp P (npl - 1) (r + 1) else Sp P (k - 1) r)
                   - fsum (map (fun s => finv (alpha - looking_combo ca (W r) s)) (slot_range k mlu nlu)).
    Definition lut_fac (r : nat) : Prop := forall s, (s < nlut)%nat -> alpha - looked_combo ca (W r) s <> 0.
    Definition lu_fac (r : nat) : Prop := forall s, (s < nlu)%nat -> alpha - looking_combo ca (W r) s <> 0.

    Hypothesis npl_pos : (1 <= npl)%nat.

    Lemma any_zero_false (f : nat -> F) m :
      any_zero (map f (seq 0 m)) = false -> forall s, (s < m)%nat -> f s <> 0.
    Proof.
      intros Hz s Hs E. unfold any_zero in Hz.
      assert (Ht : existsb (fun x => x =? 0) (map f (seq 0 m)) = true).
      { apply existsb_exists. exists (f s). split; [apply in_map, in_seq; lia|]. apply f_eqb_spec. exact E. }
      congruence.
    Qed.

    Lemma lut_row_step_spec P row P' :
      lut_row_step nlut npl mlut ch (W row) n P row = Some P' -> wf_polys n npl P ->
      wf_polys n npl P' /\ (Datatypes.S row < n)%nat /\
      (forall k' r', r' <> row -> getv P' k' r' = getv P k' r') /\
      lut_fac row /\ lut_eq_p P' row.
    Proof.
      unfold lut_row_step. fold alpha. fold ca.
      destruct (any_zero (map (fun s => alpha - looked_combo ca (W row) s) (seq 0 nlut))) eqn:Ez; [discriminate|].
      destruct (n <=? Datatypes.S row)%nat eqn:En; [discriminate|]. apply Nat.leb_gt in En.
      intros HS Hwf. injection HS as <-.
      set (new_re := re_fold (ch_delta ch) (getv P 0 (Datatypes.S row)) (map (looked_combo (ch_b ch) (W row)) (seq 0 nlut))).
      set (P0 := setv P 0 row new_re).
      assert (Hwf0 : wf_polys n npl P0) by (apply setv_wf; auto; lia).
      set (val := fun (polys : list (list F)) (slot : nat) =>
                    fold_left (fun acc s => acc + multiplicity (W row) s * finv (alpha - looked_combo ca (W row) s))
                              (slot_range slot mlut nlut)
                              (if (slot =? 0)%nat then getv polys npl (Datatypes.S row) else getv polys slot row)).
      set (c := fun slot => fsum (map (fun s => multiplicity (W row) s * finv (alpha - looked_combo ca (W row) s)) (slot_range slot mlut nlut))).
      assert (Hval : forall polys slot, val polys slot =
                (if (slot =? 0)%nat then getv polys npl (Datatypes.S row) else getv polys slot row) + c slot).
      { intros polys slot. unfold val, c. apply fold_left_add. }
      destruct (slot_loop n npl row val 0 npl P0 Hwf0 ltac:(lia) ltac:(lia)) as [Hwf' Hfr].
      pose proof (slot_loop_values n npl row val c Hval 0 npl P0 Hwf0 ltac:(lia) ltac:(lia)) as Hv.
      cbv zeta in Hv, Hfr, Hwf'.
      set (P' := fold_left (fun polys slot => setv polys (Datatypes.S slot) row (val polys slot)) (seq 0 npl) P0) in *.
      change (wf_polys n npl P' /\ (Datatypes.S row < n)%nat /\
              (forall k' r', r' <> row -> getv P' k' r' = getv P k' r') /\ lut_fac row /\ lut_eq_p P' row).
      assert (Hframe : forall k' r', r' <> row -> getv P' k' r' = getv P k' r').
      { intros k' r' Hr. rewrite Hfr by lia. unfold P0. apply (getv_setv_other n npl); auto; lia. }
      split; [exact Hwf'|]. split; [lia|]. split; [exact Hframe|]. split.
      - intros s Hs. exact (any_zero_false _ nlut Ez s Hs).
      - split.
        + unfold REp. rewrite Hfr by lia. unfold P0. rewrite (getv_setv_same n npl) by (auto; lia).
          unfold new_re. replace (row + 1)%nat with (Datatypes.S row) by lia. rewrite Hframe by lia. reflexivity.
        + intros k Hk. unfold Sp. rewrite (Hv k) by lia. unfold c.
          replace (row + 1)%nat with (Datatypes.S row) by lia.
          destruct (k =? 0)%nat eqn:Ek.
          * replace (Datatypes.S (npl - 1)) with npl by lia. rewrite Hframe by lia.
            unfold P0. rewrite (getv_setv_other n npl) by (auto; lia). reflexivity.
          * apply Nat.eqb_neq in Ek. replace (Datatypes.S (k - 1)) with k by lia. reflexivity.
    Qed.

    Lemma lu_row_step_spec P row P' :
      lu_row_step nlu npl mlu ch (W row) n P row = Some P' -> wf_polys n npl P ->
      wf_polys n npl P' /\ (Datatypes.S row < n)%nat /\
      (forall k' r', r' <> row -> getv P' k' r' = getv P k' r') /\
      lu_fac row /\ lu_eq_p P' row.
    Proof.
      unfold lu_row_step. fold alpha. fold ca.
      destruct (any_zero (map (fun s => alpha - looking_combo ca (W row) s) (seq 0 nlu))) eqn:Ez; [discriminate|].
      destruct (n <=? Datatypes.S row)%nat eqn:En; [discriminate|]. apply Nat.leb_gt in En.
      intros HS Hwf. injection HS as <-.
      set (val := fun (polys : list (list F)) (slot : nat) =>
                    (if (slot =? 0)%nat then getv polys npl (Datatypes.S row) else getv polys slot row)
                    - fold_left (fun acc s => acc + finv (alpha - looking_combo ca (W row) s)) (slot_range slot mlu nlu) 0).
      set (c := fun slot => - fsum (map (fun s => finv (alpha - looking_combo ca (W row) s)) (slot_range slot mlu nlu))).
      assert (Hval : forall polys slot, val polys slot =
                (if (slot =? 0)%nat then getv polys npl (Datatypes.S row) else getv polys slot row) + c slot).
      { intros polys slot. unfold val, c. rewrite fold_left_add. ring. }
      destruct (slot_loop n npl row val 0 npl P Hwf ltac:(lia) ltac:(lia)) as [Hwf' Hfr].
      pose proof (slot_loop_values n npl row val c Hval 0 npl P Hwf ltac:(lia) ltac:(lia)) as Hv.
      cbv zeta in Hv, Hfr, Hwf'.
      set (P' := fold_left (fun polys slot => setv polys (Datatypes.S slot) row (val polys slot)) (seq 0 npl) P) in *.
      change (wf_polys n npl P' /\ (Datatypes.S row < n)%nat /\
              (forall k' r', r' <> row -> getv P' k' r' = getv P k' r') /\ lu_fac row /\ lu_eq_p P' row).
      assert (Hframe : forall k' r', r' <> row -> getv P' k' r' = getv P k' r').
      { intros k' r' Hr. apply Hfr. lia. }
      split; [exact Hwf'|]. split; [lia|]. split; [exact Hframe|]. split.
      - intros s Hs. exact (any_zero_false _ nlu Ez s Hs).
      - intros k Hk. unfold Sp. rewrite (Hv k) by lia. unfold c.
        replace (row + 1)%nat with (Datatypes.S row) by lia.
        destruct (k =? 0)%nat eqn:Ek.
        + replace (Datatypes.S (npl - 1)) with npl by lia. rewrite Hframe by lia. ring.
        + apply Nat.eqb_neq in Ek. replace (Datatypes.S (k - 1)) with k by lia. ring.
    Qed.

    (* a descending loop over rows hi-1 .. lo *)
    Section RowsLoop.
      Variables (step : list (list F) -> nat -> option (list (list F))) (eqp : list (list F) -> nat -> Prop) (fac : nat -> Prop).
      Hypothesis step_spec : forall P row P',
        step P row = Some P' -> wf_polys n npl P ->
        wf_polys n npl P' /\ (Datatypes.S row < n)%nat /\
        (forall k' r', r' <> row -> getv P' k' r' = getv P k' r') /\ fac row /\ eqp P' row.
      Hypothesis eqp_local : forall P Q r,
        (forall k, getv P k r = getv Q k r /\ getv P k (r + 1) = getv Q k (r + 1)) -> eqp P r -> eqp Q r.

      Lemma range_snoc lo hi : (lo <= hi)%nat -> range lo (Datatypes.S hi) = range lo hi ++ [hi].
      Proof. intros Hle. unfold range. replace (Datatypes.S hi - lo)%nat with (Datatypes.S (hi - lo)) by lia.
             rewrite seq_S. f_equal. f_equal. lia. Qed.

      Lemma rows_loop lo hi P P' :
        (lo <= hi)%nat -> fold_opt step (rev (range lo hi)) P = Some P' -> wf_polys n npl P ->
        wf_polys n npl P' /\
        (forall k r, ~ (lo <= r < hi)%nat -> getv P' k r = getv P k r) /\
        (forall r, (lo <= r < hi)%nat -> fac r /\ eqp P' r /\ (Datatypes.S r < n)%nat).
      Proof.
        intros Hle. remember (hi - lo)%nat as d eqn:Hd. revert hi Hle Hd P.
        induction d as [|d IH]; intros hi Hle Hd P HF Hwf.
        - assert (hi = lo) by lia. subst hi. unfold range in HF. rewrite Nat.sub_diag in HF. cbn in HF.
          injection HF as <-. split; [exact Hwf|]. split; [reflexivity|]. intros r Hr. lia.
        - destruct hi as [|hi]; [lia|].
          rewrite range_snoc, rev_app_distr in HF by lia. cbn [rev app fold_opt] in HF.
          destruct (step P hi) as [P1|] eqn:E1; [|discriminate].
          destruct (step_spec P hi P1 E1 Hwf) as (Hwf1 & Hn & Hfr1 & Hfac & Heq).
          destruct (IH hi ltac:(lia) ltac:(lia) P1 HF Hwf1) as (Hwf' & Hfr' & Hrows).
          split; [exact Hwf'|]. split.
          + intros k r Hout. rewrite Hfr' by lia. apply Hfr1. lia.
          + intros r Hr. destruct (Nat.eq_dec r hi) as [->|Hne].
            * split; [exact Hfac|]. split; [|exact Hn].
              apply (eqp_local P1); [|exact Heq]. intros k. split; symmetry; apply Hfr'; lia.
            * apply Hrows. lia.
      Qed.
    End RowsLoop.

    Lemma lut_eq_p_local P Q r :
      (forall k, getv P k r = getv Q k r /\ getv P k (r + 1) = getv Q k (r + 1)) -> lut_eq_p P r -> lut_eq_p Q r.
    Proof.
      intros E [H1 H2]. unfold lut_eq_p, REp, Sp in *. split.
      - rewrite <- (proj1 (E 0%nat)), <- (proj2 (E 0%nat)). exact H1.
      - intros k Hk. rewrite <- (proj1 (E (Datatypes.S k))), <- (proj2 (E (Datatypes.S (npl - 1)))), <- (proj1 (E (Datatypes.S (k - 1)))).
        apply H2. exact Hk.
    Qed.

    Lemma lu_eq_p_local P Q r :
      (forall k, getv P k r = getv Q k r /\ getv P k (r + 1) = getv Q k (r + 1)) -> lu_eq_p P r -> lu_eq_p Q r.
    Proof.
      intros E H2. unfold lu_eq_p, Sp in *.
      intros k Hk. rewrite <- (proj1 (E (Datatypes.S k))), <- (proj2 (E (Datatypes.S (npl - 1)))), <- (proj1 (E (Datatypes.S (k - 1)))).
      apply H2. exact Hk.
    Qed.

    (* one table: table rows first_lut .. last_lut, then looking rows last_lut - 1 .. last_lu *)
    Lemma region_loop (g : region) P P' :
      (last_lu g <= last_lut g)%nat -> (last_lut g <= first_lut g)%nat -> wf_polys n npl P ->
      match fold_opt (fun polys row => lut_row_step nlut npl mlut ch (W row) n polys row)
                     (rev (range (last_lut g) (first_lut g + 1))) P with
      | Some polys => fold_opt (fun polys row => lu_row_step nlu npl mlu ch (W row) n polys row)
                               (rev (range (last_lu g) (last_lut g))) polys
      | None => None
      end = Some P' ->
      wf_polys n npl P' /\ (first_lut g + 1 < n)%nat /\
      (forall k r, ~ (last_lu g <= r <= first_lut g)%nat -> getv P' k r = getv P k r) /\
      (forall r, (last_lut g <= r <= first_lut g)%nat -> lut_fac r /\ lut_eq_p P' r) /\
      (forall r, (last_lu g <= r < last_lut g)%nat -> lu_fac r /\ lu_eq_p P' r).
    Proof.
      intros H1 H2 Hwf HF.
      destruct (fold_opt (fun polys row => lut_row_step nlut npl mlut ch (W row) n polys row)
                         (rev (range (last_lut g) (first_lut g + 1))) P) as [P1|] eqn:E1; [|discriminate].
      destruct (rows_loop (fun polys row => lut_row_step nlut npl mlut ch (W row) n polys row) lut_eq_p lut_fac
                          (fun P0 row P0' => lut_row_step_spec P0 row P0') lut_eq_p_local
                          (last_lut g) (first_lut g + 1) P P1 ltac:(lia) E1 Hwf) as (Hwf1 & Hfr1 & Hr1).
      destruct (rows_loop (fun polys row => lu_row_step nlu npl mlu ch (W row) n polys row) lu_eq_p lu_fac
                          (fun P0 row P0' => lu_row_step_spec P0 row P0') lu_eq_p_local
                          (last_lu g) (last_lut g) P1 P' H1 HF Hwf1) as (Hwf' & Hfr' & Hr').
      split; [exact Hwf'|]. split.
      { destruct (Hr1 (first_lut g) ltac:(lia)) as (_ & _ & Hn). lia. }
      split; [|split].
      - intros k r Hout. rewrite Hfr' by lia. apply Hfr1. lia.
      - intros r Hr. destruct (Hr1 r ltac:(lia)) as (Hf & He & _). split; [exact Hf|].
        apply (lut_eq_p_local P1); [|exact He]. intros k. split; symmetry; apply Hfr'; lia.
      - intros r Hr. destruct (Hr' r Hr) as (Hf & He & _). auto.
    Qed.
  End ProverRows.

  (* ------------------------------------------------------------ RE pins the table rows (root bound) *)
  Lemma pzero_diff_eq (p q : list F) :
    length p = length q -> pzero (padd p (pscale (- (1)) q)) -> p = q.
  Proof.
    revert q. induction p as [|a p IH]; intros [|b q] Hl Hz; try discriminate; [reflexivity|].
    change (pscale (- (1)) (b :: q)) with ((- (1)) * b :: pscale (- (1)) q) in Hz. cbn [padd] in Hz.
    inversion Hz as [|? ? Hab Hrest]; subst. f_equal.
    - apply f_sub_eq_0. rewrite <- Hab. ring.
    - apply IH; [cbn in Hl; lia|exact Hrest].
  Qed.

  Lemma peval_eq_coeffs (p q pts : list F) :
    length p = length q -> NoDup pts -> (length p <= length pts)%nat ->
    (forall x, In x pts -> peval p x = peval q x) -> p = q.
  Proof.
    intros Hl Hnd Hlen Hag. apply pzero_diff_eq; [exact Hl|].
    set (d := padd p (pscale (- (1)) q)).
    destruct (pzero_dec d) as [Hz|Hnz]; [exact Hz|exfalso].
    assert (Hdlen : length d = length p).
    { unfold d. rewrite padd_length, pscale_length, <- Hl. apply Nat.max_id. }
    assert (Hlt : (length pts < length d)%nat).
    { apply root_bound; auto. intros y Hy. unfold d. rewrite peval_padd, peval_pscale, (Hag y Hy). ring. }
    lia.
  Qed.

  (* if the RE recurrence run over the slot values cs' ends at the value get_lut_poly demands (cs) for at least
     |cs| distinct values of delta, then cs' = cs *)
  Theorem re_forces_table (cs cs' deltas : list F) :
    length cs' = length cs -> NoDup deltas -> (length cs <= length deltas)%nat ->
    (forall d, In d deltas -> re_fold d 0 cs' = re_fold d 0 cs) -> cs' = cs.
  Proof.
    intros Hl Hnd Hlen Hag.
    assert (E : rev cs' = rev cs).
    { apply (peval_eq_coeffs _ _ deltas); [rewrite !rev_length; exact Hl|exact Hnd|rewrite rev_length, Hl; exact Hlen|].
      intros d Hd. specialize (Hag d Hd). rewrite !re_fold_peval in Hag.
      transitivity (0 * fpow d (length cs') + peval (rev cs') d); [ring|]. rewrite Hag. ring. }
    rewrite <- (rev_involutive cs'), E. apply rev_involutive.
  Qed.

  (* equal combinations for two distinct challenges b mean equal pairs *)
  Lemma combo_pair_unique (i o i' o' b b' : F) :
    b <> b' -> i + b * o = i' + b * o' -> i + b' * o = i' + b' * o' -> i = i' /\ o = o'.
  Proof.
    intros Hb E1 E2.
    assert (Ho : (b - b') * (o - o') = 0).
    { transitivity ((i + b * o) - (i + b' * o) - ((i' + b * o') - (i' + b' * o'))); [ring|]. rewrite E1, E2. ring. }
    apply f_mul_eq_0 in Ho. destruct Ho as [Ho|Ho]; [exfalso; apply Hb; apply f_sub_eq_0; exact Ho|].
    apply (proj1 (f_sub_eq_0 _ _)) in Ho. subst o'. split; [|reflexivity].
    apply f_sub_eq_0. transitivity ((i + b * o) - (i' + b * o)); [ring|]. rewrite E1. ring.
  Qed.

  (* ------------------------------------------------------------ the adversarial start value of the running sum *)
  (* shift every partial SLDC value of the table's rows, and the last partial value on the row after the table,
     by the end value: all transitions are unchanged, the end value becomes zero *)
  Definition sldc_shifted (npl : nat) (g : region) (P : list (list F)) : list (list F) :=
    let e := getv P npl (last_lu g) in
    let P1 := fold_left (fun P row => fold_left (fun P k => setv P (Datatypes.S k) row (getv P (Datatypes.S k) row - e)) (seq 0 npl) P)
                        (range (last_lu g) (first_lut g + 1)) P in
    setv P1 npl (first_lut g + 1) (getv P1 npl (first_lut g + 1) - e).

  (* ------------------------------------------------------------ several tables: the constraints of a row *)
  Lemma sequence_map_Some {A B} (f : A -> option B) (h : A -> B) l :
    (forall x, In x l -> f x = Some (h x)) -> sequence (map f l) = Some (map h l).
  Proof.
    induction l as [|a l IH]; intros Hf; [reflexivity|]. cbn [map sequence].
    rewrite (Hf a (or_introl eq_refl)), IH by (intros x Hx; apply Hf; right; exact Hx). reflexivity.
  Qed.

  Lemma Forall_combine_seq {A} (P : nat * A -> Prop) (l : list A) (d : A) a :
    (forall i, (i < length l)%nat -> P ((a + i)%nat, nth i l d)) -> Forall P (combine (seq a (length l)) l).
  Proof.
    revert a. induction l as [|x l IH]; intros a Hp; [constructor|]. cbn [length seq combine]. constructor.
    - specialize (Hp 0%nat ltac:(cbn; lia)). rewrite Nat.add_0_r in Hp. exact Hp.
    - apply IH. intros i Hi. specialize (Hp (Datatypes.S i) ltac:(cbn; lia)).
      replace (Datatypes.S a + i)%nat with (a + Datatypes.S i)%nat by lia. exact Hp.
  Qed.

  Lemma b2f_cases (b : bool) (x : F) : (b = true -> x = 0) -> b2f b * x = 0.
  Proof. destruct b; cbn [b2f]; intros Hx; [rewrite Hx by reflexivity|]; ring. Qed.

  (* layout of the table regions: each has looking rows and table rows, and the row ranges extended by the row
     after the table, [last_lu, first_lut + 1], are pairwise disjoint *)
  Definition region_ok (g : region) : Prop := (last_lu g < last_lut g)%nat /\ (last_lut g <= first_lut g)%nat.
  Definition separated (g g' : region) : Prop :=
    (first_lut g + 1 < last_lu g')%nat \/ (first_lut g' + 1 < last_lu g)%nat.

  Section Multi.
    Variables (num_routed qdf npl : nat) (tabs : list (list (F * F))) (ch : @challenges F) (regions : list region) (gd : region).
    Variables (W : nat -> list F) (RE : nat -> F) (S : nat -> nat -> F).
    Let nlu := (num_routed / 2)%nat.
    Let nlut := (num_routed / 3)%nat.
    Let lu_deg := (qdf - 1)%nat.
    Let lut_deg := div_ceil nlut npl.
    Let alpha := ch_alpha ch.
    Let ca := ch_a ch.

    Hypothesis npl_pos : (1 <= npl)%nat.
    Hypothesis qdf_pos : (1 <= qdf)%nat.
    Hypothesis nlut_pos : (1 <= nlut)%nat.
    Hypothesis tabs_len : length tabs = length regions.
    Hypothesis tabs_nonempty : forall t, In t tabs -> t <> [].
    Hypothesis wires_len : forall r, (num_routed <= length (W r))%nat.

    Let sels r := lookup_selectors_at regions r.
    Let zsr r := zs_at npl RE S r.

    Definition multi_trans (r : nat) (zgx : list F) : list F :=
      flat_map (fun poly =>
                  let prev := if (poly =? 0)%nat then nth (npl - 1) zgx 0 else nth (poly - 1) (map (fun k => S k r) (seq 0 npl)) 0 in
                  let z := nth poly (map (fun k => S k r) (seq 0 npl)) 0 in
                  [ sel (sels r) 0 * sum_transition alpha ca (W r) (slot_range poly lut_deg nlut) z prev;
                    sel (sels r) 1 * ldc_transition alpha ca (W r) (slot_range poly lu_deg nlu) z prev ])
               (seq 0 npl).

    Lemma multi_explicit r nzre zgx :
      (npl <= length zgx)%nat ->
      lookup_constraints num_routed qdf tabs ch (W r) (zsr r) (nzre :: zgx) (sels r) =
      Some ([ sel (sels r) 3 * S (npl - 1) r; sel (sels r) 2 * S (npl - 1) r; sel (sels r) 2 * RE r ]
            ++ map (fun '(i, ev) => sel (sels r) (4 + i) * (RE r - ev))
                   (combine (seq 0 (length tabs)) (map (fun tab => end_value num_routed tab ch) tabs))
            ++ [ sel (sels r) 0 * (RE r - re_fold (ch_delta ch) nzre (map (looked_combo (ch_b ch) (W r)) (seq 0 nlut))) ]
            ++ multi_trans r zgx).
    Proof.
      intros Hz. unfold lookup_constraints, zsr, zs_at. fold nlut. fold nlu.
      rewrite map_length, seq_length.
      assert (Hsel : length (sels r) = (4 + length regions)%nat).
      { unfold sels, lookup_selectors_at. rewrite app_length, map_length. reflexivity. }
      destruct ((qdf =? 0)%nat || (npl =? 0)%nat || (nlut =? 0)%nat || (length zgx <? npl)%nat
                || (length (sels r) <? 4 + length tabs)%nat || (length (W r) <? num_routed)%nat) eqn:G.
      { exfalso. rewrite Hsel, tabs_len in G.
        repeat (apply orb_prop in G; destruct G as [G|G]);
          try (apply Nat.eqb_eq in G; lia); try (apply Nat.ltb_lt in G; try lia).
        specialize (wires_len r). lia. }
      rewrite (sequence_map_Some _ (fun tab => end_value num_routed tab ch)).
      2:{ intros tab Ht. apply lut_poly_eval_spec; [apply tabs_nonempty; exact Ht|exact nlut_pos]. }
      rewrite (nth_S_row npl S (npl - 1) r) by lia.
      reflexivity.
    Qed.

    Lemma sel_end r i :
      (i < length regions)%nat -> sel (sels r) (4 + i) = b2f (r =? last_lut (nth i regions gd))%nat.
    Proof.
      intros Hi. unfold sel, sels, lookup_selectors_at.
      change (4 + i)%nat with (Datatypes.S (Datatypes.S (Datatypes.S (Datatypes.S i)))). cbn [app nth].
      rewrite nth_indep with (d' := b2f (r =? last_lut gd)%nat) by (rewrite map_length; exact Hi).
      apply (map_nth (fun g => b2f (r =? last_lut g)%nat)).
    Qed.

    Definition in_region_rows (r : nat) : Prop :=
      exists g, In g regions /\ (last_lu g <= r <= first_lut g)%nat.

    (* per table: the equations of its rows, the zero start, the zero end, RE's end value *)
    Definition region_facts (i : nat) : Prop :=
      let g := nth i regions gd in
      let tab := nth i tabs [] in
      (last_lu g < last_lut g)%nat /\ (last_lut g <= first_lut g)%nat /\
      (forall r, In r (lut_rows g) -> lut_eq num_routed npl ch W RE S r /\ lut_factors_ok num_routed ch W r) /\
      (forall r, In r (lu_rows g) -> lu_eq num_routed qdf npl ch W S r /\ lu_factors_ok num_routed ch W r) /\
      RE (first_lut g + 1) = 0 /\ S (npl - 1)%nat (first_lut g + 1)%nat = 0 /\
      S (npl - 1)%nat (last_lu g) = 0 /\ RE (last_lut g) = end_value num_routed tab ch.

    Lemma existsb_region (f : region -> bool) :
      existsb f regions = true -> exists i, (i < length regions)%nat /\ f (nth i regions gd) = true.
    Proof.
      intros E. apply existsb_exists in E. destruct E as (g & Hin & Hf).
      destruct (In_nth regions g gd Hin) as (i & Hi & <-). exists i. auto.
    Qed.

    Lemma prev_value r k (zgx := map (fun k0 => S k0 (r + 1)) (seq 0 npl)) :
      (k < npl)%nat ->
      (if (k =? 0)%nat then nth (npl - 1) zgx 0 else nth (k - 1) (map (fun k0 => S k0 r) (seq 0 npl)) 0) = prevS npl S k r.
    Proof.
      intros Hk. unfold prevS, zgx. destruct (k =? 0)%nat eqn:Ek.
      - rewrite nth_S_row by lia. reflexivity.
      - apply Nat.eqb_neq in Ek. rewrite nth_S_row by lia. reflexivity.
    Qed.

    Theorem multi_constraints_zero :
      (forall i, (i < length regions)%nat -> region_facts i) ->
      forall r nz, length nz = Datatypes.S npl ->
        (in_region_rows r -> nz = zsr (r + 1)) ->
        exists cs, lookup_constraints num_routed qdf tabs ch (W r) (zsr r) nz (sels r) = Some cs /\ all_zero cs.
    Proof.
      intros Hfacts r nz Hlen Hnz.
      destruct nz as [|nzre zgx]; [discriminate|]. cbn [length] in Hlen.
      eexists. split; [apply multi_explicit; lia|].
      unfold all_zero. rewrite !Forall_app. unfold multi_trans. rewrite Forall_flat_map.
      (* which selectors can be one *)
      assert (S0 : sel (sels r) 0 = b2f (existsb (fun g => in_range (last_lut g) (first_lut g + 1) r) regions)) by reflexivity.
      assert (S1 : sel (sels r) 1 = b2f (existsb (fun g => in_range (last_lu g) (last_lut g) r) regions)) by reflexivity.
      assert (S2 : sel (sels r) 2 = b2f (existsb (fun g => (r =? first_lut g + 1)%nat) regions)) by reflexivity.
      assert (S3 : sel (sels r) 3 = b2f (existsb (fun g => (r =? last_lu g)%nat) regions)) by reflexivity.
      assert (Hrow : forall i, (i < length regions)%nat ->
                (last_lu (nth i regions gd) <= r <= first_lut (nth i regions gd))%nat ->
                nzre = RE (r + 1) /\ zgx = map (fun k0 => S k0 (r + 1)) (seq 0 npl)).
      { intros i Hi Hr. assert (E : nzre :: zgx = zsr (r + 1)).
        { apply Hnz. exists (nth i regions gd). split; [apply nth_In; exact Hi|exact Hr]. }
        unfold zsr, zs_at in E. injection E as -> ->. split; reflexivity. }
      repeat split.
      - repeat constructor.
        + rewrite S3. apply b2f_cases. intros E. apply existsb_region in E. destruct E as (i & Hi & E).
          apply Nat.eqb_eq in E. rewrite E. destruct (Hfacts i Hi) as (_ & _ & _ & _ & _ & _ & Hf & _). exact Hf.
        + rewrite S2. apply b2f_cases. intros E. apply existsb_region in E. destruct E as (i & Hi & E).
          apply Nat.eqb_eq in E. rewrite E. destruct (Hfacts i Hi) as (_ & _ & _ & _ & _ & Hs & _). exact Hs.
        + rewrite S2. apply b2f_cases. intros E. apply existsb_region in E. destruct E as (i & Hi & E).
          apply Nat.eqb_eq in E. rewrite E. destruct (Hfacts i Hi) as (_ & _ & _ & _ & Hr0 & _). exact Hr0.
      - rewrite Forall_map. rewrite <- (map_length (fun tab => end_value num_routed tab ch) tabs).
        apply (Forall_combine_seq _ _ 0). intros i Hi. rewrite map_length in Hi. change (0 + i)%nat with i. cbv beta iota.
        rewrite sel_end by (rewrite <- tabs_len; exact Hi). apply b2f_cases. intros E. apply Nat.eqb_eq in E.
        destruct (Hfacts i ltac:(rewrite <- tabs_len; exact Hi)) as (_ & _ & _ & _ & _ & _ & _ & He).
        rewrite E, He.
        rewrite nth_indep with (d' := end_value num_routed [] ch) by (rewrite map_length; exact Hi).
        rewrite (map_nth (fun tab => end_value num_routed tab ch)). apply f_sub_diag.
      - repeat constructor. rewrite S0. apply b2f_cases. intros E. apply existsb_region in E. destruct E as (i & Hi & E).
        apply in_range_spec in E. destruct (Hfacts i Hi) as (Hl1 & Hl2 & Hlut & _).
        destruct (Hrow i Hi ltac:(lia)) as [-> _].
        destruct (Hlut r ltac:(unfold lut_rows, range; apply in_seq; lia)) as ((Hre & _) & _).
        apply f_sub_eq_0. exact Hre.
      - apply Forall_forall. intros k Hk. apply in_seq in Hk. cbv zeta. repeat constructor.
        + rewrite S0. apply b2f_cases. intros E. apply existsb_region in E. destruct E as (i & Hi & E).
          apply in_range_spec in E. destruct (Hfacts i Hi) as (Hl1 & Hl2 & Hlut & _).
          destruct (Hrow i Hi ltac:(lia)) as [_ ->].
          destruct (Hlut r ltac:(unfold lut_rows, range; apply in_seq; lia)) as ((_ & Hsum) & Hfac).
          rewrite (nth_S_row npl S k r) by lia. rewrite prev_value by lia.
          apply sum_transition_algebra.
          * apply slot_range_nodup.
          * intros j Hj. apply Hfac. eapply slot_range_in. exact Hj.
          * rewrite (Hsum k) by lia. unfold sum_term, lut_deg, nlut, alpha, ca. ring.
        + rewrite S1. apply b2f_cases. intros E. apply existsb_region in E. destruct E as (i & Hi & E).
          apply in_range_spec in E. destruct (Hfacts i Hi) as (Hl1 & Hl2 & _ & Hlu & _).
          destruct (Hrow i Hi ltac:(lia)) as [_ ->].
          destruct (Hlu r ltac:(unfold lu_rows, range; apply in_seq; lia)) as (Heq & Hfac).
          rewrite (nth_S_row npl S k r) by lia. rewrite prev_value by lia.
          apply ldc_transition_algebra.
          * apply slot_range_nodup.
          * intros j Hj. apply Hfac. eapply slot_range_in. exact Hj.
          * rewrite (Heq k) by lia. unfold ldc_term, lu_deg, nlu, alpha, ca. ring.
    Qed.

    (* ---------------------------------------------------------- soundness direction: what vanishing constraints force *)
    Lemma Forall_combine_seq_inv {A} (P : nat * A -> Prop) (l : list A) (d : A) a :
      Forall P (combine (seq a (length l)) l) -> forall i, (i < length l)%nat -> P ((a + i)%nat, nth i l d).
    Proof.
      revert a. induction l as [|x l IH]; intros a HF i Hi; [cbn in Hi; lia|].
      cbn [length seq combine] in HF. inversion HF as [|? ? Hx Hrest]; subst. destruct i as [|i].
      - rewrite Nat.add_0_r. exact Hx.
      - cbn [nth]. replace (a + Datatypes.S i)%nat with (Datatypes.S a + i)%nat by lia. apply IH; [exact Hrest|cbn in Hi; lia].
    Qed.

    Lemma b2f_true_mul (b : bool) (x : F) : b = true -> b2f b * x = 0 -> x = 0.
    Proof. intros -> E. cbn [b2f] in E. rewrite <- E. ring. Qed.

    Lemma multi_zero_parts r nzre zgx cs :
      (npl <= length zgx)%nat ->
      lookup_constraints num_routed qdf tabs ch (W r) (zsr r) (nzre :: zgx) (sels r) = Some cs -> all_zero cs ->
      sel (sels r) 3 * S (npl - 1) r = 0 /\ sel (sels r) 2 * S (npl - 1) r = 0 /\ sel (sels r) 2 * RE r = 0 /\
      (forall i, (i < length tabs)%nat -> sel (sels r) (4 + i) * (RE r - end_value num_routed (nth i tabs []) ch) = 0) /\
      sel (sels r) 0 * (RE r - re_fold (ch_delta ch) nzre (map (looked_combo (ch_b ch) (W r)) (seq 0 nlut))) = 0 /\
      (forall k, (k < npl)%nat ->
         let prev := if (k =? 0)%nat then nth (npl - 1) zgx 0 else nth (k - 1) (map (fun k0 => S k0 r) (seq 0 npl)) 0 in
         sel (sels r) 0 * sum_transition alpha ca (W r) (slot_range k lut_deg nlut) (S k r) prev = 0 /\
         sel (sels r) 1 * ldc_transition alpha ca (W r) (slot_range k lu_deg nlu) (S k r) prev = 0).
    Proof.
      intros Hz HS Hall. rewrite (multi_explicit r nzre zgx Hz) in HS. injection HS as E. subst cs.
      unfold all_zero in Hall.
      inversion Hall as [|? ? Ha H3']; subst. inversion H3' as [|? ? Hb H3'']; subst. inversion H3'' as [|? ? Hc H4]; subst.
      apply Forall_app in H4. destruct H4 as [Hends Hrest]. inversion Hrest as [|? ? Hd Htr]; subst.
      split; [exact Ha|]. split; [exact Hb|]. split; [exact Hc|]. split; [|split; [exact Hd|]].
      - intros i Hi. rewrite Forall_map in Hends.
        rewrite <- (map_length (fun tab => end_value num_routed tab ch) tabs) in Hends.
        pose proof (Forall_combine_seq_inv _ _ (end_value num_routed [] ch) 0 Hends i ltac:(rewrite map_length; exact Hi)) as E.
        cbv beta iota in E. change (0 + i)%nat with i in E.
        rewrite (map_nth (fun tab => end_value num_routed tab ch)) in E. exact E.
      - intros k Hk. unfold multi_trans in Htr. rewrite Forall_flat_map, Forall_forall in Htr.
        specialize (Htr k ltac:(apply in_seq; lia)). cbv zeta in Htr.
        rewrite (nth_S_row npl S k r) in Htr by lia.
        inversion Htr as [|? ? H1 Htr']; subst. inversion Htr' as [|? ? H2 _]; subst. split; assumption.
    Qed.

    Section SoundRegion.
      Variables (n i : nat).
      Let g := nth i regions gd.
      Let tab := nth i tabs [].
      Hypothesis all_rows_zero : forall r, (r < n)%nat ->
        exists cs, lookup_constraints num_routed qdf tabs ch (W r) (zsr r) (zsr ((r + 1) mod n)) (sels r) = Some cs /\ all_zero cs.
      Hypothesis i_lt : (i < length regions)%nat.
      Hypothesis g_ok : (last_lu g < last_lut g)%nat /\ (last_lut g <= first_lut g)%nat.
      Hypothesis g_in : (first_lut g + 1 < n)%nat.
      Hypothesis cover_lut : (nlut <= npl * lut_deg)%nat.
      Hypothesis cover_lu : (nlu <= npl * lu_deg)%nat.

      Lemma g_In : In g regions.
      Proof. apply nth_In. exact i_lt. Qed.

      (* the parts of row r, with the next row's openings being those of row r + 1 *)
      Lemma row_parts r : (Datatypes.S r < n)%nat ->
        sel (sels r) 3 * S (npl - 1) r = 0 /\ sel (sels r) 2 * S (npl - 1) r = 0 /\ sel (sels r) 2 * RE r = 0 /\
        (forall j, (j < length tabs)%nat -> sel (sels r) (4 + j) * (RE r - end_value num_routed (nth j tabs []) ch) = 0) /\
        sel (sels r) 0 * (RE r - re_fold (ch_delta ch) (RE (r + 1)) (map (looked_combo (ch_b ch) (W r)) (seq 0 nlut))) = 0 /\
        (forall k, (k < npl)%nat ->
           sel (sels r) 0 * sum_transition alpha ca (W r) (slot_range k lut_deg nlut) (S k r) (prevS npl S k r) = 0 /\
           sel (sels r) 1 * ldc_transition alpha ca (W r) (slot_range k lu_deg nlu) (S k r) (prevS npl S k r) = 0).
      Proof.
        intros Hr. destruct (all_rows_zero r ltac:(lia)) as (cs & HS & Hall).
        rewrite Nat.mod_small in HS by lia. unfold zsr at 2 in HS. unfold zs_at in HS.
        pose proof (multi_zero_parts r (RE (r + 1)) (map (fun k => S k (r + 1)) (seq 0 npl)) cs
                      ltac:(rewrite map_length, seq_length; lia) HS Hall) as (Ha & Hb & Hc & Hd & He & Hf).
        repeat (split; [assumption|]). intros k Hk. specialize (Hf k Hk). cbv zeta in Hf.
        rewrite (prev_value r k Hk) in Hf. exact Hf.
      Qed.

      Lemma sel0_lut r : (last_lut g <= r <= first_lut g)%nat -> sel (sels r) 0 = 1.
      Proof.
        intros Hr. change (sel (sels r) 0) with (b2f (existsb (fun g0 => in_range (last_lut g0) (first_lut g0 + 1) r) regions)).
        replace (existsb _ regions) with true; [reflexivity|]. symmetry. apply existsb_exists.
        exists g. split; [apply g_In|]. apply in_range_spec. lia.
      Qed.
      Lemma sel1_lu r : (last_lu g <= r < last_lut g)%nat -> sel (sels r) 1 = 1.
      Proof.
        intros Hr. change (sel (sels r) 1) with (b2f (existsb (fun g0 => in_range (last_lu g0) (last_lut g0) r) regions)).
        replace (existsb _ regions) with true; [reflexivity|]. symmetry. apply existsb_exists.
        exists g. split; [apply g_In|]. apply in_range_spec. lia.
      Qed.
      Lemma sel2_init : sel (sels (first_lut g + 1)) 2 = 1.
      Proof.
        change (sel (sels (first_lut g + 1)) 2) with (b2f (existsb (fun g0 => (first_lut g + 1 =? first_lut g0 + 1)%nat) regions)).
        replace (existsb _ regions) with true; [reflexivity|]. symmetry. apply existsb_exists.
        exists g. split; [apply g_In|]. apply Nat.eqb_refl.
      Qed.
      Lemma sel3_last : sel (sels (last_lu g)) 3 = 1.
      Proof.
        change (sel (sels (last_lu g)) 3) with (b2f (existsb (fun g0 => (last_lu g =? last_lu g0)%nat) regions)).
        replace (existsb _ regions) with true; [reflexivity|]. symmetry. apply existsb_exists.
        exists g. split; [apply g_In|]. apply Nat.eqb_refl.
      Qed.

      Lemma one_mul_zero (x : F) : 1 * x = 0 -> x = 0.
      Proof. intros E. rewrite <- E. ring. Qed.

      (* the parts that do not read the next row, on any row of H *)
      Lemma row_parts_local r : (r < n)%nat ->
        sel (sels r) 3 * S (npl - 1) r = 0 /\ sel (sels r) 2 * S (npl - 1) r = 0 /\ sel (sels r) 2 * RE r = 0.
      Proof.
        intros Hr. destruct (all_rows_zero r Hr) as (cs & HS & Hall).
        unfold zsr at 2 in HS. unfold zs_at in HS.
        pose proof (multi_zero_parts r (RE ((r + 1) mod n)) (map (fun k => S k ((r + 1) mod n)) (seq 0 npl)) cs
                      ltac:(rewrite map_length, seq_length; lia) HS Hall) as (Ha & Hb & Hc & _).
        auto.
      Qed.

      (* InitSre pins the start of the running sum, LastLdc its end *)
      Lemma start_pinned : S (npl - 1) (first_lut g + 1) = 0.
      Proof.
        destruct (row_parts_local (first_lut g + 1) ltac:(lia)) as (_ & Hb & _). rewrite sel2_init in Hb.
        apply one_mul_zero. exact Hb.
      Qed.
      Lemma end_pinned : S (npl - 1) (last_lu g) = 0.
      Proof.
        destruct (row_parts (last_lu g) ltac:(lia)) as (Ha & _). rewrite sel3_last in Ha. apply one_mul_zero. exact Ha.
      Qed.

      (* the logUp balance at the challenge alpha, over the rows of the table *)
      Theorem sound_balance :
        (forall r, In r (lut_rows g) -> lut_factors_ok num_routed ch W r) ->
        (forall r, In r (lu_rows g) -> lu_factors_ok num_routed ch W r) ->
        fsum (map (fun r => fsum (map (sum_term ch W r) (seq 0 nlut))) (lut_rows g)) =
        fsum (map (fun r => fsum (map (ldc_term ch W r) (seq 0 nlu))) (lu_rows g)).
      Proof.
        intros Hfl Hfu.
        pose proof (sldc_chain_sound num_routed qdf npl ch g W S npl_pos cover_lut cover_lu g_ok) as CS.
        assert (H1 : forall r, In r (lut_rows g) ->
                  lut_factors_ok num_routed ch W r /\
                  forall k, (k < npl)%nat ->
                    sum_transition (ch_alpha ch) (ch_a ch) (W r) (slot_range k (div_ceil (num_routed / 3) npl) (num_routed / 3))
                                   (S k r) (prevS npl S k r) = 0).
        { intros r Hr. split; [apply Hfl; exact Hr|]. unfold lut_rows, range in Hr. apply in_seq in Hr.
          intros k Hk. destruct (row_parts r ltac:(lia)) as (_ & _ & _ & _ & _ & Hf). destruct (Hf k Hk) as [Hs _].
          rewrite sel0_lut in Hs by lia. apply one_mul_zero. exact Hs. }
        assert (H2 : forall r, In r (lu_rows g) ->
                  lu_factors_ok num_routed ch W r /\
                  forall k, (k < npl)%nat ->
                    ldc_transition (ch_alpha ch) (ch_a ch) (W r) (slot_range k (qdf - 1) (num_routed / 2))
                                   (S k r) (prevS npl S k r) = 0).
        { intros r Hr. split; [apply Hfu; exact Hr|]. unfold lu_rows, range in Hr. apply in_seq in Hr.
          intros k Hk. destruct (row_parts r ltac:(lia)) as (_ & _ & _ & _ & _ & Hf). destruct (Hf k Hk) as [_ Hl].
          rewrite sel1_lu in Hl by lia. apply one_mul_zero. exact Hl. }
        specialize (CS H1 H2). rewrite start_pinned, end_pinned in CS.
        apply f_sub_eq_0. unfold nlut, nlu. rewrite <- CS. ring.
      Qed.

      (* the RE recurrence over the table rows, run from zero, ends at get_lut_poly's value *)
      Theorem sound_re :
        re_fold (ch_delta ch) 0 (flat_map (fun r => map (looked_combo (ch_b ch) (W r)) (seq 0 nlut)) (rev (lut_rows g))) =
        end_value num_routed tab ch.
      Proof.
        assert (Hre0 : RE (first_lut g + 1) = 0).
        { destruct (row_parts_local (first_lut g + 1) ltac:(lia)) as (_ & _ & Hc). rewrite sel2_init in Hc.
          apply one_mul_zero. exact Hc. }
        assert (Hend : RE (last_lut g) = end_value num_routed tab ch).
        { destruct (row_parts (last_lut g) ltac:(lia)) as (_ & _ & _ & Hd & _).
          specialize (Hd i ltac:(rewrite tabs_len; exact i_lt)). rewrite sel_end in Hd by exact i_lt.
          fold g in Hd. rewrite Nat.eqb_refl in Hd. cbn [b2f] in Hd. apply f_sub_eq_0. apply one_mul_zero. exact Hd. }
        rewrite <- Hend.
        pose proof (re_chain (ch_delta ch) RE (fun r => map (looked_combo (ch_b ch) (W r)) (seq 0 nlut))
                             (last_lut g) (first_lut g + 1) ltac:(lia)) as C.
        rewrite C, Hre0; [reflexivity|].
        intros r Hr. replace (Datatypes.S r) with (r + 1)%nat by lia.
        destruct (row_parts r ltac:(lia)) as (_ & _ & _ & _ & He & _). rewrite sel0_lut in He by lia.
        apply f_sub_eq_0. apply one_mul_zero. exact He.
      Qed.
    End SoundRegion.
  End Multi.

  (* ------------------------------------------------------------ the prover's loop over the tables *)
  Section ProverRegions.
    Variables (n num_routed npl mlut mlu : nat) (ch : @challenges F) (W : nat -> list F).
    Hypothesis npl_pos : (1 <= npl)%nat.
    Let nlu := (num_routed / 2)%nat.
    Let nlut := (num_routed / 3)%nat.

    Definition region_step (polys : list (list F)) (g : region) : option (list (list F)) :=
      match fold_opt (fun polys row => lut_row_step nlut npl mlut ch (W row) n polys row)
                     (rev (range (last_lut g) (first_lut g + 1))) polys with
      | Some polys => fold_opt (fun polys row => lu_row_step nlu npl mlu ch (W row) n polys row)
                               (rev (range (last_lu g) (last_lut g))) polys
      | None => None
      end.

    Definition region_done (P : list (list F)) (g : region) : Prop :=
      (first_lut g + 1 < n)%nat /\
      (forall r, (last_lut g <= r <= first_lut g)%nat -> lut_fac num_routed ch W r /\ lut_eq_p num_routed npl mlut ch W P r) /\
      (forall r, (last_lu g <= r < last_lut g)%nat -> lu_fac num_routed ch W r /\ lu_eq_p num_routed npl mlu ch W P r).

    Definition outside (done : list region) (r : nat) : Prop :=
      forall g, In g done -> ~ (last_lu g <= r <= first_lut g)%nat.

    Definition regions_inv (done : list region) (P : list (list F)) : Prop :=
      wf_polys n npl P /\ (forall k r, outside done r -> getv P k r = 0) /\ (forall g, In g done -> region_done P g).

    Lemma regions_loop rest : forall done P P',
      regions_inv done P ->
      Forall (fun g => Forall (separated g) rest) done -> ForallOrdPairs separated rest -> Forall region_ok rest ->
      Forall region_ok done ->
      fold_opt region_step rest P = Some P' -> regions_inv (done ++ rest) P'.
    Proof.
      induction rest as [|g' rest IH]; intros done P P' Hinv Hsep Hfop Hok Hokd HF.
      - cbn in HF. injection HF as <-. rewrite app_nil_r. exact Hinv.
      - cbn [fold_opt] in HF. destruct (region_step P g') as [P1|] eqn:E1; [|discriminate].
        inversion Hfop as [|? ? Hg'rest Hfop']; subst. inversion Hok as [|? ? Hokg' Hok']; subst.
        destruct Hinv as (Hwf & Hzero & Hdone). destruct Hokg' as [Ho1 Ho2].
        destruct (region_loop n num_routed npl mlut mlu ch W npl_pos g' P P1 ltac:(lia) Ho2 Hwf E1)
          as (Hwf1 & Hn1 & Hfr1 & Hlut1 & Hlu1).
        replace (done ++ g' :: rest) with ((done ++ [g']) ++ rest) by (rewrite <- app_assoc; reflexivity).
        apply (IH (done ++ [g']) P1 P'); auto.
        + split; [exact Hwf1|]. split.
          * intros k r Hout. rewrite Hfr1.
            -- apply Hzero. intros g Hg. apply Hout. apply in_or_app. left. exact Hg.
            -- apply Hout. apply in_or_app. right. left. reflexivity.
          * intros g Hg. apply in_app_or in Hg. destruct Hg as [Hg|[<-|[]]].
            -- destruct (Hdone g Hg) as (Hn & Hl & Hu).
               assert (Hokg : region_ok g) by (rewrite Forall_forall in Hokd; apply Hokd; exact Hg).
               destruct Hokg as [Hg1 Hg2].
               assert (Hsg : separated g g').
               { rewrite Forall_forall in Hsep. specialize (Hsep g Hg). inversion Hsep; assumption. }
               assert (Hsame : forall k r, (last_lu g <= r <= first_lut g + 1)%nat -> getv P1 k r = getv P k r).
               { intros k r Hr. apply Hfr1. destruct Hsg as [Hs|Hs]; lia. }
               split; [exact Hn|]. split.
               ++ intros r Hr. destruct (Hl r Hr) as [Hf He]. split; [exact Hf|].
                  apply (lut_eq_p_local num_routed npl mlut ch W P); [|exact He].
                  intros k. split; symmetry; apply Hsame; lia.
               ++ intros r Hr. destruct (Hu r Hr) as [Hf He]. split; [exact Hf|].
                  apply (lu_eq_p_local num_routed npl mlu ch W P); [|exact He].
                  intros k. split; symmetry; apply Hsame; lia.
            -- split; [exact Hn1|]. split; [exact Hlut1|exact Hlu1].
        + apply Forall_app. split.
          * apply Forall_forall. intros g Hg. rewrite Forall_forall in Hsep. specialize (Hsep g Hg).
            inversion Hsep; assumption.
          * constructor; [exact Hg'rest|constructor].
        + apply Forall_app. split; [exact Hokd|]. constructor; [split; assumption|constructor].
    Qed.
  End ProverRegions.

  (* the openings of a row as the verifier receives them: RE, then the partial SLDC values *)
  Definition zs_of (num_routed qdf : nat) (P : list (list F)) (r : nat) : list F :=
    getv P 0 r :: map (fun k => getv P (Datatypes.S k) r) (seq 0 (div_ceil (num_routed / 2) (qdf - 1))).

  (* ------------------------------------------------------------ completeness, any number of tables *)
  Section CompleteAll.
    Variables (n num_routed qdf : nat) (tabs : list (list (F * F))) (ch : @challenges F) (regions : list region) (gd : region)
              (W : nat -> list F).
    Let nlu := (num_routed / 2)%nat.
    Let nlut := (num_routed / 3)%nat.
    Let npl := div_ceil nlu (qdf - 1).

    Theorem lookup_complete_all P :
      compute_lookup_polys n num_routed qdf W ch regions = Some P ->
      ForallOrdPairs separated regions -> Forall region_ok regions ->
      length tabs = length regions -> (forall t, In t tabs -> t <> []) ->
      (1 <= nlut)%nat -> (forall r, (num_routed <= length (W r))%nat) ->
      (forall i, (i < length regions)%nat ->
         table_rows_hold_table num_routed (nth i tabs []) (nth i regions gd) W /\
         multiplicities_are_counts num_routed ch (nth i regions gd) W) ->
      (forall g, In g regions -> getv P npl (last_lu g) = 0) /\
      forall r, (r < n)%nat ->
        exists cs,
          lookup_constraints num_routed qdf tabs ch (W r) (zs_of num_routed qdf P r) (zs_of num_routed qdf P ((r + 1) mod n))
                             (lookup_selectors_at regions r) = Some cs /\ all_zero cs.
    Proof.
      intros HC Hfop Hok Hlen Htabs Hnlut Hwl Hper.
      unfold compute_lookup_polys in HC. fold nlu in HC. fold nlut in HC.
      destruct (qdf <=? 1)%nat eqn:Eq; [discriminate|]. apply Nat.leb_gt in Eq.
      fold npl in HC. destruct (npl =? 0)%nat eqn:En; [discriminate|]. apply Nat.eqb_neq in En.
      set (mlut := div_ceil nlut npl) in *. set (mlu := (qdf - 1)%nat) in *.
      set (P0 := repeat (repeat 0 n) (npl + 1)) in *.
      assert (Hinv0 : regions_inv n num_routed npl mlut mlu ch W [] P0).
      { split; [apply zeros_wf|]. split; [intros k r _; apply zeros_getv|intros g []]. }
      pose proof (regions_loop n num_routed npl mlut mlu ch W ltac:(lia) regions [] P0 P Hinv0 ltac:(constructor) Hfop Hok ltac:(constructor) HC)
        as (Hwf & Hzero & Hdone).
      cbn [app] in Hzero, Hdone.
      assert (cover_lut : (nlut <= npl * mlut)%nat).
      { unfold mlut. rewrite Nat.mul_comm. apply div_ceil_mul. lia. }
      assert (cover_lu : (nlu <= npl * mlu)%nat).
      { unfold npl, mlu. apply div_ceil_mul. lia. }
      set (RE := REp P). set (SS := Sp P).
      (* the row after a table lies outside every table *)
      assert (Hafter : forall g, In g regions -> outside regions (first_lut g + 1)).
      { intros g Hg g2 Hg2 Hr.
        assert (Hok2 : region_ok g2) by (rewrite Forall_forall in Hok; apply Hok; exact Hg2).
        destruct Hok2 as [Ha Hb].
        assert (Hok1 : region_ok g) by (rewrite Forall_forall in Hok; apply Hok; exact Hg).
        destruct Hok1 as [Hc Hd].
        destruct (ForallOrdPairs_In Hfop g g2 Hg Hg2) as [->|[Hs|Hs]]; [lia|destruct Hs; lia|destruct Hs; lia]. }
      assert (Hfacts : forall i, (i < length regions)%nat ->
                region_facts num_routed qdf npl tabs ch regions gd W RE SS i).
      { intros i Hi. unfold region_facts. cbv zeta.
        set (g := nth i regions gd). assert (Hg : In g regions) by (apply nth_In; exact Hi).
        assert (Hokg : region_ok g) by (rewrite Forall_forall in Hok; apply Hok; exact Hg).
        destruct Hokg as [Ho1 Ho2]. destruct (Hdone g Hg) as (Hn & Hlut & Hlu).
        destruct (Hper i Hi) as [Htable Hmult]. fold g in Htable, Hmult.
        assert (Hlut_eq : forall r, In r (lut_rows g) -> lut_eq num_routed npl ch W RE SS r /\ lut_factors_ok num_routed ch W r).
        { intros r Hr. unfold lut_rows, range in Hr. apply in_seq in Hr.
          destruct (Hlut r ltac:(lia)) as (Hf & He). split; [exact He|exact Hf]. }
        assert (Hlu_eq : forall r, In r (lu_rows g) -> lu_eq num_routed qdf npl ch W SS r /\ lu_factors_ok num_routed ch W r).
        { intros r Hr. unfold lu_rows, range in Hr. apply in_seq in Hr.
          destruct (Hlu r ltac:(lia)) as (Hf & He). split; [exact He|exact Hf]. }
        assert (Hre0 : RE (first_lut g + 1)%nat = 0) by (apply Hzero; apply Hafter; exact Hg).
        assert (Hs0 : forall k, SS k (first_lut g + 1)%nat = 0) by (intros k; apply Hzero; apply Hafter; exact Hg).
        split; [exact Ho1|]. split; [exact Ho2|]. split; [exact Hlut_eq|]. split; [exact Hlu_eq|].
        split; [exact Hre0|]. split; [apply Hs0|]. split.
        - apply (sldc_final_zero num_routed qdf npl ch g W RE SS); auto; try lia.
          + intros r Hr. apply Hlut_eq. exact Hr.
          + intros r Hr. apply Hlu_eq. exact Hr.
        - apply (re_end_value num_routed qdf npl (nth i tabs []) ch g W RE SS); auto; try lia.
          intros r Hr. apply Hlut_eq. exact Hr. }
      split.
      { intros g Hg. destruct (In_nth regions g gd Hg) as (i & Hi & <-).
        destruct (Hfacts i Hi) as (_ & _ & _ & _ & _ & _ & Hf & _).
        unfold SS, Sp in Hf. replace (Datatypes.S (npl - 1)) with npl in Hf by lia. exact Hf. }
      intros r Hr.
      pose proof (multi_constraints_zero num_routed qdf npl tabs ch regions gd W RE SS ltac:(lia) ltac:(lia) Hnlut Hlen Htabs Hwl
                    Hfacts r (zs_of num_routed qdf P ((r + 1) mod n))) as MC.
      assert (Hl : length (zs_of num_routed qdf P ((r + 1) mod n)) = Datatypes.S npl).
      { unfold zs_of. cbn [length]. rewrite map_length, seq_length. reflexivity. }
      specialize (MC Hl).
      apply MC. intros (g & Hg & Hrr). destruct (Hdone g Hg) as (Hn & _ & _).
      rewrite Nat.mod_small by lia. reflexivity.
    Qed.
  End CompleteAll.

  (* ------------------------------------------------------------ completeness, one table *)
  Section Complete.
    Variables (n num_routed qdf : nat) (tab : list (F * F)) (ch : @challenges F) (g : region) (W : nat -> list F).
    Let nlu := (num_routed / 2)%nat.
    Let nlut := (num_routed / 3)%nat.
    Let npl := div_ceil nlu (qdf - 1).

    Theorem lookup_complete P :
      compute_lookup_polys n num_routed qdf W ch [g] = Some P ->
      (last_lu g < last_lut g)%nat /\ (last_lut g <= first_lut g)%nat ->
      (1 <= nlut)%nat -> tab <> [] -> (forall r, (num_routed <= length (W r))%nat) ->
      table_rows_hold_table num_routed tab g W ->
      multiplicities_are_counts num_routed ch g W ->
      getv P npl (last_lu g) = 0 /\
      forall r, (r < n)%nat ->
        exists cs,
          lookup_constraints num_routed qdf [tab] ch (W r) (zs_of num_routed qdf P r) (zs_of num_routed qdf P ((r + 1) mod n))
                             (lookup_selectors_at [g] r) = Some cs /\ all_zero cs.
    Proof.
      intros HC Hlay Hnlut Htab Hwl Htable Hmult.
      unfold compute_lookup_polys in HC. fold nlu in HC. fold nlut in HC.
      destruct (qdf <=? 1)%nat eqn:Eq; [discriminate|]. apply Nat.leb_gt in Eq.
      fold npl in HC. destruct (npl =? 0)%nat eqn:En; [discriminate|]. apply Nat.eqb_neq in En.
      cbn [fold_opt] in HC.
      set (mlut := div_ceil nlut npl) in *. set (mlu := (qdf - 1)%nat) in *.
      set (P0 := repeat (repeat 0 n) (npl + 1)) in *.
      assert (HC' : match fold_opt (fun polys row => lut_row_step nlut npl mlut ch (W row) n polys row)
                                   (rev (range (last_lut g) (first_lut g + 1))) P0 with
                    | Some polys => fold_opt (fun polys row => lu_row_step nlu npl mlu ch (W row) n polys row)
                                             (rev (range (last_lu g) (last_lut g))) polys
                    | None => None
                    end = Some P).
      { destruct (match fold_opt _ (rev (range (last_lut g) (first_lut g + 1))) P0 with Some _ => _ | None => None end) eqn:E;
          [injection HC as <-; reflexivity|discriminate]. }
      clear HC.
      destruct (region_loop n num_routed npl mlut mlu ch W ltac:(lia) g P0 P ltac:(lia) ltac:(lia) (zeros_wf n npl) HC')
        as (Hwf & Hn & Hfr & Hlut & Hlu).
      assert (Hz : forall k r, ~ (last_lu g <= r <= first_lut g)%nat -> getv P k r = 0).
      { intros k r Hr. rewrite Hfr by exact Hr. apply zeros_getv. }
      assert (cover_lut : (nlut <= npl * mlut)%nat).
      { unfold mlut. rewrite Nat.mul_comm. apply div_ceil_mul. lia. }
      assert (cover_lu : (nlu <= npl * mlu)%nat).
      { unfold npl, mlu. apply div_ceil_mul. lia. }
      set (RE := REp P). set (SS := Sp P).
      assert (Hlut_eq : forall r, In r (lut_rows g) -> lut_eq num_routed npl ch W RE SS r /\ lut_factors_ok num_routed ch W r).
      { intros r Hr. unfold lut_rows, range in Hr. apply in_seq in Hr.
        destruct (Hlut r ltac:(lia)) as (Hf & He). split; [exact He|exact Hf]. }
      assert (Hlu_eq : forall r, In r (lu_rows g) -> lu_eq num_routed qdf npl ch W SS r /\ lu_factors_ok num_routed ch W r).
      { intros r Hr. unfold lu_rows, range in Hr. apply in_seq in Hr.
        destruct (Hlu r ltac:(lia)) as (Hf & He). split; [exact He|exact Hf]. }
      assert (Hre0 : RE (first_lut g + 1)%nat = 0) by (apply Hz; lia).
      assert (Hs0 : forall k, SS k (first_lut g + 1)%nat = 0) by (intros k; apply Hz; lia).
      assert (Hfin : SS (npl - 1)%nat (last_lu g) = 0).
      { apply (sldc_final_zero num_routed qdf npl ch g W RE SS); auto; try lia.
        - intros r Hr. apply Hlut_eq. exact Hr.
        - intros r Hr. apply Hlu_eq. exact Hr. }
      assert (Hend : RE (last_lut g) = end_value num_routed tab ch).
      { apply (re_end_value num_routed qdf npl tab ch g W RE SS); auto; try lia.
        intros r Hr. apply Hlut_eq. exact Hr. }
      split.
      { unfold SS, Sp in Hfin. replace (Datatypes.S (npl - 1)) with npl in Hfin by lia. exact Hfin. }
      intros r Hr.
      pose proof (region_constraints_zero num_routed qdf npl tab ch g W RE SS ltac:(lia) cover_lut cover_lu Hlay
                    ltac:(lia) Hnlut Htab Hwl Hlut_eq Hlu_eq Hre0 (Hs0 (npl - 1)%nat) Hfin Hend r (zs_of num_routed qdf P ((r + 1) mod n))) as RC.
      assert (Hlen : length (zs_of num_routed qdf P ((r + 1) mod n)) = Datatypes.S npl).
      { unfold zs_of. cbn [length]. rewrite map_length, seq_length. reflexivity. }
      specialize (RC Hlen).
      assert (Hnext : (last_lu g <= r <= first_lut g)%nat -> zs_of num_routed qdf P ((r + 1) mod n) = zs_at npl RE SS (r + 1)).
      { intros Hrr. rewrite Nat.mod_small by lia. reflexivity. }
      destruct (RC Hnext) as (cs & Hcs & Hzero). exists cs. split; [|exact Hzero]. exact Hcs.
    Qed.
  End Complete.
  (* ------------------------------------------------------------ from the balance equation to membership *)
  (* sum_v c(v) / (X - v) over distinct poles vanishing at |poles| points forces every c(v) = 0 *)
  Section Poles.
    Definition lin (v : F) : list F := [- v; 1].
    Lemma peval_lin v x : peval (lin v) x = x - v.
    Proof. cbn. ring. Qed.

    Fixpoint prodlin (vs : list F) : list F :=
      match vs with [] => [1] | v :: r => pmul (lin v) (prodlin r) end.

    Lemma prodlin_length vs : length (prodlin vs) = Datatypes.S (length vs).
    Proof.
      induction vs as [|v r IH]; [reflexivity|]. cbn [prodlin]. rewrite pmul_length.
      - rewrite IH. cbn [lin length]. lia.
      - discriminate.
      - intros E. rewrite E in IH. discriminate.
    Qed.

    Lemma peval_prodlin vs x : peval (prodlin vs) x = fprod (map (fun v => x - v) vs).
    Proof.
      induction vs as [|v r IH]; cbn [prodlin map]; [cbn; ring|].
      rewrite peval_pmul, peval_lin, IH. reflexivity.
    Qed.

    Definition psum (ps : list (list F)) : list F := fold_right padd [] ps.

    Lemma peval_psum ps x : peval (psum ps) x = fsum (map (fun p => peval p x) ps).
    Proof.
      induction ps as [|p ps IH]; [reflexivity|]. cbn [psum fold_right map]. rewrite peval_padd.
      fold (psum ps). rewrite IH. reflexivity.
    Qed.

    Lemma psum_length ps m : (forall p, In p ps -> (length p <= m)%nat) -> (length (psum ps) <= m)%nat.
    Proof.
      induction ps as [|p ps IH]; intros Hp; [cbn; lia|]. cbn [psum fold_right]. rewrite padd_length. fold (psum ps).
      apply Nat.max_lub; [apply Hp; left; reflexivity|apply IH; intros q Hq; apply Hp; right; exact Hq].
    Qed.

    Definition others (v : F) (vs : list F) : list F := remove F_eq_dec v vs.

    Lemma prod_others vs v x :
      NoDup vs -> In v vs ->
      fprod (map (fun u => x - u) (others v vs)) * (x - v) = fprod (map (fun u => x - u) vs).
    Proof.
      unfold others. induction vs as [|a r IH]; intros Hnd Hin; [contradiction|].
      apply NoDup_cons_iff in Hnd. destruct Hnd as [Ha Hnd]. cbn [remove].
      destruct (F_eq_dec v a) as [->|Hne].
      - rewrite notin_remove by exact Ha. cbn [map]. rewrite fprod_cons. ring.
      - destruct Hin as [E|Hin]; [congruence|]. cbn [map]. rewrite !fprod_cons.
        transitivity ((x - a) * (fprod (map (fun u => x - u) (remove F_eq_dec v r)) * (x - v))); [ring|].
        rewrite IH by assumption. reflexivity.
    Qed.

    Lemma others_length vs v : NoDup vs -> In v vs -> Datatypes.S (length (others v vs)) = length vs.
    Proof.
      unfold others. induction vs as [|a r IH]; intros Hnd Hin; [contradiction|].
      apply NoDup_cons_iff in Hnd. destruct Hnd as [Ha Hnd]. cbn [remove].
      destruct (F_eq_dec v a) as [->|Hne].
      - rewrite notin_remove by exact Ha. reflexivity.
      - destruct Hin as [E|Hin]; [congruence|]. cbn [length]. rewrite IH by assumption. reflexivity.
    Qed.

    Lemma fprod_zero_factor v0 l : In v0 l -> fprod (map (fun u => v0 - u) l) = 0.
    Proof.
      induction l as [|a r IH]; intros Hin; [contradiction|]. cbn [map]. rewrite fprod_cons.
      destruct Hin as [->|Hin]; [ring|]. rewrite IH by exact Hin. ring.
    Qed.

    Lemma fsum_indicator (h : F -> F) vs v0 :
      NoDup vs -> In v0 vs -> fsum (map (fun v => if F_eq_dec v v0 then h v else 0) vs) = h v0.
    Proof.
      induction vs as [|a r IH]; intros Hnd Hin; [contradiction|].
      apply NoDup_cons_iff in Hnd. destruct Hnd as [Ha Hnd]. cbn [map]. rewrite fsum_cons.
      destruct (F_eq_dec a v0) as [->|Hne].
      - assert (Z : fsum (map (fun v => if F_eq_dec v v0 then h v else 0) r) = 0).
        { clear IH Hin. induction r as [|b r IHr]; [reflexivity|]. cbn [map]. rewrite fsum_cons.
          destruct (F_eq_dec b v0) as [->|_]; [exfalso; apply Ha; left; reflexivity|].
          rewrite IHr; [ring| |].
          - intros Hc. apply Ha. right. exact Hc.
          - apply NoDup_cons_iff in Hnd. tauto. }
        rewrite Z. ring.
      - destruct Hin as [E|Hin]; [congruence|]. rewrite IH by assumption. ring.
    Qed.

    Variable c : F -> F.
    Definition qpoly (vs : list F) : list F := psum (map (fun v => pscale (c v) (prodlin (others v vs))) vs).

    Lemma qpoly_length vs : NoDup vs -> (length (qpoly vs) <= length vs)%nat.
    Proof.
      intros Hnd. unfold qpoly. apply psum_length. intros p Hp. apply in_map_iff in Hp. destruct Hp as (v & <- & Hv).
      rewrite pscale_length, prodlin_length, others_length by assumption. lia.
    Qed.

    Lemma peval_qpoly vs x :
      peval (qpoly vs) x = fsum (map (fun v => c v * fprod (map (fun u => x - u) (others v vs))) vs).
    Proof.
      unfold qpoly. rewrite peval_psum, map_map. apply fsum_map_ext_in. intros v _.
      rewrite peval_pscale, peval_prodlin. reflexivity.
    Qed.

    Lemma qpoly_nonpole vs x :
      NoDup vs -> (forall u, In u vs -> x <> u) ->
      peval (qpoly vs) x = fprod (map (fun u => x - u) vs) * fsum (map (fun v => c v * finv (x - v)) vs).
    Proof.
      intros Hnd Hx. rewrite peval_qpoly, <- fsum_map_scale. apply fsum_map_ext_in. intros v Hv.
      assert (Hxv : x - v <> 0) by (intros E; apply (Hx v Hv); apply f_sub_eq_0; exact E).
      rewrite <- (prod_others vs v x Hnd Hv).
      transitivity (c v * fprod (map (fun u => x - u) (others v vs)) * ((x - v) * finv (x - v))); [|ring].
      rewrite f_inv_r by exact Hxv. ring.
    Qed.

    Lemma qpoly_pole vs v0 :
      NoDup vs -> In v0 vs ->
      peval (qpoly vs) v0 = c v0 * fprod (map (fun u => v0 - u) (others v0 vs)) /\
      fprod (map (fun u => v0 - u) (others v0 vs)) <> 0.
    Proof.
      intros Hnd Hin. split.
      - rewrite peval_qpoly.
        rewrite (fsum_map_ext_in _ (fun v => if F_eq_dec v v0 then c v * fprod (map (fun u => v0 - u) (others v vs)) else 0)).
        + rewrite (fsum_indicator (fun v => c v * fprod (map (fun u => v0 - u) (others v vs))) vs v0 Hnd Hin). reflexivity.
        + intros v Hv. destruct (F_eq_dec v v0) as [_|Hne]; [reflexivity|].
          rewrite fprod_zero_factor; [ring|]. unfold others. apply in_in_remove; [congruence|exact Hin].
      - apply fprod_neq_0. apply Forall_forall. intros y Hy. apply in_map_iff in Hy. destruct Hy as (u & <- & Hu).
        unfold others in Hu. apply in_remove in Hu. destruct Hu as [_ Hne].
        intros E. apply Hne. symmetry. apply f_sub_eq_0. exact E.
    Qed.

    Theorem poles_vanish (vs alphas : list F) :
      NoDup vs -> NoDup alphas -> (length vs <= length alphas)%nat ->
      (forall a, In a alphas -> (forall u, In u vs -> a <> u) /\ fsum (map (fun v => c v * finv (a - v)) vs) = 0) ->
      forall v, In v vs -> c v = 0.
    Proof.
      intros Hnd Hna Hlen Hal v0 Hv0.
      assert (Hroots : forall a, In a alphas -> peval (qpoly vs) a = 0).
      { intros a Ha. destruct (Hal a Ha) as [Hnp Hz]. rewrite qpoly_nonpole by assumption. rewrite Hz. ring. }
      assert (Hz : pzero (qpoly vs)).
      { destruct (pzero_dec (qpoly vs)) as [Hz|Hnz]; [exact Hz|exfalso].
        pose proof (root_bound (qpoly vs) alphas Hnz Hna Hroots) as Hlt.
        pose proof (qpoly_length vs Hnd). lia. }
      destruct (qpoly_pole vs v0 Hnd Hv0) as [Hev Hne].
      rewrite (peval_pzero _ v0 Hz) in Hev. symmetry in Hev. apply f_mul_eq_0 in Hev. tauto.
    Qed.
  End Poles.

  Lemma fsum_map_sub {A} (p q g : A -> F) l :
    fsum (map (fun v => (p v - q v) * g v) l) = fsum (map (fun v => p v * g v) l) - fsum (map (fun v => q v * g v) l).
  Proof. induction l as [|x l IH]; cbn [map]; rewrite ?fsum_cons; [unfold fsum; cbn [fold_right]; ring|]. rewrite IH. ring. Qed.

  (* regrouping a weighted sum by the distinct values of its keys *)
  Section Regroup.
    Definition weight_of (l : list (F * F)) (v : F) : F :=
      fsum (map snd (filter (fun kw => fst kw =? v) l)).

    Lemma regroup (gf : F -> F) (l : list (F * F)) (V : list F) :
      NoDup V -> (forall kw, In kw l -> In (fst kw) V) ->
      fsum (map (fun kw => snd kw * gf (fst kw)) l) = fsum (map (fun v => weight_of l v * gf v) V).
    Proof.
      intros Hnd. induction l as [|[k w] l IH]; intros Hin.
      - cbn [map]. unfold weight_of. cbn [filter map]. clear Hin.
        induction V as [|v V IHV]; [reflexivity|]. cbn [map]. rewrite fsum_cons.
        rewrite <- IHV by (apply NoDup_cons_iff in Hnd; tauto). unfold fsum. cbn [fold_right]. ring.
      - cbn [map fst snd]. rewrite fsum_cons, IH by (intros kw Hkw; apply Hin; right; exact Hkw).
        assert (Hk : In k V) by (apply (Hin (k, w)); left; reflexivity).
        rewrite <- (fsum_indicator (fun v => w * gf v) V k Hnd Hk).
        assert (E : forall v, weight_of ((k, w) :: l) v = (if F_eq_dec v k then w else 0) + weight_of l v).
        { intros v. unfold weight_of. cbn [filter fst]. destruct (F_eq_dec v k) as [->|Hne].
          - rewrite feqb_refl. cbn [map snd]. rewrite fsum_cons. reflexivity.
          - assert (Hf : (k =? v) = false) by (apply feqb_false; congruence). rewrite Hf. ring. }
        clear IH Hin Hk. induction V as [|v V IHV]; [cbn; ring|].
        cbn [map]. rewrite !fsum_cons, E. apply NoDup_cons_iff in Hnd.
        rewrite <- IHV by tauto. destruct (F_eq_dec v k); ring.
    Qed.

    Lemma weight_of_ones (fs : list F) v :
      weight_of (map (fun f => (f, 1)) fs) v = fofnat (count_occ F_eq_dec fs v).
    Proof.
      unfold weight_of. induction fs as [|f fs IH]; [reflexivity|]. cbn [map filter fst count_occ].
      destruct (F_eq_dec f v) as [->|Hne].
      - rewrite feqb_refl. cbn [map snd fofnat]. rewrite fsum_cons, IH. reflexivity.
      - assert (Hf : (f =? v) = false) by (apply feqb_false; exact Hne). rewrite Hf. exact IH.
    Qed.

    (* the balance equation holding at enough challenges alpha forces every looking value into the table,
       provided 1, 2, .., #lookups are non-zero in the field (characteristic larger than the number of lookups) *)
    Theorem balance_forces_membership (tms : list (F * F)) (fs alphas : list F) :
      (forall k, (1 <= k <= length fs)%nat -> fofnat k <> 0) ->
      NoDup alphas -> (length tms + length fs <= length alphas)%nat ->
      (forall a, In a alphas ->
         (forall tm, In tm tms -> a <> fst tm) /\ (forall f, In f fs -> a <> f) /\
         fsum (map (fun tm => snd tm * finv (a - fst tm)) tms) = fsum (map (fun f => finv (a - f)) fs)) ->
      forall f, In f fs -> exists m, In (f, m) tms.
    Proof.
      intros Hchar Hna Hlen Hal f0 Hf0.
      set (V := nodup F_eq_dec (map fst tms ++ fs)).
      assert (HVnd : NoDup V) by apply NoDup_nodup.
      assert (HVt : forall kw, In kw tms -> In (fst kw) V).
      { intros kw Hkw. apply nodup_In. apply in_or_app. left. apply in_map. exact Hkw. }
      assert (HVf : forall kw, In kw (map (fun f => (f, 1)) fs) -> In (fst kw) V).
      { intros kw Hkw. apply in_map_iff in Hkw. destruct Hkw as (f & <- & Hf). apply nodup_In. apply in_or_app. right. exact Hf. }
      set (c := fun v => weight_of tms v - weight_of (map (fun f => (f, 1)) fs) v).
      assert (Hc : forall v, In v V -> c v = 0).
      { apply (poles_vanish c V alphas HVnd Hna).
        - unfold V.
          assert (Hl : (length (nodup F_eq_dec (map fst tms ++ fs)) <= length (map fst tms ++ fs))%nat).
          { clear. induction (map fst tms ++ fs) as [|a l IHl]; [cbn; lia|]. cbn [nodup].
            destruct (in_dec F_eq_dec a l); cbn [length]; lia. }
          rewrite app_length, map_length in Hl. lia.
        - intros a Ha. destruct (Hal a Ha) as (Hp1 & Hp2 & Hb). split.
          + intros u Hu. apply nodup_In in Hu. apply in_app_or in Hu. destruct Hu as [Hu|Hu].
            * apply in_map_iff in Hu. destruct Hu as (tm & <- & Htm). apply Hp1. exact Htm.
            * apply Hp2. exact Hu.
          + set (gf := fun v => finv (a - v)).
            transitivity (fsum (map (fun v => weight_of tms v * gf v) V)
                          - fsum (map (fun v => weight_of (map (fun f => (f, 1)) fs) v * gf v) V)).
            { unfold c, gf. apply fsum_map_sub. }
            rewrite <- (regroup gf tms V HVnd HVt), <- (regroup gf _ V HVnd HVf).
            rewrite map_map. cbn [fst snd]. unfold gf. rewrite Hb.
            rewrite (fsum_map_ext_in (fun x => 1 * finv (a - x)) (fun f => finv (a - f))) by (intros; ring). ring. }
      assert (Hf0V : In f0 V) by (apply nodup_In; apply in_or_app; right; exact Hf0).
      specialize (Hc f0 Hf0V). unfold c in Hc. rewrite weight_of_ones in Hc.
      assert (Hcount : (1 <= count_occ F_eq_dec fs f0 <= length fs)%nat).
      { split; [apply count_occ_In; exact Hf0|]. clear. induction fs as [|a l IHl]; [cbn; lia|].
        cbn [count_occ length]. destruct (F_eq_dec a f0); lia. }
      assert (Hw : weight_of tms f0 <> 0).
      { intros E. apply (Hchar _ Hcount). apply (proj1 (f_sub_eq_0 _ _)) in Hc. rewrite <- Hc. exact E. }
      unfold weight_of in Hw.
      destruct (filter (fun kw => fst kw =? f0) tms) as [|[k w] rest] eqn:Ef; [exfalso; apply Hw; reflexivity|].
      assert (Hin : In (k, w) (filter (fun kw => fst kw =? f0) tms)) by (rewrite Ef; left; reflexivity).
      apply filter_In in Hin. destruct Hin as [Hin Hk]. cbn [fst] in Hk. apply f_eqb_spec in Hk. subst k.
      exists w. exact Hin.
    Qed.
  End Regroup.
  (* ------------------------------------------------------------ vanishing constraints at many alphas: membership *)
  Lemma sum_as_flat num_routed (ch : @challenges F) g W :
    fsum (map (fun r => fsum (map (sum_term ch W r) (seq 0 (num_routed / 3)))) (lut_rows g)) =
    fsum (map (fun tm : F * F => snd tm * finv (ch_alpha ch - fst tm)) (looked_flat num_routed ch g W)).
  Proof.
    unfold looked_flat. rewrite fsum_flat_map. apply fsum_map_ext_in. intros r _. rewrite map_map. reflexivity.
  Qed.

  Lemma ldc_as_flat num_routed (ch : @challenges F) g W :
    fsum (map (fun r => fsum (map (ldc_term ch W r) (seq 0 (num_routed / 2)))) (lu_rows g)) =
    fsum (map (fun f => finv (ch_alpha ch - f)) (looking_flat num_routed ch g W)).
  Proof.
    unfold looking_flat. rewrite fsum_flat_map. apply fsum_map_ext_in. intros r _. rewrite map_map. reflexivity.
  Qed.

  (* the deterministic consequence of vanishing lookup constraints, per table *)
  Theorem lookup_sound (num_routed qdf npl : nat) (tabs : list (list (F * F))) (ch : @challenges F) (regions : list region)
          (gd : region) (W : nat -> list F) (RE : nat -> F) (S : nat -> nat -> F) (n i : nat) :
    let g := nth i regions gd in
    (1 <= npl)%nat -> (1 <= qdf)%nat -> (1 <= num_routed / 3)%nat ->
    length tabs = length regions -> (forall t, In t tabs -> t <> []) -> (forall r, (num_routed <= length (W r))%nat) ->
    (forall r, (r < n)%nat ->
       exists cs, lookup_constraints num_routed qdf tabs ch (W r) (zs_at npl RE S r) (zs_at npl RE S ((r + 1) mod n))
                                     (lookup_selectors_at regions r) = Some cs /\ all_zero cs) ->
    (i < length regions)%nat -> (last_lu g < last_lut g)%nat /\ (last_lut g <= first_lut g)%nat -> (first_lut g + 1 < n)%nat ->
    (num_routed / 3 <= npl * div_ceil (num_routed / 3) npl)%nat -> (num_routed / 2 <= npl * (qdf - 1))%nat ->
    (forall r, In r (lut_rows g) -> lut_factors_ok num_routed ch W r) ->
    (forall r, In r (lu_rows g) -> lu_factors_ok num_routed ch W r) ->
    (* start of the running sum pinned by InitSre, end pinned by LastLdc *)
    S (npl - 1)%nat (first_lut g + 1)%nat = 0 /\ S (npl - 1)%nat (last_lu g) = 0 /\
    (* hence the balance equation of the logarithmic-derivative argument at the challenge alpha *)
    fsum (map (fun tm : F * F => snd tm * finv (ch_alpha ch - fst tm)) (looked_flat num_routed ch g W)) =
    fsum (map (fun f => finv (ch_alpha ch - f)) (looking_flat num_routed ch g W)) /\
    (* and the RE recurrence over the table rows, run from zero, equals get_lut_poly(delta) of the declared table *)
    re_fold (ch_delta ch) 0 (flat_map (fun r => map (looked_combo (ch_b ch) (W r)) (seq 0 (num_routed / 3))) (rev (lut_rows g))) =
    end_value num_routed (nth i tabs []) ch.
  Proof.
    intros g Hnpl Hqdf Hnlut Hlen Htabs Hwl Hrows Hi Hok Hn Hc1 Hc2 Hfl Hfu.
    split; [|split; [|split]].
    - apply (start_pinned num_routed qdf npl tabs ch regions gd W RE S) with (n := n); assumption.
    - apply (end_pinned num_routed qdf npl tabs ch regions gd W RE S) with (n := n); assumption.
    - rewrite <- sum_as_flat, <- ldc_as_flat.
      exact (sound_balance num_routed qdf npl tabs ch regions gd W RE S Hnpl Hqdf Hnlut Hlen Htabs Hwl n i Hrows Hi Hok Hn Hc1 Hc2 Hfl Hfu).
    - exact (sound_re num_routed qdf npl tabs ch regions gd W RE S Hnpl Hqdf Hnlut Hlen Htabs Hwl n i Hrows Hi Hok Hn Hc1 Hc2).
  Qed.

  Section SoundMembership.
    Variables (num_routed qdf npl : nat) (tabs : list (list (F * F))) (a b d : F) (regions : list region) (gd : region)
              (W : nat -> list F) (n i : nat).
    (* the challenges with alpha varying; the wires W are committed before alpha is drawn *)
    Definition ch_with (alpha : F) : @challenges F := {| ch_a := a; ch_b := b; ch_alpha := alpha; ch_delta := d |}.
    Let g := nth i regions gd.
    (* (combination, multiplicity) of every slot of the table rows, combination of every looking slot *)
    Definition table_slots : list (F * F) := looked_flat num_routed (ch_with 0) g W.
    Definition looking_slots : list F := looking_flat num_routed (ch_with 0) g W.

    Theorem sound_membership (alphas : list F) :
      (1 <= npl)%nat -> (1 <= qdf)%nat -> (1 <= num_routed / 3)%nat ->
      length tabs = length regions -> (forall t, In t tabs -> t <> []) -> (forall r, (num_routed <= length (W r))%nat) ->
      (i < length regions)%nat -> (last_lu g < last_lut g)%nat /\ (last_lut g <= first_lut g)%nat -> (first_lut g + 1 < n)%nat ->
      (num_routed / 3 <= npl * div_ceil (num_routed / 3) npl)%nat -> (num_routed / 2 <= npl * (qdf - 1))%nat ->
      (forall k, (1 <= k <= length looking_slots)%nat -> fofnat k <> 0) ->
      NoDup alphas -> (length table_slots + length looking_slots <= length alphas)%nat ->
      (forall alpha, In alpha alphas ->
         (forall r, In r (lut_rows g) -> lut_factors_ok num_routed (ch_with alpha) W r) /\
         (forall r, In r (lu_rows g) -> lu_factors_ok num_routed (ch_with alpha) W r) /\
         exists (RE : nat -> F) (S : nat -> nat -> F),
           forall r, (r < n)%nat ->
             exists cs, lookup_constraints num_routed qdf tabs (ch_with alpha) (W r) (zs_at npl RE S r)
                                           (zs_at npl RE S ((r + 1) mod n)) (lookup_selectors_at regions r) = Some cs /\
                        all_zero cs) ->
      forall f, In f looking_slots -> exists m, In (f, m) table_slots.
    Proof.
      intros Hnpl Hqdf Hnlut Hlen Htabs Hwl Hi Hok Hn Hc1 Hc2 Hchar Hnd Hcount Hal.
      apply (balance_forces_membership table_slots looking_slots alphas Hchar Hnd Hcount).
      intros alpha Ha. destruct (Hal alpha Ha) as (Hfl & Hfu & RE & S & Hrows).
      split; [|split].
      - intros tm Htm. unfold table_slots, looked_flat in Htm. apply in_flat_map in Htm.
        destruct Htm as (r & Hr & Htm). apply in_map_iff in Htm. destruct Htm as (s & <- & Hs). apply in_seq in Hs.
        cbn [fst]. intros E. apply (Hfl r Hr s ltac:(lia)). cbn [ch_with ch_alpha ch_a]. rewrite E. apply f_sub_diag.
      - intros f Hf. unfold looking_slots, looking_flat in Hf. apply in_flat_map in Hf.
        destruct Hf as (r & Hr & Hf). apply in_map_iff in Hf. destruct Hf as (s & <- & Hs). apply in_seq in Hs.
        intros E. apply (Hfu r Hr s ltac:(lia)). cbn [ch_with ch_alpha ch_a]. rewrite E. apply f_sub_diag.
      - pose proof (sound_balance num_routed qdf npl tabs (ch_with alpha) regions gd W RE S Hnpl Hqdf Hnlut Hlen Htabs Hwl n i
                      Hrows Hi Hok Hn Hc1 Hc2 Hfl Hfu) as B.
        rewrite sum_as_flat, ldc_as_flat in B. exact B.
    Qed.
  End SoundMembership.
End LookupProofs.
