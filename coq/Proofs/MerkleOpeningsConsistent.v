(* A finite set of Merkle openings ACCEPTED against one cap (verify_merkle_proof_to_cap), with paths
   of the same length, either EXHIBITS a collision of hash_leaf / two_to_one (as a value), or is
   consistent: there is one labelling [val] of the tree nodes and one leaf function such that every
   opening is (leaf_of x, proof_of val x), with [val] the hash of the leaf at the opened positions
   and the compression of its children on the paths above them - the hypotheses of
   Proofs/MerkleCompressionPartial.v.  Hence accepted openings compress and decompress
   (path_compression.rs) to themselves, or a collision is in hand. *)
From Coq Require Import List Arith Bool Lia.
From Verif Require Import Model.Merkle Proofs.Merkle Proofs.MerkleCompression Proofs.MerkleCompressionPartial.
Import ListNotations.

(* decisions over finite ranges and lists, with the "bad" alternative a value of type C *)
Lemma bounded_dec (C : Type) (Q : nat -> Prop) : (forall t, C + {Q t}) -> forall b, C + {forall t, t < b -> Q t}.
Proof.
  intros D. induction b as [|b IH].
  - right. intros t Ht. lia.
  - destruct IH as [c|IH]; [left; exact c|]. destruct (D b) as [c|Hb]; [left; exact c|].
    right. intros t Ht. destruct (Nat.eq_dec t b) as [->|Hne]; [exact Hb|apply IH; lia].
Qed.

Lemma list_dec {A} (C : Type) (Q : A -> Prop) (Pre : A -> Prop) :
  (forall a, Pre a -> C + {Q a}) -> forall l, (forall a, In a l -> Pre a) -> C + {forall a, In a l -> Q a}.
Proof.
  intros D. induction l as [|a l IH]; intros Hpre.
  - right. intros a [].
  - destruct (IH (fun x Hx => Hpre x (or_intror Hx))) as [c|IHl]; [left; exact c|].
    destruct (D a (Hpre a (or_introl eq_refl))) as [c|Ha]; [left; exact c|].
    right. intros x [<-|Hx]; [exact Ha|apply IHl; exact Hx].
Qed.

Lemma xor1_inj a b : xor1 a = xor1 b -> a = b.
Proof.
  intros E. pose proof (xor1_div2 a) as Ha. pose proof (xor1_div2 b) as Hb. rewrite E in Ha.
  pose proof (Nat.div_mod a 2 ltac:(lia)). pose proof (Nat.div_mod b 2 ltac:(lia)).
  destruct (xor1_cases a) as [[Ma Ea]|[Ma Ea]]; destruct (xor1_cases b) as [[Mb Eb]|[Mb Eb]]; lia.
Qed.

Lemma firstn_S_nth {A} (d : A) : forall (l : list A) t, t < length l -> firstn (S t) l = firstn t l ++ [nth t l d].
Proof.
  induction l as [|x l IH]; intros t Ht; cbn [length] in Ht; [lia|].
  destruct t as [|t]; [reflexivity|]. cbn [firstn nth app]. f_equal. apply IH. lia.
Qed.

Lemma skipn_nth_hd {A} (d : A) : forall (l : list A) t, t < length l -> skipn t l = nth t l d :: skipn (S t) l.
Proof.
  induction l as [|x l IH]; intros t Ht; cbn [length] in Ht; [lia|].
  destruct t as [|t]; [reflexivity|]. cbn [skipn nth]. apply IH. lia.
Qed.

Lemma nth_map_seq0 {B} (f : nat -> B) N t d : t < N -> nth t (map f (seq 0 N)) d = f t.
Proof.
  intros Ht. rewrite nth_indep with (d' := f 0) by (rewrite map_length, seq_length; exact Ht).
  rewrite map_nth, seq_nth by exact Ht. reflexivity.
Qed.

Section Consistent.
  Variable F : Type.
  Variable digest : Type.
  Variable hash_leaf : list F -> digest.
  Variable two_to_one : digest -> digest -> digest.
  Variable digest_eqb : digest -> digest -> bool.
  Hypothesis digest_eqb_spec : forall a b, digest_eqb a b = true <-> a = b.
  Variable leaf_eq_dec : forall a b : list F, {a = b} + {a <> b}.
  Variable k h : nat.
  Hypothesis Hh : h <= k.
  Variable cap : list digest.
  Variable dflt : digest.

  Notation m := (k - h).
  Notation n := (2 ^ k).
  Notation vwalk := (Merkle.verify_walk digest two_to_one).
  Notation wstep := (Merkle.walk_step digest two_to_one).
  Notation ncoll := (node_collision two_to_one).
  Notation lcoll := (leaf_collision hash_leaf).
  Notation nd := (node k).
  Notation sb := (sib k).

  (* an opening: position, leaf data, Merkle path *)
  Definition opn : Type := (nat * list F * list digest)%type.
  Definition ox (o : opn) : nat := fst (fst o).
  Definition ol (o : opn) : list F := snd (fst o).
  Definition op (o : opn) : list digest := snd o.

  Definition Acc (o : opn) : Prop :=
    ox o < n /\ length (op o) = m
    /\ verify_merkle_proof_to_cap F digest hash_leaf two_to_one digest_eqb (ol o) (ox o) cap (op o) = true.

  (* the digest the walk computes at level t, and the sibling it consumes there *)
  Definition Pv (o : opn) (t : nat) : digest := fst (vwalk (hash_leaf (ol o)) (ox o) (firstn t (op o))).
  Definition Sv (o : opn) (t : nat) : digest := nth t (op o) dflt.

  Lemma walk_split o t : t <= length (op o) ->
    vwalk (hash_leaf (ol o)) (ox o) (op o) = vwalk (Pv o t) (ox o / 2 ^ t) (skipn t (op o)).
  Proof.
    intros Ht. rewrite <- (firstn_skipn t (op o)) at 1. rewrite verify_walk_app. unfold Pv.
    pose proof (verify_walk_snd digest two_to_one (firstn t (op o)) (hash_leaf (ol o)) (ox o)) as Hs.
    destruct (vwalk (hash_leaf (ol o)) (ox o) (firstn t (op o))) as [c j]. cbn [fst snd] in *.
    rewrite Hs, firstn_length_le by exact Ht. reflexivity.
  Qed.

  Lemma Pv_S o t : t < length (op o) -> Pv o (S t) = wstep (Pv o t) (ox o / 2 ^ t) (Sv o t).
  Proof.
    intros Ht. unfold Pv, Sv. rewrite (firstn_S_nth dflt) by exact Ht. rewrite verify_walk_app.
    pose proof (verify_walk_snd digest two_to_one (firstn t (op o)) (hash_leaf (ol o)) (ox o)) as Hs.
    destruct (vwalk (hash_leaf (ol o)) (ox o) (firstn t (op o))) as [c j]. cbn [fst snd] in *.
    rewrite Hs, firstn_length_le by lia. reflexivity.
  Qed.

  Lemma Acc_top o : Acc o -> nth_error cap (ox o / 2 ^ m) = Some (fst (vwalk (hash_leaf (ol o)) (ox o) (op o))).
  Proof.
    intros (_ & Hl & Hv). apply (verify_true_inv F digest hash_leaf two_to_one digest_eqb digest_eqb_spec) in Hv.
    rewrite Hl in Hv. exact Hv.
  Qed.

  Lemma div_pow_mono x x' t u : t <= u -> x / 2 ^ t = x' / 2 ^ t -> x / 2 ^ u = x' / 2 ^ u.
  Proof.
    intros Htu E. replace u with (t + (u - t)) by lia. rewrite Nat.pow_add_r.
    rewrite <- !Nat.div_div by (apply Nat.pow_nonzero; lia). rewrite E. reflexivity.
  Qed.

  (* ---- two accepted openings that pass through the same node at level t *)
  Definition F1 (o o' : opn) (t : nat) : Prop :=
    ox o / 2 ^ t = ox o' / 2 ^ t -> Pv o t = Pv o' t /\ skipn t (op o) = skipn t (op o').

  Lemma f1_dec o o' t : Acc o -> Acc o' -> t <= m -> ncoll + {F1 o o' t}.
  Proof.
    intros Ha Ha' Ht. unfold F1.
    destruct (Nat.eq_dec (ox o / 2 ^ t) (ox o' / 2 ^ t)) as [E|Hne]; [|right; intros E; contradiction].
    destruct (find_node_collision digest two_to_one digest_eqb (Pv o t) (Pv o' t) (ox o / 2 ^ t)
                                  (skipn t (op o)) (skipn t (op o'))) as [c|] eqn:Ef.
    - left. exists c. exact (find_node_collision_sound digest two_to_one digest_eqb digest_eqb_spec _ _ _ _ _ _ Ef).
    - right. intros _.
      pose proof (Acc_top o Ha) as Ho. pose proof (Acc_top o' Ha') as Ho'.
      destruct Ha as (_ & Hl & _), Ha' as (_ & Hl' & _).
      rewrite (div_pow_mono _ _ t m Ht E) in Ho. rewrite Ho in Ho'. injection Ho' as Ed.
      rewrite (walk_split o t) in Ed by lia. rewrite (walk_split o' t) in Ed by lia. rewrite <- E in Ed.
      apply (find_node_collision_complete digest two_to_one digest_eqb digest_eqb_spec _ _ _ _ (ox o / 2 ^ t));
        [rewrite !skipn_length; lia|exact Ed|exact Ef].
  Qed.

  (* ---- two accepted openings whose paths meet at level t + 1 coming from the two children *)
  Definition F2 (o o' : opn) (t : nat) : Prop :=
    ox o / 2 ^ S t = ox o' / 2 ^ S t -> ox o / 2 ^ t <> ox o' / 2 ^ t -> Pv o t = Sv o' t /\ Sv o t = Pv o' t.

  Lemma f2_dec o o' t : Acc o -> Acc o' -> t < m -> F1 o o' (S t) -> ncoll + {F2 o o' t}.
  Proof.
    intros Ha Ha' Ht HF1. unfold F2.
    destruct (Nat.eq_dec (ox o / 2 ^ S t) (ox o' / 2 ^ S t)) as [E|Hne]; [|right; intros E; contradiction].
    destruct (Nat.eq_dec (ox o / 2 ^ t) (ox o' / 2 ^ t)) as [E'|Hne']; [right; intros _ Hn; contradiction|].
    destruct (HF1 E) as [HP _].
    destruct Ha as (_ & Hl & _), Ha' as (_ & Hl' & _).
    rewrite (Pv_S o t), (Pv_S o' t) in HP by lia. rewrite !walk_step_inputs in HP.
    set (a := step_inputs digest (Pv o t) (ox o / 2 ^ t) (Sv o t)) in *.
    set (a' := step_inputs digest (Pv o' t) (ox o' / 2 ^ t) (Sv o' t)) in *.
    destruct (pair_eqb digest digest_eqb a a') eqn:Ep.
    - right. intros _ _. apply (pair_eqb_spec digest digest_eqb digest_eqb_spec) in Ep.
      (* the two positions are the two children of one node: opposite parities *)
      set (u := ox o / 2 ^ t) in *. set (u' := ox o' / 2 ^ t) in *.
      assert (Eh : u / 2 = u' / 2).
      { unfold u, u'. rewrite !Nat.div_div by (try apply Nat.pow_nonzero; lia).
        replace (2 ^ t * 2) with (2 ^ S t) by (rewrite Nat.pow_succ_r'; lia). exact E. }
      pose proof (Nat.div_mod u 2 ltac:(lia)) as Du. pose proof (Nat.div_mod u' 2 ltac:(lia)) as Du'.
      pose proof (Nat.mod_upper_bound u 2 ltac:(lia)) as Mu. pose proof (Nat.mod_upper_bound u' 2 ltac:(lia)) as Mu'.
      unfold a, a', step_inputs in Ep.
      destruct (Nat.eqb_spec (u mod 2) 1) as [Eu|Eu]; destruct (Nat.eqb_spec (u' mod 2) 1) as [Eu'|Eu'];
        try (exfalso; lia); injection Ep as E1 E2; auto.
    - left. exists (a, a'). cbn [fst snd]. split; [|exact HP].
      intros Eq. apply (pair_eqb_spec digest digest_eqb digest_eqb_spec) in Eq. congruence.
  Qed.

  Definition C0 (o o' : opn) : Prop := ox o = ox o' -> ol o = ol o'.

  Lemma c0_dec o o' : F1 o o' 0 -> lcoll + {C0 o o'}.
  Proof.
    intros HF1. unfold C0. destruct (Nat.eq_dec (ox o) (ox o')) as [E|Hne]; [|right; intros E; contradiction].
    destruct (leaf_eq_dec (ol o) (ol o')) as [El|Hnl]; [right; intros _; exact El|].
    left. exists (ol o, ol o'). cbn [fst snd]. split; [exact Hnl|].
    destruct HF1 as [HP _]; [rewrite Nat.pow_0_r, !Nat.div_1_r; exact E|]. exact HP.
  Qed.

  Definition PairCons (o o' : opn) : Prop :=
    (forall t, t < S m -> F1 o o' t) /\ (forall t, t < m -> F2 o o' t) /\ C0 o o'.

  Lemma pair_cons_dec o o' : Acc o -> Acc o' -> (lcoll + ncoll) + {PairCons o o'}.
  Proof.
    intros Ha Ha'.
    destruct (bounded_dec ncoll (fun t => t < S m -> F1 o o' t)
                (fun t => match le_lt_dec t m with
                          | left Hle => match f1_dec o o' t Ha Ha' Hle with inleft c => inleft c | inright H1 => inright (fun _ => H1) end
                          | right Hgt => inright (fun Hlt => False_ind _ (Nat.lt_irrefl _ (Nat.lt_le_trans _ _ _ Hgt (proj1 (Nat.lt_succ_r _ _) Hlt))))
                          end) (S m)) as [c|H1]; [left; right; exact c|].
    assert (H1' : forall t, t < S m -> F1 o o' t) by (intros t Ht; exact (H1 t Ht Ht)).
    destruct (bounded_dec ncoll (fun t => t < m -> F2 o o' t)
                (fun t => match le_lt_dec m t with
                          | left Hle => inright (fun Hlt => False_ind _ (Nat.lt_irrefl _ (Nat.lt_le_trans _ _ _ Hlt Hle)))
                          | right Hlt => match f2_dec o o' t Ha Ha' Hlt (H1' (S t) (proj1 (Nat.succ_lt_mono _ _) Hlt)) with
                                         | inleft c => inleft c | inright H2 => inright (fun _ => H2) end
                          end) m) as [c|H2]; [left; right; exact c|].
    destruct (c0_dec o o' (H1' 0 ltac:(lia))) as [c|H0]; [left; left; exact c|].
    right. split; [exact H1'|]. split; [|exact H0]. intros t Ht. exact (H2 t Ht Ht).
  Qed.

  Lemma all_pairs_dec (O : list opn) : (forall o, In o O -> Acc o) ->
    (lcoll + ncoll) + {forall o o', In o O -> In o' O -> PairCons o o'}.
  Proof.
    intros HA.
    destruct (list_dec (lcoll + ncoll) (fun o => forall o', In o' O -> PairCons o o') (fun o => Acc o)
                (fun o Ho => list_dec (lcoll + ncoll) (fun o' => PairCons o o') (fun o' => Acc o')
                               (fun o' Ho' => pair_cons_dec o o' Ho Ho') O HA) O HA) as [c|Hall];
      [left; exact c|right].
    intros o o' Ho Ho'. exact (Hall o Ho o' Ho').
  Qed.

  (* ---------------------------------------------------------------------------------------- *)
  (* the labelling read off a consistent set of openings                                        *)
  Fixpoint alookup (l : list (nat * digest)) (v : nat) : option digest :=
    match l with
    | [] => None
    | (v', d) :: r => if v' =? v then Some d else alookup r v
    end.

  Lemma alookup_functional l v d : In (v, d) l -> (forall d', In (v, d') l -> d' = d) -> alookup l v = Some d.
  Proof.
    induction l as [|[v' d'] r IH]; intros Hin Hf; [destruct Hin|].
    cbn [alookup]. destruct (Nat.eqb_spec v' v) as [->|Hne].
    - f_equal. apply Hf. left. reflexivity.
    - apply IH.
      + destruct Hin as [E|Hin]; [congruence|exact Hin].
      + intros d'' Hd. apply Hf. right. exact Hd.
  Qed.

  Variable O : list opn.
  Hypothesis HAcc : forall o, In o O -> Acc o.
  Hypothesis HC : forall o o', In o O -> In o' O -> PairCons o o'.

  Definition pnodes : list (nat * digest) :=
    flat_map (fun o => map (fun t => (nd (ox o) t, Pv o t)) (seq 0 (S m))) O.
  Definition snodes : list (nat * digest) :=
    flat_map (fun o => map (fun t => (sb (ox o) t, Sv o t)) (seq 0 m)) O.
  Definition val (v : nat) : digest :=
    match alookup (pnodes ++ snodes) v with Some d => d | None => dflt end.
  Definition leaf_of (x : nat) : list F :=
    match find (fun o => ox o =? x) O with Some o => ol o | None => [] end.

  Lemma in_pnodes v d : In (v, d) pnodes <-> exists o t, In o O /\ t <= m /\ v = nd (ox o) t /\ d = Pv o t.
  Proof.
    unfold pnodes. rewrite in_flat_map. split.
    - intros (o & Ho & Hin). apply in_map_iff in Hin. destruct Hin as (t & E & Ht). apply in_seq in Ht.
      injection E as <- <-. exists o, t. repeat split; auto. lia.
    - intros (o & t & Ho & Ht & -> & ->). exists o. split; [exact Ho|]. apply in_map_iff. exists t.
      split; [reflexivity|]. apply in_seq. lia.
  Qed.

  Lemma in_snodes v d : In (v, d) snodes <-> exists o t, In o O /\ t < m /\ v = sb (ox o) t /\ d = Sv o t.
  Proof.
    unfold snodes. rewrite in_flat_map. split.
    - intros (o & Ho & Hin). apply in_map_iff in Hin. destruct Hin as (t & E & Ht). apply in_seq in Ht.
      injection E as <- <-. exists o, t. repeat split; auto. lia.
    - intros (o & t & Ho & Ht & -> & ->). exists o. split; [exact Ho|]. apply in_map_iff. exists t.
      split; [reflexivity|]. apply in_seq. lia.
  Qed.

  Lemma nd_form x t : t <= k -> nd x t = 2 ^ (k - t) + x / 2 ^ t.
  Proof. intros Ht. unfold node. rewrite Nat.add_comm. apply div_add_pow. exact Ht. Qed.

  (* equal node numbers: same level, same shifted index *)
  Lemma nd_eq x x' t t' : x < n -> x' < n -> t <= k -> t' <= k -> nd x t = nd x' t' ->
    t = t' /\ x / 2 ^ t = x' / 2 ^ t.
  Proof.
    intros Hx Hx' Ht Ht' E.
    assert (Et : t = t').
    { pose proof (f_equal Nat.log2 E) as El. rewrite !(node_log2 k h Hh) in El by assumption. lia. }
    subst t'. split; [reflexivity|]. rewrite !nd_form in E by assumption. lia.
  Qed.

  Lemma C1 o o' t t' : In o O -> In o' O -> t <= m -> t' <= m -> nd (ox o) t = nd (ox o') t' -> Pv o t = Pv o' t'.
  Proof.
    intros Ho Ho' Ht Ht' E. destruct (HAcc o Ho) as (Hx & _), (HAcc o' Ho') as (Hx' & _).
    destruct (nd_eq (ox o) (ox o') t t' Hx Hx' ltac:(lia) ltac:(lia) E) as [<- Ed].
    destruct (HC o o' Ho Ho') as (H1 & _). exact (proj1 (H1 t ltac:(lia) Ed)).
  Qed.

  Lemma C3 o o' t t' : In o O -> In o' O -> t < m -> t' < m -> sb (ox o) t = sb (ox o') t' -> Sv o t = Sv o' t'.
  Proof.
    intros Ho Ho' Ht Ht' E. unfold sib in E. apply xor1_inj in E.
    destruct (HAcc o Ho) as (Hx & Hl & _), (HAcc o' Ho') as (Hx' & Hl' & _).
    destruct (nd_eq (ox o) (ox o') t t' Hx Hx' ltac:(lia) ltac:(lia) E) as [<- Ed].
    destruct (HC o o' Ho Ho') as (H1 & _). destruct (H1 t ltac:(lia) Ed) as [_ Hs].
    rewrite (skipn_nth_hd dflt (op o) t), (skipn_nth_hd dflt (op o') t) in Hs by lia.
    injection Hs as Hs _. exact Hs.
  Qed.

  Lemma C2 o o' t t' : In o O -> In o' O -> t < m -> t' <= m -> sb (ox o) t = nd (ox o') t' -> Sv o t = Pv o' t'.
  Proof.
    intros Ho Ho' Ht Ht' E.
    destruct (HAcc o Ho) as (Hx & Hl & _), (HAcc o' Ho') as (Hx' & Hl' & _).
    assert (Et : t = t').
    { pose proof (f_equal Nat.log2 E) as El.
      rewrite (sib_log2 k h Hh) in El by (try assumption; lia).
      rewrite (node_log2 k h Hh) in El by (try assumption; lia). lia. }
    subst t'.
    assert (Ehalf : nd (ox o) (S t) = nd (ox o') (S t)).
    { rewrite !(node_S k h Hh). rewrite <- E. unfold sib. rewrite xor1_div2. reflexivity. }
    destruct (nd_eq (ox o) (ox o') (S t) (S t) Hx Hx' ltac:(lia) ltac:(lia) Ehalf) as [_ Ed].
    assert (Hne : ox o / 2 ^ t <> ox o' / 2 ^ t).
    { intros Eq. assert (En : nd (ox o) t = nd (ox o') t) by (rewrite !nd_form by lia; lia).
      rewrite <- En in E. unfold sib in E. exact (xor1_neq _ E). }
    destruct (HC o o' Ho Ho') as (_ & H2 & _). exact (proj2 (H2 t Ht Ed Hne)).
  Qed.

  Lemma val_nd o t : In o O -> t <= m -> val (nd (ox o) t) = Pv o t.
  Proof.
    intros Ho Ht. unfold val. rewrite (alookup_functional _ (nd (ox o) t) (Pv o t)); [reflexivity| |].
    - apply in_or_app. left. apply in_pnodes. exists o, t. auto.
    - intros d' Hd. apply in_app_or in Hd. destruct Hd as [Hd|Hd].
      + apply in_pnodes in Hd. destruct Hd as (o' & t' & Ho' & Ht' & E & ->). symmetry. exact (C1 o o' t t' Ho Ho' Ht Ht' E).
      + apply in_snodes in Hd. destruct Hd as (o' & t' & Ho' & Ht' & E & ->). symmetry in E. exact (C2 o' o t' t Ho' Ho Ht' Ht E).
  Qed.

  Lemma val_sb o t : In o O -> t < m -> val (sb (ox o) t) = Sv o t.
  Proof.
    intros Ho Ht. unfold val. rewrite (alookup_functional _ (sb (ox o) t) (Sv o t)); [reflexivity| |].
    - apply in_or_app. right. apply in_snodes. exists o, t. auto.
    - intros d' Hd. apply in_app_or in Hd. destruct Hd as [Hd|Hd].
      + apply in_pnodes in Hd. destruct Hd as (o' & t' & Ho' & Ht' & E & ->). symmetry. exact (C2 o o' t t' Ho Ho' Ht Ht' E).
      + apply in_snodes in Hd. destruct Hd as (o' & t' & Ho' & Ht' & E & ->). symmetry. exact (C3 o o' t t' Ho Ho' Ht Ht' E).
  Qed.

  Lemma leaf_of_spec o : In o O -> leaf_of (ox o) = ol o.
  Proof.
    intros Ho. unfold leaf_of.
    destruct (find (fun o' => ox o' =? ox o) O) as [o'|] eqn:Ef.
    - apply find_some in Ef. destruct Ef as [Ho' Ex]. apply Nat.eqb_eq in Ex.
      destruct (HC o' o Ho' Ho) as (_ & _ & H0). exact (H0 Ex).
    - exfalso. pose proof (find_none _ _ Ef o Ho) as Hn. cbv beta in Hn. rewrite Nat.eqb_refl in Hn. discriminate.
  Qed.

  (* every opening is the one determined by the labelling; the labelling is a partial Merkle tree *)
  Theorem openings_labelled :
    (forall o, In o O -> ol o = leaf_of (ox o) /\ op o = Partial.proof_of digest k h val (ox o))
    /\ (forall i, In i (map ox O) -> val (i + n) = hash_leaf (leaf_of i))
    /\ (forall i j, In i (map ox O) -> j < m ->
          val (Partial.node k i (S j)) = two_to_one (val (2 * Partial.node k i (S j))) (val (2 * Partial.node k i (S j) + 1))).
  Proof.
    split; [|split].
    - intros o Ho. split; [symmetry; apply leaf_of_spec; exact Ho|].
      destruct (HAcc o Ho) as (_ & Hl & _).
      apply nth_ext with (d := dflt) (d' := dflt).
      + unfold Partial.proof_of. rewrite map_length, seq_length. exact Hl.
      + intros t Ht. rewrite Hl in Ht. unfold Partial.proof_of.
        rewrite (nth_map_seq0 (fun j => val (Partial.sib k (ox o) j)) m t dflt Ht).
        symmetry. exact (val_sb o t Ho Ht).
    - intros i Hi. apply in_map_iff in Hi. destruct Hi as (o & <- & Ho).
      pose proof (val_nd o 0 Ho ltac:(lia)) as Hv. rewrite (node_0 k) in Hv. rewrite Hv, leaf_of_spec by exact Ho.
      reflexivity.
    - intros i j Hi Hj. apply in_map_iff in Hi. destruct Hi as (o & <- & Ho).
      change (Partial.node k (ox o) (S j)) with (nd (ox o) (S j)).
      destruct (HAcc o Ho) as (Hx & Hl & _).
      rewrite (val_nd o (S j) Ho ltac:(lia)), (Pv_S o j) by lia.
      rewrite <- (val_nd o j Ho ltac:(lia)), <- (val_sb o j Ho Hj).
      rewrite (node_S k h Hh). set (v := nd (ox o) j).
      assert (Hpar : (ox o / 2 ^ j) mod 2 = v mod 2).
      { unfold v. rewrite nd_form by lia. replace (k - j) with (S (k - j - 1)) by lia.
        rewrite Nat.pow_succ_r', Nat.add_comm, Nat.mul_comm. symmetry. apply Nat.mod_add. lia. }
      pose proof (Nat.div_mod v 2 ltac:(lia)) as Hd.
      unfold Merkle.walk_step. rewrite Hpar. unfold sib. fold v.
      destruct (xor1_cases v) as [[Hm ->]|[Hm ->]]; rewrite Hm; cbn [Nat.eqb].
      + replace (2 * (v / 2)) with v by lia. replace (v + 1) with (v + 1) by lia. reflexivity.
      + replace (2 * (v / 2) + 1) with v by lia. replace (2 * (v / 2)) with (v - 1) by lia. reflexivity.
  Qed.
End Consistent.

(* accepted openings of one cap: a collision, or they compress and decompress to themselves;
   the leaf and path functions are explicit: [lf_of O] (the leaf of the first opening of a position)
   and [pth_of .. O] (the path determined by the labelling read off O) *)
Section Result.
  Variable F : Type.
  Variable digest : Type.
  Variable hash_leaf : list F -> digest.
  Variable two_to_one : digest -> digest -> digest.
  Variable digest_eqb : digest -> digest -> bool.
  Hypothesis digest_eqb_spec : forall a b, digest_eqb a b = true <-> a = b.
  Variable leaf_eq_dec : forall a b : list F, {a = b} + {a <> b}.
  Variable dflt : digest.

  Definition lf_of (O : list (opn F digest)) : nat -> list F := leaf_of F digest O.
  Definition pth_of (k h : nat) (O : list (opn F digest)) : nat -> list digest :=
    Partial.proof_of digest k h (val F digest hash_leaf two_to_one k h dflt O).

  Definition OCons (k h : nat) (O : list (opn F digest)) : Prop :=
    (forall o, In o O -> ol F digest o = lf_of O (ox F digest o) /\ op F digest o = pth_of k h O (ox F digest o))
    /\ exists cps,
         compress_merkle_proofs digest h (map (ox F digest) O) (map (pth_of k h O) (map (ox F digest) O)) = Some cps
         /\ decompress_merkle_proofs F digest hash_leaf two_to_one (map (lf_of O) (map (ox F digest) O))
              (map (ox F digest) O) cps k h = Some (map (pth_of k h O) (map (ox F digest) O)).

  Theorem accepted_openings_cps (k h : nat) (Hh : h <= k) (cap : list digest) (O : list (opn F digest)) :
    O <> [] ->
    (forall o, In o O -> Acc F digest hash_leaf two_to_one digest_eqb k h cap o) ->
    (leaf_collision hash_leaf + node_collision two_to_one) + {OCons k h O}.
  Proof.
    intros Hne HA.
    destruct (all_pairs_dec F digest hash_leaf two_to_one digest_eqb digest_eqb_spec leaf_eq_dec k h Hh cap dflt O HA)
      as [c|HC]; [left; exact c|right].
    destruct (openings_labelled F digest hash_leaf two_to_one digest_eqb k h Hh cap dflt O HA HC) as (H1 & H2 & H3).
    split; [exact H1|].
    apply (Partial.decompress_compress_val F digest hash_leaf two_to_one k h Hh _ _ (map (ox F digest) O)).
    - intros i Hi. apply in_map_iff in Hi. destruct Hi as (o & <- & Ho). exact (proj1 (HA o Ho)).
    - exact H2.
    - exact H3.
    - destruct O; [contradiction|discriminate].
  Qed.
End Result.
