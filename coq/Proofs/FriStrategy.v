(* Theorems about Model/FriStrategy.v (model of plonky2/src/fri/reduction_strategies.rs and of
   FriConfig::fri_params):
     A. ConstantArityBits: fuel irrelevance, soundness of the produced schedule, exact
        characterisation of the panics, divergence for arity_bits = 0;
     B. Fixed: returned as is, not validated;
     C. MinSize: relative_proof_size never underflows on the search domain, the search terminates
        (fuel irrelevance), returns a non-increasing schedule with entries in 1..max and is optimal
        among those; size bound excluding usize overflow on a small domain;
     D. summary for reduction_arity_bits_of / fri_params_of. *)
From Coq Require Import ZArith List Bool Lia Arith.
From Verif Require Import Model.Fri Model.FriStrategy.
Import ListNotations.
Local Open Scope nat_scope.

(* ================================================================= sum_list *)
Lemma sum_list_cons : forall a l, sum_list (a :: l) = a + sum_list l.
Proof. reflexivity. Qed.

Lemma sum_list_app : forall l1 l2, sum_list (l1 ++ l2) = sum_list l1 + sum_list l2.
Proof.
  induction l1 as [|x l1 IH]; intros l2; [reflexivity|].
  rewrite <- app_comm_cons, !sum_list_cons, IH. lia.
Qed.

Lemma sum_list_repeat : forall a n, sum_list (repeat a n) = a * n.
Proof.
  induction n as [|n IH]; [cbn; lia|].
  cbn [repeat]. rewrite sum_list_cons, IH. lia.
Qed.

Lemma total_arities_sum_list : forall p, total_arities p = sum_list (reduction_arity_bits p).
Proof. reflexivity. Qed.

(* ================================================================= A. ConstantArityBits *)

(* A.1 fuel: with fuel > degree_bits (and arity_bits >= 1) the loop never runs out of fuel and the
   result does not depend on the fuel.  [reduction_arity_bits_of] uses fuel [S degree_bits]. *)
Lemma constant_arity_not_nofuel : forall fuel d r c a f,
  1 <= a -> d < fuel -> constant_arity_loop fuel d r c a f <> NoFuel.
Proof.
  induction fuel as [|fuel IH]; intros d r c a f Ha Hfuel; [lia|].
  cbn [constant_arity_loop].
  destruct (Nat.ltb_spec f d) as [Hfd|Hfd]; [|discriminate].
  destruct (Nat.ltb_spec (d + r) a) as [Hu|Hu]; [discriminate|].
  destruct (Nat.leb_spec c (d + r - a)) as [Hc|Hc]; [|discriminate].
  destruct (Nat.leb_spec a d) as [Had|Had]; [|discriminate].
  specialize (IH (d - a) r c a f Ha ltac:(lia)).
  destruct (constant_arity_loop fuel (d - a) r c a f); congruence.
Qed.

Lemma constant_arity_fuel_irrelevant : forall fuel1 fuel2 d r c a f,
  1 <= a -> d < fuel1 -> d < fuel2 ->
  constant_arity_loop fuel1 d r c a f = constant_arity_loop fuel2 d r c a f.
Proof.
  induction fuel1 as [|fuel1 IH]; intros fuel2 d r c a f Ha H1 H2; [lia|].
  destruct fuel2 as [|fuel2]; [lia|].
  cbn [constant_arity_loop].
  destruct (Nat.ltb_spec f d) as [Hfd|Hfd]; [|reflexivity].
  destruct (Nat.ltb_spec (d + r) a) as [Hu|Hu]; [reflexivity|].
  destruct (Nat.leb_spec c (d + r - a)) as [Hc|Hc]; [|reflexivity].
  destruct (Nat.leb_spec a d) as [Had|Had]; [|reflexivity].
  rewrite (IH fuel2 (d - a) r c a f Ha) by lia. reflexivity.
Qed.

Theorem constant_arity_fuel : forall d r c a f,
  1 <= a ->
  (forall fuel, d < fuel -> constant_arity_loop fuel d r c a f <> NoFuel) /\
  (forall fuel1 fuel2, d < fuel1 -> d < fuel2 ->
     constant_arity_loop fuel1 d r c a f = constant_arity_loop fuel2 d r c a f).
Proof.
  intros d r c a f Ha. split.
  - intros fuel Hf. apply constant_arity_not_nofuel; assumption.
  - intros fuel1 fuel2 H1 H2. apply constant_arity_fuel_irrelevant; assumption.
Qed.

(* the strategy's result is the result of the loop for every sufficient fuel *)
Corollary constant_arity_strategy_fuel : forall fuel d r c a f nq,
  1 <= a -> d < fuel ->
  reduction_arity_bits_of (ConstantArityBits a f) d r c nq = constant_arity_loop fuel d r c a f.
Proof.
  intros fuel d r c a f nq Ha Hf. cbn [reduction_arity_bits_of].
  apply constant_arity_fuel_irrelevant; lia.
Qed.

(* A.2 soundness of the schedule (holds for every fuel and every arity_bits, also 0).
   Layer k (0-based) is pushed when the current degree_bits is d - k*a; the Merkle tree committed
   for it has 2^(d + r - (k+1)*a) leaves. *)
Theorem arity_schedule_sound : forall fuel d r c a f l,
  constant_arity_loop fuel d r c a f = Done l ->
  (* every entry is arity_bits *)
  l = repeat a (length l) /\
  sum_list l = a * length l /\
  a * length l <= d /\
  (* each pushed layer: the loop guard held with the then-current degree_bits, the assert held,
     and the layer is not folded below the cap height *)
  (forall k, k < length l ->
     f < d - k * a /\
     (k + 1) * a <= d /\
     (k + 1) * a <= d + r /\
     c <= d + r - (k + 1) * a) /\
  (* the loop stopped because its condition failed (without underflow) *)
  (d - a * length l <= f \/
   (a <= d - a * length l + r /\ d - a * length l + r - a < c)).
Proof.
  induction fuel as [|fuel IH]; intros d r c a f l Hrun; [discriminate|].
  cbn [constant_arity_loop] in Hrun.
  destruct (Nat.ltb_spec f d) as [Hfd|Hfd].
  2:{ injection Hrun as <-. cbn [length repeat]. rewrite Nat.mul_0_r, Nat.sub_0_r.
      repeat split; try reflexivity; try lia. }
  destruct (Nat.ltb_spec (d + r) a) as [Hu|Hu]; [discriminate|].
  destruct (Nat.leb_spec c (d + r - a)) as [Hc|Hc].
  2:{ injection Hrun as <-. cbn [length repeat]. rewrite Nat.mul_0_r, Nat.sub_0_r.
      repeat split; try reflexivity; try lia. }
  destruct (Nat.leb_spec a d) as [Had|Had]; [|discriminate].
  destruct (constant_arity_loop fuel (d - a) r c a f) as [l0| |] eqn:Hrec; try discriminate.
  injection Hrun as <-.
  destruct (IH _ _ _ _ _ _ Hrec) as (Hrep & Hsum & Hle & Hlayers & Hstop).
  cbn [length repeat]. rewrite sum_list_cons.
  set (n := length l0) in *.
  split; [f_equal; exact Hrep|].
  split; [lia|].
  split; [lia|].
  split.
  - intros k Hk. destruct k as [|k].
    + lia.
    + specialize (Hlayers k ltac:(lia)). lia.
  - replace (d - a * S n) with (d - a - a * n) by lia. exact Hstop.
Qed.

(* ... at the FriParams level *)
Theorem constant_arity_fri_params : forall cfg a f d h p,
  reduction_strategy cfg = ConstantArityBits a f ->
  fri_params_of cfg d h = Done p ->
  let n := length (reduction_arity_bits p) in
  config p = cfg /\ degree_bits p = d /\ hiding p = h /\
  reduction_arity_bits p = repeat a n /\
  total_arities p = a * n /\
  total_arities p <= degree_bits p /\
  final_poly_len p = 2 ^ (d - a * n) /\
  (forall k, k < n ->
     f < d - k * a /\ (k + 1) * a <= d /\ cap_height cfg <= lde_bits p - (k + 1) * a) /\
  (d - a * n <= f \/ (a <= d - a * n + rate_bits cfg /\ d - a * n + rate_bits cfg - a < cap_height cfg)).
Proof.
  intros cfg a f d h p Hs Hp. unfold fri_params_of in Hp. rewrite Hs in Hp.
  cbn [reduction_arity_bits_of] in Hp.
  destruct (constant_arity_loop (S d) d (rate_bits cfg) (cap_height cfg) a f) as [l| |] eqn:Hrun;
    try discriminate.
  injection Hp as <-.
  destruct (arity_schedule_sound _ _ _ _ _ _ _ Hrun) as (Hrep & Hsum & Hle & Hlayers & Hstop).
  unfold final_poly_len, lde_bits. rewrite !total_arities_sum_list.
  cbn [config degree_bits hiding reduction_arity_bits].
  repeat split; try assumption; try lia.
  - rewrite Hsum. reflexivity.
  - apply (Hlayers k); assumption.
  - apply (Hlayers k); assumption.
  - apply (Hlayers k); assumption.
Qed.

(* A.3 exact characterisation of the panics.  [cab_panic_at d r c a f k]: the first k layers are
   pushed normally (guard and assert hold), and with the degree_bits d - k*a reached after them
   the loop condition underflows or holds with a failing assert. *)
Definition cab_panic_at (d r c a f k : nat) : Prop :=
  k * a <= d /\
  (forall j, j < k ->
     f < d - j * a /\ (j + 1) * a <= d /\ c <= d + r - (j + 1) * a) /\
  f < d - k * a /\
  (d - k * a + r < a \/ (c <= d - k * a + r - a /\ d - k * a < a)).

Lemma constant_arity_panic_inv : forall fuel d r c a f,
  constant_arity_loop fuel d r c a f = Panic -> exists k, cab_panic_at d r c a f k.
Proof.
  induction fuel as [|fuel IH]; intros d r c a f Hrun; [discriminate|].
  cbn [constant_arity_loop] in Hrun.
  destruct (Nat.ltb_spec f d) as [Hfd|Hfd]; [|discriminate].
  destruct (Nat.ltb_spec (d + r) a) as [Hu|Hu].
  { exists 0. unfold cab_panic_at. repeat split; try lia. }
  destruct (Nat.leb_spec c (d + r - a)) as [Hc|Hc]; [|discriminate].
  destruct (Nat.leb_spec a d) as [Had|Had].
  2:{ exists 0. unfold cab_panic_at. repeat split; try lia. }
  destruct (constant_arity_loop fuel (d - a) r c a f) as [l0| |] eqn:Hrec; try discriminate.
  destruct (IH _ _ _ _ _ Hrec) as (k & Hk & Hlayers & Hg & Hbad).
  exists (S k). unfold cab_panic_at.
  split; [lia|]. split; [|split].
  - intros j Hj. destruct j as [|j].
    + lia.
    + specialize (Hlayers j ltac:(lia)). lia.
  - lia.
  - replace (d - S k * a) with (d - a - k * a) by lia. exact Hbad.
Qed.

Lemma constant_arity_panic_intro : forall fuel d r c a f k,
  1 <= a -> d < fuel -> cab_panic_at d r c a f k -> constant_arity_loop fuel d r c a f = Panic.
Proof.
  induction fuel as [|fuel IH]; intros d r c a f k Ha Hfuel (Hk & Hlayers & Hg & Hbad); [lia|].
  cbn [constant_arity_loop].
  destruct k as [|k].
  - rewrite Nat.mul_0_l, Nat.sub_0_r in Hg, Hbad.
    destruct (Nat.ltb_spec f d) as [Hfd|Hfd]; [|lia].
    destruct (Nat.ltb_spec (d + r) a) as [Hu|Hu]; [reflexivity|].
    destruct (Nat.leb_spec c (d + r - a)) as [Hc|Hc]; [|lia].
    destruct (Nat.leb_spec a d) as [Had|Had]; [lia|reflexivity].
  - pose proof (Hlayers 0 ltac:(lia)) as H0.
    destruct (Nat.ltb_spec f d) as [Hfd|Hfd]; [|lia].
    destruct (Nat.ltb_spec (d + r) a) as [Hu|Hu]; [lia|].
    destruct (Nat.leb_spec c (d + r - a)) as [Hc|Hc]; [|lia].
    destruct (Nat.leb_spec a d) as [Had|Had]; [|lia].
    rewrite (IH (d - a) r c a f k Ha); [reflexivity|lia|].
    unfold cab_panic_at. split; [lia|]. split; [|split].
    + intros j Hj. specialize (Hlayers (S j) ltac:(lia)). lia.
    + lia.
    + replace (d - a - k * a) with (d - S k * a) by lia. exact Hbad.
Qed.

Theorem constant_arity_panic_iff : forall fuel d r c a f,
  1 <= a -> d < fuel ->
  (constant_arity_loop fuel d r c a f = Panic <-> exists k, cab_panic_at d r c a f k).
Proof.
  intros fuel d r c a f Ha Hfuel. split.
  - apply constant_arity_panic_inv.
  - intros (k & Hk). apply (constant_arity_panic_intro fuel d r c a f k); assumption.
Qed.

(* sufficient condition excluding panics: arity_bits <= final_poly_bits + 1 (every fuel, also a = 0) *)
Theorem constant_arity_no_panic : forall fuel d r c a f,
  a <= f + 1 -> constant_arity_loop fuel d r c a f <> Panic.
Proof.
  intros fuel d r c a f Haf Hrun.
  destruct (constant_arity_panic_inv _ _ _ _ _ _ Hrun) as (k & Hk & _ & Hg & Hbad). lia.
Qed.

Corollary constant_arity_done : forall fuel d r c a f,
  1 <= a -> a <= f + 1 -> d < fuel -> exists l, constant_arity_loop fuel d r c a f = Done l.
Proof.
  intros fuel d r c a f Ha Haf Hfuel.
  pose proof (constant_arity_no_panic fuel d r c a f Haf) as Hnp.
  pose proof (constant_arity_not_nofuel fuel d r c a f Ha Hfuel) as Hnf.
  destruct (constant_arity_loop fuel d r c a f) as [l| |]; [exists l; reflexivity|congruence|congruence].
Qed.

(* ... and it can fail otherwise: ConstantArityBits(4, 2), degree_bits 3, rate_bits 3, cap_height 2:
   guard 3 > 2 && 3 + 3 - 4 >= 2 holds, 4 is pushed, assert!(3 >= 4) fails *)
Example constant_arity_panics : constant_arity_loop 4 3 3 2 4 2 = Panic.
Proof. reflexivity. Qed.

Example constant_arity_strategy_panics :
  reduction_arity_bits_of (ConstantArityBits 4 2) 3 3 2 28%Z = Panic.
Proof. reflexivity. Qed.

Example constant_arity_fri_params_panics :
  fri_params_of {| rate_bits := 3; cap_height := 2; proof_of_work_bits := 16;
                   reduction_strategy := ConstantArityBits 4 2; num_query_rounds := 28 |} 3 false
  = Panic.
Proof. reflexivity. Qed.

(* the underflow variant: degree_bits + rate_bits < arity_bits *)
Example constant_arity_panics_underflow : constant_arity_loop 4 3 0 0 4 2 = Panic.
Proof. reflexivity. Qed.

(* A.4 arity_bits = 0: if the loop condition holds initially it holds forever (the real loop pushes 0
   until memory is exhausted); the model reports NoFuel for EVERY fuel.  Otherwise the result is []. *)
Theorem constant_arity_zero_diverges : forall fuel d r c f,
  f < d -> c <= d + r -> constant_arity_loop fuel d r c 0 f = NoFuel.
Proof.
  induction fuel as [|fuel IH]; intros d r c f Hfd Hc; [reflexivity|].
  cbn [constant_arity_loop].
  rewrite !Nat.sub_0_r.
  destruct (Nat.ltb_spec f d) as [_|?]; [|lia].
  destruct (Nat.ltb_spec (d + r) 0) as [?|_]; [lia|].
  destruct (Nat.leb_spec c (d + r)) as [_|?]; [|lia].
  destruct (Nat.leb_spec 0 d) as [_|?]; [|lia].
  rewrite (IH d r c f Hfd Hc). reflexivity.
Qed.

Theorem constant_arity_zero_done : forall fuel d r c f,
  ~ (f < d /\ c <= d + r) -> 1 <= fuel -> constant_arity_loop fuel d r c 0 f = Done [].
Proof.
  intros fuel d r c f Hn Hfuel. destruct fuel as [|fuel]; [lia|].
  cbn [constant_arity_loop].
  rewrite !Nat.sub_0_r.
  destruct (Nat.ltb_spec f d) as [Hfd|?]; [|reflexivity].
  destruct (Nat.ltb_spec (d + r) 0) as [?|_]; [lia|].
  destruct (Nat.leb_spec c (d + r)) as [?|?]; [lia|reflexivity].
Qed.

Corollary constant_arity_zero_strategy : forall d r c f nq,
  reduction_arity_bits_of (ConstantArityBits 0 f) d r c nq =
  if (f <? d) && (c <=? d + r) then NoFuel else Done [].
Proof.
  intros d r c f nq. cbn [reduction_arity_bits_of].
  destruct (Nat.ltb_spec f d) as [Hfd|Hfd]; destruct (Nat.leb_spec c (d + r)) as [Hc|Hc]; cbn [andb].
  - apply constant_arity_zero_diverges; assumption.
  - apply constant_arity_zero_done; lia.
  - apply constant_arity_zero_done; lia.
  - apply constant_arity_zero_done; lia.
Qed.

(* ================================================================= B. Fixed *)
Theorem fixed_returned_as_is : forall v d r c nq,
  reduction_arity_bits_of (Fixed v) d r c nq = Done v.
Proof. reflexivity. Qed.

(* Nothing validates a Fixed schedule against degree_bits: fri_params succeeds with
   total_arities() = 5 > degree_bits = 3.  The real FriParams::final_poly_bits() =
   degree_bits - total_arities() then underflows (debug: panic; release: wraps, and final_poly_len()
   = 1 << huge), while the Coq [final_poly_len] uses truncated subtraction (2 ^ 0 = 1). *)
Example Fixed_not_validated :
  exists p,
    fri_params_of {| rate_bits := 3; cap_height := 4; proof_of_work_bits := 16;
                     reduction_strategy := Fixed [5]; num_query_rounds := 28 |} 3 false = Done p /\
    total_arities p > degree_bits p /\
    final_poly_len p = 1.
Proof.
  eexists. split; [reflexivity|]. cbn. split; [lia|reflexivity].
Qed.

(* ================================================================= C. MinSize *)

(* ---- C.1 relative_proof_size: closed form, and it is defined exactly when sum <= degree_bits *)
Fixpoint rps_total (nq : Z) (arities : list nat) (clb : nat) : Z :=
  match arities with
  | [] => 0%Z
  | a :: t => ((2 ^ Z.of_nat a - 1) * D_EXT * nq + Z.of_nat clb * 4 * nq + rps_total nq t (clb - a))%Z
  end.

(* the value computed by relative_proof_size when no subtraction underflows *)
Definition rps_value (d r : nat) (nq : Z) (l : list nat) : Z :=
  (rps_total nq l (d + r) + D_EXT * 2 ^ Z.of_nat (d - sum_list l))%Z.

Lemma rps_loop_some : forall nq l clb total,
  sum_list l <= clb ->
  rps_loop nq l clb total = Some (clb - sum_list l, (total + rps_total nq l clb)%Z).
Proof.
  induction l as [|a t IH]; intros clb total Hs.
  - cbn [rps_loop rps_total sum_list fold_right]. rewrite Nat.sub_0_r, Z.add_0_r. reflexivity.
  - rewrite sum_list_cons in *. cbn [rps_loop rps_total].
    destruct (Nat.ltb_spec clb a) as [Hlt|Hge]; [lia|].
    rewrite IH by lia. f_equal. f_equal; lia.
Qed.

Lemma rps_loop_none : forall nq l clb total,
  clb < sum_list l -> rps_loop nq l clb total = None.
Proof.
  induction l as [|a t IH]; intros clb total Hs.
  - cbn in Hs. lia.
  - rewrite sum_list_cons in Hs. cbn [rps_loop].
    destruct (Nat.ltb_spec clb a) as [Hlt|Hge]; [reflexivity|].
    apply IH. lia.
Qed.

Theorem relative_proof_size_some : forall d r nq l,
  sum_list l <= d -> relative_proof_size d r nq l = Some (rps_value d r nq l).
Proof.
  intros d r nq l Hs. unfold relative_proof_size, rps_value.
  rewrite rps_loop_some by lia.
  destruct (Nat.ltb_spec (d + r - sum_list l) r) as [Hlt|Hge]; [lia|].
  rewrite Z.add_0_l. replace (d + r - sum_list l - r) with (d - sum_list l) by lia. reflexivity.
Qed.

Theorem relative_proof_size_none : forall d r nq l,
  d < sum_list l -> relative_proof_size d r nq l = None.
Proof.
  intros d r nq l Hs. unfold relative_proof_size.
  destruct (Nat.le_gt_cases (sum_list l) (d + r)) as [Hle|Hgt].
  - rewrite rps_loop_some by lia.
    destruct (Nat.ltb_spec (d + r - sum_list l) r) as [Hlt|Hge]; [reflexivity|lia].
  - rewrite rps_loop_none by lia. reflexivity.
Qed.

Corollary relative_proof_size_some_iff : forall d r nq l,
  (exists s, relative_proof_size d r nq l = Some s) <-> sum_list l <= d.
Proof.
  intros d r nq l. split.
  - intros (s & Hs). destruct (Nat.le_gt_cases (sum_list l) d) as [Hle|Hgt]; [assumption|].
    rewrite relative_proof_size_none in Hs by assumption. discriminate.
  - intros Hle. eexists. apply relative_proof_size_some; assumption.
Qed.

(* ---- for_best *)
Lemma for_best_ext : forall (rec1 rec2 : nat -> outcome (list nat * Z)) cands best,
  (forall next, In next cands -> rec1 next = rec2 next) ->
  for_best rec1 cands best = for_best rec2 cands best.
Proof.
  intros rec1 rec2 cands. induction cands as [|x cs IH]; intros best Hext; [reflexivity|].
  cbn [for_best]. rewrite <- (Hext x) by (left; reflexivity).
  destruct (rec1 x) as [[ab size]| |]; try reflexivity.
  apply IH. intros next Hin. apply Hext. right; assumption.
Qed.

(* if every recursive call succeeds, the loop succeeds, returns the initial best or one of the
   recursive results, and its size is minimal among all of them *)
Lemma for_best_spec : forall (rec : nat -> outcome (list nat * Z)) cands best,
  (forall next, In next cands -> exists res, rec next = Done res) ->
  exists res,
    for_best rec cands best = Done res /\
    (res = best \/ exists next, In next cands /\ rec next = Done res) /\
    (snd res <= snd best)%Z /\
    (forall next res', In next cands -> rec next = Done res' -> (snd res <= snd res')%Z).
Proof.
  intros rec cands. induction cands as [|x cs IH]; intros best Hrec.
  - exists best. cbn [for_best]. split; [reflexivity|]. split; [left; reflexivity|].
    split; [lia|]. intros next res' [].
  - cbn [for_best].
    destruct (Hrec x ltac:(left; reflexivity)) as ([ab size] & Hx). rewrite Hx.
    set (best' := if (size <? snd best)%Z then (ab, size) else best).
    assert (Hb' : (snd best' <= snd best)%Z /\ (snd best' <= size)%Z /\
                  (best' = best \/ best' = (ab, size))).
    { unfold best'. destruct (Z.ltb_spec size (snd best)) as [Hlt|Hge]; cbn [snd].
      - split; [lia|]. split; [lia|]. right; reflexivity.
      - split; [lia|]. split; [lia|]. left; reflexivity. }
    destruct Hb' as (Hb1 & Hb2 & Hb3).
    destruct (IH best' ltac:(intros next Hin; apply Hrec; right; assumption))
      as (res & Hres & Horigin & Hle & Hmin).
    exists res. split; [exact Hres|]. split; [|split].
    + destruct Horigin as [->|(next & Hin & Hnext)].
      * destruct Hb3 as [->| ->]; [left; reflexivity|].
        right. exists x. split; [left; reflexivity|exact Hx].
      * right. exists next. split; [right; assumption|assumption].
    + lia.
    + intros next res' [<-|Hin] Hnext.
      * rewrite Hx in Hnext. injection Hnext as <-. cbn [snd]. lia.
      * apply (Hmin next); assumption.
Qed.

(* ---- C.2 the helper.  [desc_from b l]: l is non-increasing with all entries in 1..b (first entry
   <= b): the shape of the extensions explored by the search *)
Fixpoint desc_from (b : nat) (l : list nat) : Prop :=
  match l with
  | [] => True
  | x :: t => 1 <= x <= b /\ desc_from x t
  end.

Fixpoint nonincreasing (l : list nat) : Prop :=
  match l with
  | [] => True
  | x :: t => match t with [] => True | y :: _ => y <= x end /\ nonincreasing t
  end.

Lemma desc_from_weaken : forall l b b', b <= b' -> desc_from b l -> desc_from b' l.
Proof.
  intros l b b' Hb Hd. destruct l as [|x t]; [exact I|].
  cbn [desc_from] in *. destruct Hd as (Hx & Ht). split; [lia|assumption].
Qed.

Lemma desc_from_iff : forall l b,
  desc_from b l <-> Forall (fun x => 1 <= x <= b) l /\ nonincreasing l.
Proof.
  induction l as [|x t IH]; intros b.
  - cbn. split; [intros _; split; [constructor|exact I]|intros _; exact I].
  - cbn [desc_from nonincreasing]. rewrite (IH x). split.
    + intros (Hx & Hall & Hni). split; [|split].
      * constructor; [assumption|].
        eapply Forall_impl; [|exact Hall]. cbn. intros y Hy. lia.
      * destruct t as [|y t']; [exact I|]. inversion Hall; subst. lia.
      * assumption.
    + intros (Hall & Hhead & Hni). inversion Hall as [|x' t' Hx Hall']; subst.
      split; [assumption|]. split; [|assumption].
      clear Hall. revert Hhead Hni Hall'. clear IH. revert x Hx.
      induction t as [|y t IHt]; intros x Hx Hhead Hni Hall'; [constructor|].
      inversion Hall' as [|y' t' Hy Hall'']; subst.
      cbn [nonincreasing] in Hni. destruct Hni as (Hhead' & Hni').
      constructor; [lia|].
      eapply Forall_impl; [|apply (IHt y); try assumption; lia].
      cbn. intros z Hz. lia.
Qed.

(* postcondition of min_size_arity_bits_helper for a given prefix *)
Definition helper_post (d r : nat) (nq : Z) (gmax : nat) (prefix : list nat) (res : list nat * Z)
  : Prop :=
  (* the result extends the prefix by a non-increasing sequence with entries in
     1..(last prefix or global max) *)
  (exists ext, fst res = prefix ++ ext /\ desc_from (last prefix gmax) ext) /\
  sum_list (fst res) <= d /\
  (* the returned size is the size of the returned schedule *)
  relative_proof_size d r nq (fst res) = Some (snd res) /\
  snd res = rps_value d r nq (fst res) /\
  (* not worse than the prefix itself *)
  (snd res <= rps_value d r nq prefix)%Z /\
  (* optimal among all such extensions *)
  (forall ext', desc_from (last prefix gmax) ext' -> sum_list (prefix ++ ext') <= d ->
                (snd res <= rps_value d r nq (prefix ++ ext'))%Z).

Theorem min_size_helper_done : forall fuel d r nq gmax prefix,
  sum_list prefix <= d -> d - sum_list prefix < fuel ->
  exists res,
    min_size_arity_bits_helper fuel d r nq gmax prefix = Done res /\
    helper_post d r nq gmax prefix res.
Proof.
  induction fuel as [|fuel IH]; intros d r nq gmax prefix Hsum Hfuel; [lia|].
  cbn [min_size_arity_bits_helper].
  destruct (Nat.ltb_spec (d + r) (sum_list prefix)) as [?|_]; [lia|].
  destruct (Nat.ltb_spec (d + r - sum_list prefix) r) as [?|_]; [lia|].
  rewrite relative_proof_size_some by assumption.
  replace (d + r - sum_list prefix - r) with (d - sum_list prefix) by lia.
  set (mx := Nat.min (last prefix gmax) (d - sum_list prefix)).
  set (rec := fun next => min_size_arity_bits_helper fuel d r nq mx (prefix ++ [next])).
  assert (Hrec : forall next, In next (seq 1 mx) ->
                   exists res, rec next = Done res /\ helper_post d r nq mx (prefix ++ [next]) res).
  { intros next Hin. apply in_seq in Hin. unfold rec. apply IH.
    - rewrite sum_list_app, sum_list_cons. cbn [sum_list fold_right]. lia.
    - rewrite sum_list_app, sum_list_cons. cbn [sum_list fold_right]. lia. }
  destruct (for_best_spec rec (seq 1 mx) (prefix, rps_value d r nq prefix))
    as (res & Hres & Horigin & Hle & Hmin).
  { intros next Hin. destruct (Hrec next Hin) as (res & Hr & _). exists res; exact Hr. }
  cbn [snd] in Hle.
  exists res. split; [exact Hres|].
  assert (Hopt : forall ext', desc_from (last prefix gmax) ext' -> sum_list (prefix ++ ext') <= d ->
                              (snd res <= rps_value d r nq (prefix ++ ext'))%Z).
  { intros ext' Hdesc Hs'. destruct ext' as [|x t].
    - rewrite app_nil_r. exact Hle.
    - cbn [desc_from] in Hdesc. destruct Hdesc as (Hx & Ht).
      rewrite sum_list_app, sum_list_cons in Hs'.
      assert (Hin : In x (seq 1 mx)) by (apply in_seq; lia).
      destruct (Hrec x Hin) as (rx & Hrx & (_ & _ & _ & _ & _ & Hoptx)).
      specialize (Hmin x rx Hin Hrx).
      specialize (Hoptx t). rewrite last_last, <- app_assoc in Hoptx. cbn [app] in Hoptx.
      specialize (Hoptx Ht ltac:(rewrite sum_list_app, sum_list_cons; lia)). lia. }
  destruct Horigin as [->|(next & Hin & Hnext)].
  - unfold helper_post. cbn [fst snd].
    split; [exists []; split; [rewrite app_nil_r; reflexivity|exact I]|].
    split; [assumption|].
    split; [apply relative_proof_size_some; assumption|].
    split; [reflexivity|]. split; [lia|]. exact Hopt.
  - destruct (Hrec next Hin) as (res0 & Hr0 & Hpost0).
    rewrite Hnext in Hr0. injection Hr0 as <-.
    destruct Hpost0 as ((ext0 & Hext0 & Hdesc0) & Hsum0 & Hrps0 & Hval0 & _ & _).
    apply in_seq in Hin. rewrite last_last in Hdesc0.
    unfold helper_post.
    split.
    { exists (next :: ext0). split.
      - rewrite Hext0, <- app_assoc. reflexivity.
      - cbn [desc_from]. split; [lia|assumption]. }
    split; [assumption|]. split; [assumption|]. split; [assumption|]. split; [exact Hle|exact Hopt].
Qed.

(* ---- C.3 fuel irrelevance (no assumption on the prefix: a prefix that does not fit panics at once) *)
Theorem min_size_helper_fuel : forall fuel1 fuel2 d r nq gmax prefix,
  d - sum_list prefix < fuel1 -> d - sum_list prefix < fuel2 ->
  min_size_arity_bits_helper fuel1 d r nq gmax prefix =
  min_size_arity_bits_helper fuel2 d r nq gmax prefix.
Proof.
  induction fuel1 as [|fuel1 IH]; intros fuel2 d r nq gmax prefix H1 H2; [lia|].
  destruct fuel2 as [|fuel2]; [lia|].
  cbn [min_size_arity_bits_helper].
  destruct (Nat.ltb_spec (d + r) (sum_list prefix)) as [?|Hu]; [reflexivity|].
  destruct (Nat.ltb_spec (d + r - sum_list prefix) r) as [?|Hr]; [reflexivity|].
  destruct (relative_proof_size d r nq prefix) as [best_size|]; [|reflexivity].
  apply for_best_ext. intros next Hin. apply in_seq in Hin.
  apply IH; rewrite sum_list_app, sum_list_cons; cbn [sum_list fold_right]; lia.
Qed.

Corollary min_size_helper_not_nofuel : forall fuel d r nq gmax prefix,
  sum_list prefix <= d -> d - sum_list prefix < fuel ->
  min_size_arity_bits_helper fuel d r nq gmax prefix <> NoFuel /\
  min_size_arity_bits_helper fuel d r nq gmax prefix <> Panic.
Proof.
  intros fuel d r nq gmax prefix Hs Hf.
  destruct (min_size_helper_done fuel d r nq gmax prefix Hs Hf) as (res & -> & _).
  split; discriminate.
Qed.

Definition min_size_max (opt_max : option nat) : nat :=
  match opt_max with Some m => m | None => 4 end.

(* min_size_arity_bits always terminates without panic; the result fits degree_bits, is
   non-increasing with entries in 1..max, and has the least estimated proof size among ALL
   non-increasing schedules with entries in 1..max and sum <= degree_bits (in particular it is not
   worse than the empty schedule). *)
Theorem min_size_terminates : forall d r nq opt_max,
  exists l,
    min_size_arity_bits d r nq opt_max = Done l /\
    sum_list l <= d /\
    Forall (fun x => 1 <= x <= min_size_max opt_max) l /\
    nonincreasing l /\
    relative_proof_size d r nq l = Some (rps_value d r nq l) /\
    (rps_value d r nq l <= rps_value d r nq [])%Z /\
    (forall l', Forall (fun x => 1 <= x <= min_size_max opt_max) l' -> nonincreasing l' ->
                sum_list l' <= d -> (rps_value d r nq l <= rps_value d r nq l')%Z).
Proof.
  intros d r nq opt_max. unfold min_size_arity_bits. fold (min_size_max opt_max).
  destruct (min_size_helper_done (S d) d r nq (min_size_max opt_max) [])
    as ([l size] & Hrun & (ext & Hext & Hdesc) & Hsum & Hrps & Hval & Hle & Hopt).
  { cbn. lia. }
  { cbn. lia. }
  rewrite Hrun. cbn [fst snd app last] in *. subst ext.
  apply desc_from_iff in Hdesc. destruct Hdesc as (Hall & Hni).
  exists l. split; [reflexivity|]. split; [assumption|]. split; [assumption|]. split; [assumption|].
  split; [rewrite Hrps, Hval; reflexivity|].
  split; [rewrite <- Hval; exact Hle|].
  intros l' Hall' Hni' Hs'. rewrite <- Hval. apply Hopt; [|assumption].
  apply desc_from_iff. split; assumption.
Qed.

Corollary min_size_optimal : forall d r nq opt_max l l' s s',
  min_size_arity_bits d r nq opt_max = Done l ->
  Forall (fun x => 1 <= x <= min_size_max opt_max) l' -> nonincreasing l' -> sum_list l' <= d ->
  relative_proof_size d r nq l = Some s -> relative_proof_size d r nq l' = Some s' ->
  (s <= s')%Z.
Proof.
  intros d r nq opt_max l l' s s' Hrun Hall' Hni' Hs' Hs Hs2.
  destruct (min_size_terminates d r nq opt_max) as (l0 & Hrun0 & _ & _ & _ & Hrps0 & _ & Hopt).
  rewrite Hrun in Hrun0. injection Hrun0 as <-.
  rewrite Hrps0 in Hs. injection Hs as <-.
  rewrite relative_proof_size_some in Hs2 by assumption. injection Hs2 as <-.
  apply Hopt; assumption.
Qed.

(* ---- C.4 size bound: on the domain degree_bits + rate_bits <= 40, num_queries <= 2^16 the
   estimate (and hence every intermediate value of relative_proof_size, which only adds
   non-negative terms) stays below 2^64, so the unmodelled usize overflow cannot occur.
   NOTE: a bound on the LENGTH of the schedule is needed: entries equal to 0 cost
   current_layer_bits * 4 * num_queries each and do not consume degree bits, so
   [sum_list l <= d] alone does not bound the value.  Schedules explored by MinSize have entries
   >= 1, hence length <= sum <= degree_bits. *)
Lemma rps_total_bound : forall nq l clb,
  (0 <= nq)%Z -> sum_list l <= clb ->
  (0 <= rps_total nq l clb <=
   4 * nq * (2 ^ Z.of_nat (sum_list l) - 1) + 4 * nq * Z.of_nat clb * Z.of_nat (length l))%Z.
Proof.
  induction l as [|a t IH]; intros clb Hnq Hs.
  - cbn. lia.
  - rewrite sum_list_cons in *. cbn [rps_total length].
    specialize (IH (clb - a) Hnq ltac:(lia)).
    rewrite Nat2Z.inj_add, Z.pow_add_r by lia.
    rewrite Nat2Z.inj_succ. unfold D_EXT.
    assert (HA : (0 < 2 ^ Z.of_nat a)%Z) by (apply Z.pow_pos_nonneg; lia).
    assert (HS : (0 < 2 ^ Z.of_nat (sum_list t))%Z) by (apply Z.pow_pos_nonneg; lia).
    set (A := (2 ^ Z.of_nat a)%Z) in *. set (P := (2 ^ Z.of_nat (sum_list t))%Z) in *.
    assert (HC : (0 <= Z.of_nat (clb - a) <= Z.of_nat clb)%Z) by lia.
    set (C := Z.of_nat clb) in *. set (C' := Z.of_nat (clb - a)) in *.
    assert (HL : (0 <= Z.of_nat (length t))%Z) by lia.
    set (L := Z.of_nat (length t)) in *.
    assert (H1 : (0 <= nq * ((A - 1) * (P - 1)))%Z)
      by (apply Z.mul_nonneg_nonneg; [lia|apply Z.mul_nonneg_nonneg; lia]).
    assert (H2 : (0 <= nq * ((C - C') * L))%Z)
      by (apply Z.mul_nonneg_nonneg; [lia|apply Z.mul_nonneg_nonneg; lia]).
    assert (H3 : (0 <= nq * (A - 1))%Z) by (apply Z.mul_nonneg_nonneg; lia).
    assert (H4 : (0 <= nq * C)%Z) by (apply Z.mul_nonneg_nonneg; lia).
    split; lia.
Qed.

Theorem relative_proof_size_small_len : forall d r nq l,
  sum_list l <= d -> length l <= 40 -> d + r <= 40 -> (0 <= nq <= 2 ^ 16)%Z ->
  (0 <= rps_value d r nq l < 2 ^ 64)%Z.
Proof.
  intros d r nq l Hs Hlen Hdr Hnq. unfold rps_value, D_EXT.
  change (2 ^ 16)%Z with 65536%Z in Hnq. change (2 ^ 64)%Z with 18446744073709551616%Z.
  pose proof (rps_total_bound nq l (d + r) ltac:(lia) ltac:(lia)) as Hb.
  assert (HP : (0 < 2 ^ Z.of_nat (sum_list l) <= 1099511627776)%Z).
  { split; [apply Z.pow_pos_nonneg; lia|].
    change 1099511627776%Z with (2 ^ 40)%Z. apply Z.pow_le_mono_r; lia. }
  assert (HQ : (0 < 2 ^ Z.of_nat (d - sum_list l) <= 1099511627776)%Z).
  { split; [apply Z.pow_pos_nonneg; lia|].
    change 1099511627776%Z with (2 ^ 40)%Z. apply Z.pow_le_mono_r; lia. }
  set (P := (2 ^ Z.of_nat (sum_list l))%Z) in *. set (Q := (2 ^ Z.of_nat (d - sum_list l))%Z) in *.
  assert (H1 : (nq * (P - 1) <= 65536 * 1099511627776)%Z) by (apply Z.mul_le_mono_nonneg; lia).
  assert (H2 : (nq * Z.of_nat (d + r) <= 65536 * 40)%Z) by (apply Z.mul_le_mono_nonneg; lia).
  assert (H3 : (nq * Z.of_nat (d + r) * Z.of_nat (length l) <= 65536 * 40 * 40)%Z).
  { apply Z.mul_le_mono_nonneg; try lia; apply Z.mul_nonneg_nonneg; lia. }
  lia.
Qed.

Lemma length_le_sum_list : forall l, Forall (fun x => 1 <= x) l -> length l <= sum_list l.
Proof.
  induction l as [|x t IH]; intros Hall; [cbn; lia|].
  inversion Hall as [|x' t' Hx Ht]; subst. rewrite sum_list_cons. cbn [length].
  specialize (IH Ht). lia.
Qed.

Theorem relative_proof_size_small : forall d r nq l,
  sum_list l <= d -> Forall (fun x => 1 <= x) l -> d + r <= 40 -> (0 <= nq <= 2 ^ 16)%Z ->
  exists s, relative_proof_size d r nq l = Some s /\ (0 <= s < 2 ^ 64)%Z.
Proof.
  intros d r nq l Hs Hall Hdr Hnq. exists (rps_value d r nq l).
  split; [apply relative_proof_size_some; assumption|].
  apply relative_proof_size_small_len; try assumption.
  pose proof (length_le_sum_list l Hall). lia.
Qed.

(* ================================================================= D. summary *)
Theorem reduction_arity_bits_sound : forall s d r c nq l,
  reduction_arity_bits_of s d r c nq = Done l ->
  match s with
  | Fixed v => l = v                                           (* NOT validated *)
  | ConstantArityBits a f =>
    l = repeat a (length l) /\
    sum_list l = a * length l /\
    sum_list l <= d /\
    (forall k, k < length l ->
       f < d - k * a /\ (k + 1) * a <= d /\ c <= d + r - (k + 1) * a) /\
    (d - sum_list l <= f \/ (a <= d - sum_list l + r /\ d - sum_list l + r - a < c))
  | MinSize opt_max =>
    sum_list l <= d /\
    Forall (fun x => 1 <= x <= min_size_max opt_max) l /\
    nonincreasing l /\
    relative_proof_size d r nq l = Some (rps_value d r nq l) /\
    (forall l', Forall (fun x => 1 <= x <= min_size_max opt_max) l' -> nonincreasing l' ->
                sum_list l' <= d -> (rps_value d r nq l <= rps_value d r nq l')%Z)
  end.
Proof.
  intros s d r c nq l Hrun. destruct s as [v|a f|opt_max]; cbn [reduction_arity_bits_of] in Hrun.
  - injection Hrun as <-. reflexivity.
  - destruct (arity_schedule_sound _ _ _ _ _ _ _ Hrun) as (Hrep & Hsum & Hle & Hlayers & Hstop).
    rewrite Hsum. split; [assumption|]. split; [reflexivity|]. split; [assumption|].
    split; [|assumption].
    intros k Hk. destruct (Hlayers k Hk) as (H1 & H2 & H3 & H4). auto.
  - destruct (min_size_terminates d r nq opt_max)
      as (l0 & Hrun0 & Hsum & Hall & Hni & Hrps & _ & Hopt).
    rewrite Hrun in Hrun0. injection Hrun0 as <-. auto.
Qed.

(* when does reduction_arity_bits return at all *)
Theorem reduction_arity_bits_total : forall s d r c nq,
  match s with
  | Fixed _ => True
  | ConstantArityBits a f => 1 <= a <= f + 1
  | MinSize _ => True
  end ->
  exists l, reduction_arity_bits_of s d r c nq = Done l.
Proof.
  intros s d r c nq Hs. destruct s as [v|a f|opt_max]; cbn [reduction_arity_bits_of].
  - exists v. reflexivity.
  - apply constant_arity_done; lia.
  - destruct (min_size_terminates d r nq opt_max) as (l & Hrun & _). exists l. exact Hrun.
Qed.

(* FriConfig::fri_params: for the two computed strategies the resulting FriParams satisfy
   total_arities() <= degree_bits, so final_poly_bits() does not underflow *)
Theorem fri_params_sound : forall cfg d h p,
  fri_params_of cfg d h = Done p ->
  config p = cfg /\ degree_bits p = d /\ hiding p = h /\
  reduction_arity_bits_of (reduction_strategy cfg) d (rate_bits cfg) (cap_height cfg)
                          (Z.of_nat (num_query_rounds cfg)) = Done (reduction_arity_bits p) /\
  (match reduction_strategy cfg with
   | Fixed v => reduction_arity_bits p = v
   | _ => total_arities p <= degree_bits p /\ final_poly_len p * 2 ^ total_arities p = 2 ^ degree_bits p
   end).
Proof.
  intros cfg d h p Hp. unfold fri_params_of in Hp.
  destruct (reduction_arity_bits_of (reduction_strategy cfg) d (rate_bits cfg) (cap_height cfg)
                                    (Z.of_nat (num_query_rounds cfg))) as [l| |] eqn:Hrun;
    try discriminate.
  injection Hp as <-. cbn [config degree_bits hiding reduction_arity_bits].
  split; [reflexivity|]. split; [reflexivity|]. split; [reflexivity|]. split; [reflexivity|].
  pose proof (reduction_arity_bits_sound _ _ _ _ _ _ Hrun) as Hsound.
  unfold final_poly_len. rewrite !total_arities_sum_list.
  cbn [config degree_bits hiding reduction_arity_bits].
  destruct (reduction_strategy cfg) as [v|a f|opt_max].
  - exact Hsound.
  - destruct Hsound as (_ & _ & Hle & _). split; [assumption|].
    rewrite <- Nat.pow_add_r. f_equal. lia.
  - destruct Hsound as (Hle & _). split; [assumption|].
    rewrite <- Nat.pow_add_r. f_equal. lia.
Qed.
