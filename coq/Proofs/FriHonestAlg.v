(* Completeness of the FRI verifier on the honest model prover (Model/FriProver.v), algebraic
   parts: (1) fri_combine_initial on honest leaf values and honest openings is the value of the
   combined quotient polynomial of prove_openings; (2) the coefficients dropped by
   `coeffs.truncate(len >> rate_bits)` are zero (the comment in fri_committed_trees). *)
From Coq Require Import ZArith List Bool Lia Arith Ring Field.
From Verif Require Import Base.Field Base.Poly Gen.FieldConsts Model.Fp Model.Fp2 Model.FieldGeneric
  Model.Fri Model.FriProver.
From Verif Require Import Proofs.FpFieldPrime Proofs.Fp2Field Proofs.FieldGeneric Proofs.FriFold.
Import ListNotations.
Local Open Scope nat_scope.

Lemma nth_firstn_lt {A} (d : A) : forall r (l : list A) i, i < r -> nth i (firstn r l) d = nth i l d.
Proof.
  induction r as [|r IH]; intros l i Hi; [lia|]. destruct l as [|h t]; [destruct i; reflexivity|].
  cbn [firstn]. destruct i as [|i]; [reflexivity|]. cbn [nth]. apply IH. lia.
Qed.

Lemma nth_firstn_ge {A} (d : A) : forall r (l : list A) i, r <= i -> nth i (firstn r l) d = d.
Proof.
  intros r l i Hi. apply nth_overflow. pose proof (firstn_le_length r l). lia.
Qed.

Section HonestAlg.
  Local Open Scope field_scope.
  Add Field Fp2Fh : (@F_field_theory Fp2 _ Fp2Laws).
  Add Field FpFh : (@F_field_theory Fp _ FpLaws).

  (* ---- the embedding commutes with evaluation *)
  Lemma emb_add (a b : Fp) : fp2_of_base (a + b) = fp2_of_base a + fp2_of_base b.
  Proof. unfold fp2_of_base. cbn [fadd Fp2Ops fst snd]. f_equal; try ring. Qed.

  Lemma peval_emb (f : list Fp) (x : Fp) :
    peval (map fp2_of_base f) (fp2_of_base x) = fp2_of_base (peval f x).
  Proof.
    induction f as [|c f IH]; cbn [map peval]; [reflexivity|].
    rewrite IH, emb_add, emb_mul. reflexivity.
  Qed.

  (* ---- reduce = evaluation of the reduced polynomial *)
  Lemma reduce_cons alpha v vs : Fri.reduce alpha (v :: vs) = Fri.reduce alpha vs * alpha + v.
  Proof. reflexivity. Qed.

  Lemma reduce_polys_cons alpha f fs :
    reduce_polys alpha (f :: fs) = padd (map fp2_of_base f) (pscale alpha (reduce_polys alpha fs)).
  Proof. reflexivity. Qed.

  Lemma reduce_values alpha (fs : list (list Fp)) (x : Fp) :
    Fri.reduce alpha (map (fun f => fp2_of_base (peval f x)) fs)
    = peval (reduce_polys alpha fs) (fp2_of_base x).
  Proof.
    induction fs as [|f fs IH]; [reflexivity|]. cbn [map].
    rewrite reduce_cons, reduce_polys_cons, IH, peval_padd, peval_pscale, peval_emb. ring.
  Qed.

  Lemma reduce_openings alpha (fs : list (list Fp)) (z : Fp2) :
    Fri.reduce alpha (map (fun f => peval (map fp2_of_base f) z) fs) = peval (reduce_polys alpha fs) z.
  Proof.
    induction fs as [|f fs IH]; [reflexivity|]. cbn [map].
    rewrite reduce_cons, reduce_polys_cons, IH, peval_padd, peval_pscale. ring.
  Qed.

  Lemma reduce_polys_length alpha fs n :
    Forall (fun f : list Fp => (length f <= n)%nat) fs -> (length (reduce_polys alpha fs) <= n)%nat.
  Proof.
    induction 1 as [|f fs Hf _ IH]; [cbn; lia|].
    rewrite reduce_polys_cons, padd_length, map_length, pscale_length. lia.
  Qed.

  (* ---- the combined polynomial of prove_openings *)
  Definition comb_step (oracles : list (list (list Fp))) (alpha : Fp2) (final : list Fp2) (b : batch_info)
    : list Fp2 :=
    let polys := map (poly_of oracles) (polynomials b) in
    let quotient := fst (div_linear (reduce_polys alpha polys) (point b)) ++ [0] in
    padd (pscale (fpow alpha (length polys)) final) quotient.

  Lemma combined_poly_fold oracles alpha bs :
    combined_poly oracles alpha bs = fold_left (comb_step oracles alpha) bs [].
  Proof. reflexivity. Qed.

  Lemma comb_step_length oracles alpha final b n :
    (1 <= n)%nat -> (length final <= n)%nat ->
    (forall pi, length (poly_of oracles pi) <= n)%nat ->
    (length (comb_step oracles alpha final b) <= n)%nat.
  Proof.
    intros Hn Hf Hp. unfold comb_step.
    rewrite padd_length, pscale_length, app_length. cbn [length].
    destruct (div_linear (reduce_polys alpha (map (poly_of oracles) (polynomials b))) (point b)) as [q r] eqn:E.
    destruct (div_linear_spec _ _ _ _ E) as (_ & Hl & _). cbn [fst]. rewrite Hl.
    assert (length (reduce_polys alpha (map (poly_of oracles) (polynomials b))) <= n)%nat.
    { apply reduce_polys_length. apply Forall_forall. intros f Hin.
      apply in_map_iff in Hin. destruct Hin as (pi & <- & _). apply Hp. }
    lia.
  Qed.

  Lemma combined_poly_length oracles alpha bs n :
    (1 <= n)%nat -> (forall pi, length (poly_of oracles pi) <= n)%nat ->
    (length (combined_poly oracles alpha bs) <= n)%nat.
  Proof.
    intros Hn Hp. rewrite combined_poly_fold.
    assert (G : forall final, (length final <= n)%nat ->
                              (length (fold_left (comb_step oracles alpha) bs final) <= n)%nat).
    { induction bs as [|b bt IH]; intros final Hf; cbn [fold_left]; [exact Hf|].
      apply IH. apply comb_step_length; assumption. }
    apply G. cbn. lia.
  Qed.

  (* ---- fri_combine_initial on honest data *)
  Section Combine.
    Variables (inst : fri_instance) (p : fri_params) (initial : list (list Fp * list digest))
              (oracles : list (list (list Fp))) (alpha : Fp2) (x : Fp).
    Hypothesis no_hiding : hiding p = false.
    (* the opened leaf of oracle oi holds the values of its polynomials at x *)
    Hypothesis leaves_ok : forall oi,
      fst (nth oi initial ([], [])) = map (fun f => peval f x) (nth oi oracles []).

    Lemma honest_unsalted pi :
      nth (polynomial_index pi) (unsalted_evals initial (oracle_index pi) false) 0
      = peval (poly_of oracles pi) x.
    Proof.
      unfold unsalted_evals, poly_of. cbn [salt_size]. rewrite Nat.sub_0_r, firstn_all, leaves_ok.
      change (@fzero Fp FpOps) with ((fun f : list Fp => peval f x) []) at 1.
      apply map_nth.
    Qed.

    Lemma combine_batches_honest : forall bs final,
      (forall b, In b bs -> fp2_of_base x <> point b) ->
      combine_batches inst p initial alpha (fp2_of_base x) bs
        (precomputed_reduced_openings (honest_openings oracles bs) alpha) (peval final (fp2_of_base x))
      = inl (peval (fold_left (comb_step oracles alpha) bs final) (fp2_of_base x)).
    Proof.
      induction bs as [|b bt IH]; intros final Hpts; [reflexivity|].
      cbn [honest_openings precomputed_reduced_openings map combine_batches fold_left].
      fold (honest_openings oracles bt). fold (precomputed_reduced_openings (honest_openings oracles bt) alpha).
      rewrite (map_ext _ (fun pi => fp2_of_base (peval (poly_of oracles pi) x))).
      2:{ intros pi. rewrite no_hiding. cbn [andb]. rewrite honest_unsalted. reflexivity. }
      rewrite <- (map_map (poly_of oracles) (fun f => fp2_of_base (peval f x))).
      rewrite <- (map_map (poly_of oracles) (fun f => peval (map fp2_of_base f) (point b))).
      rewrite reduce_values, reduce_openings, !map_length.
      assert (Hden : fp2_of_base x - point b <> 0).
      { intros E. apply (proj1 (f_sub_eq_0 _ _)) in E. apply (Hpts b); [left; reflexivity | exact E]. }
      apply (proj2 (feqb_false _ _)) in Hden. rewrite Hden. apply feqb_false in Hden.
      set (fs := map (poly_of oracles) (polynomials b)).
      replace (fpow alpha (length (polynomials b)) * peval final (fp2_of_base x)
               + (peval (reduce_polys alpha fs) (fp2_of_base x) - peval (reduce_polys alpha fs) (point b))
                 * finv (fp2_of_base x - point b))
        with (peval (comb_step oracles alpha final b) (fp2_of_base x)).
      - apply IH. intros b' Hb'. apply Hpts. right. exact Hb'.
      - unfold comb_step. fold fs. unfold fs at 1. rewrite map_length.
        destruct (div_linear (reduce_polys alpha fs) (point b)) as [q r] eqn:E.
        destruct (div_linear_spec _ _ _ _ E) as (Hr & _ & Hx). cbn [fst].
        rewrite peval_padd, peval_pscale, peval_app. cbn [peval].
        rewrite (Hx (fp2_of_base x)), <- Hr. field. exact Hden.
    Qed.

    Theorem combine_initial_honest :
      (forall b, In b (batches inst) -> fp2_of_base x <> point b) ->
      fri_combine_initial inst p initial alpha x
        (precomputed_reduced_openings (honest_openings oracles (batches inst)) alpha)
      = inl (peval (combined_poly oracles alpha (batches inst)) (fp2_of_base x)).
    Proof.
      intros Hpts. unfold fri_combine_initial. rewrite combined_poly_fold.
      exact (combine_batches_honest (batches inst) [] Hpts).
    Qed.
  End Combine.

  (* ---- zero tails *)
  Definition zeros_from (m : nat) (l : list Fp2) : Prop := forall i, (m <= i)%nat -> nth i l 0 = 0.

  Lemma zeros_from_mono m m' l : (m <= m')%nat -> zeros_from m l -> zeros_from m' l.
  Proof. intros Hm Hz i Hi. apply Hz. lia. Qed.

  Lemma zeros_from_pad l k : zeros_from (length l) (l ++ repeat 0 k).
  Proof.
    intros i Hi. rewrite app_nth2 by lia.
    destruct (Nat.lt_ge_cases (i - length l) k) as [Hlt|Hge].
    - apply nth_repeat.
    - apply nth_overflow. rewrite repeat_length. exact Hge.
  Qed.

  Lemma peval_all_zero (l : list Fp2) y : (forall i, nth i l 0 = 0) -> peval l y = 0.
  Proof.
    induction l as [|c l IH]; intros Hz; [reflexivity|]. cbn [peval].
    rewrite (Hz 0%nat : c = 0), IH; [ring|]. intros i. exact (Hz (S i)).
  Qed.

  Lemma peval_pad l k y : peval (l ++ repeat 0 k) y = peval l y.
  Proof.
    rewrite peval_app, (peval_all_zero (repeat 0 k)); [ring|].
    intros i. destruct (Nat.lt_ge_cases i k); [apply nth_repeat | apply nth_overflow; rewrite repeat_length; lia].
  Qed.

  Lemma peval_truncate m l y : zeros_from m l -> peval (firstn m l) y = peval l y.
  Proof.
    intros Hz. rewrite <- (firstn_skipn m l) at 2. rewrite peval_app, (peval_all_zero (skipn m l)); [ring|].
    intros i. rewrite nth_skipn. apply Hz. lia.
  Qed.

  (* folding keeps the zero tail: fold_poly of 2^n coefficients that vanish from 2^e on *)
  Lemma fold_poly_nth coeffs a beta j : (j < length coeffs / 2 ^ a)%nat ->
    nth j (fold_poly coeffs a beta) 0 = peval2 (nth j (chunks_exact (length coeffs / 2 ^ a) (2 ^ a) coeffs) []) beta.
  Proof.
    intros Hj. unfold fold_poly.
    change (@fzero Fp2 Fp2Ops) with ((fun ch : list Fp2 => peval2 ch beta) []) at 1.
    apply map_nth.
  Qed.
End HonestAlg.
