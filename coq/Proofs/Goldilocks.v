(* C14: the translated Goldilocks arithmetic (Gen/GoldilocksImpl.v, regenerated from
   field/src/goldilocks_field.rs on every run) is exact modular arithmetic on every u64
   representation, and no checked operation / assume ever fails. *)
From Coq Require Import ZArith Bool List Lia.
From Verif Require Import Base.Mach Gen.FieldConsts Gen.GoldilocksImpl.
Open Scope Z_scope.

Definition P : Z := ORDER.

Lemma P_val : P = 2 ^ 64 - 2 ^ 32 + 1. Proof. reflexivity. Qed.
Lemma EPS_val : EPSILON = 2 ^ 32 - 1. Proof. reflexivity. Qed.
Lemma ORDER_val : ORDER = 2 ^ 64 - 2 ^ 32 + 1. Proof. reflexivity. Qed.

Ltac consts := rewrite ?P_val, ?EPS_val, ?ORDER_val in *.
Ltac zl := consts; lia.

(* one step of the checked monad; side conditions by lia *)
Ltac step :=
  first
  [ rewrite bind_chkU by zl
  | rewrite bind_chkS by zl
  | rewrite bind_ret
  | rewrite bind_Some
  | rewrite bind_guard by (cbn [andb orb negb]; repeat (apply andb_true_intro; split); try apply Z.ltb_lt; try apply Z.gtb_lt; try apply Z.leb_le; zl) ].

Lemma modP_eq a b k : a = b + k * P -> a mod P = b mod P.
Proof. intros ->. apply Z.mod_add. rewrite P_val. lia. Qed.

Lemma add_no_canon_spec x y :
  0 <= x < 2 ^ 64 -> 0 <= y < 2 ^ 64 -> x + y < 2 ^ 64 + P ->
  exists r, gl_add_no_canon x y = Some r /\ 0 <= r < 2 ^ 64 /\
            (r = x + y \/ r = x + y - P).
Proof.
  intros Hx Hy Hs. unfold gl_add_no_canon, ovf_addU.
  destruct (Z_lt_le_dec (x + y) (2 ^ 64)) as [H|H].
  - rewrite inU_true, wrapU_small by lia. cbn [negb]. rewrite b2z_false.
    repeat step. unfold ret. eexists; split; [reflexivity|]. lia.
  - rewrite inU_false, wrapU_over by zl. cbn [negb]. rewrite b2z_true.
    repeat step. unfold ret. eexists; split; [reflexivity|]. zl.
Qed.

(* result in u64, congruent to spec *)
Definition Rz (m : M Z) (spec : Z) : Prop :=
  exists r, m = Some r /\ 0 <= r < 2 ^ 64 /\ r mod P = spec mod P.

Lemma Rz_bind {B} m spec (k : Z -> M B) (Q : M B -> Prop) :
  Rz m spec -> (forall r, 0 <= r < 2 ^ 64 -> r mod P = spec mod P -> Q (k r)) -> Q (bind m k).
Proof. intros (r & -> & Hr & E) H. apply H; auto. Qed.

Lemma reduce96_correct lo hi : 0 <= lo < 2 ^ 64 -> 0 <= hi < 2 ^ 32 ->
  Rz (gl_reduce96 (lo, hi)) (lo + 2 ^ 64 * hi).
Proof.
  intros Hlo Hhi. unfold gl_reduce96. step.
  destruct (add_no_canon_spec lo (hi * EPSILON)) as (r & E & Hr & D); try zl.
  rewrite E. step. exists r. split; [reflexivity|]. split; [lia|].
  destruct D as [-> | ->].
  - apply modP_eq with (- hi). zl.
  - apply modP_eq with (- hi - 1). zl.
Qed.

Lemma split_spec x : 0 <= x < 2 ^ 128 ->
  gl_split x = Some (x mod 2 ^ 64, x / 2 ^ 64).
Proof.
  intros H. unfold gl_split, ret, shrZ. f_equal. f_equal. apply wrapU_small.
  split; [apply Z.div_pos; lia|]. apply Z.div_lt_upper_bound; lia.
Qed.

Lemma reduce128_correct x : 0 <= x < 2 ^ 128 -> Rz (gl_reduce128 x) x.
Proof.
  intros H. unfold gl_reduce128. rewrite split_spec by auto. step. unfold shrZ, lowbits, ovf_subU, wrapU.
  set (lo := x mod 2 ^ 64). set (hi := x / 2 ^ 64).
  assert (Hlo : 0 <= lo < 2 ^ 64) by (apply Z.mod_pos_bound; lia).
  assert (Hhi : 0 <= hi < 2 ^ 64).
  { split; [apply Z.div_pos; lia|]. apply Z.div_lt_upper_bound; lia. }
  assert (Hx : x = lo + 2 ^ 64 * hi) by (unfold lo, hi; rewrite Z.add_comm; apply Z.div_mod; lia).
  set (hh := hi / 2 ^ 32). set (hl := hi mod 2 ^ 32).
  assert (Hhl : 0 <= hl < 2 ^ 32) by (apply Z.mod_pos_bound; lia).
  assert (Hhh : 0 <= hh < 2 ^ 32).
  { split; [apply Z.div_pos; lia|]. apply Z.div_lt_upper_bound; lia. }
  assert (Hh : hi = hl + 2 ^ 32 * hh) by (unfold hl, hh; rewrite Z.add_comm; apply Z.div_mod; lia).
  destruct (Z_lt_le_dec (lo - hh) 0) as [Hb|Hb].
  - rewrite inU_false by lia. cbn [negb].
    assert (E : (lo - hh) mod 2 ^ 64 = lo - hh + 2 ^ 64) by (apply wrapU_under; lia).
    rewrite E. repeat step.
    destruct (add_no_canon_spec (lo - hh + 2 ^ 64 - EPSILON) (hl * EPSILON)) as (r & Er & Hr & D); try zl.
    rewrite Er. step. exists r. split; [reflexivity|]. split; [lia|].
    rewrite Hx, Hh. destruct D as [-> | ->].
    + apply modP_eq with (1 - hl - hh * (2 ^ 32 + 1)). zl.
    + apply modP_eq with (- hl - hh * (2 ^ 32 + 1)). zl.
  - rewrite inU_true by lia. cbn [negb].
    assert (E : (lo - hh) mod 2 ^ 64 = lo - hh) by (apply Z.mod_small; lia).
    rewrite E. repeat step.
    destruct (add_no_canon_spec (lo - hh) (hl * EPSILON)) as (r & Er & Hr & D); try zl.
    rewrite Er. step. exists r. split; [reflexivity|]. split; [lia|].
    rewrite Hx, Hh. destruct D as [-> | ->].
    + apply modP_eq with (- hl - hh * (2 ^ 32 + 1)). zl.
    + apply modP_eq with (- 1 - hl - hh * (2 ^ 32 + 1)). zl.
Qed.

Lemma div_range a b n : 0 <= a < b * n -> 0 < b -> 0 <= a / b < n.
Proof. intros. split; [apply Z.div_pos; lia|]. apply Z.div_lt_upper_bound; lia. Qed.

(* exactly the documented bound of reduce160: x < 2^160 - 2^128 + 2^96 *)
Lemma reduce160_correct xl xh : 0 <= xl < 2 ^ 128 -> 0 <= xh < 2 ^ 32 ->
  xl + 2 ^ 128 * xh < 2 ^ 160 - 2 ^ 128 + 2 ^ 96 ->
  Rz (gl_reduce160 xl xh) (xl + 2 ^ 128 * xh).
Proof.
  intros Hl Hh Hb. unfold gl_reduce160, shrZ, shlU, ovf_subU.
  set (q96 := xl / 2 ^ 96).
  assert (Hq96 : 0 <= q96 < 2 ^ 32) by (apply div_range; lia).
  assert (Hxl96 : xl = 2 ^ 96 * q96 + xl mod 2 ^ 96) by (apply Z.div_mod; lia).
  assert (Hr96 : 0 <= xl mod 2 ^ 96 < 2 ^ 96) by (apply Z.mod_pos_bound; lia).
  rewrite (wrapU_small 64 q96) by lia.
  rewrite (wrapU_small 64 (xh * 2 ^ 32)) by lia.
  step.
  set (hi := q96 + xh * 2 ^ 32).
  assert (Hhi : 0 <= hi < P) by (unfold hi; zl).
  set (lo := wrapU 64 xl).
  set (q64 := xl / 2 ^ 64).
  assert (Hq64 : 0 <= q64 < 2 ^ 64) by (apply div_range; lia).
  assert (Hxl64 : xl = 2 ^ 64 * q64 + lo) by (apply Z.div_mod; lia).
  assert (Hlo : 0 <= lo < 2 ^ 64) by (apply Z.mod_pos_bound; lia).
  set (mid := wrapU 32 q64).
  assert (Hmid : 0 <= mid < 2 ^ 32) by (apply Z.mod_pos_bound; lia).
  assert (Hq : q64 = 2 ^ 32 * q96 + mid).
  { unfold mid, wrapU, q64, q96.
    replace (2 ^ 96) with (2 ^ 64 * 2 ^ 32) by lia. rewrite <- Z.div_div by lia.
    apply Z.div_mod. lia. }
  assert (Hx : xl + 2 ^ 128 * xh = lo + 2 ^ 64 * mid + 2 ^ 96 * hi) by (unfold hi; lia).
  rewrite Hx. clear Hx Hq Hxl64 Hxl96 Hr96.
  destruct (Z_lt_le_dec (lo - hi) 0) as [Hbr|Hbr].
  - rewrite inU_false by lia. cbn [negb]. rewrite wrapU_under by zl. repeat step.
    destruct (add_no_canon_spec (lo - hi + 2 ^ 64 - EPSILON) (mid * EPSILON)) as (r & Er & Hr & D); try zl.
    rewrite Er. step. exists r. split; [reflexivity|]. split; [lia|].
    destruct D as [-> | ->].
    + apply modP_eq with (1 - mid - hi * (2 ^ 32 + 1)). zl.
    + apply modP_eq with (- mid - hi * (2 ^ 32 + 1)). zl.
  - rewrite inU_true by zl. cbn [negb]. rewrite wrapU_small by zl. repeat step.
    destruct (add_no_canon_spec (lo - hi) (mid * EPSILON)) as (r & Er & Hr & D); try zl.
    rewrite Er. step. exists r. split; [reflexivity|]. split; [lia|].
    destruct D as [-> | ->].
    + apply modP_eq with (- mid - hi * (2 ^ 32 + 1)). zl.
    + apply modP_eq with (- 1 - mid - hi * (2 ^ 32 + 1)). zl.
Qed.

Lemma to_canonical_spec x : 0 <= x < 2 ^ 64 ->
  gl_to_canonical_u64 x = Some (x mod P).
Proof.
  intros H. unfold gl_to_canonical_u64. rewrite Z.geb_leb.
  destruct (Z.leb_spec ORDER x) as [Hc|Hc].
  - repeat step. unfold ret. f_equal. apply Z.mod_unique with 1; zl.
  - repeat step. unfold ret. f_equal. symmetry. apply Z.mod_small. zl.
Qed.

Lemma add_correct x y : 0 <= x < 2 ^ 64 -> 0 <= y < 2 ^ 64 -> Rz (gl_add x y) (x + y).
Proof.
  intros Hx Hy. unfold gl_add, ovf_addU.
  destruct (Z_lt_le_dec (x + y) (2 ^ 64)) as [H|H].
  - rewrite inU_true, wrapU_small by lia. cbn [negb]. rewrite b2z_false. step.
    rewrite inU_true, wrapU_small by lia. cbn [negb]. repeat step.
    exists (x + y + 0 * EPSILON). split; [reflexivity|]. split; [lia|]. f_equal. lia.
  - rewrite inU_false, wrapU_over by lia. cbn [negb]. rewrite b2z_true. step.
    destruct (Z_lt_le_dec (x + y - 2 ^ 64 + 1 * EPSILON) (2 ^ 64)) as [H2|H2].
    + rewrite inU_true, wrapU_small by zl. cbn [negb]. repeat step.
      eexists. split; [reflexivity|]. split; [zl|]. apply modP_eq with (-1). zl.
    + (* double overflow: both operands above ORDER; the assume holds *)
      rewrite inU_false, wrapU_over by zl. cbn [negb].
      rewrite bind_guard.
      2:{ apply andb_true_intro; split; apply Z.gtb_lt; zl. }
      repeat step. eexists. split; [reflexivity|]. split; [zl|]. apply modP_eq with (-2). zl.
Qed.

Lemma sub_correct x y : 0 <= x < 2 ^ 64 -> 0 <= y < 2 ^ 64 -> Rz (gl_sub x y) (x - y).
Proof.
  intros Hx Hy. unfold gl_sub, ovf_subU.
  destruct (Z_lt_le_dec (x - y) 0) as [H|H].
  - rewrite inU_false, wrapU_under by lia. cbn [negb]. rewrite b2z_true. step.
    destruct (Z_lt_le_dec (x - y + 2 ^ 64 - 1 * EPSILON) 0) as [H2|H2].
    + (* double underflow *)
      rewrite inU_false, wrapU_under by zl. cbn [negb]. step.
      rewrite bind_guard.
      2:{ apply andb_true_intro; split; [apply Z.ltb_lt | apply Z.gtb_lt]; zl. }
      repeat step. eexists. split; [reflexivity|]. split; [zl|]. apply modP_eq with 2. zl.
    + rewrite inU_true, wrapU_small by zl. cbn [negb]. repeat step.
      eexists. split; [reflexivity|]. split; [zl|]. apply modP_eq with 1. zl.
  - rewrite inU_true, wrapU_small by lia. cbn [negb]. rewrite b2z_false. step.
    rewrite inU_true, wrapU_small by lia. cbn [negb]. repeat step.
    eexists. split; [reflexivity|]. split; [lia|]. f_equal. lia.
Qed.

Lemma mul_range x y : 0 <= x < 2 ^ 64 -> 0 <= y < 2 ^ 64 -> 0 <= x * y <= (2 ^ 64 - 1) * (2 ^ 64 - 1).
Proof. intros. split; [apply Z.mul_nonneg_nonneg; lia|]. apply Z.mul_le_mono_nonneg; lia. Qed.

Lemma mul_correct x y : 0 <= x < 2 ^ 64 -> 0 <= y < 2 ^ 64 -> Rz (gl_mul x y) (x * y).
Proof.
  intros Hx Hy. unfold gl_mul. pose proof (mul_range x y Hx Hy) as Hm.
  step. destruct (reduce128_correct (x * y)) as (r & E & Hr & C); [lia|].
  rewrite E. step. exists r; auto.
Qed.

Lemma square_correct x : 0 <= x < 2 ^ 64 -> Rz (gl_square x) (x * x).
Proof. intros. apply mul_correct; auto. Qed.

Lemma mac_correct a x y : 0 <= a < 2 ^ 64 -> 0 <= x < 2 ^ 64 -> 0 <= y < 2 ^ 64 ->
  Rz (gl_multiply_accumulate a x y) (a + x * y).
Proof.
  intros Ha Hx Hy. unfold gl_multiply_accumulate. pose proof (mul_range x y Hx Hy) as Hm.
  repeat step. destruct (reduce128_correct (a + x * y)) as (r & E & Hr & C); [lia|].
  rewrite E. step. exists r; auto.
Qed.

Lemma neg_correct x : 0 <= x < 2 ^ 64 -> Rz (gl_neg x) (- x).
Proof.
  intros Hx. unfold gl_neg, gl_is_zero. rewrite to_canonical_spec by auto. repeat step.
  assert (Hm : 0 <= x mod P < P) by (apply Z.mod_pos_bound; zl).
  destruct (Z.eqb_spec (x mod P) 0) as [E|E].
  - repeat step. exists 0. split; [reflexivity|]. split; [lia|].
    rewrite Z.mod_0_l by zl. symmetry.
    replace (- x) with (- (x mod P) + (- (x / P)) * P).
    2:{ pose proof (Z.div_mod x P). lia. }
    rewrite Z.mod_add by zl. rewrite E. reflexivity.
  - repeat step.
    eexists. split; [reflexivity|]. split; [zl|].
    apply modP_eq with (1 + x / P). pose proof (Z.div_mod x P). zl.
Qed.

(* preconditions of the two `unsafe` canonical-operand helpers are necessary *)
Lemma add_canonical_u64_correct x y : 0 <= x < 2 ^ 64 -> 0 <= y < P ->
  Rz (gl_add_canonical_u64 x y) (x + y).
Proof.
  intros Hx Hy. unfold gl_add_canonical_u64, ovf_addU.
  destruct (Z_lt_le_dec (x + y) (2 ^ 64)) as [H|H].
  - rewrite inU_true, wrapU_small by zl. cbn [negb]. rewrite b2z_false. repeat step.
    eexists. split; [reflexivity|]. split; [lia|]. f_equal. lia.
  - rewrite inU_false, wrapU_over by zl. cbn [negb]. rewrite b2z_true. repeat step.
    eexists. split; [reflexivity|]. split; [zl|]. apply modP_eq with (-1). zl.
Qed.

Lemma add_canonical_u64_refuted_without_precondition :
  exists x y, 0 <= x < 2 ^ 64 /\ 0 <= y < 2 ^ 64 /\ gl_add_canonical_u64 x y = None.
Proof. exists (2 ^ 64 - 1), (2 ^ 64 - 1). split; [lia|]. split; [lia|]. vm_compute. reflexivity. Qed.

Lemma sub_canonical_u64_correct x y : 0 <= x < 2 ^ 64 -> 0 <= y < P ->
  Rz (gl_sub_canonical_u64 x y) (x - y).
Proof.
  intros Hx Hy. unfold gl_sub_canonical_u64, ovf_subU.
  destruct (Z_lt_le_dec (x - y) 0) as [H|H].
  - rewrite inU_false, wrapU_under by zl. cbn [negb]. rewrite b2z_true. repeat step.
    eexists. split; [reflexivity|]. split; [zl|]. apply modP_eq with 1. zl.
  - rewrite inU_true, wrapU_small by zl. cbn [negb]. rewrite b2z_false. repeat step.
    eexists. split; [reflexivity|]. split; [lia|]. f_equal. lia.
Qed.

Lemma sub_canonical_u64_refuted_without_precondition :
  exists x y, 0 <= x < 2 ^ 64 /\ 0 <= y < 2 ^ 64 /\ gl_sub_canonical_u64 x y = None.
Proof. exists 0, (2 ^ 64 - 1). split; [lia|]. split; [lia|]. vm_compute. reflexivity. Qed.

Lemma from_noncanonical_i64_correct n : - 2 ^ 63 <= n < 2 ^ 63 ->
  exists r, gl_from_noncanonical_i64 n = Some r /\ 0 <= r < P /\ r mod P = n mod P.
Proof.
  intros Hn. unfold gl_from_noncanonical_i64.
  destruct (Z.ltb_spec n 0) as [H|H].
  - rewrite (wrapU_under 64 n) by lia. rewrite wrapU_over by zl. repeat step.
    eexists. split; [reflexivity|]. split; [zl|]. apply modP_eq with 1. zl.
  - rewrite wrapU_small by lia. repeat step.
    eexists. split; [reflexivity|]. split; [zl|]. reflexivity.
Qed.
