(* C15 proofs, part 2: the FFT model (Model/FFT.v) computes the discrete Fourier transform, for
   every size 2^k and every field with a principal 2^k-th root of unity.
   Part A (this section): the algebra - even/odd split of Horner evaluation, the butterfly
   identity, inversion of the transform - over lists, no model involved. *)
From Coq Require Import NArith List Lia Bool Arith Ring Field.
From Verif Require Import Base.Field Base.Poly Model.FieldGeneric Model.BitRev Model.FFT Proofs.BitRev.
Import ListNotations.
Local Open Scope field_scope.

Section Algebra.
  Context {F : Type} {FO : FieldOps F} {FL : @FieldLaws F FO}.
  Add Field Ff : (@F_field_theory F FO FL).

  (* ---- even / odd sub-sequences *)
  Fixpoint evens {X} (l : list X) : list X :=
    match l with
    | [] => []
    | a :: t => a :: match t with [] => [] | _ :: t' => evens t' end
    end.
  Definition odds {X} (l : list X) : list X := evens (tl l).

  Lemma evens_cons2 {X} (a b : X) t : evens (a :: b :: t) = a :: evens t.
  Proof. reflexivity. Qed.
  Lemma odds_cons2 {X} (a b : X) t : odds (a :: b :: t) = b :: odds t.
  Proof. unfold odds. cbn [tl]. destruct t; reflexivity. Qed.

  Lemma list_ind2 {X} (P : list X -> Prop) :
    P [] -> (forall a, P [a]) -> (forall a b t, P t -> P (a :: b :: t)) -> forall l, P l.
  Proof.
    intros H0 H1 H2. fix IH 1. intros [|a [|b t]]; [exact H0 | exact (H1 a) | exact (H2 a b t (IH t))].
  Qed.

  Lemma evens_odds_length {X} (l : list X) n : length l = (2 * n)%nat ->
    length (evens l) = n /\ length (odds l) = n.
  Proof.
    revert n. induction l as [| a | a b t IH] using list_ind2; intros n H.
    - cbn in *. split; lia.
    - cbn in H. lia.
    - rewrite evens_cons2, odds_cons2. cbn [length] in *.
      destruct n as [|n]; [lia|]. destruct (IH n ltac:(lia)). split; lia.
  Qed.

  Lemma nth_evens {X} (l : list X) d : forall m, nth m (evens l) d = nth (2 * m) l d.
  Proof.
    induction l as [| a | a b t IH] using list_ind2; intros m.
    - destruct m; reflexivity.
    - destruct m as [|m]; [reflexivity|]. cbn [evens]. replace (2 * S m)%nat with (S (S (2 * m))) by lia.
      cbn [nth]. destruct m; reflexivity.
    - rewrite evens_cons2. destruct m as [|m]; [reflexivity|].
      replace (2 * S m)%nat with (S (S (2 * m))) by lia. cbn [nth]. apply IH.
  Qed.

  Lemma nth_odds {X} (l : list X) d : forall m, nth m (odds l) d = nth (2 * m + 1) l d.
  Proof.
    intros m. unfold odds. rewrite nth_evens. destruct l as [|a t].
    - destruct (2 * m)%nat, (2 * m + 1)%nat; reflexivity.
    - replace (2 * m + 1)%nat with (S (2 * m)) by lia. reflexivity.
  Qed.

  Lemma peval_evens_odds (p : list F) x :
    peval p x = peval (evens p) (x * x) + x * peval (odds p) (x * x).
  Proof.
    induction p as [| a | a b t IH] using list_ind2.
    - cbn. ring.
    - cbn. ring.
    - rewrite evens_cons2, odds_cons2. cbn [peval]. rewrite IH. ring.
  Qed.

  (* ---- pointwise operations *)
  Lemma zip_with_length {X Y Z} (f : X -> Y -> Z) : forall xs ys, length xs = length ys ->
    length (zip_with f xs ys) = length xs.
  Proof. induction xs as [|x xs IH]; intros [|y ys] H; cbn in *; try lia. rewrite IH; lia. Qed.

  Lemma zip_with_length_min {X Y Z} (f : X -> Y -> Z) : forall xs ys,
    length (zip_with f xs ys) = Nat.min (length xs) (length ys).
  Proof. induction xs as [|x xs IH]; intros [|y ys]; cbn; auto. Qed.

  Lemma nth_zip_with {X Y Z} (f : X -> Y -> Z) dx dy dz : forall xs ys i, length xs = length ys ->
    (i < length xs)%nat -> nth i (zip_with f xs ys) dz = f (nth i xs dx) (nth i ys dy).
  Proof.
    induction xs as [|x xs IH]; intros [|y ys] i H Hi; cbn in *; try lia.
    destruct i as [|i]; [reflexivity|]. apply IH; lia.
  Qed.

  Lemma peval_zip_add : forall p q x, length p = length q ->
    peval (zip_with fadd p q) x = peval p x + peval q x.
  Proof.
    induction p as [|a p IH]; intros [|b q] x H; cbn in *; try lia; [ring|].
    rewrite IH by lia. ring.
  Qed.

  Lemma peval_zip_sub : forall p q x, length p = length q ->
    peval (zip_with fsub p q) x = peval p x - peval q x.
  Proof.
    induction p as [|a p IH]; intros [|b q] x H; cbn in *; try lia; [ring|].
    rewrite IH by lia. ring.
  Qed.

  Lemma powers_from_length (c b : F) : forall n, length (powers_from c b n) = n.
  Proof. intros n. revert c. induction n; intros; cbn; auto. Qed.

  Lemma nth_powers_from (b : F) : forall n c i d, (i < n)%nat -> nth i (powers_from c b n) d = c * fpow b i.
  Proof.
    induction n as [|n IH]; intros c i d Hi; [lia|].
    destruct i as [|i]; cbn [powers_from nth fpow]; [ring|].
    rewrite IH by lia. ring.
  Qed.

  Lemma nth_error_powers (b : F) n i : (i < n)%nat -> nth_error (powers b n) i = Some (fpow b i).
  Proof.
    intros Hi. unfold powers.
    rewrite (nth_error_nth' _ 0) by (rewrite powers_from_length; exact Hi).
    rewrite nth_powers_from by exact Hi. f_equal. ring.
  Qed.

  (* scaling the coefficients by c * s^j = substituting s * x *)
  Lemma peval_twiddle_from (s : F) : forall p c x,
    peval (zip_with fmul (powers_from c s (length p)) p) x = c * peval p (s * x).
  Proof.
    induction p as [|a p IH]; intros c x; cbn [length powers_from zip_with peval]; [ring|].
    rewrite IH. ring.
  Qed.

  Lemma peval_twiddle (s : F) p x : peval (zip_with fmul (powers s (length p)) p) x = peval p (s * x).
  Proof. unfold powers. rewrite peval_twiddle_from. ring. Qed.

  Lemma peval_twiddle_r_from (s : F) : forall p c x,
    peval (zip_with fmul p (powers_from c s (length p))) x = c * peval p (s * x).
  Proof.
    induction p as [|a p IH]; intros c x; cbn [length powers_from zip_with peval]; [ring|].
    rewrite IH. ring.
  Qed.

  Lemma peval_map_scale c p x : peval (map (fun y => y * c) p) x = peval p x * c.
  Proof. induction p as [|a p IH]; cbn [map peval]; [ring|]. rewrite IH. ring. Qed.

  Lemma peval_app_zeros p n x : peval (p ++ repeat 0 n) x = peval p x.
  Proof.
    rewrite peval_app. rewrite (peval_pzero (repeat 0 n)); [ring|].
    unfold pzero. apply Forall_forall. intros y Hy. apply repeat_spec in Hy. exact Hy.
  Qed.

  (* ---- roots of unity *)
  Definition is_root (w : F) (k : nat) : Prop :=
    fpow w (2 ^ k) = 1 /\ (forall k', k = S k' -> fpow w (2 ^ k') = - (1)).

  Lemma fpow_sq (w : F) m : fpow (w * w) m = fpow w (2 * m).
  Proof. rewrite fpow_mul_base, <- fpow_add. f_equal. lia. Qed.

  Lemma is_root_sq w k : is_root w (S k) -> is_root (w * w) k.
  Proof.
    intros [H1 H2]. split.
    - rewrite fpow_sq. replace (2 * 2 ^ k)%nat with (2 ^ S k)%nat by (cbn; lia). exact H1.
    - intros k' ->. rewrite fpow_sq. replace (2 * 2 ^ k')%nat with (2 ^ S k')%nat by (cbn; lia).
      apply (H2 (S k')). reflexivity.
  Qed.

  (* the transform: evaluation at the powers of w, in natural order *)
  Definition dft (w : F) (cs : list F) : list F :=
    map (fun j => peval cs (fpow w j)) (seq 0 (length cs)).

  Lemma dft_length w cs : length (dft w cs) = length cs.
  Proof. unfold dft. rewrite map_length, seq_length. reflexivity. Qed.

  Lemma nth_dft w cs j d : (j < length cs)%nat -> nth j (dft w cs) d = peval cs (fpow w j).
  Proof.
    intros Hj. unfold dft.
    rewrite (nth_indep _ d (peval cs (fpow w 0))) by (rewrite map_length, seq_length; exact Hj).
    rewrite (map_nth (fun j => peval cs (fpow w j)) (seq 0 (length cs)) 0%nat j).
    rewrite seq_nth by exact Hj. reflexivity.
  Qed.

  Lemma list_ext_nth {X} (l1 l2 : list X) d : length l1 = length l2 ->
    (forall i, (i < length l1)%nat -> nth i l1 d = nth i l2 d) -> l1 = l2.
  Proof.
    revert l2. induction l1 as [|x l1 IH]; intros [|y l2] Hl H; cbn in *; try lia; [reflexivity|].
    f_equal.
    - apply (H O). lia.
    - apply IH; [lia|]. intros i Hi. apply (H (S i)). lia.
  Qed.

  (* the butterfly identity: DFT_w(cs) = (E + T) ++ (E - T),
     E = DFT_{w^2}(evens cs), T_j = w^j * DFT_{w^2}(odds cs)_j *)
  Definition twiddled (w : F) (O : list F) : list F := zip_with fmul (powers w (length O)) O.

  Lemma twiddled_length w O : length (twiddled w O) = length O.
  Proof. unfold twiddled. rewrite zip_with_length; unfold powers; rewrite powers_from_length; reflexivity. Qed.

  Lemma nth_twiddled w O j : (j < length O)%nat -> nth j (twiddled w O) 0 = fpow w j * nth j O 0.
  Proof.
    intros Hj. unfold twiddled.
    rewrite (nth_zip_with fmul 0 0 0); [| unfold powers; apply powers_from_length | unfold powers; rewrite powers_from_length; exact Hj ].
    unfold powers. rewrite nth_powers_from by exact Hj. ring.
  Qed.

  Lemma dft_split w cs k : is_root w (S k) -> length cs = (2 ^ S k)%nat ->
    let E := dft (w * w) (evens cs) in
    let T := twiddled w (dft (w * w) (odds cs)) in
    dft w cs = zip_with fadd E T ++ zip_with fsub E T.
  Proof.
    intros Hw Hlen E T.
    destruct (evens_odds_length cs (2 ^ k) ltac:(rewrite Hlen; cbn; lia)) as [Le Lo].
    assert (LE : length E = (2 ^ k)%nat) by (unfold E; rewrite dft_length; exact Le).
    assert (LT : length T = (2 ^ k)%nat) by (unfold T; rewrite twiddled_length, dft_length; exact Lo).
    apply (list_ext_nth _ _ 0).
    - rewrite dft_length, app_length, !zip_with_length by lia. rewrite Hlen. cbn. lia.
    - rewrite dft_length. intros i Hi. rewrite nth_dft by exact Hi.
      rewrite (peval_evens_odds cs (fpow w i)).
      assert (Esq : fpow w i * fpow w i = fpow (w * w) i) by (rewrite fpow_mul_base; reflexivity).
      destruct (Nat.lt_ge_cases i (2 ^ k)) as [Hlt|Hge].
      + rewrite app_nth1 by (rewrite zip_with_length; lia).
        rewrite (nth_zip_with fadd 0 0 0) by lia.
        unfold T. rewrite nth_twiddled by (rewrite dft_length; lia).
        unfold E. rewrite !nth_dft by lia. rewrite Esq. reflexivity.
      + rewrite app_nth2 by (rewrite zip_with_length; lia). rewrite zip_with_length by lia. rewrite LE.
        set (j := (i - 2 ^ k)%nat). assert (Hj : (j < 2 ^ k)%nat) by (unfold j; rewrite Hlen in Hi; cbn in Hi; lia).
        rewrite (nth_zip_with fsub 0 0 0) by lia.
        unfold T. rewrite nth_twiddled by (rewrite dft_length; lia).
        unfold E. rewrite !nth_dft by lia.
        assert (Ei : fpow w i = - fpow w j).
        { replace i with (2 ^ k + j)%nat by (unfold j; lia). rewrite fpow_add.
          destruct Hw as [_ Hw2]. rewrite (Hw2 k eq_refl). ring. }
        rewrite Ei. replace (- fpow w j * - fpow w j) with (fpow (w * w) j) by (rewrite fpow_mul_base; ring).
        ring.
  Qed.

  (* ---- inversion: DFT_{w'}(DFT_w(cs)) = 2^k * cs when w * w' = 1 *)
  Fixpoint two_pow_f (k : nat) : F := match k with O => 1 | S k' => (1 + 1) * two_pow_f k' end.

  Lemma fpow_inv_pair (w w' : F) m : w * w' = 1 -> fpow w m * fpow w' m = 1.
  Proof. intros H. rewrite <- fpow_mul_base, H. apply fpow_1_l. Qed.

  Lemma is_root_inv w w' k : w * w' = 1 -> is_root w k -> is_root w' k.
  Proof.
    intros H [H1 H2]. split.
    - pose proof (fpow_inv_pair w w' (2 ^ k) H) as E. rewrite H1 in E. rewrite <- E. ring.
    - intros k' Hk. pose proof (fpow_inv_pair w w' (2 ^ k') H) as E. rewrite (H2 k' Hk) in E.
      assert (fpow w' (2 ^ k') = - (- (1) * fpow w' (2 ^ k'))) by ring. rewrite E in H0. exact H0.
  Qed.

  Lemma fpow_neg1_even m : fpow (- (1)) (2 * m) = 1.
  Proof. rewrite fpow_mul. replace (fpow (- (1)) 2) with 1 by (cbn; ring). apply fpow_1_l. Qed.

  Lemma dft_inv : forall k w w' cs, w * w' = 1 -> is_root w k -> length cs = (2 ^ k)%nat ->
    dft w' (dft w cs) = map (fun c => two_pow_f k * c) cs.
  Proof.
    induction k as [|k IH]; intros w w' cs Hinv Hw Hlen.
    - destruct cs as [|c [|? ?]]; cbn in Hlen; try lia. cbn. f_equal. ring.
    - pose proof (is_root_inv w w' (S k) Hinv Hw) as Hw'.
      destruct (evens_odds_length cs (2 ^ k) ltac:(rewrite Hlen; cbn; lia)) as [Le Lo].
      assert (Hinv2 : (w * w) * (w' * w') = 1) by (transitivity ((w * w') * (w * w')); [ring|rewrite Hinv; ring]).
      pose proof (IH (w * w) (w' * w') (evens cs) Hinv2 (is_root_sq w k Hw) Le) as IHe.
      pose proof (IH (w * w) (w' * w') (odds cs) Hinv2 (is_root_sq w k Hw) Lo) as IHo.
      rewrite (dft_split w cs k Hw Hlen).
      set (E := dft (w * w) (evens cs)) in *. set (O := dft (w * w) (odds cs)) in *.
      set (T := twiddled w O).
      assert (LE : length E = (2 ^ k)%nat) by (unfold E; rewrite dft_length; exact Le).
      assert (LO : length O = (2 ^ k)%nat) by (unfold O; rewrite dft_length; exact Lo).
      assert (LT : length T = (2 ^ k)%nat) by (unfold T; rewrite twiddled_length; exact LO).
      assert (LV : length (zip_with fadd E T ++ zip_with fsub E T) = (2 ^ S k)%nat).
      { rewrite app_length, !zip_with_length by lia. cbn. lia. }
      apply (list_ext_nth _ _ 0).
      + rewrite dft_length, map_length. lia.
      + rewrite dft_length, LV. intros m Hm.
        rewrite nth_dft by lia.
        rewrite (nth_indep _ 0 (two_pow_f (S k) * 0)) by (rewrite map_length; lia).
        rewrite (map_nth (fun c => two_pow_f (S k) * c) cs 0 m).
        set (x := fpow w' m).
        rewrite peval_app, peval_zip_add, peval_zip_sub by lia. rewrite zip_with_length by lia. rewrite LE.
        assert (HT : peval T x = peval O (w * x)) by (unfold T, twiddled; apply peval_twiddle).
        rewrite HT.
        (* x^(2^k) = (-1)^m *)
        assert (Hx : fpow x (2 ^ k) = fpow (- (1)) m).
        { unfold x. rewrite <- fpow_mul, Nat.mul_comm, fpow_mul. destruct Hw' as [_ H2]. rewrite (H2 k eq_refl). reflexivity. }
        rewrite Hx.
        destruct (Nat.even m) eqn:Ev.
        * apply Nat.even_spec in Ev. destruct Ev as [m' ->].
          rewrite fpow_neg1_even.
          assert (Hm' : (m' < 2 ^ k)%nat) by (cbn in Hm; lia).
          assert (Ex : x = fpow (w' * w') m') by (unfold x; rewrite fpow_sq; reflexivity).
          assert (EE : peval E x = two_pow_f k * nth m' (evens cs) 0).
          { rewrite Ex. rewrite <- (nth_dft (w' * w') E m' 0) by lia. rewrite IHe.
            rewrite (nth_indep _ 0 (two_pow_f k * 0)) by (rewrite map_length; lia).
            rewrite (map_nth (fun c => two_pow_f k * c) (evens cs) 0 m'). reflexivity. }
          rewrite nth_evens in EE. cbn [two_pow_f]. rewrite EE.
          transitivity ((1 + 1) * (two_pow_f k * nth (2 * m') cs 0)); ring.
        * assert (Od : Nat.odd m = true) by (unfold Nat.odd; rewrite Ev; reflexivity).
          apply Nat.odd_spec in Od. destruct Od as [m' ->].
          assert (Hm' : (m' < 2 ^ k)%nat) by (cbn in Hm; lia).
          replace (fpow (- (1)) (2 * m' + 1)) with (- (1)).
          2:{ rewrite fpow_add, fpow_neg1_even. cbn. ring. }
          assert (Ex : w * x = fpow (w' * w') m').
          { unfold x. rewrite fpow_add, <- fpow_sq. cbn [fpow].
            transitivity ((w * w') * fpow (w' * w') m'); [ring|]. rewrite Hinv. ring. }
          assert (EO : peval O (w * x) = two_pow_f k * nth m' (odds cs) 0).
          { rewrite Ex. rewrite <- (nth_dft (w' * w') O m' 0) by lia. rewrite IHo.
            rewrite (nth_indep _ 0 (two_pow_f k * 0)) by (rewrite map_length; lia).
            rewrite (map_nth (fun c => two_pow_f k * c) (odds cs) 0 m'). reflexivity. }
          rewrite nth_odds in EO. cbn [two_pow_f]. rewrite EO. ring.
  Qed.
End Algebra.

(* ------------------------------------------------------------------------------------------
   Part B: the bit-reversed list as a recursive even/odd split *)
Section BRL.
  Context {X : Type}.

  Fixpoint brl (k : nat) (l : list X) : list X :=
    match k with O => l | S k' => brl k' (evens l) ++ brl k' (odds l) end.

  Lemma brl_length : forall k l, length l = (2 ^ k)%nat -> length (brl k l) = (2 ^ k)%nat.
  Proof.
    induction k as [|k IH]; intros l Hl; [exact Hl|].
    destruct (evens_odds_length l (2 ^ k) ltac:(rewrite Hl; cbn; lia)) as [Le Lo].
    cbn [brl]. rewrite app_length, !IH by assumption. cbn. lia.
  Qed.

  Lemma nth_brl : forall k (l : list X) d i, length l = (2 ^ k)%nat -> (i < 2 ^ k)%nat ->
    nth i (brl k l) d = nth (N.to_nat (bitrev k (N.of_nat i))) l d.
  Proof.
    induction k as [|k IH]; intros l d i Hl Hi.
    - cbn in Hi. assert (i = 0)%nat by lia. subst. reflexivity.
    - destruct (evens_odds_length l (2 ^ k) ltac:(rewrite Hl; cbn; lia)) as [Le Lo].
      assert (HiN : (N.of_nat i < 2 ^ N.of_nat (S k))%N).
      { rewrite <- pow2_N. cbn [Nat.pow] in Hi |- *. lia. }
      rewrite (bitrev_S_top k (N.of_nat i) HiN). cbn [brl].
      assert (Hp : (2 ^ N.of_nat k)%N = N.of_nat (2 ^ k)) by (symmetry; apply pow2_N).
      destruct (Nat.lt_ge_cases i (2 ^ k)) as [Hlt|Hge].
      + rewrite app_nth1 by (rewrite brl_length; assumption).
        rewrite IH by assumption. rewrite nth_evens.
        rewrite N.mod_small, N.div_small by lia. f_equal. lia.
      + rewrite app_nth2 by (rewrite brl_length; assumption). rewrite brl_length by assumption.
        assert (Hj : (i - 2 ^ k < 2 ^ k)%nat) by (cbn in Hi; lia).
        rewrite IH by assumption. rewrite nth_odds.
        assert (Em : (N.of_nat i mod 2 ^ N.of_nat k = N.of_nat (i - 2 ^ k))%N).
        { symmetry. apply N.mod_unique with (q := 1%N); lia. }
        assert (Ed : (N.of_nat i / 2 ^ N.of_nat k = 1)%N).
        { symmetry. apply N.div_unique with (r := N.of_nat (i - 2 ^ k)); lia. }
        rewrite Em, Ed. f_equal. lia.
  Qed.

  (* a list that satisfies the pointwise bit-reversal specification is [brl] *)
  Lemma brl_of_spec (arr res : list X) k : length arr = (2 ^ k)%nat -> length res = length arr ->
    (forall i, (i < 2 ^ N.of_nat k)%N -> getN res i = getN arr (bitrev k i)) -> res = brl k arr.
  Proof.
    intros Hl Hr H.
    destruct arr as [|d arr']; [cbn in Hl; pose proof (Nat.pow_nonzero 2 k); lia|].
    set (arr := d :: arr') in *.
    apply (list_ext_nth _ _ d); [rewrite brl_length; lia|].
    intros i Hi. rewrite Hr, Hl in Hi. rewrite nth_brl by assumption.
    assert (HiN : (N.of_nat i < 2 ^ N.of_nat k)%N) by (rewrite <- pow2_N; lia).
    specialize (H (N.of_nat i) HiN). unfold getN in H. rewrite Nat2N.id in H.
    pose proof (bitrev_lt k (N.of_nat i)) as Hb. rewrite <- pow2_N in Hb.
    rewrite (nth_error_nth' res d) in H by lia.
    rewrite (nth_error_nth' arr d) in H by lia. injection H as H. exact H.
  Qed.
End BRL.

(* ------------------------------------------------------------------------------------------
   Part C: the butterfly layers of fft_classic *)
Section Layers.
  Context {F : Type} {FO : FieldOps F} {FL : @FieldLaws F FO}.
  Add Field Ff2 : (@F_field_theory F FO FL).

  Lemma butterflies_spec : forall (omega us vs : list F), length us = length vs -> (length us <= length omega)%nat ->
    butterflies omega us vs =
    Some (zip_with fadd us (zip_with fmul omega vs), zip_with fsub us (zip_with fmul omega vs)).
  Proof.
    induction omega as [|w om IH]; intros [|u us] [|v vs] Hl Ho; cbn in *; try lia; try reflexivity.
    rewrite IH by lia. reflexivity.
  Qed.

  Lemma butterflies_short : forall (omega us vs : list F), length us = length vs -> (length omega < length us)%nat ->
    butterflies omega us vs = None.
  Proof.
    induction omega as [|w om IH]; intros [|u us] [|v vs] Hl Ho; cbn in *; try lia; try reflexivity.
    rewrite IH by lia. reflexivity.
  Qed.

  Lemma zip_with_ext_prefix {X Y Z} (f : X -> Y -> Z) d : forall (ys : list Y) (xs xs' : list X),
    (length ys <= length xs)%nat -> (length ys <= length xs')%nat ->
    (forall j, (j < length ys)%nat -> nth j xs d = nth j xs' d) ->
    zip_with f xs ys = zip_with f xs' ys.
  Proof.
    induction ys as [|y ys IH]; intros [|x xs] [|x' xs'] L1 L2 H; cbn in *; try lia; try reflexivity.
    f_equal.
    - f_equal. apply (H O). lia.
    - apply IH; try lia. intros j Hj. apply (H (S j)). lia.
  Qed.

  (* the block loop with an explicit block count instead of fuel *)
  Fixpoint layer_n (b hm : nat) (row values : list F) : option (list F) :=
    match b with
    | O => match values with [] => Some [] | _ => None end
    | S b' =>
      let us := firstn hm values in
      let rest := skipn hm values in
      let vs := firstn hm rest in
      let rest' := skipn hm rest in
      match butterflies row us vs with
      | None => None
      | Some (a, b) =>
        match layer_n b' hm row rest' with
        | None => None
        | Some t => Some (a ++ b ++ t)
        end
      end
    end.

  Lemma layer_blocks_eq_n hm row : (1 <= hm)%nat -> forall b fuel values,
    length values = (b * (2 * hm))%nat -> (b <= fuel)%nat ->
    layer_blocks fuel hm row values = layer_n b hm row values.
  Proof.
    intros Hhm. induction b as [|b IH]; intros fuel values Hl Hf.
    - destruct values; [|cbn in Hl; lia]. destruct fuel; reflexivity.
    - destruct fuel as [|fuel]; [lia|].
      destruct values as [|v values]; [cbn in Hl; lia|].
      cbn [layer_blocks layer_n].
      rewrite (IH fuel); [reflexivity| |lia].
      rewrite !skipn_length, Hl. lia.
  Qed.

  Lemma layer_n_app hm row : forall b1 b2 x y, length x = (b1 * (2 * hm))%nat ->
    layer_n (b1 + b2) hm row (x ++ y) =
    match layer_n b1 hm row x, layer_n b2 hm row y with Some a, Some b => Some (a ++ b) | _, _ => None end.
  Proof.
    induction b1 as [|b1 IH]; intros b2 x y Hl.
    - destruct x; [|cbn in Hl; lia]. cbn [plus app layer_n]. destruct (layer_n b2 hm row y); reflexivity.
    - change (S b1 + b2)%nat with (S (b1 + b2)). cbn [layer_n].
      assert (H1 : firstn hm (x ++ y) = firstn hm x).
      { rewrite firstn_app. replace (hm - length x)%nat with 0%nat by lia. cbn. apply app_nil_r. }
      assert (H2 : skipn hm (x ++ y) = skipn hm x ++ y).
      { rewrite skipn_app. replace (hm - length x)%nat with 0%nat by lia. reflexivity. }
      assert (L2 : length (skipn hm x) = (hm + b1 * (2 * hm))%nat) by (rewrite skipn_length; lia).
      assert (H3 : firstn hm (skipn hm x ++ y) = firstn hm (skipn hm x)).
      { rewrite firstn_app. replace (hm - length (skipn hm x))%nat with 0%nat by lia. cbn. apply app_nil_r. }
      assert (H4 : skipn hm (skipn hm x ++ y) = skipn hm (skipn hm x) ++ y).
      { rewrite skipn_app. replace (hm - length (skipn hm x))%nat with 0%nat by lia. reflexivity. }
      rewrite H1, H2, H3, H4.
      destruct (butterflies row (firstn hm x) (firstn hm (skipn hm x))) as [[a b]|]; [|reflexivity].
      rewrite IH by (rewrite skipn_length; lia).
      destruct (layer_n b1 hm row (skipn hm (skipn hm x))) as [t|]; [|reflexivity].
      destruct (layer_n b2 hm row y) as [t2|]; [|reflexivity].
      rewrite <- !app_assoc. reflexivity.
  Qed.

  Lemma layer_n_length hm row : forall b values r, length values = (b * (2 * hm))%nat ->
    layer_n b hm row values = Some r -> length r = length values.
  Proof.
    induction b as [|b IH]; intros values r Hl E.
    - destruct values; [|cbn in Hl; lia]. cbn in E. inversion E. reflexivity.
    - cbn [layer_n] in E.
      set (us := firstn hm values) in *. set (rest := skipn hm values) in *.
      set (vs := firstn hm rest) in *. set (rest' := skipn hm rest) in *.
      assert (Lus : length us = hm) by (unfold us; rewrite firstn_length; lia).
      assert (Lrest : length rest = (hm + b * (2 * hm))%nat) by (unfold rest; rewrite skipn_length; lia).
      assert (Lvs : length vs = hm) by (unfold vs; rewrite firstn_length; lia).
      assert (Lr' : length rest' = (b * (2 * hm))%nat) by (unfold rest'; rewrite skipn_length; lia).
      destruct (Nat.le_gt_cases (length us) (length row)) as [Hle|Hgt].
      + rewrite butterflies_spec in E by lia.
        destruct (layer_n b hm row rest') as [t|] eqn:Et; [|discriminate].
        inversion E; subst r. rewrite !app_length. rewrite (IH rest' t Lr' Et).
        rewrite !zip_with_length_min. lia.
      + rewrite butterflies_short in E by lia. discriminate.
  Qed.
End Layers.

Section LayersDFT.
  Context {F : Type} {FO : FieldOps F} {FL : @FieldLaws F FO}.
  Add Field Ff3 : (@F_field_theory F FO FL).

  (* the rows 0..k-1 of a root table hold the powers of the 2^(i+1)-th roots derived from w *)
  Definition rows_ok (w : F) (k : nat) (table : list (list F)) : Prop :=
    forall i, (i < k)%nat ->
      exists row, nth_error table i = Some row /\ (2 ^ i <= length row)%nat /\
                  forall j, (j < 2 ^ i)%nat -> nth j row 0 = fpow w (2 ^ (k - 1 - i) * j).

  Lemma rows_ok_sq w k table : rows_ok w (S k) table -> rows_ok (w * w) k table.
  Proof.
    intros H i Hi. destruct (H i ltac:(lia)) as [row [Hr [Hl Hj]]].
    exists row. split; [exact Hr|]. split; [exact Hl|].
    intros j Hjj. rewrite Hj by exact Hjj. rewrite fpow_sq. f_equal.
    replace (S k - 1 - i)%nat with (S (k - 1 - i)) by lia. cbn [Nat.pow]. lia.
  Qed.

  Lemma fft_layer_n table values i k row : nth_error table i = Some row -> (i < k)%nat ->
    length values = (2 ^ k)%nat ->
    fft_layer table values i = layer_n (2 ^ (k - 1 - i)) (2 ^ i) row values.
  Proof.
    intros Hr Hi Hl. unfold fft_layer. rewrite Hr. cbn [bind].
    assert (E : (2 ^ k = 2 ^ (k - 1 - i) * (2 * 2 ^ i))%nat).
    { replace k with ((k - 1 - i) + S i)%nat at 1 by lia. rewrite Nat.pow_add_r. cbn [Nat.pow]. lia. }
    apply layer_blocks_eq_n.
    - pose proof (Nat.pow_nonzero 2 i). lia.
    - rewrite Hl. exact E.
    - rewrite Hl, E. pose proof (Nat.pow_nonzero 2 i). nia.
  Qed.

  Lemma fft_layer_length table values i k r : (i < k)%nat -> length values = (2 ^ k)%nat ->
    fft_layer table values i = Some r -> length r = length values.
  Proof.
    intros Hi Hl E. destruct (nth_error table i) as [row|] eqn:Hr.
    - rewrite (fft_layer_n table values i k row Hr Hi Hl) in E.
      eapply layer_n_length; [|exact E].
      rewrite Hl. replace k with ((k - 1 - i) + S i)%nat at 1 by lia. rewrite Nat.pow_add_r. cbn [Nat.pow]. lia.
    - unfold fft_layer in E. rewrite Hr in E. discriminate.
  Qed.

  Lemma fft_layer_app table x y i k : (i < k)%nat -> length x = (2 ^ k)%nat -> length y = (2 ^ k)%nat ->
    fft_layer table (x ++ y) i =
    match fft_layer table x i, fft_layer table y i with Some a, Some b => Some (a ++ b) | _, _ => None end.
  Proof.
    intros Hi Lx Ly. destruct (nth_error table i) as [row|] eqn:Hr.
    - rewrite (fft_layer_n table (x ++ y) i (S k) row Hr ltac:(lia)) by (rewrite app_length; cbn; lia).
      rewrite (fft_layer_n table x i k row Hr Hi Lx), (fft_layer_n table y i k row Hr Hi Ly).
      replace (S k - 1 - i)%nat with (S (k - 1 - i)) by lia. cbn [Nat.pow].
      replace (2 * 2 ^ (k - 1 - i))%nat with (2 ^ (k - 1 - i) + 2 ^ (k - 1 - i))%nat by lia.
      apply layer_n_app.
      rewrite Lx. replace k with ((k - 1 - i) + S i)%nat at 1 by lia. rewrite Nat.pow_add_r. cbn [Nat.pow]. lia.
    - unfold fft_layer. rewrite Hr. reflexivity.
  Qed.

  Lemma layers_app table k : forall (ls : list nat) x y, (forall i, In i ls -> (i < k)%nat) ->
    length x = (2 ^ k)%nat -> length y = (2 ^ k)%nat ->
    foldM (fft_layer table) ls (x ++ y) =
    match foldM (fft_layer table) ls x, foldM (fft_layer table) ls y with
    | Some a, Some b => Some (a ++ b) | _, _ => None end.
  Proof.
    induction ls as [|i ls IH]; intros x y Hin Lx Ly; cbn [foldM]; [reflexivity|].
    rewrite (fft_layer_app table x y i k) by (auto; apply Hin; left; reflexivity).
    destruct (fft_layer table x i) as [a|] eqn:Ea.
    - destruct (fft_layer table y i) as [b|] eqn:Eb.
      + apply IH.
        * intros; apply Hin; right; auto.
        * rewrite (fft_layer_length table x i k a) by (auto; apply Hin; left; reflexivity). exact Lx.
        * rewrite (fft_layer_length table y i k b) by (auto; apply Hin; left; reflexivity). exact Ly.
      + destruct (foldM (fft_layer table) ls a); reflexivity.
    - reflexivity.
  Qed.

  Lemma layers_length table k : forall (ls : list nat) x r, (forall i, In i ls -> (i < k)%nat) ->
    length x = (2 ^ k)%nat -> foldM (fft_layer table) ls x = Some r -> length r = (2 ^ k)%nat.
  Proof.
    induction ls as [|i ls IH]; intros x r Hin Lx E; cbn [foldM] in E.
    - inversion E; subst; exact Lx.
    - destruct (fft_layer table x i) as [a|] eqn:Ea; [|discriminate].
      apply (IH a r); [intros; apply Hin; right; auto| |exact E].
      rewrite (fft_layer_length table x i k a) by (auto; apply Hin; left; reflexivity). exact Lx.
  Qed.

  (* the last layer: one block, the butterfly identity *)
  Lemma last_layer w k table cs : is_root w (S k) -> rows_ok w (S k) table -> length cs = (2 ^ S k)%nat ->
    fft_layer table (dft (w * w) (evens cs) ++ dft (w * w) (odds cs)) k = Some (dft w cs).
  Proof.
    intros Hw Hrows Hlen.
    destruct (evens_odds_length cs (2 ^ k) ltac:(rewrite Hlen; cbn; lia)) as [Le Lo].
    set (E := dft (w * w) (evens cs)). set (O := dft (w * w) (odds cs)).
    assert (LE : length E = (2 ^ k)%nat) by (unfold E; rewrite dft_length; exact Le).
    assert (LO : length O = (2 ^ k)%nat) by (unfold O; rewrite dft_length; exact Lo).
    destruct (Hrows k ltac:(lia)) as [row [Hr [Hl Hj]]].
    rewrite (fft_layer_n table (E ++ O) k (S k) row Hr ltac:(lia)) by (rewrite app_length; cbn; lia).
    replace (S k - 1 - k)%nat with 0%nat by lia. cbn [Nat.pow layer_n].
    rewrite firstn_app, LE, Nat.sub_diag. cbn [firstn]. rewrite app_nil_r.
    rewrite (firstn_all2 (n := (2 ^ k)%nat) E) by lia.
    rewrite skipn_app, LE, Nat.sub_diag. cbn [skipn]. rewrite (skipn_all2 (n := (2 ^ k)%nat) E) by lia.
    cbn [app]. rewrite (firstn_all2 (n := (2 ^ k)%nat) O) by lia. rewrite (skipn_all2 (n := (2 ^ k)%nat) O) by lia.
    rewrite butterflies_spec by lia. cbn [layer_n]. rewrite app_nil_r. f_equal.
    rewrite (dft_split w cs k Hw Hlen). fold E. fold O.
    assert (ET : zip_with fmul row O = twiddled w O).
    { unfold twiddled. apply (zip_with_ext_prefix fmul 0); [lia| unfold powers; rewrite powers_from_length; lia |].
      intros j Hjj. rewrite Hj by lia. unfold powers. rewrite nth_powers_from by lia.
      replace (S k - 1 - k)%nat with 0%nat by lia. cbn [Nat.pow]. rewrite Nat.mul_1_l. ring. }
    rewrite ET. reflexivity.
  Qed.

  (* all k layers applied to the bit-reversed coefficient list compute the transform *)
  Theorem layers_dft : forall k w table cs, is_root w k -> rows_ok w k table -> length cs = (2 ^ k)%nat ->
    foldM (fft_layer table) (seq 0 k) (brl k cs) = Some (dft w cs).
  Proof.
    induction k as [|k IH]; intros w table cs Hw Hrows Hlen.
    - destruct cs as [|c [|? ?]]; cbn in Hlen; try lia. cbn. f_equal. f_equal. ring.
    - destruct (evens_odds_length cs (2 ^ k) ltac:(rewrite Hlen; cbn; lia)) as [Le Lo].
      rewrite seq_S, foldM_app. cbn [brl plus].
      rewrite (layers_app table k) by (try apply brl_length; auto; intros i Hi; apply in_seq in Hi; lia).
      rewrite (IH (w * w) table (evens cs) (is_root_sq w k Hw) (rows_ok_sq w k table Hrows) Le).
      rewrite (IH (w * w) table (odds cs) (is_root_sq w k Hw) (rows_ok_sq w k table Hrows) Lo).
      cbn [foldM]. rewrite (last_layer w k table cs Hw Hrows Hlen). reflexivity.
  Qed.
End LayersDFT.

(* ------------------------------------------------------------------------------------------
   Part D: the model functions of Model/FFT.v *)
(* what the theorems assume about the `Field` constants: POWER_OF_TWO_GENERATOR is a principal
   2^TWO_ADICITY-th root of unity and inverse_2exp(k) is the inverse of 2^k *)
Class TwoAdicLaws (F : Type) {FO : FieldOps F} {TA : TwoAdic F} : Prop := {
  ta_generator_root : is_root ta_generator ta_two_adicity;
  ta_inverse_2exp_ok : forall k, (k <= ta_two_adicity)%nat -> ta_inverse_2exp k * two_pow_f k = 1;
}.

Section ModelFFT.
  Context {F : Type} {FO : FieldOps F} {FL : @FieldLaws F FO} {TA : TwoAdic F}.
  Add Field Ff4 : (@F_field_theory F FO FL).

  Lemma exp_power_of_2_fpow : forall k (x : F), exp_power_of_2 x k = fpow x (2 ^ k).
  Proof.
    induction k as [|k IH]; intros x; cbn [exp_power_of_2 Nat.pow].
    - cbn. ring.
    - rewrite IH. unfold fsquare. apply fpow_sq.
  Qed.

  Lemma nth_error_squares : forall len (b : F) i, (i < len)%nat -> nth_error (squares b len) i = Some (fpow b (2 ^ i)).
  Proof.
    induction len as [|len IH]; intros b i Hi; [lia|].
    destruct i as [|i]; cbn [squares nth_error].
    - f_equal. cbn. ring.
    - rewrite IH by lia. f_equal. unfold fsquare. rewrite fpow_sq. reflexivity.
  Qed.

  Lemma log2_strict_nat_pow2 k : log2_strict_nat (2 ^ N.of_nat k) = Some k.
  Proof. unfold log2_strict_nat. rewrite log2_strict_pow2. cbn. rewrite Nat2N.id. reflexivity. Qed.

  Lemma log2_strict_nat_len {X} (l : list X) k : length l = (2 ^ k)%nat -> log2_strict_nat (lenN l) = Some k.
  Proof. intros H. rewrite (lenN_pow2 l k H). apply log2_strict_nat_pow2. Qed.

  (* the generator of the 2^k-subgroup the code uses *)
  Definition prou (k : nat) : F := fpow ta_generator (2 ^ (ta_two_adicity - k)).

  Lemma primitive_root_of_unity_some k : (k <= ta_two_adicity)%nat -> primitive_root_of_unity k = Some (prou k).
  Proof.
    intros Hk. unfold primitive_root_of_unity.
    destruct (Nat.ltb ta_two_adicity k) eqn:E; [apply Nat.ltb_lt in E; lia|].
    rewrite exp_power_of_2_fpow. reflexivity.
  Qed.

  Lemma primitive_root_of_unity_none k : (ta_two_adicity < k)%nat -> primitive_root_of_unity k = None.
  Proof.
    intros Hk. unfold primitive_root_of_unity. apply Nat.ltb_lt in Hk. rewrite Hk. reflexivity.
  Qed.

  Lemma prou_is_root {TL : TwoAdicLaws F} k : (k <= ta_two_adicity)%nat -> is_root (prou k) k.
  Proof.
    intros Hk. destruct ta_generator_root as [H1 H2]. unfold prou. split.
    - rewrite <- fpow_mul, <- Nat.pow_add_r. replace (ta_two_adicity - k + k)%nat with ta_two_adicity by lia. exact H1.
    - intros k' ->. rewrite <- fpow_mul, <- Nat.pow_add_r.
      destruct ta_two_adicity as [|t] eqn:ET; [lia|].
      replace (S t - S k' + k')%nat with t by lia. apply H2. reflexivity.
  Qed.

  Lemma prou_sq k : (S k <= ta_two_adicity)%nat -> prou (S k) * prou (S k) = prou k.
  Proof.
    intros Hk. unfold prou. rewrite <- fpow_add. f_equal.
    replace (ta_two_adicity - k)%nat with (S (ta_two_adicity - S k)) by lia. cbn. lia.
  Qed.

  (* fft_root_table(2^k) has k rows holding the powers of the sub-roots *)
  Lemma fft_root_table_spec k : (k <= ta_two_adicity)%nat ->
    exists table, fft_root_table (2 ^ N.of_nat k) = Some table /\ length table = k /\ rows_ok (prou k) k table.
  Proof.
    intros Hk. unfold fft_root_table. rewrite log2_strict_nat_pow2. cbn [bind].
    rewrite primitive_root_of_unity_some by exact Hk. cbn [bind].
    set (w := prou k). set (bases := squares w (Nat.max 1 k)).
    set (f := fun lg_m : nat => bind (nth_error bases (k - lg_m)) (fun b => Some (powers b (Nat.max (2 ^ (lg_m - 1)) 2)))).
    assert (Hf : forall lg_m, (1 <= lg_m <= k)%nat ->
                 f lg_m = Some (powers (fpow w (2 ^ (k - lg_m))) (Nat.max (2 ^ (lg_m - 1)) 2))).
    { intros lg_m Hm. unfold f, bases. rewrite nth_error_squares by lia. reflexivity. }
    destruct (mapM_some f (seq 1 k)) as [table [Ht [Hl Hn]]].
    { intros x Hx. apply in_seq in Hx. rewrite Hf by lia. discriminate. }
    exists table. split; [exact Ht|]. split; [rewrite Hl, seq_length; reflexivity|].
    intros i Hi.
    assert (Hs : nth_error (seq 1 k) i = Some (S i)).
    { rewrite (nth_error_nth' _ 0%nat) by (rewrite seq_length; lia). rewrite seq_nth by lia. reflexivity. }
    specialize (Hn i (S i) Hs). rewrite Hf in Hn by lia.
    eexists. split; [exact Hn|].
    replace (S i - 1)%nat with i by lia.
    split.
    - unfold powers. rewrite powers_from_length. lia.
    - intros j Hj. unfold powers. rewrite nth_powers_from by lia.
      rewrite <- fpow_mul. replace (k - S i)%nat with (k - 1 - i)%nat by lia. ring.
  Qed.

  Lemma fft_root_table_none_big k : (ta_two_adicity < k)%nat -> fft_root_table (2 ^ N.of_nat k) = None.
  Proof.
    intros Hk. unfold fft_root_table. rewrite log2_strict_nat_pow2. cbn [bind].
    rewrite primitive_root_of_unity_none by exact Hk. reflexivity.
  Qed.

  (* ---- fft_classic without zero tail *)
  Lemma in_place_brl k (cs : list F) : (k < 64)%nat -> length cs = (2 ^ k)%nat ->
    reverse_index_bits_in_place ta_size_of cs = Some (brl k cs).
  Proof.
    intros Hok Hlen. destruct (in_place_ok_all ta_size_of k Hok F cs Hlen) as [res [E [L G]]].
    rewrite E. f_equal. apply brl_of_spec; assumption.
  Qed.

  Theorem fft_classic_spec : forall (k : nat) (w : F) (table : FftRootTable) (cs : list F),
    (k < 64)%nat -> is_root w k -> rows_ok w k table -> length table = k ->
    length cs = (2 ^ k)%nat ->
    fft_classic cs 0 table = Some (dft w cs).
  Proof.
    intros k w table cs Hok Hw Hrows Ht Hlen. unfold fft_classic.
    rewrite (in_place_brl k cs Hok Hlen). cbn [bind].
    rewrite (log2_strict_nat_len (brl k cs) k) by (apply brl_length; exact Hlen). cbn [bind].
    rewrite Ht, Nat.eqb_refl. cbn [negb bind Nat.ltb Nat.leb]. rewrite Nat.sub_0_r.
    apply layers_dft; assumption.
  Qed.

  (* a root table of the wrong length is refused (the panic of fft_classic) *)
  Theorem fft_classic_wrong_table_length : forall (k r : nat) (table : FftRootTable) (cs : list F),
    (k < 64)%nat -> length cs = (2 ^ k)%nat -> length table <> k -> fft_classic cs r table = None.
  Proof.
    intros k r table cs Hok Hlen Ht. unfold fft_classic.
    rewrite (in_place_brl k cs Hok Hlen). cbn [bind].
    rewrite (log2_strict_nat_len (brl k cs) k) by (apply brl_length; exact Hlen). cbn [bind].
    apply Nat.eqb_neq in Ht. rewrite Ht. reflexivity.
  Qed.
End ModelFFT.

(* ------------------------------------------------------------------------------------------
   Part E: fft / ifft *)
Section FFTandIFFT.
  Context {F : Type} {FO : FieldOps F} {FL : @FieldLaws F FO} {TA : TwoAdic F}.
  Add Field Ff5 : (@F_field_theory F FO FL).
  Open Scope N_scope.

  (* the reversal-and-scale loop of ifft_with_options *)
  Definition ifft_step (n : N) (n_inv : F) (buffer : list F) (i : N) : option (list F) :=
    let j := n - i in
    bind (getN buffer j) (fun bj => bind (getN buffer i) (fun bi =>
      Some (setN (setN buffer i (bj * n_inv)%F) j (bi * n_inv)%F))).

  Definition ifft_inv_state (n : N) (n_inv : F) (buf0 buf : list F) (s : N) : Prop :=
    length buf = length buf0 /\
    forall m, m < n ->
      getN buf m = if ((1 <=? m) && (m <? s)) || ((n - s <? m) && (m <=? n - 1))
                   then option_map (fun y => (y * n_inv)%F) (getN buf0 (n - m)) else getN buf0 m.

  Lemma ifft_loop n n_inv (buf0 : list F) : lenN buf0 = n -> forall (d : nat) ,
    let s := 1 + N.of_nat d in s <= N.max 1 (n / 2) ->
    exists buf, foldM (ifft_step n n_inv) (range 1 s) buf0 = Some buf /\ ifft_inv_state n n_inv buf0 buf s.
  Proof.
    intros Hn. induction d as [|d IH]; intros s Hs.
    - subst s. change (1 + N.of_nat 0) with 1. rewrite range_nil. exists buf0. split; [reflexivity|].
      split; [reflexivity|]. intros m Hm.
      replace ((1 <=? m) && (m <? 1)) with false by (symmetry; apply andb_false_iff; destruct (N.eq_dec m 0); [left; apply N.leb_gt; lia|right; apply N.ltb_ge; lia]).
      replace ((n - 1 <? m) && (m <=? n - 1)) with false by (symmetry; apply andb_false_iff; destruct (N.le_gt_cases m (n - 1)); [left; apply N.ltb_ge; lia|right; apply N.leb_gt; lia]).
      reflexivity.
    - set (s0 := 1 + N.of_nat d) in *.
      assert (Es : s = s0 + 1) by (subst s s0; lia).
      destruct (IH ltac:(lia)) as [buf [E [L St]]].
      rewrite Es, range_snoc by lia. rewrite foldM_app, E. cbn [foldM].
      assert (Hs0 : s0 < n / 2) by lia.
      assert (Hn2 : 2 * (n / 2) <= n) by (apply N.mul_div_le; lia).
      assert (Lb : lenN buf = n) by (unfold lenN in *; rewrite L; exact Hn).
      unfold ifft_step.
      pose proof (St (n - s0) ltac:(lia)) as G1. pose proof (St s0 ltac:(lia)) as G2.
      replace ((1 <=? n - s0) && (n - s0 <? s0)) with false in G1 by (symmetry; apply andb_false_iff; right; apply N.ltb_ge; lia).
      replace ((n - s0 <? n - s0) && (n - s0 <=? n - 1)) with false in G1 by (symmetry; apply andb_false_iff; left; apply N.ltb_ge; lia).
      replace ((1 <=? s0) && (s0 <? s0)) with false in G2 by (symmetry; apply andb_false_iff; right; apply N.ltb_ge; lia).
      replace ((n - s0 <? s0) && (s0 <=? n - 1)) with false in G2 by (symmetry; apply andb_false_iff; left; apply N.ltb_ge; lia).
      cbn [orb] in G1, G2.
      destruct (getN_lt buf0 (n - s0) ltac:(lia)) as [xj Hxj]. destruct (getN_lt buf0 s0 ltac:(lia)) as [xi Hxi].
      rewrite G1, Hxj, G2, Hxi. cbn [bind].
      eexists. split; [reflexivity|]. split; [rewrite !setN_length; exact L|].
      intros m Hm.
      destruct (N.eq_dec m (n - s0)) as [->|Hne1].
      + rewrite getN_setN_eq by (rewrite lenN_setN; lia).
        replace ((n - (s0 + 1) <? n - s0) && (n - s0 <=? n - 1)) with true
          by (symmetry; apply andb_true_iff; split; [apply N.ltb_lt|apply N.leb_le]; lia).
        rewrite orb_true_r. replace (n - (n - s0)) with s0 by lia. rewrite Hxi. reflexivity.
      + rewrite getN_setN_neq by auto.
        destruct (N.eq_dec m s0) as [->|Hne2].
        * rewrite getN_setN_eq by lia.
          replace ((1 <=? s0) && (s0 <? s0 + 1)) with true
            by (symmetry; apply andb_true_iff; split; [apply N.leb_le|apply N.ltb_lt]; lia).
          cbn [orb]. rewrite Hxj. reflexivity.
        * rewrite getN_setN_neq by auto. rewrite St by exact Hm.
          assert (B1 : (1 <=? m) && (m <? s0 + 1) = (1 <=? m) && (m <? s0)).
          { f_equal. destruct (m <? s0) eqn:E1; [apply N.ltb_lt in E1; apply N.ltb_lt; lia|apply N.ltb_ge in E1; apply N.ltb_ge; lia]. }
          assert (B2 : (n - (s0 + 1) <? m) && (m <=? n - 1) = (n - s0 <? m) && (m <=? n - 1)).
          { f_equal. destruct (n - s0 <? m) eqn:E1; [apply N.ltb_lt in E1; apply N.ltb_lt; lia|apply N.ltb_ge in E1; apply N.ltb_ge; lia]. }
          rewrite B1, B2. reflexivity.
  Qed.
End FFTandIFFT.

Section IFFT.
  Context {F : Type} {FO : FieldOps F} {FL : @FieldLaws F FO} {TA : TwoAdic F}.
  Add Field Ff6 : (@F_field_theory F FO FL).

  Lemma getN_dft (w : F) cs m : (m < lenN cs)%N -> getN (dft w cs) m = Some (peval cs (fpow w (N.to_nat m))).
  Proof.
    intros Hm. unfold getN, lenN in *.
    rewrite (nth_error_nth' _ 0) by (rewrite dft_length; lia).
    rewrite nth_dft by lia. reflexivity.
  Qed.

  Lemma getN_map {X Y} (g : X -> Y) l m : getN (map g l) m = option_map g (getN l m).
  Proof. unfold getN. apply nth_error_map. Qed.

  Definition root_inv (w : F) (k : nat) : F := fpow w (2 ^ k - 1).

  Lemma root_inv_ok w k : is_root w k -> w * root_inv w k = 1.
  Proof.
    intros [H1 _]. unfold root_inv. change (w * fpow w (2 ^ k - 1)) with (fpow w (S (2 ^ k - 1))).
    pose proof (Nat.pow_nonzero 2 k). replace (S (2 ^ k - 1)) with (2 ^ k)%nat by lia. exact H1.
  Qed.

  Lemma root_inv_pow w k m : is_root w k -> (m < 2 ^ k)%nat ->
    fpow w ((2 ^ k - m) mod 2 ^ k) = fpow (root_inv w k) m.
  Proof.
    intros [H1 _] Hm. unfold root_inv. rewrite <- fpow_mul.
    destruct m as [|m].
    - rewrite Nat.sub_0_r, Nat.mod_same by (apply Nat.pow_nonzero; lia). rewrite Nat.mul_0_r. reflexivity.
    - rewrite Nat.mod_small by lia.
      replace ((2 ^ k - 1) * S m)%nat with (2 ^ k * m + (2 ^ k - S m))%nat by nia.
      rewrite fpow_add, fpow_mul, H1, fpow_1_l. ring.
  Qed.

  (* the inverse transform in terms of the forward one, whatever options produced the forward values *)
  Lemma ifft_of_dispatch k (w : F) (P : list F) zf rt :
    is_root w k -> length P = (2 ^ k)%nat -> (k = 0%nat -> ta_inverse_2exp 0 = 1) ->
    fft_dispatch P zf rt = Some (dft w P) ->
    ifft_with_options P zf rt = Some (map (fun y => y * ta_inverse_2exp k) (dft (root_inv w k) P)).
  Proof.
    intros Hw Hlen Hk0 Hd. unfold ifft_with_options.
    rewrite (log2_strict_nat_len P k Hlen). cbn [bind]. rewrite Hd. cbn [bind].
    set (ninv := ta_inverse_2exp k). set (V := dft w P). set (n := lenN P).
    assert (Hn : n = (2 ^ N.of_nat k)%N) by (apply lenN_pow2; exact Hlen).
    assert (LV : lenN V = n) by (unfold V, lenN; rewrite dft_length; reflexivity).
    assert (Hn1 : (1 <= n)%N) by (rewrite Hn; pose proof (N.pow_nonzero 2 (N.of_nat k)); lia).
    destruct (getN_lt V 0%N ltac:(lia)) as [v0 Hv0]. rewrite Hv0. cbn [bind].
    set (b1 := setN V 0%N (v0 * ninv)).
    assert (L1 : lenN b1 = n) by (unfold b1; rewrite lenN_setN; exact LV).
    assert (Hh : (n / 2 < n)%N) by (apply N.div_lt; lia).
    destruct (getN_lt b1 (n / 2)%N ltac:(lia)) as [vh Hvh]. rewrite Hvh. cbn [bind].
    set (b2 := setN b1 (n / 2)%N (vh * ninv)).
    assert (L2 : lenN b2 = n) by (unfold b2; rewrite lenN_setN; exact L1).
    destruct k as [|k].
    - (* n = 1 *)
      change (N.of_nat 0) with 0%N in Hn. cbn in Hn. rewrite Hn. change (1 / 2)%N with 0%N.
      change (range 1 0) with (@nil N). cbn [foldM]. f_equal.
      rewrite Hn in *. change (1 / 2)%N with 0%N in *. unfold b2, b1 in *.
      rewrite getN_setN_eq in Hvh by lia. inversion Hvh; subst vh.
      destruct P as [|p [|? ?]]; cbn in Hlen; try lia.
      unfold V in *. cbn in Hv0. inversion Hv0; subst v0. cbn.
      unfold ninv. rewrite (Hk0 eq_refl). f_equal. ring.
    - (* n >= 2 *)
      assert (Hn2 : (2 * (n / 2) = n)%N).
      { rewrite Hn, Nat2N.inj_succ, N.pow_succ_r'. rewrite (N.mul_comm 2 (2 ^ N.of_nat k)), N.div_mul by lia. lia. }
      assert (Hh1 : (1 <= n / 2)%N).
      { rewrite Hn, Nat2N.inj_succ, N.pow_succ_r'. rewrite (N.mul_comm 2 (2 ^ N.of_nat k)), N.div_mul by lia.
        pose proof (N.pow_nonzero 2 (N.of_nat k)). lia. }
      destruct (ifft_loop n ninv b2 L2 (N.to_nat (n / 2 - 1))) as [buf [E [L St]]]; [lia|].
      replace (1 + N.of_nat (N.to_nat (n / 2 - 1)))%N with (n / 2)%N in E, St by lia.
      fold (ifft_step n ninv). rewrite E. f_equal.
      apply getN_ext.
      + rewrite L, map_length, dft_length. unfold b2, b1. rewrite !setN_length. unfold V. apply dft_length.
      + intros m Hm. assert (Hmn : (m < n)%N) by (unfold lenN in *; rewrite L in Hm; unfold lenN in L2; lia).
        rewrite St by exact Hmn. rewrite getN_map, getN_dft by exact Hmn. cbn [option_map].
        assert (Hmnat : (N.to_nat m < 2 ^ S k)%nat) by (rewrite Hn, <- pow2_N in Hmn; lia).
        rewrite <- (root_inv_pow w (S k) (N.to_nat m) Hw Hmnat).
        assert (Hnnat : N.to_nat n = (2 ^ S k)%nat) by (rewrite Hn, <- pow2_N; lia).
        (* value of V at an index *)
        assert (GV : forall t, (t < n)%N -> getN V t = Some (peval P (fpow w (N.to_nat t)))) by (intros; apply getN_dft; auto).
        assert (Gb2 : forall t, (t < n)%N -> t <> 0%N -> t <> (n / 2)%N -> getN b2 t = getN V t).
        { intros t Ht H0 H2. unfold b2, b1. rewrite !getN_setN_neq by auto. reflexivity. }
        destruct (N.eq_dec m 0) as [->|Hm0].
        * replace ((1 <=? 0)%N && (0 <? n / 2)%N || (n - n / 2 <? 0)%N && (0 <=? n - 1)%N) with false
            by (symmetry; apply orb_false_iff; split; apply andb_false_iff; left; [apply N.leb_gt|apply N.ltb_ge]; lia).
          unfold b2. rewrite getN_setN_neq by lia. unfold b1. rewrite getN_setN_eq by lia.
          rewrite GV in Hv0 by lia. inversion Hv0; subst v0.
          change (N.to_nat 0) with 0%nat. rewrite Nat.sub_0_r, Nat.mod_same by (apply Nat.pow_nonzero; lia).
          reflexivity.
        * destruct (N.eq_dec m (n / 2)) as [->|Hmh].
          -- replace ((1 <=? n / 2)%N && (n / 2 <? n / 2)%N || (n - n / 2 <? n / 2)%N && (n / 2 <=? n - 1)%N) with false
               by (symmetry; apply orb_false_iff; split; apply andb_false_iff; [right|left]; apply N.ltb_ge; lia).
             unfold b2. rewrite getN_setN_eq by lia.
             unfold b1 in Hvh. rewrite getN_setN_neq in Hvh by lia. rewrite GV in Hvh by lia. inversion Hvh; subst vh.
             rewrite Nat.mod_small by lia.
             replace (2 ^ S k - N.to_nat (n / 2))%nat with (N.to_nat (n / 2)) by lia. reflexivity.
          -- replace ((1 <=? m)%N && (m <? n / 2)%N || (n - n / 2 <? m)%N && (m <=? n - 1)%N) with true.
             2:{ symmetry. apply orb_true_iff. destruct (N.lt_ge_cases m (n / 2)).
                 - left. apply andb_true_iff. split; [apply N.leb_le|apply N.ltb_lt]; lia.
                 - right. apply andb_true_iff. split; [apply N.ltb_lt|apply N.leb_le]; lia. }
             rewrite Gb2 by lia. rewrite GV by lia. cbn [option_map].
             rewrite Nat.mod_small by lia.
             replace (2 ^ S k - N.to_nat m)%nat with (N.to_nat (n - m)) by lia. reflexivity.
  Qed.
End IFFT.

(* ------------------------------------------------------------------------------------------
   Part F: the zero-tail shortcut *)
Section ZeroTail.
  Context {F : Type} {FO : FieldOps F} {FL : @FieldLaws F FO} {TA : TwoAdic F}.
  Add Field Ff7 : (@F_field_theory F FO FL).

  (* values[i] = values[i & mask]: every block of 2^r entries is filled with its first entry *)
  Definition copy_spec (r : nat) (l : list F) : list F :=
    map (fun i => nth (i - i mod 2 ^ r) l 0) (seq 0 (length l)).

  Lemma copy_spec_length r l : length (copy_spec r l) = length l.
  Proof. unfold copy_spec. rewrite map_length, seq_length. reflexivity. Qed.

  Lemma nth_copy_spec r l i : (i < length l)%nat -> nth i (copy_spec r l) 0 = nth (i - i mod 2 ^ r) l 0.
  Proof.
    intros Hi. unfold copy_spec.
    rewrite (nth_indep _ 0 (nth (0 - 0 mod 2 ^ r) l 0)) by (rewrite map_length, seq_length; exact Hi).
    rewrite (map_nth (fun i => nth (i - i mod 2 ^ r) l 0) (seq 0 (length l)) 0%nat i).
    rewrite seq_nth by exact Hi. reflexivity.
  Qed.

  Lemma copy_spec_app r x y b : length x = (b * 2 ^ r)%nat ->
    copy_spec r (x ++ y) = copy_spec r x ++ copy_spec r y.
  Proof.
    intros Hx. pose proof (Nat.pow_nonzero 2 r ltac:(lia)) as Hp.
    apply (list_ext_nth _ _ 0).
    - rewrite app_length, !copy_spec_length, app_length. reflexivity.
    - rewrite copy_spec_length. intros i Hi. rewrite nth_copy_spec by exact Hi.
      pose proof (Nat.mod_upper_bound i (2 ^ r) Hp) as Hm.
      destruct (Nat.lt_ge_cases i (length x)) as [Hlt|Hge].
      + rewrite (app_nth1 (copy_spec r x)) by (rewrite copy_spec_length; exact Hlt). rewrite nth_copy_spec by exact Hlt.
        rewrite app_nth1 by lia. reflexivity.
      + rewrite (app_nth2 (copy_spec r x)) by (rewrite copy_spec_length; exact Hge). rewrite copy_spec_length.
        rewrite app_length in Hi. rewrite nth_copy_spec by lia.
        assert (Em : (i mod 2 ^ r = (i - length x) mod 2 ^ r)%nat).
        { replace i with ((i - length x) + b * 2 ^ r)%nat at 1 by lia. apply Nat.mod_add. exact Hp. }
        rewrite app_nth2.
        * f_equal. rewrite Em. pose proof (Nat.mod_le (i - length x) (2 ^ r) Hp). lia.
        * rewrite Em. pose proof (Nat.mod_le (i - length x) (2 ^ r) Hp). lia.
  Qed.

  Lemma ldiff_mask (s : N) (r : nat) :
    N.ldiff s (N.shiftl 1 (N.of_nat r) - 1) = (s - s mod 2 ^ N.of_nat r)%N.
  Proof.
    replace (N.shiftl 1 (N.of_nat r) - 1)%N with (N.ones (N.of_nat r)).
    2:{ rewrite N.ones_equiv, N.shiftl_1_l, N.pred_sub. reflexivity. }
    rewrite N.ldiff_ones_r, N.shiftl_mul_pow2, N.shiftr_div_pow2.
    pose proof (N.div_mod' s (2 ^ N.of_nat r)) as Hd.
    pose proof (N.mod_le s (2 ^ N.of_nat r) ltac:(apply N.pow_nonzero; lia)) as Hm.
    rewrite (N.mul_comm (s / 2 ^ N.of_nat r)). lia.
  Qed.

  Definition copy_step (m : N) (vals : list F) (i : N) : option (list F) :=
    bind (getN vals (N.ldiff i m)) (fun v => Some (setN vals i v)).

  Lemma copy_loop (v0 : list F) (r : nat) : forall (s : nat), (N.of_nat s <= lenN v0)%N ->
    exists buf, foldM (copy_step (N.shiftl 1 (N.of_nat r) - 1)) (range 0 (N.of_nat s)) v0 = Some buf /\
                length buf = length v0 /\
                forall m, (m < lenN v0)%N ->
                  getN buf m = if (m <? N.of_nat s)%N then getN v0 (m - m mod 2 ^ N.of_nat r)%N else getN v0 m.
  Proof.
    induction s as [|s IH]; intros Hs.
    - exists v0. change (N.of_nat 0) with 0%N. rewrite range_nil. split; [reflexivity|]. split; [reflexivity|].
      intros m Hm. destruct (m <? 0)%N eqn:E; [apply N.ltb_lt in E; lia|reflexivity].
    - destruct (IH ltac:(lia)) as [buf [E [L G]]].
      rewrite Nat2N.inj_succ, <- N.add_1_r, range_snoc by lia. rewrite foldM_app, E. cbn [foldM].
      set (sN := N.of_nat s) in *. unfold copy_step. rewrite ldiff_mask.
      set (s' := (sN - sN mod 2 ^ N.of_nat r)%N).
      assert (Hp : (2 ^ N.of_nat r <> 0)%N) by (apply N.pow_nonzero; lia).
      assert (Hs' : (s' <= sN)%N) by (unfold s'; apply N.le_sub_l).
      assert (Hs'm : (s' mod 2 ^ N.of_nat r = 0)%N).
      { unfold s'. pose proof (N.div_mod' sN (2 ^ N.of_nat r)) as Hd.
        pose proof (N.mod_le sN (2 ^ N.of_nat r) Hp) as Hml.
        assert (Eq : (sN - sN mod 2 ^ N.of_nat r = sN / 2 ^ N.of_nat r * 2 ^ N.of_nat r)%N)
          by (rewrite (N.mul_comm (sN / 2 ^ N.of_nat r)); lia).
        rewrite Eq. apply N.mod_mul. exact Hp. }
      assert (Lb : lenN buf = lenN v0) by (unfold lenN; rewrite L; reflexivity).
      assert (Gs' : getN buf s' = getN v0 s').
      { rewrite G by lia. destruct (s' <? sN)%N eqn:E1; [|reflexivity]. rewrite Hs'm, N.sub_0_r. reflexivity. }
      rewrite Gs'. destruct (getN_lt v0 s' ltac:(lia)) as [x Hx]. rewrite Hx. cbn [bind].
      eexists. split; [reflexivity|]. split; [rewrite setN_length; exact L|].
      intros m Hm. destruct (N.eq_dec m sN) as [->|Hne].
      + rewrite getN_setN_eq by lia.
        replace (sN <? sN + 1)%N with true by (symmetry; apply N.ltb_lt; lia). fold s'. rewrite Hx. reflexivity.
      + rewrite getN_setN_neq by auto. rewrite G by exact Hm.
        replace (m <? sN + 1)%N with (m <? sN)%N; [reflexivity|].
        destruct (m <? sN)%N eqn:E1; symmetry; [apply N.ltb_lt in E1; apply N.ltb_lt|apply N.ltb_ge in E1; apply N.ltb_ge]; lia.
  Qed.

  Lemma zero_tail_copy_spec (v : list F) r : zero_tail_copy v r = Some (copy_spec r v).
  Proof.
    unfold zero_tail_copy.
    destruct (copy_loop v r (length v) ltac:(unfold lenN; lia)) as [buf [E [L G]]].
    fold (lenN v) in E.
    change (foldM (copy_step (N.shiftl 1 (N.of_nat r) - 1)) (range 0 (lenN v)) v = Some buf) in E.
    unfold copy_step in E. rewrite E. f_equal.
    apply (list_ext_nth _ _ 0); [rewrite copy_spec_length; exact L|].
    intros i Hi. rewrite L in Hi. rewrite nth_copy_spec by exact Hi.
    specialize (G (N.of_nat i) ltac:(unfold lenN; lia)).
    assert (Hlt : (N.of_nat i <? N.of_nat (length v))%N = true) by (apply N.ltb_lt; lia).
    unfold lenN in G. rewrite Hlt in G.
    unfold getN in G. rewrite Nat2N.id in G.
    pose proof (Nat.pow_nonzero 2 r ltac:(lia)) as Hp.
    assert (Ei : N.to_nat (N.of_nat i - N.of_nat i mod 2 ^ N.of_nat r) = (i - i mod 2 ^ r)%nat).
    { rewrite <- pow2_N. rewrite <- Nat2N.inj_mod. lia. }
    rewrite Ei in G. pose proof (Nat.mod_le i (2 ^ r) Hp).
    rewrite (nth_error_nth' buf 0) in G by lia. rewrite (nth_error_nth' v 0) in G by lia.
    injection G as G. exact G.
  Qed.

  Lemma peval_tail_zero : forall (cs : list F) x, (forall i, (1 <= i)%nat -> nth i cs 0 = 0) -> peval cs x = nth 0 cs 0.
  Proof.
    intros [|c cs] x H; [reflexivity|]. cbn [peval nth].
    rewrite (peval_pzero cs); [ring|]. unfold pzero. apply Forall_forall. intros y Hy.
    destruct (In_nth cs y 0 Hy) as [i [Hi E]]. rewrite <- E. apply (H (S i)). lia.
  Qed.

  (* the first r layers on a coefficient vector whose last n - n/2^r entries are zero only copy *)
  Lemma zero_tail_layers : forall k r w table cs, (r <= k)%nat -> is_root w k -> rows_ok w k table ->
    length cs = (2 ^ k)%nat -> (forall i, (2 ^ (k - r) <= i)%nat -> nth i cs 0 = 0) ->
    foldM (fft_layer table) (seq 0 r) (brl k cs) = Some (copy_spec r (brl k cs)).
  Proof.
    induction k as [|k IH]; intros r w table cs Hr Hw Hrows Hlen Hz.
    - assert (r = 0)%nat by lia. subst r. cbn [seq foldM brl]. f_equal.
      apply (list_ext_nth _ _ 0); [rewrite copy_spec_length; reflexivity|].
      intros i Hi. rewrite nth_copy_spec by exact Hi. cbn. f_equal. lia.
    - destruct (Nat.eq_dec r (S k)) as [->|Hne].
      + (* the whole array is one block *)
        rewrite (layers_dft (S k) w table cs Hw Hrows Hlen). f_equal.
        rewrite Nat.sub_diag in Hz. cbn [Nat.pow] in Hz.
        apply (list_ext_nth _ _ 0); [rewrite dft_length, copy_spec_length, brl_length; auto|].
        rewrite dft_length. intros i Hi. rewrite nth_dft by exact Hi.
        rewrite nth_copy_spec by (rewrite brl_length; lia).
        rewrite Nat.mod_small by lia. rewrite Nat.sub_diag.
        rewrite nth_brl by (auto; apply Nat.neq_0_lt_0; apply Nat.pow_nonzero; lia).
        change (N.of_nat 0) with 0%N. rewrite bitrev_zero. change (N.to_nat 0) with 0%nat.
        apply peval_tail_zero. exact Hz.
      + assert (Hr' : (r <= k)%nat) by lia.
        destruct (evens_odds_length cs (2 ^ k) ltac:(rewrite Hlen; cbn; lia)) as [Le Lo].
        cbn [brl].
        rewrite (layers_app table k) by (try apply brl_length; auto; intros i Hi; apply in_seq in Hi; lia).
        assert (Hpow : (2 ^ (S k - r) = 2 * 2 ^ (k - r))%nat).
        { replace (S k - r)%nat with (S (k - r)) by lia. reflexivity. }
        rewrite (IH r (w * w) table (evens cs) Hr' (is_root_sq w k Hw) (rows_ok_sq w k table Hrows) Le).
        2:{ intros i Hi. rewrite nth_evens. apply Hz. lia. }
        rewrite (IH r (w * w) table (odds cs) Hr' (is_root_sq w k Hw) (rows_ok_sq w k table Hrows) Lo).
        2:{ intros i Hi. rewrite nth_odds. apply Hz. lia. }
        f_equal. symmetry. apply (copy_spec_app r _ _ (2 ^ (k - r))).
        rewrite brl_length by exact Le. rewrite <- Nat.pow_add_r. f_equal. lia.
  Qed.

  Theorem fft_classic_zero_tail : forall (k r : nat) (w : F) (table : FftRootTable) (cs : list F),
    (k < 64)%nat -> is_root w k -> rows_ok w k table -> length table = k ->
    length cs = (2 ^ k)%nat -> (r <= k)%nat -> (forall i, (2 ^ (k - r) <= i)%nat -> nth i cs 0 = 0) ->
    fft_classic cs r table = Some (dft w cs).
  Proof.
    intros k r w table cs Hok Hw Hrows Ht Hlen Hr Hz.
    destruct r as [|r]; [apply (fft_classic_spec k); assumption|].
    unfold fft_classic.
    rewrite (in_place_brl k cs Hok Hlen). cbn [bind].
    rewrite (log2_strict_nat_len (brl k cs) k) by (apply brl_length; exact Hlen). cbn [bind].
    rewrite Ht, Nat.eqb_refl. cbn [negb Nat.ltb Nat.leb]. rewrite (zero_tail_copy_spec (brl k cs) (S r)). cbn [bind].
    pose proof (layers_dft k w table cs Hw Hrows Hlen) as HL.
    replace k with (S r + (k - S r))%nat in HL at 1 by lia. rewrite seq_app, foldM_app in HL.
    rewrite (zero_tail_layers k (S r) w table cs Hr Hw Hrows Hlen Hz) in HL.
    cbn [plus] in HL. exact HL.
  Qed.
End ZeroTail.

(* ------------------------------------------------------------------------------------------
   Part G: the public entry points *)
Section Top.
  Context {F : Type} {FO : FieldOps F} {FL : @FieldLaws F FO} {TA : TwoAdic F} {TL : TwoAdicLaws F}.
  Add Field Ff8 : (@F_field_theory F FO FL).

  Definition tail_zero (k r : nat) (cs : list F) : Prop :=
    forall i, (2 ^ (k - r) <= i)%nat -> nth i cs 0 = 0.

  Definition zf_ok (k : nat) (zf : option nat) (cs : list F) : Prop :=
    match zf with None => True | Some r => (r <= k)%nat /\ tail_zero k r cs end.

  Definition rt_ok (k : nat) (rt : option FftRootTable) : Prop :=
    match rt with None => True | Some t => length t = k /\ rows_ok (prou k) k t end.

  (* all options: zero-tail factor with a genuinely zero tail, supplied table of the right shape *)
  Theorem fft_with_options_spec : forall (k : nat) (cs : list F) zf rt,
    (k <= ta_two_adicity)%nat -> (k < 64)%nat -> length cs = (2 ^ k)%nat ->
    zf_ok k zf cs -> rt_ok k rt ->
    fft_with_options cs zf rt = Some (dft (prou k) cs).
  Proof.
    intros k cs zf rt Hk Hok Hlen Hzf Hrt. unfold fft_with_options, fft_dispatch.
    assert (Hw : is_root (prou k) k) by (apply prou_is_root; exact Hk).
    assert (Ht : exists table, (match rt with Some t => Some t | None => fft_root_table (lenN cs) end) = Some table
                               /\ length table = k /\ rows_ok (prou k) k table).
    { destruct rt as [t|].
      - destruct Hrt as [H1 H2]. exists t. auto.
      - rewrite (lenN_pow2 cs k Hlen). apply fft_root_table_spec. exact Hk. }
    destruct Ht as [table [Et [Lt Hrows]]]. rewrite Et. cbn [bind].
    destruct zf as [r|].
    - destruct Hzf as [Hr Hz]. apply (fft_classic_zero_tail k r (prou k)); assumption.
    - apply (fft_classic_spec k (prou k)); assumption.
  Qed.

  Theorem fft_spec : forall (k : nat) (cs : list F),
    (k <= ta_two_adicity)%nat -> (k < 64)%nat -> length cs = (2 ^ k)%nat ->
    fft cs = map (fun i => peval cs (fpow (prou k) i)) (seq 0 (2 ^ k)).
  Proof.
    intros k cs Hk Hok Hlen. unfold fft.
    rewrite (fft_with_options_spec k cs None None Hk Hok Hlen I I). cbn [or_nil].
    unfold dft. rewrite Hlen. reflexivity.
  Qed.

  Theorem fft_zero_tail : forall (k r : nat) (cs : list F),
    (k <= ta_two_adicity)%nat -> (k < 64)%nat -> length cs = (2 ^ k)%nat ->
    (r <= k)%nat -> tail_zero k r cs ->
    fft_with_options cs (Some r) None = fft_with_options cs None None.
  Proof.
    intros k r cs Hk Hok Hlen Hr Hz.
    rewrite (fft_with_options_spec k cs (Some r) None Hk Hok Hlen (conj Hr Hz) I).
    rewrite (fft_with_options_spec k cs None None Hk Hok Hlen I I). reflexivity.
  Qed.

  Theorem root_table_irrelevant : forall (k : nat) (cs : list F) zf (table : FftRootTable),
    (k <= ta_two_adicity)%nat -> (k < 64)%nat -> length cs = (2 ^ k)%nat -> zf_ok k zf cs ->
    length table = k -> rows_ok (prou k) k table ->
    fft_with_options cs zf (Some table) = fft_with_options cs zf None.
  Proof.
    intros k cs zf table Hk Hok Hlen Hzf Lt Hrows.
    rewrite (fft_with_options_spec k cs zf (Some table) Hk Hok Hlen Hzf (conj Lt Hrows)).
    rewrite (fft_with_options_spec k cs zf None Hk Hok Hlen Hzf I). reflexivity.
  Qed.

  (* the table the code computes for size 2^k is accepted *)
  Theorem computed_root_table_ok : forall k, (k <= ta_two_adicity)%nat ->
    exists table, fft_root_table (2 ^ N.of_nat k) = Some table /\ rt_ok k (Some table).
  Proof.
    intros k Hk. destruct (fft_root_table_spec k Hk) as [t [E [L R]]]. exists t. split; [exact E|]. split; assumption.
  Qed.

  Theorem root_table_wrong_length : forall (k : nat) (cs : list F) zf (table : FftRootTable),
    (k < 64)%nat -> length cs = (2 ^ k)%nat -> length table <> k ->
    fft_with_options cs zf (Some table) = None.
  Proof.
    intros k cs zf table Hok Hlen Lt. unfold fft_with_options, fft_dispatch. cbn [bind].
    apply (fft_classic_wrong_table_length k); assumption.
  Qed.

  (* ---- inverse *)
  Definition n_inv (k : nat) : F := ta_inverse_2exp k.
  Definition idft (k : nat) (vs : list F) : list F :=
    map (fun y => y * n_inv k) (dft (root_inv (prou k) k) vs).

  Lemma n_inv_0 : ta_inverse_2exp 0 = 1.
  Proof.
    pose proof (ta_inverse_2exp_ok 0%nat ltac:(lia)) as H. cbn [two_pow_f] in H. rewrite <- H. ring.
  Qed.

  Theorem ifft_with_options_spec : forall (k : nat) (vs : list F) zf rt,
    (k <= ta_two_adicity)%nat -> (k < 64)%nat -> length vs = (2 ^ k)%nat ->
    zf_ok k zf vs -> rt_ok k rt ->
    ifft_with_options vs zf rt = Some (idft k vs).
  Proof.
    intros k vs zf rt Hk Hok Hlen Hzf Hrt.
    apply ifft_of_dispatch.
    - apply prou_is_root. exact Hk.
    - exact Hlen.
    - intros _. apply n_inv_0.
    - apply (fft_with_options_spec k vs zf rt); assumption.
  Qed.

  Lemma idft_length k vs : length (idft k vs) = length vs.
  Proof. unfold idft. rewrite map_length, dft_length. reflexivity. Qed.

  Lemma map_map_id (c d : F) (l : list F) : c * d = 1 -> map (fun y => y * c) (map (fun x => d * x) l) = l.
  Proof.
    intros H. rewrite map_map. rewrite <- (map_id l) at 2. apply map_ext. intros x.
    transitivity ((c * d) * x); [ring|]. rewrite H. ring.
  Qed.

  Lemma idft_dft k cs : (k <= ta_two_adicity)%nat -> length cs = (2 ^ k)%nat -> idft k (dft (prou k) cs) = cs.
  Proof.
    intros Hk Hlen. unfold idft.
    rewrite (dft_inv k (prou k) (root_inv (prou k) k) cs (root_inv_ok _ _ (prou_is_root k Hk)) (prou_is_root k Hk) Hlen).
    apply map_map_id. apply ta_inverse_2exp_ok. exact Hk.
  Qed.

  Lemma dft_map_scale (w c : F) l : dft w (map (fun y => y * c) l) = map (fun y => y * c) (dft w l).
  Proof.
    unfold dft. rewrite map_length, map_map. apply map_ext. intros j. apply peval_map_scale.
  Qed.

  Lemma dft_idft k vs : (k <= ta_two_adicity)%nat -> length vs = (2 ^ k)%nat -> dft (prou k) (idft k vs) = vs.
  Proof.
    intros Hk Hlen. unfold idft. rewrite dft_map_scale.
    pose proof (prou_is_root k Hk) as Hw. pose proof (root_inv_ok _ _ Hw) as Hinv.
    assert (Hinv' : root_inv (prou k) k * prou k = 1) by (rewrite <- Hinv; ring).
    rewrite (dft_inv k (root_inv (prou k) k) (prou k) vs Hinv' (is_root_inv _ _ k Hinv Hw) Hlen).
    apply map_map_id. apply ta_inverse_2exp_ok. exact Hk.
  Qed.

  Theorem ifft_fft : forall (k : nat) (cs : list F),
    (k <= ta_two_adicity)%nat -> (k < 64)%nat -> length cs = (2 ^ k)%nat ->
    ifft (fft cs) = cs.
  Proof.
    intros k cs Hk Hok Hlen. unfold fft, ifft.
    rewrite (fft_with_options_spec k cs None None Hk Hok Hlen I I). cbn [or_nil].
    rewrite (ifft_with_options_spec k _ None None Hk Hok ltac:(rewrite dft_length; exact Hlen) I I). cbn [or_nil].
    apply idft_dft; assumption.
  Qed.

  Theorem fft_ifft : forall (k : nat) (vs : list F),
    (k <= ta_two_adicity)%nat -> (k < 64)%nat -> length vs = (2 ^ k)%nat ->
    fft (ifft vs) = vs.
  Proof.
    intros k vs Hk Hok Hlen. unfold fft, ifft.
    rewrite (ifft_with_options_spec k vs None None Hk Hok Hlen I I). cbn [or_nil].
    rewrite (fft_with_options_spec k _ None None Hk Hok ltac:(rewrite idft_length; exact Hlen) I I). cbn [or_nil].
    apply dft_idft; assumption.
  Qed.

  (* ---- cosets *)
  Lemma dft_twiddled (w s : F) cs :
    dft w (zip_with fmul (powers s (length cs)) cs) = map (fun j => peval cs (s * fpow w j)) (seq 0 (length cs)).
  Proof.
    assert (L : length (zip_with fmul (powers s (length cs)) cs) = length cs).
    { rewrite zip_with_length; unfold powers; rewrite powers_from_length; reflexivity. }
    unfold dft. rewrite L.
    apply map_ext. intros j. apply peval_twiddle.
  Qed.

  Theorem coset_fft_spec : forall (k : nat) (shift : F) (cs : list F),
    (k <= ta_two_adicity)%nat -> (k < 64)%nat -> length cs = (2 ^ k)%nat ->
    coset_fft shift cs = map (fun i => peval cs (shift * fpow (prou k) i)) (seq 0 (2 ^ k)).
  Proof.
    intros k s cs Hk Hok Hlen. unfold coset_fft, coset_fft_with_options.
    rewrite (fft_with_options_spec k _ None None Hk Hok) by
      (cbn; auto; rewrite zip_with_length; unfold powers; rewrite powers_from_length; auto).
    cbn [or_nil]. rewrite dft_twiddled, Hlen. reflexivity.
  Qed.

  Lemma untwiddle (s : F) : s <> 0 -> forall (cs : list F) (c d : F), c * d = 1 ->
    zip_with fmul (zip_with fmul (powers_from c s (length cs)) cs) (powers_from d (finv s) (length cs)) = cs.
  Proof.
    intros Hs. induction cs as [|x cs IH]; intros c d Hcd; cbn [length powers_from zip_with]; [reflexivity|].
    f_equal.
    - transitivity ((c * d) * x); [ring|]. rewrite Hcd. ring.
    - apply IH. transitivity ((c * d) * (s * finv s)); [ring|]. rewrite Hcd, f_inv_r by exact Hs. ring.
  Qed.

  Theorem coset_ifft_coset_fft : forall (k : nat) (shift : F) (cs : list F),
    (k <= ta_two_adicity)%nat -> (k < 64)%nat -> length cs = (2 ^ k)%nat -> shift <> 0 ->
    coset_ifft shift (coset_fft shift cs) = cs.
  Proof.
    intros k s cs Hk Hok Hlen Hs. unfold coset_fft, coset_ifft, coset_fft_with_options, coset_ifft_opt.
    set (tw := zip_with fmul (powers s (length cs)) cs).
    assert (Ltw : length tw = (2 ^ k)%nat).
    { unfold tw. rewrite zip_with_length; unfold powers; rewrite powers_from_length; auto. }
    rewrite (fft_with_options_spec k tw None None Hk Hok Ltw I I). cbn [or_nil].
    rewrite (ifft_with_options_spec k _ None None Hk Hok ltac:(rewrite dft_length; exact Ltw) I I). cbn [bind].
    rewrite (idft_dft k tw Hk Ltw).
    assert (E0 : (s =? 0) = false) by (apply feqb_false; exact Hs). rewrite E0. cbn [or_nil].
    unfold tw. rewrite zip_with_length by (unfold powers; rewrite powers_from_length; reflexivity).
    unfold powers. rewrite powers_from_length. apply untwiddle; [exact Hs|ring].
  Qed.

  (* ---- low-degree extension: the values on the larger domain are evaluations of the polynomial
     [ifft vs], which takes the values [vs] on the small domain *)
  Theorem lde_spec : forall (k rate_bits : nat) (vs : list F),
    (k + rate_bits <= ta_two_adicity)%nat -> (k < 64)%nat -> (k + rate_bits < 64)%nat ->
    length vs = (2 ^ k)%nat ->
    lde rate_bits vs = map (fun i => peval (ifft vs) (fpow (prou (k + rate_bits)) i)) (seq 0 (2 ^ (k + rate_bits)))
    /\ map (fun i => peval (ifft vs) (fpow (prou k) i)) (seq 0 (2 ^ k)) = vs.
  Proof.
    intros k rb vs Hk Hok Hok2 Hlen. split.
    - unfold lde, lde_opt, ifft.
      rewrite (ifft_with_options_spec k vs None None ltac:(lia) Hok Hlen I I). cbn [bind or_nil].
      set (c := idft k vs). assert (Lc : length c = (2 ^ k)%nat) by (unfold c; rewrite idft_length; exact Hlen).
      unfold coeffs_lde, padded. rewrite Lc.
      assert (Hge : Nat.ltb (2 ^ k * 2 ^ rb) (2 ^ k) = false).
      { apply Nat.ltb_ge. pose proof (Nat.pow_nonzero 2 rb ltac:(lia)). nia. }
      rewrite Hge. cbn [bind].
      set (pc := c ++ repeat 0 (2 ^ k * 2 ^ rb - 2 ^ k)).
      assert (Lpc : length pc = (2 ^ (k + rb))%nat).
      { unfold pc. rewrite app_length, repeat_length, Lc, Nat.pow_add_r.
        pose proof (Nat.pow_nonzero 2 rb ltac:(lia)). nia. }
      rewrite (fft_with_options_spec (k + rb) pc (Some rb) None Hk Hok2 Lpc).
      + cbn [or_nil]. unfold dft. rewrite Lpc. apply map_ext. intros i. unfold pc. apply peval_app_zeros.
      + split; [lia|]. intros i Hi. replace (k + rb - rb)%nat with k in Hi by lia.
        unfold pc. rewrite app_nth2 by lia. rewrite Lc.
        destruct (Nat.lt_ge_cases (i - 2 ^ k) (2 ^ k * 2 ^ rb - 2 ^ k)) as [Hlt|Hge2].
        * apply nth_repeat.
        * apply nth_overflow. rewrite repeat_length. exact Hge2.
      + exact I.
    - unfold ifft. rewrite (ifft_with_options_spec k vs None None ltac:(lia) Hok Hlen I I). cbn [or_nil].
      pose proof (dft_idft k vs ltac:(lia) Hlen) as E. unfold dft in E. rewrite idft_length, Hlen in E. exact E.
  Qed.
End Top.
