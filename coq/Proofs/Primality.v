(* Primality of the Goldilocks prime and Fermat's little theorem over Z.
   Final statements use only the Coq standard library (ZArith, Znumtheory).
   mathcomp is used only inside the module [FermatBridge] (not exported). *)

From Coq Require Import ZArith Znumtheory Zpow_facts Lia.
From mathcomp Require all_ssreflect zify.

(* ------------------------------------------------------------------ *)
(* Part 1: bridge to mathcomp's fermat_little                          *)
(* ------------------------------------------------------------------ *)

Module FermatBridge.
Local Set Warnings "-notation-overridden".
Import mathcomp.ssreflect.all_ssreflect mathcomp.zify.zify.

Lemma prime_Z_to_nat (p : Z) :
  Znumtheory.prime p -> prime.prime (Z.to_nat p).
Proof.
move=> pP.
have p2 := prime_ge_2 _ pP.
apply/primeP; split; first by lia.
move=> d /dvdnP [k Hk].
have Hd : (Z.of_nat d | p)%Z.
  exists (Z.of_nat k).
  have -> : p = Z.of_nat (Z.to_nat p) by lia.
  rewrite Hk; lia.
have := prime_divisors _ pP _ Hd.
rewrite /=; lia.
Qed.

Lemma En (x y : nat) :
  (0 < y)%N -> Z.of_nat (x %% y) = (Z.of_nat x mod Z.of_nat y)%Z.
Proof.
move=> y0; apply: (Z.mod_unique _ _ (Z.of_nat (x %/ y))).
- by left; have := ltn_pmod x y0; lia.
- have := divn_eq x y; move: (x %/ y) (x %% y) => q r ->; lia.
Qed.

Lemma Ee (x y : nat) : Z.of_nat (x ^ y) = (Z.of_nat x ^ Z.of_nat y)%Z.
Proof.
elim: y => [|y IH]; first by rewrite expn0.
rewrite expnS Nat2Z.inj_succ Z.pow_succ_r; last by lia.
by rewrite -IH; lia.
Qed.

Lemma fermat_nat_Z (p b : Z) :
  Znumtheory.prime p -> (0 <= b)%Z -> ((b ^ p) mod p = b mod p)%Z.
Proof.
move=> pP b0.
have p2 := prime_ge_2 _ pP.
have := fermat_little (Z.to_nat b) (prime_Z_to_nat p pP).
move=> H.
have Hp : p = Z.of_nat (Z.to_nat p) by lia.
have Hb : b = Z.of_nat (Z.to_nat b) by lia.
rewrite Hp Hb.
have n0 : (0 < Z.to_nat p)%N by lia.
move: H n0; move: (Z.to_nat p) (Z.to_nat b) => n m H n0.
by rewrite -Ee -!En // H.
Qed.

End FermatBridge.

Open Scope Z_scope.

Lemma fermat_pow_p (p a : Z) : prime p -> (a ^ p) mod p = a mod p.
Proof.
  intros pP.
  assert (p2 := prime_ge_2 _ pP).
  rewrite Zpower_mod by lia.
  rewrite (FermatBridge.fermat_nat_Z p (a mod p) pP).
  - apply Z.mod_mod; lia.
  - apply Z.mod_pos_bound; lia.
Qed.

Theorem fermat_little_Z :
  forall p a : Z, prime p -> a mod p <> 0 -> (a ^ (p - 1)) mod p = 1.
Proof.
  intros p a pP Ha.
  assert (p2 := prime_ge_2 _ pP).
  assert (H := fermat_pow_p p a pP).
  assert (Hdiv : (p | a * (a ^ (p - 1) - 1))).
  { replace (a * (a ^ (p - 1) - 1)) with (a ^ p - a).
    - apply Zmod_divide; [lia|].
      rewrite Zminus_mod, H, Z.sub_diag. apply Zmod_0_l.
    - replace (a ^ p) with (a ^ (1 + (p - 1))) by (f_equal; lia).
      rewrite Z.pow_add_r by lia. rewrite Z.pow_1_r. ring. }
  apply prime_mult in Hdiv; [|assumption].
  destruct Hdiv as [Hdiv|Hdiv].
  - exfalso. apply Ha. apply Zdivide_mod; assumption.
  - destruct Hdiv as [k Hk].
    replace (a ^ (p - 1)) with (1 + k * p) by lia.
    rewrite Z_mod_plus_full. apply Z.mod_small; lia.
Qed.

(* ------------------------------------------------------------------ *)
(* Part 2: Lucas primality test over Z (stdlib only)                   *)
(* ------------------------------------------------------------------ *)

Lemma prime_divisor_exists n : 1 < n -> exists r, prime r /\ (r | n).
Proof.
  intros Hn. assert (H0 : 0 <= n) by lia. revert Hn.
  pattern n. apply Z_lt_induction; [|assumption].
  clear n H0. intros x IH Hx.
  destruct (prime_dec x) as [Hp|Hnp].
  - exists x; split; [assumption|apply Z.divide_refl].
  - destruct (not_prime_divide x Hx Hnp) as [m [Hm Hd]].
    destruct (IH m ltac:(lia) ltac:(lia)) as [r [Hr Hrm]].
    exists r; split; [assumption|].
    eapply Z.divide_trans; eassumption.
Qed.

Lemma mod_one_divisor (r n x : Z) :
  1 < r -> n <> 0 -> (r | n) -> x mod n = 1 -> x mod r = 1.
Proof.
  intros Hr Hn [k Hk] Hx.
  rewrite (Z.div_mod x n Hn), Hx, Hk.
  replace (k * r * (x / (k * r)) + 1) with (1 + (k * (x / (k * r))) * r) by ring.
  rewrite Z_mod_plus_full. apply Z.mod_small; lia.
Qed.

Lemma pow_mod_one_pow (r b k : Z) :
  1 < r -> 0 <= k -> b mod r = 1 -> (b ^ k) mod r = 1.
Proof.
  intros Hr Hk Hb.
  rewrite Zpower_mod by lia. rewrite Hb, Z.pow_1_l by assumption.
  apply Z.mod_small; lia.
Qed.

Lemma pow_mod_one_gcd (r a : Z) :
  1 < r ->
  forall x, 0 <= x -> forall y, 0 <= y ->
  (a ^ x) mod r = 1 -> (a ^ y) mod r = 1 -> (a ^ (Z.gcd x y)) mod r = 1.
Proof.
  intros Hr x Hx. pattern x. apply Z_lt_induction; [|assumption].
  clear x Hx. intros x IH y Hy Hax Hay.
  destruct (Z.eq_dec x 0) as [->|Hx0].
  - rewrite Z.gcd_0_l, Z.abs_eq by assumption. assumption.
  - destruct (Z.le_gt_cases 0 x) as [Hx|Hx].
    2:{ (* x < 0: a^x = 0, 0 mod r = 0 <> 1 *)
        rewrite Z.pow_neg_r in Hax by assumption.
        rewrite Zmod_0_l in Hax. discriminate. }
    assert (Hm := Z.mod_pos_bound y x ltac:(lia)).
    rewrite <- Z.gcd_mod by assumption.
    apply IH; try lia; try assumption.
    assert (Hd : 0 <= y / x) by (apply Z.div_pos; lia).
    assert (E : a ^ y = (a ^ x) ^ (y / x) * a ^ (y mod x)).
    { rewrite <- Z.pow_mul_r by lia. rewrite <- Z.pow_add_r by nia.
      f_equal. apply Z.div_mod. assumption. }
    rewrite E in Hay. rewrite Zmult_mod in Hay.
    rewrite (pow_mod_one_pow r (a ^ x) (y / x) Hr Hd Hax) in Hay.
    rewrite Z.mul_1_l, Z.mod_mod in Hay by lia. assumption.
Qed.

(* Lucas test with fully factored N - 1. *)
Theorem lucas_test (N a : Z) :
  1 < N ->
  Zpow_mod a (N - 1) N = 1 ->
  (forall q, prime q -> (q | N - 1) ->
     Z.gcd (Zpow_mod a ((N - 1) / q) N - 1) N = 1) ->
  prime N.
Proof.
  intros HN H1 Hq.
  rewrite Zpow_mod_correct in H1 by lia.
  destruct (prime_divisor_exists N HN) as [r [Hr HrN]].
  assert (r2 := prime_ge_2 _ Hr).
  assert (HrleN : r <= N) by (apply Z.divide_pos_le; [lia|assumption]).
  assert (Har1 : (a ^ (N - 1)) mod r = 1)
    by (apply (mod_one_divisor r N); [lia|lia|assumption|assumption]).
  assert (Ha : a mod r <> 0).
  { intros Ha0. rewrite Zpower_mod in Har1 by lia.
    rewrite Ha0, Z.pow_0_l, Zmod_0_l in Har1 by lia. discriminate. }
  assert (HF := fermat_little_Z r a Hr Ha).
  assert (Hg := pow_mod_one_gcd r a ltac:(lia) (N - 1) ltac:(lia)
                  (r - 1) ltac:(lia) Har1 HF).
  set (g := Z.gcd (N - 1) (r - 1)) in *.
  assert (Hg0 : 0 <= g) by apply Z.gcd_nonneg.
  destruct (Z.gcd_divide_l (N - 1) (r - 1)) as [k Hk]. fold g in Hk.
  assert (Hgpos : 0 < g).
  { destruct (Z.eq_dec g 0) as [E|E]; [rewrite E, Z.mul_0_r in Hk|]; lia. }
  assert (Hkpos : 0 < k).
  { apply (Z.mul_pos_cancel_r k g); lia. }
  destruct (Z.eq_dec k 1) as [->|Hk1].
  - (* g = N - 1 divides r - 1, hence r = N *)
    assert (Hdiv : (N - 1 | r - 1)).
    { replace (N - 1) with g by lia. apply Z.gcd_divide_r. }
    apply Z.divide_pos_le in Hdiv; [|lia].
    assert (r = N) by lia. subst r. assumption.
  - exfalso.
    destruct (prime_divisor_exists k ltac:(lia)) as [q [Hqp [k' Hk']]].
    assert (q2 := prime_ge_2 _ Hqp).
    assert (Hk'pos : 0 < k') by nia.
    assert (HqN : (q | N - 1)).
    { exists (k' * g). rewrite Hk, Hk'. ring. }
    specialize (Hq q Hqp HqN).
    rewrite Zpow_mod_correct in Hq by lia.
    assert (He : (N - 1) / q = g * k').
    { rewrite Hk, Hk'. replace (k' * q * g) with (g * k' * q) by ring.
      apply Z.div_mul. lia. }
    rewrite He in Hq.
    assert (Hae : (a ^ (g * k')) mod r = 1).
    { rewrite Z.pow_mul_r by lia. apply pow_mod_one_pow; [lia|lia|assumption]. }
    set (X := a ^ (g * k')) in *.
    assert (HrX : (r | X - 1)).
    { apply Zmod_divide; [lia|].
      rewrite Zminus_mod, Hae. rewrite (Z.mod_small 1 r) by lia.
      rewrite Z.sub_diag. apply Zmod_0_l. }
    assert (HrC : (r | X mod N - 1)).
    { rewrite Z.mod_eq by lia.
      replace (X - N * (X / N) - 1) with ((X - 1) - N * (X / N)) by ring.
      apply Z.divide_sub_r; [assumption|].
      apply Z.divide_mul_l. assumption. }
    assert (Hr1 : (r | 1)).
    { rewrite <- Hq. apply Z.gcd_greatest; assumption. }
    apply Z.divide_1_r in Hr1. lia.
Qed.

(* ------------------------------------------------------------------ *)
(* Part 3: certificates                                                *)
(* ------------------------------------------------------------------ *)

(* Fermat primes 5, 17, 257, 65537: N - 1 is a power of two. *)
Lemma fermat_number_prime (N a m : Z) :
  0 <= m -> N - 1 = 2 ^ m -> 1 < N ->
  Zpow_mod a (N - 1) N = 1 ->
  Z.gcd (Zpow_mod a ((N - 1) / 2) N - 1) N = 1 ->
  prime N.
Proof.
  intros Hm HN H1 Hp Hgcd.
  apply (lucas_test N a); [assumption|assumption|].
  intros q Hq Hd. rewrite HN in Hd.
  apply prime_power_prime in Hd; [|assumption|assumption|exact prime_2].
  subst q. assumption.
Qed.

Lemma prime_5 : prime 5.
Proof. apply (fermat_number_prime 5 2 2); [lia|reflexivity|lia| |]; vm_compute; reflexivity. Qed.

Lemma prime_17 : prime 17.
Proof. apply (fermat_number_prime 17 3 4); [lia|reflexivity|lia| |]; vm_compute; reflexivity. Qed.

Lemma prime_257 : prime 257.
Proof. apply (fermat_number_prime 257 3 8); [lia|reflexivity|lia| |]; vm_compute; reflexivity. Qed.

Lemma prime_65537 : prime 65537.
Proof. apply (fermat_number_prime 65537 3 16); [lia|reflexivity|lia| |]; vm_compute; reflexivity. Qed.

Lemma goldilocks_pred_factorization :
  18446744069414584321 - 1 = 2 ^ 32 * (3 * (5 * (17 * (257 * 65537)))).
Proof. vm_compute. reflexivity. Qed.

Theorem goldilocks_prime : prime 18446744069414584321.
Proof.
  apply (lucas_test 18446744069414584321 7).
  - lia.
  - vm_compute. reflexivity.
  - intros q Hq Hd.
    assert (Hcases : q = 2 \/ q = 3 \/ q = 5 \/ q = 17 \/ q = 257 \/ q = 65537).
    { rewrite goldilocks_pred_factorization in Hd.
      apply prime_mult in Hd; [|assumption]. destruct Hd as [Hd|Hd].
      { left. apply (prime_power_prime q 2 32); [lia|assumption|exact prime_2|assumption]. }
      apply prime_mult in Hd; [|assumption]. destruct Hd as [Hd|Hd].
      { right; left. apply prime_div_prime; [assumption|exact prime_3|assumption]. }
      apply prime_mult in Hd; [|assumption]. destruct Hd as [Hd|Hd].
      { right; right; left. apply prime_div_prime; [assumption|exact prime_5|assumption]. }
      apply prime_mult in Hd; [|assumption]. destruct Hd as [Hd|Hd].
      { right; right; right; left.
        apply prime_div_prime; [assumption|exact prime_17|assumption]. }
      apply prime_mult in Hd; [|assumption]. destruct Hd as [Hd|Hd].
      { right; right; right; right; left.
        apply prime_div_prime; [assumption|exact prime_257|assumption]. }
      right; right; right; right; right.
      apply prime_div_prime; [assumption|exact prime_65537|assumption]. }
    destruct Hcases as [->|[->|[->|[->|[->| ->]]]]]; vm_compute; reflexivity.
Qed.

Print Assumptions goldilocks_prime.
Print Assumptions fermat_little_Z.
