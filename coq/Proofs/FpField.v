(* FieldLaws for the Goldilocks instance.  The ring laws are unconditional; the inverse law
   needs primality of P and Fermat's little theorem, taken here as explicit premises of the
   lemma (discharged in Proofs/FpFieldPrime.v from Proofs/Primality.v). *)
From Coq Require Import ZArith Bool Lia Znumtheory Zpow_facts.
From Verif Require Import Base.Field Gen.FieldConsts Model.Fp.
Open Scope Z_scope.

Lemma P_pos : 0 < P. Proof. unfold P, ORDER. lia. Qed.
Lemma P_gt_1 : 1 < P. Proof. unfold P, ORDER. lia. Qed.

Ltac fp_ext := apply Fp_ext; cbn [fval fadd fsub fmul fneg fzero fone FpOps toFp].

Lemma fval_mod x : fval x mod P = fval x.
Proof. apply Z.mod_small. apply fval_range. Qed.

Lemma mod_eq_of_eq a b : a = b -> a mod P = b mod P. Proof. congruence. Qed.

Section Laws.
  Hypothesis fermat : forall a : Z, a mod P <> 0 -> (a ^ (P - 1)) mod P = 1.

  Lemma Fp_laws : FieldLaws Fp.
  Proof.
    pose proof P_pos as HP.
    constructor; intros.
    - fp_ext. rewrite Zmod_0_l. rewrite Z.add_0_l. apply fval_mod.
    - fp_ext. f_equal. lia.
    - fp_ext. rewrite Zplus_mod_idemp_r, Zplus_mod_idemp_l. f_equal. lia.
    - fp_ext. rewrite (Z.mod_small 1) by (pose proof P_gt_1; lia). rewrite Z.mul_1_l. apply fval_mod.
    - fp_ext. f_equal. lia.
    - fp_ext. rewrite Zmult_mod_idemp_r, Zmult_mod_idemp_l. f_equal. lia.
    - fp_ext. rewrite Zmult_mod_idemp_l. rewrite <- Zplus_mod. f_equal. lia.
    - fp_ext. rewrite Zplus_mod_idemp_r. reflexivity.
    - fp_ext. rewrite Zplus_mod_idemp_r. rewrite Z.add_opp_diag_r. reflexivity.
    - (* inverse *)
      fp_ext. unfold finv, FpOps, fp_inv. cbn [fval toFp].
      rewrite Zpow_mod_correct by lia.
      rewrite Z.mod_mod by lia. rewrite Zmult_mod_idemp_l.
      assert (Hx : fval x mod P <> 0).
      { intros E. apply H. apply Fp_ext. cbn [fval fzero FpOps toFp]. rewrite Zmod_0_l.
        pose proof (fval_range x). rewrite Z.mod_small in E by lia. exact E. }
      replace (fval x ^ (P - 2) * fval x) with (fval x ^ (P - 1)).
      + rewrite fermat by exact Hx. rewrite Z.mod_small; [reflexivity | pose proof P_gt_1; lia].
      + replace (P - 1) with (P - 2 + 1) by lia. rewrite Z.pow_add_r by (pose proof P_gt_1; lia).
        rewrite Z.pow_1_r. reflexivity.
    - intros E. apply (f_equal fval) in E. cbn [fval fzero fone FpOps toFp] in E.
      rewrite Zmod_0_l, Z.mod_small in E by (pose proof P_gt_1; lia). discriminate.
    - cbn [feqb FpOps]. rewrite Z.eqb_eq. split; [apply Fp_ext | congruence].
  Qed.
End Laws.
