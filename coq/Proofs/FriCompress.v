(* Proofs about Model/FriCompress.v: decompress (compress p) = p, for every number of queries,
   oracles, layers, every arity and cap height and ANY list of query indices (repeated indices,
   indices sharing a coset at some layer).

   Sections 1-10 prove the round trip ABSTRACTLY (round_trip_gen): the query rounds are given by
   functions of the index - per oracle a leaf and a Merkle path, per commit-phase layer a coset and
   a Merkle path of the coset index - for which Merkle path compression is invertible on the keys
   that occur ([CPS]), and the verifier's fold-consistency checks hold ([round_fold_ok]).
   Section 11 instantiates it with the openings of ONE tree per oracle and per layer - the honest
   prover's fri_prover_query_round, Model/FriProver.v - (fri_decompress_compress); section 12 shows
   that accepted proofs pass the fold-consistency checks; section 13 that every proof of the honest
   prover model round-trips.  Proofs/FriCompressAcc.v instantiates round_trip_gen with the functions
   read off ANY accepted proof (or produces a hash collision). *)
From Coq Require Import ZArith List Bool Lia Arith.
From Verif Require Import Base.Field Gen.FieldConsts Model.Fp Model.Fp2 Model.FieldGeneric Model.Fri
  Model.Merkle Model.Dedup Model.FriProver Model.FriCompress
  Proofs.Dedup Proofs.Merkle Proofs.MerkleCompression Proofs.Fri Proofs.FriHonest.
Import ListNotations.
Local Open Scope nat_scope.

(* ======================================================================================== *)
(* 1. list helpers                                                                           *)

Definition remove_total {A} (i : nat) (l : list A) : list A := firstn i l ++ skipn (S i) l.

Lemma remove_nth_spec {A} : forall (l : list A) i, i < length l -> remove_nth i l = Some (remove_total i l).
Proof.
  induction l as [|x t IH]; intros i Hi; cbn [length] in Hi; [lia|].
  destruct i as [|i]; cbn [remove_nth]; [reflexivity|].
  rewrite IH by lia. reflexivity.
Qed.

Lemma insert_remove {A} : forall (l : list A) i x,
  nth_error l i = Some x -> insert_nth i x (remove_total i l) = Some l.
Proof.
  induction l as [|y t IH]; intros i x Hn; [destruct i; discriminate Hn|].
  destruct i as [|i]; cbn [nth_error] in Hn.
  - injection Hn as ->. reflexivity.
  - unfold remove_total. change (firstn (S i) (y :: t)) with (y :: firstn i t).
    change (skipn (S (S i)) (y :: t)) with (skipn (S i) t). cbn [app insert_nth].
    change (firstn i t ++ skipn (S i) t) with (remove_total i t).
    rewrite (IH i x Hn). reflexivity.
Qed.

Lemma remove_total_length {A} (l : list A) i : i < length l -> length (remove_total i l) = length l - 1.
Proof.
  intros Hi. unfold remove_total. rewrite app_length, firstn_length, skipn_length. lia.
Qed.

Lemma unflatten2_flatten2 : forall l, unflatten2 (flatten2 l) = l.
Proof.
  induction l as [|[a b] t IH]; [reflexivity|].
  cbn [flatten2 flat_map app unflatten2 fst snd]. fold (flatten2 t). rewrite IH. reflexivity.
Qed.

Lemma map_opt_ext_in {A B} (f : A -> option B) (g : A -> B) : forall l,
  (forall a, In a l -> f a = Some (g a)) -> map_opt f l = Some (map g l).
Proof.
  induction l as [|a t IH]; intros Hf; [reflexivity|].
  cbn [map_opt map]. rewrite (Hf a (or_introl eq_refl)), IH; [reflexivity|].
  intros; apply Hf; right; assumption.
Qed.

Lemma map_opt_map {A B C} (f : B -> option C) (g : A -> B) : forall l,
  map_opt f (map g l) = map_opt (fun a => f (g a)) l.
Proof.
  induction l as [|a t IH]; [reflexivity|]. cbn [map map_opt]. rewrite IH. reflexivity.
Qed.

(* rows that are all "map (f d) xs" over a list of descriptors d *)
Lemma push_rows_map {A D} (r : D -> list A) (g : D -> A) : forall ds,
  push_rows (map r ds) (map g ds) = Some (map (fun d => r d ++ [g d]) ds).
Proof.
  induction ds as [|d t IH]; [reflexivity|].
  cbn [map push_rows]. rewrite IH. reflexivity.
Qed.

Lemma col_map {A D X} (f : D -> X -> A) (xs : list X) i x : nth_error xs i = Some x ->
  forall ds, col i (map (fun d => map (f d) xs) ds) = Some (map (fun d => f d x) ds).
Proof.
  intros Hx. unfold col. induction ds as [|d t IH]; [reflexivity|].
  cbn [map map_opt]. rewrite IH. rewrite (map_nth_error (f d) i xs Hx). reflexivity.
Qed.

Lemma repeat_map_nil {A D} (ds : list D) : repeat (@nil A) (length ds) = map (fun _ => []) ds.
Proof. induction ds; [reflexivity|]. cbn [length repeat map]. f_equal. assumption. Qed.

Lemma map_fst_combine_eq {A B} : forall (a : list A) (b : list B), length a = length b -> map fst (combine a b) = a.
Proof.
  induction a as [|x t IH]; intros [|y u] Hl; cbn [length] in Hl; try discriminate; [reflexivity|].
  cbn [combine map fst]. f_equal. apply IH. lia.
Qed.

Lemma map_snd_combine_eq {A B} : forall (a : list A) (b : list B), length a = length b -> map snd (combine a b) = b.
Proof.
  induction a as [|x t IH]; intros [|y u] Hl; cbn [length] in Hl; try discriminate; [reflexivity|].
  cbn [combine map snd]. f_equal. apply IH. lia.
Qed.

Lemma existsb_eqb_In c l : existsb (Nat.eqb c) l = true <-> In c l.
Proof.
  rewrite existsb_exists. split.
  - intros (y & Hy & E). apply Nat.eqb_eq in E. subst. exact Hy.
  - intros Hin. exists c. split; [exact Hin|apply Nat.eqb_refl].
Qed.

Lemma existsb_eqb_notIn c l : existsb (Nat.eqb c) l = false <-> ~ In c l.
Proof.
  rewrite <- existsb_eqb_In. destruct (existsb (Nat.eqb c) l); split; intros H; congruence.
Qed.

(* ---------------------------------------------------------------- association lists *)
Section Assoc.
  Variable V : Type.
  Notation lookup := (Dedup.lookup V).
  Notation or_insert := (Dedup.or_insert V).

  Lemma lookup_notin : forall (m : list (nat * V)) k, ~ In k (map fst m) -> lookup m k = None.
  Proof.
    induction m as [|[k' v] t IH]; intros k Hn; [reflexivity|].
    cbn [Dedup.lookup]. destruct (Nat.eqb_spec k k') as [->|Hne].
    - exfalso. apply Hn. left. reflexivity.
    - apply IH. intros Hin. apply Hn. right. exact Hin.
  Qed.

  Lemma lookup_in_keys : forall (m : list (nat * V)) k, In k (map fst m) -> exists v, lookup m k = Some v.
  Proof.
    induction m as [|[k' v] t IH]; intros k Hin; [destruct Hin|].
    cbn [Dedup.lookup]. destruct (Nat.eqb_spec k k') as [->|Hne]; [eauto|].
    apply IH. destruct Hin as [E|Hin]; [cbn in E; congruence|exact Hin].
  Qed.

  Lemma lookup_or_insert m k v k0 :
    lookup (or_insert m k v) k0
    = match lookup m k0 with Some v0 => Some v0 | None => if Nat.eqb k0 k then Some v else None end.
  Proof.
    unfold Dedup.or_insert. destruct (lookup m k) as [vk|] eqn:Ek.
    - destruct (lookup m k0) eqn:E0; [reflexivity|].
      destruct (Nat.eqb_spec k0 k) as [->|]; [congruence|reflexivity].
    - rewrite lookup_app. destruct (lookup m k0); [reflexivity|].
      cbn [Dedup.lookup]. destruct (Nat.eqb k0 k); reflexivity.
  Qed.

  (* HashMap::entry(k).or_insert(v) over a list of bindings: the FIRST binding of a key wins,
     i.e. the map looks up like the raw list *)
  Lemma lookup_fold_or_insert {X} (key : X -> nat) (val : X -> V) : forall (l : list X) m k,
    lookup (fold_left (fun m x => or_insert m (key x) (val x)) l m) k
    = match lookup m k with Some v => Some v | None => lookup (map (fun x => (key x, val x)) l) k end.
  Proof.
    induction l as [|x t IH]; intros m k; cbn [fold_left map].
    - destruct (lookup m k); reflexivity.
    - rewrite IH, lookup_or_insert. destruct (lookup m k); [reflexivity|].
      cbn [Dedup.lookup]. destruct (Nat.eqb k (key x)); reflexivity.
  Qed.

  Lemma lookup_map_val {W} (g : V -> W) : forall (m : list (nat * V)) k,
    Dedup.lookup W (map (fun kv => (fst kv, g (snd kv))) m) k = option_map g (lookup m k).
  Proof.
    induction m as [|[k' v] t IH]; intros k; [reflexivity|].
    cbn [map Dedup.lookup fst snd]. destruct (Nat.eqb k k'); [reflexivity|apply IH].
  Qed.

  (* a raw list of bindings (key x, val x), x in pre ++ y :: post *)
  Lemma lookup_raw_first {X} (key : X -> nat) (val : X -> V) pre y post :
    ~ In (key y) (map key pre) ->
    lookup (map (fun x => (key x, val x)) (pre ++ y :: post)) (key y) = Some (val y).
  Proof.
    intros Hn. rewrite map_app, lookup_app. rewrite lookup_notin.
    - cbn [map Dedup.lookup]. rewrite Nat.eqb_refl. reflexivity.
    - rewrite map_map. cbn [fst]. exact Hn.
  Qed.

  Lemma lookup_raw_some {X} (key : X -> nat) (val : X -> V) (l : list X) y :
    In y l -> exists x, In x l /\ key x = key y /\ lookup (map (fun x => (key x, val x)) l) (key y) = Some (val x).
  Proof.
    intros Hin.
    destruct (lookup_in_keys (map (fun x => (key x, val x)) l) (key y)) as (v & E).
    { rewrite map_map. cbn [fst]. apply in_map. exact Hin. }
    pose proof (lookup_In V _ _ _ E) as HI. apply in_map_iff in HI. destruct HI as (x & Ex & Hx).
    injection Ex as Ek Ev. exists x. subst v. auto.
  Qed.
End Assoc.

(* ======================================================================================== *)
(* 2. decompress_merkle_proofs ignores the compressed proof at a position whose index occurred
      earlier in the list (its iterator is never advanced): CompressedFriProof::decompress passes,
      at such a position, the compressed proof stored for the FIRST occurrence of the index.    *)
Section Junk.
  Variable F : Type.
  Variable digest : Type.
  Variable hash_leaf : list F -> digest.
  Variable two_to_one : digest -> digest -> digest.

  Notation sget := (seen_get digest).
  Notation sins := (seen_insert digest).
  Notation dlayer := (decompress_layer digest two_to_one).

  (* same indices; the proofs agree except where the index occurred before (in pre or earlier) *)
  Inductive JR : list nat -> list (nat * list digest) -> list (nat * list digest) -> Prop :=
  | JR_nil pre : JR pre [] []
  | JR_cons pre i p p' r r' : (p = p' \/ In i pre) -> JR (i :: pre) r r' -> JR pre ((i, p) :: r) ((i, p') :: r').

  Lemma JR_incl : forall pre a b, JR pre a b -> forall pre', incl pre pre' -> JR pre' a b.
  Proof.
    induction 1 as [|pre i p p' r r' Hp _ IH]; intros pre' Hi; constructor.
    - destruct Hp as [->|Hin]; [left; reflexivity|right; apply Hi; exact Hin].
    - apply IH. intros z [->|Hz]; [left; reflexivity|right; apply Hi; exact Hz].
  Qed.

  Lemma JR_fst : forall pre a b, JR pre a b -> map fst a = map fst b.
  Proof. induction 1; [reflexivity|]. cbn [map fst]. f_equal. assumption. Qed.

  Lemma sget_insert seen a d v : sget (sins seen a d) v = if a =? v then Some d else sget seen v.
  Proof. reflexivity. Qed.

  Definition hask (seen : seen_map digest) (v : nat) : Prop := sget seen v <> None.

  Lemma hask_insert seen a d v : hask seen v -> hask (sins seen a d) v.
  Proof. unfold hask. rewrite sget_insert. destruct (a =? v); [discriminate|auto]. Qed.

  Lemma hask_insert_same seen a d : hask (sins seen a d) a.
  Proof. unfold hask. rewrite sget_insert, Nat.eqb_refl. discriminate. Qed.

  Lemma dlayer_junk n j : forall a b pre seen,
    JR pre a b ->
    (forall i, In i pre -> hask seen (xor1 ((i + n) / 2 ^ j))) ->
    match dlayer seen n j a, dlayer seen n j b with
    | Some (s, o), Some (s', o') => s = s' /\ JR pre (combine (map fst a) o) (combine (map fst b) o')
    | None, None => True
    | _, _ => False
    end.
  Proof.
    induction a as [|[i p] r IH]; intros b pre seen HJ Hpre.
    - inversion HJ; subst. cbn [decompress_layer map combine]. split; [reflexivity|constructor].
    - inversion HJ as [|pre0 i0 p0 p' r0 rb H3 H5]; subst. cbn [decompress_layer].
      set (index := (i + n) / 2 ^ j).
      destruct (sget seen index) as [cur|] eqn:Ecur; [|exact I].
      destruct (sget seen (xor1 index)) as [sh|] eqn:Esib.
      + (* sibling known: the iterator is passed through *)
        set (seen1 := sins seen (index / 2) _).
        assert (Hpre1 : forall i0, In i0 (i :: pre) -> hask seen1 (xor1 ((i0 + n) / 2 ^ j))).
        { intros i0 [<-|Hin]; apply hask_insert; [fold index; unfold hask; rewrite Esib; discriminate|].
          apply Hpre. exact Hin. }
        specialize (IH rb (i :: pre) seen1 H5 Hpre1).
        destruct (dlayer seen1 n j r) as [[s o]|]; destruct (dlayer seen1 n j rb) as [[s' o']|]; try exact IH.
        destruct IH as [-> IH]. split; [reflexivity|]. cbn [map fst combine].
        constructor; [exact H3|exact IH].
      + (* sibling unknown: i is not in pre, so both sides carry the same proof *)
        assert (Epp : p = p').
        { destruct H3 as [E|Hin]; [exact E|]. exfalso. apply (Hpre i Hin). exact Esib. }
        subst p'. destruct p as [|sh p1]; [exact I|].
        set (seen1 := sins (sins seen (xor1 index) sh) (index / 2) _).
        assert (Hpre1 : forall i0, In i0 (i :: pre) -> hask seen1 (xor1 ((i0 + n) / 2 ^ j))).
        { intros i0 [<-|Hin]; apply hask_insert.
          - fold index. apply hask_insert_same.
          - apply hask_insert. apply Hpre. exact Hin. }
        specialize (IH rb (i :: pre) seen1 H5 Hpre1).
        destruct (dlayer seen1 n j r) as [[s o]|]; destruct (dlayer seen1 n j rb) as [[s' o']|]; try exact IH.
        destruct IH as [-> IH]. split; [reflexivity|]. cbn [map fst combine].
        constructor; [left; reflexivity|exact IH].
  Qed.

  Lemma dlayer_length n j : forall a seen s o, dlayer seen n j a = Some (s, o) -> length o = length a.
  Proof.
    induction a as [|[i p] r IH]; intros seen s o E; cbn [decompress_layer] in E.
    - injection E as _ <-. reflexivity.
    - destruct (sget seen ((i + n) / 2 ^ j)) as [cur|]; [|discriminate E].
      destruct (sget seen (xor1 ((i + n) / 2 ^ j))) as [sh|].
      + match type of E with match ?X with _ => _ end = _ => destruct X as [[s2 ps]|] eqn:E2; [|discriminate E] end.
        injection E as _ <-. cbn [length]. f_equal. eapply IH. exact E2.
      + destruct p as [|sh p1]; [discriminate E|].
        match type of E with match ?X with _ => _ end = _ => destruct X as [[s2 ps]|] eqn:E2; [|discriminate E] end.
        injection E as _ <-. cbn [length]. f_equal. eapply IH. exact E2.
  Qed.

  Lemma dfill_junk n indices : forall cnt j its its' seen,
    length its = length indices -> length its' = length indices ->
    JR [] (combine indices its) (combine indices its') ->
    decompress_fill digest two_to_one seen n j cnt indices its
    = decompress_fill digest two_to_one seen n j cnt indices its'.
  Proof.
    induction cnt as [|cnt IH]; intros j its its' seen Hl Hl' HJ; [reflexivity|].
    cbn [decompress_fill].
    pose proof (dlayer_junk n j _ _ [] seen HJ ltac:(intros i [])) as HD.
    destruct (dlayer seen n j (combine indices its)) as [[s o]|] eqn:E1;
      destruct (dlayer seen n j (combine indices its')) as [[s' o']|] eqn:E2; try contradiction; [|reflexivity].
    destruct HD as [<- HJ'].
    pose proof (dlayer_length _ _ _ _ _ _ E1) as L1. pose proof (dlayer_length _ _ _ _ _ _ E2) as L2.
    rewrite combine_length in L1, L2.
    assert (Lo : length o = length indices) by lia. assert (Lo' : length o' = length indices) by lia.
    rewrite !skipn_all2 by lia. rewrite !app_nil_r.
    rewrite !map_fst_combine_eq in HJ' by lia.
    apply IH; assumption.
  Qed.

  Lemma decompress_junk (leaves : list (list F)) indices cps cps' k hh :
    length cps = length indices -> length cps' = length indices ->
    JR [] (combine indices cps) (combine indices cps') ->
    decompress_merkle_proofs F digest hash_leaf two_to_one leaves indices cps k hh
    = decompress_merkle_proofs F digest hash_leaf two_to_one leaves indices cps' k hh.
  Proof.
    intros Hl Hl' HJ. unfold decompress_merkle_proofs. destruct (k <? hh); [reflexivity|].
    rewrite (dfill_junk (2 ^ k) indices (k - hh) 0 cps cps' _ Hl Hl' HJ). reflexivity.
  Qed.

  (* looking every key up in a first-insert-wins map yields, at a repeated key, the value of its
     first occurrence: related by JR to the list of the values themselves *)
  Lemma JR_firsts {X V} (key : X -> nat) (val : X -> V) (g : V -> list digest) (dv : V) : forall todo done,
    JR (map key done)
       (map (fun y => (key y, g (match Dedup.lookup V (map (fun x => (key x, val x)) (done ++ todo)) (key y) with
                                 | Some v => v | None => dv end))) todo)
       (map (fun y => (key y, g (val y))) todo).
  Proof.
    induction todo as [|y todo IH]; intros done; cbn [map]; constructor.
    - destruct (in_dec Nat.eq_dec (key y) (map key done)) as [Hin|Hn]; [right; exact Hin|left].
      rewrite (lookup_raw_first V key val done y todo Hn). reflexivity.
    - specialize (IH (done ++ [y])). rewrite <- app_assoc in IH. cbn [app] in IH.
      eapply JR_incl; [exact IH|]. rewrite map_app. cbn [map]. intros z Hz. apply in_app_or in Hz.
      destruct Hz as [Hz|[<-|[]]]; [right; exact Hz|left; reflexivity].
  Qed.
End Junk.

(* ======================================================================================== *)
(* 3. index arithmetic of the reduction layers                                               *)

Lemma div_pow_add x s a : x / 2 ^ s / 2 ^ a = x / 2 ^ (s + a).
Proof.
  rewrite Nat.div_div by (apply Nat.pow_nonzero; lia). rewrite Nat.pow_add_r. reflexivity.
Qed.

Lemma div_pow_lt x s k : x < 2 ^ (s + k) -> x / 2 ^ s < 2 ^ k.
Proof.
  intros Hx. apply Nat.div_lt_upper_bound; [apply Nat.pow_nonzero; lia|].
  rewrite <- Nat.pow_add_r. exact Hx.
Qed.

Lemma map_nth_seq {A B} (f : A -> B) (d : A) : forall l, map f l = map (fun i => f (nth i l d)) (seq 0 (length l)).
Proof.
  intros l. apply nth_ext with (d := f d) (d' := f d).
  - rewrite !map_length, seq_length. reflexivity.
  - intros i Hi. rewrite map_length in Hi. rewrite map_nth.
    rewrite nth_indep with (d' := (fun i => f (nth i l d)) 0) by (rewrite map_length, seq_length; exact Hi).
    rewrite (map_nth (fun i => f (nth i l d))). rewrite seq_nth by exact Hi. reflexivity.
Qed.

Lemma nth_map_seq {B} (f : nat -> B) N t d : t < N -> nth t (map f (seq 0 N)) d = f t.
Proof.
  intros Ht. rewrite nth_indep with (d' := f 0) by (rewrite map_length, seq_length; exact Ht).
  rewrite map_nth, seq_nth by exact Ht. reflexivity.
Qed.

(* one commit-phase layer: s = bits folded before it, a = its arity bits, k = height of its tree *)
(* a layer is described by two functions of the coset index: the coset's evaluations and the Merkle
   path of the coset (for trees: the c-th coset and its opening; see section 11) *)
Definition layer_fn : Type := ((nat -> list Fp2) * (nat -> list digest))%type.
Record level := { lv_s : nat; lv_a : nat; lv_k : nat; lv_cos : nat -> list Fp2; lv_pth : nat -> list digest }.

Fixpoint levels (s k : nat) (arities : list nat) (layers : list layer_fn) : list level :=
  match arities, layers with
  | a :: at', cosets :: lt =>
    {| lv_s := s; lv_a := a; lv_k := k - a; lv_cos := fst cosets; lv_pth := snd cosets |}
    :: levels (s + a) (k - a) at' lt
  | _, _ => []
  end.

(* coset index and index within the coset of query x at a level *)
Definition ci (lv : level) (x : nat) : nat := x / 2 ^ (lv_s lv + lv_a lv).
Definition wi (lv : level) (x : nat) : nat := (x / 2 ^ lv_s lv) mod 2 ^ lv_a lv.
Definition coset (lv : level) (x : nat) : list Fp2 := lv_cos lv (ci lv x).
Definition lopen (lv : level) (x : nat) : list digest := lv_pth lv (ci lv x).


(* ---------------------------------------------------------------------------------------- *)
(* The verifier's fold-consistency checks of one query round, without the Merkle checks:
   evals[x_index_within_coset] = old_eval at every layer, old_eval being fri_combine_initial at the
   first layer and compute_evaluation of the previous layer afterwards (fri_verifier_query_round). *)
Fixpoint steps_fold (steps : list fri_query_step) (arities : list nat) (betas : list Fp2)
         (layer x_index : nat) (subgroup_x : Fp) (old_eval : Fp2) : Prop :=
  match arities, steps with
  | [], _ => True
  | a :: at', st :: stt =>
    exists beta ev,
      nth_error betas layer = Some beta
      /\ length (fs_evals st) = 2 ^ a
      /\ nth_error (fs_evals st) (x_index mod 2 ^ a) = Some old_eval
      /\ compute_evaluation subgroup_x (x_index mod 2 ^ a) a (fs_evals st) beta = inl ev
      /\ steps_fold stt at' betas (S layer) (x_index / 2 ^ a) (exp_power_of_2 subgroup_x a) ev
  | _ :: _, [] => False
  end.

Definition query_point (p : fri_params) (x : nat) : Fp :=
  (coset_shift * exp_u64 (primitive_root_of_unity (lde_bits p)) (N.of_nat (reverse_bits x (lde_bits p))))%F.

Definition round_fold_ok (inst : fri_instance) (openings : list (list Fp2)) (ch : fri_challenges)
           (p : fri_params) (x : nat) (q : fri_query_round) : Prop :=
  exists oe,
    combine_initial_checked inst p (qr_initial q) (fri_alpha ch) (query_point p x)
                            (precomputed_reduced_openings openings (fri_alpha ch)) = Some oe
    /\ steps_fold (qr_steps q) (reduction_arity_bits p) (fri_betas ch) 0 x (query_point p x) oe.

Lemma forallb_ext' {A} (f g : A -> bool) : (forall a, f a = g a) -> forall l, forallb f l = forallb g l.
Proof. intros E. induction l as [|a l IH]; [reflexivity|]. cbn [forallb]. rewrite E, IH. reflexivity. Qed.

(* fri_combine_initial reads the leaf values only, not the Merkle paths *)
Lemma unsalted_evals_fst ini ini' oi salted : map fst ini = map fst ini' ->
  unsalted_evals ini oi salted = unsalted_evals ini' oi salted.
Proof.
  intros E. unfold unsalted_evals.
  assert (E' : fst (nth oi ini ([], [])) = fst (nth oi ini' ([], []))).
  { rewrite <- (map_nth fst ini ([], []) oi), <- (map_nth fst ini' ([], []) oi), E. reflexivity. }
  rewrite E'. reflexivity.
Qed.

Lemma combine_batches_fst inst p ini ini' alpha sx : map fst ini = map fst ini' ->
  forall bs reduced sum,
    combine_batches inst p ini alpha sx bs reduced sum = combine_batches inst p ini' alpha sx bs reduced sum.
Proof.
  intros E. induction bs as [|b bt IH]; intros [|ro rt] sum; cbn [combine_batches]; try reflexivity.
  assert (Em : map (fun pi => let salted := hiding p && blinding (nth (oracle_index pi) (oracles inst) {| num_polys := 0; blinding := false |}) in
                              fp2_of_base (nth (polynomial_index pi) (unsalted_evals ini (oracle_index pi) salted) 0%F))
                   (polynomials b)
               = map (fun pi => let salted := hiding p && blinding (nth (oracle_index pi) (oracles inst) {| num_polys := 0; blinding := false |}) in
                                fp2_of_base (nth (polynomial_index pi) (unsalted_evals ini' (oracle_index pi) salted) 0%F))
                     (polynomials b)).
  { apply map_ext. intros pi. cbv zeta. rewrite (unsalted_evals_fst ini ini' _ _ E). reflexivity. }
  cbv zeta in Em. rewrite Em.
  destruct (sx - point b =? 0)%F; [reflexivity|apply IH].
Qed.

Lemma combine_checked_fst inst p ini ini' alpha sx reduced : map fst ini = map fst ini' ->
  combine_initial_checked inst p ini alpha sx reduced = combine_initial_checked inst p ini' alpha sx reduced.
Proof.
  intros E. unfold combine_initial_checked.
  assert (Eg : combine_guard inst p ini = combine_guard inst p ini').
  { unfold combine_guard. apply forallb_ext'. intros b. apply forallb_ext'. intros pi.
    destruct (nth_error (oracles inst) (oracle_index pi)) as [o|]; [|reflexivity].
    pose proof (nth_error_map fst (oracle_index pi) ini) as E1.
    pose proof (nth_error_map fst (oracle_index pi) ini') as E2. rewrite E in E1. rewrite E1 in E2.
    destruct (nth_error ini (oracle_index pi)) as [ep|]; destruct (nth_error ini' (oracle_index pi)) as [ep'|];
      cbn [option_map] in E2; try discriminate E2; [|reflexivity].
    injection E2 as ->. reflexivity. }
  rewrite Eg. unfold fri_combine_initial. rewrite (combine_batches_fst inst p ini ini' alpha _ E). reflexivity.
Qed.

Section RoundTrip.
  Variable H : list Fp -> digest.
  Variable T2 : digest -> digest -> digest.
  Variable h n : nat.                      (* cap height, log2 of the LDE size *)

  (* the openings (lf key, pth key) at the given keys compress and decompress (path_compression.rs) *)
  Definition CPS (k : nat) (lf : nat -> list Fp) (pth : nat -> list digest) (keys : list nat) : Prop :=
    exists cps,
      compress_merkle_proofs digest h keys (map pth keys) = Some cps
      /\ decompress_merkle_proofs Fp digest H T2 (map lf keys) keys cps k h = Some (map pth keys).

  (* sizes of the commit-phase layers: height k - a, cosets of 2^a values *)
  Fixpoint flayers_ok (k : nat) (arities : list nat) (layers : list layer_fn) : Prop :=
    match arities, layers with
    | [], [] => h <= k
    | a :: at', lf :: lt =>
      a <= k /\ (forall c, c < 2 ^ (k - a) -> length (fst lf c) = 2 ^ a) /\ flayers_ok (k - a) at' lt
    | _, _ => False
    end.

  Definition LvOk (lv : level) : Prop :=
    lv_s lv + lv_a lv + lv_k lv = n /\ h <= lv_k lv
    /\ (forall c, c < 2 ^ lv_k lv -> length (lv_cos lv c) = 2 ^ lv_a lv).

  Lemma flayers_ok_h : forall arities layers k, flayers_ok k arities layers -> h <= k.
  Proof.
    induction arities as [|a at' IH]; intros [|c lt] k Hok; cbn [flayers_ok] in Hok; try contradiction; [exact Hok|].
    destruct Hok as (Ha & _ & Hr). apply IH in Hr. lia.
  Qed.

  Lemma flayers_ok_length : forall arities layers k, flayers_ok k arities layers -> length layers = length arities.
  Proof.
    induction arities as [|a at' IH]; intros [|c lt] k Hok; cbn [flayers_ok] in Hok; try contradiction; [reflexivity|].
    destruct Hok as (_ & _ & Hr). cbn [length]. f_equal. eapply IH. exact Hr.
  Qed.

  Lemma levels_ok : forall arities layers s k,
    s + k = n -> flayers_ok k arities layers -> Forall LvOk (levels s k arities layers).
  Proof.
    induction arities as [|a at' IH]; intros [|c lt] s k Hsk Hok; cbn [flayers_ok] in Hok; try contradiction;
      cbn [levels]; [constructor|].
    destruct Hok as (Ha & Hc & Hr). constructor.
    - unfold LvOk. cbn [lv_s lv_a lv_k lv_cos]. pose proof (flayers_ok_h _ _ _ Hr). repeat split; auto; lia.
    - apply IH; [lia|exact Hr].
  Qed.

  Lemma levels_length : forall arities layers s k, length layers = length arities ->
    length (levels s k arities layers) = length arities.
  Proof.
    induction arities as [|a at' IH]; intros [|c lt] s k Hl; cbn [length] in Hl; try discriminate; [reflexivity|].
    cbn [levels length]. f_equal. apply IH. lia.
  Qed.

  Lemma levels_arities : forall arities layers s k, length layers = length arities ->
    map lv_a (levels s k arities layers) = arities.
  Proof.
    induction arities as [|a at' IH]; intros [|c lt] s k Hl; cbn [length] in Hl; try discriminate; [reflexivity|].
    cbn [levels map lv_a]. f_equal. apply IH. lia.
  Qed.

  Lemma ci_lt lv x : LvOk lv -> x < 2 ^ n -> ci lv x < 2 ^ lv_k lv.
  Proof.
    intros (Hs & _) Hx. unfold ci. apply div_pow_lt. rewrite Hs. exact Hx.
  Qed.

  Lemma wi_lt lv x : wi lv x < 2 ^ lv_a lv.
  Proof. unfold wi. apply Nat.mod_upper_bound. apply Nat.pow_nonzero. lia. Qed.

  Lemma coset_length lv x : LvOk lv -> x < 2 ^ n -> length (coset lv x) = 2 ^ lv_a lv.
  Proof.
    intros Hok Hx. pose proof (ci_lt lv x Hok Hx) as Hc. destruct Hok as (_ & _ & Hall).
    apply Hall. exact Hc.
  Qed.

  (* ---------------------------------------------------------------------------------------- *)
  (* 4. query rounds given by functions of the index: leaf and path per oracle, coset and path
        per layer                                                                               *)
  Variable NT : nat.                                  (* number of initial trees *)
  Variable ileaf : nat -> nat -> list Fp.             (* oracle, index -> leaf *)
  Variable ipath : nat -> nat -> list digest.         (* oracle, index -> Merkle path *)

  Definition gen_initial (x : nat) : list (list Fp * list digest) :=
    map (fun t => (ileaf t x, ipath t x)) (seq 0 NT).
  Definition gen_steps (L : list level) (x : nat) : list fri_query_step :=
    map (fun lv => {| fs_evals := coset lv x; fs_siblings := lopen lv x |}) L.
  Definition gen_round (L : list level) (x : nat) : fri_query_round :=
    {| qr_initial := gen_initial x; qr_steps := gen_steps L x |}.

  (* ---------------------------------------------------------------------------------------- *)
  (* 5. FriProof::compress on such rounds                                                       *)

  Lemma compress_all_length nl : forall ips known r,
    compress_all digest known nl ips = Some r -> length r = length ips.
  Proof.
    induction ips as [|[i p] t IH]; intros known r E; cbn [compress_all] in E.
    - injection E as <-. reflexivity.
    - destruct (compress_one digest known (i + nl) p) as [[known' cp]|]; [|discriminate E].
      destruct (compress_all digest known' nl t) as [r'|] eqn:E'; [|discriminate E].
      injection E as <-. cbn [length]. f_equal. eapply IH. exact E'.
  Qed.

  Lemma compress_merkle_proofs_length indices proofs cps :
    length proofs = length indices ->
    compress_merkle_proofs digest h indices proofs = Some cps -> length cps = length indices.
  Proof.
    intros Hl E. unfold compress_merkle_proofs in E. destruct proofs as [|p0 pt]; [discriminate E|].
    match type of E with match ?X with _ => _ end = _ => destruct X as [known|]; [|discriminate E] end.
    apply compress_all_length in E. rewrite E, combine_length. lia.
  Qed.

  (* the compressed paths of a family of openings at the given keys *)
  Definition cps_of (pth : nat -> list digest) (keys : list nat) : list (list digest) :=
    match compress_merkle_proofs digest h keys (map pth keys) with
    | Some c => c
    | None => []
    end.

  Lemma cps_of_ok k lf pth keys : CPS k lf pth keys ->
    compress_merkle_proofs digest h keys (map pth keys) = Some (cps_of pth keys)
    /\ decompress_merkle_proofs Fp digest H T2 (map lf keys) keys (cps_of pth keys) k h = Some (map pth keys)
    /\ length (cps_of pth keys) = length keys.
  Proof.
    intros (cps & Ec & Ed). unfold cps_of. rewrite Ec. split; [reflexivity|]. split; [exact Ed|].
    apply (compress_merkle_proofs_length keys (map pth keys) cps); [apply map_length|exact Ec].
  Qed.

  Variable idx : list nat.
  Hypothesis idx_ne : idx <> [].
  Hypothesis idx_lt : forall x, In x idx -> x < 2 ^ n.
  Hypothesis icps : forall t, t < NT -> CPS n (ileaf t) (ipath t) idx.

  Notation N := (length idx).
  Notation pos := (seq 0 (length idx)).
  Definition xi (i : nat) : nat := nth i idx 0.

  Lemma nth_error_seq0 M i : i < M -> nth_error (seq 0 M) i = Some i.
  Proof.
    intros Hi. rewrite (nth_error_nth' _ 0) by (rewrite seq_length; exact Hi). rewrite seq_nth by exact Hi. reflexivity.
  Qed.

  Lemma map_xi {B} (f : nat -> B) : map (fun i => f (xi i)) pos = map f idx.
  Proof. symmetry. apply (map_nth_seq f 0 idx). Qed.

  Lemma combine_pos {A B} (f : nat -> A) (c : list B) (d : B) : length c = N ->
    combine (map f idx) c = map (fun i => (f (xi i), nth i c d)) pos.
  Proof.
    intros Hl.
    assert (E : combine (map f idx) c = map (fun p => (f (fst p), snd p)) (combine idx c)).
    { clear idx_ne idx_lt. revert c Hl. generalize idx as l. induction l as [|x l IH]; intros [|y c] Hl;
        cbn [length] in Hl; try discriminate; [reflexivity|].
      cbn [map combine fst snd]. f_equal. apply IH. lia. }
    rewrite E. rewrite (map_nth_seq (fun p => (f (fst p), snd p)) (0, d) (combine idx c)).
    rewrite combine_length, Hl, Nat.min_id.
    apply map_ext_in. intros i Hi. apply in_seq in Hi.
    rewrite combine_nth by (symmetry; exact Hl). reflexivity.
  Qed.

  (* row entries of the transposition *)
  Definition fI (t x : nat) : nat * list Fp * list digest := (x, ileaf t x, ipath t x).
  Definition fS (lv : level) (x : nat) : nat * list Fp2 * list digest :=
    (ci lv x, remove_total (wi lv x) (coset lv x), lopen lv x).

  Lemma step_entries_spec x : x < 2 ^ n -> forall arities0 layers0 s k,
    s + k = n -> flayers_ok k arities0 layers0 ->
    step_entries (x / 2 ^ s) (gen_steps (levels s k arities0 layers0) x) arities0
    = Some (map (fun lv => fS lv x) (levels s k arities0 layers0)).
  Proof.
    intros Hx. induction arities0 as [|a at' IH]; intros [|c lt] s k Hsk Hok; cbn [flayers_ok] in Hok;
      try contradiction; [reflexivity|].
    pose proof (levels_ok (a :: at') (c :: lt) s k Hsk Hok) as HL. cbn [levels] in HL. inversion HL as [|lv0 Lr Hlv0 _]; subst.
    destruct Hok as (Ha & Hc & Hr).
    cbn [levels gen_steps map step_entries fs_evals fs_siblings].
    set (lv := {| lv_s := s; lv_a := a; lv_k := k - a; lv_cos := fst c; lv_pth := snd c |}) in *.
    change ((x / 2 ^ s) mod 2 ^ a) with (wi lv x).
    rewrite remove_nth_spec by (rewrite (coset_length lv x Hlv0 Hx); apply wi_lt).
    rewrite div_pow_add.
    fold (gen_steps (levels (s + a) (k - a) at' lt) x).
    rewrite (IH lt (s + a) (k - a) ltac:(lia) Hr). reflexivity.
  Qed.

  Section WithLayers.
  Variable arities : list nat.
  Variable layers : list layer_fn.
  Hypothesis Hok : flayers_ok n arities layers.

  Notation L := (levels 0 n arities layers).
  Hypothesis lcps : forall lv, In lv L ->
    CPS (lv_k lv) (fun c => flatten2 (lv_cos lv c)) (lv_pth lv) (map (ci lv) idx).

  Lemma L_ok : Forall LvOk L.
  Proof. apply levels_ok; [reflexivity|exact Hok]. Qed.

  Lemma L_length : length L = length arities.
  Proof. apply levels_length. eapply flayers_ok_length. exact Hok. Qed.

  Lemma transpose_spec : forall todo done,
    (forall x, In x todo -> x < 2 ^ n) ->
    transpose_loop arities (combine todo (map (gen_round L) todo))
                   (map (fun t => map (fI t) done) (seq 0 NT)) (map (fun lv => map (fS lv) done) L)
    = Some (map (fun t => map (fI t) (done ++ todo)) (seq 0 NT), map (fun lv => map (fS lv) (done ++ todo)) L).
  Proof.
    induction todo as [|x todo IH]; intros done Hlt.
    - cbn [map combine transpose_loop]. rewrite app_nil_r. reflexivity.
    - cbn [map combine transpose_loop gen_round qr_initial qr_steps].
      unfold gen_initial, init_entries. rewrite map_map. cbn [fst snd].
      change (map (fun t => (x, ileaf t x, ipath t x)) (seq 0 NT))
        with (map (fun t => fI t x) (seq 0 NT)).
      rewrite push_rows_map.
      pose proof (step_entries_spec x (Hlt x (or_introl eq_refl)) arities layers 0 n eq_refl Hok) as Hse.
      rewrite Nat.pow_0_r, Nat.div_1_r in Hse. rewrite Hse.
      rewrite push_rows_map.
      assert (E1 : map (fun t => map (fI t) done ++ [fI t x]) (seq 0 NT)
                   = map (fun t => map (fI t) ((done ++ [x]))) (seq 0 NT))
        by (apply map_ext; intros t; rewrite map_app; reflexivity).
      assert (E2 : map (fun lv => map (fS lv) done ++ [fS lv x]) L = map (fun lv => map (fS lv) (done ++ [x])) L)
        by (apply map_ext; intros t; rewrite map_app; reflexivity).
      rewrite E1, E2, IH by (intros; apply Hlt; right; assumption).
      rewrite <- app_assoc. reflexivity.
  Qed.

  (* the compressed rows, by position of the query *)
  Definition icol (t i : nat) : list Fp * list digest :=
    (ileaf t (xi i), nth i (cps_of (ipath t) idx) []).
  Definition scol (lv : level) (i : nat) : list Fp2 * list digest :=
    (remove_total (wi lv (xi i)) (coset lv (xi i)),
     nth i (cps_of (lv_pth lv) (map (ci lv) idx)) []).
  Definition icolumn (i : nat) : list (list Fp * list digest) := map (fun t => icol t i) (seq 0 NT).
  Definition mkstep (ep : list Fp2 * list digest) : fri_query_step := {| fs_evals := fst ep; fs_siblings := snd ep |}.

  Lemma compress_row_init t : t < NT ->
    compress_row h (map (fI t) idx) = Some (map (icol t) pos).
  Proof.
    intros Ht. unfold compress_row.
    assert (E1 : map e_idx (map (fI t) idx) = idx) by (rewrite map_map; cbn; apply map_id).
    assert (E2 : map e_path (map (fI t) idx) = map (ipath t) idx) by (rewrite map_map; reflexivity).
    assert (E3 : map e_leaf (map (fI t) idx) = map (ileaf t) idx) by (rewrite map_map; reflexivity).
    rewrite E1, E2, E3.
    destruct (cps_of_ok n (ileaf t) (ipath t) idx (icps t Ht)) as (Ec & _ & El).
    rewrite Ec. rewrite (combine_pos (ileaf t) _ [] El). reflexivity.
  Qed.

  Lemma lv_cps_ok lv : In lv L ->
    compress_merkle_proofs digest h (map (ci lv) idx) (map (lopen lv) idx)
    = Some (cps_of (lv_pth lv) (map (ci lv) idx))
    /\ decompress_merkle_proofs Fp digest H T2 (map (fun x => flatten2 (coset lv x)) idx) (map (ci lv) idx)
         (cps_of (lv_pth lv) (map (ci lv) idx)) (lv_k lv) h = Some (map (lopen lv) idx)
    /\ length (cps_of (lv_pth lv) (map (ci lv) idx)) = N.
  Proof.
    intros Hlv.
    destruct (cps_of_ok (lv_k lv) _ (lv_pth lv) (map (ci lv) idx) (lcps lv Hlv)) as (Ec & Ed & El).
    assert (Em : map (lv_pth lv) (map (ci lv) idx) = map (lopen lv) idx) by (rewrite map_map; reflexivity).
    assert (El' : map (fun c => flatten2 (lv_cos lv c)) (map (ci lv) idx) = map (fun x => flatten2 (coset lv x)) idx)
      by (rewrite map_map; reflexivity).
    rewrite Em in Ec, Ed. rewrite El' in Ed. rewrite map_length in El. auto.
  Qed.

  Lemma compress_row_step lv : In lv L ->
    compress_row h (map (fS lv) idx) = Some (map (scol lv) pos).
  Proof.
    intros Hlv. unfold compress_row.
    assert (E1 : map e_idx (map (fS lv) idx) = map (ci lv) idx) by (rewrite map_map; reflexivity).
    assert (E2 : map e_path (map (fS lv) idx) = map (lopen lv) idx) by (rewrite map_map; reflexivity).
    assert (E3 : map e_leaf (map (fS lv) idx) = map (fun x => remove_total (wi lv x) (coset lv x)) idx)
      by (rewrite map_map; reflexivity).
    rewrite E1, E2, E3.
    destruct (lv_cps_ok lv Hlv) as (Ec & _ & El). rewrite Ec.
    rewrite (combine_pos (fun x => remove_total (wi lv x) (coset lv x)) _ [] El). reflexivity.
  Qed.

  Notation or_insert := (Dedup.or_insert _).
  Notation lookup := (Dedup.lookup _).

  Lemma build_steps_spec i x : i < N -> forall arities0 layers0 s k (acc : level -> list (nat * fri_query_step)),
    length layers0 = length arities0 ->
    build_steps (x / 2 ^ s) i arities0 (map (fun lv => map (scol lv) pos) (levels s k arities0 layers0))
                (map acc (levels s k arities0 layers0))
    = Some (map (fun lv => or_insert (acc lv) (ci lv x) (mkstep (scol lv i))) (levels s k arities0 layers0)).
  Proof.
    intros Hi. induction arities0 as [|a at' IH]; intros [|c lt] s k acc Hl; cbn [length] in Hl; try discriminate;
      [reflexivity|].
    cbn [levels map build_steps].
    rewrite (map_nth_error _ i pos (nth_error_seq0 N i Hi)).
    rewrite div_pow_add. rewrite (IH lt (s + a) (k - a) acc ltac:(lia)). reflexivity.
  Qed.

  Definition MI_of (l : list nat) : list (nat * list (list Fp * list digest)) :=
    fold_left (fun m i => or_insert m (xi i) (icolumn i)) l [].
  Definition MS_of (lv : level) (l : list nat) : list (nat * fri_query_step) :=
    fold_left (fun m i => or_insert m (ci lv (xi i)) (mkstep (scol lv i))) l [].

  Lemma skipn_cons_nth {A} (d0 : A) : forall (l : list A) d x r, skipn d l = x :: r -> nth d l d0 = x /\ skipn (S d) l = r /\ d < length l.
  Proof.
    induction l as [|y l IH]; intros d x r E.
    - destruct d; discriminate E.
    - destruct d as [|d].
      + cbn in E. injection E as -> ->. cbn. repeat split. lia.
      + cbn [skipn] in E. destruct (IH d x r E) as (E1 & E2 & E3). cbn [nth length]. repeat split; auto. lia.
  Qed.

  Lemma build_maps_spec : forall todo d, d <= N -> skipn d idx = todo ->
    build_maps arities d todo (map (fun t => map (icol t) pos) (seq 0 NT)) (map (fun lv => map (scol lv) pos) L)
               (MI_of (seq 0 d)) (map (fun lv => MS_of lv (seq 0 d)) L)
    = Some (MI_of pos, map (fun lv => MS_of lv pos) L).
  Proof.
    induction todo as [|x todo IH]; intros d Hd Hsk.
    - cbn [build_maps].
      assert (Hlen : length (skipn d idx) = N - d) by apply skipn_length. rewrite Hsk in Hlen. cbn in Hlen.
      replace d with N by lia. reflexivity.
    - destruct (skipn_cons_nth 0 idx d x todo Hsk) as (Ex & Er & Hlt). fold (xi d) in Ex.
      cbn [build_maps].
      rewrite (col_map icol pos d d (nth_error_seq0 N d Hlt)).
      pose proof (build_steps_spec d x Hlt arities layers 0 n (fun lv => MS_of lv (seq 0 d))
                    (flayers_ok_length _ _ _ Hok)) as Hbs.
      rewrite Nat.pow_0_r, Nat.div_1_r in Hbs. rewrite Hbs.
      assert (E1 : or_insert (MI_of (seq 0 d)) x (map (fun t => icol t d) (seq 0 NT)) = MI_of (seq 0 (S d))).
      { unfold MI_of. rewrite seq_S, fold_left_app. cbn [fold_left Nat.add]. rewrite Ex. reflexivity. }
      assert (E2 : map (fun lv => or_insert (MS_of lv (seq 0 d)) (ci lv x) (mkstep (scol lv d))) L
                   = map (fun lv => MS_of lv (seq 0 (S d))) L).
      { apply map_ext. intros lv. unfold MS_of. rewrite seq_S, fold_left_app. cbn [fold_left Nat.add].
        rewrite Ex. reflexivity. }
      rewrite E1, E2. apply IH; [lia|exact Er].
  Qed.

  (* ------------------------------------------------------------------ compress, assembled *)
  Notation MI := (MI_of pos).
  Definition MS (lv : level) : list (nat * fri_query_step) := MS_of lv pos.

  Lemma idx_cons : exists x0 r, idx = x0 :: r.
  Proof. destruct idx as [|x0 r]; [contradiction|eauto]. Qed.

  Lemma compress_spec pr p :
    fp_rounds pr = map (gen_round L) idx -> cap_height (config p) = h -> reduction_arity_bits p = arities ->
    compress pr idx p
    = Some {| cfp_caps := fp_caps pr;
              cfp_rounds := {| cq_indices := idx; cq_initial := MI; cq_steps := map MS L |};
              cfp_final := fp_final pr; cfp_pow_witness := fp_pow_witness pr |}.
  Proof.
    intros Hr Hc Ha. unfold compress. rewrite Hr, Hc, Ha.
    destruct idx_cons as (x0 & r0 & Ei).
    assert (Eq0 : map (gen_round L) idx = gen_round L x0 :: map (gen_round L) r0) by (rewrite Ei; reflexivity).
    rewrite Eq0. rewrite <- Eq0. cbn [gen_round qr_initial]. unfold gen_initial at 1. rewrite map_length, seq_length.
    assert (R1 : repeat (@nil (nat * list Fp * list digest)) NT = map (fun t => map (fI t) []) (seq 0 NT)).
    { rewrite <- (seq_length NT 0) at 1. apply repeat_map_nil. }
    assert (R2 : repeat (@nil (nat * list Fp2 * list digest)) (length arities) = map (fun lv => map (fS lv) []) L).
    { rewrite <- L_length. apply repeat_map_nil. }
    rewrite R1, R2. rewrite (transpose_spec idx [] idx_lt). cbn [app].
    rewrite map_opt_map.
    rewrite (map_opt_ext_in _ (fun t => map (icol t) pos)) by (intros t Ht; apply in_seq in Ht; apply compress_row_init; lia).
    rewrite map_opt_map.
    rewrite (map_opt_ext_in _ (fun lv => map (scol lv) pos))
      by (intros lv Hlv; apply compress_row_step; exact Hlv).
    assert (R3 : repeat (@nil (nat * fri_query_step)) (length arities) = map (fun lv => MS_of lv (seq 0 0)) L).
    { rewrite <- L_length. apply repeat_map_nil. }
    rewrite R3. change (@nil (nat * list (list Fp * list digest))) with (MI_of (seq 0 0)).
    rewrite (build_maps_spec idx 0 ltac:(lia) eq_refl). reflexivity.
  Qed.

  (* ---------------------------------------------------------------------------------------- *)
  (* 6. the maps, looked up                                                                     *)
  Definition d0 : list Fp * list digest := ([], []).
  Definition dstep : fri_query_step := {| fs_evals := []; fs_siblings := [] |}.
  Definition LI (x : nat) : list (list Fp * list digest) :=
    match lookup MI x with Some ip => ip | None => [] end.
  Definition LS (lv : level) (c : nat) : fri_query_step :=
    match lookup (MS lv) c with Some st => st | None => dstep end.

  Lemma lookup_MI k : lookup MI k = lookup (map (fun i => (xi i, icolumn i)) pos) k.
  Proof. unfold MI_of. rewrite lookup_fold_or_insert. reflexivity. Qed.

  Lemma lookup_MS lv c : lookup (MS lv) c = lookup (map (fun i => (ci lv (xi i), mkstep (scol lv i))) pos) c.
  Proof. unfold MS, MS_of. rewrite lookup_fold_or_insert. reflexivity. Qed.

  Lemma MI_in x : In x idx -> exists i, i < N /\ xi i = x /\ lookup MI x = Some (icolumn i).
  Proof.
    intros Hin. destruct (In_nth idx x 0 Hin) as (j & Hj & Ej). fold (xi j) in Ej.
    destruct (lookup_raw_some _ xi icolumn pos j ltac:(apply in_seq; lia)) as (i & Hi & Ek & El).
    apply in_seq in Hi. exists i. rewrite lookup_MI, <- Ej. repeat split; [lia|exact Ek|exact El].
  Qed.

  Lemma LI_spec x t : In x idx -> t < NT ->
    length (LI x) = NT /\ fst (nth t (LI x) d0) = ileaf t x
    /\ exists i, i < N /\ xi i = x /\ LI x = icolumn i.
  Proof.
    intros Hin Ht. destruct (MI_in x Hin) as (i & Hi & Ex & El). unfold LI. rewrite El.
    split; [unfold icolumn; rewrite map_length, seq_length; reflexivity|]. split; [|eauto].
    unfold icolumn. rewrite nth_map_seq by exact Ht. unfold icol. cbn [fst]. rewrite Ex. reflexivity.
  Qed.

  Lemma xi_done {B} (f : nat -> B) done x todo : idx = done ++ x :: todo ->
    map (fun i => f (xi i)) (seq 0 (length done)) = map f done /\ xi (length done) = x.
  Proof.
    intros Ei. split.
    - rewrite (map_nth_seq f 0 done). apply map_ext_in. intros i Hi. apply in_seq in Hi.
      unfold xi. rewrite Ei, app_nth1 by lia. reflexivity.
    - unfold xi. rewrite Ei, app_nth2, Nat.sub_diag by lia. reflexivity.
  Qed.

  Lemma pos_split done x todo : idx = done ++ x :: todo ->
    pos = seq 0 (length done) ++ length done :: seq (S (length done)) (length todo).
  Proof.
    intros Ei. rewrite Ei, app_length. cbn [length]. rewrite seq_app. cbn [seq Nat.add]. reflexivity.
  Qed.

  Lemma MS_spec lv done x todo : idx = done ++ x :: todo ->
    exists st, lookup (MS lv) (ci lv x) = Some st
               /\ (~ In (ci lv x) (map (ci lv) done) -> fs_evals st = remove_total (wi lv x) (coset lv x)).
  Proof.
    intros Ei. destruct (xi_done (ci lv) done x todo Ei) as [Ed Ex].
    rewrite lookup_MS.
    set (key := fun i => ci lv (xi i)). set (val := fun i => mkstep (scol lv i)).
    assert (Ekey : key (length done) = ci lv x) by (unfold key; rewrite Ex; reflexivity).
    rewrite <- Ekey.
    change (map (fun i => (ci lv (xi i), mkstep (scol lv i))) pos) with (map (fun i => (key i, val i)) pos).
    assert (Hd : In (length done) pos) by (rewrite (pos_split _ _ _ Ei); apply in_or_app; right; left; reflexivity).
    destruct (lookup_raw_some _ key val pos (length done) Hd) as (i & _ & _ & El).
    rewrite El. eexists. split; [reflexivity|].
    intros Hn. rewrite (pos_split _ _ _ Ei) in El.
    rewrite (lookup_raw_first _ key val) in El.
    - assert (Ev : val (length done) = val i) by congruence. rewrite <- Ev.
      unfold val, mkstep, scol. cbn [fs_evals fst]. rewrite Ex. reflexivity.
    - fold key in Ed. rewrite Ed. exact Hn.
  Qed.

  (* ---------------------------------------------------------------------------------------- *)
  (* 7. CompressedFriProof::decompress: the main loop                                           *)
  Definition gI (t x : nat) : nat * list Fp * list digest := (x, fst (nth t (LI x) d0), snd (nth t (LI x) d0)).
  Definition gS (lv : level) (x : nat) : nat * list Fp * list digest :=
    (ci lv x, flatten2 (coset lv x), fs_siblings (LS lv (ci lv x))).

  (* evals_by_depth after the queries [done]: the cosets reached so far, with their full evals *)
  Definition ES (done : list nat) (lv : level) (e : list (nat * list Fp2)) : Prop :=
    forall c, Dedup.lookup (list Fp2) e c
              = if existsb (Nat.eqb c) (map (ci lv) done) then Some (lv_cos lv c) else None.

  (* the inferred elements consumed by query x after the queries [done]: at every layer whose
     coset was not reached before, the evaluation at x's position in the coset *)
  Definition stream_q (Ls : list level) (done : list nat) (x : nat) : list Fp2 :=
    flat_map (fun lv => if existsb (Nat.eqb (ci lv x)) (map (ci lv) done) then []
                        else [nth (wi lv x) (coset lv x) (fzero : Fp2)]) Ls.

  Fixpoint stream (Ls : list level) (done todo : list nat) : list Fp2 :=
    match todo with
    | [] => []
    | x :: r => stream_q Ls done x ++ stream Ls (done ++ [x]) r
    end.

  Lemma ES_snoc_seen done lv e x : ES done lv e -> In (ci lv x) (map (ci lv) done) -> ES (done ++ [x]) lv e.
  Proof.
    intros He Hin c. rewrite (He c), map_app, existsb_app. cbn [map existsb]. rewrite orb_false_r.
    destruct (Nat.eqb_spec c (ci lv x)) as [->|Hne]; [|rewrite orb_false_r; reflexivity].
    apply existsb_eqb_In in Hin. rewrite Hin. reflexivity.
  Qed.

  Lemma ES_snoc_new done lv e x : ES done lv e ->
    ES (done ++ [x]) lv ((ci lv x, coset lv x) :: e).
  Proof.
    intros He c. cbn [Dedup.lookup]. rewrite map_app, existsb_app. cbn [map existsb]. rewrite orb_false_r.
    destruct (Nat.eqb_spec c (ci lv x)) as [->|Hne].
    - rewrite orb_true_r. reflexivity.
    - rewrite orb_false_r. apply He.
  Qed.

  Lemma dec_steps_spec x done todo : idx = done ++ x :: todo -> forall arities0 layers0 s k ebd rest,
    s + k = n -> flayers_ok k arities0 layers0 ->
    Forall2 (ES done) (levels s k arities0 layers0) ebd ->
    exists ebd',
      dec_steps (x / 2 ^ s) arities0 (map MS (levels s k arities0 layers0))
                (map (fun lv => map (gS lv) done) (levels s k arities0 layers0)) ebd
                (stream_q (levels s k arities0 layers0) done x ++ rest)
      = Some (map (fun lv => map (gS lv) (done ++ [x])) (levels s k arities0 layers0), ebd', rest)
      /\ Forall2 (ES (done ++ [x])) (levels s k arities0 layers0) ebd'.
  Proof.
    intros Ei.
    assert (Hx : x < 2 ^ n) by (apply idx_lt; rewrite Ei; apply in_or_app; right; left; reflexivity).
    induction arities0 as [|a at' IH]; intros [|c lt] s k ebd rest Hsk Hlok HE; cbn [flayers_ok] in Hlok;
      try contradiction.
    - cbn [levels] in *. inversion HE; subst. exists []. split; [reflexivity|constructor].
    - pose proof (levels_ok (a :: at') (c :: lt) s k Hsk Hlok) as HL. cbn [levels] in HL, HE |- *.
      inversion HL as [|lv0 Lr Hlv0 _]; subst.
      destruct Hlok as (Ha & Hc & Hr).
      set (lv := {| lv_s := s; lv_a := a; lv_k := k - a; lv_cos := fst c; lv_pth := snd c |}) in *.
      inversion HE as [|lv1 e Ls1 et He Het]; subst.
      destruct (MS_spec lv done x todo Ei) as (st & Est & Hst).
      cbn [map dec_steps stream_q flat_map]. rewrite div_pow_add.
      change (x / 2 ^ (s + a)) with (ci lv x). rewrite Est.
      rewrite (He (ci lv x)).
      fold (stream_q (levels (s + a) (k - a) at' lt) done x).
      assert (ELS : LS lv (ci lv x) = st) by (unfold LS; rewrite Est; reflexivity).
      assert (Erow : map (gS lv) (done ++ [x])
                     = map (gS lv) done ++ [(ci lv x, flatten2 (coset lv x), fs_siblings st)]).
      { rewrite map_app. cbn [map]. unfold gS at 2. rewrite ELS. reflexivity. }
      destruct (existsb (Nat.eqb (ci lv x)) (map (ci lv) done)) eqn:Eb.
      + cbn [app].
        destruct (IH lt (s + a) (k - a) et rest ltac:(lia) Hr Het) as (et' & Ed & HE').
        change (x / 2 ^ (s + a)) with (ci lv x) in Ed. rewrite Ed.
        exists (e :: et'). split.
        * rewrite Erow. reflexivity.
        * constructor; [|exact HE']. apply ES_snoc_seen; [exact He|]. apply existsb_eqb_In. exact Eb.
      + cbn [app]. change ((x / 2 ^ s) mod 2 ^ a) with (wi lv x).
        rewrite Hst by (apply existsb_eqb_notIn; exact Eb).
        rewrite insert_remove
          by (apply nth_error_nth'; rewrite (coset_length lv x Hlv0 Hx); apply wi_lt).
        destruct (IH lt (s + a) (k - a) et rest ltac:(lia) Hr Het) as (et' & Ed & HE').
        change (x / 2 ^ (s + a)) with (ci lv x) in Ed. rewrite Ed.
        exists (((ci lv x, coset lv x) :: e) :: et'). split.
        * rewrite Erow. reflexivity.
        * constructor; [|exact HE']. apply ES_snoc_new. exact He.
  Qed.

  Lemma dec_loop_spec cq : cq_initial cq = MI -> cq_steps cq = map MS L -> forall todo done ebd,
    idx = done ++ todo -> Forall2 (ES done) L ebd ->
    dec_loop arities cq todo (map (fun t => map (gI t) done) (seq 0 NT)) (map (fun lv => map (gS lv) done) L)
             ebd (stream L done todo)
    = Some (map (fun t => map (gI t) idx) (seq 0 NT), map (fun lv => map (gS lv) idx) L).
  Proof.
    intros Hci Hcs. induction todo as [|x todo IH]; intros done ebd Ei HE.
    - rewrite app_nil_r in Ei. subst done. reflexivity.
    - cbn [dec_loop stream]. rewrite Hci, Hcs.
      assert (Hin : In x idx) by (rewrite Ei; apply in_or_app; right; left; reflexivity).
      destruct (MI_in x Hin) as (i & Hi & Ex & El). rewrite El.
      assert (Eip : init_entries x (icolumn i) = map (fun t => gI t x) (seq 0 NT)).
      { unfold init_entries. rewrite (map_nth_seq _ d0 (icolumn i)).
        assert (Elen : length (icolumn i) = NT) by (unfold icolumn; rewrite map_length, seq_length; reflexivity).
        rewrite Elen. apply map_ext. intros t. unfold gI, LI. rewrite El. reflexivity. }
      rewrite Eip, push_rows_map.
      destruct (dec_steps_spec x done todo Ei arities layers 0 n ebd (stream L (done ++ [x]) todo) eq_refl Hok HE)
        as (ebd' & Ed & HE').
      rewrite Nat.pow_0_r, Nat.div_1_r in Ed. rewrite Ed.
      assert (E1 : map (fun t => map (gI t) done ++ [gI t x]) (seq 0 NT)
                   = map (fun t => map (gI t) (done ++ [x])) (seq 0 NT))
        by (apply map_ext; intros t; rewrite map_app; reflexivity).
      rewrite E1. apply IH; [rewrite <- app_assoc; exact Ei|exact HE'].
  Qed.

  (* ---------------------------------------------------------------------------------------- *)
  (* 8. decompress: Merkle decompression of the rows and reassembly                             *)
  Notation JRd := (JR digest).

  Lemma combine_self {B} (P : nat -> B) (l : list nat) : combine l (map P l) = map (fun x => (x, P x)) l.
  Proof. induction l as [|x l IH]; [reflexivity|]. cbn [map combine]. f_equal. exact IH. Qed.

  Lemma combine_map2 {A B C} (f : A -> B) (g : A -> C) (l : list A) :
    combine (map f l) (map g l) = map (fun x => (f x, g x)) l.
  Proof. induction l as [|x l IH]; [reflexivity|]. cbn [map combine]. f_equal. exact IH. Qed.

  Lemma decompress_row_init t : t < NT ->
    decompress_row H T2 h (map (gI t) idx, n)
    = Some (map (fun x => (ileaf t x, ipath t x)) idx).
  Proof.
    intros Ht. unfold decompress_row. cbn [fst snd].
    assert (E1 : map e_idx (map (gI t) idx) = idx) by (rewrite map_map; cbn; apply map_id).
    assert (E3 : map e_leaf (map (gI t) idx) = map (ileaf t) idx).
    { rewrite map_map. apply map_ext_in. intros x Hx. unfold gI, e_leaf. cbn [fst snd].
      exact (proj1 (proj2 (LI_spec x t Hx Ht))). }
    assert (E2 : map e_path (map (gI t) idx) = map (fun x => snd (nth t (LI x) d0)) idx)
      by (rewrite map_map; reflexivity).
    rewrite E1, E2, E3.
    destruct (cps_of_ok n (ileaf t) (ipath t) idx (icps t Ht)) as (_ & Ed & El).
    rewrite (decompress_junk Fp digest H T2 _ idx _ (cps_of (ipath t) idx) n h).
    - rewrite Ed. rewrite combine_map2. reflexivity.
    - apply map_length.
    - exact El.
    - rewrite combine_self, <- (map_xi (fun x => (x, snd (nth t (LI x) d0)))).
      assert (Ec : combine idx (cps_of (ipath t) idx) = map (fun i => (xi i, nth i (cps_of (ipath t) idx) [])) pos).
      { rewrite <- (combine_pos (fun x => x) _ [] El). rewrite map_id. reflexivity. }
      rewrite Ec.
      pose proof (JR_firsts digest xi icolumn (fun col => snd (nth t col d0)) [] pos []) as HJ.
      cbn [map app] in HJ.
      assert (Ea : map (fun i => (xi i, snd (nth t (LI (xi i)) d0))) pos
                   = map (fun y => (xi y, snd (nth t match lookup (map (fun x => (xi x, icolumn x)) pos) (xi y) with
                                                     | Some v => v | None => [] end d0))) pos).
      { apply map_ext. intros i. unfold LI. rewrite lookup_MI. reflexivity. }
      assert (Eb : map (fun i => (xi i, nth i (cps_of (ipath t) idx) [])) pos
                   = map (fun y => (xi y, snd (nth t (icolumn y) d0))) pos).
      { apply map_ext. intros i. unfold icolumn. rewrite nth_map_seq by exact Ht. reflexivity. }
      rewrite Ea, Eb. exact HJ.
  Qed.

  Lemma decompress_row_step lv : In lv L ->
    decompress_row H T2 h (map (gS lv) idx, lv_k lv)
    = Some (map (fun x => (flatten2 (coset lv x), lopen lv x)) idx).
  Proof.
    intros Hlv. unfold decompress_row. cbn [fst snd].
    assert (E1 : map e_idx (map (gS lv) idx) = map (ci lv) idx) by (rewrite map_map; reflexivity).
    assert (E3 : map e_leaf (map (gS lv) idx) = map (fun x => flatten2 (coset lv x)) idx) by (rewrite map_map; reflexivity).
    assert (E2 : map e_path (map (gS lv) idx) = map (fun x => fs_siblings (LS lv (ci lv x))) idx)
      by (rewrite map_map; reflexivity).
    rewrite E1, E2, E3.
    destruct (lv_cps_ok lv Hlv) as (_ & Ed & El).
    set (cps := cps_of (lv_pth lv) (map (ci lv) idx)) in *.
    rewrite (decompress_junk Fp digest H T2 _ (map (ci lv) idx) _ cps (lv_k lv) h).
    - rewrite Ed. rewrite combine_map2. reflexivity.
    - rewrite !map_length. reflexivity.
    - rewrite map_length. exact El.
    - rewrite combine_map2, <- (map_xi (fun x => (ci lv x, fs_siblings (LS lv (ci lv x))))).
      rewrite (combine_pos (ci lv) cps [] El).
      pose proof (JR_firsts digest (fun i => ci lv (xi i)) (fun i => mkstep (scol lv i)) fs_siblings dstep pos []) as HJ.
      cbn [map app] in HJ.
      assert (Ea : map (fun i => (ci lv (xi i), fs_siblings (LS lv (ci lv (xi i))))) pos
                   = map (fun y => (ci lv (xi y),
                                    fs_siblings match lookup (map (fun x => (ci lv (xi x), mkstep (scol lv x))) pos) (ci lv (xi y)) with
                                                | Some v => v | None => dstep end)) pos).
      { apply map_ext. intros i. unfold LS. rewrite lookup_MS. reflexivity. }
      rewrite Ea. exact HJ.
  Qed.

  Lemma heights_scan_spec : forall arities0 layers0 s k, flayers_ok k arities0 layers0 ->
    heights_scan k arities0 = Some (map lv_k (levels s k arities0 layers0)).
  Proof.
    induction arities0 as [|a at' IH]; intros [|c lt] s k Hlok; cbn [flayers_ok] in Hlok; try contradiction;
      [reflexivity|].
    destruct Hlok as (Ha & _ & Hr). cbn [heights_scan levels map lv_k].
    replace (k <? a) with false by (symmetry; apply Nat.ltb_ge; exact Ha).
    rewrite (IH lt (s + a) (k - a) Hr). reflexivity.
  Qed.

  Lemma ES_nil : forall Ls : list level, Forall2 (ES []) Ls (repeat [] (length Ls)).
  Proof.
    induction Ls as [|lv Ls IH]; cbn [length repeat]; constructor; [|exact IH]. intros c. reflexivity.
  Qed.

  (* decompress, given the inferred elements in the order in which the loop consumes them *)
  Lemma decompress_spec pr p :
    fp_rounds pr = map (gen_round L) idx -> cap_height (config p) = h -> reduction_arity_bits p = arities ->
    degree_bits p + rate_bits (config p) = n ->
    decompress H T2 {| cfp_caps := fp_caps pr;
                       cfp_rounds := {| cq_indices := idx; cq_initial := MI; cq_steps := map MS L |};
                       cfp_final := fp_final pr; cfp_pow_witness := fp_pow_witness pr |}
               idx (stream L [] idx) p
    = Some pr.
  Proof.
    intros Hr Hc Ha Hn. unfold decompress. cbn [cfp_rounds cq_initial cfp_caps cfp_final cfp_pow_witness].
    rewrite Hc, Ha, Hn.
    (* the map is not empty *)
    destruct idx_cons as (x0 & r0 & Ei).
    destruct (MI_in x0 ltac:(rewrite Ei; left; reflexivity)) as (i0 & _ & _ & El0).
    destruct MI as [|[k0 ip0] mrest] eqn:EMI; [discriminate El0|].
    assert (Hip0 : length ip0 = NT).
    { assert (Hl : lookup MI k0 = Some ip0) by (rewrite EMI; cbn [Dedup.lookup]; rewrite Nat.eqb_refl; reflexivity).
      rewrite lookup_MI in Hl. apply lookup_In in Hl. apply in_map_iff in Hl. destruct Hl as (i & Ei' & _).
      injection Ei' as _ <-. unfold icolumn. rewrite map_length, seq_length. reflexivity. }
    rewrite Hip0, <- EMI.
    rewrite (heights_scan_spec arities layers 0 n Hok).
    assert (R1 : repeat (@nil (nat * list Fp * list digest)) NT = map (fun t => map (gI t) []) (seq 0 NT)).
    { rewrite <- (seq_length NT 0) at 1. apply repeat_map_nil. }
    assert (R2 : repeat (@nil (nat * list Fp * list digest)) (length arities) = map (fun lv => map (gS lv) []) L).
    { rewrite <- L_length. apply repeat_map_nil. }
    rewrite R1, R2.
    rewrite (dec_loop_spec {| cq_indices := idx; cq_initial := MI; cq_steps := map MS L |} eq_refl eq_refl idx []
               (repeat [] (length arities)) eq_refl ltac:(rewrite <- L_length; apply ES_nil)).
    rewrite map_map, combine_map2.
    rewrite (map_opt_map (decompress_row H T2 h)).
    rewrite (map_opt_ext_in _ (fun t => map (fun x => (ileaf t x, ipath t x)) idx))
      by (intros t Ht; apply in_seq in Ht; apply decompress_row_init; lia).
    rewrite (map_opt_map (decompress_row H T2 h)).
    rewrite (map_opt_ext_in _ (fun lv => map (fun x => (flatten2 (coset lv x), lopen lv x)) idx))
      by (intros lv Hlv; apply decompress_row_step; exact Hlv).
    rewrite (map_opt_ext_in _ (fun i => gen_round L (xi i))).
    - rewrite (map_xi (gen_round L)), <- Hr. destruct pr; reflexivity.
    - intros i Hi. apply in_seq in Hi.
      assert (Hnth : nth_error idx i = Some (xi i)) by (apply nth_error_nth'; lia).
      rewrite (col_map (fun t x => (ileaf t x, ipath t x)) idx i (xi i) Hnth).
      rewrite (col_map (fun lv x => (flatten2 (coset lv x), lopen lv x)) idx i (xi i) Hnth).
      unfold gen_round, gen_initial, gen_steps. f_equal. f_equal.
      rewrite map_map. apply map_ext. intros lv. cbn [fst snd]. rewrite unflatten2_flatten2. reflexivity.
  Qed.

  (* ---------------------------------------------------------------------------------------- *)
  (* 9. get_inferred_elements on the compressed proof yields exactly that stream                *)
  Definition SeenR (done : list nat) (lv : level) (sn : list nat) : Prop :=
    forall c, In c sn <-> In c (map (ci lv) done).

  Lemma seen_down x done : forall arities0 layers0 s k,
    In (x / 2 ^ s) (map (fun y => y / 2 ^ s) done) ->
    forall lv, In lv (levels s k arities0 layers0) -> In (ci lv x) (map (ci lv) done).
  Proof.
    induction arities0 as [|a at' IH]; intros [|c lt] s k Hin lv Hlv; cbn [levels] in Hlv; try contradiction.
    assert (Hin' : In (x / 2 ^ (s + a)) (map (fun y => y / 2 ^ (s + a)) done)).
    { apply in_map_iff in Hin. destruct Hin as (y & Ey & Hy). apply in_map_iff. exists y. split; [|exact Hy].
      rewrite <- !div_pow_add, Ey. reflexivity. }
    destruct Hlv as [<-|Hlv]; [exact Hin'|]. exact (IH lt (s + a) (k - a) Hin' lv Hlv).
  Qed.

  Lemma stream_q_all_seen x done : forall Ls,
    (forall lv, In lv Ls -> In (ci lv x) (map (ci lv) done)) -> stream_q Ls done x = [].
  Proof.
    induction Ls as [|lv Ls IH]; intros Hall; [reflexivity|].
    cbn [stream_q flat_map]. fold (stream_q Ls done x).
    rewrite (proj2 (existsb_eqb_In _ _) (Hall lv (or_introl eq_refl))).
    apply IH. intros lv' Hlv'. apply Hall. right. exact Hlv'.
  Qed.

  Lemma SeenR_all_seen x done : forall Ls seen,
    (forall lv, In lv Ls -> In (ci lv x) (map (ci lv) done)) ->
    Forall2 (SeenR done) Ls seen -> Forall2 (SeenR (done ++ [x])) Ls seen.
  Proof.
    intros Ls seen Hall HF. induction HF as [|lv sn Ls seen Hs _ IH]; constructor.
    - intros c. rewrite (Hs c), map_app, in_app_iff. cbn [map In]. split; [tauto|].
      intros [Hc|[<-|[]]]; [exact Hc|]. apply Hall. left. reflexivity.
    - apply IH. intros lv' Hlv'. apply Hall. right. exact Hlv'.
  Qed.

  Lemma inferred_steps_spec x done todo : idx = done ++ x :: todo ->
    forall arities0 layers0 s k seen betas layer sx oe,
    s + k = n -> flayers_ok k arities0 layers0 ->
    Forall2 (SeenR done) (levels s k arities0 layers0) seen ->
    steps_fold (gen_steps (levels s k arities0 layers0) x) arities0 betas layer (x / 2 ^ s) sx oe ->
    exists seen',
      inferred_steps (map MS (levels s k arities0 layers0)) betas layer arities0 seen (x / 2 ^ s) sx oe
      = Some (stream_q (levels s k arities0 layers0) done x, seen')
      /\ Forall2 (SeenR (done ++ [x])) (levels s k arities0 layers0) seen'.
  Proof.
    intros Ei.
    assert (Hx : x < 2 ^ n) by (apply idx_lt; rewrite Ei; apply in_or_app; right; left; reflexivity).
    induction arities0 as [|a at' IH]; intros [|c lt] s k seen betas layer sx oe Hsk Hlok HS Hfold;
      cbn [flayers_ok] in Hlok; try contradiction.
    - cbn [levels] in *. inversion HS; subst. exists []. split; [reflexivity|constructor].
    - pose proof (levels_ok (a :: at') (c :: lt) s k Hsk Hlok) as HL. cbn [levels] in HL, HS, Hfold |- *.
      inversion HL as [|lv0 Lr Hlv0 _]; subst.
      destruct Hlok as (Ha & Hc & Hr).
      set (lv := {| lv_s := s; lv_a := a; lv_k := k - a; lv_cos := fst c; lv_pth := snd c |}) in *.
      inversion HS as [|lv1 sn Ls1 snt Hsn Hsnt]; subst.
      cbn [map inferred_steps]. rewrite div_pow_add. change (x / 2 ^ (s + a)) with (ci lv x).
      destruct (existsb (Nat.eqb (ci lv x)) sn) eqn:Eb.
      + (* the coset was reached before: so were the cosets of all deeper layers *)
        apply existsb_eqb_In in Eb. apply Hsn in Eb.
        assert (Hall : forall lv', In lv' (lv :: levels (s + a) (k - a) at' lt) -> In (ci lv' x) (map (ci lv') done)).
        { intros lv' [<-|Hlv']; [exact Eb|]. apply (seen_down x done at' lt (s + a) (k - a)); [|exact Hlv'].
          exact Eb. }
        exists (sn :: snt). split.
        * rewrite (stream_q_all_seen x done _ Hall). reflexivity.
        * apply SeenR_all_seen; [exact Hall|exact HS].
      + apply existsb_eqb_notIn in Eb.
        assert (Hn : ~ In (ci lv x) (map (ci lv) done)) by (intros Hin; apply Eb; apply Hsn; exact Hin).
        destruct (MS_spec lv done x todo Ei) as (st & Est & Hst). rewrite Est, (Hst Hn).
        cbn [gen_steps map steps_fold fs_evals] in Hfold.
        destruct Hfold as (beta & ev & Hb & Hlen & Hnth & Hce & Hrest).
        change ((x / 2 ^ s) mod 2 ^ a) with (wi lv x) in *.
        rewrite (insert_remove _ _ _ Hnth). rewrite Hb.
        unfold compute_evaluation_checked. rewrite Hlen, Nat.eqb_refl, Hce.
        rewrite div_pow_add in Hrest.
        destruct (IH lt (s + a) (k - a) snt betas (S layer) (exp_power_of_2 sx a) ev ltac:(lia) Hr Hsnt Hrest)
          as (snt' & Ed & HS').
        change (x / 2 ^ (s + a)) with (ci lv x) in Ed. rewrite Ed.
        exists ((ci lv x :: sn) :: snt'). split.
        * cbn [stream_q flat_map]. fold (stream_q (levels (s + a) (k - a) at' lt) done x).
          rewrite (proj2 (existsb_eqb_notIn _ _) Hn). cbn [app].
          rewrite (nth_error_nth _ _ _ Hnth). reflexivity.
        * constructor; [|exact HS']. intros c0. rewrite map_app, in_app_iff. cbn [map In].
          rewrite <- (Hsn c0). tauto.
  Qed.

  Lemma SeenR_nil : forall Ls : list level, Forall2 (SeenR []) Ls (repeat [] (length Ls)).
  Proof.
    induction Ls as [|lv Ls IH]; cbn [length repeat]; constructor; [|exact IH]. intros c. reflexivity.
  Qed.

  Lemma inferred_loop_spec inst p alpha reduced cq betas :
    cq_initial cq = MI -> cq_steps cq = map MS L -> reduction_arity_bits p = arities -> lde_bits p = n ->
    forall todo done seen,
      idx = done ++ todo -> Forall2 (SeenR done) L seen ->
      (forall x, In x todo -> exists oe,
          combine_initial_checked inst p (gen_initial x) alpha (query_point p x) reduced = Some oe
          /\ steps_fold (gen_steps L x) arities betas 0 x (query_point p x) oe) ->
      inferred_loop inst p alpha reduced cq betas todo seen = Some (stream L done todo).
  Proof.
    intros Hci Hcs Har Hlde. induction todo as [|x todo IH]; intros done seen Ei HS Hfold; [reflexivity|].
    cbn [inferred_loop stream]. rewrite Hci, Hcs, Har.
    assert (Hin : In x idx) by (rewrite Ei; apply in_or_app; right; left; reflexivity).
    destruct (MI_in x Hin) as (i & Hi & Ex & El). rewrite El.
    destruct (Hfold x (or_introl eq_refl)) as (oe & Hco & Hsf).
    assert (Efst : map fst (icolumn i) = map fst (gen_initial x)).
    { unfold icolumn, gen_initial. rewrite !map_map. apply map_ext. intros t. cbn [fst icol]. rewrite Ex. reflexivity. }
    fold (query_point p x). rewrite (combine_checked_fst inst p _ _ alpha _ reduced Efst), Hco.
    pose proof (inferred_steps_spec x done todo Ei arities layers 0 n seen betas 0 (query_point p x) oe
                  eq_refl Hok HS) as Hsp.
    rewrite Nat.pow_0_r, Nat.div_1_r in Hsp. destruct (Hsp Hsf) as (seen' & Ed & HS'). rewrite Ed.
    rewrite (IH (done ++ [x]) seen'); [reflexivity|rewrite <- app_assoc; exact Ei|exact HS'|].
    intros y Hy. apply Hfold. right. exact Hy.
  Qed.

  (* ---------------------------------------------------------------------------------------- *)
  (* 10. the round trip on rounds that open the trees                                           *)
  Theorem round_trip_gen inst openings ch pr p :
    fri_query_indices ch = idx ->
    fp_rounds pr = map (gen_round L) idx ->
    cap_height (config p) = h -> reduction_arity_bits p = arities -> lde_bits p = n ->
    Forall2 (round_fold_ok inst openings ch p) idx (fp_rounds pr) ->
    exists cp inferred,
      compress pr idx p = Some cp
      /\ get_inferred_elements inst openings ch cp p = Some inferred
      /\ decompress H T2 cp idx inferred p = Some pr.
  Proof.
    intros Hch Hr Hc Ha Hn HF.
    eexists. exists (stream L [] idx). split; [apply compress_spec; assumption|]. split.
    - unfold get_inferred_elements. cbn [cfp_rounds]. rewrite Hch, Ha, <- L_length.
      apply (inferred_loop_spec inst p (fri_alpha ch) (precomputed_reduced_openings openings (fri_alpha ch))
               {| cq_indices := idx; cq_initial := MI; cq_steps := map MS L |} (fri_betas ch)
               eq_refl eq_refl Ha Hn idx [] _ eq_refl (SeenR_nil L)).
      intros x Hx. rewrite Hr in HF.
      assert (HF' : forall l, Forall2 (round_fold_ok inst openings ch p) l (map (gen_round L) l) ->
                              forall y, In y l -> round_fold_ok inst openings ch p y (gen_round L y)).
      { induction l as [|z l IHl]; intros HFl y Hy; [destruct Hy|].
        cbn [map] in HFl. inversion HFl; subst. destruct Hy as [<-|Hy]; [assumption|]. apply IHl; assumption. }
      destruct (HF' idx HF x Hx) as (oe & Hco & Hsf). exists oe. rewrite Ha in Hsf. split; [exact Hco|exact Hsf].
    - apply decompress_spec; assumption.
  Qed.
  End WithLayers.
End RoundTrip.

(* ======================================================================================== *)
(* 11. the theorem for rounds that open ONE tree per oracle and per layer, in terms of the
       prover's query function (Model/FriProver.v)                                             *)
Section Trees.
  Variable H : list Fp -> digest.
  Variable T2 : digest -> digest -> digest.
  Notation opening := (Proofs.Merkle.opening Fp digest H T2).

  (* sizes of the commit-phase trees: layer of height k - a with 2^(k-a) cosets of 2^a values *)
  Fixpoint layers_ok (h k : nat) (arities : list nat) (layers : list (list (list Fp2))) : Prop :=
    match arities, layers with
    | [], [] => h <= k
    | a :: at', cosets :: lt =>
      a <= k /\ length cosets = 2 ^ (k - a) /\ Forall (fun c => length c = 2 ^ a) cosets
      /\ layers_ok h (k - a) at' lt
    | _, _ => False
    end.

  Lemma layers_ok_h h : forall arities layers k, layers_ok h k arities layers -> h <= k.
  Proof.
    induction arities as [|a at' IH]; intros [|c lt] k Hok; cbn [layers_ok] in Hok; try contradiction; [exact Hok|].
    destruct Hok as (Ha & _ & _ & Hr). apply IH in Hr. lia.
  Qed.

  (* the layers as functions of the coset index *)
  Fixpoint tree_layers (h k : nat) (arities : list nat) (layers : list (list (list Fp2))) : list layer_fn :=
    match arities, layers with
    | a :: at', cosets :: lt =>
      (fun c => nth c cosets [], fun c => opening (k - a - h) (map flatten2 cosets) c)
      :: tree_layers h (k - a) at' lt
    | _, _ => []
    end.

  Lemma tree_layers_ok h : forall arities layers k,
    layers_ok h k arities layers -> flayers_ok h k arities (tree_layers h k arities layers).
  Proof.
    induction arities as [|a at' IH]; intros [|c lt] k Hok; cbn [layers_ok] in Hok; try contradiction;
      cbn [tree_layers flayers_ok]; [exact Hok|].
    destruct Hok as (Ha & Hl & Hc & Hr). split; [exact Ha|]. split; [|apply IH; exact Hr].
    intros c0 Hc0. cbn [fst]. rewrite Forall_forall in Hc. apply Hc. apply nth_In. lia.
  Qed.

  Lemma tree_cps h k leaves keys :
    length leaves = 2 ^ k -> h <= k -> keys <> [] -> (forall i, In i keys -> i < 2 ^ k) ->
    CPS H T2 h k (fun i => nth i leaves []) (opening (k - h) leaves) keys.
  Proof.
    intros Hl Hh Hne Hlt.
    destruct (Proofs.MerkleCompression.decompress_compress Fp digest H T2 leaves k h Hl Hh keys Hne Hlt)
      as (cps & Ec & Ed).
    exists cps. split; assumption.
  Qed.

  Lemma tree_levels_cps h n idx : idx <> [] -> (forall x, In x idx -> x < 2 ^ n) ->
    forall arities layers s k, s + k = n -> layers_ok h k arities layers ->
    forall lv, In lv (levels s k arities (tree_layers h k arities layers)) ->
      CPS H T2 h (lv_k lv) (fun c => flatten2 (lv_cos lv c)) (lv_pth lv) (map (ci lv) idx).
  Proof.
    intros Hne Hlt. induction arities as [|a at' IH]; intros [|c lt] s k Hsk Hok lv Hlv;
      cbn [layers_ok] in Hok; cbn [tree_layers levels] in Hlv; try contradiction.
    destruct Hok as (Ha & Hl & Hc & Hr). destruct Hlv as [<-|Hlv]; [|exact (IH lt (s + a) (k - a) ltac:(lia) Hr lv Hlv)].
    cbn [lv_k lv_cos lv_pth fst snd].
    set (lv := {| lv_s := s; lv_a := a; lv_k := k - a; lv_cos := fun c0 => nth c0 c [];
                  lv_pth := fun c0 => opening (k - a - h) (map flatten2 c) c0 |}).
    destruct (tree_cps h (k - a) (map flatten2 c) (map (ci lv) idx)) as (cps & Ec & Ed).
    - rewrite map_length. exact Hl.
    - exact (layers_ok_h h _ _ _ Hr).
    - destruct idx; [contradiction|discriminate].
    - intros i Hi. apply in_map_iff in Hi. destruct Hi as (x & <- & Hx). unfold ci. cbn [lv_s lv_a lv].
      apply div_pow_lt. replace (s + a + (k - a)) with n by lia. apply Hlt. exact Hx.
    - exists cps. split; [exact Ec|].
      replace (map (fun c0 => flatten2 (nth c0 c [])) (map (ci lv) idx))
        with (map (fun i => nth i (map flatten2 c) []) (map (ci lv) idx)); [exact Ed|].
      apply map_ext. intros c0. change (@nil Fp) with (flatten2 []). apply map_nth.
  Qed.

  Definition tleaf (its : list (list (list Fp))) (t x : nat) : list Fp := nth x (nth t its []) [].
  Definition tpath (h n : nat) (its : list (list (list Fp))) (t x : nat) : list digest :=
    opening (n - h) (nth t its []) x.

  Lemma initial_of_gen h n its x :
    Forall (fun T => length T = 2 ^ n) its -> h <= n -> x < 2 ^ n ->
    initial_of H T2 its h x = Some (gen_initial (length its) (tleaf its) (tpath h n its) x).
  Proof.
    intros Hits Hh Hx. unfold gen_initial, tleaf, tpath.
    rewrite <- (map_nth_seq (fun T => (nth x T [], opening (n - h) T x)) [] its).
    revert Hits. generalize its as l. induction l as [|T l IH]; intros Hl; [reflexivity|].
    cbn [initial_of map]. inversion Hl as [|? ? HT Hl']; subst.
    rewrite (merkle_prove_spec Fp digest H T2 T n h x HT Hh Hx).
    rewrite (IH Hl'). reflexivity.
  Qed.

  Lemma query_steps_of_gen h n x : x < 2 ^ n -> forall arities layers s k,
    s + k = n -> layers_ok h k arities layers ->
    query_steps_of H T2 layers arities h (x / 2 ^ s)
    = Some (gen_steps (levels s k arities (tree_layers h k arities layers)) x).
  Proof.
    intros Hx. induction arities as [|a at' IH]; intros [|c lt] s k Hsk Hok; cbn [layers_ok] in Hok;
      try contradiction; [reflexivity|].
    destruct Hok as (Ha & Hl & Hc & Hr).
    cbn [query_steps_of tree_layers levels gen_steps map].
    rewrite div_pow_add.
    assert (Hci : x / 2 ^ (s + a) < 2 ^ (k - a)) by (apply div_pow_lt; replace (s + a + (k - a)) with n by lia; exact Hx).
    rewrite (merkle_prove_spec Fp digest H T2 (map flatten2 c) (k - a) h (x / 2 ^ (s + a)))
      by (try (rewrite map_length; exact Hl); try exact Hci; apply (layers_ok_h h _ _ _ Hr)).
    specialize (IH lt (s + a) (k - a) ltac:(lia) Hr). rewrite IH. reflexivity.
  Qed.

  (* one tree per oracle with 2^lde_bits leaves; one tree per layer with the layer's number of
     cosets of 2^arity_bits evaluations; the cap height does not exceed the height of the last layer *)
  Definition trees_ok (p : fri_params) (its : list (list (list Fp))) (layers : list (list (list Fp2))) : Prop :=
    Forall (fun T => length T = 2 ^ lde_bits p) its
    /\ layers_ok (cap_height (config p)) (lde_bits p) (reduction_arity_bits p) layers.

  (* the query round q is what fri_prover_query_round produces at index x from these trees *)
  Definition round_opens (p : fri_params) (its : list (list (list Fp))) (layers : list (list (list Fp2)))
             (x : nat) (q : fri_query_round) : Prop :=
    initial_of H T2 its (cap_height (config p)) x = Some (qr_initial q)
    /\ query_steps_of H T2 layers (reduction_arity_bits p) (cap_height (config p)) x = Some (qr_steps q).

  Theorem fri_decompress_compress inst openings ch pr p its layers :
    fri_query_indices ch <> [] ->
    (forall x, In x (fri_query_indices ch) -> x < 2 ^ lde_bits p) ->
    trees_ok p its layers ->
    Forall2 (round_opens p its layers) (fri_query_indices ch) (fp_rounds pr) ->
    Forall2 (round_fold_ok inst openings ch p) (fri_query_indices ch) (fp_rounds pr) ->
    exists cp inferred,
      compress pr (fri_query_indices ch) p = Some cp
      /\ get_inferred_elements inst openings ch cp p = Some inferred
      /\ decompress H T2 cp (fri_query_indices ch) inferred p = Some pr.
  Proof.
    intros Hne Hlt [Hits Hlay] Hopen Hfold.
    set (h := cap_height (config p)) in *. set (n := lde_bits p) in *.
    pose proof (layers_ok_h h _ _ _ Hlay) as Hh.
    apply (round_trip_gen H T2 h n (length its) (tleaf its) (tpath h n its) (fri_query_indices ch) Hne Hlt)
      with (arities := reduction_arity_bits p) (layers := tree_layers h n (reduction_arity_bits p) layers); auto.
    - intros t Ht. apply tree_cps; auto. rewrite Forall_forall in Hits. apply Hits. apply nth_In. exact Ht.
    - apply tree_layers_ok. exact Hlay.
    - apply (tree_levels_cps h n (fri_query_indices ch) Hne Hlt _ _ 0 n eq_refl Hlay).
    - revert Hlt Hopen. generalize (fp_rounds pr) as rounds. generalize (fri_query_indices ch) as idx. clear Hfold Hne.
      induction idx as [|x idx IH]; intros rounds Hlt Hopen; inversion Hopen as [|x' q idx' rounds' [Hi Hs] Hrest]; subst;
        [reflexivity|].
      cbn [map]. f_equal.
      + assert (Hx : x < 2 ^ n) by (apply Hlt; left; reflexivity).
        fold h in Hi, Hs. rewrite (initial_of_gen h n its x Hits Hh Hx) in Hi.
        pose proof (query_steps_of_gen h n x Hx (reduction_arity_bits p) layers 0 n eq_refl Hlay) as Hq.
        rewrite Nat.pow_0_r, Nat.div_1_r in Hq. rewrite Hq in Hs.
        destruct q as [qi qs]. cbn [qr_initial qr_steps] in Hi, Hs. unfold gen_round. congruence.
      + apply IH; [intros; apply Hlt; right; assumption|exact Hrest].
  Qed.
End Trees.

(* what is outside the query rounds is carried verbatim, by both functions, on every input *)
Lemma compress_carries pr idx p cp : compress pr idx p = Some cp ->
  cfp_caps cp = fp_caps pr /\ cfp_final cp = fp_final pr /\ cfp_pow_witness cp = fp_pow_witness pr
  /\ cq_indices (cfp_rounds cp) = idx.
Proof.
  unfold compress. destruct (fp_rounds pr) as [|q0 qs]; [discriminate|].
  destruct (transpose_loop _ _ _ _) as [[irows srows]|]; [|discriminate].
  destruct (map_opt _ irows) as [ic|]; [|discriminate].
  destruct (map_opt _ srows) as [sc|]; [|discriminate].
  destruct (build_maps _ _ _ _ _ _ _) as [[mi ms]|]; [|discriminate].
  intros [= <-]. auto.
Qed.

Lemma decompress_carries H T2 cp idx inferred p pr : decompress H T2 cp idx inferred p = Some pr ->
  fp_caps pr = cfp_caps cp /\ fp_final pr = cfp_final cp /\ fp_pow_witness pr = cfp_pow_witness cp.
Proof.
  unfold decompress. destruct (cq_initial (cfp_rounds cp)) as [|[k0 ip0] mr]; [discriminate|].
  destruct (heights_scan _ _) as [hs|]; [|discriminate].
  destruct (dec_loop _ _ _ _ _ _ _) as [[irows srows]|]; [|discriminate].
  destruct (map_opt _ (map _ irows)) as [ic|]; [|discriminate].
  destruct (map_opt _ (combine srows hs)) as [sc|]; [|discriminate].
  destruct (map_opt _ (seq 0 (length idx))) as [rounds|]; [|discriminate].
  intros [= <-]. auto.
Qed.

(* ======================================================================================== *)
(* 12. accepted proofs pass the fold-consistency checks                                       *)

(* every polynomial of the instance names an existing oracle and one of its polynomials *)
Definition inst_wf (inst : fri_instance) : Prop :=
  forall b, In b (batches inst) -> forall pi, In pi (polynomials b) ->
    exists o, nth_error (oracles inst) (oracle_index pi) = Some o /\ polynomial_index pi < num_polys o.

Lemma forallb_combine_nth {A B} (f : A * B -> bool) : forall (a : list A) (b : list B) k x y,
  forallb f (combine a b) = true -> nth_error a k = Some x -> nth_error b k = Some y -> f (x, y) = true.
Proof.
  induction a as [|a0 a IH]; intros [|b0 b] k x y Hf Ha Hb; try (destruct k; discriminate).
  cbn [combine forallb] in Hf. apply andb_prop in Hf. destruct Hf as [H0 Hr].
  destruct k as [|k]; cbn [nth_error] in Ha, Hb.
  - injection Ha as <-. injection Hb as <-. exact H0.
  - eapply IH; eassumption.
Qed.

Lemma shape_guard inst p q : inst_wf inst -> round_shape_ok inst p q = true ->
  combine_guard inst p (qr_initial q) = true.
Proof.
  intros Hwf Hs. unfold round_shape_ok in Hs.
  apply andb_prop in Hs. destruct Hs as [Hs _]. apply andb_prop in Hs. destruct Hs as [Hs _].
  apply andb_prop in Hs. destruct Hs as [Hlen Hleaf]. apply Nat.eqb_eq in Hlen.
  unfold combine_guard. apply forallb_forall. intros b Hb. apply forallb_forall. intros pi Hpi.
  destruct (Hwf b Hb pi Hpi) as (o & Ho & Hpoly). rewrite Ho.
  assert (Hk : oracle_index pi < length (qr_initial q)).
  { rewrite Hlen. apply nth_error_Some. rewrite Ho. discriminate. }
  destruct (nth_error (qr_initial q) (oracle_index pi)) as [ep|] eqn:Eep.
  2:{ apply nth_error_None in Eep. lia. }
  assert (Hl : nth_error (leaf_lens inst p) (oracle_index pi) = Some (num_polys o + salt_size (blinding o && hiding p))).
  { unfold leaf_lens. rewrite nth_error_map, Ho. reflexivity. }
  pose proof (forallb_combine_nth _ _ _ _ _ _ Hleaf Eep Hl) as Hf. cbn [fst snd] in Hf.
  apply andb_prop in Hf. destruct Hf as [Hf _]. apply Nat.eqb_eq in Hf.
  rewrite Hf, (andb_comm (hiding p)). apply andb_true_intro. split.
  - apply Nat.leb_le. lia.
  - apply Nat.ltb_lt. lia.
Qed.

Section Accepted.
  Variable H : list Fp -> digest.
  Variable T2 : digest -> digest -> digest.

  Lemma steps_accept_fold : forall arities steps caps betas layer x sx oe r cw chh,
    steps_accept H T2 caps steps arities betas layer x sx oe r ->
    steps_shape_ok steps arities cw chh = true ->
    steps_fold steps arities betas layer x sx oe.
  Proof.
    induction arities as [|a at' IH]; intros steps caps betas layer x sx oe r cw chh Hacc Hsh.
    - destruct steps; exact I.
    - destruct steps as [|st stt]; cbn [steps_accept] in Hacc; [contradiction|].
      destruct Hacc as (beta & cap & ev & Hb & _ & Hn & Hce & _ & Hk).
      cbn [steps_shape_ok] in Hsh. apply andb_prop in Hsh. destruct Hsh as [Hsh Hrest].
      apply andb_prop in Hsh. destruct Hsh as [Hlen _]. apply Nat.eqb_eq in Hlen.
      cbn [steps_fold]. exists beta, ev. repeat split; auto.
      eapply IH; eassumption.
  Qed.

  Theorem accepted_fold_ok inst openings ch caps pr p :
    inst_wf inst ->
    verify_fri_proof H T2 inst openings ch caps pr p = inl tt ->
    length (fri_query_indices ch) = length (fp_rounds pr) ->
    Forall2 (round_fold_ok inst openings ch p) (fri_query_indices ch) (fp_rounds pr).
  Proof.
    intros Hwf Hacc Hlen. apply accept_iff_all_checks in Hacc. destruct Hacc as (Hshape & _ & _ & Hrounds).
    unfold validate_fri_proof_shape in Hshape.
    apply andb_prop in Hshape. destruct Hshape as [Hshape _]. apply andb_prop in Hshape. destruct Hshape as [_ Hrs].
    rewrite forallb_forall in Hrs.
    assert (Hall : forall i x q, nth_error (fri_query_indices ch) i = Some x -> nth_error (fp_rounds pr) i = Some q ->
                                 round_fold_ok inst openings ch p x q).
    { intros i x q Hx Hq. specialize (Hrounds i x q Hx Hq). apply round_accept_iff in Hrounds.
      destruct Hrounds as (_ & oe & sx & ev & Hco & Hst & _).
      pose proof (Hrs q (nth_error_In _ _ Hq)) as Hsq.
      exists oe. split.
      - unfold combine_initial_checked. rewrite (shape_guard inst p q Hwf Hsq). unfold query_point. rewrite Hco. reflexivity.
      - unfold round_shape_ok in Hsq. apply andb_prop in Hsq. destruct Hsq as [_ Hss].
        exact (steps_accept_fold _ _ _ _ _ _ _ _ _ _ _ Hst Hss). }
    clear Hrounds Hrs. revert Hlen Hall. generalize (fp_rounds pr) as rounds. generalize (fri_query_indices ch) as idx.
    induction idx as [|x idx IH]; intros [|q rounds] Hlen Hall; cbn [length] in Hlen; try discriminate; constructor.
    - exact (Hall 0 x q eq_refl eq_refl).
    - apply IH; [lia|]. intros i x' q' Hx Hq. exact (Hall (S i) x' q' Hx Hq).
  Qed.

  (* accepted + openings of one set of trees => the round trip *)
  Corollary accepted_decompress_compress inst openings ch caps pr p its layers :
    inst_wf inst ->
    verify_fri_proof H T2 inst openings ch caps pr p = inl tt ->
    length (fri_query_indices ch) = length (fp_rounds pr) ->
    fri_query_indices ch <> [] ->
    (forall x, In x (fri_query_indices ch) -> x < 2 ^ lde_bits p) ->
    trees_ok p its layers ->
    Forall2 (round_opens H T2 p its layers) (fri_query_indices ch) (fp_rounds pr) ->
    exists cp inferred,
      compress pr (fri_query_indices ch) p = Some cp
      /\ get_inferred_elements inst openings ch cp p = Some inferred
      /\ decompress H T2 cp (fri_query_indices ch) inferred p = Some pr.
  Proof.
    intros Hwf Hacc Hlen Hne Hlt Htr Hop.
    apply (fri_decompress_compress H T2 inst openings ch pr p its layers Hne Hlt Htr Hop).
    exact (accepted_fold_ok inst openings ch caps pr p Hwf Hacc Hlen).
  Qed.
End Accepted.

(* ======================================================================================== *)
(* 13. the honest prover's proofs (Model/FriProver.v) open one set of trees                    *)
Lemma commit_layers_ok h : forall arities betas coeffs s n,
  length arities <= length betas -> fold_right Nat.add 0 arities + h <= n ->
  layers_ok h n arities (fst (commit_layers coeffs s n arities betas)).
Proof.
  induction arities as [|a at' IH]; intros betas coeffs s n Hb Hsum.
  - cbn [commit_layers fst layers_ok]. cbn [fold_right] in Hsum. lia.
  - destruct betas as [|beta bt]; [cbn [length] in Hb; lia|].
    cbn [commit_layers]. cbn [fold_right] in Hsum. cbn [length] in Hb.
    specialize (IH bt (fold_poly coeffs a beta) (s + a) (n - a) ltac:(lia) ltac:(lia)).
    destruct (commit_layers (fold_poly coeffs a beta) (s + a) (n - a) at' bt) as [ls fin].
    cbn [fst layers_ok] in *. split; [lia|]. split.
    + unfold layer_cosets. rewrite map_length, seq_length. reflexivity.
    + split; [|exact IH]. unfold layer_cosets. apply Forall_forall. intros c Hc.
      apply in_map_iff in Hc. destruct Hc as (j & <- & _). rewrite map_length, seq_length. reflexivity.
Qed.

Lemma all_some_Forall2 {A B} (f : A -> option B) : forall l r,
  FriProver.all_some (map f l) = Some r -> Forall2 (fun x y => f x = Some y) l r.
Proof.
  induction l as [|x l IH]; intros r E; cbn [map FriProver.all_some] in E.
  - injection E as <-. constructor.
  - destruct (f x) as [y|] eqn:Ey; [|discriminate E].
    destruct (FriProver.all_some (map f l)) as [r'|] eqn:Er; [|discriminate E].
    injection E as <-. constructor; [exact Ey|]. apply IH. reflexivity.
Qed.

Lemma Forall2_impl' {A B} (P Q : A -> B -> Prop) : (forall a b, P a b -> Q a b) ->
  forall l r, Forall2 P l r -> Forall2 Q l r.
Proof. intros HPQ l r HF. induction HF; constructor; auto. Qed.

Section Honest.
  Variable H : list Fp -> digest.
  Variable T2 : digest -> digest -> digest.

  (* the trees behind an honest proof: the oracle leaves and the committed layers *)
  Definition honest_its (p : fri_params) (oracles : list (list (list Fp))) : list (list (list Fp)) :=
    map (oracle_leaves (lde_bits p)) oracles.
  Definition honest_layers (inst : fri_instance) (p : fri_params) (oracles : list (list (list Fp)))
             (ch : fri_challenges) : list (list (list Fp2)) :=
    let final_poly := combined_poly oracles (fri_alpha ch) (batches inst) in
    let lde_poly := (final_poly ++ repeat 0 (2 ^ lde_bits p - length final_poly))%F in
    fst (commit_layers lde_poly 0 (lde_bits p) (reduction_arity_bits p) (fri_betas ch)).

  Lemma honest_prove_opens inst p oracles ch w out :
    honest_prove H T2 inst p oracles ch w = Some out ->
    total_arities p + cap_height (config p) <= lde_bits p ->
    length (reduction_arity_bits p) <= length (fri_betas ch) ->
    trees_ok p (honest_its p oracles) (honest_layers inst p oracles ch)
    /\ Forall2 (round_opens H T2 p (honest_its p oracles) (honest_layers inst p oracles ch))
               (fri_query_indices ch) (fp_rounds (ho_proof out)).
  Proof.
    intros Hp Hsum Hb. split.
    - split.
      + unfold honest_its. apply Forall_forall. intros T HT. apply in_map_iff in HT. destruct HT as (polys & <- & _).
        unfold oracle_leaves. rewrite map_length, seq_length. reflexivity.
      + unfold honest_layers. apply commit_layers_ok; [exact Hb|exact Hsum].
    - unfold honest_prove in Hp. fold (honest_its p oracles) in Hp.
      unfold honest_layers.
      destruct (commit_layers _ 0 (lde_bits p) (reduction_arity_bits p) (fri_betas ch)) as [layers last] eqn:Ecl.
      cbn [fst].
      destruct (FriProver.all_some (map _ (honest_its p oracles))) as [caps|]; [|discriminate Hp].
      destruct (FriProver.all_some (map _ layers)) as [lcaps|]; [|discriminate Hp].
      match type of Hp with match ?X with _ => _ end = _ => destruct X as [rounds|] eqn:Er; [|discriminate Hp] end.
      injection Hp as <-. cbn [ho_proof fp_rounds].
      apply all_some_Forall2 in Er. eapply Forall2_impl'; [|exact Er].
      intros x q Hq. cbv beta in Hq. unfold round_opens.
      destruct (initial_of H T2 (honest_its p oracles) (cap_height (config p)) x) as [i|]; [|discriminate Hq].
      destruct (query_steps_of H T2 layers (reduction_arity_bits p) (cap_height (config p)) x) as [st|]; [|discriminate Hq].
      injection Hq as <-. split; reflexivity.
  Qed.

  (* the honest prover's proof, compressed and decompressed with the elements inferred from the
     compressed proof, is returned identically: under the hypotheses of honest_accepts (C05) *)
  Theorem honest_decompress_compress inst p oracles ch w out :
    honest_prove H T2 inst p oracles ch w = Some out ->
    inst_wf inst -> fri_query_indices ch <> [] ->
    hiding p = false ->
    lde_bits p <= two_adicity ->
    total_arities p <= degree_bits p ->
    total_arities p + cap_height (config p) <= lde_bits p ->
    Forall2 (fun o polys => num_polys o = length polys) (Fri.oracles inst) oracles ->
    (forall pi, length (poly_of oracles pi) <= 2 ^ degree_bits p) ->
    length (reduction_arity_bits p) <= length (fri_betas ch) ->
    length (fri_query_indices ch) = num_query_rounds (config p) ->
    (forall x, In x (fri_query_indices ch) -> x < 2 ^ lde_bits p) ->
    pow_ok (fri_pow_response ch) (proof_of_work_bits (config p)) = true ->
    (forall x b, In x (fri_query_indices ch) -> In b (batches inst) ->
                 fp2_of_base (layer_point 0 (lde_bits p) x) <> point b) ->
    exists cp inferred,
      compress (ho_proof out) (fri_query_indices ch) p = Some cp
      /\ get_inferred_elements inst (ho_openings out) ch cp p = Some inferred
      /\ decompress H T2 cp (fri_query_indices ch) inferred p = Some (ho_proof out).
  Proof.
    intros Hp Hwf Hne Hhid Hlde Htot Hsum Hor Hpoly Hb Hnq Hlt Hpow Hpt.
    pose proof (honest_accepts H T2 inst p oracles ch w out Hp Hhid Hlde Htot Hsum Hor Hpoly Hb Hnq Hlt Hpow Hpt) as Hacc.
    destruct (honest_prove_opens inst p oracles ch w out Hp Hsum Hb) as [Htr Hop].
    assert (Hlen : length (fri_query_indices ch) = length (fp_rounds (ho_proof out))).
    { clear -Hop. induction Hop; cbn [length]; congruence. }
    exact (accepted_decompress_compress H T2 inst (ho_openings out) ch (ho_caps out) (ho_proof out) p _ _
             Hwf Hacc Hlen Hne Hlt Htr Hop).
  Qed.
End Honest.
