(* Proofs about the Merkle model (Model/Merkle.v), for ALL tree sizes 2^k, cap heights h <= k and
   positions: the hash functions are section variables, the only hypothesis is that [digest_eqb]
   decides equality of digests. *)
From Coq Require Import List Arith Bool ZArith Lia Permutation.
From Verif Require Import Model.Merkle.
Import ListNotations.

(* ---------------------------------------------------------------------------------------- *)
(* arithmetic of powers of two on nat *)

Lemma pow2_pos k : 0 < 2 ^ k.
Proof. induction k; simpl; lia. Qed.

Lemma pow2_S k : 2 ^ S k = 2 * 2 ^ k.
Proof. simpl. lia. Qed.

Lemma pow2_split m j : j <= m -> 2 ^ m = 2 ^ (m - j) * 2 ^ j.
Proof. intros. rewrite <- Nat.pow_add_r. f_equal. lia. Qed.

Lemma pow2_gt k : k < 2 ^ k.
Proof. apply Nat.pow_gt_lin_r. lia. Qed.

Lemma div_lt_pow i a b : i < 2 ^ (a + b) -> i / 2 ^ a < 2 ^ b.
Proof.
  intros Hi. apply Nat.div_lt_upper_bound. pose proof (pow2_pos a); lia.
  rewrite <- Nat.pow_add_r. exact Hi.
Qed.

Lemma half_double n : 2 * n / 2 = n.
Proof. rewrite Nat.mul_comm. apply Nat.div_mul. lia. Qed.

Lemma log2_strict_fuel_pow2 k : forall fuel, k < fuel -> log2_strict_fuel fuel (2 ^ k) = Some k.
Proof.
  induction k; intros fuel Hf; destruct fuel as [|f]; try lia; cbn [log2_strict_fuel].
  - reflexivity.
  - pose proof (pow2_pos k) as Hp.
    replace (2 ^ S k =? 1) with false by (symmetry; apply Nat.eqb_neq; rewrite pow2_S; lia).
    replace (2 ^ S k =? 0) with false by (symmetry; apply Nat.eqb_neq; rewrite pow2_S; lia).
    rewrite pow2_S.
    replace ((2 * 2 ^ k) mod 2) with 0
      by (symmetry; rewrite Nat.mul_comm; apply Nat.mod_mul; lia).
    cbn [Nat.eqb orb]. rewrite half_double. rewrite IHk by lia. reflexivity.
Qed.

Lemma log2_strict_pow2 k : log2_strict (2 ^ k) = Some k.
Proof. apply log2_strict_fuel_pow2. apply pow2_gt. Qed.

Lemma log2_strict_fuel_sound fuel : forall n k, log2_strict_fuel fuel n = Some k -> n = 2 ^ k.
Proof.
  induction fuel; intros n k; cbn [log2_strict_fuel]; [discriminate|].
  destruct (n =? 1) eqn:E1.
  - intros [= <-]. apply Nat.eqb_eq in E1. exact E1.
  - destruct ((n =? 0) || (n mod 2 =? 1)) eqn:E2; [discriminate|].
    apply orb_false_iff in E2. destruct E2 as [E0 Em].
    apply Nat.eqb_neq in E0. apply Nat.eqb_neq in Em.
    destruct (log2_strict_fuel fuel (n / 2)) as [k'|] eqn:Er; [|discriminate].
    intros [= <-]. apply IHfuel in Er. rewrite pow2_S, <- Er.
    pose proof (Nat.div_mod n 2 ltac:(lia)). pose proof (Nat.mod_upper_bound n 2 ltac:(lia)). lia.
Qed.

Lemma log2_strict_sound n k : log2_strict n = Some k -> n = 2 ^ k.
Proof. apply log2_strict_fuel_sound. Qed.

(* ---------------------------------------------------------------------------------------- *)
(* list helpers *)

Lemma upd_length {A} i (x : A) l : length (upd i x l) = length l.
Proof. revert i; induction l; intros [|i]; simpl; auto. Qed.

Lemma upd_comm {A} i j (x y : A) l : i <> j -> upd i x (upd j y l) = upd j y (upd i x l).
Proof.
  revert i j; induction l; intros [|i] [|j] Hij; simpl; auto; try lia.
  f_equal. apply IHl. lia.
Qed.

Lemma upd_app_r {A} (pre : list A) x y post :
  upd (length pre) x (pre ++ y :: post) = pre ++ x :: post.
Proof. induction pre; simpl; auto. f_equal. auto. Qed.

Lemma combine_app {A B} (a1 a2 : list A) (b1 b2 : list B) :
  length a1 = length b1 -> combine (a1 ++ a2) (b1 ++ b2) = combine a1 b1 ++ combine a2 b2.
Proof.
  revert b1; induction a1; intros [|b b1] Hl; simpl in *; try discriminate; auto.
  f_equal. apply IHa1. lia.
Qed.

Lemma map_fst_combine {A B} (a : list A) (b : list B) :
  length a = length b -> map fst (combine a b) = a.
Proof. revert b; induction a; intros [|y b] Hl; simpl in *; try discriminate; auto. f_equal; auto. Qed.

Lemma map_snd_combine {A B} (a : list A) (b : list B) :
  length a = length b -> map snd (combine a b) = b.
Proof. revert b; induction a; intros [|y b] Hl; simpl in *; try discriminate; auto. f_equal; auto. Qed.

Lemma map_pair_combine {A B} (f : A -> B) l : map (fun j => (j, f j)) l = combine l (map f l).
Proof. induction l; simpl; [reflexivity|]. f_equal. exact IHl. Qed.

Lemma skipn_skipn' {A} a b (l : list A) : skipn a (skipn b l) = skipn (b + a) l.
Proof.
  revert l; induction b; intros l; [reflexivity|].
  destruct l; [destruct a; reflexivity|]. cbn [skipn plus]. apply IHb.
Qed.

Lemma nth_error_map_seq {B} (f : nat -> B) c t : t < c -> nth_error (map f (seq 0 c)) t = Some (f t).
Proof.
  intros Ht. apply map_nth_error.
  rewrite nth_error_nth' with (d := 0) by (rewrite seq_length; lia).
  rewrite seq_nth by lia. reflexivity.
Qed.

Lemma firstn_skipn_len {A} n (l : list A) : n <= length l -> length (firstn n l) = n.
Proof. intros. rewrite firstn_length. lia. Qed.

Section MerkleProofs.
  Variable F : Type.
  Variable digest : Type.
  Variable hash_leaf : list F -> digest.
  Variable two_to_one : digest -> digest -> digest.
  Variable digest_eqb : digest -> digest -> bool.
  Variable digest_to_vec : digest -> list F.
  Hypothesis digest_eqb_spec : forall a b, digest_eqb a b = true <-> a = b.

  Notation fill_subtree := (fill_subtree F digest hash_leaf two_to_one).
  Notation fill_chunks := (fill_chunks F digest hash_leaf two_to_one).
  Notation fill_digests_buf := (fill_digests_buf F digest hash_leaf two_to_one).
  Notation apply_writes := (apply_writes digest).
  Notation all_init := (all_init digest).
  Notation merkle_tree_new := (merkle_tree_new F digest hash_leaf two_to_one).
  Notation merkle_tree_prove := (merkle_tree_prove digest).
  Notation prove_layers := (prove_layers digest).
  Notation tree_prove := (tree_prove F digest).
  Notation merkle_cap := (merkle_cap F digest hash_leaf two_to_one).
  Notation merkle_prove := (merkle_prove F digest hash_leaf two_to_one).
  Notation merkle_cap_spec := (merkle_cap_spec F digest hash_leaf two_to_one).
  Notation pair_up := (pair_up digest two_to_one).
  Notation iter_levels := (iter_levels digest two_to_one).
  Notation walk_step := (walk_step digest two_to_one).
  Notation verify_walk := (verify_walk digest two_to_one).
  Notation verify_res := (verify_merkle_proof_to_cap_res F digest hash_leaf two_to_one digest_eqb).
  Notation verify := (verify_merkle_proof_to_cap F digest hash_leaf two_to_one digest_eqb).

  (* -------------------------------------------------------------------------------------- *)
  (* The perfect binary tree over 2^k leaves, top-down: its root, the digest array in the
     sibling-adjacent layout of merkle_tree.rs, and the authentication path of position i. *)

  Fixpoint root (k : nat) (leaves : list (list F)) : digest :=
    match k with
    | O => hash_leaf (hd [] leaves)
    | S k' => two_to_one (root k' (firstn (2 ^ k') leaves)) (root k' (skipn (2 ^ k') leaves))
    end.

  Fixpoint layout (k : nat) (leaves : list (list F)) : list digest :=
    match k with
    | O => []
    | S k' =>
      let l := firstn (2 ^ k') leaves in
      let r := skipn (2 ^ k') leaves in
      layout k' l ++ [root k' l; root k' r] ++ layout k' r
    end.

  Fixpoint path (k : nat) (leaves : list (list F)) (i : nat) : list digest :=
    match k with
    | O => []
    | S k' =>
      let l := firstn (2 ^ k') leaves in
      let r := skipn (2 ^ k') leaves in
      if i <? 2 ^ k' then path k' l i ++ [root k' r] else path k' r (i - 2 ^ k') ++ [root k' l]
    end.

  Lemma layout_length k : forall leaves, length (layout k leaves) = 2 * (2 ^ k - 1).
  Proof.
    induction k; intros; cbn [layout]; [reflexivity|].
    rewrite !app_length, !IHk. cbn [length]. rewrite pow2_S. pose proof (pow2_pos k). lia.
  Qed.

  Lemma path_length k : forall leaves i, length (path k leaves i) = k.
  Proof.
    induction k; intros; cbn [path]; [reflexivity|].
    destruct (i <? 2 ^ k); rewrite app_length, IHk; simpl; lia.
  Qed.

  Lemma halves_length k (leaves : list (list F)) :
    length leaves = 2 ^ S k ->
    length (firstn (2 ^ k) leaves) = 2 ^ k /\ length (skipn (2 ^ k) leaves) = 2 ^ k.
  Proof.
    intros Hl. rewrite pow2_S in Hl. rewrite firstn_length, skipn_length. lia.
  Qed.

  (* -------------------------------------------------------------------------------------- *)
  (* fill_subtree writes exactly the window [off, off+len), each slot once, with [layout]    *)

  Lemma fill_subtree_spec k : forall fuel off leaves,
    length leaves = 2 ^ k -> k < fuel ->
    exists ws, fill_subtree fuel off (2 * (2 ^ k - 1)) leaves = Some (root k leaves, ws)
               /\ Permutation ws (combine (seq off (2 * (2 ^ k - 1))) (layout k leaves)).
  Proof.
    induction k; intros fuel off leaves Hlen Hfuel; destruct fuel as [|fuel]; try lia.
    - cbn [Merkle.fill_subtree]. simpl in Hlen. rewrite Hlen. simpl.
      destruct leaves as [|l0 ?]; [discriminate|]. exists []. split; [reflexivity|constructor].
    - cbn [Merkle.fill_subtree].
      pose proof (pow2_pos k) as Hp. pose proof (halves_length k leaves Hlen) as [HL HR].
      set (len := 2 * (2 ^ S k - 1)).
      assert (Hhalf : len / 2 = 2 ^ S k - 1) by (unfold len; apply half_double).
      rewrite Hhalf, Hlen.
      replace (2 ^ S k =? 2 ^ S k - 1 + 1) with true
        by (symmetry; apply Nat.eqb_eq; rewrite pow2_S; lia).
      cbn [negb].
      replace (len =? 0) with false by (symmetry; apply Nat.eqb_neq; unfold len; rewrite pow2_S; lia).
      replace (2 ^ S k - 1 =? 0) with false by (symmetry; apply Nat.eqb_neq; rewrite pow2_S; lia).
      replace (2 ^ S k / 2) with (2 ^ k) by (rewrite pow2_S, half_double; reflexivity).
      replace (2 ^ S k - 1 - 1) with (2 * (2 ^ k - 1)) by (rewrite pow2_S; lia).
      replace (len - (2 ^ S k - 1) - 1) with (2 * (2 ^ k - 1)) by (unfold len; rewrite pow2_S; lia).
      destruct (IHk fuel off (firstn (2 ^ k) leaves) HL ltac:(lia)) as (lw & El & Pl).
      destruct (IHk fuel (off + (2 ^ S k - 1) + 1) (skipn (2 ^ k) leaves) HR ltac:(lia)) as (rw & Er & Pr).
      rewrite El, Er. eexists. split; [reflexivity|].
      cbn [layout]. set (A := 2 * (2 ^ k - 1)) in *.
      replace len with (A + (2 + A)) by (unfold len, A; rewrite pow2_S; lia).
      rewrite seq_app, combine_app by (rewrite seq_length, layout_length; reflexivity).
      rewrite seq_app, combine_app by reflexivity.
      cbn [seq combine app].
      replace (off + (2 ^ S k - 1) - 1) with (off + A) by (unfold A; rewrite pow2_S; lia).
      replace (off + (2 ^ S k - 1)) with (S (off + A)) in * by (unfold A; rewrite pow2_S; lia).
      replace (off + A + 2) with (S (off + A) + 1) by lia.
      apply Permutation_app; [exact Pl|].
      eapply Permutation_trans; [apply Permutation_app_comm|].
      cbn [app]. do 2 apply perm_skip. exact Pr.
  Qed.

  (* -------------------------------------------------------------------------------------- *)
  (* the MaybeUninit buffer: writes to distinct slots commute, so any interleaving of the
     [join] branches / chunk tasks produces the same array *)

  Lemma apply_writes_cons w ws buf :
    apply_writes (w :: ws) buf = apply_writes ws (upd (fst w) (Some (snd w)) buf).
  Proof. reflexivity. Qed.

  Lemma apply_writes_app ws1 ws2 buf :
    apply_writes (ws1 ++ ws2) buf = apply_writes ws2 (apply_writes ws1 buf).
  Proof. unfold Merkle.apply_writes. apply fold_left_app. Qed.

  Lemma apply_writes_length ws : forall buf, length (apply_writes ws buf) = length buf.
  Proof.
    induction ws; intros; [reflexivity|]. rewrite apply_writes_cons, IHws. apply upd_length.
  Qed.

  Theorem apply_writes_perm ws ws' :
    Permutation ws ws' -> NoDup (map fst ws) ->
    forall buf, apply_writes ws buf = apply_writes ws' buf.
  Proof.
    induction 1; intros Hnd buf.
    - reflexivity.
    - rewrite !apply_writes_cons. apply IHPermutation. inversion Hnd; assumption.
    - rewrite !apply_writes_cons. f_equal. apply upd_comm.
      inversion Hnd as [|? ? Hnin ?]; subst. intros E. apply Hnin. left. auto.
    - rewrite IHPermutation1 by assumption. apply IHPermutation2.
      eapply Permutation_NoDup; [|exact Hnd]. apply Permutation_map. assumption.
  Qed.

  Lemma apply_writes_seq vals : forall pre post,
    apply_writes (combine (seq (length pre) (length vals)) vals)
                 (pre ++ repeat None (length vals) ++ post)
    = pre ++ map Some vals ++ post.
  Proof.
    induction vals as [|v vs IH]; intros pre post; [reflexivity|].
    cbn [length seq combine repeat app map]. rewrite apply_writes_cons. cbn [fst snd].
    rewrite upd_app_r.
    replace (pre ++ Some v :: repeat None (length vs) ++ post)
      with ((pre ++ [Some v]) ++ repeat None (length vs) ++ post) by (rewrite <- app_assoc; reflexivity).
    replace (S (length pre)) with (length (pre ++ [Some v])) by (rewrite app_length; simpl; lia).
    rewrite IH. rewrite <- app_assoc. reflexivity.
  Qed.

  Lemma all_init_map_Some vals : all_init (map Some vals) = Some vals.
  Proof. induction vals; simpl; [reflexivity|]. rewrite IHvals. reflexivity. Qed.

  Lemma seq_NoDup' a n : NoDup (seq a n). Proof. apply seq_NoDup. Qed.

  (* a write list that is a permutation of "slot j <- vals[j]" initialises the whole buffer *)
  Lemma apply_writes_total ws vals :
    Permutation ws (combine (seq 0 (length vals)) vals) ->
    all_init (apply_writes ws (repeat None (length vals))) = Some vals.
  Proof.
    intros Hp.
    rewrite (apply_writes_perm _ _ Hp).
    - pose proof (apply_writes_seq vals [] []) as E. cbn [length app] in E.
      rewrite !app_nil_r in E. rewrite E. apply all_init_map_Some.
    - eapply Permutation_NoDup; [apply Permutation_map, Permutation_sym, Hp|].
      rewrite map_fst_combine by (rewrite seq_length; reflexivity). apply seq_NoDup.
  Qed.

  (* -------------------------------------------------------------------------------------- *)
  (* chunks_exact *)

  Definition chunks (m : nat) (leaves : list (list F)) : list (list (list F)) :=
    map (fun j => chunk (2 ^ m) j leaves) (seq 0 (length leaves / 2 ^ m)).

  Lemma chunk_length {A} sz c j (l : list A) :
    length l = c * sz -> j < c -> length (chunk sz j l) = sz.
  Proof.
    intros Hl Hj. unfold chunk. rewrite firstn_length, skipn_length, Hl.
    assert (S j * sz <= c * sz) by (apply Nat.mul_le_mono_r; lia). simpl in *. lia.
  Qed.

  Lemma chunks_length m c leaves : length leaves = c * 2 ^ m -> length (chunks m leaves) = c.
  Proof.
    intros Hl. unfold chunks. rewrite map_length, seq_length, Hl.
    apply Nat.div_mul. pose proof (pow2_pos m); lia.
  Qed.

  Lemma concat_map_length {A} (L : nat -> list A) sz c :
    (forall j, j < c -> length (L j) = sz) -> length (concat (map L (seq 0 c))) = c * sz.
  Proof.
    induction c; intros HL; [reflexivity|].
    rewrite seq_S, map_app, concat_app, app_length, IHc by (intros; apply HL; lia).
    cbn [map concat plus]. rewrite app_nil_r, HL by lia. simpl. lia.
  Qed.

  Lemma concat_combine_chunks {A} (L : nat -> list A) off sz c :
    (forall j, j < c -> length (L j) = sz) ->
    concat (map (fun j => combine (seq (off + j * sz) sz) (L j)) (seq 0 c))
    = combine (seq off (c * sz)) (concat (map L (seq 0 c))).
  Proof.
    induction c; intros HL; [reflexivity|].
    rewrite seq_S, !map_app, !concat_app, IHc by (intros; apply HL; lia).
    cbn [map concat plus]. rewrite !app_nil_r.
    replace (S c * sz) with (c * sz + sz) by (simpl; lia).
    rewrite seq_app, combine_app; [reflexivity|].
    rewrite seq_length. symmetry. apply concat_map_length. intros; apply HL; lia.
  Qed.

  Lemma fill_chunks_spec m off leaves : forall js,
    (forall j, In j js -> length (chunk (2 ^ m) j leaves) = 2 ^ m) ->
    exists dw,
      fill_chunks off (2 * (2 ^ m - 1)) (2 ^ m) leaves js
      = Some (dw, map (fun j => (j, root m (chunk (2 ^ m) j leaves))) js)
      /\ Permutation dw
           (concat (map (fun j => combine (seq (off + j * (2 * (2 ^ m - 1))) (2 * (2 ^ m - 1)))
                                          (layout m (chunk (2 ^ m) j leaves))) js)).
  Proof.
    induction js as [|j js IH]; intros Hlen.
    - exists []. split; [reflexivity|constructor].
    - cbn [Merkle.fill_chunks].
      assert (Hj : length (chunk (2 ^ m) j leaves) = 2 ^ m) by (apply Hlen; left; reflexivity).
      destruct (fill_subtree_spec m (S (length (chunk (2 ^ m) j leaves)))
                                  (off + j * (2 * (2 ^ m - 1))) (chunk (2 ^ m) j leaves) Hj)
        as (w & Ew & Pw).
      { rewrite Hj. pose proof (pow2_gt m). lia. }
      destruct IH as (dw & Ed & Pd). { intros; apply Hlen; right; assumption. }
      rewrite Ew, Ed. eexists. split; [reflexivity|].
      cbn [map concat]. apply Permutation_app; assumption.
  Qed.

  Lemma hd_chunk1 j (leaves : list (list F)) : hd [] (chunk 1 j leaves) = nth j leaves [].
  Proof.
    unfold chunk. rewrite Nat.mul_1_r. revert j; induction leaves as [|a leaves IH]; intros [|j]; auto.
    - cbn [skipn nth]. apply IH.
  Qed.

  Lemma map_nth_seq {A B} (f : A -> B) d (l : list A) :
    map (fun j => f (nth j l d)) (seq 0 (length l)) = map f l.
  Proof.
    induction l; [reflexivity|]. cbn [length seq map nth]. f_equal.
    rewrite <- seq_shift, map_map. exact IHl.
  Qed.

  (* the digests array and the cap that MerkleTree::new must produce: one subtree per cap entry *)
  Definition digests_spec (m : nat) (leaves : list (list F)) : list digest :=
    concat (map (layout m) (chunks m leaves)).
  Definition cap_spec (m : nat) (leaves : list (list F)) : list digest :=
    map (root m) (chunks m leaves).

  Lemma digests_spec_length m h leaves :
    length leaves = 2 ^ h * 2 ^ m -> length (digests_spec m leaves) = 2 ^ h * (2 * (2 ^ m - 1)).
  Proof.
    intros Hl. unfold digests_spec, chunks. rewrite map_map, Hl, Nat.div_mul
      by (pose proof (pow2_pos m); lia).
    apply concat_map_length. intros. apply layout_length.
  Qed.

  Lemma cap_spec_length m h leaves : length leaves = 2 ^ h * 2 ^ m -> length (cap_spec m leaves) = 2 ^ h.
  Proof. intros Hl. unfold cap_spec. rewrite map_length. eapply chunks_length; eauto. Qed.

  Lemma fill_digests_buf_spec h m off leaves :
    length leaves = 2 ^ h * 2 ^ m ->
    exists dw,
      fill_digests_buf off (2 ^ h * (2 * (2 ^ m - 1))) (2 ^ h) leaves h
      = Some (dw, combine (seq 0 (2 ^ h)) (cap_spec m leaves))
      /\ Permutation dw (combine (seq off (2 ^ h * (2 * (2 ^ m - 1)))) (digests_spec m leaves)).
  Proof.
    intros Hl. pose proof (pow2_pos h) as Hh. pose proof (pow2_pos m) as Hm.
    unfold Merkle.fill_digests_buf.
    destruct m as [|m'].
    - (* all cap *)
      cbn [Nat.pow]. rewrite Nat.sub_diag, !Nat.mul_0_r. cbn [Nat.eqb].
      exists []. split; [|constructor].
      f_equal. f_equal. f_equal. unfold cap_spec, chunks. cbn [Nat.pow].
      rewrite Nat.div_1_r, map_map.
      rewrite <- (map_nth_seq hash_leaf [] leaves) at 1. apply map_ext.
      intros j. cbn [root]. rewrite hd_chunk1. reflexivity.
    - set (m := S m') in *. set (sdl := 2 * (2 ^ m - 1)).
      assert (Hsdl : sdl <> 0) by (unfold sdl, m; rewrite pow2_S; pose proof (pow2_pos m'); lia).
      replace (2 ^ h * sdl =? 0) with false by (symmetry; apply Nat.eqb_neq; nia).
      rewrite Hl.
      replace (2 ^ h * sdl / 2 ^ h) with sdl by (rewrite Nat.mul_comm, Nat.div_mul; lia).
      replace (2 ^ h * 2 ^ m / 2 ^ h) with (2 ^ m) by (rewrite Nat.mul_comm, Nat.div_mul; lia).
      replace (sdl =? 0) with false by (symmetry; apply Nat.eqb_neq; lia).
      replace (2 ^ m =? 0) with false by (symmetry; apply Nat.eqb_neq; lia).
      cbn [orb].
      rewrite !Nat.div_mul by lia. rewrite Nat.eqb_refl. cbn [negb].
      destruct (fill_chunks_spec m off leaves (seq 0 (2 ^ h))) as (dw & Ed & Pd).
      { intros j Hj. apply in_seq in Hj. eapply chunk_length; eauto. lia. }
      fold sdl in Ed, Pd. rewrite Ed. exists dw. split.
      + f_equal. f_equal. unfold cap_spec, chunks. rewrite Hl, Nat.div_mul, map_map by lia.
        apply (map_pair_combine (fun j => root m (chunk (2 ^ m) j leaves))).
      + eapply Permutation_trans; [exact Pd|].
        rewrite (concat_combine_chunks (fun j => layout m (chunk (2 ^ m) j leaves)) off sdl (2 ^ h))
          by (intros; apply layout_length).
        unfold digests_spec, chunks. rewrite Hl, Nat.div_mul, map_map by lia. apply Permutation_refl.
  Qed.

  (* -------------------------------------------------------------------------------------- *)
  (* MerkleTree::new *)

  Lemma pow2_km k h : h <= k -> 2 ^ k = 2 ^ h * 2 ^ (k - h).
  Proof. intros. rewrite <- Nat.pow_add_r. f_equal. lia. Qed.

  Lemma num_digests_eq k h : h <= k -> 2 * (2 ^ k - 2 ^ h) = 2 ^ h * (2 * (2 ^ (k - h) - 1)).
  Proof.
    intros Hh. rewrite (pow2_km k h Hh). pose proof (pow2_pos h). pose proof (pow2_pos (k - h)). nia.
  Qed.

  Theorem merkle_tree_new_spec leaves k h :
    length leaves = 2 ^ k -> h <= k ->
    merkle_tree_new leaves h
    = Some (mkTree leaves (digests_spec (k - h) leaves) (cap_spec (k - h) leaves)).
  Proof.
    intros Hl Hh. unfold Merkle.merkle_tree_new.
    rewrite Hl, log2_strict_pow2.
    replace (k <? h) with false by (symmetry; apply Nat.ltb_ge; lia).
    rewrite (num_digests_eq k h Hh).
    assert (Hl' : length leaves = 2 ^ h * 2 ^ (k - h)) by (rewrite Hl; apply pow2_km; assumption).
    destruct (fill_digests_buf_spec h (k - h) 0 leaves Hl') as (dw & E & Pd).
    rewrite E.
    rewrite <- (digests_spec_length (k - h) h leaves Hl') in Pd |- *.
    rewrite (apply_writes_total _ _ Pd).
    rewrite <- (cap_spec_length (k - h) h leaves Hl').
    rewrite (apply_writes_total _ (cap_spec (k - h) leaves)) by apply Permutation_refl.
    reflexivity.
  Qed.

  (* Write set of the construction: exactly [0, 2*(2^k - 2^h)) for the digests and [0, 2^h) for
     the cap, every slot written exactly once (a permutation of the slot indices, so no
     duplicates) - the obligation behind [set_len]. *)
  Theorem layout_total_disjoint leaves k h :
    length leaves = 2 ^ k -> h <= k ->
    exists dw cw,
      fill_digests_buf 0 (2 * (2 ^ k - 2 ^ h)) (2 ^ h) leaves h = Some (dw, cw)
      /\ Permutation (map fst dw) (seq 0 (2 * (2 ^ k - 2 ^ h)))
      /\ Permutation (map fst cw) (seq 0 (2 ^ h))
      /\ NoDup (map fst dw) /\ NoDup (map fst cw)
      /\ (forall i, In i (map fst dw) <-> i < 2 * (2 ^ k - 2 ^ h))
      /\ (forall i, In i (map fst cw) <-> i < 2 ^ h).
  Proof.
    intros Hl Hh.
    assert (Hl' : length leaves = 2 ^ h * 2 ^ (k - h)) by (rewrite Hl; apply pow2_km; assumption).
    destruct (fill_digests_buf_spec h (k - h) 0 leaves Hl') as (dw & E & Pd).
    rewrite (num_digests_eq k h Hh). do 2 eexists. split; [exact E|].
    assert (P1 : Permutation (map fst dw) (seq 0 (2 ^ h * (2 * (2 ^ (k - h) - 1))))).
    { eapply Permutation_trans; [apply Permutation_map, Pd|].
      rewrite map_fst_combine; [apply Permutation_refl|].
      rewrite seq_length. symmetry. apply digests_spec_length. assumption. }
    assert (P2 : map fst (combine (seq 0 (2 ^ h)) (cap_spec (k - h) leaves)) = seq 0 (2 ^ h)).
    { apply map_fst_combine. rewrite seq_length. symmetry. apply cap_spec_length. assumption. }
    rewrite P2. split; [exact P1|]. split; [apply Permutation_refl|].
    split; [eapply Permutation_NoDup; [apply Permutation_sym, P1|apply seq_NoDup]|].
    split; [apply seq_NoDup|]. split; intros i.
    - split; intros Hi.
      + eapply Permutation_in in Hi; [|exact P1]. apply in_seq in Hi. lia.
      + eapply Permutation_in; [apply Permutation_sym, P1|]. apply in_seq. lia.
    - rewrite in_seq. lia.
  Qed.

  (* the two recursive calls of fill_subtree write disjoint windows, on either side of the two
     slots the caller writes itself *)
  Theorem fill_subtree_halves_disjoint k fuel off leaves :
    length leaves = 2 ^ S k -> S k < fuel ->
    exists ld lw rd rw,
      fill_subtree fuel off (2 * (2 ^ k - 1)) (firstn (2 ^ k) leaves) = Some (ld, lw)
      /\ fill_subtree fuel (off + 2 * (2 ^ k - 1) + 2) (2 * (2 ^ k - 1)) (skipn (2 ^ k) leaves) = Some (rd, rw)
      /\ (forall i, In i (map fst lw) <-> off <= i < off + 2 * (2 ^ k - 1))
      /\ (forall i, In i (map fst rw) <->
                    off + 2 * (2 ^ k - 1) + 2 <= i < off + 2 * (2 ^ S k - 1))
      /\ (forall i, In i (map fst lw) -> In i (map fst rw) -> False).
  Proof.
    intros Hl Hf. destruct (halves_length k leaves Hl) as [HL HR].
    destruct (fill_subtree_spec k fuel off _ HL ltac:(lia)) as (lw & El & Pl).
    destruct (fill_subtree_spec k fuel (off + 2 * (2 ^ k - 1) + 2) _ HR ltac:(lia)) as (rw & Er & Pr).
    exists (root k (firstn (2 ^ k) leaves)), lw, (root k (skipn (2 ^ k) leaves)), rw.
    assert (Rl : forall i, In i (map fst lw) <-> off <= i < off + 2 * (2 ^ k - 1)).
    { intros i. rewrite <- in_seq.
      assert (P : Permutation (map fst lw) (seq off (2 * (2 ^ k - 1)))).
      { eapply Permutation_trans; [apply Permutation_map, Pl|].
        rewrite map_fst_combine by (rewrite seq_length, layout_length; reflexivity).
        apply Permutation_refl. }
      split; intros Hi; [eapply Permutation_in; [exact P|exact Hi]
                        |eapply Permutation_in; [apply Permutation_sym, P|exact Hi]]. }
    assert (Rr : forall i, In i (map fst rw) <->
                           off + 2 * (2 ^ k - 1) + 2 <= i < off + 2 * (2 ^ S k - 1)).
    { intros i.
      assert (P : Permutation (map fst rw) (seq (off + 2 * (2 ^ k - 1) + 2) (2 * (2 ^ k - 1)))).
      { eapply Permutation_trans; [apply Permutation_map, Pr|].
        rewrite map_fst_combine by (rewrite seq_length, layout_length; reflexivity).
        apply Permutation_refl. }
      pose proof (pow2_pos k). rewrite pow2_S.
      split; intros Hi.
      - eapply Permutation_in in Hi; [|exact P]. apply in_seq in Hi. lia.
      - eapply Permutation_in; [apply Permutation_sym, P|]. apply in_seq. lia. }
    split; [exact El|]. split; [exact Er|]. split; [exact Rl|]. split; [exact Rr|].
    intros i Hi1 Hi2. apply Rl in Hi1. apply Rr in Hi2. lia.
  Qed.

  (* -------------------------------------------------------------------------------------- *)
  (* the cap is the one of the level-by-level specification *)

  Lemma pair_up_app n : forall a b, length a = 2 * n -> pair_up (a ++ b) = pair_up a ++ pair_up b.
  Proof.
    induction n; intros a b Hl.
    - destruct a; [reflexivity|discriminate].
    - destruct a as [|x [|y a]]; simpl in Hl; try lia.
      cbn [app Merkle.pair_up]. f_equal. apply IHn. lia.
  Qed.

  Lemma pair_up_length n : forall a, length a = 2 * n -> length (pair_up a) = n.
  Proof.
    induction n; intros a Hl.
    - destruct a; [reflexivity|discriminate].
    - destruct a as [|x [|y a]]; simpl in Hl; try lia.
      cbn [Merkle.pair_up length]. f_equal. apply IHn. lia.
  Qed.

  Lemma iter_levels_S_r m : forall l, iter_levels (S m) l = pair_up (iter_levels m l).
  Proof. induction m; intros l; [reflexivity|]. cbn [Merkle.iter_levels] in *. rewrite IHm. reflexivity. Qed.

  Lemma iter_levels_app m : forall c a b,
    length a = c * 2 ^ m -> iter_levels m (a ++ b) = iter_levels m a ++ iter_levels m b.
  Proof.
    induction m; intros c a b Hl; [reflexivity|].
    cbn [Merkle.iter_levels].
    rewrite pow2_S in Hl.
    rewrite (pair_up_app (c * 2 ^ m)) by lia.
    apply (IHm c). apply pair_up_length. lia.
  Qed.

  Lemma iter_levels_root m : forall leaves,
    length leaves = 2 ^ m -> iter_levels m (map hash_leaf leaves) = [root m leaves].
  Proof.
    induction m; intros leaves Hl.
    - destruct leaves as [|l [|? ?]]; simpl in Hl; try lia. reflexivity.
    - destruct (halves_length m leaves Hl) as [HL HR].
      rewrite iter_levels_S_r.
      rewrite <- (firstn_skipn (2 ^ m) leaves) at 1. rewrite map_app.
      rewrite (iter_levels_app m 1) by (rewrite map_length, HL; lia).
      rewrite (IHm _ HL), (IHm _ HR). reflexivity.
  Qed.

  Lemma chunk_S {A} sz j (l : list A) : chunk sz (S j) l = chunk sz j (skipn sz l).
  Proof. unfold chunk. rewrite skipn_skipn'. do 2 f_equal; simpl; lia. Qed.

  Lemma iter_levels_chunks m c : forall leaves,
    length leaves = c * 2 ^ m ->
    iter_levels m (map hash_leaf leaves) = map (fun j => root m (chunk (2 ^ m) j leaves)) (seq 0 c).
  Proof.
    induction c; intros leaves Hl.
    - destruct leaves; [|discriminate]. simpl. clear. induction m; auto.
    - rewrite <- (firstn_skipn (2 ^ m) leaves) at 1. rewrite map_app.
      assert (H1 : length (firstn (2 ^ m) leaves) = 2 ^ m) by (rewrite firstn_length; simpl in Hl; lia).
      rewrite (iter_levels_app m 1) by (rewrite map_length, H1; lia).
      rewrite (iter_levels_root m _ H1).
      rewrite IHc by (rewrite skipn_length; simpl in Hl; lia).
      cbn [seq map app]. f_equal.
      rewrite <- seq_shift, map_map. apply map_ext. intros j. rewrite chunk_S. reflexivity.
  Qed.

  Theorem cap_is_spec leaves k h :
    length leaves = 2 ^ k -> h <= k ->
    merkle_cap leaves h = Some (merkle_cap_spec leaves h).
  Proof.
    intros Hl Hh. unfold Merkle.merkle_cap. rewrite (merkle_tree_new_spec leaves k h Hl Hh).
    cbn [option_map mt_cap]. f_equal.
    unfold Merkle.merkle_cap_spec. rewrite Hl, Nat.log2_pow2 by lia.
    assert (Hl' : length leaves = 2 ^ h * 2 ^ (k - h)) by (rewrite Hl; apply pow2_km; assumption).
    rewrite (iter_levels_chunks (k - h) (2 ^ h)) by assumption.
    unfold cap_spec, chunks. rewrite Hl', Nat.div_mul, map_map by (pose proof (pow2_pos (k - h)); lia).
    reflexivity.
  Qed.

  (* -------------------------------------------------------------------------------------- *)
  (* merkle_tree_prove reads the authentication path out of the layout *)

  Lemma div_add_pow m d i' : d <= m -> (2 ^ m + i') / 2 ^ d = 2 ^ (m - d) + i' / 2 ^ d.
  Proof.
    intros Hd. rewrite (pow2_split m d Hd). apply Nat.div_add_l.
    pose proof (pow2_pos d). lia.
  Qed.

  Lemma add_even_mod2 x y : (2 * x + y) mod 2 = y mod 2.
  Proof. rewrite Nat.add_comm, Nat.mul_comm. apply Nat.mod_add. lia. Qed.

  Lemma nth_error_skipn_cons {A} (l : list A) : forall j d,
    nth_error l j = Some d -> skipn j l = d :: skipn (S j) l.
  Proof.
    induction l; intros [|j] d E; simpl in *; try discriminate.
    - inversion E. reflexivity.
    - apply IHl. exact E.
  Qed.

  Definition sib_index (i j : nat) : nat :=
    2 * ((i / 2 ^ (j + 1)) * 2 ^ (j + 1) + 2 ^ j - 1) + (1 - (i / 2 ^ j) mod 2).

  Lemma layout_index m : forall leaves i j,
    length leaves = 2 ^ m -> i < 2 ^ m -> j < m ->
    nth_error (layout m leaves) (sib_index i j) = nth_error (path m leaves i) j.
  Proof.
    induction m; intros leaves i j Hl Hi Hj; [lia|].
    destruct (halves_length m leaves Hl) as [HL HR].
    pose proof (pow2_pos m) as Hpm. pose proof (pow2_pos j) as Hpj.
    cbn [layout path].
    set (L := firstn (2 ^ m) leaves) in *. set (R := skipn (2 ^ m) leaves) in *.
    assert (HA : length (layout m L) = 2 * (2 ^ m - 1)) by apply layout_length.
    destruct (Nat.eq_dec j m) as [->|Hjm].
    - (* top layer of this subtree *)
      unfold sib_index.
      replace (i / 2 ^ (m + 1)) with 0
        by (symmetry; apply Nat.div_small; rewrite Nat.add_1_r; exact Hi).
      destruct (i <? 2 ^ m) eqn:Elt.
      + apply Nat.ltb_lt in Elt. rewrite (Nat.div_small i (2 ^ m)) by assumption.
        change (0 mod 2) with 0.
        match goal with |- nth_error _ ?x = _ => replace x with (length (layout m L) + 1)
          by (rewrite HA; lia) end.
        rewrite nth_error_app2 by lia.
        replace (length (layout m L) + 1 - length (layout m L)) with 1 by lia.
        cbn [app nth_error].
        rewrite nth_error_app2 by (rewrite path_length; lia).
        rewrite path_length, Nat.sub_diag. reflexivity.
      + apply Nat.ltb_ge in Elt.
        assert (Ei : i / 2 ^ m = 1).
        { replace i with (2 ^ m + (i - 2 ^ m)) by lia. rewrite (div_add_pow m m) by lia.
          rewrite Nat.sub_diag, Nat.div_small by (rewrite pow2_S in Hi; lia). reflexivity. }
        rewrite Ei.
        change (1 mod 2) with 1.
        match goal with |- nth_error _ ?x = _ => replace x with (length (layout m L) + 0)
          by (rewrite HA; lia) end.
        rewrite nth_error_app2 by lia.
        replace (length (layout m L) + 0 - length (layout m L)) with 0 by lia.
        cbn [app nth_error].
        rewrite nth_error_app2 by (rewrite path_length; lia).
        rewrite path_length, Nat.sub_diag. reflexivity.
    - assert (Hj' : j < m) by lia.
      destruct (i <? 2 ^ m) eqn:Elt.
      + apply Nat.ltb_lt in Elt.
        rewrite (nth_error_app1 (path m L i)) by (rewrite path_length; lia).
        pose proof (IHm L i j HL Elt Hj') as IH.
        assert (Hsome : nth_error (path m L i) j <> None)
          by (apply nth_error_Some; rewrite path_length; lia).
        rewrite <- IH in Hsome. apply nth_error_Some in Hsome.
        rewrite nth_error_app1 by assumption. exact IH.
      + apply Nat.ltb_ge in Elt.
        rewrite (nth_error_app1 (path m R (i - 2 ^ m))) by (rewrite path_length; lia).
        rewrite <- (IHm R (i - 2 ^ m) j HR) by (rewrite pow2_S in Hi; lia).
        assert (Eidx : sib_index i j = length (layout m L) + (2 + sib_index (i - 2 ^ m) j)).
        { unfold sib_index. set (i' := i - 2 ^ m).
          replace i with (2 ^ m + i') by (unfold i'; lia).
          rewrite (div_add_pow m (j + 1)), (div_add_pow m j) by lia.
          replace (2 ^ (m - j)) with (2 * 2 ^ (m - (j + 1)))
            by (rewrite <- pow2_S; f_equal; lia).
          rewrite add_even_mod2.
          rewrite Nat.mul_add_distr_r, <- (pow2_split m (j + 1)) by lia.
          rewrite HA. lia. }
        rewrite Eidx.
        rewrite nth_error_app2 by lia.
        replace (length (layout m L) + (2 + sib_index (i - 2 ^ m) j) - length (layout m L))
          with (2 + sib_index (i - 2 ^ m) j) by lia.
        reflexivity.
  Qed.

  Lemma prove_layers_spec m leaves i :
    length leaves = 2 ^ m -> i < 2 ^ m ->
    forall n j, j + n = m ->
      prove_layers (layout m leaves) n j (i / 2 ^ j) = Some (skipn j (path m leaves i)).
  Proof.
    intros Hl Hi. induction n; intros j Hjn.
    - cbn [Merkle.prove_layers]. rewrite skipn_all2 by (rewrite path_length; lia). reflexivity.
    - cbn [Merkle.prove_layers].
      assert (Ediv : i / 2 ^ j / 2 = i / 2 ^ (j + 1)).
      { rewrite Nat.div_div by (pose proof (pow2_pos j); lia).
        f_equal. rewrite Nat.add_1_r, pow2_S. lia. }
      rewrite Ediv.
      pose proof (layout_index m leaves i j Hl Hi ltac:(lia)) as Hidx. unfold sib_index in Hidx.
      rewrite Hidx.
      destruct (nth_error (path m leaves i) j) as [d|] eqn:Ed.
      2:{ apply nth_error_None in Ed. rewrite path_length in Ed. lia. }
      replace (S j) with (j + 1) by lia. rewrite IHn by lia.
      rewrite (nth_error_skipn_cons _ _ _ Ed). replace (S j) with (j + 1) by lia. reflexivity.
  Qed.

  Lemma skipn_concat_chunks {A} (L : nat -> list A) sz : forall t a c,
    (forall j, length (L j) = sz) -> t <= c ->
    skipn (t * sz) (concat (map L (seq a c))) = concat (map L (seq (a + t) (c - t))).
  Proof.
    induction t; intros a c HL Htc.
    - simpl. rewrite Nat.add_0_r, Nat.sub_0_r. reflexivity.
    - destruct c as [|c]; [lia|]. cbn [seq map concat].
      replace (S t * sz) with (length (L a) + t * sz) by (rewrite HL; simpl; lia).
      rewrite <- skipn_skipn', skipn_app, skipn_all, Nat.sub_diag. cbn [skipn app].
      rewrite IHt by (auto; lia). f_equal. f_equal. f_equal. lia.
  Qed.

  Lemma slice_concat_chunks {A} (L : nat -> list A) sz c t :
    (forall j, length (L j) = sz) -> t < c ->
    slice (concat (map L (seq 0 c))) (sz * t) (sz * (t + 1)) = Some (L t).
  Proof.
    intros HL Ht. unfold slice.
    rewrite (concat_map_length L sz c) by (intros; apply HL).
    replace ((sz * t <=? sz * (t + 1)) && (sz * (t + 1) <=? c * sz)) with true.
    2:{ symmetry. apply andb_true_iff. split; apply Nat.leb_le; nia. }
    f_equal. replace (sz * (t + 1) - sz * t) with sz by lia.
    rewrite (Nat.mul_comm sz t), (skipn_concat_chunks L sz t 0 c HL) by lia.
    destruct (c - t) as [|r] eqn:E; [lia|]. cbn [seq map concat plus].
    rewrite firstn_app, HL, Nat.sub_diag. cbn [firstn]. rewrite app_nil_r.
    rewrite <- (HL t). apply firstn_all.
  Qed.

  Lemma nth_chunk {A} sz (l : list A) i d :
    0 < sz -> nth (i mod sz) (chunk sz (i / sz) l) d = nth i l d.
  Proof.
    intros Hsz. unfold chunk.
    assert (Hr : i mod sz < sz) by (apply Nat.mod_upper_bound; lia).
    assert (E : forall n k (x : list A), k < n -> nth k (firstn n x) d = nth k x d).
    { induction n; intros k x Hk; [lia|]. destruct x; [destruct k; reflexivity|].
      destruct k; [reflexivity|]. cbn [firstn nth]. apply IHn. lia. }
    rewrite E by assumption.
    assert (E2 : forall a k (x : list A), nth k (skipn a x) d = nth (a + k) x d).
    { induction a; intros k x; [reflexivity|]. destruct x; [destruct k; reflexivity|].
      cbn [skipn plus nth]. apply IHa. }
    rewrite E2. f_equal. pose proof (Nat.div_mod i sz ltac:(lia)). lia.
  Qed.

  (* the opening produced by the code for position i *)
  Definition opening (m : nat) (leaves : list (list F)) (i : nat) : list digest :=
    path m (chunk (2 ^ m) (i / 2 ^ m) leaves) (i mod 2 ^ m).

  Theorem merkle_tree_prove_spec dbg leaves k h i :
    length leaves = 2 ^ k -> h <= k -> i < 2 ^ k ->
    merkle_tree_prove dbg i (2 ^ k) h (digests_spec (k - h) leaves) = Some (opening (k - h) leaves i).
  Proof.
    intros Hl Hh Hi. unfold Merkle.merkle_tree_prove.
    rewrite log2_strict_pow2.
    replace (k <? h) with false by (symmetry; apply Nat.ltb_ge; lia).
    set (m := k - h).
    assert (Hl' : length leaves = 2 ^ h * 2 ^ m) by (rewrite Hl; apply pow2_km; assumption).
    pose proof (pow2_pos h) as Hph. pose proof (pow2_pos m) as Hpm.
    replace (h + m) with k by (unfold m; lia).
    rewrite (Nat.div_small i (2 ^ k)) by assumption. cbn [Nat.eqb negb]. rewrite andb_false_r.
    rewrite (num_digests_eq k h Hh). fold m.
    rewrite (digests_spec_length m h leaves Hl'), Nat.eqb_refl. cbn [negb].
    replace (2 ^ h * (2 * (2 ^ m - 1)) / 2 ^ h) with (2 * (2 ^ m - 1))
      by (symmetry; rewrite (Nat.mul_comm (2 ^ h)); apply Nat.div_mul; lia).
    assert (Ht : i / 2 ^ m < 2 ^ h).
    { apply Nat.div_lt_upper_bound; [lia|]. rewrite Nat.mul_comm, <- Hl', Hl. exact Hi. }
    unfold digests_spec, chunks. rewrite Hl', Nat.div_mul, map_map by lia.
    rewrite (slice_concat_chunks (fun j => layout m (chunk (2 ^ m) j leaves)) (2 * (2 ^ m - 1)))
      by (auto using layout_length).
    assert (Hc : length (chunk (2 ^ m) (i / 2 ^ m) leaves) = 2 ^ m)
      by (eapply chunk_length; eauto).
    assert (Hmod : i mod 2 ^ m < 2 ^ m) by (apply Nat.mod_upper_bound; lia).
    pose proof (prove_layers_spec m _ (i mod 2 ^ m) Hc Hmod m 0 (Nat.add_0_l m)) as E.
    cbn [Nat.pow] in E. rewrite Nat.div_1_r in E. exact E.
  Qed.

  Theorem merkle_prove_spec leaves k h i :
    length leaves = 2 ^ k -> h <= k -> i < 2 ^ k ->
    merkle_prove leaves h i = Some (opening (k - h) leaves i).
  Proof.
    intros Hl Hh Hi. unfold Merkle.merkle_prove.
    rewrite (merkle_tree_new_spec leaves k h Hl Hh).
    unfold Merkle.tree_prove. cbn [mt_cap mt_leaves mt_digests].
    assert (Hl' : length leaves = 2 ^ h * 2 ^ (k - h)) by (rewrite Hl; apply pow2_km; assumption).
    rewrite (cap_spec_length (k - h) h leaves Hl'), log2_strict_pow2, Hl.
    apply merkle_tree_prove_spec; assumption.
  Qed.

  (* -------------------------------------------------------------------------------------- *)
  (* the bit walk recomputes the root of the subtree and ends at the subtree's number *)

  Lemma verify_walk_app p q : forall cur i,
    verify_walk cur i (p ++ q) = let '(c, j) := verify_walk cur i p in verify_walk c j q.
  Proof. induction p; intros; [reflexivity|]. cbn [app Merkle.verify_walk]. apply IHp. Qed.

  Lemma nth_firstn' {A} n : forall k (x : list A) d, k < n -> nth k (firstn n x) d = nth k x d.
  Proof.
    induction n; intros k x d Hk; [lia|]. destruct x; [destruct k; reflexivity|].
    destruct k; [reflexivity|]. cbn [firstn nth]. apply IHn. lia.
  Qed.

  Lemma nth_skipn' {A} a : forall k (x : list A) d, nth k (skipn a x) d = nth (a + k) x d.
  Proof.
    induction a; intros k x d; [reflexivity|]. destruct x; [destruct k; reflexivity|].
    cbn [skipn plus nth]. apply IHa.
  Qed.

  Lemma walk_path m : forall leaves i,
    length leaves = 2 ^ m ->
    verify_walk (hash_leaf (nth (i mod 2 ^ m) leaves [])) i (path m leaves (i mod 2 ^ m))
    = (root m leaves, i / 2 ^ m).
  Proof.
    induction m; intros leaves i Hl.
    - cbn [path root Merkle.verify_walk Nat.pow]. rewrite Nat.mod_1_r, Nat.div_1_r.
      destruct leaves; reflexivity.
    - destruct (halves_length m leaves Hl) as [HL HR].
      pose proof (pow2_pos m) as Hpm.
      cbn [path root].
      set (r := i mod 2 ^ S m).
      assert (Hr : r < 2 ^ S m) by (apply Nat.mod_upper_bound; pose proof (pow2_pos (S m)); lia).
      assert (Hdm : i = 2 ^ S m * (i / 2 ^ S m) + r)
        by (apply Nat.div_mod; pose proof (pow2_pos (S m)); lia).
      assert (Hdiv : i / 2 ^ m / 2 = i / 2 ^ S m).
      { rewrite Nat.div_div by lia. f_equal. rewrite pow2_S. lia. }
      rewrite pow2_S in Hr.
      destruct (r <? 2 ^ m) eqn:Elt.
      + apply Nat.ltb_lt in Elt.
        assert (Er : r = i mod 2 ^ m).
        { apply (Nat.mod_unique i (2 ^ m) (2 * (i / 2 ^ S m)) r); [lia|].
          rewrite Hdm at 1. rewrite pow2_S. lia. }
        assert (Eq : i / 2 ^ m = 2 * (i / 2 ^ S m)).
        { symmetry. apply (Nat.div_unique i (2 ^ m) (2 * (i / 2 ^ S m)) r); [lia|].
          rewrite Hdm at 1. rewrite pow2_S. lia. }
        rewrite verify_walk_app.
        replace (nth r leaves []) with (nth r (firstn (2 ^ m) leaves) []) by (apply nth_firstn'; lia).
        rewrite Er, (IHm _ i HL).
        cbn [Merkle.verify_walk]. unfold Merkle.walk_step.
        rewrite Eq at 1. rewrite Nat.mul_comm, Nat.mod_mul by lia. cbn [Nat.eqb].
        rewrite Hdiv. reflexivity.
      + apply Nat.ltb_ge in Elt.
        assert (Er : r - 2 ^ m = i mod 2 ^ m).
        { apply (Nat.mod_unique i (2 ^ m) (2 * (i / 2 ^ S m) + 1) (r - 2 ^ m)); [lia|].
          rewrite Hdm at 1. rewrite pow2_S. lia. }
        assert (Eq : i / 2 ^ m = 2 * (i / 2 ^ S m) + 1).
        { symmetry. apply (Nat.div_unique i (2 ^ m) (2 * (i / 2 ^ S m) + 1) (r - 2 ^ m)); [lia|].
          rewrite Hdm at 1. rewrite pow2_S. lia. }
        rewrite verify_walk_app.
        replace (nth r leaves []) with (nth (r - 2 ^ m) (skipn (2 ^ m) leaves) [])
          by (rewrite nth_skipn'; f_equal; lia).
        rewrite Er, (IHm _ i HR).
        cbn [Merkle.verify_walk]. unfold Merkle.walk_step.
        rewrite Eq at 1. rewrite add_even_mod2. cbn [Nat.modulo Nat.eqb]. 
        rewrite Hdiv. reflexivity.
  Qed.

  Lemma digest_eqb_refl d : digest_eqb d d = true.
  Proof. apply digest_eqb_spec. reflexivity. Qed.

  Theorem verify_opening leaves k h i :
    length leaves = 2 ^ k -> h <= k -> i < 2 ^ k ->
    verify (nth i leaves []) i (cap_spec (k - h) leaves) (opening (k - h) leaves i) = true.
  Proof.
    intros Hl Hh Hi. set (m := k - h).
    assert (Hl' : length leaves = 2 ^ h * 2 ^ m) by (rewrite Hl; apply pow2_km; assumption).
    pose proof (pow2_pos h) as Hph. pose proof (pow2_pos m) as Hpm.
    assert (Ht : i / 2 ^ m < 2 ^ h).
    { apply Nat.div_lt_upper_bound; [lia|]. rewrite Nat.mul_comm, <- Hl', Hl. exact Hi. }
    assert (Hc : length (chunk (2 ^ m) (i / 2 ^ m) leaves) = 2 ^ m) by (eapply chunk_length; eauto).
    unfold Merkle.verify_merkle_proof_to_cap, Merkle.verify_merkle_proof_to_cap_res, opening.
    rewrite <- (nth_chunk (2 ^ m) leaves i []) by lia.
    rewrite (walk_path m _ i Hc).
    unfold cap_spec, chunks. rewrite Hl', Nat.div_mul by lia.
    rewrite map_map, nth_error_map_seq by assumption.
    rewrite digest_eqb_refl. reflexivity.
  Qed.

  (* the membership proof produced for position i verifies against the tree's cap with leaf i *)
  Theorem prove_verify leaves k h i :
    length leaves = 2 ^ k -> h <= k -> i < 2 ^ k ->
    exists cap proof,
      merkle_cap leaves h = Some cap /\ merkle_prove leaves h i = Some proof
      /\ verify (nth i leaves []) i cap proof = true.
  Proof.
    intros Hl Hh Hi. exists (cap_spec (k - h) leaves), (opening (k - h) leaves i).
    split; [|split].
    - unfold Merkle.merkle_cap. rewrite (merkle_tree_new_spec leaves k h Hl Hh). reflexivity.
    - apply merkle_prove_spec; assumption.
    - apply verify_opening; assumption.
  Qed.

  (* -------------------------------------------------------------------------------------- *)
  (* binding: two accepted openings of the same position against the same cap, with proofs of
     the same length, are equal - or they EXHIBIT a collision of two_to_one or hash_leaf.
     The collision is computed by [find_node_collision]. *)

  Definition node_collision : Type :=
    { x : (digest * digest) * (digest * digest)
    | fst x <> snd x
      /\ two_to_one (fst (fst x)) (snd (fst x)) = two_to_one (fst (snd x)) (snd (snd x)) }.

  Definition leaf_collision : Type :=
    { x : list F * list F | fst x <> snd x /\ hash_leaf (fst x) = hash_leaf (snd x) }.

  (* the ordered pair of inputs of the compression at one step of the walk *)
  Definition step_inputs (cur : digest) (idx : nat) (sib : digest) : digest * digest :=
    if idx mod 2 =? 1 then (sib, cur) else (cur, sib).

  Lemma walk_step_inputs cur idx sib :
    walk_step cur idx sib = two_to_one (fst (step_inputs cur idx sib)) (snd (step_inputs cur idx sib)).
  Proof. unfold Merkle.walk_step, step_inputs. destruct (idx mod 2 =? 1); reflexivity. Qed.

  Definition pair_eqb (a b : digest * digest) : bool :=
    digest_eqb (fst a) (fst b) && digest_eqb (snd a) (snd b).

  Lemma pair_eqb_spec a b : pair_eqb a b = true <-> a = b.
  Proof.
    unfold pair_eqb. destruct a as [a1 a2], b as [b1 b2]. cbn [fst snd].
    rewrite andb_true_iff, !digest_eqb_spec. split; [intros [-> ->]; reflexivity|].
    intros [= -> ->]. auto.
  Qed.

  (* topmost level at which the two walks feed different inputs into equal outputs *)
  Fixpoint find_node_collision (cur cur' : digest) (idx : nat) (p p' : list digest)
    : option ((digest * digest) * (digest * digest)) :=
    match p, p' with
    | s :: r, s' :: r' =>
      match find_node_collision (walk_step cur idx s) (walk_step cur' idx s') (idx / 2) r r' with
      | Some c => Some c
      | None =>
        if pair_eqb (step_inputs cur idx s) (step_inputs cur' idx s') then None
        else if digest_eqb (walk_step cur idx s) (walk_step cur' idx s')
             then Some (step_inputs cur idx s, step_inputs cur' idx s')
             else None
      end
    | _, _ => None
    end.

  Lemma find_node_collision_sound p : forall p' cur cur' idx c,
    find_node_collision cur cur' idx p p' = Some c ->
    fst c <> snd c /\ two_to_one (fst (fst c)) (snd (fst c)) = two_to_one (fst (snd c)) (snd (snd c)).
  Proof.
    induction p as [|s r IH]; intros [|s' r'] cur cur' idx c; cbn [find_node_collision]; try discriminate.
    destruct (find_node_collision (walk_step cur idx s) (walk_step cur' idx s') (idx / 2) r r') eqn:E.
    - intros [= <-]. eapply IH; eauto.
    - destruct (pair_eqb (step_inputs cur idx s) (step_inputs cur' idx s')) eqn:Ep; [discriminate|].
      destruct (digest_eqb (walk_step cur idx s) (walk_step cur' idx s')) eqn:Ed; [|discriminate].
      intros [= <-]. cbn [fst snd]. split.
      + intros Heq. apply pair_eqb_spec in Heq. congruence.
      + rewrite <- !walk_step_inputs. apply digest_eqb_spec. exact Ed.
  Qed.

  Lemma step_inputs_inj cur cur' idx s s' :
    step_inputs cur idx s = step_inputs cur' idx s' -> cur = cur' /\ s = s'.
  Proof. unfold step_inputs. destruct (idx mod 2 =? 1); intros [= -> ->]; auto. Qed.

  Lemma find_node_collision_complete p : forall p' cur cur' idx,
    length p = length p' ->
    fst (verify_walk cur idx p) = fst (verify_walk cur' idx p') ->
    find_node_collision cur cur' idx p p' = None ->
    cur = cur' /\ p = p'.
  Proof.
    induction p as [|s r IH]; intros [|s' r'] cur cur' idx Hlen Hw Hf; try discriminate.
    - cbn in Hw. auto.
    - cbn [Merkle.verify_walk] in Hw. cbn [find_node_collision] in Hf.
      destruct (find_node_collision (walk_step cur idx s) (walk_step cur' idx s') (idx / 2) r r') eqn:E;
        [discriminate|].
      destruct (IH r' _ _ _ ltac:(simpl in Hlen; lia) Hw E) as [Hd Hr].
      rewrite Hd, digest_eqb_refl in Hf.
      destruct (pair_eqb (step_inputs cur idx s) (step_inputs cur' idx s')) eqn:Ep; [|discriminate].
      apply pair_eqb_spec, step_inputs_inj in Ep. destruct Ep as [-> ->]. subst. auto.
  Qed.

  Lemma verify_walk_snd p : forall cur idx, snd (verify_walk cur idx p) = idx / 2 ^ length p.
  Proof.
    induction p; intros; cbn [Merkle.verify_walk length].
    - cbn [snd Nat.pow]. rewrite Nat.div_1_r. reflexivity.
    - rewrite IHp, Nat.div_div by (pose proof (pow2_pos (length p)); lia).
      f_equal.
  Qed.

  Lemma verify_true_inv l i cap p :
    verify l i cap p = true ->
    nth_error cap (i / 2 ^ length p) = Some (fst (verify_walk (hash_leaf l) i p)).
  Proof.
    unfold Merkle.verify_merkle_proof_to_cap, Merkle.verify_merkle_proof_to_cap_res.
    pose proof (verify_walk_snd p (hash_leaf l) i) as Hs.
    destruct (verify_walk (hash_leaf l) i p) as [d j]. cbn [fst snd] in *. subst j.
    destruct (nth_error cap (i / 2 ^ length p)) as [c|]; [|discriminate].
    destruct (digest_eqb d c) eqn:E; [|discriminate]. apply digest_eqb_spec in E. subst. reflexivity.
  Qed.

  Theorem verify_binding l l' i cap p p' :
    verify l i cap p = true -> verify l' i cap p' = true ->
    length p = length p' -> (l, p) <> (l', p') ->
    leaf_collision + node_collision.
  Proof.
    intros V V' Hlen Hne.
    apply verify_true_inv in V. apply verify_true_inv in V'. rewrite <- Hlen, V in V'.
    injection V' as Hd.
    destruct (find_node_collision (hash_leaf l) (hash_leaf l') i p p') as [c|] eqn:E.
    - right. exists c. eapply find_node_collision_sound; eauto.
    - left. destruct (find_node_collision_complete p p' _ _ i Hlen Hd E) as [Hh Hp].
      exists (l, l'). cbn [fst snd]. split; [|exact Hh].
      intros ->. apply Hne. subst. reflexivity.
  Qed.

  (* the same statement in Prop *)
  Corollary verify_binding_ex l l' i cap p p' :
    verify l i cap p = true -> verify l' i cap p' = true ->
    length p = length p' -> (l, p) <> (l', p') ->
    (exists x y, x <> y /\ hash_leaf x = hash_leaf y)
    \/ (exists a b a' b', (a, b) <> (a', b') /\ two_to_one a b = two_to_one a' b').
  Proof.
    intros V V' Hlen Hne.
    destruct (verify_binding l l' i cap p p' V V' Hlen Hne) as [[[x y] [H1 H2]]|[[[a b] [a' b']] [H1 H2]]].
    - left. exists x, y. auto.
    - right. exists a, b, a', b'. auto.
  Qed.

  (* Against a commitment to [leaves]: any accepted opening of position i (of the committed
     proof length) is the committed leaf with the committed siblings, or exhibits a collision.
     Consequences: another leaf at position i, or the committed leaf at another position i' where
     it is not committed (take i := i'), or an altered sibling - each is rejected or yields a
     collision. *)
  Theorem other_leaf_collision leaves k h i cap l' p' :
    length leaves = 2 ^ k -> h <= k -> i < 2 ^ k ->
    merkle_cap leaves h = Some cap ->
    verify l' i cap p' = true -> length p' = k - h ->
    l' <> nth i leaves [] ->
    leaf_collision + node_collision.
  Proof.
    intros Hl Hh Hi Hcap V Hlen Hne.
    unfold Merkle.merkle_cap in Hcap. rewrite (merkle_tree_new_spec leaves k h Hl Hh) in Hcap.
    cbn in Hcap. injection Hcap as <-.
    pose proof (verify_opening leaves k h i Hl Hh Hi) as V0.
    apply (verify_binding _ _ _ _ _ _ V0 V).
    - unfold opening. rewrite path_length. lia.
    - intros [= E _]. apply Hne. symmetry. exact E.
  Qed.

  Theorem altered_sibling_collision leaves k h i cap pr p' :
    length leaves = 2 ^ k -> h <= k -> i < 2 ^ k ->
    merkle_cap leaves h = Some cap -> merkle_prove leaves h i = Some pr ->
    verify (nth i leaves []) i cap p' = true -> length p' = length pr ->
    p' <> pr ->
    leaf_collision + node_collision.
  Proof.
    intros Hl Hh Hi Hcap Hpr V Hlen Hne.
    rewrite (merkle_prove_spec leaves k h i Hl Hh Hi) in Hpr. injection Hpr as <-.
    unfold Merkle.merkle_cap in Hcap. rewrite (merkle_tree_new_spec leaves k h Hl Hh) in Hcap.
    cbn in Hcap. injection Hcap as <-.
    pose proof (verify_opening leaves k h i Hl Hh Hi) as V0.
    apply (verify_binding _ _ _ _ _ _ V0 V); [lia|].
    intros [= E]. apply Hne. symmetry. exact E.
  Qed.

  (* an altered sibling can only produce a NODE collision (the leaf is the same) *)

  (* an accepted honest opening pins the cap entry on its path: altering it is rejected *)
  Theorem altered_cap_rejected leaves k h i cap pr cap' :
    length leaves = 2 ^ k -> h <= k -> i < 2 ^ k ->
    merkle_cap leaves h = Some cap -> merkle_prove leaves h i = Some pr ->
    nth_error cap' (i / 2 ^ (k - h)) <> nth_error cap (i / 2 ^ (k - h)) ->
    verify (nth i leaves []) i cap' pr = false.
  Proof.
    intros Hl Hh Hi Hcap Hpr Hne.
    rewrite (merkle_prove_spec leaves k h i Hl Hh Hi) in Hpr. injection Hpr as <-.
    unfold Merkle.merkle_cap in Hcap. rewrite (merkle_tree_new_spec leaves k h Hl Hh) in Hcap.
    cbn in Hcap. injection Hcap as <-.
    pose proof (verify_opening leaves k h i Hl Hh Hi) as V0.
    destruct (verify (nth i leaves []) i cap' (opening (k - h) leaves i)) eqn:V; [|reflexivity].
    exfalso. apply Hne.
    apply verify_true_inv in V0. apply verify_true_inv in V.
    unfold opening in V0, V. rewrite path_length in V0, V. rewrite V, V0. reflexivity.
  Qed.

  (* verification at a position outside the tree indexes the cap out of range: the Rust code
     panics, it does not accept *)
  Theorem verify_out_of_range_panics l i cap p :
    length cap <= i / 2 ^ length p -> verify_res l i cap p = VPanic.
  Proof.
    intros Hr. unfold Merkle.verify_merkle_proof_to_cap_res.
    pose proof (verify_walk_snd p (hash_leaf l) i) as Hs.
    destruct (verify_walk (hash_leaf l) i p) as [d j]. cbn [snd] in Hs. subst j.
    apply nth_error_None in Hr. rewrite Hr. reflexivity.
  Qed.

  (* -------------------------------------------------------------------------------------- *)
  (* batch trees (batch_merkle_tree.rs): layers of heights k0 > k1 > .. >= h; the cap of one
     stage, extended by the rows of the next layer, is the leaf layer of the next stage *)

  Notation batch_layers := (batch_layers F digest hash_leaf two_to_one digest_to_vec).
  Notation batch_merkle_tree_new := (batch_merkle_tree_new F digest hash_leaf two_to_one digest_to_vec).
  Notation open_batch_layers := (open_batch_layers digest).
  Notation open_batch := (open_batch F digest).
  Notation batch_values := (batch_values F digest).
  Notation batch_walk := (batch_walk F digest hash_leaf two_to_one digest_to_vec).
  Notation verify_batch := (verify_batch_merkle_proof_to_cap F digest hash_leaf two_to_one digest_eqb digest_to_vec).

  Definition combine_cap (cap : list digest) (cur : list (list F)) : list (list F) :=
    map (fun p => digest_to_vec (fst p) ++ snd p) (combine cap cur).

  (* [rest]: the remaining layers with their heights; [lv], [kc]: leaves and height of the
     current stage; [h]: cap height. Digest array, final cap, opening of position idx. *)
  Fixpoint bdigests (lv : list (list F)) (kc : nat) (rest : list (list (list F) * nat)) (h : nat)
    : list digest :=
    match rest with
    | [] => digests_spec (kc - h) lv
    | (nxt, kn) :: rest' =>
      digests_spec (kc - kn) lv ++ bdigests (combine_cap (cap_spec (kc - kn) lv) nxt) kn rest' h
    end.

  Fixpoint bcap (lv : list (list F)) (kc : nat) (rest : list (list (list F) * nat)) (h : nat)
    : list digest :=
    match rest with
    | [] => cap_spec (kc - h) lv
    | (nxt, kn) :: rest' => bcap (combine_cap (cap_spec (kc - kn) lv) nxt) kn rest' h
    end.

  Fixpoint bopen (lv : list (list F)) (kc : nat) (rest : list (list (list F) * nat)) (h idx : nat)
    : list digest :=
    match rest with
    | [] => opening (kc - h) lv idx
    | (nxt, kn) :: rest' =>
      opening (kc - kn) lv idx
      ++ bopen (combine_cap (cap_spec (kc - kn) lv) nxt) kn rest' h (idx / 2 ^ (kc - kn))
    end.

  (* well-formed remaining layers below a stage of height kc: sizes 2^kn, strictly decreasing
     heights, all at least h *)
  Fixpoint bwf (kc : nat) (rest : list (list (list F) * nat)) (h : nat) : Prop :=
    match rest with
    | [] => h <= kc
    | (nxt, kn) :: rest' => length nxt = 2 ^ kn /\ kn < kc /\ bwf kn rest' h
    end.

  Lemma bwf_h kc rest h : bwf kc rest h -> h <= kc.
  Proof.
    revert kc; induction rest as [|[nxt kn] rest IH]; intros kc; cbn [bwf]; [auto|].
    intros (_ & Hlt & Hw). apply IH in Hw. lia.
  Qed.

  Lemma combine_cap_length cap cur : length cap = length cur -> length (combine_cap cap cur) = length cur.
  Proof. intros E. unfold combine_cap. rewrite map_length, combine_length. lia. Qed.

  Lemma bdigests_length : forall rest lv kc h,
    length lv = 2 ^ kc -> bwf kc rest h -> length (bdigests lv kc rest h) = 2 * (2 ^ kc - 2 ^ h).
  Proof.
    induction rest as [|[nxt kn] rest IH]; intros lv kc h Hl Hw; cbn [bdigests bwf] in *.
    - rewrite (num_digests_eq kc h Hw). apply digests_spec_length. rewrite Hl. apply pow2_km. exact Hw.
    - destruct Hw as (Hn & Hlt & Hw). pose proof (bwf_h _ _ _ Hw) as Hh.
      assert (Hl' : length lv = 2 ^ kn * 2 ^ (kc - kn)) by (rewrite Hl; apply pow2_km; lia).
      rewrite app_length, (digests_spec_length _ kn lv Hl').
      rewrite IH; [| |exact Hw].
      + rewrite <- (num_digests_eq kc kn) by lia.
        assert (2 ^ h <= 2 ^ kn) by (apply Nat.pow_le_mono_r; lia).
        assert (2 ^ kn <= 2 ^ kc) by (apply Nat.pow_le_mono_r; lia). lia.
      + rewrite combine_cap_length; [exact Hn|]. rewrite (cap_spec_length _ kn lv Hl'). lia.
  Qed.

  Lemma apply_writes_window ws vals pre post :
    Permutation ws (combine (seq (length pre) (length vals)) vals) ->
    apply_writes ws (pre ++ repeat None (length vals) ++ post) = pre ++ map Some vals ++ post.
  Proof.
    intros Hp. rewrite (apply_writes_perm _ _ Hp).
    - apply apply_writes_seq.
    - eapply Permutation_NoDup; [apply Permutation_map, Permutation_sym, Hp|].
      rewrite map_fst_combine by (rewrite seq_length; reflexivity). apply seq_NoDup.
  Qed.

  Lemma apply_writes_ordered n vals :
    length vals = n -> all_init (apply_writes (combine (seq 0 n) vals) (repeat None n)) = Some vals.
  Proof. intros <-. apply apply_writes_total. apply Permutation_refl. Qed.

  Lemma log2_strict_pow2_neq a b : 2 ^ a = 2 ^ b -> a = b.
  Proof. intros E. apply Nat.pow_inj_r in E; lia. Qed.

  Lemma batch_layers_cons nd ll cur rest dl buf pos cap hs :
    batch_layers nd ll (cur :: rest) dl buf pos cap hs =
      let cur_leaf_len := length cur in
      let next_cap_len := match rest with nxt :: _ => length nxt | [] => dl end in
      match log2_strict next_cap_len, log2_strict cur_leaf_len with
      | Some next_cap_height, Some cur_h =>
        if cur_leaf_len <? next_cap_len then None
        else
          let num_tmp_digests := 2 * (cur_leaf_len - next_cap_len) in
          if nd <? pos + num_tmp_digests then None
          else
            let lv :=
              if cur_leaf_len =? ll then Some cur
              else if length cap <=? length cur
                   then Some (map (fun p => digest_to_vec (fst p) ++ snd p) (combine cap cur))
                   else None in
            match lv with
            | None => None
            | Some lv =>
              match fill_digests_buf pos num_tmp_digests next_cap_len lv next_cap_height with
              | None => None
              | Some (dw, cw) =>
                match all_init (apply_writes cw (repeat None next_cap_len)) with
                | None => None
                | Some cap' =>
                  batch_layers nd ll rest dl (apply_writes dw buf)
                               (pos + num_tmp_digests) cap' (hs ++ [cur_h])
                end
              end
            end
      | _, _ => None
      end.
  Proof. reflexivity. Qed.

  (* the loop of BatchMerkleTree::new from one stage on *)
  Lemma batch_layers_spec : forall (rest : list (list (list F) * nat)) cur kc lv cap pre heights
                                   num_digests leaves_len h,
    length cur = 2 ^ kc -> bwf kc rest h ->
    2 ^ kc <= leaves_len ->
    ((length cur = leaves_len /\ lv = cur)
     \/ (length cur <> leaves_len /\ length cap = length cur /\ lv = combine_cap cap cur)) ->
    num_digests = length pre + 2 * (2 ^ kc - 2 ^ h) ->
    batch_layers num_digests leaves_len (cur :: map fst rest) (2 ^ h)
                 (pre ++ repeat None (2 * (2 ^ kc - 2 ^ h))) (length pre) cap heights
    = Some (pre ++ map Some (bdigests lv kc rest h), bcap lv kc rest h, heights ++ kc :: map snd rest).
  Proof.
    induction rest as [|[nxt kn] rest IH];
      intros cur kc lv cap pre heights num_digests leaves_len h Hcur Hw Hle Hlv Hnum.
    - (* last layer: the next "cap length" is the dummy layer of 2^h rows *)
      cbn [bwf] in Hw. cbn [map bdigests bcap]. rewrite batch_layers_cons. cbv zeta.
      rewrite Hcur, !log2_strict_pow2.
      assert (Hpow : 2 ^ h <= 2 ^ kc) by (apply Nat.pow_le_mono_r; lia).
      replace (2 ^ kc <? 2 ^ h) with false by (symmetry; apply Nat.ltb_ge; lia).
      replace (num_digests <? length pre + 2 * (2 ^ kc - 2 ^ h)) with false
        by (symmetry; apply Nat.ltb_ge; lia).
      assert (Hlvlen : length lv = 2 ^ kc).
      { destruct Hlv as [[_ ->]|(_ & Hc & ->)]; [exact Hcur|]. rewrite combine_cap_length; assumption. }
      assert (Elv : (if 2 ^ kc =? leaves_len then Some cur
                     else if length cap <=? 2 ^ kc
                          then Some (map (fun p => digest_to_vec (fst p) ++ snd p) (combine cap cur))
                          else None) = Some lv).
      { destruct Hlv as [[E ->]|(Hne & Hc & ->)].
        - rewrite <- Hcur, E, Nat.eqb_refl. reflexivity.
        - replace (2 ^ kc =? leaves_len) with false by (symmetry; apply Nat.eqb_neq; lia).
          replace (length cap <=? 2 ^ kc) with true by (symmetry; apply Nat.leb_le; lia).
          reflexivity. }
      rewrite Elv.
      assert (Hl' : length lv = 2 ^ h * 2 ^ (kc - h)) by (rewrite Hlvlen; apply pow2_km; exact Hw).
      rewrite (num_digests_eq kc h Hw).
      destruct (fill_digests_buf_spec h (kc - h) (length pre) lv Hl') as (dw & E & Pd).
      rewrite E.
      rewrite (apply_writes_ordered (2 ^ h)) by (apply cap_spec_length; exact Hl').
      rewrite <- (digests_spec_length (kc - h) h lv Hl') in Pd |- *.
      pose proof (apply_writes_window dw (digests_spec (kc - h) lv) pre [] Pd) as Ew.
      rewrite !app_nil_r in Ew. rewrite Ew. reflexivity.
    - cbn [bwf] in Hw. destruct Hw as (Hn & Hlt & Hw). pose proof (bwf_h _ _ _ Hw) as Hh.
      cbn [map fst snd bdigests bcap]. rewrite batch_layers_cons. cbv zeta.
      rewrite Hcur, Hn, !log2_strict_pow2.
      assert (Hpow : 2 ^ kn < 2 ^ kc) by (apply Nat.pow_lt_mono_r; lia).
      assert (Hpowh : 2 ^ h <= 2 ^ kn) by (apply Nat.pow_le_mono_r; lia).
      replace (2 ^ kc <? 2 ^ kn) with false by (symmetry; apply Nat.ltb_ge; lia).
      replace (num_digests <? length pre + 2 * (2 ^ kc - 2 ^ kn)) with false
        by (symmetry; apply Nat.ltb_ge; lia).
      assert (Hlvlen : length lv = 2 ^ kc).
      { destruct Hlv as [[_ ->]|(_ & Hc & ->)]; [exact Hcur|]. rewrite combine_cap_length; assumption. }
      assert (Elv : (if 2 ^ kc =? leaves_len then Some cur
                     else if length cap <=? 2 ^ kc
                          then Some (map (fun p => digest_to_vec (fst p) ++ snd p) (combine cap cur))
                          else None) = Some lv).
      { destruct Hlv as [[E ->]|(Hne & Hc & ->)].
        - rewrite <- Hcur, E, Nat.eqb_refl. reflexivity.
        - replace (2 ^ kc =? leaves_len) with false by (symmetry; apply Nat.eqb_neq; lia).
          replace (length cap <=? 2 ^ kc) with true by (symmetry; apply Nat.leb_le; lia).
          reflexivity. }
      rewrite Elv.
      assert (Hl' : length lv = 2 ^ kn * 2 ^ (kc - kn)) by (rewrite Hlvlen; apply pow2_km; lia).
      rewrite (num_digests_eq kc kn) by lia.
      destruct (fill_digests_buf_spec kn (kc - kn) (length pre) lv Hl') as (dw & E & Pd).
      rewrite E.
      rewrite (apply_writes_ordered (2 ^ kn)) by (apply cap_spec_length; exact Hl').
      pose proof (digests_spec_length (kc - kn) kn lv Hl') as Hdl.
      rewrite <- Hdl in Pd.
      replace (2 * (2 ^ kc - 2 ^ h)) with (length (digests_spec (kc - kn) lv) + 2 * (2 ^ kn - 2 ^ h))
        by (rewrite Hdl, <- (num_digests_eq kc kn) by lia; lia).
      rewrite repeat_app.
      rewrite (apply_writes_window dw (digests_spec (kc - kn) lv) pre _ Pd).
      replace (pre ++ map Some (digests_spec (kc - kn) lv) ++ repeat None (2 * (2 ^ kn - 2 ^ h)))
        with ((pre ++ map Some (digests_spec (kc - kn) lv)) ++ repeat None (2 * (2 ^ kn - 2 ^ h)))
        by (rewrite <- app_assoc; reflexivity).
      replace (length pre + length (digests_spec (kc - kn) lv))
        with (length (pre ++ map Some (digests_spec (kc - kn) lv)))
        by (rewrite app_length, map_length; reflexivity).
      rewrite <- Hdl.
      replace (length pre + length (digests_spec (kc - kn) lv))
        with (length (pre ++ map Some (digests_spec (kc - kn) lv)))
        by (rewrite app_length, map_length; reflexivity).
      rewrite (IH nxt kn (combine_cap (cap_spec (kc - kn) lv) nxt)); try assumption.
      + rewrite map_app, <- !app_assoc. cbn [app]. reflexivity.
      + lia.
      + right. split; [rewrite Hn; lia|]. split; [|reflexivity].
        rewrite (cap_spec_length (kc - kn) kn lv Hl'). lia.
      + rewrite app_length, map_length, Hdl, <- (num_digests_eq kc kn) by lia. lia.
  Qed.

  Lemma bcap_length : forall rest lv kc h,
    length lv = 2 ^ kc -> bwf kc rest h -> length (bcap lv kc rest h) = 2 ^ h.
  Proof.
    induction rest as [|[nxt kn] rest IH]; intros lv kc h Hl Hw; cbn [bcap bwf] in *.
    - apply cap_spec_length. rewrite Hl. apply pow2_km. exact Hw.
    - destruct Hw as (Hn & Hlt & Hw). apply IH; [|exact Hw].
      rewrite combine_cap_length; [exact Hn|].
      rewrite (cap_spec_length _ kn lv) by (rewrite Hl; apply pow2_km; lia). lia.
  Qed.

  Lemma is_pow2_pow2 k : is_pow2 (2 ^ k) = true.
  Proof. unfold is_pow2. rewrite log2_strict_pow2. reflexivity. Qed.

  Lemma bwf_forallb : forall rest kc h,
    bwf kc rest h -> forallb (fun m : list (list F) => is_pow2 (length m)) (map fst rest) = true.
  Proof.
    induction rest as [|[nxt kn] rest IH]; intros kc h Hw; [reflexivity|].
    cbn [bwf] in Hw. destruct Hw as (Hn & _ & Hw). cbn [map fst forallb].
    rewrite Hn, is_pow2_pow2. eapply IH; eauto.
  Qed.

  Lemma bwf_decreasing : forall rest (cur : list (list F)) kc h,
    length cur = 2 ^ kc -> bwf kc rest h ->
    strictly_decreasing (map (@length _) (cur :: map fst rest)) = true.
  Proof.
    induction rest as [|[nxt kn] rest IH]; intros cur kc h Hc Hw; [reflexivity|].
    cbn [bwf] in Hw. destruct Hw as (Hn & Hlt & Hw).
    specialize (IH nxt kn h Hn Hw). cbn [map fst] in *. cbn [strictly_decreasing].
    cbn [strictly_decreasing] in IH. rewrite IH, Hc, Hn, andb_true_r.
    apply Nat.ltb_lt. apply Nat.pow_lt_mono_r; lia.
  Qed.

  Lemma bwf_last : forall rest (cur : list (list F)) kc h,
    length cur = 2 ^ kc -> bwf kc rest h ->
    exists kl, log2_strict (length (last (cur :: map fst rest) [])) = Some kl /\ h <= kl.
  Proof.
    induction rest as [|[nxt kn] rest IH]; intros cur kc h Hc Hw.
    - cbn [map last]. rewrite Hc, log2_strict_pow2. exists kc. split; [reflexivity|exact Hw].
    - cbn [bwf] in Hw. destruct Hw as (Hn & Hlt & Hw).
      destruct (IH nxt kn h Hn Hw) as (kl & E & Hh). exists kl. split; [|exact Hh].
      cbn [map fst] in *. exact E.
  Qed.

  Theorem batch_merkle_tree_new_spec first k0 rest h :
    length first = 2 ^ k0 -> bwf k0 rest h ->
    batch_merkle_tree_new (first :: map fst rest) h
    = Some (mkBatch (first :: map fst rest) (bdigests first k0 rest h) (bcap first k0 rest h)
                    (k0 :: map snd rest)).
  Proof.
    intros Hf Hw. unfold Merkle.batch_merkle_tree_new.
    cbn [forallb]. rewrite Hf, is_pow2_pow2, (bwf_forallb rest k0 h Hw). cbn [andb negb].
    rewrite (bwf_decreasing rest first k0 h Hf Hw). cbn [negb].
    destruct (bwf_last rest first k0 h Hf Hw) as (kl & El & Hh). rewrite El.
    replace (kl <? h) with false by (symmetry; apply Nat.ltb_ge; lia).
    pose proof (batch_layers_spec rest first k0 first [] [] [] (2 * (2 ^ k0 - 2 ^ h)) (2 ^ k0) h
                                  Hf Hw (le_n _) (or_introl (conj Hf eq_refl)) eq_refl) as E.
    cbn [app length] in E. rewrite E.
    rewrite all_init_map_Some. reflexivity.
  Qed.

  (* ---- open_batch ---- *)
  Lemma slice_window {A} (pre seg post : list A) :
    slice (pre ++ seg ++ post) (length pre) (length pre + length seg) = Some seg.
  Proof.
    unfold slice. rewrite !app_length.
    replace ((length pre <=? length pre + length seg)
             && (length pre + length seg <=? length pre + (length seg + length post))) with true
      by (symmetry; apply andb_true_iff; split; apply Nat.leb_le; lia).
    f_equal. rewrite skipn_app, skipn_all, Nat.sub_diag. cbn [skipn app].
    replace (length pre + length seg - length pre) with (length seg) by lia.
    rewrite firstn_app, firstn_all, Nat.sub_diag. cbn [firstn]. apply app_nil_r.
  Qed.

  Lemma open_batch_layers_cons2 dbg digests leaf_index initial_h cur_h next_h r pos :
    open_batch_layers dbg digests leaf_index initial_h (cur_h :: next_h :: r) pos =
      if (initial_h <? cur_h) || (2 ^ cur_h <? 2 ^ next_h) then None
      else
        let num_digests := 2 * (2 ^ cur_h - 2 ^ next_h) in
        match slice digests pos (pos + num_digests) with
        | None => None
        | Some ds =>
          match merkle_tree_prove dbg (leaf_index / 2 ^ (initial_h - cur_h)) (2 ^ cur_h) next_h ds,
                open_batch_layers dbg digests leaf_index initial_h (next_h :: r) (pos + num_digests) with
          | Some p, Some q => Some (p ++ q)
          | _, _ => None
          end
        end.
  Proof. reflexivity. Qed.

  Lemma div_div_pow i a b : i / 2 ^ a / 2 ^ b = i / 2 ^ (a + b).
  Proof.
    rewrite Nat.div_div by (pose proof (pow2_pos a); pose proof (pow2_pos b); lia).
    rewrite Nat.pow_add_r. reflexivity.
  Qed.

  Lemma open_batch_layers_spec dbg i k0 h : forall rest lv kc pre post,
    length lv = 2 ^ kc -> bwf kc rest h -> kc <= k0 -> i / 2 ^ (k0 - kc) < 2 ^ kc ->
    open_batch_layers dbg (pre ++ bdigests lv kc rest h ++ post) i k0
                      (kc :: map snd rest ++ [h]) (length pre)
    = Some (bopen lv kc rest h (i / 2 ^ (k0 - kc))).
  Proof.
    induction rest as [|[nxt kn] rest IH]; intros lv kc pre post Hl Hw Hk Hi.
    - cbn [bwf] in Hw. cbn [map app bdigests bopen]. rewrite open_batch_layers_cons2.
      assert (Hpow : 2 ^ h <= 2 ^ kc) by (apply Nat.pow_le_mono_r; lia).
      replace (k0 <? kc) with false by (symmetry; apply Nat.ltb_ge; lia).
      replace (2 ^ kc <? 2 ^ h) with false by (symmetry; apply Nat.ltb_ge; lia).
      cbn [orb]. cbv zeta.
      assert (Hdl : length (digests_spec (kc - h) lv) = 2 * (2 ^ kc - 2 ^ h)).
      { rewrite (num_digests_eq kc h Hw). apply digests_spec_length. rewrite Hl. apply pow2_km. exact Hw. }
      rewrite <- Hdl, slice_window.
      rewrite (merkle_tree_prove_spec dbg lv kc h _ Hl Hw Hi).
      cbn [Merkle.open_batch_layers]. rewrite app_nil_r. reflexivity.
    - cbn [bwf] in Hw. destruct Hw as (Hn & Hlt & Hw). pose proof (bwf_h _ _ _ Hw) as Hh.
      cbn [map fst snd app bdigests bopen]. rewrite open_batch_layers_cons2.
      assert (Hpow : 2 ^ kn <= 2 ^ kc) by (apply Nat.pow_le_mono_r; lia).
      replace (k0 <? kc) with false by (symmetry; apply Nat.ltb_ge; lia).
      replace (2 ^ kc <? 2 ^ kn) with false by (symmetry; apply Nat.ltb_ge; lia).
      cbn [orb]. cbv zeta.
      assert (Hl' : length lv = 2 ^ kn * 2 ^ (kc - kn)) by (rewrite Hl; apply pow2_km; lia).
      assert (Hdl : length (digests_spec (kc - kn) lv) = 2 * (2 ^ kc - 2 ^ kn)).
      { rewrite (num_digests_eq kc kn) by lia. apply digests_spec_length. exact Hl'. }
      rewrite <- Hdl, <- app_assoc, slice_window.
      rewrite (merkle_tree_prove_spec dbg lv kc kn _ Hl ltac:(lia) Hi).
      replace (pre ++ digests_spec (kc - kn) lv
                   ++ bdigests (combine_cap (cap_spec (kc - kn) lv) nxt) kn rest h ++ post)
        with ((pre ++ digests_spec (kc - kn) lv)
                ++ bdigests (combine_cap (cap_spec (kc - kn) lv) nxt) kn rest h ++ post)
        by (rewrite <- app_assoc; reflexivity).
      replace (length pre + length (digests_spec (kc - kn) lv))
        with (length (pre ++ digests_spec (kc - kn) lv)) by (rewrite app_length; reflexivity).
      assert (Eidx : i / 2 ^ (k0 - kn) = i / 2 ^ (k0 - kc) / 2 ^ (kc - kn))
        by (rewrite div_div_pow; f_equal; f_equal; lia).
      rewrite IH.
      + rewrite Eidx. reflexivity.
      + rewrite combine_cap_length; [exact Hn|]. rewrite (cap_spec_length _ kn lv Hl'). lia.
      + exact Hw.
      + lia.
      + rewrite Eidx. apply Nat.div_lt_upper_bound; [pose proof (pow2_pos (kc - kn)); lia|].
        rewrite <- Nat.pow_add_r. replace (kc - kn + kn) with kc by lia. exact Hi.
  Qed.

  Theorem open_batch_spec dbg first k0 rest h i :
    length first = 2 ^ k0 -> bwf k0 rest h -> i < 2 ^ k0 ->
    open_batch dbg (mkBatch (first :: map fst rest) (bdigests first k0 rest h) (bcap first k0 rest h)
                            (k0 :: map snd rest)) i
    = Some (bopen first k0 rest h i).
  Proof.
    intros Hf Hw Hi. unfold Merkle.open_batch.
    cbn [bt_leaves bt_cap bt_digests bt_leaf_heights].
    rewrite Hf, log2_strict_pow2, (bcap_length rest first k0 h Hf Hw), log2_strict_pow2.
    pose proof (open_batch_layers_spec dbg i k0 h rest first k0 [] [] Hf Hw (le_n _)) as E.
    rewrite Nat.sub_diag in E. cbn [Nat.pow] in E. rewrite Nat.div_1_r in E.
    cbn [app length] in E. rewrite app_nil_r in E. apply E. exact Hi.
  Qed.

  (* ---- values ---- *)
  Definition bvals (i k0 : nat) (all : list (list (list F) * nat)) : list (list F) :=
    map (fun mk => nth (i / 2 ^ (k0 - snd mk)) (fst mk) []) all.

  Lemma values_layers_spec i k0 : forall all,
    i < 2 ^ k0 ->
    (forall mk, In mk all -> length (fst mk) = 2 ^ snd mk /\ snd mk <= k0) ->
    values_layers F i k0 (map fst all) (map snd all) = Some (bvals i k0 all).
  Proof.
    intros all Hi. induction all as [|[m k] all IH]; intros Hall; [reflexivity|].
    cbn [map fst snd Merkle.values_layers bvals].
    destruct (Hall (m, k) (or_introl eq_refl)) as [Hm Hk]. cbn [fst snd] in Hm, Hk.
    replace (k0 <? k) with false by (symmetry; apply Nat.ltb_ge; lia).
    assert (Hidx : i / 2 ^ (k0 - k) < length m).
    { rewrite Hm. apply Nat.div_lt_upper_bound; [pose proof (pow2_pos (k0 - k)); lia|].
      rewrite <- Nat.pow_add_r. replace (k0 - k + k) with k0 by lia. exact Hi. }
    rewrite (nth_error_nth' m [] Hidx).
    rewrite IH by (intros; apply Hall; right; assumption). reflexivity.
  Qed.

  Lemma bwf_all : forall rest kc h,
    bwf kc rest h -> forall mk, In mk rest -> length (fst mk) = 2 ^ snd mk /\ snd mk <= kc.
  Proof.
    induction rest as [|[nxt kn] rest IH]; intros kc h Hw mk Hin; [destruct Hin|].
    cbn [bwf] in Hw. destruct Hw as (Hn & Hlt & Hw). destruct Hin as [<-|Hin].
    - cbn [fst snd]. split; [exact Hn|lia].
    - destruct (IH kn h Hw mk Hin). split; [assumption|lia].
  Qed.

  Theorem batch_values_spec first k0 rest h i ds cp :
    length first = 2 ^ k0 -> bwf k0 rest h -> i < 2 ^ k0 ->
    batch_values (mkBatch (first :: map fst rest) ds cp (k0 :: map snd rest)) i
    = Some (bvals i k0 ((first, k0) :: rest)).
  Proof.
    intros Hf Hw Hi. unfold Merkle.batch_values. cbn [bt_leaves bt_leaf_heights].
    rewrite Hf, log2_strict_pow2.
    apply (values_layers_spec i k0 ((first, k0) :: rest) Hi).
    intros mk [<-|Hin]; [cbn [fst snd]; split; [exact Hf|lia]|].
    eapply bwf_all; eauto.
  Qed.

  (* ---- verify_batch_merkle_proof_to_cap on the opening ---- *)
  Lemma batch_walk_cons dbg ld hs cur cur_h ldi idx s r :
    batch_walk dbg ld hs cur cur_h ldi idx (s :: r) =
      let cur1 := walk_step cur idx s in
      let idx1 := idx / 2 in
      if dbg && (cur_h =? 0)%Z then None
      else
        let cur_h1 := (if cur_h =? 0 then 2 ^ 64 - 1 else cur_h - 1)%Z in
        if (ldi <? length hs) && Z.eqb cur_h1 (Z.of_nat (nth ldi hs O)) then
          batch_walk dbg ld hs (hash_leaf (digest_to_vec cur1 ++ nth ldi ld [])) cur_h1 (S ldi) idx1 r
        else batch_walk dbg ld hs cur1 cur_h1 ldi idx1 r.
  Proof. reflexivity. Qed.

  (* one stage: the siblings of a stage of [length sibs] levels above height kn; the re-hash of
     the next layer's row happens exactly after the last sibling, if there is a next layer *)
  Lemma batch_walk_stage dbg ld hs kn ldi more : forall sibs cur idx,
    (ldi < length hs -> nth ldi hs 0 = kn) ->
    batch_walk dbg ld hs cur (Z.of_nat (kn + length sibs)) ldi idx (sibs ++ more) =
      let '(d, j) := verify_walk cur idx sibs in
      if (0 <? length sibs) && (ldi <? length hs)
      then batch_walk dbg ld hs (hash_leaf (digest_to_vec d ++ nth ldi ld [])) (Z.of_nat kn) (S ldi) j more
      else batch_walk dbg ld hs d (Z.of_nat kn) ldi j more.
  Proof.
    induction sibs as [|s r IH]; intros cur idx Hkn.
    - cbn [app length Merkle.verify_walk Nat.ltb Nat.leb andb]. rewrite Nat.add_0_r. reflexivity.
    - cbn [app length]. rewrite batch_walk_cons. cbv zeta.
      replace (Z.of_nat (kn + S (length r)) =? 0)%Z with false by (symmetry; apply Z.eqb_neq; lia).
      rewrite andb_false_r.
      replace (Z.of_nat (kn + S (length r)) - 1)%Z with (Z.of_nat (kn + length r)) by lia.
      cbn [Merkle.verify_walk].
      destruct r as [|s' r'].
      + (* last sibling of the stage *)
        cbn [length app] in *. rewrite Nat.add_0_r.
        cbn [Merkle.verify_walk]. change (0 <? 1) with true. cbn [andb].
        destruct (ldi <? length hs) eqn:El.
        * apply Nat.ltb_lt in El. rewrite (Hkn El), Z.eqb_refl. reflexivity.
        * reflexivity.
      + replace ((ldi <? length hs) && Z.eqb (Z.of_nat (kn + length (s' :: r'))) (Z.of_nat (nth ldi hs O)))
          with false.
        2:{ symmetry. destruct (ldi <? length hs) eqn:El; [|reflexivity].
            apply Nat.ltb_lt in El. rewrite (Hkn El). cbn [andb length]. apply Z.eqb_neq. lia. }
        rewrite (IH _ _ Hkn).
        destruct (verify_walk (walk_step cur idx s) (idx / 2) (s' :: r')) as [d j].
        reflexivity.
  Qed.

  Lemma skipn_cons_inv {A} n (l : list A) x r d :
    skipn n l = x :: r -> nth n l d = x /\ n < length l /\ skipn (S n) l = r.
  Proof.
    revert l; induction n; intros l E.
    - destruct l; [discriminate|]. cbn in E. injection E as -> ->. cbn. repeat split. lia.
    - destruct l; [discriminate|]. cbn [skipn] in E. destruct (IHn _ E) as (H1 & H2 & H3).
      cbn [nth length]. repeat split; auto. lia.
  Qed.

  Lemma nth_combine_cap cap cur j :
    length cap = length cur -> j < length cur ->
    forall d, nth j (combine_cap cap cur) [] = digest_to_vec (nth j cap d) ++ nth j cur [].
  Proof.
    intros Hl Hj d. unfold combine_cap.
    rewrite (nth_indep _ [] (digest_to_vec (fst (d, @nil F)) ++ snd (d, @nil F)))
      by (rewrite map_length, combine_length; lia).
    rewrite (map_nth (fun p => digest_to_vec (fst p) ++ snd p)), combine_nth by exact Hl.
    reflexivity.
  Qed.

  Lemma nth_cap_spec m h lv t d :
    length lv = 2 ^ h * 2 ^ m -> t < 2 ^ h ->
    nth t (cap_spec m lv) d = root m (chunk (2 ^ m) t lv).
  Proof.
    intros Hl Ht. apply nth_error_nth. unfold cap_spec, chunks.
    rewrite Hl, Nat.div_mul, map_map by (pose proof (pow2_pos m); lia).
    apply (nth_error_map_seq (fun j => root m (chunk (2 ^ m) j lv))). exact Ht.
  Qed.

  Lemma batch_walk_spec dbg ld hs h : forall rest lv kc idx ldi,
    length lv = 2 ^ kc -> bwf kc rest h -> idx < 2 ^ kc ->
    skipn ldi hs = map snd rest ->
    skipn ldi ld = map (fun mk => nth (idx / 2 ^ (kc - snd mk)) (fst mk) []) rest ->
    exists d,
      batch_walk dbg ld hs (hash_leaf (nth idx lv [])) (Z.of_nat kc) ldi idx (bopen lv kc rest h idx)
      = Some (d, ldi + length rest, idx / 2 ^ (kc - h))
      /\ nth_error (bcap lv kc rest h) (idx / 2 ^ (kc - h)) = Some d.
  Proof.
    induction rest as [|[nxt kn] rest IH]; intros lv kc idx ldi Hl Hw Hidx Hhs Hld.
    - cbn [bwf] in Hw. cbn [bopen bcap map length] in *.
      set (m := kc - h).
      assert (Hl' : length lv = 2 ^ h * 2 ^ m) by (rewrite Hl; apply pow2_km; exact Hw).
      pose proof (pow2_pos m) as Hpm.
      assert (Ht : idx / 2 ^ m < 2 ^ h).
      { apply Nat.div_lt_upper_bound; [lia|]. rewrite Nat.mul_comm, <- Hl', Hl. exact Hidx. }
      assert (Hc : length (chunk (2 ^ m) (idx / 2 ^ m) lv) = 2 ^ m) by (eapply chunk_length; eauto).
      assert (Hldi : length hs <= ldi).
      { destruct (Nat.le_gt_cases (length hs) ldi) as [|Hlt]; [assumption|].
        assert (E : length (skipn ldi hs) = 0) by (rewrite Hhs; reflexivity).
        rewrite skipn_length in E. lia. }
      exists (root m (chunk (2 ^ m) (idx / 2 ^ m) lv)). split.
      + pose proof (batch_walk_stage dbg ld hs h ldi [] (opening m lv idx)
                                     (hash_leaf (nth idx lv [])) idx ltac:(lia)) as E.
        rewrite app_nil_r in E. unfold opening in E at 1. rewrite path_length in E.
        replace (h + m) with kc in E by (unfold m; lia). rewrite E. unfold opening.
        rewrite <- (nth_chunk (2 ^ m) lv idx []) by lia.
        rewrite (walk_path m _ idx Hc).
        replace (ldi <? length hs) with false by (symmetry; apply Nat.ltb_ge; lia).
        rewrite andb_false_r. cbn [Merkle.batch_walk]. rewrite Nat.add_0_r. reflexivity.
      + rewrite (nth_error_nth' _ (root m (chunk (2 ^ m) (idx / 2 ^ m) lv)))
          by (rewrite (cap_spec_length m h lv Hl'); exact Ht).
        f_equal. apply (nth_cap_spec m h); assumption.
    - cbn [bwf] in Hw. destruct Hw as (Hn & Hlt & Hw). pose proof (bwf_h _ _ _ Hw) as Hh.
      cbn [bopen bcap map fst snd length] in *.
      set (m := kc - kn).
      assert (Hm : 0 < m) by (unfold m; lia).
      assert (Hl' : length lv = 2 ^ kn * 2 ^ m) by (rewrite Hl; apply pow2_km; lia).
      pose proof (pow2_pos m) as Hpm.
      assert (Ht : idx / 2 ^ m < 2 ^ kn).
      { apply Nat.div_lt_upper_bound; [lia|]. rewrite Nat.mul_comm, <- Hl', Hl. exact Hidx. }
      assert (Hc : length (chunk (2 ^ m) (idx / 2 ^ m) lv) = 2 ^ m) by (eapply chunk_length; eauto).
      destruct (skipn_cons_inv _ _ _ _ 0 Hhs) as (Hk1 & Hk2 & Hk3).
      destruct (skipn_cons_inv _ _ _ _ [] Hld) as (Hv1 & Hv2 & Hv3).
      set (lv' := combine_cap (cap_spec m lv) nxt).
      assert (Hcl : length (cap_spec m lv) = length nxt)
        by (rewrite (cap_spec_length m kn lv Hl'); lia).
      assert (Hlv' : length lv' = 2 ^ kn) by (unfold lv'; rewrite combine_cap_length; assumption).
      destruct (IH lv' kn (idx / 2 ^ m) (S ldi) Hlv' Hw Ht Hk3) as (d & Ed & Ecap).
      { rewrite Hv3. apply map_ext_in. intros [m2 k2] Hin. cbn [fst snd].
        destruct (bwf_all _ _ _ Hw _ Hin) as [_ Hk2']. cbn [snd] in Hk2'.
        unfold m. rewrite div_div_pow. do 3 f_equal. lia. }
      exists d. split.
      + pose proof (batch_walk_stage dbg ld hs kn ldi
                      (bopen lv' kn rest h (idx / 2 ^ m)) (opening m lv idx)
                      (hash_leaf (nth idx lv [])) idx (fun _ => Hk1)) as E.
        unfold opening in E at 1. rewrite path_length in E.
        replace (kn + m) with kc in E by (unfold m; lia). rewrite E. unfold opening.
        rewrite <- (nth_chunk (2 ^ m) lv idx []) by lia.
        rewrite (walk_path m _ idx Hc).
        rewrite path_length.
        replace (0 <? m) with true by (symmetry; apply Nat.ltb_lt; exact Hm).
        replace (ldi <? length hs) with true by (symmetry; apply Nat.ltb_lt; exact Hk2).
        cbn [andb].
        replace (digest_to_vec (root m (chunk (2 ^ m) (idx / 2 ^ m) lv)) ++ nth ldi ld [])
          with (nth (idx / 2 ^ m) lv' []).
        2:{ unfold lv'.
            assert (Hj : idx / 2 ^ m < length nxt) by lia.
            rewrite (nth_combine_cap _ _ _ Hcl Hj (root m (chunk (2 ^ m) (idx / 2 ^ m) lv))).
            rewrite (nth_cap_spec m kn lv _ _ Hl' Ht), Hv1. reflexivity. }
        rewrite Ed.
        replace (S ldi + length rest) with (ldi + S (length rest)) by lia.
        replace (idx / 2 ^ m / 2 ^ (kn - h)) with (idx / 2 ^ (kc - h))
          by (unfold m; rewrite div_div_pow; do 2 f_equal; lia).
        reflexivity.
      + rewrite <- Ecap. f_equal. unfold m. rewrite div_div_pow. f_equal. f_equal. lia.
  Qed.

  (* Batch trees: the opening produced by open_batch for position i verifies against the batch
     cap together with the rows values(i), for every number of layers and all heights. *)
  Theorem batch_prove_verify dbg first k0 rest h i :
    length first = 2 ^ k0 -> bwf k0 rest h -> i < 2 ^ k0 ->
    exists t proof vals,
      batch_merkle_tree_new (first :: map fst rest) h = Some t
      /\ open_batch dbg t i = Some proof
      /\ batch_values t i = Some vals
      /\ verify_batch dbg vals (bt_leaf_heights t) i (bt_cap t) proof = VOk.
  Proof.
    intros Hf Hw Hi.
    eexists. exists (bopen first k0 rest h i), (bvals i k0 ((first, k0) :: rest)).
    split; [apply (batch_merkle_tree_new_spec first k0 rest h Hf Hw)|].
    split; [apply open_batch_spec; assumption|].
    split; [eapply batch_values_spec; eassumption|].
    cbn [bt_leaf_heights bt_cap]. unfold Merkle.verify_batch_merkle_proof_to_cap.
    unfold bvals. cbn [map fst snd length]. rewrite !map_length, Nat.eqb_refl. cbn [negb].
    rewrite Nat.sub_diag. cbn [Nat.pow]. rewrite Nat.div_1_r.
    destruct (batch_walk_spec dbg
                (nth i first [] :: map (fun mk => nth (i / 2 ^ (k0 - snd mk)) (fst mk) []) rest)
                (k0 :: map snd rest) h rest first k0 i 1 Hf Hw Hi eq_refl eq_refl) as (d & Ed & Ecap).
    rewrite Ed. cbn [plus]. rewrite Nat.eqb_refl. cbn [negb].
    rewrite Ecap, digest_eqb_refl. reflexivity.
  Qed.

End MerkleProofs.

Arguments node_collision {digest}.
Arguments leaf_collision {F digest}.

Local Open Scope nat_scope.

(* MerkleTree::new never panics and never exposes an unwritten slot on 2^k leaves, h <= k *)
Theorem merkle_tree_new_total F digest hash_leaf two_to_one (leaves : list (list F)) k h :
  length leaves = 2 ^ k -> h <= k ->
  exists t, merkle_tree_new F digest hash_leaf two_to_one leaves h = Some t
            /\ mt_leaves t = leaves
            /\ length (mt_digests t) = 2 * (2 ^ k - 2 ^ h)
            /\ mt_cap t = merkle_cap_spec F digest hash_leaf two_to_one leaves h.
Proof.
  intros Hl Hh. eexists. split; [apply (merkle_tree_new_spec _ _ _ _ leaves k h Hl Hh)|].
  cbn [mt_leaves mt_digests mt_cap]. split; [reflexivity|]. split.
  - rewrite (num_digests_eq k h Hh). apply digests_spec_length. rewrite Hl. apply pow2_km. exact Hh.
  - pose proof (cap_is_spec F digest hash_leaf two_to_one leaves k h Hl Hh) as E.
    unfold merkle_cap in E. rewrite (merkle_tree_new_spec _ _ _ _ leaves k h Hl Hh) in E.
    cbn in E. injection E as E. exact E.
Qed.
