(* Completeness of the FRI verifier model on the honest model prover (Model/FriProver.v), for
   every number of oracles / polynomials / batches, every arity schedule that fits, every cap
   height and every query index: each query round of an honestly generated proof is accepted. *)
From Coq Require Import ZArith NArith Nnat List Bool Lia Arith Ring Field.
From Verif Require Import Base.Field Base.Poly Gen.FieldConsts Model.Fp Model.Fp2 Model.FieldGeneric
  Model.Fri Model.FriProver.
From Verif Require Model.Merkle Proofs.Merkle.
From Verif Require Import Proofs.FFT.
From Verif Require Import Proofs.FpFieldPrime Proofs.Fp2Field Proofs.FieldGeneric Proofs.Fri Proofs.FriAlgebra
  Proofs.FriInterp Proofs.FriFold Proofs.FriBits Proofs.FriHonestAlg.
Import ListNotations.
Local Open Scope nat_scope.

Lemma nth_error_map_seq0 {B} (f : nat -> B) n i : i < n -> nth_error (map f (seq 0 n)) i = Some (f i).
Proof.
  intros Hi. rewrite (nth_error_nth' _ (f 0)) by (rewrite map_length, seq_length; exact Hi).
  rewrite nth_map_seq by exact Hi. reflexivity.
Qed.

Lemma Forall2_len {A B} (R : A -> B -> Prop) l l' : Forall2 R l l' -> length l = length l'.
Proof. induction 1; cbn [length]; [reflexivity | f_equal; assumption]. Qed.

Lemma all_some_intro {A B} (f : A -> option B) : forall l : list A,
  (forall a, In a l -> exists b, f a = Some b) -> exists r, all_some (map f l) = Some r.
Proof.
  induction l as [|a l IH]; intros Hall; cbn [map all_some]; [exists []; reflexivity|].
  destruct (Hall a (or_introl eq_refl)) as [b ->].
  destruct IH as [r ->]; [intros a' Ha'; apply Hall; right; exact Ha'|].
  exists (b :: r). reflexivity.
Qed.

Lemma all_some_nth {A B} (f : A -> option B) : forall (l : list A) r k v,
  all_some (map f l) = Some r -> nth_error r k = Some v ->
  exists a, nth_error l k = Some a /\ f a = Some v.
Proof.
  induction l as [|a l IH]; intros r k v Hs Hn; cbn [map all_some] in Hs.
  - injection Hs as <-. destruct k; discriminate Hn.
  - destruct (f a) as [b|] eqn:Ea; [|discriminate Hs].
    destruct (all_some (map f l)) as [r'|] eqn:Er; [|discriminate Hs]. injection Hs as <-.
    destruct k as [|k]; cbn [nth_error] in Hn |- *.
    + injection Hn as <-. exists a. auto.
    + eapply IH; eauto.
Qed.

Lemma all_some_length {A B} (f : A -> option B) : forall (l : list A) r,
  all_some (map f l) = Some r -> length r = length l.
Proof.
  induction l as [|a l IH]; intros r Hs; cbn [map all_some] in Hs.
  - injection Hs as <-. reflexivity.
  - destruct (f a); [|discriminate Hs]. destruct (all_some (map f l)) eqn:E; [|discriminate Hs].
    injection Hs as <-. cbn [length]. f_equal. apply IH. reflexivity.
Qed.

(* ------------------------------------------------------------------------------------------ *)
(* the points of the (folded) evaluation domains *)
Section Points.
  Local Open Scope field_scope.
  Add Field FpFp : (@F_field_theory Fp _ FpLaws).
  Notation w := primitive_root_of_unity.

  Lemma w_fpow n : w n = fpow (toFp POWER_OF_TWO_GENERATOR) (2 ^ (two_adicity - n)).
  Proof. unfold primitive_root_of_unity. apply (exp_power_of_2_correct (F := Fp)). Qed.

  Lemma w_pow_sub n a : (a <= n)%nat -> (n <= two_adicity)%nat -> fpow (w n) (2 ^ (n - a)) = w a.
  Proof.
    intros Ha Hn. rewrite !w_fpow, <- (fpow_mul (F := Fp)), <- Nat.pow_add_r. do 2 f_equal. lia.
  Qed.

  Lemma w_pow_down n a : (a <= n)%nat -> (n <= two_adicity)%nat -> fpow (w n) (2 ^ a) = w (n - a).
  Proof.
    intros Ha Hn. rewrite !w_fpow, <- (fpow_mul (F := Fp)), <- Nat.pow_add_r. do 2 f_equal. lia.
  Qed.

  Lemma w_order n : (n <= two_adicity)%nat -> fpow (w n) (2 ^ n) = 1.
  Proof. intros Hn. exact (proj1 (primitive_root_is_root n Hn)). Qed.

  Lemma layer_point_eq s n j :
    layer_point s n j = fpow coset_shift (2 ^ s) * fpow (w n) (reverse_bits j n).
  Proof.
    unfold layer_point. rewrite (exp_power_of_2_correct (F := Fp)), (exp_u64_correct (F := Fp)), Nat2N.id.
    reflexivity.
  Qed.

  Lemma layer_point_0 n j : layer_point 0 n j = domain_point n j.
  Proof. reflexivity. Qed.

  Lemma layer_point_nonzero s n j : layer_point s n j <> 0.
  Proof.
    rewrite layer_point_eq. apply (f_mul_neq_0 (F := Fp)); apply (fpow_neq_0 (F := Fp)).
    - exact coset_shift_nonzero.
    - apply primitive_root_nonzero.
  Qed.

  Lemma layer_point_split s n a c t : (a <= n)%nat -> (n <= two_adicity)%nat -> (t < 2 ^ a)%nat ->
    layer_point s n (c * 2 ^ a + t)
    = (fpow coset_shift (2 ^ s) * fpow (w n) (reverse_bits c (n - a))) * fpow (w a) (reverse_bits t a).
  Proof.
    intros Ha Hn Ht. rewrite layer_point_eq, (reverse_bits_split n a c t Ha Ht).
    rewrite (fpow_add (F := Fp)), (Nat.mul_comm (reverse_bits t a)), (fpow_mul (F := Fp)), w_pow_sub by assumption.
    ring.
  Qed.

  Lemma layer_point_next s n a x : (a <= n)%nat -> (n <= two_adicity)%nat ->
    exp_power_of_2 (layer_point s n x) a = layer_point (s + a) (n - a) (x / 2 ^ a).
  Proof.
    intros Ha Hn. destruct (index_split x a) as [Hx Ht].
    set (c := (x / 2 ^ a)%nat) in *. set (t := (x mod 2 ^ a)%nat) in *.
    rewrite Hx, (layer_point_split s n a c t Ha Hn Ht).
    rewrite (exp_power_of_2_correct (F := Fp)), !(fpow_mul_base (F := Fp)), layer_point_eq.
    rewrite <- !(fpow_mul (F := Fp)).
    rewrite (Nat.mul_comm (reverse_bits c (n - a))), (Nat.mul_comm (reverse_bits t a)).
    rewrite !(fpow_mul (F := Fp) _ (2 ^ a)), w_pow_down, w_order by lia.
    rewrite (fpow_1_l (F := Fp)), <- Nat.pow_add_r. ring.
  Qed.
End Points.

(* ------------------------------------------------------------------------------------------ *)
(* one honest layer *)
Section Layer.
  Local Open Scope field_scope.
  Add Field FpFl : (@F_field_theory Fp _ FpLaws).
  Add Field Fp2Fl : (@F_field_theory Fp2 _ Fp2Laws).
  Notation w := primitive_root_of_unity.

  Lemma layer_cosets_length coeffs s n a : length (layer_cosets coeffs s n a) = (2 ^ (n - a))%nat.
  Proof. unfold layer_cosets. rewrite map_length, seq_length. reflexivity. Qed.

  Lemma layer_cosets_nth coeffs s n a c : (c < 2 ^ (n - a))%nat ->
    nth c (layer_cosets coeffs s n a) []
    = map (fun t => peval2 coeffs (fp2_of_base (layer_point s n (c * 2 ^ a + t)))) (seq 0 (2 ^ a)).
  Proof. intros Hc. unfold layer_cosets. rewrite nth_map_seq by exact Hc. reflexivity. Qed.

  Lemma fold_poly_length coeffs a beta n : (a <= n)%nat -> length coeffs = (2 ^ n)%nat ->
    length (fold_poly coeffs a beta) = (2 ^ (n - a))%nat.
  Proof.
    intros Ha Hl. unfold fold_poly. rewrite map_length, chunks_exact_length, Hl. apply pow2_div. exact Ha.
  Qed.

  Lemma honest_fold_step coeffs s n a x beta :
    (a <= n)%nat -> (n <= two_adicity)%nat -> length coeffs = (2 ^ n)%nat -> (x < 2 ^ n)%nat ->
    let evals := nth (x / 2 ^ a) (layer_cosets coeffs s n a) [] in
    length evals = (2 ^ a)%nat
    /\ nth_error evals (x mod 2 ^ a) = Some (peval2 coeffs (fp2_of_base (layer_point s n x)))
    /\ compute_evaluation (layer_point s n x) (x mod 2 ^ a) a evals beta
       = inl (peval2 (fold_poly coeffs a beta) (fp2_of_base (layer_point (s + a) (n - a) (x / 2 ^ a)))).
  Proof.
    intros Ha Hn Hl Hx. destruct (index_split x a) as [Hxs Ht].
    pose proof (index_div_lt x n a Ha Hx) as Hc.
    set (c := (x / 2 ^ a)%nat) in *. set (t := (x mod 2 ^ a)%nat) in *.
    cbn zeta. rewrite (layer_cosets_nth coeffs s n a c Hc).
    set (evals := map _ (seq 0 (2 ^ a))).
    assert (Hle : length evals = (2 ^ a)%nat) by (unfold evals; rewrite map_length, seq_length; reflexivity).
    split; [exact Hle|]. split.
    - unfold evals. rewrite nth_error_map_seq0 by exact Ht. rewrite <- Hxs. reflexivity.
    - set (chunks := chunks_exact (2 ^ (n - a)) (2 ^ a) coeffs).
      assert (Hcat : concat chunks = coeffs).
      { apply chunks_exact_concat. rewrite Hl, <- Nat.pow_add_r. f_equal. lia. }
      assert (Hall : Forall (fun ch : list Fp2 => length ch = (2 ^ a)%nat) chunks).
      { apply chunks_exact_Forall. rewrite Hl, <- Nat.pow_add_r. apply Nat.eq_le_incl. f_equal. lia. }
      rewrite (fold_complete (layer_point s n x) t a evals beta chunks); try assumption.
      + f_equal. rewrite layer_point_next by assumption. fold c. f_equal.
        unfold fold_poly, FriFold.fold_coeffs. rewrite Hl, pow2_div by exact Ha. fold chunks.
        apply map_ext. intros ch. symmetry. apply peval2_peval.
      + lia.
      + apply layer_point_nonzero.
      + intros i Hi. rewrite Hcat.
        rewrite reverse_index_bits_nth by (rewrite Hle; exact Hi).
        pose proof (reverse_bits_lt a i) as Hri.
        unfold evals. rewrite (nth_map_seq _ 0) by exact Hri. cbn [Nat.add]. do 2 f_equal.
        rewrite (layer_point_split s n a c _ Ha Hn Hri), reverse_bits_involutive by exact Hi.
        unfold coset_start. rewrite (exp_u64_correct (F := Fp)), Nat2N.id.
        rewrite Hxs at 1. rewrite (layer_point_split s n a c t Ha Hn Ht).
        pose proof (reverse_bits_lt a t) as Hrt.
        transitivity ((fpow coset_shift (2 ^ s) * fpow (w n) (reverse_bits c (n - a)))
                      * (fpow (w a) (reverse_bits t a) * fpow (w a) (2 ^ a - reverse_bits t a)) * fpow (w a) i);
          [|ring].
        rewrite <- (fpow_add (F := Fp)).
        replace (reverse_bits t a + (2 ^ a - reverse_bits t a))%nat with (2 ^ a)%nat by lia.
        rewrite w_order by lia. ring.
  Qed.

  Lemma fold_poly_zeros coeffs a beta n e :
    (a <= e)%nat -> (e <= n)%nat -> length coeffs = (2 ^ n)%nat -> zeros_from (2 ^ e) coeffs ->
    zeros_from (2 ^ (e - a)) (fold_poly coeffs a beta).
  Proof.
    intros Ha He Hl Hz j Hj.
    destruct (Nat.lt_ge_cases j (2 ^ (n - a))) as [Hlt|Hge].
    - rewrite fold_poly_nth by (rewrite Hl, pow2_div by lia; exact Hlt).
      rewrite Hl, pow2_div, chunks_exact_nth by (auto; lia).
      rewrite peval2_peval. apply peval_all_zero. intros i.
      destruct (Nat.lt_ge_cases i (2 ^ a)) as [Hi|Hi].
      + rewrite nth_firstn_lt by exact Hi. rewrite nth_skipn. apply Hz.
        assert (2 ^ e = 2 ^ (e - a) * 2 ^ a)%nat by (rewrite <- Nat.pow_add_r; f_equal; lia).
        nia.
      + apply nth_firstn_ge. exact Hi.
    - apply nth_overflow. rewrite (fold_poly_length coeffs a beta n) by (auto; lia). exact Hge.
  Qed.
End Layer.

(* ------------------------------------------------------------------------------------------ *)
Section Honest.
  Variable hash_or_noop : list Fp -> digest.
  Variable two_to_one : digest -> digest -> digest.

  Notation mcap := (Merkle.merkle_cap Fp digest hash_or_noop two_to_one).
  Notation mprove := (Merkle.merkle_prove Fp digest hash_or_noop two_to_one).
  Notation vmp := (Fri.verify_merkle_proof_to_cap hash_or_noop two_to_one).
  Notation steps_accept := (Proofs.Fri.steps_accept hash_or_noop two_to_one).
  Notation qround := (Fri.fri_verifier_query_round hash_or_noop two_to_one).
  Notation vfri := (Fri.verify_fri_proof hash_or_noop two_to_one).

  (* C12: the path produced for position i verifies, and the sizes are the expected ones *)
  Lemma honest_merkle (leaves : list (list Fp)) k h i cap pf :
    length leaves = (2 ^ k)%nat -> (h <= k)%nat -> (i < 2 ^ k)%nat ->
    mcap leaves h = Some cap -> mprove leaves h i = Some pf ->
    vmp (nth i leaves []) i cap pf = Some true /\ length cap = (2 ^ h)%nat /\ length pf = (k - h)%nat.
  Proof.
    intros Hl Hh Hi Hc Hp.
    destruct (Proofs.Merkle.prove_verify Fp digest hash_or_noop two_to_one digest_eqb digest_eqb_spec
                leaves k h i Hl Hh Hi) as (cap' & pf' & Hc' & Hp' & Hv).
    rewrite Hc in Hc'. injection Hc' as <-. rewrite Hp in Hp'. injection Hp' as <-.
    split; [apply verify_merkle_bridge; exact Hv|]. split.
    - unfold Merkle.merkle_cap in Hc.
      rewrite (Proofs.Merkle.merkle_tree_new_spec Fp digest hash_or_noop two_to_one leaves k h Hl Hh) in Hc.
      cbn [option_map Merkle.mt_cap] in Hc. injection Hc as <-.
      apply (Proofs.Merkle.cap_spec_length Fp digest hash_or_noop two_to_one (k - h) h).
      rewrite Hl. apply Proofs.Merkle.pow2_km. exact Hh.
    - rewrite (Proofs.Merkle.merkle_prove_spec Fp digest hash_or_noop two_to_one leaves k h i Hl Hh Hi) in Hp.
      injection Hp as <-. unfold Proofs.Merkle.opening. apply Proofs.Merkle.path_length.
  Qed.

  Lemma honest_cap_length (leaves : list (list Fp)) k h cap :
    length leaves = (2 ^ k)%nat -> (h <= k)%nat -> mcap leaves h = Some cap -> length cap = (2 ^ h)%nat.
  Proof.
    intros Hl Hh Hc. unfold Merkle.merkle_cap in Hc.
    rewrite (Proofs.Merkle.merkle_tree_new_spec Fp digest hash_or_noop two_to_one leaves k h Hl Hh) in Hc.
    cbn [option_map Merkle.mt_cap] in Hc. injection Hc as <-.
    apply (Proofs.Merkle.cap_spec_length Fp digest hash_or_noop two_to_one (k - h) h).
    rewrite Hl. apply Proofs.Merkle.pow2_km. exact Hh.
  Qed.

  Lemma honest_path_length (leaves : list (list Fp)) k h i pf :
    length leaves = (2 ^ k)%nat -> (h <= k)%nat -> (i < 2 ^ k)%nat ->
    mprove leaves h i = Some pf -> length pf = (k - h)%nat.
  Proof.
    intros Hl Hh Hi Hp.
    rewrite (Proofs.Merkle.merkle_prove_spec Fp digest hash_or_noop two_to_one leaves k h i Hl Hh Hi) in Hp.
    injection Hp as <-. unfold Proofs.Merkle.opening. apply Proofs.Merkle.path_length.
  Qed.

  (* ---- the reduction loop on honestly folded layers *)
  Lemma honest_steps : forall arities betas coeffs s n x pre_b pre_c lcaps layers last steps cap_h,
    commit_layers coeffs s n arities betas = (layers, last) ->
    query_steps_of hash_or_noop two_to_one layers arities cap_h x = Some steps ->
    all_some (map (fun cosets => mcap (map flatten2 cosets) cap_h) layers) = Some lcaps ->
    (length arities <= length betas)%nat ->
    (fold_right Nat.add 0 arities + cap_h <= n)%nat -> (n <= two_adicity)%nat ->
    length coeffs = (2 ^ n)%nat -> (x < 2 ^ n)%nat -> length pre_b = length pre_c ->
    exists sx', steps_accept (pre_c ++ lcaps) steps arities (pre_b ++ betas) (length pre_c) x
                  (layer_point s n x) (peval2 coeffs (fp2_of_base (layer_point s n x)))
                  (sx', peval2 last (fp2_of_base sx')).
  Proof.
    induction arities as [|a at' IH];
      intros betas coeffs s n x pre_b pre_c lcaps layers last steps cap_h Hcl Hqs Hcaps Hb Hn HT Hl Hx Hpre.
    - cbn [commit_layers] in Hcl. injection Hcl as <- <-.
      exists (layer_point s n x). destruct steps; reflexivity.
    - destruct betas as [|beta bt]; [cbn [length] in Hb; lia|].
      cbn [commit_layers] in Hcl. cbn [fold_right] in Hn.
      destruct (commit_layers (fold_poly coeffs a beta) (s + a) (n - a) at' bt) as [ls fin] eqn:Ecl.
      injection Hcl as <- <-.
      cbn [query_steps_of] in Hqs. set (c := (x / 2 ^ a)%nat) in *.
      destruct (mprove (map flatten2 (layer_cosets coeffs s n a)) cap_h c) as [path|] eqn:Ep; [|discriminate Hqs].
      destruct (query_steps_of hash_or_noop two_to_one ls at' cap_h c) as [rest|] eqn:Eq; [|discriminate Hqs].
      injection Hqs as <-.
      cbn [map all_some] in Hcaps.
      destruct (mcap (map flatten2 (layer_cosets coeffs s n a)) cap_h) as [cap0|] eqn:Ec; [|discriminate Hcaps].
      destruct (all_some (map (fun cosets => mcap (map flatten2 cosets) cap_h) ls)) as [lc'|] eqn:Elc;
        [|discriminate Hcaps].
      injection Hcaps as <-.
      assert (Ha : (a <= n)%nat) by lia.
      pose proof (index_div_lt x n a Ha Hx) as Hc. fold c in Hc.
      destruct (honest_fold_step coeffs s n a x beta Ha HT Hl Hx) as (Hle & Hcons & Hce). fold c in Hle, Hcons, Hce.
      destruct (honest_merkle (map flatten2 (layer_cosets coeffs s n a)) (n - a) cap_h c cap0 path) as (Hm & _ & _);
        try assumption.
      { rewrite map_length. apply layer_cosets_length. }
      { lia. }
      change (@nil Fp) with (flatten2 []) in Hm. rewrite map_nth in Hm.
      destruct (IH bt (fold_poly coeffs a beta) (s + a)%nat (n - a)%nat c (pre_b ++ [beta]) (pre_c ++ [cap0]) lc' ls fin rest cap_h
                   Ecl Eq Elc) as [sx' Hacc].
      { cbn [length] in Hb. lia. } { lia. } { lia. }
      { apply fold_poly_length; assumption. } { exact Hc. }
      { rewrite !app_length. cbn [length]. lia. }
      exists sx'. cbn [Proofs.Fri.steps_accept fs_evals fs_siblings].
      exists beta, cap0, (peval2 (fold_poly coeffs a beta) (fp2_of_base (layer_point (s + a) (n - a) c))).
      split; [rewrite <- Hpre, nth_error_app2, Nat.sub_diag by lia; reflexivity|].
      split; [rewrite nth_error_app2, Nat.sub_diag by lia; reflexivity|].
      split; [exact Hcons|]. split; [exact Hce|]. split; [exact Hm|].
      rewrite layer_point_next by assumption. fold c.
      rewrite <- !app_assoc in Hacc. cbn [app] in Hacc.
      rewrite app_length in Hacc. cbn [length] in Hacc. rewrite Nat.add_1_r in Hacc. exact Hacc.
  Qed.

  (* ---- the zero tail survives the whole commit phase *)
  Lemma commit_layers_zeros : forall arities betas coeffs s n e layers last,
    commit_layers coeffs s n arities betas = (layers, last) ->
    (length arities <= length betas)%nat ->
    (fold_right Nat.add 0 arities <= e)%nat -> (e <= n)%nat ->
    length coeffs = (2 ^ n)%nat -> zeros_from (2 ^ e) coeffs ->
    length last = (2 ^ (n - fold_right Nat.add 0 arities))%nat
    /\ zeros_from (2 ^ (e - fold_right Nat.add 0 arities)) last.
  Proof.
    induction arities as [|a at' IH]; intros betas coeffs s n e layers last Hcl Hb He Hn Hl Hz.
    - cbn [commit_layers] in Hcl. injection Hcl as <- <-. cbn [fold_right]. rewrite !Nat.sub_0_r. auto.
    - destruct betas as [|beta bt]; [cbn [length] in Hb; lia|].
      cbn [commit_layers] in Hcl. cbn [fold_right] in He |- *.
      destruct (commit_layers (fold_poly coeffs a beta) (s + a) (n - a) at' bt) as [ls fin] eqn:Ecl.
      injection Hcl as <- <-.
      destruct (IH bt (fold_poly coeffs a beta) (s + a)%nat (n - a)%nat (e - a)%nat ls fin Ecl) as [H1 H2].
      { cbn [length] in Hb. lia. } { lia. } { lia. }
      { apply fold_poly_length; [lia | exact Hl]. }
      { apply (fold_poly_zeros coeffs a beta n e); auto; lia. }
      split.
      + rewrite H1. f_equal. lia.
      + replace (e - (a + fold_right Nat.add 0 at'))%nat with (e - a - fold_right Nat.add 0 at')%nat by lia.
        exact H2.
  Qed.

  (* ---- initial trees *)
  Lemma oracle_leaves_length log_n polys : length (oracle_leaves log_n polys) = (2 ^ log_n)%nat.
  Proof. unfold oracle_leaves. rewrite map_length, seq_length. reflexivity. Qed.

  Lemma oracle_leaves_nth log_n polys x : (x < 2 ^ log_n)%nat ->
    nth x (oracle_leaves log_n polys) [] = map (fun f => peval f (layer_point 0 log_n x)) polys.
  Proof. intros Hx. unfold oracle_leaves. rewrite nth_map_seq by exact Hx. reflexivity. Qed.

  Lemma initial_of_nth : forall all_leaves cap_h x init k ev sb,
    initial_of hash_or_noop two_to_one all_leaves cap_h x = Some init ->
    nth_error init k = Some (ev, sb) ->
    exists leaves, nth_error all_leaves k = Some leaves /\ ev = nth x leaves []
                   /\ mprove leaves cap_h x = Some sb.
  Proof.
    induction all_leaves as [|lv lt IH]; intros cap_h x init k ev sb Hi Hn; cbn [initial_of] in Hi.
    - injection Hi as <-. destruct k; discriminate Hn.
    - destruct (mprove lv cap_h x) as [path|] eqn:Ep; [|discriminate Hi].
      destruct (initial_of hash_or_noop two_to_one lt cap_h x) as [rest|] eqn:Er; [|discriminate Hi].
      injection Hi as <-. destruct k as [|k]; cbn [nth_error] in Hn |- *.
      + injection Hn as <- <-. exists lv. auto.
      + eapply IH; eauto.
  Qed.

  Lemma initial_of_fst log_n : forall oracles cap_h x init,
    initial_of hash_or_noop two_to_one (map (oracle_leaves log_n) oracles) cap_h x = Some init ->
    (x < 2 ^ log_n)%nat ->
    forall oi, fst (nth oi init ([], [])) = map (fun f => peval f (layer_point 0 log_n x)) (nth oi oracles []).
  Proof.
    induction oracles as [|polys ot IH]; intros cap_h x init Hi Hx oi; cbn [map initial_of] in Hi.
    - injection Hi as <-. destruct oi; reflexivity.
    - destruct (mprove (oracle_leaves log_n polys) cap_h x) as [path|]; [|discriminate Hi].
      destruct (initial_of hash_or_noop two_to_one (map (oracle_leaves log_n) ot) cap_h x) as [rest|] eqn:Er;
        [|discriminate Hi].
      injection Hi as <-. destruct oi as [|oi]; cbn [nth fst].
      + apply oracle_leaves_nth. exact Hx.
      + eapply IH; eauto.
  Qed.

  Lemma initial_of_length : forall all_leaves cap_h x init,
    initial_of hash_or_noop two_to_one all_leaves cap_h x = Some init -> length init = length all_leaves.
  Proof.
    induction all_leaves as [|lv lt IH]; intros cap_h x init Hi; cbn [initial_of] in Hi.
    - injection Hi as <-. reflexivity.
    - destruct (mprove lv cap_h x); [|discriminate Hi].
      destruct (initial_of hash_or_noop two_to_one lt cap_h x) eqn:Er; [|discriminate Hi].
      injection Hi as <-. cbn [length]. f_equal. eapply IH; eauto.
  Qed.

  (* ---- shapes *)
  Lemma commit_layers_caps : forall arities betas coeffs s n layers last lcaps cap_h,
    commit_layers coeffs s n arities betas = (layers, last) ->
    all_some (map (fun cosets => mcap (map flatten2 cosets) cap_h) layers) = Some lcaps ->
    (fold_right Nat.add 0 arities + cap_h <= n)%nat ->
    forallb (fun c : list digest => Nat.eqb (length c) (2 ^ cap_h)) lcaps = true.
  Proof.
    induction arities as [|a at' IH]; intros betas coeffs s n layers last lcaps cap_h Hcl Hcaps Hn.
    - cbn [commit_layers] in Hcl. injection Hcl as <- <-. cbn [map all_some] in Hcaps.
      injection Hcaps as <-. reflexivity.
    - destruct betas as [|beta bt].
      + cbn [commit_layers] in Hcl. injection Hcl as <- <-. cbn [map all_some] in Hcaps.
        injection Hcaps as <-. reflexivity.
      + cbn [commit_layers] in Hcl. cbn [fold_right] in Hn.
        destruct (commit_layers (fold_poly coeffs a beta) (s + a) (n - a) at' bt) as [ls fin] eqn:Ecl.
        injection Hcl as <- <-. cbn [map all_some] in Hcaps.
        destruct (mcap (map flatten2 (layer_cosets coeffs s n a)) cap_h) as [cap0|] eqn:Ec; [|discriminate Hcaps].
        destruct (all_some (map (fun cosets => mcap (map flatten2 cosets) cap_h) ls)) as [lc'|] eqn:Elc;
          [|discriminate Hcaps].
        injection Hcaps as <-. cbn [forallb]. apply andb_true_intro. split.
        * apply Nat.eqb_eq. apply (honest_cap_length (map flatten2 (layer_cosets coeffs s n a)) (n - a) cap_h cap0);
            [rewrite map_length; apply layer_cosets_length | lia | exact Ec].
        * apply (IH bt _ _ _ ls fin lc' cap_h Ecl Elc). lia.
  Qed.

  Lemma commit_layers_length : forall arities betas coeffs s n layers last,
    commit_layers coeffs s n arities betas = (layers, last) ->
    (length arities <= length betas)%nat -> length layers = length arities.
  Proof.
    induction arities as [|a at' IH]; intros betas coeffs s n layers last Hcl Hb.
    - cbn [commit_layers] in Hcl. injection Hcl as <- <-. reflexivity.
    - destruct betas as [|beta bt]; [cbn [length] in Hb; lia|].
      cbn [commit_layers] in Hcl.
      destruct (commit_layers (fold_poly coeffs a beta) (s + a) (n - a) at' bt) as [ls fin] eqn:Ecl.
      injection Hcl as <- <-. cbn [length]. f_equal. apply (IH bt _ _ _ ls fin Ecl). cbn [length] in Hb. lia.
  Qed.

  Lemma honest_steps_shape : forall arities betas coeffs s n x layers last steps cap_h,
    commit_layers coeffs s n arities betas = (layers, last) ->
    query_steps_of hash_or_noop two_to_one layers arities cap_h x = Some steps ->
    (length arities <= length betas)%nat ->
    (fold_right Nat.add 0 arities + cap_h <= n)%nat -> (x < 2 ^ n)%nat ->
    length steps = length arities /\ steps_shape_ok steps arities n cap_h = true.
  Proof.
    induction arities as [|a at' IH]; intros betas coeffs s n x layers last steps cap_h Hcl Hqs Hb Hn Hx.
    - cbn [commit_layers] in Hcl. injection Hcl as <- <-. cbn [query_steps_of] in Hqs. injection Hqs as <-.
      split; reflexivity.
    - destruct betas as [|beta bt]; [cbn [length] in Hb; lia|].
      cbn [commit_layers] in Hcl. cbn [fold_right] in Hn.
      destruct (commit_layers (fold_poly coeffs a beta) (s + a) (n - a) at' bt) as [ls fin] eqn:Ecl.
      injection Hcl as <- <-.
      cbn [query_steps_of] in Hqs. set (c := (x / 2 ^ a)%nat) in *.
      destruct (mprove (map flatten2 (layer_cosets coeffs s n a)) cap_h c) as [path|] eqn:Ep; [|discriminate Hqs].
      destruct (query_steps_of hash_or_noop two_to_one ls at' cap_h c) as [rest|] eqn:Eq; [|discriminate Hqs].
      injection Hqs as <-.
      assert (Ha : (a <= n)%nat) by lia.
      pose proof (index_div_lt x n a Ha Hx) as Hc. fold c in Hc.
      destruct (IH bt _ _ _ c ls fin rest cap_h Ecl Eq) as [Hlen Hshape]; [cbn [length] in Hb; lia | lia | exact Hc |].
      split; [cbn [length]; f_equal; exact Hlen|].
      cbn [steps_shape_ok fs_evals fs_siblings]. rewrite Hshape, andb_true_r.
      apply andb_true_intro. split; apply Nat.eqb_eq.
      + rewrite (layer_cosets_nth coeffs s n a c Hc), map_length, seq_length. reflexivity.
      + rewrite (honest_path_length (map flatten2 (layer_cosets coeffs s n a)) (n - a) cap_h c path); auto.
        * lia.
        * rewrite map_length. apply layer_cosets_length.
        * lia.
  Qed.

  Lemma honest_initial_shape log_n cap_h x : forall os oracles init,
    Forall2 (fun o polys => num_polys o = length polys) os oracles ->
    initial_of hash_or_noop two_to_one (map (oracle_leaves log_n) oracles) cap_h x = Some init ->
    (x < 2 ^ log_n)%nat -> (cap_h <= log_n)%nat ->
    forallb (fun pr : (list Fp * list digest) * nat =>
               Nat.eqb (length (fst (fst pr))) (snd pr) && Nat.eqb (length (snd (fst pr)) + cap_h) log_n)
            (combine init (map (fun o => num_polys o + salt_size (blinding o && false)) os)) = true.
  Proof.
    intros os oracles init HF. revert init.
    induction HF as [|o polys os' oracles' Ho _ IH]; intros init Hi Hx Hc; cbn [map initial_of] in Hi.
    - injection Hi as <-. reflexivity.
    - destruct (mprove (oracle_leaves log_n polys) cap_h x) as [path|] eqn:Ep; [|discriminate Hi].
      destruct (initial_of hash_or_noop two_to_one (map (oracle_leaves log_n) oracles') cap_h x) as [rest|] eqn:Er;
        [|discriminate Hi].
      injection Hi as <-. cbn [map combine forallb fst snd].
      rewrite (IH rest eq_refl Hx Hc), andb_true_r. apply andb_true_intro. split; apply Nat.eqb_eq.
      + rewrite oracle_leaves_nth by exact Hx. rewrite map_length, andb_false_r, Ho. unfold salt_size. symmetry. apply Nat.add_0_r.
      + rewrite (honest_path_length (oracle_leaves log_n polys) log_n cap_h x path); auto; [lia|].
        apply oracle_leaves_length.
  Qed.

  (* ---- one honest query round is accepted *)
  Section Round.
    Variables (inst : fri_instance) (p : fri_params) (oracles : list (list (list Fp)))
              (ch : fri_challenges) (pow_witness : Fp) (out : honest_output).
    Hypothesis Hprove : honest_prove hash_or_noop two_to_one inst p oracles ch pow_witness = Some out.
    Hypothesis no_hiding : hiding p = false.
    Hypothesis Hadic : (lde_bits p <= two_adicity)%nat.
    Hypothesis Hfit : (total_arities p <= degree_bits p)%nat.
    Hypothesis Hcap : (total_arities p + cap_height (config p) <= lde_bits p)%nat.
    Hypothesis Hbetas : (length (reduction_arity_bits p) <= length (fri_betas ch))%nat.
    Hypothesis Hdeg : forall pi, (length (poly_of oracles pi) <= 2 ^ degree_bits p)%nat.

    Theorem honest_round_accepts round i x q :
      nth_error (fri_query_indices ch) i = Some x -> nth_error (fp_rounds (ho_proof out)) i = Some q ->
      (x < 2 ^ lde_bits p)%nat ->
      (forall b, In b (batches inst) -> fp2_of_base (layer_point 0 (lde_bits p) x) <> point b) ->
      qround inst ch (precomputed_reduced_openings (ho_openings out) (fri_alpha ch)) (ho_caps out)
             (ho_proof out) p round x q = inl tt.
    Proof.
      intros Hxi Hqi Hx Hpts.
      unfold honest_prove in Hprove. cbn zeta in Hprove.
      set (log_n := lde_bits p) in *. set (cap_h := cap_height (config p)) in *.
      set (all_leaves := map (oracle_leaves log_n) oracles) in *.
      set (final_poly := combined_poly oracles (fri_alpha ch) (batches inst)) in *.
      set (lde_poly := final_poly ++ repeat 0%F (2 ^ log_n - length final_poly)) in *.
      destruct (commit_layers lde_poly 0 log_n (reduction_arity_bits p) (fri_betas ch)) as [layers last] eqn:Ecl.
      destruct (all_some (map (fun leaves => mcap leaves cap_h) all_leaves)) as [caps|] eqn:Ecaps; [|discriminate Hprove].
      destruct (all_some (map (fun cosets => mcap (map flatten2 cosets) cap_h) layers)) as [lcaps|] eqn:Elcaps;
        [|discriminate Hprove].
      match type of Hprove with
      | match all_some (map ?f _) with _ => _ end = _ =>
        destruct (all_some (map f (fri_query_indices ch))) as [rounds|] eqn:Erounds; [|discriminate Hprove]
      end.
      injection Hprove as <-. cbn [ho_proof ho_caps ho_openings fp_rounds fp_caps fp_final] in *.
      destruct (all_some_nth _ _ _ _ _ Erounds Hqi) as (x' & Hx' & Hq). rewrite Hxi in Hx'. injection Hx' as <-.
      destruct (initial_of hash_or_noop two_to_one all_leaves cap_h x) as [init|] eqn:Einit; [|discriminate Hq].
      destruct (query_steps_of hash_or_noop two_to_one layers (reduction_arity_bits p) cap_h x) as [steps|] eqn:Est;
        [|discriminate Hq].
      injection Hq as <-.
      assert (Hfl : (length final_poly <= 2 ^ degree_bits p)%nat).
      { apply combined_poly_length; [|exact Hdeg]. pose proof (Proofs.Merkle.pow2_pos (degree_bits p)). lia. }
      assert (Hdl : (2 ^ degree_bits p <= 2 ^ log_n)%nat).
      { apply Nat.pow_le_mono_r; [lia|]. unfold log_n, lde_bits. lia. }
      assert (Hll : length lde_poly = (2 ^ log_n)%nat).
      { unfold lde_poly. rewrite app_length, repeat_length. lia. }
      apply (proj2 (round_accept_iff hash_or_noop two_to_one _ _ _ _ _ _ _ _ _)).
      cbn [qr_initial qr_steps fp_caps fp_final]. split.
      - (* initial Merkle paths *)
        intros k evals sibs cap Hk Hc.
        destruct (initial_of_nth _ _ _ _ _ _ _ Einit Hk) as (leaves & Hlv & -> & Hpf).
        destruct (all_some_nth _ _ _ _ _ Ecaps Hc) as (leaves' & Hlv' & Hcp).
        rewrite Hlv in Hlv'. injection Hlv' as <-.
        unfold all_leaves in Hlv. apply nth_error_In in Hlv. apply in_map_iff in Hlv.
        destruct Hlv as (polys & <- & _).
        apply (honest_merkle (oracle_leaves log_n polys) log_n cap_h x cap sibs); auto.
        + apply oracle_leaves_length.
        + unfold cap_h, log_n. lia.
      - (* combined evaluation, reduction loop, final check *)
        fold log_n. change (coset_shift * exp_u64 (primitive_root_of_unity log_n) (N.of_nat (reverse_bits x log_n)))%F
          with (layer_point 0 log_n x).
        exists (peval2 lde_poly (fp2_of_base (layer_point 0 log_n x))).
        destruct (honest_steps (reduction_arity_bits p) (fri_betas ch) lde_poly 0 log_n x [] [] lcaps layers last
                    steps cap_h Ecl Est Elcaps Hbetas) as [sx' Hacc]; auto.
        cbn [app length] in Hacc.
        exists sx', (peval2 last (fp2_of_base sx')). split; [|split].
        + rewrite (combine_initial_honest inst p init oracles (fri_alpha ch) (layer_point 0 log_n x) no_hiding).
          * f_equal. fold final_poly. unfold lde_poly. rewrite !peval2_peval. symmetry. apply peval_pad.
          * apply (initial_of_fst log_n oracles cap_h x init Einit Hx).
          * exact Hpts.
        + exact Hacc.
        + destruct (commit_layers_zeros (reduction_arity_bits p) (fri_betas ch) lde_poly 0 log_n (degree_bits p)
                      layers last Ecl Hbetas) as [Hlast Hz]; auto.
          { unfold log_n, lde_bits. lia. }
          { apply (zeros_from_mono (length final_poly)); [exact Hfl|]. apply zeros_from_pad. }
          fold (total_arities p) in Hlast, Hz.
          rewrite Hlast.
          replace (2 ^ (log_n - total_arities p) / 2 ^ rate_bits (config p))%nat
            with (2 ^ (degree_bits p - total_arities p))%nat.
          * rewrite !peval2_peval. apply peval_truncate. exact Hz.
          * rewrite pow2_div by (unfold log_n, lde_bits; lia). f_equal. unfold log_n, lde_bits. lia.
    Qed.
  End Round.

  (* ---- the whole verification of an honestly generated proof *)
  Theorem honest_accepts inst p oracles ch pow_witness out :
    honest_prove hash_or_noop two_to_one inst p oracles ch pow_witness = Some out ->
    (* parameters *)
    hiding p = false ->
    (lde_bits p <= two_adicity)%nat ->
    (total_arities p <= degree_bits p)%nat ->
    (total_arities p + cap_height (config p) <= lde_bits p)%nat ->
    (* the instance describes the oracles; every polynomial has at most 2^degree_bits coefficients *)
    Forall2 (fun o polys => num_polys o = length polys) (Fri.oracles inst) oracles ->
    (forall pi, length (poly_of oracles pi) <= 2 ^ degree_bits p)%nat ->
    (* challenges: one beta per layer, the configured number of in-range query indices, a valid
       grinding response, no opening point inside the evaluation domain *)
    (length (reduction_arity_bits p) <= length (fri_betas ch))%nat ->
    length (fri_query_indices ch) = num_query_rounds (config p) ->
    (forall x, In x (fri_query_indices ch) -> x < 2 ^ lde_bits p)%nat ->
    pow_ok (fri_pow_response ch) (proof_of_work_bits (config p)) = true ->
    (forall x b, In x (fri_query_indices ch) -> In b (batches inst) ->
                 fp2_of_base (layer_point 0 (lde_bits p) x) <> point b) ->
    vfri inst (ho_openings out) ch (ho_caps out) (ho_proof out) p = inl tt.
  Proof.
    intros Hprove Hh Hadic Hfit Hcap Hor Hdeg Hbetas Hnq Hidx Hpow Hpts.
    apply (proj2 (accept_iff_all_checks hash_or_noop two_to_one _ _ _ _ _ _)).
    assert (Hrounds : forall i x q, nth_error (fri_query_indices ch) i = Some x ->
                                    nth_error (fp_rounds (ho_proof out)) i = Some q ->
              qround inst ch (precomputed_reduced_openings (ho_openings out) (fri_alpha ch)) (ho_caps out)
                     (ho_proof out) p i x q = inl tt).
    { intros i x q Hx Hq. pose proof (nth_error_In _ _ Hx) as Hin.
      apply (honest_round_accepts inst p oracles ch pow_witness out Hprove Hh Hadic Hfit Hcap Hbetas Hdeg i i x q Hx Hq).
      - apply Hidx. exact Hin.
      - intros b Hb. apply Hpts; assumption. }
    split; [|split; [exact Hpow | split; [|exact Hrounds]]].
    - (* shape *)
      clear Hrounds. unfold honest_prove in Hprove. cbn zeta in Hprove.
      set (log_n := lde_bits p) in *. set (cap_h := cap_height (config p)) in *.
      set (all_leaves := map (oracle_leaves log_n) oracles) in *.
      set (final_poly := combined_poly oracles (fri_alpha ch) (batches inst)) in *.
      set (lde_poly := final_poly ++ repeat 0%F (2 ^ log_n - length final_poly)) in *.
      destruct (commit_layers lde_poly 0 log_n (reduction_arity_bits p) (fri_betas ch)) as [layers last] eqn:Ecl.
      destruct (all_some (map (fun leaves => mcap leaves cap_h) all_leaves)) as [caps|] eqn:Ecaps; [|discriminate Hprove].
      destruct (all_some (map (fun cosets => mcap (map flatten2 cosets) cap_h) layers)) as [lcaps|] eqn:Elcaps;
        [|discriminate Hprove].
      match type of Hprove with
      | match all_some (map ?f _) with _ => _ end = _ =>
        destruct (all_some (map f (fri_query_indices ch))) as [rounds|] eqn:Erounds; [|discriminate Hprove]
      end.
      injection Hprove as <-. cbn [ho_proof].
      assert (Hfl : (length final_poly <= 2 ^ degree_bits p)%nat).
      { apply combined_poly_length; [|exact Hdeg]. pose proof (Proofs.Merkle.pow2_pos (degree_bits p)). lia. }
      assert (Hdl : (2 ^ degree_bits p <= 2 ^ log_n)%nat).
      { apply Nat.pow_le_mono_r; [lia|]. unfold log_n, lde_bits. lia. }
      assert (Hll : length lde_poly = (2 ^ log_n)%nat).
      { unfold lde_poly. rewrite app_length, repeat_length. lia. }
      unfold validate_fri_proof_shape. cbn [fp_caps fp_rounds fp_final].
      apply andb_true_intro. split; [apply andb_true_intro; split; [apply andb_true_intro; split|]|].
      + apply Nat.eqb_eq. rewrite (all_some_length _ _ _ Elcaps).
        apply (commit_layers_length _ _ _ _ _ _ _ Ecl Hbetas).
      + apply (commit_layers_caps _ _ _ _ _ _ _ _ _ Ecl Elcaps). exact Hcap.
      + apply forallb_forall. intros q Hq. destruct (In_nth_error _ _ Hq) as [i Hi].
        destruct (all_some_nth _ _ _ _ _ Erounds Hi) as (x & Hx & Hqx).
        destruct (initial_of hash_or_noop two_to_one all_leaves cap_h x) as [init|] eqn:Einit; [|discriminate Hqx].
        destruct (query_steps_of hash_or_noop two_to_one layers (reduction_arity_bits p) cap_h x) as [steps|] eqn:Est;
          [|discriminate Hqx].
        injection Hqx as <-.
        assert (Hxr : (x < 2 ^ log_n)%nat) by (apply Hidx; eapply nth_error_In; eauto).
        destruct (honest_steps_shape _ _ _ _ _ x _ _ steps cap_h Ecl Est Hbetas Hcap Hxr) as [Hsl Hss].
        unfold round_shape_ok. cbn [qr_initial qr_steps]. fold cap_h. fold log_n.
        rewrite Hss, Hsl, Nat.eqb_refl, !andb_true_r.
        apply andb_true_intro. split.
        * apply Nat.eqb_eq. rewrite (initial_of_length _ _ _ _ Einit). unfold all_leaves. rewrite map_length.
          symmetry. eapply Forall2_len. exact Hor.
        * unfold leaf_lens. rewrite Hh.
          apply (honest_initial_shape log_n cap_h x (Fri.oracles inst) oracles init Hor Einit Hxr).
          unfold cap_h, log_n. lia.
      + apply Nat.eqb_eq. unfold final_poly_len.
        destruct (commit_layers_zeros (reduction_arity_bits p) (fri_betas ch) lde_poly 0 log_n (degree_bits p)
                    layers last Ecl Hbetas) as [Hlast _]; auto.
        { unfold log_n, lde_bits. lia. }
        { apply (zeros_from_mono (length final_poly)); [exact Hfl|]. apply zeros_from_pad. }
        fold (total_arities p) in Hlast.
        rewrite firstn_length, Hlast, pow2_div by (unfold log_n, lde_bits; lia).
        replace (log_n - total_arities p - rate_bits (config p))%nat with (degree_bits p - total_arities p)%nat
          by (unfold log_n, lde_bits; lia).
        apply Nat.min_l. apply Nat.pow_le_mono_r; [lia|]. unfold log_n, lde_bits. lia.
    - (* number of rounds *)
      unfold honest_prove in Hprove. cbn zeta in Hprove.
      destruct (commit_layers _ 0 (lde_bits p) (reduction_arity_bits p) (fri_betas ch)) as [layers last].
      destruct (all_some (map _ (map (oracle_leaves (lde_bits p)) oracles))) as [caps|]; [|discriminate Hprove].
      destruct (all_some (map _ layers)) as [lcaps|]; [|discriminate Hprove].
      match type of Hprove with
      | match all_some (map ?f _) with _ => _ end = _ =>
        destruct (all_some (map f (fri_query_indices ch))) as [rounds|] eqn:Erounds; [|discriminate Hprove]
      end.
      injection Hprove as <-. cbn [ho_proof fp_rounds].
      rewrite (all_some_length _ _ _ Erounds). symmetry. exact Hnq.
  Qed.

  (* ---- the model prover does not fail *)
  Lemma mcap_some (leaves : list (list Fp)) k h :
    length leaves = (2 ^ k)%nat -> (h <= k)%nat -> exists cap, mcap leaves h = Some cap.
  Proof.
    intros Hl Hh.
    destruct (Proofs.Merkle.prove_verify Fp digest hash_or_noop two_to_one digest_eqb digest_eqb_spec
                leaves k h 0 Hl Hh (Proofs.Merkle.pow2_pos k)) as (cap & _ & Hc & _).
    exists cap. exact Hc.
  Qed.

  Lemma mprove_some (leaves : list (list Fp)) k h i :
    length leaves = (2 ^ k)%nat -> (h <= k)%nat -> (i < 2 ^ k)%nat -> exists pf, mprove leaves h i = Some pf.
  Proof.
    intros Hl Hh Hi.
    destruct (Proofs.Merkle.prove_verify Fp digest hash_or_noop two_to_one digest_eqb digest_eqb_spec
                leaves k h i Hl Hh Hi) as (_ & pf & _ & Hp & _).
    exists pf. exact Hp.
  Qed.

  Lemma commit_layers_mcap_some : forall arities betas coeffs s n layers last cap_h,
    commit_layers coeffs s n arities betas = (layers, last) ->
    (fold_right Nat.add 0 arities + cap_h <= n)%nat ->
    exists lcaps, all_some (map (fun cosets => mcap (map flatten2 cosets) cap_h) layers) = Some lcaps.
  Proof.
    induction arities as [|a at' IH]; intros betas coeffs s n layers last cap_h Hcl Hn.
    - cbn [commit_layers] in Hcl. injection Hcl as <- <-. exists []. reflexivity.
    - destruct betas as [|beta bt].
      + cbn [commit_layers] in Hcl. injection Hcl as <- <-. exists []. reflexivity.
      + cbn [commit_layers] in Hcl. cbn [fold_right] in Hn.
        destruct (commit_layers (fold_poly coeffs a beta) (s + a) (n - a) at' bt) as [ls fin] eqn:Ecl.
        injection Hcl as <- <-. cbn [map all_some].
        destruct (mcap_some (map flatten2 (layer_cosets coeffs s n a)) (n - a) cap_h) as [cap0 ->];
          [rewrite map_length; apply layer_cosets_length | lia |].
        destruct (IH bt _ _ _ ls fin cap_h Ecl) as [lc' ->]; [lia|].
        exists (cap0 :: lc'). reflexivity.
  Qed.

  Lemma query_steps_of_some : forall arities betas coeffs s n x layers last cap_h,
    commit_layers coeffs s n arities betas = (layers, last) ->
    (fold_right Nat.add 0 arities + cap_h <= n)%nat -> (x < 2 ^ n)%nat ->
    exists steps, query_steps_of hash_or_noop two_to_one layers arities cap_h x = Some steps.
  Proof.
    induction arities as [|a at' IH]; intros betas coeffs s n x layers last cap_h Hcl Hn Hx.
    - cbn [commit_layers] in Hcl. injection Hcl as <- <-. exists []. reflexivity.
    - destruct betas as [|beta bt].
      + cbn [commit_layers] in Hcl. injection Hcl as <- <-. exists []. reflexivity.
      + cbn [commit_layers] in Hcl. cbn [fold_right] in Hn.
        destruct (commit_layers (fold_poly coeffs a beta) (s + a) (n - a) at' bt) as [ls fin] eqn:Ecl.
        injection Hcl as <- <-. cbn [query_steps_of].
        assert (Ha : (a <= n)%nat) by lia.
        pose proof (index_div_lt x n a Ha Hx) as Hc.
        destruct (mprove_some (map flatten2 (layer_cosets coeffs s n a)) (n - a) cap_h (x / 2 ^ a)) as [pf ->];
          [rewrite map_length; apply layer_cosets_length | lia | exact Hc |].
        destruct (IH bt _ _ _ (x / 2 ^ a)%nat ls fin cap_h Ecl) as [rest ->]; [lia | exact Hc |].
        eexists. reflexivity.
  Qed.

  Lemma initial_of_some log_n cap_h x : forall oracles,
    (cap_h <= log_n)%nat -> (x < 2 ^ log_n)%nat ->
    exists init, initial_of hash_or_noop two_to_one (map (oracle_leaves log_n) oracles) cap_h x = Some init.
  Proof.
    induction oracles as [|polys ot IH]; intros Hc Hx; cbn [map initial_of]; [exists []; reflexivity|].
    destruct (mprove_some (oracle_leaves log_n polys) log_n cap_h x) as [pf ->];
      [apply oracle_leaves_length | exact Hc | exact Hx |].
    destruct (IH Hc Hx) as [rest ->]. eexists. reflexivity.
  Qed.

  Theorem honest_prove_some inst p oracles ch pow_witness :
    (total_arities p + cap_height (config p) <= lde_bits p)%nat ->
    (forall x, In x (fri_query_indices ch) -> x < 2 ^ lde_bits p)%nat ->
    exists out, honest_prove hash_or_noop two_to_one inst p oracles ch pow_witness = Some out.
  Proof.
    intros Hcap Hidx. unfold honest_prove. cbn zeta.
    destruct (commit_layers _ 0 (lde_bits p) (reduction_arity_bits p) (fri_betas ch)) as [layers last] eqn:Ecl.
    destruct (all_some_intro (fun leaves => mcap leaves (cap_height (config p)))
                (map (oracle_leaves (lde_bits p)) oracles)) as [caps ->].
    { intros lv Hlv. apply in_map_iff in Hlv. destruct Hlv as (polys & <- & _).
      apply (mcap_some _ (lde_bits p)); [apply oracle_leaves_length | lia]. }
    destruct (commit_layers_mcap_some _ _ _ _ _ _ _ (cap_height (config p)) Ecl Hcap) as [lcaps ->].
    match goal with
    | |- exists out, match all_some (map ?f ?l) with _ => _ end = _ =>
      destruct (all_some_intro f l) as [rounds ->]
    end.
    { intros x Hx. specialize (Hidx x Hx).
      destruct (initial_of_some (lde_bits p) (cap_height (config p)) x oracles) as [init ->]; [lia | exact Hidx |].
      destruct (query_steps_of_some _ _ _ _ _ x _ _ (cap_height (config p)) Ecl Hcap Hidx) as [steps ->].
      eexists. reflexivity. }
    eexists. reflexivity.
  Qed.
End Honest.
