(* C07 - instances of the parametricity theorem of Proofs/GatesParam.v:
   eval_hom      evaluation commutes with every ring homomorphism that respects the embedding of
                 constants; in particular with the embedding Fp -> Fp2: the base-field evaluator and the
                 extension-field evaluator return the same values on base-field rows (eval_embed_fp2)
   eval_poly     running the evaluator on POLYNOMIALS (coefficient lists, Base/Poly.v) and evaluating
                 the resulting constraint polynomials at a point x gives the constraint values of the
                 row obtained by evaluating the wire polynomials at x
   eval_degree   if every wire / constant polynomial has at most delta+1 coefficients, constraint number
                 k is a polynomial with at most d_k * delta + 1 coefficients, where d_k is the abstract
                 degree computed by the same evaluator over (nat, max, +)  (Model/C07Run.v) *)
From Coq Require Import ZArith List Lia Arith Bool Ring Field.
From Verif Require Import Base.Field Base.Poly Gen.FieldConsts Model.Fp Model.Fp2 Model.FieldGeneric Model.Gates
  Model.C07Run Proofs.FpField Proofs.FpFieldPrime Proofs.GatesParam.
Import ListNotations.
Local Open Scope nat_scope.

Section Hom.
  Context {K1 K2 : Type} {F1 : FieldOps K1} {F2 : FieldOps K2} {O1 : OfBase K1} {O2 : OfBase K2}.
  Variable phi : K1 -> K2.
  Hypothesis phi_0 : phi 0%F = 0%F.
  Hypothesis phi_1 : phi 1%F = 1%F.
  Hypothesis phi_add : forall a b, phi (a + b)%F = (phi a + phi b)%F.
  Hypothesis phi_sub : forall a b, phi (a - b)%F = (phi a - phi b)%F.
  Hypothesis phi_mul : forall a b, phi (a * b)%F = (phi a * phi b)%F.
  Hypothesis phi_base : forall z, phi (of_base z) = of_base z.

  Definition Rhom (x : K1) (y : K2) : Prop := y = phi x.

  Lemma Rhom_map l : Forall2 Rhom l (map phi l).
  Proof. induction l; cbn [map]; constructor; [reflexivity | assumption]. Qed.
  Lemma Rhom_eq l1 l2 : Forall2 Rhom l1 l2 -> l2 = map phi l1.
  Proof. induction 1 as [|a b l1 l2 Hab _ IH]; cbn [map]; [reflexivity|]. rewrite Hab, IH. reflexivity. Qed.

  Theorem eval_hom (g : gate) (cs ws pi : list K1) :
    gate_eval_unfiltered g (map phi cs) (map phi ws) (map phi pi) = map phi (gate_eval_unfiltered g cs ws pi).
  Proof.
    apply Rhom_eq.
    apply (eval_param Rhom); unfold Rhom; intros; subst; try apply Rhom_map; auto.
  Qed.

  Theorem compute_filter_hom row lo hi (s : K1) many :
    compute_filter row lo hi (phi s) many = phi (compute_filter row lo hi s many).
  Proof.
    apply (param_compute_filter Rhom); unfold Rhom; intros; subst; auto.
  Qed.
End Hom.

(* ---- the embedding Fp -> Fp2 *)
Definition emb_fp2 (x : Fp) : Fp2 := (x, 0%F).

Section Fp2Emb.
  Add Field Fp_field_inst : (@F_field_theory Fp _ FpLaws).

  Lemma fp2_add_eq (a b : Fp2) : (a + b)%F = ((fst a + fst b)%F, (snd a + snd b)%F).
  Proof. reflexivity. Qed.
  Lemma fp2_sub_eq (a b : Fp2) : (a - b)%F = ((fst a - fst b)%F, (snd a - snd b)%F).
  Proof. reflexivity. Qed.
  Lemma fp2_mul_eq (a b : Fp2) :
    (a * b)%F = ((fst a * fst b + W2 * (snd a * snd b))%F, (fst a * snd b + snd a * fst b)%F).
  Proof. destruct a, b. reflexivity. Qed.

  Theorem eval_embed_fp2 (g : gate) (cs ws pi : list Fp) :
    gate_eval_unfiltered g (map emb_fp2 cs) (map emb_fp2 ws) (map emb_fp2 pi)
    = map emb_fp2 (gate_eval_unfiltered g cs ws pi).
  Proof.
    apply (eval_hom emb_fp2); unfold emb_fp2.
    - reflexivity.
    - reflexivity.
    - intros a b. rewrite fp2_add_eq. cbn [fst snd]. f_equal; try ring.
    - intros a b. rewrite fp2_sub_eq. cbn [fst snd]. f_equal; try ring.
    - intros a b. rewrite fp2_mul_eq. cbn [fst snd]. f_equal; try ring.
    - intros z. reflexivity.
  Qed.
End Fp2Emb.

(* ---- polynomials *)
Section PolyInst.
  Context {K : Type} `{FL : FieldLaws K} {OB : OfBase K}.
  Add Field Kf_poly : (@F_field_theory K _ FL).

  Definition PolyFieldOps : FieldOps (list K) := {|
    fzero := []; fone := [1%F]; fadd := padd; fsub := fun p q => padd p (pscale (- (1))%F q);
    fmul := pmul; fneg := pscale (- (1))%F; finv := fun p => p; feqb := fun _ _ => false |}.
  Definition PolyFieldOfBase : OfBase (list K) := fun z => [of_base z].

  Definition eval_polys (g : gate) (cs ws pi : list (list K)) : list (list K) :=
    @gate_eval_unfiltered (list K) PolyFieldOps PolyFieldOfBase g cs ws pi.

  (* evaluation at a point *)
  Theorem eval_poly (x : K) (g : gate) (cs ws pi : list (list K)) :
    map (fun p => peval p x) (eval_polys g cs ws pi)
    = gate_eval_unfiltered g (map (fun p => peval p x) cs) (map (fun p => peval p x) ws) (map (fun p => peval p x) pi).
  Proof.
    symmetry. unfold eval_polys.
    apply (@eval_hom (list K) K PolyFieldOps _ PolyFieldOfBase _ (fun p => peval p x)).
    - reflexivity.
    - cbn [fone PolyFieldOps peval]. ring.
    - intros a b. cbn [fadd PolyFieldOps]. apply peval_padd.
    - intros a b. cbn [fsub PolyFieldOps]. rewrite peval_padd, peval_pscale. ring.
    - intros a b. cbn [fmul PolyFieldOps]. apply peval_pmul.
    - intros z. unfold of_base at 1, PolyFieldOfBase. cbn [peval]. ring.
  Qed.

  (* degrees *)
  Lemma pmul_length_le : forall p q : list K, length (pmul p q) <= length p + (length q - 1).
  Proof.
    induction p as [|c p IH]; intros q; cbn [pmul length]; [lia|].
    rewrite padd_length, pscale_length. cbn [length]. specialize (IH q). lia.
  Qed.

  Definition Rdeg (delta : nat) (p : list K) (d : nat) : Prop := length p <= d * delta + 1.

  Theorem eval_degree (delta : nat) (g : gate) (cs ws pi : list (list K)) :
    Forall (fun p => length p <= delta + 1) cs -> Forall (fun p => length p <= delta + 1) ws ->
    Forall (fun p => length p <= 1) pi ->
    Forall2 (Rdeg delta) (eval_polys g cs ws pi)
      (@gate_eval_unfiltered nat DegOps DegOfBase g (repeat 1 (length cs)) (repeat 1 (length ws)) (repeat 0 (length pi))).
  Proof.
    intros Hcs Hws Hpi. unfold eval_polys.
    assert (Hrep : forall (l : list (list K)) d, Forall (fun p => length p <= d * delta + 1) l ->
              Forall2 (Rdeg delta) l (repeat d (length l))).
    { intros l d Hl. induction Hl; cbn [length repeat]; constructor; auto. }
    apply (@eval_param (list K) nat PolyFieldOps DegOps PolyFieldOfBase DegOfBase (Rdeg delta)); unfold Rdeg.
    - cbn. lia.
    - cbn. lia.
    - intros a b c d Ha Hc. cbn [fadd PolyFieldOps DegOps]. rewrite padd_length. nia.
    - intros a b c d Ha Hc. cbn [fsub PolyFieldOps DegOps]. rewrite padd_length, pscale_length. nia.
    - intros a b c d Ha Hc. cbn [fmul PolyFieldOps DegOps]. pose proof (pmul_length_le a c). nia.
    - intros z. cbn. lia.
    - apply Hrep. eapply Forall_impl; [|exact Hcs]. cbn beta. intros; lia.
    - apply Hrep. eapply Forall_impl; [|exact Hws]. cbn beta. intros; lia.
    - apply Hrep. eapply Forall_impl; [|exact Hpi]. cbn beta. intros; lia.
  Qed.

  (* with rows of the declared sizes every constraint polynomial is bounded through gate_abs_degree *)
  Corollary eval_degree_abs (delta : nat) (g : gate) (cs ws pi : list (list K)) :
    length cs = gate_num_constants g -> length ws = Nat.max (gate_eval_wires g) (gate_num_wires g) -> length pi = 4 ->
    Forall (fun p => length p <= delta + 1) cs -> Forall (fun p => length p <= delta + 1) ws ->
    Forall (fun p => length p <= 1) pi ->
    Forall (fun p => length p <= gate_abs_degree g * delta + 1) (eval_polys g cs ws pi).
  Proof.
    intros Lc Lw Lp Hcs Hws Hpi. pose proof (eval_degree delta g cs ws pi Hcs Hws Hpi) as H2.
    rewrite Lc, Lw, Lp in H2. unfold gate_abs_degree.
    set (ds := @gate_eval_unfiltered nat DegOps DegOfBase g (repeat 1 (gate_num_constants g))
                 (repeat 1 (Nat.max (gate_eval_wires g) (gate_num_wires g))) (repeat 0 4)) in *.
    clearbody ds. induction H2 as [|p d l ds Hpd _ IH]; [constructor|].
    cbn [fold_right]. constructor.
    - unfold Rdeg in Hpd. nia.
    - eapply Forall_impl; [|exact IH]. cbn beta. intros q Hq. nia.
  Qed.
End PolyInst.
