(* C17 - round-trip theorems for the byte codecs of Model/Codec.v.
   Shape of every theorem: under the explicit well-formedness guard the WRITER needs,
     read_X (write_X x ++ rest) = Some (x, rest)       for ALL values x and ALL continuations rest
   (so read_X consumes exactly what write_X produced), built bottom-up: fixed-width integers ->
   field -> vectors (induction over lists: rd_n_concat / rd_n_wconcat / read_each_wconcat) ->
   records. *)
From Coq Require Import ZArith List Bool Lia.
From Verif Require Import Base.Reader Gen.FieldConsts Model.Codec.
Import ListNotations.
Open Scope Z_scope.

(* ------------------------------------------------------------------ monad plumbing *)
Lemma rbind_step {A B} (m : R A) (k : A -> R B) s a s' :
  m s = Some (a, s') -> rbind m k s = k a s'.
Proof. intros E. unfold rbind. rewrite E. reflexivity. Qed.

Lemma rbind_inv {A B} (m : R A) (k : A -> R B) s b s'' :
  rbind m k s = Some (b, s'') -> exists a s', m s = Some (a, s') /\ k a s' = Some (b, s'').
Proof. unfold rbind. destruct (m s) as [[a s']|]; [|discriminate]. intros E. eauto. Qed.

Lemma wapp_inv a b bs : wapp a b = Some bs -> exists x y, a = Some x /\ b = Some y /\ bs = x ++ y.
Proof. destruct a as [x|], b as [y|]; cbn; try discriminate. intros E. inversion E. eauto. Qed.

Lemma wconcat_cons_inv {A} (w : A -> W) x t bs :
  wconcat w (x :: t) = Some bs -> exists b1 b2, w x = Some b1 /\ wconcat w t = Some b2 /\ bs = b1 ++ b2.
Proof. cbn [wconcat]. apply wapp_inv. Qed.

Lemma wconcat_some {A} (w : A -> W) l :
  Forall (fun x => exists bs, w x = Some bs) l -> exists bs, wconcat w l = Some bs.
Proof.
  induction 1 as [|x t [b Hb] _ [bt Hbt]]; cbn [wconcat]; [eauto|].
  rewrite Hb, Hbt. cbn. eauto.
Qed.

Lemma wconcat_none {A} (w : A -> W) l x : In x l -> w x = None -> wconcat w l = None.
Proof.
  induction l as [|y t IH]; cbn [wconcat In]; [tauto|].
  intros [->|Hin] Hx; [rewrite Hx; reflexivity|].
  rewrite (IH Hin Hx). destruct (w y); reflexivity.
Qed.

(* ------------------------------------------------------------------ read_exact *)
Lemma read_exact_app a rest : read_exact (length a) (a ++ rest) = Some (a, rest).
Proof. induction a as [|b t IH]; cbn [length read_exact app]; [reflexivity|]. rewrite IH. reflexivity. Qed.

Lemma read_exact_inv n : forall s a r, read_exact n s = Some (a, r) -> s = a ++ r /\ length a = n.
Proof.
  induction n as [|n IH]; intros s a r; cbn [read_exact].
  - intros E. inversion E. auto.
  - destruct s as [|b t]; [discriminate|].
    destruct (read_exact n t) as [[l r']|] eqn:E; [|discriminate].
    intros E'. inversion E'. subst. destruct (IH _ _ _ E) as [-> <-]. auto.
Qed.

Lemma read_exact_short n : forall s, (length s < n)%nat -> read_exact n s = None.
Proof.
  induction n as [|n IH]; intros s Hs; [lia|]. cbn [read_exact].
  destruct s as [|b t]; [reflexivity|]. cbn [length] in Hs. rewrite IH by lia. reflexivity.
Qed.

Lemma read_exact_enough n : forall s, (n <= length s)%nat -> exists a r, read_exact n s = Some (a, r).
Proof.
  induction n as [|n IH]; intros s Hs; cbn [read_exact]; [eauto|].
  destruct s as [|b t]; cbn [length] in Hs; [lia|].
  destruct (IH t) as (a & r & E); [lia|]. rewrite E. eauto.
Qed.

(* ------------------------------------------------------------------ little endian *)
Definition bytes (l : list Z) : Prop := Forall (fun b => 0 <= b < 256) l.

Lemma le_bytes_length n : forall x, length (le_bytes n x) = n.
Proof. induction n as [|n IH]; intros x; cbn [le_bytes length]; [reflexivity|]. rewrite IH. reflexivity. Qed.

Lemma le_bytes_bytes n : forall x, bytes (le_bytes n x).
Proof.
  induction n as [|n IH]; intros x; cbn [le_bytes]; constructor; [|apply IH].
  apply Z.mod_pos_bound. lia.
Qed.

Lemma le_val_le_bytes n : forall x, 0 <= x < 256 ^ Z.of_nat n -> le_val (le_bytes n x) = x.
Proof.
  induction n as [|n IH]; intros x Hx.
  - cbn in Hx. cbn [le_bytes le_val]. lia.
  - cbn [le_bytes le_val]. rewrite IH.
    + pose proof (Z.div_mod x 256). lia.
    + rewrite Nat2Z.inj_succ, Z.pow_succ_r in Hx by lia.
      split; [apply Z.div_pos; lia|]. apply Z.div_lt_upper_bound; lia.
Qed.

Lemma le_val_range l : bytes l -> 0 <= le_val l < 256 ^ Z.of_nat (length l).
Proof.
  induction 1 as [|b t Hb _ IH]; cbn [le_val length]; [cbn; lia|].
  rewrite Nat2Z.inj_succ, Z.pow_succ_r by lia. lia.
Qed.

Lemma le_bytes_le_val l : bytes l -> le_bytes (length l) (le_val l) = l.
Proof.
  induction 1 as [|b t Hb Ht IH]; cbn [le_val length le_bytes]; [reflexivity|].
  assert (E1 : (b + 256 * le_val t) mod 256 = b).
  { symmetry. apply Z.mod_unique with (le_val t); lia. }
  assert (E2 : (b + 256 * le_val t) / 256 = le_val t).
  { symmetry. apply Z.div_unique with b; lia. }
  rewrite E1, E2, IH. reflexivity.
Qed.

(* the generic fixed-width integer codec *)
Definition read_le (n : nat) : R Z := rdo l <- read_exact n ;; rret (le_val l).

Lemma read_le_ok n x rest : 0 <= x < 256 ^ Z.of_nat n -> read_le n (le_bytes n x ++ rest) = Some (x, rest).
Proof.
  intros Hx. unfold read_le.
  rewrite (rbind_step _ _ _ (le_bytes n x) rest).
  - unfold rret. rewrite le_val_le_bytes by exact Hx. reflexivity.
  - rewrite <- (le_bytes_length n x) at 1. apply read_exact_app.
Qed.

(* decoding determines the consumed bytes: re-encoding gives them back *)
Lemma read_le_inv n s x rest : bytes s -> read_le n s = Some (x, rest) ->
  s = le_bytes n x ++ rest /\ 0 <= x < 256 ^ Z.of_nat n.
Proof.
  intros Hs E. unfold read_le in E. apply rbind_inv in E. destruct E as (l & s' & E1 & E2).
  unfold rret in E2. inversion E2. subst. apply read_exact_inv in E1. destruct E1 as [-> <-].
  apply Forall_app in Hs. destruct Hs as [Hl _].
  rewrite le_bytes_le_val by exact Hl. split; [reflexivity|]. apply le_val_range. exact Hl.
Qed.

Lemma read_le_short n s : (length s < n)%nat -> read_le n s = None.
Proof. intros H. unfold read_le, rbind. rewrite read_exact_short by exact H. reflexivity. Qed.

(* ------------------------------------------------------------------ u8 u16 u32 usize bool *)
Definition u8 (x : Z) : Prop := 0 <= x < 256.
Definition u16 (x : Z) : Prop := 0 <= x < 65536.
Definition u32 (x : Z) : Prop := 0 <= x < 4294967296.
Definition u64 (x : Z) : Prop := 0 <= x < 18446744073709551616.

Lemma read_u8_write_u8 x rest : u8 x -> read_u8 (write_u8 x ++ rest) = Some (x, rest).
Proof. intros H. apply (read_le_ok 1). exact H. Qed.
Lemma read_u16_write_u16 x rest : u16 x -> read_u16 (write_u16 x ++ rest) = Some (x, rest).
Proof. intros H. apply (read_le_ok 2). exact H. Qed.
Lemma read_u32_write_u32 x rest : u32 x -> read_u32 (write_u32 x ++ rest) = Some (x, rest).
Proof. intros H. apply (read_le_ok 4). exact H. Qed.
Lemma read_usize_write_usize x rest : u64 x -> read_usize (write_usize x ++ rest) = Some (x, rest).
Proof. intros H. apply (read_le_ok 8). exact H. Qed.

Lemma read_u8_inv s x rest : bytes s -> read_u8 s = Some (x, rest) -> s = write_u8 x ++ rest /\ u8 x.
Proof. apply (read_le_inv 1). Qed.
Lemma read_u32_inv s x rest : bytes s -> read_u32 s = Some (x, rest) -> s = write_u32 x ++ rest /\ u32 x.
Proof. apply (read_le_inv 4). Qed.
Lemma read_usize_inv s x rest : bytes s -> read_usize s = Some (x, rest) -> s = write_usize x ++ rest /\ u64 x.
Proof. apply (read_le_inv 8). Qed.

(* a width outside the type does NOT round trip: the writer truncates (`as u8`, `i as u32`) *)
Lemma write_u8_truncates x : write_u8 x = write_u8 (x mod 256).
Proof. unfold write_u8. cbn [le_bytes]. rewrite Z.mod_mod by lia. reflexivity. Qed.

Lemma read_bool_write_bool b rest : read_bool (write_bool b ++ rest) = Some (b, rest).
Proof.
  unfold read_bool, write_bool.
  rewrite (rbind_step _ _ _ (if b then 1 else 0) rest) by (apply read_u8_write_u8; destruct b; unfold u8; lia).
  destruct b; reflexivity.
Qed.

(* only 0 and 1 are accepted *)
Lemma read_bool_rejects x rest : u8 x -> x <> 0 -> x <> 1 -> read_bool (write_u8 x ++ rest) = None.
Proof.
  intros Hx H0 H1. unfold read_bool.
  rewrite (rbind_step _ _ _ x rest) by (apply read_u8_write_u8; exact Hx).
  destruct (Z.eqb_spec x 0); [contradiction|]. destruct (Z.eqb_spec x 1); [contradiction|]. reflexivity.
Qed.

Lemma read_bool_inv s b rest : bytes s -> read_bool s = Some (b, rest) -> s = write_bool b ++ rest.
Proof.
  intros Hs E. unfold read_bool in E. apply rbind_inv in E. destruct E as (i & s' & E1 & E2).
  apply read_u8_inv in E1; [|exact Hs]. destruct E1 as [-> _].
  destruct (Z.eqb_spec i 0) as [->|]; [inversion E2; reflexivity|].
  destruct (Z.eqb_spec i 1) as [->|]; [inversion E2; reflexivity|]. discriminate.
Qed.

(* ------------------------------------------------------------------ vectors: induction over lists *)
Lemma rd_n_concat {A} (w : A -> list Z) (r : R A) (Q : A -> Prop) :
  (forall x rest, Q x -> r (w x ++ rest) = Some (x, rest)) ->
  forall l rest, Forall Q l -> rd_n (length l) r (concat (map w l) ++ rest) = Some (l, rest).
Proof.
  intros Hr l rest Hl. induction Hl as [|x t Hx _ IH]; cbn [length rd_n map concat]; [reflexivity|].
  rewrite <- app_assoc. rewrite (rbind_step _ _ _ x (concat (map w t) ++ rest)) by (apply Hr; exact Hx).
  rewrite (rbind_step _ _ _ t rest) by exact IH. reflexivity.
Qed.

Lemma rd_n_wconcat {A} (w : A -> W) (r : R A) (Q : A -> Prop) :
  (forall x bs rest, Q x -> w x = Some bs -> r (bs ++ rest) = Some (x, rest)) ->
  forall l bs rest, Forall Q l -> wconcat w l = Some bs -> rd_n (length l) r (bs ++ rest) = Some (l, rest).
Proof.
  intros Hr l. induction l as [|x t IH]; intros bs rest Hl E.
  - cbn in E. inversion E. reflexivity.
  - apply wconcat_cons_inv in E. destruct E as (b1 & b2 & E1 & E2 & ->).
    inversion Hl as [|? ? Hx Ht]. subst. cbn [length rd_n]. rewrite <- app_assoc.
    rewrite (rbind_step _ _ _ x (b2 ++ rest)) by (apply Hr; assumption).
    rewrite (rbind_step _ _ _ t rest) by (apply IH; assumption). reflexivity.
Qed.

Lemma read_each_wconcat {A} (w : A -> W) (r : nat -> R A) (Q : nat -> A -> Prop) :
  (forall n x bs rest, Q n x -> w x = Some bs -> r n (bs ++ rest) = Some (x, rest)) ->
  forall ns l bs rest, Forall2 Q ns l -> wconcat w l = Some bs ->
    read_each r ns (bs ++ rest) = Some (l, rest).
Proof.
  intros Hr ns l bs rest H. revert bs rest. induction H as [|n x ns t Hx _ IH]; intros bs rest E.
  - cbn in E. inversion E. reflexivity.
  - apply wconcat_cons_inv in E. destruct E as (b1 & b2 & E1 & E2 & ->).
    cbn [read_each]. rewrite <- app_assoc.
    rewrite (rbind_step _ _ _ x (b2 ++ rest)) by (apply Hr; assumption).
    rewrite (rbind_step _ _ _ t rest) by (apply IH; assumption). reflexivity.
Qed.

Lemma rd_n_length {A} (r : R A) n : forall s l rest, rd_n n r s = Some (l, rest) -> length l = n.
Proof.
  induction n as [|n IH]; intros s l rest E; cbn [rd_n] in E.
  - inversion E. reflexivity.
  - apply rbind_inv in E. destruct E as (x & s1 & _ & E). apply rbind_inv in E.
    destruct E as (xs & s2 & E2 & E3). inversion E3. subst. cbn [length]. f_equal. eapply IH. exact E2.
Qed.

Lemma concat_map_length {A} (w : A -> list Z) k l :
  (forall x, length (w x) = k) -> length (concat (map w l)) = (length l * k)%nat.
Proof. intros H. induction l as [|x t IH]; cbn [map concat length]; [reflexivity|]. rewrite app_length, H, IH. lia. Qed.

Lemma read_counted_ok {A} n k (r : R A) s : n * k <= Z.of_nat (length s) ->
  read_counted n k r s = rd_n (Z.to_nat n) r s.
Proof. intros H. unfold read_counted. destruct (Z.ltb_spec (Z.of_nat (length s)) (n * k)); [lia|reflexivity]. Qed.

Lemma read_counted_short {A} n k (r : R A) s : Z.of_nat (length s) < n * k -> read_counted n k r s = None.
Proof. intros H. unfold read_counted. destruct (Z.ltb_spec (Z.of_nat (length s)) (n * k)); [reflexivity|lia]. Qed.

(* Vec<usize> *)
Definition wf_usize_vec (v : list Z) : Prop := Forall u64 v /\ u64 (Z.of_nat (length v)).

Lemma write_usize_length x : length (write_usize x) = 8%nat.
Proof. apply le_bytes_length. Qed.

Lemma read_usize_vec_write v rest : wf_usize_vec v ->
  read_usize_vec (write_usize_vec v ++ rest) = Some (v, rest).
Proof.
  intros [Hv Hn]. unfold read_usize_vec, write_usize_vec. rewrite <- app_assoc.
  rewrite (rbind_step _ _ _ (Z.of_nat (length v)) (concat (map write_usize v) ++ rest))
    by (apply read_usize_write_usize; exact Hn).
  rewrite read_counted_ok.
  - rewrite Nat2Z.id. apply (rd_n_concat write_usize read_usize u64); [|exact Hv].
    intros x r Hx. apply read_usize_write_usize. exact Hx.
  - rewrite app_length, (concat_map_length write_usize 8) by apply write_usize_length. lia.
Qed.

(* ------------------------------------------------------------------ field, extension, hash *)
Definition fcanon (x : Z) : Prop := 0 <= x < ORDER.

Lemma canon_range x : 0 <= canon x < ORDER.
Proof. unfold canon. apply Z.mod_pos_bound. unfold ORDER. lia. Qed.
Lemma canon_id x : fcanon x -> canon x = x.
Proof. intros H. unfold canon. apply Z.mod_small. exact H. Qed.

(* any representation: the round trip canonicalises *)
Lemma read_field_write_field_repr x rest : read_field (write_field x ++ rest) = Some (canon x, rest).
Proof.
  unfold write_field. apply (read_le_ok 8). pose proof (canon_range x). unfold ORDER in *.
  change (256 ^ Z.of_nat 8) with 18446744073709551616. lia.
Qed.

Lemma read_field_write_field x rest : fcanon x -> read_field (write_field x ++ rest) = Some (x, rest).
Proof. intros H. rewrite read_field_write_field_repr, canon_id by exact H. reflexivity. Qed.

(* the reader performs no range check: a non-canonical encoding is accepted, and it decodes to a
   representation of the same field element as a DIFFERENT (canonical) encoding *)
Lemma read_field_noncanonical_accepted x rest : ORDER <= x < 2 ^ 64 ->
  read_field (le_bytes 8 x ++ rest) = Some (x, rest)
  /\ le_bytes 8 x <> write_field x
  /\ read_field (write_field x ++ rest) = Some (x - ORDER, rest).
Proof.
  intros Hx. split; [|split].
  - apply (read_le_ok 8). change (256 ^ Z.of_nat 8) with 18446744073709551616. unfold ORDER in Hx. lia.
  - intros E. apply (f_equal le_val) in E. unfold write_field in E.
    rewrite !le_val_le_bytes in E.
    + pose proof (canon_range x). lia.
    + pose proof (canon_range x). change (256 ^ Z.of_nat 8) with 18446744073709551616. unfold ORDER in *. lia.
    + change (256 ^ Z.of_nat 8) with 18446744073709551616. unfold ORDER in Hx. lia.
  - rewrite read_field_write_field_repr. repeat f_equal. unfold canon.
    symmetry. apply Z.mod_unique with 1; unfold ORDER in *; lia.
Qed.

Lemma read_field_inv s x rest : bytes s -> read_field s = Some (x, rest) -> s = le_bytes 8 x ++ rest /\ u64 x.
Proof. apply (read_le_inv 8). Qed.

(* decode-then-encode returns the consumed bytes exactly when the decoded value is canonical *)
Lemma read_field_reencode s x rest : bytes s -> read_field s = Some (x, rest) ->
  (fcanon x <-> s = write_field x ++ rest).
Proof.
  intros Hs E. destruct (read_field_inv _ _ _ Hs E) as [-> Hx]. unfold write_field. split.
  - intros Hc. rewrite canon_id by exact Hc. reflexivity.
  - intros E2. apply app_inv_tail in E2. apply (f_equal le_val) in E2.
    pose proof (canon_range x) as Hc. rewrite !le_val_le_bytes in E2.
    + unfold fcanon. lia.
    + change (256 ^ Z.of_nat 8) with 18446744073709551616. unfold ORDER in *. lia.
    + exact Hx.
Qed.

Lemma write_field_length x : length (write_field x) = 8%nat.
Proof. apply le_bytes_length. Qed.

Lemma read_field_vec_write v rest : Forall fcanon v ->
  read_field_vec (length v) (write_field_vec v ++ rest) = Some (v, rest).
Proof. apply (rd_n_concat write_field read_field fcanon). intros x r. apply read_field_write_field. Qed.

Definition wf_ext (e : Ext) : Prop := fcanon (fst e) /\ fcanon (snd e).

Lemma read_ext_write_ext e rest : wf_ext e -> read_ext (write_ext e ++ rest) = Some (e, rest).
Proof.
  intros [Ha Hb]. destruct e as [a b]. cbn [fst snd] in *. unfold read_ext, write_ext. cbn [fst snd].
  rewrite <- app_assoc.
  rewrite (rbind_step _ _ _ a (write_field b ++ rest)) by (apply read_field_write_field; exact Ha).
  rewrite (rbind_step _ _ _ b rest) by (apply read_field_write_field; exact Hb). reflexivity.
Qed.

Lemma read_ext_vec_write v rest : Forall wf_ext v ->
  read_ext_vec (length v) (write_ext_vec v ++ rest) = Some (v, rest).
Proof. apply (rd_n_concat write_ext read_ext wf_ext). intros x r. apply read_ext_write_ext. Qed.

Lemma write_ext_length e : length (write_ext e) = 16%nat.
Proof. unfold write_ext. rewrite app_length, !write_field_length. reflexivity. Qed.

Definition wf_hash (h : HashOut) : Prop := length h = 4%nat /\ Forall fcanon h.

Lemma write_hash_length h : length h = 4%nat -> length (write_hash h) = 32%nat.
Proof. intros H. unfold write_hash. rewrite (concat_map_length write_field 8) by apply write_field_length. lia. Qed.

Lemma firstn_8_le_bytes x t : firstn 8 (le_bytes 8 x ++ t) = le_bytes 8 x.
Proof. rewrite <- (le_bytes_length 8 x) at 1. rewrite firstn_app, Nat.sub_diag, firstn_all. cbn [firstn]. apply app_nil_r. Qed.
Lemma skipn_8_le_bytes x t : skipn 8 (le_bytes 8 x ++ t) = t.
Proof. rewrite <- (le_bytes_length 8 x) at 1. rewrite skipn_app, Nat.sub_diag, skipn_all. reflexivity. Qed.

Lemma hash_from_bytes_write h : wf_hash h -> hash_from_bytes (write_hash h) = h.
Proof.
  intros [Hl Hc]. destruct h as [|a [|b [|c [|d [|? ?]]]]]; try discriminate.
  inversion Hc as [|? ? Ha Hc1]. inversion Hc1 as [|? ? Hb Hc2]. inversion Hc2 as [|? ? Hc' Hc3].
  inversion Hc3 as [|? ? Hd _]. subst.
  unfold hash_from_bytes, write_hash, write_field. cbn [map concat chunks]. rewrite !canon_id by assumption.
  rewrite app_nil_r.
  repeat (rewrite firstn_8_le_bytes || rewrite skipn_8_le_bytes).
  assert (E8 : firstn 8 (le_bytes 8 d) = le_bytes 8 d).
  { apply firstn_all2. rewrite le_bytes_length. lia. }
  rewrite E8. cbn [map].
  assert (B : forall x, fcanon x -> le_val (le_bytes 8 x) = x).
  { intros x Hx. apply le_val_le_bytes. change (256 ^ Z.of_nat 8) with 18446744073709551616.
    unfold fcanon, ORDER in Hx. lia. }
  rewrite !B by assumption. reflexivity.
Qed.

Lemma read_hash_write_hash h rest : wf_hash h -> read_hash (write_hash h ++ rest) = Some (h, rest).
Proof.
  intros Hh. unfold read_hash.
  rewrite (rbind_step _ _ _ (write_hash h) rest).
  - unfold rret. rewrite hash_from_bytes_write by exact Hh. reflexivity.
  - rewrite <- (write_hash_length h (proj1 Hh)) at 1. apply read_exact_app.
Qed.

(* ------------------------------------------------------------------ caps and Merkle proofs *)
Definition wf_cap (cap_height : nat) (c : MerkleCap) : Prop :=
  length c = (2 ^ cap_height)%nat /\ Forall wf_hash c.

Lemma read_merkle_cap_write h c rest : wf_cap h c ->
  read_merkle_cap h (write_merkle_cap c ++ rest) = Some (c, rest).
Proof.
  intros [Hl Hc]. unfold read_merkle_cap, write_merkle_cap. rewrite <- Hl.
  apply (rd_n_concat write_hash read_hash wf_hash); [|exact Hc]. intros x r. apply read_hash_write_hash.
Qed.

(* the length is NOT in the bytes: a cap of another length is read back wrongly or not at all *)
Lemma read_merkle_cap_length h s c rest : read_merkle_cap h s = Some (c, rest) -> length c = (2 ^ h)%nat.
Proof. apply rd_n_length. Qed.

Definition wf_merkle_proof (p : MerkleProof) : Prop := (length p <= 255)%nat /\ Forall wf_hash p.

Lemma write_merkle_proof_some p : (length p <= 255)%nat ->
  write_merkle_proof p = Some (write_u8 (Z.of_nat (length p)) ++ concat (map write_hash p)).
Proof. intros H. unfold write_merkle_proof. destruct (Nat.leb_spec (length p) 255); [reflexivity|lia]. Qed.

Lemma read_merkle_proof_write p bs rest : wf_merkle_proof p -> write_merkle_proof p = Some bs ->
  read_merkle_proof (bs ++ rest) = Some (p, rest).
Proof.
  intros [Hl Hp] E. rewrite write_merkle_proof_some in E by exact Hl.
  assert (Ebs : bs = write_u8 (Z.of_nat (length p)) ++ concat (map write_hash p)) by congruence. subst bs. clear E.
  unfold read_merkle_proof. rewrite <- app_assoc.
  rewrite (rbind_step _ _ _ (Z.of_nat (length p)) (concat (map write_hash p) ++ rest))
    by (apply read_u8_write_u8; unfold u8; lia).
  rewrite Nat2Z.id. apply (rd_n_concat write_hash read_hash wf_hash); [|exact Hp].
  intros x r. apply read_hash_write_hash.
Qed.

(* boundary: 256 or more siblings cannot be written (the writer panics) ... *)
Lemma write_merkle_proof_too_long p : (255 < length p)%nat -> write_merkle_proof p = None.
Proof. intros H. unfold write_merkle_proof. destruct (Nat.leb_spec (length p) 255); [lia|reflexivity]. Qed.

(* ... and no byte string decodes to such a proof: the format cannot express it *)
Lemma read_merkle_proof_at_most_255 s p rest : bytes s -> read_merkle_proof s = Some (p, rest) ->
  (length p <= 255)%nat.
Proof.
  intros Hs E. unfold read_merkle_proof in E. apply rbind_inv in E. destruct E as (n & s' & E1 & E2).
  apply read_u8_inv in E1; [|exact Hs]. destruct E1 as [_ Hn]. apply rd_n_length in E2. unfold u8 in Hn. lia.
Qed.

(* ------------------------------------------------------------------ FRI configuration *)
Definition wf_strategy (s : FriStrategy) : Prop :=
  match s with
  | Fixed l => wf_usize_vec l
  | ConstantArityBits a f => u64 a /\ u64 f
  | MinSize (Some m) => u64 m
  | MinSize None => True
  end.

Lemma read_strategy_write s rest : wf_strategy s ->
  read_fri_reduction_strategy (write_fri_reduction_strategy s ++ rest) = Some (s, rest).
Proof.
  intros H. unfold read_fri_reduction_strategy. destruct s as [l|a f|[m|]]; cbn [write_fri_reduction_strategy wf_strategy] in *.
  - rewrite <- app_assoc. rewrite (rbind_step _ _ _ 0 (write_usize_vec l ++ rest)) by (apply read_u8_write_u8; unfold u8; lia).
    cbn [Z.eqb]. rewrite (rbind_step _ _ _ l rest) by (apply read_usize_vec_write; exact H). reflexivity.
  - destruct H as [Ha Hf]. rewrite <- !app_assoc.
    rewrite (rbind_step _ _ _ 1 (write_usize a ++ write_usize f ++ rest)) by (apply read_u8_write_u8; unfold u8; lia).
    cbn [Z.eqb Pos.eqb].
    rewrite (rbind_step _ _ _ a (write_usize f ++ rest)) by (apply read_usize_write_usize; exact Ha).
    rewrite (rbind_step _ _ _ f rest) by (apply read_usize_write_usize; exact Hf). reflexivity.
  - rewrite <- !app_assoc.
    rewrite (rbind_step _ _ _ 2 (write_u8 1 ++ write_usize m ++ rest)) by (apply read_u8_write_u8; unfold u8; lia).
    cbn [Z.eqb Pos.eqb].
    rewrite (rbind_step _ _ _ 1 (write_usize m ++ rest)) by (apply read_u8_write_u8; unfold u8; lia).
    cbn [Z.eqb Pos.eqb].
    rewrite (rbind_step _ _ _ m rest) by (apply read_usize_write_usize; exact H). reflexivity.
  - rewrite <- !app_assoc.
    rewrite (rbind_step _ _ _ 2 (write_u8 0 ++ rest)) by (apply read_u8_write_u8; unfold u8; lia).
    cbn [Z.eqb Pos.eqb].
    rewrite (rbind_step _ _ _ 0 rest) by (apply read_u8_write_u8; unfold u8; lia). reflexivity.
Qed.

Definition wf_fri_config (c : FriConfig) : Prop :=
  u64 (fc_rate_bits c) /\ u64 (fc_cap_height c) /\ u64 (fc_num_query_rounds c) /\ u32 (fc_pow_bits c)
  /\ wf_strategy (fc_strategy c).

Lemma read_fri_config_write c rest : wf_fri_config c ->
  read_fri_config (write_fri_config c ++ rest) = Some (c, rest).
Proof.
  intros (H1 & H2 & H3 & H4 & H5). destruct c as [r ch q p s]. cbn [fc_rate_bits fc_cap_height fc_num_query_rounds fc_pow_bits fc_strategy] in *.
  unfold read_fri_config, write_fri_config. cbn [fc_rate_bits fc_cap_height fc_num_query_rounds fc_pow_bits fc_strategy].
  rewrite <- !app_assoc.
  rewrite (rbind_step _ _ _ r _ (read_usize_write_usize r _ H1)).
  rewrite (rbind_step _ _ _ ch _ (read_usize_write_usize ch _ H2)).
  rewrite (rbind_step _ _ _ q _ (read_usize_write_usize q _ H3)).
  rewrite (rbind_step _ _ _ p _ (read_u32_write_u32 p _ H4)).
  rewrite (rbind_step _ _ _ s _ (read_strategy_write s _ H5)). reflexivity.
Qed.

Definition wf_fri_params (p : FriParams) : Prop :=
  wf_fri_config (fp_config p) /\ wf_usize_vec (fp_reduction_arity_bits p) /\ u64 (fp_degree_bits p).

Lemma read_fri_params_write p rest : wf_fri_params p ->
  read_fri_params (write_fri_params p ++ rest) = Some (p, rest).
Proof.
  intros (H1 & H2 & H3). destruct p as [c a d h]. cbn [fp_config fp_reduction_arity_bits fp_degree_bits fp_hiding] in *.
  unfold read_fri_params, write_fri_params. cbn [fp_config fp_reduction_arity_bits fp_degree_bits fp_hiding].
  rewrite <- !app_assoc.
  rewrite (rbind_step _ _ _ c _ (read_fri_config_write c _ H1)).
  rewrite (rbind_step _ _ _ a _ (read_usize_vec_write a _ H2)).
  rewrite (rbind_step _ _ _ d _ (read_usize_write_usize d _ H3)).
  rewrite (rbind_step _ _ _ h _ (read_bool_write_bool h _)). reflexivity.
Qed.

Definition wf_circuit_config (c : CircuitConfig) : Prop :=
  u64 (cc_num_wires c) /\ u64 (cc_num_routed_wires c) /\ u64 (cc_num_constants c) /\ u64 (cc_security_bits c)
  /\ u64 (cc_num_challenges c) /\ u64 (cc_max_quotient_degree_factor c) /\ wf_fri_config (cc_fri_config c).

Lemma read_circuit_config_write c rest : wf_circuit_config c ->
  read_circuit_config (write_circuit_config c ++ rest) = Some (c, rest).
Proof.
  intros (H1 & H2 & H3 & H4 & H5 & H6 & H7). destruct c as [a b c d e f g h i].
  cbn [cc_num_wires cc_num_routed_wires cc_num_constants cc_security_bits cc_num_challenges
       cc_max_quotient_degree_factor cc_use_base_arithmetic_gate cc_zero_knowledge cc_fri_config] in *.
  unfold read_circuit_config, write_circuit_config.
  cbn [cc_num_wires cc_num_routed_wires cc_num_constants cc_security_bits cc_num_challenges
       cc_max_quotient_degree_factor cc_use_base_arithmetic_gate cc_zero_knowledge cc_fri_config].
  rewrite <- !app_assoc.
  rewrite (rbind_step _ _ _ a _ (read_usize_write_usize a _ H1)).
  rewrite (rbind_step _ _ _ b _ (read_usize_write_usize b _ H2)).
  rewrite (rbind_step _ _ _ c _ (read_usize_write_usize c _ H3)).
  rewrite (rbind_step _ _ _ d _ (read_usize_write_usize d _ H4)).
  rewrite (rbind_step _ _ _ e _ (read_usize_write_usize e _ H5)).
  rewrite (rbind_step _ _ _ f _ (read_usize_write_usize f _ H6)).
  rewrite (rbind_step _ _ _ g _ (read_bool_write_bool g _)).
  rewrite (rbind_step _ _ _ h _ (read_bool_write_bool h _)).
  rewrite (rbind_step _ _ _ i _ (read_fri_config_write i _ H7)). reflexivity.
Qed.

(* ------------------------------------------------------------------ VerifierOnlyCircuitData *)
Lemma concat_map_length_in {A} (w : A -> list Z) k l :
  Forall (fun x => length (w x) = k) l -> length (concat (map w l)) = (length l * k)%nat.
Proof. induction 1 as [|x t Hx _ IH]; cbn [map concat length]; [reflexivity|]. rewrite app_length, Hx, IH. lia. Qed.

Lemma log2_strict_pow k : log2_strict (2 ^ k) = Some k.
Proof. unfold log2_strict. rewrite Nat.log2_pow2 by lia. rewrite Nat.eqb_refl. reflexivity. Qed.

Lemma log2_strict_inv n k : log2_strict n = Some k -> n = (2 ^ k)%nat.
Proof.
  unfold log2_strict. destruct (Nat.eqb_spec (2 ^ Nat.log2 n) n) as [E|]; [|discriminate].
  intros E'. inversion E'. subst. symmetry. exact E.
Qed.

Definition wf_verifier_only (v : VerifierOnly) : Prop :=
  (exists k, (k < 64)%nat /\ wf_cap k (vo_cap v)) /\ wf_hash (vo_digest v).

Lemma read_verifier_only_write v bs rest : wf_verifier_only v -> write_verifier_only v = Some bs ->
  read_verifier_only (bs ++ rest) = Some (v, rest).
Proof.
  intros [(k & Hk & Hl & Hc) Hd] E. destruct v as [c d]. cbn [vo_cap vo_digest] in *.
  unfold write_verifier_only in E. cbn [vo_cap vo_digest] in E. rewrite Hl, log2_strict_pow in E.
  assert (Ebs : bs = write_usize (Z.of_nat k) ++ write_merkle_cap c ++ write_hash d) by congruence.
  subst bs. clear E. unfold read_verifier_only. rewrite <- !app_assoc.
  rewrite (rbind_step _ _ _ (Z.of_nat k) (write_merkle_cap c ++ write_hash d ++ rest))
    by (apply read_usize_write_usize; unfold u64; lia).
  rewrite Z.mod_small by lia.
  assert (E2 : Z.to_nat (2 ^ Z.of_nat k) = length c).
  { rewrite Hl. rewrite <- (Nat2Z.id (2 ^ k)). f_equal. rewrite Nat2Z.inj_pow. reflexivity. }
  rewrite (rbind_step _ _ _ c (write_hash d ++ rest)).
  { rewrite (rbind_step _ _ _ d rest) by (apply read_hash_write_hash; exact Hd). reflexivity. }
  rewrite read_counted_ok.
  - rewrite E2. unfold write_merkle_cap.
    apply (rd_n_concat write_hash read_hash wf_hash); [|exact Hc]. intros x r. apply read_hash_write_hash.
  - rewrite !app_length. unfold write_merkle_cap.
    rewrite (concat_map_length_in write_hash 32).
    + assert (E3 : Z.of_nat (length c) = 2 ^ Z.of_nat k)
        by (rewrite <- E2; apply Z2Nat.id; apply Z.pow_nonneg; lia).
      lia.
    + eapply Forall_impl; [|exact Hc]. intros x [Hx _]. apply write_hash_length. exact Hx.
Qed.

(* the writer panics (log2_strict) unless the cap length is a power of two *)
Lemma write_verifier_only_panics v : (forall k, length (vo_cap v) <> (2 ^ k)%nat) -> write_verifier_only v = None.
Proof.
  intros H. unfold write_verifier_only. destruct (log2_strict (length (vo_cap v))) as [k|] eqn:E; [|reflexivity].
  apply log2_strict_inv in E. exfalso. exact (H k E).
Qed.

(* ------------------------------------------------------------------ opening set *)
Definition wf_ext_vec (n : nat) (v : list Ext) : Prop := length v = n /\ Forall wf_ext v.

Lemma read_ext_vec_write_n n v rest : wf_ext_vec n v ->
  read_ext_vec n (write_ext_vec v ++ rest) = Some (v, rest).
Proof. intros [<- Hv]. apply read_ext_vec_write. exact Hv. Qed.

Definition wf_openings (sh : Shape) (o : OpeningSet) : Prop :=
  let nc := sh_num_challenges sh in
  wf_ext_vec (sh_num_constants sh) (os_constants o) /\
  wf_ext_vec (sh_num_routed_wires sh) (os_plonk_sigmas o) /\
  wf_ext_vec (sh_num_wires sh) (os_wires o) /\
  wf_ext_vec nc (os_plonk_zs o) /\
  wf_ext_vec nc (os_plonk_zs_next o) /\
  wf_ext_vec (nc * sh_num_lookup_polys sh) (os_lookup_zs o) /\
  wf_ext_vec (nc * sh_num_lookup_polys sh) (os_lookup_zs_next o) /\
  wf_ext_vec (sh_num_partial_products sh * nc) (os_partial_products o) /\
  wf_ext_vec (sh_quotient_degree_factor sh * nc) (os_quotient_polys o).

Lemma read_opening_set_write sh o rest : wf_openings sh o ->
  read_opening_set sh (write_opening_set o ++ rest) = Some (o, rest).
Proof.
  intros (H1 & H2 & H3 & H4 & H5 & H6 & H7 & H8 & H9). destruct o as [a b c d e f g h i].
  cbn [os_constants os_plonk_sigmas os_wires os_plonk_zs os_plonk_zs_next os_partial_products
       os_quotient_polys os_lookup_zs os_lookup_zs_next] in *.
  unfold read_opening_set, write_opening_set.
  cbn [os_constants os_plonk_sigmas os_wires os_plonk_zs os_plonk_zs_next os_partial_products
       os_quotient_polys os_lookup_zs os_lookup_zs_next].
  rewrite <- !app_assoc.
  rewrite (rbind_step _ _ _ a _ (read_ext_vec_write_n _ a _ H1)).
  rewrite (rbind_step _ _ _ b _ (read_ext_vec_write_n _ b _ H2)).
  rewrite (rbind_step _ _ _ c _ (read_ext_vec_write_n _ c _ H3)).
  rewrite (rbind_step _ _ _ d _ (read_ext_vec_write_n _ d _ H4)).
  rewrite (rbind_step _ _ _ e _ (read_ext_vec_write_n _ e _ H5)).
  rewrite (rbind_step _ _ _ h _ (read_ext_vec_write_n _ h _ H6)).
  rewrite (rbind_step _ _ _ i _ (read_ext_vec_write_n _ i _ H7)).
  rewrite (rbind_step _ _ _ f _ (read_ext_vec_write_n _ f _ H8)).
  rewrite (rbind_step _ _ _ g _ (read_ext_vec_write_n _ g _ H9)). reflexivity.
Qed.

(* ------------------------------------------------------------------ FRI proof *)
Definition wf_eval_proof (n : nat) (vp : list Z * MerkleProof) : Prop :=
  length (fst vp) = n /\ Forall fcanon (fst vp) /\ wf_merkle_proof (snd vp).

Lemma read_eval_proof_write n vp bs rest : wf_eval_proof n vp -> write_eval_proof vp = Some bs ->
  read_eval_proof n (bs ++ rest) = Some (vp, rest).
Proof.
  intros (Hl & Hv & Hp) E. destruct vp as [v p]. cbn [fst snd] in *. unfold write_eval_proof in E. cbn [fst snd] in E.
  apply wapp_inv in E. destruct E as (x & y & Ex & Ey & ->). inversion Ex. subst x. clear Ex.
  unfold read_eval_proof. rewrite <- app_assoc. subst n.
  rewrite (rbind_step _ _ _ v (y ++ rest)) by (apply read_field_vec_write; exact Hv).
  rewrite (rbind_step _ _ _ p rest) by (apply read_merkle_proof_write; assumption). reflexivity.
Qed.

Definition wf_initial (sh : Shape) (p : InitialTreeProof) : Prop :=
  Forall2 wf_eval_proof (initial_lengths sh) p.

Lemma read_fri_initial_proof_write sh p bs rest : wf_initial sh p -> write_fri_initial_proof p = Some bs ->
  read_fri_initial_proof sh (bs ++ rest) = Some (p, rest).
Proof.
  intros H E. unfold read_fri_initial_proof.
  apply (read_each_wconcat write_eval_proof read_eval_proof wf_eval_proof); [|exact H|exact E].
  intros n x b r. apply read_eval_proof_write.
Qed.

Definition wf_step (arity_bits : nat) (s : FriQueryStep) : Prop :=
  wf_ext_vec (2 ^ arity_bits) (qs_evals s) /\ wf_merkle_proof (qs_proof s).

Lemma read_fri_query_step_write ab s bs rest : wf_step ab s -> write_fri_query_step s = Some bs ->
  read_fri_query_step ab (bs ++ rest) = Some (s, rest).
Proof.
  intros [He Hp] E. destruct s as [e p]. cbn [qs_evals qs_proof] in *. unfold write_fri_query_step in E.
  cbn [qs_evals qs_proof] in E. apply wapp_inv in E. destruct E as (x & y & Ex & Ey & ->). inversion Ex. subst x. clear Ex.
  unfold read_fri_query_step. rewrite <- app_assoc.
  rewrite (rbind_step _ _ _ e (y ++ rest)) by (apply read_ext_vec_write_n; exact He).
  rewrite (rbind_step _ _ _ p rest) by (apply read_merkle_proof_write; assumption). reflexivity.
Qed.

Definition wf_round (sh : Shape) (q : FriQueryRound) : Prop :=
  wf_initial sh (qr_initial q) /\ Forall2 wf_step (sh_arity_bits sh) (qr_steps q).

Lemma read_fri_query_round_write sh q bs rest : wf_round sh q -> write_fri_query_round q = Some bs ->
  read_fri_query_round sh (bs ++ rest) = Some (q, rest).
Proof.
  intros [Hi Hs] E. destruct q as [i s]. cbn [qr_initial qr_steps] in *. unfold write_fri_query_round in E.
  cbn [qr_initial qr_steps] in E. apply wapp_inv in E. destruct E as (x & y & Ex & Ey & ->).
  unfold read_fri_query_round. rewrite <- app_assoc.
  rewrite (rbind_step _ _ _ i (y ++ rest)) by (apply read_fri_initial_proof_write; assumption).
  rewrite (rbind_step _ _ _ s rest).
  - reflexivity.
  - apply (read_each_wconcat write_fri_query_step read_fri_query_step wf_step); [|exact Hs|exact Ey].
    intros n st b r. apply read_fri_query_step_write.
Qed.

Definition wf_fri_proof (sh : Shape) (p : FriProof) : Prop :=
  length (fr_commit_phase_merkle_caps p) = length (sh_arity_bits sh) /\
  Forall (wf_cap (sh_cap_height sh)) (fr_commit_phase_merkle_caps p) /\
  length (fr_query_round_proofs p) = sh_num_query_rounds sh /\
  Forall (wf_round sh) (fr_query_round_proofs p) /\
  wf_ext_vec (sh_final_poly_len sh) (fr_final_poly p) /\
  fcanon (fr_pow_witness p).

Lemma read_fri_proof_write sh p bs rest : wf_fri_proof sh p -> write_fri_proof p = Some bs ->
  read_fri_proof sh (bs ++ rest) = Some (p, rest).
Proof.
  intros (H1 & H2 & H3 & H4 & H5 & H6) E. destruct p as [caps rounds fin pow].
  cbn [fr_commit_phase_merkle_caps fr_query_round_proofs fr_final_poly fr_pow_witness] in *.
  unfold write_fri_proof in E. cbn [fr_commit_phase_merkle_caps fr_query_round_proofs fr_final_poly fr_pow_witness] in E.
  apply wapp_inv in E. destruct E as (x & y & Ex & Ey & ->). inversion Ex. subst x. clear Ex.
  apply wapp_inv in Ey. destruct Ey as (y1 & y2 & Ey1 & Ey2 & ->). inversion Ey2. subst y2. clear Ey2.
  unfold read_fri_proof. rewrite <- !app_assoc.
  rewrite <- H1, <- H3.
  rewrite (rbind_step _ _ _ caps (y1 ++ write_ext_vec fin ++ write_field pow ++ rest)).
  2:{ apply (rd_n_concat write_merkle_cap (read_merkle_cap (sh_cap_height sh)) (wf_cap (sh_cap_height sh))); [|exact H2].
      intros c r. apply read_merkle_cap_write. }
  rewrite (rbind_step _ _ _ rounds (write_ext_vec fin ++ write_field pow ++ rest)).
  2:{ apply (rd_n_wconcat write_fri_query_round (read_fri_query_round sh) (wf_round sh)); [|exact H4|exact Ey1].
      intros q b r. apply read_fri_query_round_write. }
  rewrite (rbind_step _ _ _ fin (write_field pow ++ rest)) by (apply read_ext_vec_write_n; exact H5).
  rewrite (rbind_step _ _ _ pow rest) by (apply read_field_write_field; exact H6). reflexivity.
Qed.

(* ------------------------------------------------------------------ Proof, ProofWithPublicInputs *)
Definition wf_proof (sh : Shape) (p : Proof) : Prop :=
  wf_cap (sh_cap_height sh) (pr_wires_cap p) /\ wf_cap (sh_cap_height sh) (pr_zs_partial_products_cap p) /\
  wf_cap (sh_cap_height sh) (pr_quotient_polys_cap p) /\ wf_openings sh (pr_openings p) /\
  wf_fri_proof sh (pr_opening_proof p).

Lemma read_proof_write sh p bs rest : wf_proof sh p -> write_proof p = Some bs ->
  read_proof sh (bs ++ rest) = Some (p, rest).
Proof.
  intros (H1 & H2 & H3 & H4 & H5) E. destruct p as [a b c o f].
  cbn [pr_wires_cap pr_zs_partial_products_cap pr_quotient_polys_cap pr_openings pr_opening_proof] in *.
  unfold write_proof in E. cbn [pr_wires_cap pr_zs_partial_products_cap pr_quotient_polys_cap pr_openings pr_opening_proof] in E.
  apply wapp_inv in E. destruct E as (x & y & Ex & Ey & ->). inversion Ex. subst x. clear Ex.
  unfold read_proof. rewrite <- !app_assoc.
  rewrite (rbind_step _ _ _ a _ (read_merkle_cap_write _ a _ H1)).
  rewrite (rbind_step _ _ _ b _ (read_merkle_cap_write _ b _ H2)).
  rewrite (rbind_step _ _ _ c _ (read_merkle_cap_write _ c _ H3)).
  rewrite (rbind_step _ _ _ o _ (read_opening_set_write sh o _ H4)).
  rewrite (rbind_step _ _ _ f rest) by (apply read_fri_proof_write; assumption). reflexivity.
Qed.

Definition wf_pwpi (sh : Shape) (p : ProofWithPublicInputs) : Prop :=
  wf_proof sh (pw_proof p) /\ Forall fcanon (pw_public_inputs p) /\ u64 (Z.of_nat (length (pw_public_inputs p))).

Theorem read_pwpi_write sh p bs rest : wf_pwpi sh p -> write_proof_with_public_inputs p = Some bs ->
  read_proof_with_public_inputs sh (bs ++ rest) = Some (p, rest).
Proof.
  intros (H1 & H2 & H3) E. destruct p as [pr pis]. cbn [pw_proof pw_public_inputs] in *.
  unfold write_proof_with_public_inputs in E. cbn [pw_proof pw_public_inputs] in E.
  apply wapp_inv in E. destruct E as (x & y & Ex & Ey & ->).
  assert (Ey' : y = write_usize (Z.of_nat (length pis)) ++ write_field_vec pis) by congruence. subst y. clear Ey.
  unfold read_proof_with_public_inputs. rewrite <- !app_assoc.
  rewrite (rbind_step _ _ _ pr _ (read_proof_write sh pr x _ H1 Ex)).
  rewrite (rbind_step _ _ _ (Z.of_nat (length pis)) _ (read_usize_write_usize _ _ H3)).
  rewrite (rbind_step _ _ _ pis rest); [reflexivity|].
  rewrite read_counted_ok.
  - rewrite Nat2Z.id. apply read_field_vec_write. exact H2.
  - rewrite app_length. unfold write_field_vec.
    rewrite (concat_map_length write_field 8) by apply write_field_length. lia.
Qed.

(* from_bytes does not look at what follows the encoding *)
Corollary proof_from_bytes_to_bytes sh p bs junk : wf_pwpi sh p -> write_proof_with_public_inputs p = Some bs ->
  proof_from_bytes sh (bs ++ junk) = Some p.
Proof. intros H E. unfold proof_from_bytes. rewrite (read_pwpi_write sh p bs junk H E). reflexivity. Qed.

(* ------------------------------------------------------------------ the writers do not panic under the guard *)
Lemma write_merkle_proof_ok p : wf_merkle_proof p -> exists bs, write_merkle_proof p = Some bs.
Proof. intros [H _]. rewrite write_merkle_proof_some by exact H. eauto. Qed.

Lemma write_eval_proof_ok n vp : wf_eval_proof n vp -> exists bs, write_eval_proof vp = Some bs.
Proof. intros (_ & _ & H). unfold write_eval_proof. destruct (write_merkle_proof_ok _ H) as [b ->]. cbn. eauto. Qed.

Lemma Forall2_exists_r {A B} (Q : A -> B -> Prop) (T : B -> Prop) l1 l2 :
  (forall a b, Q a b -> T b) -> Forall2 Q l1 l2 -> Forall T l2.
Proof. intros H. induction 1; constructor; eauto. Qed.

Lemma write_fri_initial_proof_ok sh p : wf_initial sh p -> exists bs, write_fri_initial_proof p = Some bs.
Proof. intros H. apply wconcat_some. eapply Forall2_exists_r; [|exact H]. intros n vp. apply write_eval_proof_ok. Qed.

Lemma write_fri_query_step_ok ab s : wf_step ab s -> exists bs, write_fri_query_step s = Some bs.
Proof. intros [_ H]. unfold write_fri_query_step. destruct (write_merkle_proof_ok _ H) as [b ->]. cbn. eauto. Qed.

Lemma write_fri_query_round_ok sh q : wf_round sh q -> exists bs, write_fri_query_round q = Some bs.
Proof.
  intros [Hi Hs]. unfold write_fri_query_round. destruct (write_fri_initial_proof_ok _ _ Hi) as [b ->].
  assert (Hw : exists bs, wconcat write_fri_query_step (qr_steps q) = Some bs).
  { apply wconcat_some. eapply Forall2_exists_r; [|exact Hs]. intros n s. apply write_fri_query_step_ok. }
  destruct Hw as [b2 ->]. cbn. eauto.
Qed.

Lemma write_fri_proof_ok sh p : wf_fri_proof sh p -> exists bs, write_fri_proof p = Some bs.
Proof.
  intros (_ & _ & _ & H & _). unfold write_fri_proof.
  assert (Hw : exists bs, wconcat write_fri_query_round (fr_query_round_proofs p) = Some bs).
  { apply wconcat_some. eapply Forall_impl; [|exact H]. intros q. apply write_fri_query_round_ok. }
  destruct Hw as [b ->]. cbn. eauto.
Qed.

Theorem write_pwpi_ok sh p : wf_pwpi sh p -> exists bs, write_proof_with_public_inputs p = Some bs.
Proof.
  intros ((_ & _ & _ & _ & H) & _). unfold write_proof_with_public_inputs, write_proof.
  destruct (write_fri_proof_ok _ _ H) as [b ->]. cbn. eauto.
Qed.

(* the complete statement: well-formed proofs are written without panic, and what was written reads
   back to the same value, consuming exactly the written bytes *)
Theorem pwpi_roundtrip sh p : wf_pwpi sh p ->
  exists bs, write_proof_with_public_inputs p = Some bs /\
    forall rest, read_proof_with_public_inputs sh (bs ++ rest) = Some (p, rest).
Proof.
  intros H. destruct (write_pwpi_ok sh p H) as [bs E]. exists bs. split; [exact E|].
  intros rest. apply read_pwpi_write; assumption.
Qed.

(* a single over-long Merkle path anywhere in the query steps makes the whole proof unwritable *)
Lemma wapp_none_r a : wapp a None = None.
Proof. destruct a; reflexivity. Qed.
Lemma wapp_none_l b : wapp None b = None.
Proof. reflexivity. Qed.

Theorem write_pwpi_panics_on_long_path p q s :
  In q (fr_query_round_proofs (pr_opening_proof (pw_proof p))) -> In s (qr_steps q) ->
  (255 < length (qs_proof s))%nat -> write_proof_with_public_inputs p = None.
Proof.
  intros Hq Hs Hl. unfold write_proof_with_public_inputs, write_proof, write_fri_proof.
  assert (E1 : write_fri_query_step s = None).
  { unfold write_fri_query_step. rewrite write_merkle_proof_too_long by exact Hl. reflexivity. }
  assert (E2 : write_fri_query_round q = None).
  { unfold write_fri_query_round. rewrite (wconcat_none _ _ s Hs E1). apply wapp_none_r. }
  rewrite (wconcat_none _ _ q Hq E2). cbn [wapp]. reflexivity.
Qed.

(* ------------------------------------------------------------------ readers only consume a prefix *)
Definition prefix_reader {A} (r : R A) : Prop :=
  forall s x rest, r s = Some (x, rest) -> exists c, s = c ++ rest.

Lemma prefix_rret {A} (a : A) : prefix_reader (rret a).
Proof. intros s x rest E. inversion E. exists []. reflexivity. Qed.
Lemma prefix_rfail {A} : prefix_reader (@rfail A).
Proof. intros s x rest E. discriminate. Qed.
Lemma prefix_rbind {A B} (m : R A) (k : A -> R B) :
  prefix_reader m -> (forall a, prefix_reader (k a)) -> prefix_reader (rbind m k).
Proof.
  intros Hm Hk s x rest E. apply rbind_inv in E. destruct E as (a & s' & E1 & E2).
  destruct (Hm _ _ _ E1) as [c1 ->]. destruct (Hk a _ _ _ E2) as [c2 ->].
  exists (c1 ++ c2). rewrite app_assoc. reflexivity.
Qed.
Lemma prefix_read_exact n : prefix_reader (read_exact n).
Proof. intros s x rest E. apply read_exact_inv in E. destruct E as [-> _]. eauto. Qed.
Lemma prefix_rd_n {A} (r : R A) n : prefix_reader r -> prefix_reader (rd_n n r).
Proof.
  intros Hr. induction n as [|n IH]; cbn [rd_n]; [apply prefix_rret|].
  apply prefix_rbind; [exact Hr|]. intros a. apply prefix_rbind; [exact IH|]. intros b. apply prefix_rret.
Qed.
Lemma prefix_read_each {A} (r : nat -> R A) ns : (forall n, prefix_reader (r n)) -> prefix_reader (read_each r ns).
Proof.
  intros Hr. induction ns as [|n t IH]; cbn [read_each]; [apply prefix_rret|].
  apply prefix_rbind; [apply Hr|]. intros a. apply prefix_rbind; [exact IH|]. intros b. apply prefix_rret.
Qed.
Lemma prefix_read_counted {A} n k (r : R A) : prefix_reader r -> prefix_reader (read_counted n k r).
Proof.
  intros Hr s x rest E. unfold read_counted in E. destruct (_ <? _); [discriminate|].
  eapply (prefix_rd_n r (Z.to_nat n) Hr). exact E.
Qed.

Ltac prefix_tac :=
  repeat first
    [ apply prefix_rret | apply prefix_rfail | apply prefix_read_exact
    | apply prefix_rbind; [|intros ?] | apply prefix_rd_n | apply prefix_read_counted
    | apply prefix_read_each; intros ? ].

Lemma prefix_read_field : prefix_reader read_field. Proof. unfold read_field. prefix_tac. Qed.
Lemma prefix_read_u8 : prefix_reader read_u8. Proof. unfold read_u8. prefix_tac. Qed.
Lemma prefix_read_usize : prefix_reader read_usize. Proof. unfold read_usize. prefix_tac. Qed.
Lemma prefix_read_ext : prefix_reader read_ext.
Proof. unfold read_ext. apply prefix_rbind; [apply prefix_read_field|intros a].
  apply prefix_rbind; [apply prefix_read_field|intros b]. apply prefix_rret. Qed.
Lemma prefix_read_hash : prefix_reader read_hash. Proof. unfold read_hash. prefix_tac. Qed.
Lemma prefix_read_merkle_cap h : prefix_reader (read_merkle_cap h).
Proof. unfold read_merkle_cap. apply prefix_rd_n, prefix_read_hash. Qed.
Lemma prefix_read_merkle_proof : prefix_reader read_merkle_proof.
Proof. unfold read_merkle_proof. apply prefix_rbind; [apply prefix_read_u8|intros n]. apply prefix_rd_n, prefix_read_hash. Qed.
Lemma prefix_read_ext_vec n : prefix_reader (read_ext_vec n).
Proof. apply prefix_rd_n, prefix_read_ext. Qed.
Lemma prefix_read_field_vec n : prefix_reader (read_field_vec n).
Proof. apply prefix_rd_n, prefix_read_field. Qed.
Lemma prefix_read_opening_set sh : prefix_reader (read_opening_set sh).
Proof. unfold read_opening_set. repeat (apply prefix_rbind; [apply prefix_read_ext_vec|intros ?]). apply prefix_rret. Qed.
Lemma prefix_read_eval_proof n : prefix_reader (read_eval_proof n).
Proof. unfold read_eval_proof. apply prefix_rbind; [apply prefix_read_field_vec|intros v].
  apply prefix_rbind; [apply prefix_read_merkle_proof|intros p]. apply prefix_rret. Qed.
Lemma prefix_read_fri_query_step a : prefix_reader (read_fri_query_step a).
Proof. unfold read_fri_query_step. apply prefix_rbind; [apply prefix_read_ext_vec|intros v].
  apply prefix_rbind; [apply prefix_read_merkle_proof|intros p]. apply prefix_rret. Qed.
Lemma prefix_read_fri_query_round sh : prefix_reader (read_fri_query_round sh).
Proof. unfold read_fri_query_round, read_fri_initial_proof.
  apply prefix_rbind; [apply prefix_read_each; intros n; apply prefix_read_eval_proof|intros i].
  apply prefix_rbind; [apply prefix_read_each; intros n; apply prefix_read_fri_query_step|intros s]. apply prefix_rret. Qed.
Lemma prefix_read_fri_proof sh : prefix_reader (read_fri_proof sh).
Proof. unfold read_fri_proof.
  apply prefix_rbind; [apply prefix_rd_n, prefix_read_merkle_cap|intros a].
  apply prefix_rbind; [apply prefix_rd_n, prefix_read_fri_query_round|intros b].
  apply prefix_rbind; [apply prefix_read_ext_vec|intros c].
  apply prefix_rbind; [apply prefix_read_field|intros d]. apply prefix_rret. Qed.
Lemma prefix_read_proof sh : prefix_reader (read_proof sh).
Proof. unfold read_proof.
  do 3 (apply prefix_rbind; [apply prefix_read_merkle_cap|intros ?]).
  apply prefix_rbind; [apply prefix_read_opening_set|intros o].
  apply prefix_rbind; [apply prefix_read_fri_proof|intros f]. apply prefix_rret. Qed.
Theorem prefix_read_pwpi sh : prefix_reader (read_proof_with_public_inputs sh).
Proof. unfold read_proof_with_public_inputs.
  apply prefix_rbind; [apply prefix_read_proof|intros p].
  apply prefix_rbind; [apply prefix_read_usize|intros n].
  apply prefix_rbind; [apply prefix_read_counted, prefix_read_field|intros v]. apply prefix_rret. Qed.
