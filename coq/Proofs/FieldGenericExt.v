(* The extension fields F[X]/(X^D - W), D in {2,4,5}, of Model/FieldGeneric.v over an abstract
   base field: commutative-ring laws of ext_mul / ext_add, the specialised squarings, the
   Frobenius-like twist a_i -> a_i z^i (a ring homomorphism exactly because z^D = 1), and
   correctness of the three try_inverse chains.  No axioms. *)
From Coq Require Import ZArith List Lia Arith Ring Field.
From Verif Require Import Base.Field Model.FieldGeneric Proofs.FieldGeneric.
Import ListNotations.

Section ExtProofs.
  Context {F : Type} `{FL : FieldLaws F}.
  Add Field Ffe : (@F_field_theory F _ FL).
  Local Open Scope field_scope.

  (* the supported degrees *)
  Definition okD (D : nat) : Prop := D = 2%nat \/ D = 4%nat \/ D = 5%nat.

  Lemma len2 (a : list F) : length a = 2%nat -> exists a0 a1, a = [a0; a1].
  Proof. destruct a as [|a0 [|a1 [|? ?]]]; try discriminate. eauto. Qed.
  Lemma len4 (a : list F) : length a = 4%nat -> exists a0 a1 a2 a3, a = [a0; a1; a2; a3].
  Proof. destruct a as [|a0 [|a1 [|a2 [|a3 [|? ?]]]]]; try discriminate. eauto 6. Qed.
  Lemma len5 (a : list F) : length a = 5%nat -> exists a0 a1 a2 a3 a4, a = [a0; a1; a2; a3; a4].
  Proof. destruct a as [|a0 [|a1 [|a2 [|a3 [|a4 [|? ?]]]]]]; try discriminate. eauto 7. Qed.

  (* a_i -> a_i * z^i *)
  Definition ext_twist (D : nat) (z : F) (a : ext) : ext :=
    map (fun p => fst p * snd p) (combine a (powers z D)).

  Ltac ext_cbv :=
    cbv [ext_twist ext_mul ext_mul_coeff ext_add ext_sub ext_neg ext_zero ext_of_base
         ext_scalar_mul ext2_square ext4_square ext5_square fsquare fdouble
         powers powers_from combine repeat seq map fsum fold_right nthF nth
         Nat.sub Nat.add fst snd fpow length].
  Ltac ext_cbv_in Hyp :=
    cbv [ext_twist ext_mul ext_mul_coeff ext_add ext_sub ext_neg ext_zero ext_of_base
         ext_scalar_mul ext2_square ext4_square ext5_square fsquare fdouble
         powers powers_from combine repeat seq map fsum fold_right nthF nth
         Nat.sub Nat.add fst snd fpow length] in Hyp.

  (* destruct every list with a known length 2/4/5 into its coefficients *)
  Ltac split_lists :=
    repeat match goal with
    | Hl : length ?a = 2%nat |- _ =>
        let a0 := fresh a "0" in let a1 := fresh a "1" in
        destruct (len2 a Hl) as (a0 & a1 & ->); clear Hl
    | Hl : length ?a = 4%nat |- _ =>
        let a0 := fresh a "0" in let a1 := fresh a "1" in
        let a2 := fresh a "2" in let a3 := fresh a "3" in
        destruct (len4 a Hl) as (a0 & a1 & a2 & a3 & ->); clear Hl
    | Hl : length ?a = 5%nat |- _ =>
        let a0 := fresh a "0" in let a1 := fresh a "1" in
        let a2 := fresh a "2" in let a3 := fresh a "3" in let a4 := fresh a "4" in
        destruct (len5 a Hl) as (a0 & a1 & a2 & a3 & a4 & ->); clear Hl
    end.

  Ltac coeffs tac := ext_cbv; repeat (apply f_equal2; [tac|]); try reflexivity.
  Ltac by_coeffs := intros; split_lists; coeffs ltac:(ring).
  Ltac for_okD HD := destruct HD as [-> | [-> | ->]].

  (* ------------------------------------------------------------------ *)
  (* 3. ring laws *)

  Lemma ext_mul_length D W a b : length (ext_mul D W a b) = D.
  Proof. unfold ext_mul. rewrite map_length, seq_length. reflexivity. Qed.

  Lemma ext_add_length D a b : length a = D -> length b = D -> length (ext_add a b) = D.
  Proof. intros Ha Hb. unfold ext_add. rewrite map_length, combine_length, Ha, Hb. apply Nat.min_id. Qed.

  Lemma ext_sub_length D a b : length a = D -> length b = D -> length (ext_sub a b) = D.
  Proof. intros Ha Hb. unfold ext_sub. rewrite map_length, combine_length, Ha, Hb. apply Nat.min_id. Qed.

  Lemma ext_neg_length D a : length a = D -> length (ext_neg a) = D.
  Proof. intros Ha. unfold ext_neg. rewrite map_length. exact Ha. Qed.

  Lemma ext_scalar_mul_length D a s : length a = D -> length (ext_scalar_mul a s) = D.
  Proof. intros Ha. unfold ext_scalar_mul. rewrite map_length. exact Ha. Qed.

  Lemma ext_of_base_length D x : (1 <= D)%nat -> length (ext_of_base D x) = D.
  Proof. intros HD. unfold ext_of_base. cbn [length]. rewrite repeat_length. lia. Qed.

  Lemma ext_zero_length D : length (@ext_zero F _ D) = D.
  Proof. apply repeat_length. Qed.

  Lemma okD_pos D : okD D -> (1 <= D)%nat.
  Proof. intros [-> | [-> | ->]]; lia. Qed.

  Theorem ext_mul_comm D W a b : okD D -> length a = D -> length b = D ->
    ext_mul D W a b = ext_mul D W b a.
  Proof. intros HD; for_okD HD; by_coeffs. Qed.

  Theorem ext_mul_assoc D W a b c : okD D -> length a = D -> length b = D -> length c = D ->
    ext_mul D W a (ext_mul D W b c) = ext_mul D W (ext_mul D W a b) c.
  Proof. intros HD; for_okD HD; by_coeffs. Qed.

  Theorem ext_mul_add_distr_r D W a b c : okD D -> length a = D -> length b = D -> length c = D ->
    ext_mul D W (ext_add a b) c = ext_add (ext_mul D W a c) (ext_mul D W b c).
  Proof. intros HD; for_okD HD; by_coeffs. Qed.

  Theorem ext_mul_add_distr_l D W a b c : okD D -> length a = D -> length b = D -> length c = D ->
    ext_mul D W a (ext_add b c) = ext_add (ext_mul D W a b) (ext_mul D W a c).
  Proof. intros HD; for_okD HD; by_coeffs. Qed.

  Theorem ext_mul_1_l D W a : okD D -> length a = D ->
    ext_mul D W (ext_of_base D 1) a = a.
  Proof. intros HD; for_okD HD; by_coeffs. Qed.

  Theorem ext_mul_1_r D W a : okD D -> length a = D ->
    ext_mul D W a (ext_of_base D 1) = a.
  Proof. intros HD; for_okD HD; by_coeffs. Qed.

  Theorem ext_add_comm D a b : okD D -> length a = D -> length b = D ->
    ext_add a b = ext_add b a.
  Proof. intros HD; for_okD HD; by_coeffs. Qed.

  Theorem ext_add_assoc D a b c : okD D -> length a = D -> length b = D -> length c = D ->
    ext_add a (ext_add b c) = ext_add (ext_add a b) c.
  Proof. intros HD; for_okD HD; by_coeffs. Qed.

  Theorem ext_add_0_l D a : okD D -> length a = D -> ext_add (ext_zero D) a = a.
  Proof. intros HD; for_okD HD; by_coeffs. Qed.

  Theorem ext_add_neg_r D a : okD D -> length a = D -> ext_add a (ext_neg a) = ext_zero D.
  Proof. intros HD; for_okD HD; by_coeffs. Qed.

  Theorem ext_sub_def D a b : okD D -> length a = D -> length b = D ->
    ext_sub a b = ext_add a (ext_neg b).
  Proof. intros HD; for_okD HD; by_coeffs. Qed.

  (* the base field embeds as a subring, and scalar multiplication is multiplication by it *)
  Theorem ext_of_base_mul D W x y : okD D ->
    ext_mul D W (ext_of_base D x) (ext_of_base D y) = ext_of_base D (x * y).
  Proof. intros HD; for_okD HD; by_coeffs. Qed.

  Theorem ext_of_base_add D x y : okD D ->
    ext_add (ext_of_base D x) (ext_of_base D y) = ext_of_base D (x + y).
  Proof. intros HD; for_okD HD; by_coeffs. Qed.

  Theorem ext_scalar_mul_eq D W a s : okD D -> length a = D ->
    ext_scalar_mul a s = ext_mul D W a (ext_of_base D s).
  Proof. intros HD; for_okD HD; by_coeffs. Qed.

  Lemma ext_mul_scalar_r D W a b s : okD D -> length a = D -> length b = D ->
    ext_mul D W a (ext_scalar_mul b s) = ext_scalar_mul (ext_mul D W a b) s.
  Proof. intros HD; for_okD HD; by_coeffs. Qed.

  Lemma ext_scalar_of_base D x s : okD D ->
    ext_scalar_mul (ext_of_base D x) s = ext_of_base D (x * s).
  Proof. intros HD; for_okD HD; by_coeffs. Qed.

  (* the three specialised Square impls *)
  Theorem ext2_square_eq_mul W a : length a = 2%nat -> ext2_square W a = ext_mul 2 W a a.
  Proof. by_coeffs. Qed.
  Theorem ext4_square_eq_mul W a : length a = 4%nat -> ext4_square W a = ext_mul 4 W a a.
  Proof. by_coeffs. Qed.
  Theorem ext5_square_eq_mul W a : length a = 5%nat -> ext5_square W a = ext_mul 5 W a a.
  Proof. by_coeffs. Qed.

  (* ------------------------------------------------------------------ *)
  (* 4. the twist a_i -> a_i z^i and repeated_frobenius *)

  Lemma ext_twist_length D z a : length a = D -> length (ext_twist D z a) = D.
  Proof.
    intros Ha. unfold ext_twist. rewrite map_length, combine_length, Ha.
    rewrite (proj1 (powers_correct z D)). apply Nat.min_id.
  Qed.

  (* multiplicative exactly because z^D = 1 (X^D = W must be preserved) *)
  Lemma ext_twist_mul D W z a b : okD D -> fpow z D = 1 -> length a = D -> length b = D ->
    ext_twist D z (ext_mul D W a b) = ext_mul D W (ext_twist D z a) (ext_twist D z b).
  Proof.
    intros HD; for_okD HD; intros Hz; cbv [fpow] in Hz; intros; split_lists;
      coeffs ltac:(ring [Hz]).
  Qed.

  (* ... and the condition is necessary when W <> 0: X * X^(D-1) = W is mapped to z^D * W *)
  Lemma ext_twist_mul_iff D W z : okD D -> W <> 0 ->
    ((forall a b, length a = D -> length b = D ->
       ext_twist D z (ext_mul D W a b) = ext_mul D W (ext_twist D z a) (ext_twist D z b))
     <-> fpow z D = 1).
  Proof.
    intros HD HW. split; [|intros; apply ext_twist_mul; assumption].
    intros Hm. apply (f_mul_cancel_l W); [exact HW|].
    for_okD HD.
    - specialize (Hm [0; 1] [0; 1] eq_refl eq_refl). ext_cbv_in Hm. injection Hm as E0 _. cbv [fpow].
      match type of E0 with ?l = ?r => transitivity r; [ring | rewrite <- E0; ring] end.
    - specialize (Hm [0; 1; 0; 0] [0; 0; 0; 1] eq_refl eq_refl). ext_cbv_in Hm.
      injection Hm as E0 _. cbv [fpow].
      match type of E0 with ?l = ?r => transitivity r; [ring | rewrite <- E0; ring] end.
    - specialize (Hm [0; 1; 0; 0; 0] [0; 0; 0; 0; 1] eq_refl eq_refl). ext_cbv_in Hm.
      injection Hm as E0 _. cbv [fpow].
      match type of E0 with ?l = ?r => transitivity r; [ring | rewrite <- E0; ring] end.
  Qed.

  Lemma ext_twist_add D z a b : okD D -> length a = D -> length b = D ->
    ext_twist D z (ext_add a b) = ext_add (ext_twist D z a) (ext_twist D z b).
  Proof. intros HD; for_okD HD; by_coeffs. Qed.

  Lemma ext_twist_of_base D z x : okD D -> ext_twist D z (ext_of_base D x) = ext_of_base D x.
  Proof. intros HD; for_okD HD; by_coeffs. Qed.

  Lemma ext_twist_twist D z w a : okD D -> length a = D ->
    ext_twist D z (ext_twist D w a) = ext_twist D (z * w) a.
  Proof. intros HD; for_okD HD; by_coeffs. Qed.

  Lemma ext_twist_1 D a : okD D -> length a = D -> ext_twist D 1 a = a.
  Proof. intros HD; for_okD HD; by_coeffs. Qed.

  Lemma okD_neq_0 D : okD D -> D <> 0%nat.
  Proof. intros [-> | [-> | ->]]; discriminate. Qed.

  Lemma erf_twist D DTH a k : okD D -> length a = D ->
    ext_repeated_frobenius D DTH a k = ext_twist D (fpow DTH (k mod D)) a.
  Proof.
    intros HD Ha. unfold ext_repeated_frobenius.
    destruct (k mod D)%nat as [|c] eqn:E.
    - cbn [fpow]. symmetry. apply ext_twist_1; assumption.
    - reflexivity.
  Qed.

  Lemma fpow_mod_order (z : F) D n : D <> 0%nat -> fpow z D = 1 -> fpow z (n mod D) = fpow z n.
  Proof.
    intros HD Hz. rewrite (Nat.div_mod n D HD) at 2.
    rewrite fpow_add, fpow_mul, Hz, fpow_1_l. ring.
  Qed.

  Lemma erf_length D DTH a k : okD D -> length a = D ->
    length (ext_repeated_frobenius D DTH a k) = D.
  Proof. intros HD Ha. rewrite erf_twist by assumption. apply ext_twist_length, Ha. Qed.

  Theorem ext_frobenius_mul D W DTH a b k : okD D -> fpow DTH D = 1 ->
    length a = D -> length b = D ->
    ext_repeated_frobenius D DTH (ext_mul D W a b) k =
    ext_mul D W (ext_repeated_frobenius D DTH a k) (ext_repeated_frobenius D DTH b k).
  Proof.
    intros HD Hz Ha Hb. rewrite !erf_twist by (auto using ext_mul_length).
    apply ext_twist_mul; auto.
    rewrite <- fpow_mul, Nat.mul_comm, fpow_mul, Hz. apply fpow_1_l.
  Qed.

  Theorem ext_frobenius_add D DTH a b k : okD D -> length a = D -> length b = D ->
    ext_repeated_frobenius D DTH (ext_add a b) k =
    ext_add (ext_repeated_frobenius D DTH a k) (ext_repeated_frobenius D DTH b k).
  Proof.
    intros HD Ha Hb. rewrite !erf_twist by (auto using ext_add_length).
    apply ext_twist_add; auto.
  Qed.

  Theorem ext_frobenius_of_base D DTH x k : okD D ->
    ext_repeated_frobenius D DTH (ext_of_base D x) k = ext_of_base D x.
  Proof.
    intros HD. rewrite erf_twist by (auto using ext_of_base_length, okD_pos).
    apply ext_twist_of_base, HD.
  Qed.

  Theorem ext_frobenius_compose D DTH a j k : okD D -> fpow DTH D = 1 -> length a = D ->
    ext_repeated_frobenius D DTH (ext_repeated_frobenius D DTH a j) k =
    ext_repeated_frobenius D DTH a (j + k).
  Proof.
    intros HD Hz Ha. pose proof (okD_neq_0 D HD) as HD0.
    rewrite (erf_twist D DTH a j), (erf_twist D DTH a (j + k)) by assumption.
    rewrite erf_twist by (auto using ext_twist_length).
    rewrite ext_twist_twist by assumption. f_equal.
    rewrite !fpow_mod_order by assumption. rewrite fpow_add. ring.
  Qed.

  Theorem ext_frobenius_order D DTH a : okD D -> fpow DTH D = 1 -> length a = D ->
    ext_repeated_frobenius D DTH a D = a.
  Proof.
    intros HD Hz Ha. rewrite erf_twist by assumption.
    rewrite Nat.mod_same by (apply okD_neq_0, HD). cbn [fpow]. apply ext_twist_1; assumption.
  Qed.

  (* ------------------------------------------------------------------ *)
  (* 5. inverses *)

  (* z is a primitive D-th root of unity *)
  Definition prim_root (D : nat) (z : F) : Prop :=
    fpow z D = 1 /\ forall i, (1 <= i < D)%nat -> fpow z i <> 1.

  Lemma prim_root_2 z : fpow z 2 = 1 -> z <> 1 -> prim_root 2 z.
  Proof.
    intros Hz Hn. split; [exact Hz|]. intros i Hi. assert (i = 1%nat) as -> by lia.
    cbn [fpow]. intros E. apply Hn. rewrite <- E. ring.
  Qed.

  Lemma prim_root_4 z : fpow z 4 = 1 -> fpow z 2 <> 1 -> prim_root 4 z.
  Proof.
    intros Hz Hn. split; [exact Hz|]. intros i Hi. cbn [fpow] in *.
    assert (i = 1 \/ i = 2 \/ i = 3)%nat as [-> | [-> | ->]] by lia; cbn [fpow]; intros E.
    - apply Hn. rewrite f_mul_1_r in E. rewrite E. ring.
    - apply Hn, E.
    - apply Hn. assert (Ez : z = 1).
      { transitivity (z * (z * (z * (z * 1)))); [rewrite E; ring | exact Hz]. }
      rewrite Ez. ring.
  Qed.

  Lemma prim_root_5 z : fpow z 5 = 1 -> z <> 1 -> prim_root 5 z.
  Proof.
    intros Hz Hn. split; [exact Hz|]. intros i Hi.
    assert (i = 1 \/ i = 2 \/ i = 3 \/ i = 4)%nat as [->|[-> | [-> | ->]]] by lia; intros E; apply Hn.
    - cbn [fpow] in E. rewrite <- E. ring.
    - transitivity (fpow z 5); [|exact Hz].
      transitivity (z * fpow z 2 * fpow z 2); [rewrite E; ring | cbn [fpow]; ring].
    - transitivity (fpow z 5 * z); [rewrite Hz; ring|].
      transitivity (fpow z 3 * fpow z 3); [cbn [fpow]; ring | rewrite E; ring].
    - transitivity (fpow z 4 * z); [rewrite E; ring|].
      transitivity (fpow z 5); [cbn [fpow]; ring | exact Hz].
  Qed.

  (* a fixed point of the twist by a primitive root lies in the base field *)
  Lemma ext_twist_fixed D z n : okD D -> (forall i, (1 <= i < D)%nat -> fpow z i <> 1) ->
    length n = D -> ext_twist D z n = n -> n = ext_of_base D (nthF n 0).
  Proof.
    assert (K : forall x i, fpow z i <> 1 -> x * fpow z i = x -> x = 0).
    { intros x i Hi E. assert (E2 : x * (fpow z i - 1) = 0) by (transitivity (x * fpow z i - x); [ring | rewrite E; ring]).
      apply f_mul_eq_0 in E2. destruct E2 as [E2|E2]; [exact E2|]. apply (proj1 (f_sub_eq_0 _ _)) in E2. contradiction. }
    intros HD; for_okD HD; intros Hp Hl E; split_lists; ext_cbv_in E; ext_cbv.
    - injection E as _ E1.
      rewrite (K n1 1%nat); [reflexivity | apply Hp; lia | rewrite <- E1 at 2; cbn [fpow]; ring].
    - injection E as _ E1 E2 E3.
      rewrite (K n1 1%nat), (K n2 2%nat), (K n3 3%nat); [reflexivity | | | | | |];
        try (apply Hp; lia).
      + rewrite <- E3 at 2; cbn [fpow]; ring.
      + rewrite <- E2 at 2; cbn [fpow]; ring.
      + rewrite <- E1 at 2; cbn [fpow]; ring.
    - injection E as _ E1 E2 E3 E4.
      rewrite (K n1 1%nat), (K n2 2%nat), (K n3 3%nat), (K n4 4%nat); [reflexivity | | | | | | | |];
        try (apply Hp; lia).
      + rewrite <- E4 at 2; cbn [fpow]; ring.
      + rewrite <- E3 at 2; cbn [fpow]; ring.
      + rewrite <- E2 at 2; cbn [fpow]; ring.
      + rewrite <- E1 at 2; cbn [fpow]; ring.
  Qed.

  Lemma ext_mul_0_l D W a : okD D -> length a = D -> ext_mul D W (ext_zero D) a = ext_zero D.
  Proof. intros HD; for_okD HD; by_coeffs. Qed.
  Lemma ext_mul_0_r D W a : okD D -> length a = D -> ext_mul D W a (ext_zero D) = ext_zero D.
  Proof. intros HD; for_okD HD; by_coeffs. Qed.
  Lemma nthF_ext_zero D i : nthF (@ext_zero F _ D) i = 0.
  Proof.
    unfold nthF, ext_zero. revert i. induction D as [|D IH]; intros [|i]; cbn [repeat nth]; auto.
  Qed.
  Lemma nthF_of_base_0 D x : nthF (ext_of_base D x) 0 = x.
  Proof. reflexivity. Qed.

  Lemma ext_is_zero_true a : ext_is_zero a = true -> a = ext_zero (length a).
  Proof.
    unfold ext_is_zero, ext_zero. induction a as [|x a IH]; cbn [forallb length repeat]; [reflexivity|].
    intros E. apply andb_prop in E. destruct E as [E1 E2]. apply f_eqb_spec in E1. subst x.
    rewrite <- IH by exact E2. reflexivity.
  Qed.

  (* reassociations used to see that the norm is fixed by the Frobenius *)
  Lemma mul_rot4 D W p q r s : okD D ->
    length p = D -> length q = D -> length r = D -> length s = D ->
    ext_mul D W (ext_mul D W (ext_mul D W p q) r) s =
    ext_mul D W (ext_mul D W (ext_mul D W s p) q) r.
  Proof.
    intros HD Lp Lq Lr Ls.
    rewrite (ext_mul_comm D W (ext_mul D W (ext_mul D W p q) r) s) by (auto using ext_mul_length).
    rewrite <- !ext_mul_assoc by (auto using ext_mul_length). reflexivity.
  Qed.

  Lemma mul_rot5 D W s p1 p2 p3 p4 : okD D ->
    length s = D -> length p1 = D -> length p2 = D -> length p3 = D -> length p4 = D ->
    ext_mul D W s (ext_mul D W (ext_mul D W p1 p2) (ext_mul D W p3 p4)) =
    ext_mul D W p1 (ext_mul D W (ext_mul D W p2 p3) (ext_mul D W p4 s)).
  Proof.
    intros HD Ls L1 L2 L3 L4.
    rewrite (ext_mul_comm D W s) by (auto using ext_mul_length).
    rewrite <- !ext_mul_assoc by (auto using ext_mul_length). reflexivity.
  Qed.

  Lemma okD_1_mod D : okD D -> (1 mod D = 1)%nat.
  Proof. intros [-> | [-> | ->]]; reflexivity. Qed.

  (* an element fixed by the Frobenius (twist by a primitive D-th root) is in the base field *)
  Lemma erf_fixed_base D z n : okD D -> prim_root D z -> length n = D ->
    ext_repeated_frobenius D z n 1 = n -> n = ext_of_base D (nthF n 0).
  Proof.
    intros HD [_ Hp] Ln E. rewrite erf_twist, okD_1_mod in E by assumption.
    apply (ext_twist_fixed D (fpow z 1)); auto.
    intros i Hi. cbn [fpow]. rewrite f_mul_1_r. apply Hp, Hi.
  Qed.

  (* the common last step of the three try_inverse chains: if a * f is fixed by the Frobenius
     and its constant coefficient is non-zero then f / (a * f)_0 is the inverse of a *)
  Lemma inv_chain D W z a f : okD D -> prim_root D z -> length a = D -> length f = D ->
    ext_repeated_frobenius D z (ext_mul D W a f) 1 = ext_mul D W a f ->
    nthF (ext_mul D W a f) 0 <> 0 ->
    ext_mul D W a (ext_scalar_mul f (finv (nthF (ext_mul D W a f) 0))) = ext_of_base D 1.
  Proof.
    intros HD Hp La Lf Efix Hn.
    rewrite ext_mul_scalar_r by assumption.
    rewrite (erf_fixed_base D z (ext_mul D W a f) HD Hp (ext_mul_length _ _ _ _) Efix) at 1.
    rewrite ext_scalar_of_base by assumption. f_equal. apply f_inv_r, Hn.
  Qed.

  (* ---- D = 2 *)
  Theorem ext2_try_inverse_correct W DTH a :
    length a = 2%nat -> fpow DTH 2 = 1 -> DTH <> 1 ->
    nthF (ext_mul 2 W (ext_frobenius 2 DTH a) a) 0 <> 0 ->
    exists r, ext2_try_inverse W DTH a = Some r /\ length r = 2%nat /\
              ext_mul 2 W a r = ext_of_base 2 1.
  Proof.
    intros La Hz Hz1 Hn.
    assert (HD : okD 2) by (left; reflexivity).
    pose proof (prim_root_2 DTH Hz Hz1) as Hp.
    unfold ext2_try_inverse. unfold ext_frobenius in *.
    set (f := ext_repeated_frobenius 2 DTH a 1) in *.
    assert (Lf : length f = 2%nat) by (apply erf_length; assumption).
    destruct (ext_is_zero a) eqn:Ez.
    - exfalso. apply Hn. apply ext_is_zero_true in Ez. rewrite La in Ez. rewrite Ez.
      rewrite ext_mul_0_r by assumption. apply nthF_ext_zero.
    - eexists. split; [reflexivity|]. split; [apply ext_scalar_mul_length, Lf|].
      rewrite (ext_mul_comm 2 W f a) in * by assumption.
      apply (inv_chain 2 W DTH); auto.
      rewrite ext_frobenius_mul by assumption. fold f. unfold f at 2.
      rewrite ext_frobenius_compose by assumption. cbn [Nat.add].
      rewrite ext_frobenius_order by assumption. apply ext_mul_comm; assumption.
  Qed.

  (* ---- D = 4 *)
  Definition ext4_norm (W DTH : F) (a : ext) : F :=
    let a_pow_p := ext_frobenius 4 DTH a in
    let a_pow_p_plus_1 := ext_mul 4 W a_pow_p a in
    let a_pow_p3_plus_p2 := ext_repeated_frobenius 4 DTH a_pow_p_plus_1 2 in
    let a_pow_r_minus_1 := ext_mul 4 W a_pow_p3_plus_p2 a_pow_p in
    nthF (ext_mul 4 W a_pow_r_minus_1 a) 0.

  Theorem ext4_try_inverse_correct W DTH a :
    length a = 4%nat -> fpow DTH 4 = 1 -> fpow DTH 2 <> 1 ->
    ext4_norm W DTH a <> 0 ->
    exists r, ext4_try_inverse W DTH a = Some r /\ length r = 4%nat /\
              ext_mul 4 W a r = ext_of_base 4 1.
  Proof.
    intros La Hz Hz1 Hn.
    assert (HD : okD 4) by (right; left; reflexivity).
    pose proof (prim_root_4 DTH Hz Hz1) as Hp.
    unfold ext4_try_inverse. unfold ext4_norm in Hn. unfold ext_frobenius in *.
    set (fr := fun k x => ext_repeated_frobenius 4 DTH x k) in *.
    change (ext_repeated_frobenius 4 DTH a 1) with (fr 1%nat a) in *.
    assert (Lfr : forall k x, length x = 4%nat -> length (fr k x) = 4%nat)
      by (intros; apply erf_length; assumption).
    assert (Emul : forall k x y, length x = 4%nat -> length y = 4%nat ->
              fr k (ext_mul 4 W x y) = ext_mul 4 W (fr k x) (fr k y))
      by (intros; apply ext_frobenius_mul; assumption).
    assert (Ecomp : forall j k x, length x = 4%nat -> fr k (fr j x) = fr (j + k)%nat x)
      by (intros; apply ext_frobenius_compose; assumption).
    assert (E4 : fr 4%nat a = a) by (apply ext_frobenius_order; assumption).
    change (ext_repeated_frobenius 4 DTH (ext_mul 4 W (fr 1%nat a) a) 2)
      with (fr 2%nat (ext_mul 4 W (fr 1%nat a) a)) in *.
    rewrite Emul, Ecomp in * by auto. cbn [Nat.add] in *.
    set (f := ext_mul 4 W (ext_mul 4 W (fr 3%nat a) (fr 2%nat a)) (fr 1%nat a)) in *.
    assert (Lf : length f = 4%nat) by apply ext_mul_length.
    destruct (ext_is_zero a) eqn:Ez.
    - exfalso. apply Hn. apply ext_is_zero_true in Ez. rewrite La in Ez. rewrite Ez.
      rewrite ext_mul_0_r by assumption. apply nthF_ext_zero.
    - eexists. split; [reflexivity|]. split; [apply ext_scalar_mul_length, Lf|].
      rewrite (ext_mul_comm 4 W f a) in * by assumption.
      apply (inv_chain 4 W DTH); auto.
      change (fr 1%nat (ext_mul 4 W a f) = ext_mul 4 W a f). unfold f.
      rewrite !Emul by (auto using ext_mul_length). rewrite !Ecomp by assumption.
      cbn [Nat.add]. rewrite E4.
      rewrite (ext_mul_comm 4 W a (ext_mul 4 W (ext_mul 4 W (fr 3%nat a) (fr 2%nat a)) (fr 1%nat a)))
        by (auto using ext_mul_length).
      rewrite (mul_rot4 4 W (fr 3%nat a) (fr 2%nat a) (fr 1%nat a) a) by auto.
      rewrite (ext_mul_comm 4 W (fr 1%nat a)) by (auto using ext_mul_length). reflexivity.
  Qed.

  (* ---- D = 5 *)
  Definition ext5_norm (W DTH : F) (a : ext) : F :=
    let d := ext_frobenius 5 DTH a in
    let e := ext_mul 5 W d (ext_frobenius 5 DTH d) in
    let f := ext_mul 5 W e (ext_repeated_frobenius 5 DTH e 2) in
    nthF a 0 * nthF f 0
    + W * (nthF a 1 * nthF f 4 + nthF a 2 * nthF f 3 + nthF a 3 * nthF f 2 + nthF a 4 * nthF f 1).

  Lemma ext5_coeff0 W a f : length a = 5%nat -> length f = 5%nat ->
    nthF a 0 * nthF f 0
    + W * (nthF a 1 * nthF f 4 + nthF a 2 * nthF f 3 + nthF a 3 * nthF f 2 + nthF a 4 * nthF f 1)
    = nthF (ext_mul 5 W a f) 0.
  Proof. intros La Lf. split_lists. ext_cbv. ring. Qed.

  Theorem ext5_try_inverse_correct W DTH a :
    length a = 5%nat -> fpow DTH 5 = 1 -> DTH <> 1 ->
    ext5_norm W DTH a <> 0 ->
    exists r, ext5_try_inverse W DTH a = Some r /\ length r = 5%nat /\
              ext_mul 5 W a r = ext_of_base 5 1.
  Proof.
    intros La Hz Hz1 Hn.
    assert (HD : okD 5) by (right; right; reflexivity).
    pose proof (prim_root_5 DTH Hz Hz1) as Hp.
    unfold ext5_try_inverse. unfold ext5_norm in Hn. unfold ext_frobenius in *.
    set (fr := fun k x => ext_repeated_frobenius 5 DTH x k) in *.
    change (ext_repeated_frobenius 5 DTH a 1) with (fr 1%nat a) in *.
    change (ext_repeated_frobenius 5 DTH (fr 1%nat a) 1) with (fr 1%nat (fr 1%nat a)) in *.
    assert (Lfr : forall k x, length x = 5%nat -> length (fr k x) = 5%nat)
      by (intros; apply erf_length; assumption).
    assert (Emul : forall k x y, length x = 5%nat -> length y = 5%nat ->
              fr k (ext_mul 5 W x y) = ext_mul 5 W (fr k x) (fr k y))
      by (intros; apply ext_frobenius_mul; assumption).
    assert (Ecomp : forall j k x, length x = 5%nat -> fr k (fr j x) = fr (j + k)%nat x)
      by (intros; apply ext_frobenius_compose; assumption).
    assert (E5 : fr 5%nat a = a) by (apply ext_frobenius_order; assumption).
    rewrite (Ecomp 1%nat 1%nat a La) in *. cbn [Nat.add] in *.
    change (ext_repeated_frobenius 5 DTH (ext_mul 5 W (fr 1%nat a) (fr 2%nat a)) 2)
      with (fr 2%nat (ext_mul 5 W (fr 1%nat a) (fr 2%nat a))) in *.
    rewrite Emul, !Ecomp in * by auto. cbn [Nat.add] in *.
    set (f := ext_mul 5 W (ext_mul 5 W (fr 1%nat a) (fr 2%nat a))
                          (ext_mul 5 W (fr 3%nat a) (fr 4%nat a))) in *.
    assert (Lf : length f = 5%nat) by apply ext_mul_length.
    rewrite ext5_coeff0 in * by assumption.
    destruct (ext_is_zero a) eqn:Ez.
    - exfalso. apply Hn. apply ext_is_zero_true in Ez. rewrite La in Ez. rewrite Ez at 1.
      rewrite ext_mul_0_l by assumption. apply nthF_ext_zero.
    - eexists. split; [reflexivity|]. split; [apply ext_scalar_mul_length, Lf|].
      apply (inv_chain 5 W DTH); auto.
      change (fr 1%nat (ext_mul 5 W a f) = ext_mul 5 W a f). unfold f.
      rewrite !Emul by (auto using ext_mul_length). rewrite !Ecomp by assumption.
      cbn [Nat.add]. rewrite E5. symmetry. apply mul_rot5; auto.
  Qed.

  (* None is returned exactly for the zero element *)
  Theorem ext_try_inverse_none W DTH a :
    (ext2_try_inverse W DTH a = None <-> ext_is_zero a = true) /\
    (ext4_try_inverse W DTH a = None <-> ext_is_zero a = true) /\
    (ext5_try_inverse W DTH a = None <-> ext_is_zero a = true).
  Proof.
    unfold ext2_try_inverse, ext4_try_inverse, ext5_try_inverse.
    destruct (ext_is_zero a); repeat split; intros; try reflexivity; discriminate.
  Qed.

  (* For D = 2 the norm hypothesis follows from a <> 0 when W is not a square. *)
  Theorem ext2_norm_nonzero W a :
    (forall s, s * s <> W) -> length a = 2%nat -> ext_is_zero a = false ->
    nthF (ext_mul 2 W (ext_frobenius 2 (- (1)) a) a) 0 <> 0.
  Proof.
    intros HW La Ez. unfold ext_frobenius.
    rewrite (erf_twist 2) by (try left; auto). change (1 mod 2)%nat with 1%nat.
    split_lists. ext_cbv.
    cbv [ext_is_zero forallb] in Ez. intros E.
    destruct (F_eq_dec a1 0) as [E1|N1].
    - subst a1. destruct (F_eq_dec a0 0) as [E0|N0].
      + subst a0. rewrite feqb_refl in Ez. discriminate.
      + apply (f_mul_neq_0 a0 a0 N0 N0). rewrite <- E. ring.
    - apply (HW (a0 * finv a1)).
      assert (E' : a0 * a0 = W * (a1 * a1)).
      { apply f_sub_eq_0. rewrite <- E. ring. }
      transitivity (a0 * a0 * (finv a1 * finv a1)); [ring|]. rewrite E'. field. exact N1.
  Qed.
End ExtProofs.
