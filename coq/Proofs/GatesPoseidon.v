(* C07 - PoseidonGate: every wire the PoseidonGenerator writes (the four swap deltas, the S-box
   inputs of full rounds 1..3, of the 22 partial rounds and of the second four full rounds, and the
   twelve outputs) is pinned by definition.  The evaluator recomputes each layer from the S-box
   input WIRES of the previous round, the generator from its own state; all 123 constraints vanish
   iff every written wire holds the generator's value (lock-step invariant over the rounds).
   Input condition: the swap wire is boolean (the gate's first constraint). *)
From Coq Require Import ZArith List Lia Arith Bool FinFun.
From Verif Require Import Base.Field Model.FieldGeneric Model.Gates Proofs.GatesLib Proofs.GatesSimple.
Import ListNotations.
Local Open Scope nat_scope.

Section Fold2.
  Context {A B C : Type}.
  Lemma fold_left2_inv (f : A -> C -> A) (g : B -> C -> B) (P : A -> B -> Prop) (l : list C) :
    (forall a b x, In x l -> P a b -> P (f a x) (g b x)) ->
    forall a b, P a b -> P (fold_left f l a) (fold_left g l b).
  Proof.
    induction l as [|x l IH]; intros Hstep a b Hab; cbn [fold_left]; [exact Hab|].
    apply IH; [intros a' b' y Hy; apply Hstep; right; exact Hy|]. apply Hstep; [left; reflexivity | exact Hab].
  Qed.
End Fold2.

Section Poseidon.
  Context {K : Type} `{FL : FieldLaws K} {OB : OfBase K} {TC : ToCanon K}.
  Add Field Kf_pos : (@F_field_theory K _ FL).

  Lemma zero_all_combine_sub : forall (l1 l2 : list K), length l1 = length l2 ->
    (zero_all (map (fun p => (fst p - snd p)%F) (combine l1 l2)) <-> l1 = l2).
  Proof.
    induction l1 as [|a l1 IH]; intros [|b l2] Hl; cbn [length] in Hl; try discriminate.
    - cbn [combine map]. split; [reflexivity | constructor].
    - cbn [combine map fst snd]. unfold zero_all in *. rewrite Forall_cons_iff. rewrite IH by lia.
      split.
      + intros [E1 E2]. apply (proj1 (f_sub_eq_0 _ _)) in E1. congruence.
      + intros E. inversion E; subst. split; [ring | reflexivity].
  Qed.

  Lemma agree_combine_seq (r : list K) : forall (l : list K) start,
    agree (combine (seq start (length l)) l) r <-> map (nthF r) (seq start (length l)) = l.
  Proof.
    induction l as [|a l IH]; intros start; cbn [length seq combine map].
    - split; [reflexivity | intros _ i v []].
    - split.
      + intros Ha. f_equal.
        * apply Ha. left. reflexivity.
        * apply IH. intros i v Hin. apply Ha. right. exact Hin.
      + intros E. inversion E as [[E1 E2]]. intros i v [Hin|Hin].
        * apply pair_equal_spec in Hin. destruct Hin as [<- <-]. reflexivity.
        * rewrite E2 in *. apply (proj2 (IH (S start)) E2). exact Hin.
  Qed.

  (* one "check and substitute" step of the evaluator against the generator's writes *)
  Lemma check_subst_inv (gst r : list K) start len : len <= length gst ->
    let c := fst (check_subst gst r start len) in
    let st2 := snd (check_subst gst r start len) in
    let w := combine (seq start len) (firstn len gst) in
    (zero_all c <-> agree w r) /\ (zero_all c -> st2 = gst).
  Proof.
    intros Hlen. unfold check_subst. cbn [fst snd].
    assert (Hfl : length (firstn len gst) = len) by (rewrite firstn_length; lia).
    assert (Hz : zero_all (map (fun p => (fst p - snd p)%F) (combine (firstn len gst) (map (nthF r) (seq start len))))
                 <-> firstn len gst = map (nthF r) (seq start len)).
    { apply zero_all_combine_sub. rewrite map_length, seq_length. exact Hfl. }
    split.
    - rewrite Hz. rewrite <- Hfl at 3. rewrite agree_combine_seq. rewrite Hfl. split; congruence.
    - intros Hc. apply Hz in Hc. rewrite <- Hc. apply firstn_skipn.
  Qed.

  (* ---- the lock-step invariant *)
  Variable r : list K.

  Definition pinv (e : list K * list K) (g : list K * list (nat * K)) : Prop :=
    (zero_all (snd e) <-> agree (snd g) r) /\ (zero_all (snd e) -> fst e = fst g) /\ length (fst g) = 12.

  Lemma pg_constant_layer_length (st : list K) k : length (pg_constant_layer st k) = 12.
  Proof. unfold pg_constant_layer. rewrite map_length, seq_length. apply SW_eq. Qed.
  Lemma pg_mds_layer_length (st : list K) : length (pg_mds_layer st) = 12.
  Proof. unfold pg_mds_layer. rewrite map_length, seq_length. apply SW_eq. Qed.
  Lemma pg_partial_fast_length (st : list K) k : length (pg_mds_partial_layer_fast st k) = 12.
  Proof. unfold pg_mds_partial_layer_fast. cbv zeta. cbn [length]. rewrite map_length, seq_length, SW_eq. reflexivity. Qed.
  Lemma pg_partial_init_length (st : list K) : length (pg_mds_partial_layer_init st) = 12.
  Proof. unfold pg_mds_partial_layer_init. cbn [length]. rewrite map_length, seq_length, SW_eq. reflexivity. Qed.

  Lemma pinv_full_round ws_start ctr e g :
    pinv e g -> pinv (poseidon_full_round r ws_start ctr e) (poseidon_gen_full_round ws_start ctr g).
  Proof.
    destruct e as [st cs], g as [gst wr]. unfold pinv. cbn [fst snd]. intros [Hiff [Hst Hlen]].
    unfold poseidon_full_round, poseidon_gen_full_round.
    destruct ws_start as [s|].
    - pose proof (check_subst_inv (pg_constant_layer gst ctr) r s SW) as Hcs.
      rewrite pg_constant_layer_length, SW_eq in Hcs. specialize (Hcs (le_n 12)). cbv zeta in Hcs.
      rewrite firstn_all2 in Hcs by (rewrite pg_constant_layer_length; lia).
      destruct Hcs as [Hc1 Hc2].
      destruct (check_subst (pg_constant_layer st ctr) r s SW) as [c st2] eqn:Ecs.
      cbn [fst snd]. rewrite SW_eq in *.
      split; [|split; [|apply pg_mds_layer_length]].
      + rewrite zero_all_app, agree_app. split.
        * intros [Hz1 Hz2]. split; [apply Hiff; exact Hz1|].
          rewrite (Hst Hz1) in Ecs. rewrite Ecs in Hc1. cbn [fst] in Hc1. apply Hc1. exact Hz2.
        * intros [Ha1 Ha2]. assert (Hz1 : zero_all cs) by (apply Hiff; exact Ha1).
          split; [exact Hz1|]. rewrite (Hst Hz1) in Ecs. rewrite Ecs in Hc1. cbn [fst] in Hc1. apply Hc1. exact Ha2.
      + intros Hz. apply zero_all_app in Hz. destruct Hz as [Hz1 Hz2].
        rewrite (Hst Hz1) in Ecs. rewrite Ecs in Hc2. cbn [fst snd] in Hc2. rewrite (Hc2 Hz2). reflexivity.
    - cbn [fst snd]. rewrite !app_nil_r.
      split; [exact Hiff | split; [|apply pg_mds_layer_length]].
      intros Hz. rewrite (Hst Hz). reflexivity.
  Qed.

  Lemma pinv_partial_round k e g :
    pinv e g -> pinv (poseidon_partial_round r e k) (poseidon_gen_partial_round g k).
  Proof.
    destruct e as [st cs], g as [gst wr]. unfold pinv. cbn [fst snd]. intros [Hiff [Hst Hlen]].
    unfold poseidon_partial_round, poseidon_gen_partial_round.
    pose proof (check_subst_inv gst r (P_START_PARTIAL + k) 1 ltac:(lia)) as Hcs. cbv zeta in Hcs.
    destruct gst as [|g0 gt]; [cbn [length] in Hlen; lia|].
    change (firstn 1 (g0 :: gt)) with [g0] in Hcs. change (seq (P_START_PARTIAL + k) 1) with [P_START_PARTIAL + k] in Hcs.
    change (combine [P_START_PARTIAL + k] [g0]) with [(P_START_PARTIAL + k, g0)] in Hcs.
    destruct Hcs as [Hc1 Hc2].
    destruct (check_subst st r (P_START_PARTIAL + k) 1) as [c st1] eqn:Ecs.
    change (nthF (g0 :: gt) 0) with g0. change (tl (g0 :: gt)) with gt.
    cbn [fst snd].
    split; [|split; [|apply pg_partial_fast_length]].
    - rewrite zero_all_app, agree_app. split.
      + intros [Hz1 Hz2]. split; [apply Hiff; exact Hz1|].
        rewrite (Hst Hz1) in Ecs. rewrite Ecs in Hc1. cbn [fst] in Hc1. apply Hc1. exact Hz2.
      + intros [Ha1 Ha2]. assert (Hz1 : zero_all cs) by (apply Hiff; exact Ha1).
        split; [exact Hz1|]. rewrite (Hst Hz1) in Ecs. rewrite Ecs in Hc1. cbn [fst] in Hc1. apply Hc1. exact Ha2.
    - intros Hz. apply zero_all_app in Hz. destruct Hz as [Hz1 Hz2].
      rewrite (Hst Hz1) in Ecs. rewrite Ecs in Hc2. cbn [fst snd] in Hc2. rewrite (Hc2 Hz2). reflexivity.
  Qed.

  Lemma pinv_partial_init e g : pinv e g -> pinv (poseidon_partial_init e) (poseidon_gen_partial_init g).
  Proof.
    destruct e as [st cs], g as [gst wr]. unfold pinv, poseidon_partial_init, poseidon_gen_partial_init.
    cbn [fst snd]. intros [Hiff [Hst Hlen]].
    split; [exact Hiff | split; [|apply pg_partial_init_length]]. intros Hz. rewrite (Hst Hz). reflexivity.
  Qed.

  (* ---- start: the swap deltas *)
  Definition ok_poseidon (consts row pi : list K) : Prop :=
    nthF row P_WIRE_SWAP = 0%F \/ nthF row P_WIRE_SWAP = 1%F.

  Lemma pinv_start : ok_poseidon [] r [] ->
    pinv (poseidon_input_state r, poseidon_cs0 r) (poseidon_gen_start r).
  Proof.
    intros Hok. unfold pinv, poseidon_gen_start, poseidon_cs0, poseidon_input_state. cbv zeta. cbn [fst snd].
    set (swap := nthF r P_WIRE_SWAP) in *.
    assert (Hsw0 : (swap * (swap - 1))%F = 0%F).
    { unfold ok_poseidon in Hok. fold swap in Hok. destruct Hok as [E|E]; rewrite E; ring. }
    assert (Hst : forall j, j < 12 -> nthF (map (nthF r) (seq 0 SW)) j = nthF r j).
    { intros j Hj. unfold nthF at 1. rewrite nth_map_seq_gen by (rewrite SW_eq; exact Hj). reflexivity. }
    assert (Hiff : zero_all ((swap * (swap - 1))%F
                     :: map (fun i => (swap * (nthF r (i + 4) - nthF r i) - nthF r (P_START_DELTA + i))%F) (seq 0 4))
                   <-> agree (map (fun i => (P_START_DELTA + i,
                                (swap * (nthF (map (nthF r) (seq 0 SW)) (i + 4) - nthF (map (nthF r) (seq 0 SW)) i))%F)) (seq 0 4)) r).
    { unfold zero_all. rewrite Forall_cons_iff. fold (zero_all (map (fun i => (swap * (nthF r (i + 4) - nthF r i) - nthF r (P_START_DELTA + i))%F) (seq 0 4))).
      rewrite zero_all_map. unfold agree. split.
      - intros [_ Hz] j v Hin. apply in_map_iff in Hin. destruct Hin as [i [E Hi]]. apply pair_equal_spec in E.
        destruct E as [<- <-]. apply in_seq in Hi. rewrite !Hst by lia.
        specialize (Hz i ltac:(apply in_seq; lia)). apply (proj1 (f_sub_eq_0 _ _)) in Hz. symmetry. exact Hz.
      - intros Ha. split; [exact Hsw0|]. intros i Hi. apply in_seq in Hi. apply f_sub_eq_0.
        symmetry. rewrite <- (Hst (i + 4)), <- (Hst i) by lia. apply Ha. apply in_map_iff. exists i.
        split; [reflexivity | apply in_seq; lia]. }
    split; [exact Hiff|]. split.
    - intros Hz. apply Hiff in Hz.
      assert (Hd : forall i, i < 4 -> nthF r (P_START_DELTA + i) = (swap * (nthF r (i + 4) - nthF r i))%F).
      { intros i Hi. rewrite <- (Hst (i + 4)), <- (Hst i) by lia. apply Hz. apply in_map_iff. exists i.
        split; [reflexivity | apply in_seq; lia]. }
      rewrite SW_eq. cbn [seq map Nat.sub Nat.add firstn skipn app].
      rewrite !Hd by lia. cbn [Nat.add].
      unfold ok_poseidon in Hok. fold swap in Hok. destruct Hok as [E|E]; rewrite E.
      + assert (Hf : ((0:K) =? 1)%F = false) by (apply feqb_false; intros E1; apply f_1_neq_0; auto).
        rewrite Hf. repeat (f_equal; try ring).
      + rewrite feqb_refl. repeat (f_equal; try ring).
    - destruct (swap =? 1)%F; rewrite SW_eq; reflexivity.
  Qed.

  (* ---- all rounds *)
  Lemma pinv_all : ok_poseidon [] r [] -> pinv (poseidon_eval_acc r) (poseidon_gen_acc r).
  Proof.
    intros Hok. unfold poseidon_eval_acc, poseidon_gen_acc. cbv zeta.
    apply fold_left2_inv.
    { intros a b x _ Hab. apply pinv_full_round. exact Hab. }
    apply fold_left2_inv.
    { intros a b x _ Hab. apply pinv_partial_round. exact Hab. }
    apply pinv_partial_init.
    apply fold_left2_inv.
    { intros a b x _ Hab. apply pinv_full_round. exact Hab. }
    apply pinv_start. exact Hok.
  Qed.

  Lemma poseidon_char : ok_poseidon [] r [] ->
    (zero_all (eval_poseidon r) <-> agree (poseidon_writes r) r).
  Proof.
    intros Hok. pose proof (pinv_all Hok) as Hinv.
    unfold eval_poseidon, poseidon_writes.
    destruct (poseidon_eval_acc r) as [st cs]. destruct (poseidon_gen_acc r) as [gst wr].
    unfold pinv in Hinv. cbn [fst snd] in Hinv. destruct Hinv as [Hiff [Hst Hlen]].
    unfold poseidon_output_constraints. cbn [fst snd]. rewrite zero_all_app, agree_app.
    assert (Hout : forall s : list K, length s = 12 ->
              (zero_all (map (fun i => (nthF s i - nthF r (SW + i))%F) (seq 0 SW)) <-> agree (combine (seq SW SW) s) r)).
    { intros s Hs. rewrite zero_all_map. replace (seq SW SW) with (seq SW (length s)) by (rewrite Hs, SW_eq; reflexivity).
      rewrite agree_combine_seq. rewrite Hs. split.
      - intros Hz. apply (nth_ext _ _ 0%F 0%F); [rewrite map_length, seq_length; lia|].
        intros i Hi. rewrite map_length, seq_length in Hi. rewrite nth_map_seq_gen by exact Hi.
        specialize (Hz i ltac:(apply in_seq; rewrite SW_eq; lia)). apply (proj1 (f_sub_eq_0 _ _)) in Hz.
        symmetry. exact Hz.
      - intros E i Hi. apply in_seq in Hi. rewrite SW_eq in Hi. apply f_sub_eq_0. rewrite <- E at 1.
        unfold nthF at 1. rewrite nth_map_seq_gen by lia. reflexivity. }
    split.
    - intros [Hz1 Hz2]. split; [apply Hiff; exact Hz1|]. rewrite (Hst Hz1) in Hz2. apply (Hout gst Hlen). exact Hz2.
    - intros [Ha1 Ha2]. assert (Hz1 : zero_all cs) by (apply Hiff; exact Ha1). split; [exact Hz1|].
      rewrite (Hst Hz1). apply (Hout gst Hlen). exact Ha2.
  Qed.
End Poseidon.

Section PoseidonSpec.
  Context {K : Type} `{FL : FieldLaws K} {OB : OfBase K} {TC : ToCanon K}.

  Lemma poseidon_written_eq : gate_written PoseidonGate = seq 25 4 ++ seq 29 106 ++ seq 12 12.
  Proof. reflexivity. Qed.

  Lemma poseidon_in_written w : In w (gate_written PoseidonGate) <-> (25 <= w < 135) \/ (12 <= w < 24).
  Proof. rewrite poseidon_written_eq. rewrite !in_app_iff, !in_seq. lia. Qed.

  Lemma poseidon_writes_fst (r : list K) : map fst (poseidon_writes r) = gate_written PoseidonGate.
  Proof. lazy. reflexivity. Qed.

  Lemma poseidon_spec : gate_spec PoseidonGate ok_poseidon.
  Proof.
    apply spec_of_gate_char.
    - intros consts r1 r2 He. cbn [gate_writes]. f_equal. unfold poseidon_writes.
      assert (Es : poseidon_gen_start r1 = poseidon_gen_start r2).
      { unfold poseidon_gen_start. cbv zeta.
        assert (E24 : nthF r1 P_WIRE_SWAP = nthF r2 P_WIRE_SWAP).
        { apply He. rewrite poseidon_in_written. change P_WIRE_SWAP with 24. lia. }
        assert (Emap : map (nthF r1) (seq 0 SW) = map (nthF r2) (seq 0 SW)).
        { apply map_ext_in. intros i Hi. apply in_seq in Hi. rewrite SW_eq in Hi. apply He.
          rewrite poseidon_in_written. lia. }
        rewrite E24, Emap. reflexivity. }
      unfold poseidon_gen_acc. rewrite Es. reflexivity.
    - intros consts pi r1 r2 He Hok. unfold ok_poseidon in *.
      rewrite <- (He P_WIRE_SWAP); [exact Hok|]. rewrite poseidon_in_written. change P_WIRE_SWAP with 24. lia.
    - intros consts r wr Hw. cbn [gate_writes] in Hw. apply Some_eq in Hw; subst wr. apply poseidon_writes_fst.
    - rewrite poseidon_written_eq. apply NoDup_app_intro; [apply seq_NoDup | |].
      + apply NoDup_app_intro; [apply seq_NoDup | apply seq_NoDup |]. intros x H1 H2. apply in_seq in H1, H2. lia.
      + intros x H1 H2. apply in_seq in H1. apply in_app_or in H2. rewrite !in_seq in H2. lia.
    - intros w Hw. apply poseidon_in_written in Hw. change (gate_num_wires PoseidonGate) with 135. lia.
    - intros consts pi r wr Hok Hw. cbn [gate_writes] in Hw. apply Some_eq in Hw; subst wr.
      cbn [gate_eval_unfiltered]. apply poseidon_char. exact Hok.
  Qed.
End PoseidonSpec.
