(* Facts about the concrete hashers of Model/MerklePoseidonInst.v (kept apart from Proofs/Merkle.v so
   that the generic proofs do not depend on the regenerated constant tables). *)
From Coq Require Import List Arith Bool ZArith Lia.
From Verif Require Import Base.Field Gen.PoseidonConsts Model.Fp Model.Merkle Model.MerklePoseidonInst.
Import ListNotations.


(* the bit-list form of the round constants is the regenerated table *)
Lemma ROUND_CONSTANTS_ok : ROUND_CONSTANTS = ALL_ROUND_CONSTANTS.
Proof. vm_compute. reflexivity. Qed.

Lemma fp_eqb_spec (a b : Fp) : feqb a b = true <-> a = b.
Proof.
  cbn [feqb FpOps]. rewrite Z.eqb_eq. split; [apply Fp_ext|intros ->; reflexivity].
Qed.

Lemma digest_eqb_spec_fp : forall a b : list Fp, digest_eqb a b = true <-> a = b.
Proof.
  unfold digest_eqb. induction a as [|x a IH]; intros [|y b]; cbn [length combine forallb Nat.eqb andb fst snd].
  - tauto.
  - split; discriminate.
  - split; discriminate.
  - specialize (IH b). split.
    + intros H0. apply andb_true_iff in H0 as [H1 H2]. apply andb_true_iff in H2 as [H2 H3].
      apply fp_eqb_spec in H2. subst. f_equal. apply IH. apply andb_true_iff. split; assumption.
    + intros [= -> ->]. apply andb_true_iff. split; [apply Nat.eqb_refl|].
      apply andb_true_iff. split; [apply fp_eqb_spec; reflexivity|].
      assert (E : b = b) by reflexivity. apply IH in E. apply andb_true_iff in E. apply E.
Qed.

(* hash_or_noop: leaves of at most 4 elements are used verbatim, zero padded. Injective on leaves
   of the same width <= 4 (whatever hash_no_pad is) ... *)
Theorem hash_or_noop_injective_same_width hnp (a b : list Fp) :
  length a = length b -> (length a <= 4)%nat ->
  hash_or_noop hnp a = hash_or_noop hnp b -> a = b.
Proof.
  intros Hl Hw. unfold hash_or_noop. rewrite <- Hl.
  replace (length a * 8 <=? 32)%nat with true by (symmetry; apply Nat.leb_le; lia).
  apply app_inv_tail.
Qed.

(* ... but NOT across widths: a short leaf and its zero-extension have the same digest *)
Theorem hash_or_noop_pads hnp (a : list Fp) :
  (length a < 4)%nat -> hash_or_noop hnp a = hash_or_noop hnp (a ++ [toFp 0]).
Proof.
  intros Hw. unfold hash_or_noop. rewrite app_length. cbn [length].
  replace (length a * 8 <=? 32)%nat with true by (symmetry; apply Nat.leb_le; lia).
  replace ((length a + 1) * 8 <=? 32)%nat with true by (symmetry; apply Nat.leb_le; lia).
  rewrite <- app_assoc. f_equal. unfold NUM_HASH_OUT_ELTS.
  replace (4 - length a)%nat with (S (4 - (length a + 1)))%nat by lia. reflexivity.
Qed.

Lemma hash_or_noop_length hnp (a : list Fp) :
  (forall x, length (hnp x) = 4%nat) -> length (hash_or_noop hnp a) = 4%nat.
Proof.
  intros Hh. unfold hash_or_noop. destruct (length a * 8 <=? 32)%nat eqn:E; [|apply Hh].
  apply Nat.leb_le in E. rewrite app_length, repeat_length. unfold NUM_HASH_OUT_ELTS. lia.
Qed.

