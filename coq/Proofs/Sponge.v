(* C13 (d) - hashing.rs is the overwrite-mode sponge; facts about absorb used by the challenger
   proofs.  Width hypothesis: [length (permute s) = 12] (the Rust state type is [F; 12]). *)
From Coq Require Import ZArith List Arith Lia.
From Verif Require Import Base.Field Model.Sponge.
Import ListNotations.

Section PermStateFacts.
  Context {T : Type}.

  Lemma zip_over_overwrite : forall (elts st : list T), (length elts <= length st)%nat ->
    zip_over st elts = overwrite st elts.
  Proof.
    unfold overwrite. induction elts as [|e elts IH]; intros st Hl.
    - destruct st; reflexivity.
    - destruct st as [|s st]; [cbn in Hl; lia|]. cbn [zip_over length skipn app].
      f_equal. apply IH. cbn in Hl. lia.
  Qed.

  Lemma set_from_iter_overwrite (st elts : list T) : (length elts <= length st)%nat ->
    set_from_iter st elts 0 = overwrite st elts.
  Proof. intros Hl. unfold set_from_iter. cbn [firstn skipn app]. apply zip_over_overwrite. exact Hl. Qed.

  Lemma set_from_slice_overwrite (st elts : list T) : (length elts <= length st)%nat ->
    set_from_slice st elts 0 = Some (overwrite st elts).
  Proof.
    intros Hl. unfold set_from_slice, overwrite. cbn [Nat.add firstn app].
    destruct (Nat.leb_spec (length elts) (length st)); [reflexivity|lia].
  Qed.

  Lemma overwrite_nil (st : list T) : overwrite st [] = st.
  Proof. reflexivity. Qed.

  Lemma overwrite_length (st elts : list T) : (length elts <= length st)%nat ->
    length (overwrite st elts) = length st.
  Proof. intros Hl. unfold overwrite. rewrite app_length, skipn_length. lia. Qed.
End PermStateFacts.

Section SpongeFacts.
  Context {F : Type} {FO : FieldOps F}.
  Variable permute : list F -> list F.
  Hypothesis Hperm : forall s, length (permute s) = 12%nat.

  Lemma absorb_chunks_fuel : forall f1 f2 st l, (length l <= f1)%nat -> (length l <= f2)%nat ->
    absorb_chunks permute f1 st l = absorb_chunks permute f2 st l.
  Proof.
    induction f1 as [|f1 IH]; intros f2 st l H1 H2.
    - destruct l; [|cbn in H1; lia]. destruct f2; reflexivity.
    - destruct l as [|a l]; [destruct f2; reflexivity|].
      destruct f2 as [|f2]; [cbn in H2; lia|].
      cbn [absorb_chunks]. apply IH.
      + rewrite skipn_length. cbn [length] in *. unfold SPONGE_RATE. lia.
      + rewrite skipn_length. cbn [length] in *. unfold SPONGE_RATE. lia.
  Qed.

  Lemma absorb_nil st : absorb permute st [] = st.
  Proof. reflexivity. Qed.

  Lemma absorb_step st l : l <> [] ->
    absorb permute st l = absorb permute (permute (overwrite st (firstn SPONGE_RATE l))) (skipn SPONGE_RATE l).
  Proof.
    intros Hne. unfold absorb. destruct l as [|a l]; [contradiction|].
    cbn [length absorb_chunks]. apply absorb_chunks_fuel.
    - rewrite skipn_length. cbn [length]. unfold SPONGE_RATE. lia.
    - lia.
  Qed.

  (* a single chunk of at most RATE elements *)
  Lemma absorb_one_chunk st c : c <> [] -> (length c <= SPONGE_RATE)%nat ->
    absorb permute st c = permute (overwrite st c).
  Proof.
    intros Hne Hl. rewrite absorb_step by exact Hne.
    rewrite firstn_all2 by exact Hl. rewrite skipn_all2 by exact Hl. reflexivity.
  Qed.

  Inductive full_chunks : list F -> Prop :=
  | fc_nil : full_chunks []
  | fc_cons c l : length c = SPONGE_RATE -> full_chunks l -> full_chunks (c ++ l).

  Lemma absorb_chunk_app st c l : length c = SPONGE_RATE ->
    absorb permute st (c ++ l) = absorb permute (permute (overwrite st c)) l.
  Proof.
    intros Hc. rewrite absorb_step.
    - rewrite firstn_app, Hc, Nat.sub_diag, firstn_O, app_nil_r. rewrite <- Hc at 1. rewrite firstn_all.
      rewrite skipn_app, Hc, Nat.sub_diag. rewrite <- Hc at 1. rewrite skipn_all. reflexivity.
    - destruct c; [discriminate Hc|discriminate].
  Qed.

  Lemma absorb_app_full f : full_chunks f -> forall st l,
    absorb permute st (f ++ l) = absorb permute (absorb permute st f) l.
  Proof.
    induction 1 as [|c f Hc Hf IH]; intros st l; [reflexivity|].
    rewrite <- app_assoc. rewrite (absorb_chunk_app st c (f ++ l) Hc), (absorb_chunk_app st c f Hc). apply IH.
  Qed.

  Lemma full_chunks_app f c : full_chunks f -> length c = SPONGE_RATE -> full_chunks (f ++ c).
  Proof.
    induction 1 as [|c' f Hc' Hf IH]; intros Hc.
    - cbn [app]. rewrite <- (app_nil_r c). constructor; [exact Hc|constructor].
    - rewrite <- app_assoc. constructor; [exact Hc'|]. apply IH. exact Hc.
  Qed.

  Lemma absorb_length st l : length st = 12%nat -> length (absorb permute st l) = 12%nat.
  Proof.
    intros Hst. destruct l as [|a l]; [exact Hst|].
    unfold absorb. cbn [length absorb_chunks].
    generalize (permute (overwrite st (firstn SPONGE_RATE (a :: l)))) (Hperm (overwrite st (firstn SPONGE_RATE (a :: l)))).
    generalize (skipn SPONGE_RATE (a :: l)). generalize (length l).
    induction n as [|n IH]; intros l0 s Hs; cbn [absorb_chunks]; [exact Hs|].
    destruct l0; [exact Hs|]. apply IH. apply Hperm.
  Qed.

  (* ---- hash_n_to_m_no_pad is the textbook overwrite-mode sponge *)
  Lemma absorb_chunks_spec : forall fuel st l,
    absorb_chunks permute fuel st l
    = fold_left (fun st c => permute (c ++ skipn (length c) st)) (chunks_of fuel l) st.
  Proof.
    induction fuel as [|fuel IH]; intros st l; cbn [absorb_chunks chunks_of fold_left]; [reflexivity|].
    destruct l as [|a l]; [reflexivity|]. cbn [fold_left]. rewrite IH. reflexivity.
  Qed.

  Lemma absorb_is_sponge_absorb l : absorb permute zero_state l = sponge_absorb permute (rate_chunks l).
  Proof. unfold absorb, sponge_absorb, rate_chunks. apply absorb_chunks_spec. Qed.

  Lemma squeeze_length (st : list F) : length st = 12%nat -> length (squeeze st) = SPONGE_RATE.
  Proof. intros H. unfold squeeze. rewrite firstn_length, H. reflexivity. Qed.

  Lemma squeeze_loop_spec : forall m fuel st, (m <= fuel)%nat -> length st = 12%nat ->
    squeeze_loop permute fuel st m = firstn m (sponge_stream permute (S (m / SPONGE_RATE)) st).
  Proof.
    intros m. induction m as [m IHm] using lt_wf_ind. intros fuel st Hf Hst.
    destruct fuel as [|fuel].
    - assert (m = 0%nat) by lia. subst m. reflexivity.
    - cbn [squeeze_loop]. destruct (Nat.leb_spec m SPONGE_RATE) as [Hle|Hgt].
      + cbn [sponge_stream]. fold (squeeze st). rewrite firstn_app.
        rewrite squeeze_length by exact Hst.
        replace (m - SPONGE_RATE)%nat with 0%nat by lia. rewrite firstn_O, app_nil_r. reflexivity.
      + unfold SPONGE_RATE in Hgt.
        assert (Hdiv : (m / SPONGE_RATE = S ((m - SPONGE_RATE) / SPONGE_RATE))%nat).
        { unfold SPONGE_RATE. replace m with ((m - 8) + 1 * 8)%nat at 1 by lia.
          rewrite Nat.div_add by lia. lia. }
        rewrite Hdiv. cbn [sponge_stream]. fold (squeeze st).
        rewrite firstn_app, squeeze_length by exact Hst.
        rewrite (firstn_all2 (squeeze st)) by (rewrite squeeze_length by exact Hst; unfold SPONGE_RATE; lia).
        f_equal. rewrite IHm; [reflexivity | unfold SPONGE_RATE; lia | unfold SPONGE_RATE; lia | apply Hperm].
  Qed.

  Lemma zero_state_length : length (@zero_state F FO) = 12%nat.
  Proof. unfold zero_state. apply repeat_length. Qed.

  Theorem hash_no_pad_is_overwrite_sponge : forall inputs m, m <> 0%nat ->
    hash_n_to_m_no_pad permute inputs m = Some (overwrite_sponge permute inputs m).
  Proof.
    intros inputs m Hm. unfold hash_n_to_m_no_pad, overwrite_sponge.
    destruct m as [|m]; [contradiction|]. f_equal.
    rewrite squeeze_loop_spec; [|lia|apply absorb_length, zero_state_length].
    rewrite absorb_is_sponge_absorb. reflexivity.
  Qed.

  Theorem hash_n_to_hash_is_overwrite_sponge : forall inputs,
    hash_n_to_hash_no_pad permute inputs = overwrite_sponge permute inputs NUM_HASH_OUT_ELTS.
  Proof.
    intros inputs. unfold hash_n_to_hash_no_pad, overwrite_sponge.
    rewrite squeeze_loop_spec; [|lia|apply absorb_length, zero_state_length].
    rewrite absorb_is_sponge_absorb. reflexivity.
  Qed.

  (* hash_n_to_m_no_pad(inputs, 0) does not terminate in the implementation *)
  Lemma hash_n_to_m_zero_outputs inputs : hash_n_to_m_no_pad permute inputs 0 = None.
  Proof. reflexivity. Qed.

  (* two_to_one / compress is the sponge on the 8 concatenated elements *)
  Theorem compress_is_sponge_on_8 : forall x y, length x = 4%nat -> length y = 4%nat ->
    compress permute x y = Some (hash_n_to_hash_no_pad permute (x ++ y))
    /\ compress permute x y = Some (two_to_one permute x y).
  Proof.
    intros x y Hx Hy.
    do 5 (destruct x as [|? x]; try discriminate Hx).
    do 5 (destruct y as [|? y]; try discriminate Hy).
    split; reflexivity.
  Qed.
End SpongeFacts.
