(* C15 proofs, part 4: `interpolant` of /repo/field/src/interpolation.rs (Model/PolyOps.v).
   For pairwise distinct abscissae and a number of points whose next power of two fits the
   two-adic subgroup (and a usize), the function does not panic, returns at most n coefficients
   and the returned polynomial passes through every point.  Route: the Lagrange polynomial as a
   coefficient list [lagrange]; `interpolate` returns its value at EVERY x (on and off the nodes);
   the evaluations on the subgroup are the DFT of the zero-padded [lagrange]; ifft inverts. *)
From Coq Require Import NArith ZArith List Lia Bool Arith Ring Field.
From Verif Require Import Base.Field Base.Poly Model.FieldGeneric Model.BitRev Model.FFT Model.PolyOps
  Proofs.BitRev Proofs.FFT Proofs.PolyOps.
Import ListNotations.
Local Open Scope field_scope.

Section Interpolant.
  Context {F : Type} {FO : FieldOps F} {FL : @FieldLaws F FO} {TA : TwoAdic F} {TL : TwoAdicLaws F}.
  Add Field Ffip : (@F_field_theory F FO FL).

  (* ---- the Lagrange polynomial as a coefficient list *)
  Definition linp (a : F) : list F := [ - a ; 1 ].

  Fixpoint prodp (pts : list (F * F)) (l : list nat) : list F :=
    match l with
    | [] => [1]
    | j :: l' => pmul (linp (px pts j)) (prodp pts l')
    end.

  Fixpoint psum (ps : list (list F)) : list F :=
    match ps with [] => [] | p :: r => padd p (psum r) end.

  Definition lag_term (pts : list (F * F)) (w : list F) (n i : nat) : list F :=
    pscale (nth i w 0 * py pts i) (prodp pts (others n i)).

  Definition lagrange (pts : list (F * F)) (w : list F) : list F :=
    psum (map (lag_term pts w (length pts)) (seq 0 (length pts))).

  Lemma peval_linp a x : peval (linp a) x = x - a.
  Proof. unfold linp. cbn [peval]. ring. Qed.

  Lemma peval_prodp pts x : forall l, peval (prodp pts l) x = fproduct (map (fun j => x - px pts j) l).
  Proof.
    induction l as [|j l IH]; cbn [prodp map].
    - unfold fproduct. cbn. ring.
    - rewrite peval_pmul, peval_linp, IH, fproduct_cons. reflexivity.
  Qed.

  Lemma prodp_length pts : forall l, length (prodp pts l) = S (length l).
  Proof.
    induction l as [|j l IH]; [reflexivity|]. cbn [prodp].
    rewrite pmul_length.
    - rewrite IH. cbn [linp length]. lia.
    - unfold linp. discriminate.
    - intros E. rewrite E in IH. discriminate.
  Qed.

  Lemma peval_psum x : forall ps, peval (psum ps) x = fsum_l (map (fun p => peval p x) ps).
  Proof.
    induction ps as [|p r IH]; cbn [psum map].
    - unfold fsum_l. reflexivity.
    - rewrite peval_padd, fsum_l_cons, IH. reflexivity.
  Qed.

  Lemma psum_length m : forall ps : list (list F), (forall p, In p ps -> (length p <= m)%nat) ->
    (length (psum ps) <= m)%nat.
  Proof.
    induction ps as [|p r IH]; intros H; cbn [psum]; [cbn; lia|].
    rewrite padd_length. apply Nat.max_lub.
    - apply H. left. reflexivity.
    - apply IH. intros q Hq. apply H. right. exact Hq.
  Qed.

  Lemma filter_neq_notin i : forall l : list nat, ~ In i l -> filter (fun j => negb (Nat.eqb j i)) l = l.
  Proof.
    induction l as [|a l IH]; intros Hn; [reflexivity|]. cbn [filter].
    destruct (Nat.eqb a i) eqn:E.
    - apply Nat.eqb_eq in E. exfalso. apply Hn. left. exact E.
    - cbn [negb]. f_equal. apply IH. intros H. apply Hn. right. exact H.
  Qed.

  Lemma filter_neq_length i : forall l : list nat, NoDup l -> In i l ->
    S (length (filter (fun j => negb (Nat.eqb j i)) l)) = length l.
  Proof.
    induction l as [|a l IH]; intros Hnd Hin; [destruct Hin|].
    apply NoDup_cons_iff in Hnd. destruct Hnd as [Ha Hnd]. cbn [filter].
    destruct (Nat.eqb a i) eqn:E.
    - apply Nat.eqb_eq in E. subst a. cbn [negb]. rewrite filter_neq_notin by exact Ha. reflexivity.
    - cbn [negb length]. f_equal. apply IH; [exact Hnd|].
      destruct Hin as [Hin|Hin]; [apply Nat.eqb_neq in E; congruence|exact Hin].
  Qed.

  Lemma others_length n i : (i < n)%nat -> S (length (others n i)) = n.
  Proof.
    intros Hi. unfold others. rewrite filter_neq_length.
    - apply seq_length.
    - apply seq_NoDup.
    - apply in_seq. lia.
  Qed.

  Lemma In_others n i j : In j (others n i) <-> (j < n)%nat /\ j <> i.
  Proof.
    unfold others. rewrite filter_In, in_seq, negb_true_iff, Nat.eqb_neq. lia.
  Qed.

  Lemma lagrange_length pts w : (length (lagrange pts w) <= length pts)%nat.
  Proof.
    unfold lagrange. apply psum_length. intros p Hp. apply in_map_iff in Hp.
    destruct Hp as [i [E Hi]]. apply in_seq in Hi. subst p. unfold lag_term.
    rewrite pscale_length, prodp_length. rewrite others_length by lia. lia.
  Qed.

  Lemma peval_lagrange pts w x :
    peval (lagrange pts w) x =
    fsum_l (map (fun i => nth i w 0 * py pts i *
                          fproduct (map (fun j => x - px pts j) (others (length pts) i)))
                (seq 0 (length pts))).
  Proof.
    unfold lagrange. rewrite peval_psum, map_map. apply fsum_l_ext. intros i _.
    unfold lag_term. rewrite peval_pscale, peval_prodp. reflexivity.
  Qed.

  (* ---- sums / products with vanishing terms *)
  Lemma fsum_l_zero (t : nat -> F) : forall l : list nat, (forall i, In i l -> t i = 0) -> fsum_l (map t l) = 0.
  Proof.
    induction l as [|a l IH]; intros H; [reflexivity|]. cbn [map]. rewrite fsum_l_cons.
    rewrite H by (left; reflexivity). rewrite IH by (intros; apply H; right; assumption). ring.
  Qed.

  Lemma fsum_l_single (t : nat -> F) k : forall l : list nat, NoDup l -> In k l ->
    (forall i, In i l -> i <> k -> t i = 0) -> fsum_l (map t l) = t k.
  Proof.
    induction l as [|a l IH]; intros Hnd Hin H; [destruct Hin|].
    apply NoDup_cons_iff in Hnd. destruct Hnd as [Ha Hnd]. cbn [map]. rewrite fsum_l_cons.
    destruct (Nat.eq_dec a k) as [E|E].
    - subst a. rewrite fsum_l_zero; [ring|].
      intros i Hi. apply H; [right; exact Hi|]. intros ->. apply Ha. exact Hi.
    - rewrite (H a) by (try (left; reflexivity); exact E).
      destruct Hin as [Hin|Hin]; [congruence|].
      rewrite IH; [ring|exact Hnd|exact Hin|]. intros i Hi. apply H. right. exact Hi.
  Qed.

  Lemma fproduct_zero : forall l : list F, In 0 l -> fproduct l = 0.
  Proof.
    induction l as [|a l IH]; intros Hin; [destruct Hin|]. rewrite fproduct_cons.
    destruct Hin as [->|Hin]; [ring|]. rewrite IH by exact Hin. ring.
  Qed.

  (* ---- the value of the Lagrange polynomial on a node *)
  Lemma peval_lagrange_node (pts : list (F * F)) (w : list F) k :
    (k < length pts)%nat ->
    nth k w 0 * fproduct (map (fun j => px pts k - px pts j) (others (length pts) k)) = 1 ->
    peval (lagrange pts w) (px pts k) = py pts k.
  Proof.
    intros Hk Hw. rewrite peval_lagrange.
    rewrite (fsum_l_single _ k).
    - transitivity (py pts k * (nth k w 0 * fproduct (map (fun j => px pts k - px pts j) (others (length pts) k)))); [ring|].
      rewrite Hw. ring.
    - apply seq_NoDup.
    - apply in_seq. lia.
    - intros i Hi Hne. apply in_seq in Hi.
      rewrite (fproduct_zero (map (fun j => px pts k - px pts j) (others (length pts) i))); [ring|].
      apply in_map_iff. exists k. split; [ring|]. apply In_others. lia.
  Qed.

  (* ---- steps (1)+(2): `interpolate` evaluates the Lagrange polynomial, at every x *)
  Theorem interpolate_is_lagrange_eval : forall (points : list (F * F)) (w : list F),
    length w = length points ->
    (forall i, (i < length points)%nat ->
       nth i w 0 * fproduct (map (fun j => px points i - px points j) (others (length points) i)) = 1) ->
    forall x, interpolate points x w = Some (peval (lagrange points w) x).
  Proof.
    intros points w Lw Hw x.
    destruct (find (fun p : F * F => fst p =? x) points) as [[xi yi]|] eqn:Ef.
    - unfold interpolate. rewrite Ef. f_equal.
      apply find_some in Ef. destruct Ef as [Hin Hx]. cbn [fst] in Hx. apply f_eqb_spec in Hx.
      destruct (In_nth points (xi, yi) (0, 0) Hin) as [k [Hk E]].
      assert (Ex : px points k = x) by (unfold px; rewrite E; exact Hx).
      assert (Ey : py points k = yi) by (unfold py; rewrite E; reflexivity).
      rewrite <- Ex, <- Ey. symmetry. apply peval_lagrange_node; [exact Hk|apply Hw; exact Hk].
    - rewrite peval_lagrange. apply interpolate_off_node_spec; [|exact Lw].
      intros i Hi. pose proof (find_none _ _ Ef (nth i points (0, 0)) (nth_In _ _ Hi)) as H.
      cbn beta in H. apply feqb_false in H. exact H.
  Qed.

  (* ---- the subgroup in the order of the DFT *)
  Lemma powers_map (g : F) N : powers g N = map (fun i => fpow g i) (seq 0 N).
  Proof.
    unfold powers. apply (nth_ext _ _ 0 0).
    - rewrite powers_from_length, map_length, seq_length. reflexivity.
    - rewrite powers_from_length. intros i Hi. rewrite nth_powers_from by exact Hi.
      rewrite (nth_indep _ 0 ((fun i => fpow g i) 0%nat)) by (rewrite map_length, seq_length; exact Hi).
      rewrite (map_nth (fun i => fpow g i) (seq 0 N) 0%nat i). rewrite seq_nth by exact Hi.
      cbn [plus]. ring.
  Qed.

  Lemma nth_repeat0 : forall m i, nth i (repeat (0 : F) m) 0 = 0.
  Proof. induction m as [|m IH]; intros [|i]; cbn [repeat nth]; auto. Qed.

  Lemma nth_app_zeros (p : list F) m i : (length p <= i)%nat -> nth i (p ++ repeat 0 m) 0 = 0.
  Proof. intros H. rewrite app_nth2 by lia. apply nth_repeat0. Qed.

  (* ---- the theorem *)
  Theorem interpolant_spec : forall (points : list (F * F)),
    (forall i j, (i < length points)%nat -> (j < length points)%nat -> i <> j -> px points i <> px points j) ->
    (log2_ceil_nat (length points) <= ta_two_adicity)%nat ->
    (log2_ceil_nat (length points) < 64)%nat ->
    exists c, interpolant points = Some c /\
              (length c <= length points)%nat /\
              forall i, (i < length points)%nat -> peval c (px points i) = py points i.
  Proof.
    intros points Hd Hk Hok. unfold interpolant.
    change (N.to_nat (log2_ceil (N.of_nat (length points)))) with (log2_ceil_nat (length points)).
    set (n := length points) in *. set (k := log2_ceil_nat n) in *.
    unfold two_adic_subgroup. rewrite (primitive_root_of_unity_some k Hk). cbn [bind].
    destruct (barycentric_weights_spec points Hd) as [w [Ew [Lw Hw]]]. fold n in Lw, Hw.
    rewrite Ew. cbn [bind].
    set (L := lagrange points w).
    assert (LL : (length L <= n)%nat) by apply lagrange_length.
    assert (HnN : (n <= 2 ^ k)%nat) by apply log2_ceil_nat_ge.
    set (P := L ++ repeat 0 (2 ^ k - length L)).
    assert (LP : length P = (2 ^ k)%nat) by (unfold P; rewrite app_length, repeat_length; lia).
    assert (EP : forall x, peval P x = peval L x) by (intros x; apply peval_app_zeros).
    rewrite (mapM_all_some _ (fun x => peval L x)).
    2:{ intros x _. apply interpolate_is_lagrange_eval; assumption. }
    cbn [bind].
    assert (Eev : map (fun x => peval L x) (powers (prou k) (2 ^ k)) = dft (prou k) P).
    { rewrite powers_map, map_map. unfold dft. rewrite LP. apply map_ext. intros i. symmetry. apply EP. }
    rewrite Eev.
    rewrite (ifft_with_options_spec k _ None None Hk Hok ltac:(rewrite dft_length; exact LP) I I).
    cbn [bind]. rewrite (idft_dft k P Hk LP).
    exists (trimmed P). split; [reflexivity|]. split.
    - rewrite trimmed_length. apply degree_plus_one_bound. intros i Hi. apply nth_app_zeros. lia.
    - intros i Hi. rewrite peval_trimmed, EP. unfold L.
      apply peval_lagrange_node; [exact Hi|apply Hw; exact Hi].
  Qed.
End Interpolant.

Print Assumptions interpolate_is_lagrange_eval.
Print Assumptions interpolant_spec.
