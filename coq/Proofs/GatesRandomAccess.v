(* C07 - RandomAccessGate: the claimed element is pinned by definition (the folded selection), the
   bit wires through the index reconstruction (delta * 2^i <> 0, needs 2 < p).  A generated row is
   satisfying when the access index is below 2^bits (otherwise the generator has no value to
   write; debug_assert) and the routed extra constants hold the gate constants. *)
From Coq Require Import ZArith List Lia Arith Bool FinFun.
From Verif Require Import Base.Field Model.FieldGeneric Model.Gates Proofs.GatesLib Proofs.GatesSimple
  Proofs.GatesBaseSum.
Import ListNotations.
Local Open Scope nat_scope.

Section ZBits.
  Open Scope Z_scope.
  Fixpoint zbits (n : nat) (a : Z) : list bool :=
    match n with O => [] | S n' => Z.odd a :: zbits n' (a / 2) end.

  Lemma shiftr_succ a i : 0 <= i -> Z.shiftr a (Z.succ i) = Z.shiftr a i / 2.
  Proof.
    intros Hi. rewrite <- Z.add_1_r. rewrite <- Z.shiftr_shiftr by lia.
    rewrite (Z.shiftr_div_pow2 _ 1) by lia. reflexivity.
  Qed.

  Lemma zbits_seq n : forall a s,
    map (fun i => Z.odd (Z.shiftr a (Z.of_nat i))) (seq s n) = zbits n (Z.shiftr a (Z.of_nat s)).
  Proof.
    induction n as [|n IH]; intros a s; cbn [seq map zbits]; [reflexivity|].
    f_equal. rewrite IH. f_equal. rewrite Nat2Z.inj_succ. apply shiftr_succ. lia.
  Qed.

  Definition zrecon (bs : list bool) : Z := fold_right (fun b acc => acc + acc + Z.b2z b) 0 bs.

  Lemma zrecon_zbits n : forall a, 0 <= a -> zrecon (zbits n a) = a mod 2 ^ Z.of_nat n.
  Proof.
    induction n as [|n IH]; intros a Ha.
    - cbn [zbits zrecon fold_right]. change (Z.of_nat 0) with 0. rewrite Z.pow_0_r, Z.mod_1_r. reflexivity.
    - cbn [zbits zrecon fold_right]. fold (zrecon (zbits n (a / 2))). rewrite IH by (apply Z.div_pos; lia).
      rewrite Nat2Z.inj_succ, Z.pow_succ_r by lia.
      rewrite Z.rem_mul_r by (try lia; apply Z.pow_nonzero; lia).
      rewrite Zmod_odd. destruct (Z.odd a); cbn [Z.b2z]; lia.
  Qed.
End ZBits.

Section RandomAccess.
  Context {K : Type} `{FL : FieldLaws K} {OB : OfBase K} {TC : ToCanon K}.
  Variable p : Z.
  Context {BL : BaseLaws K p}.
  Add Field Kf_ra : (@F_field_theory K _ FL).

  Definition kbit (b : bool) : K := if b then 1%F else 0%F.

  (* ---- index reconstruction *)
  Lemma ra_reconstruct_reduce (bl : list K) : ra_reconstruct bl = reduce_with_powers bl (1 + 1)%F.
  Proof.
    unfold ra_reconstruct, reduce_with_powers. induction bl as [|b bl IH]; cbn [fold_right]; [reflexivity|].
    rewrite IH. ring.
  Qed.

  Lemma kbit_of_base b : kbit b = of_base (Z.b2z b).
  Proof. destruct b; cbn [kbit Z.b2z]; [symmetry; apply of_base_1 | symmetry; apply of_base_0]. Qed.

  Lemma ra_reconstruct_hom (bs : list bool) : ra_reconstruct (map kbit bs) = of_base (zrecon bs).
  Proof.
    unfold ra_reconstruct, zrecon. induction bs as [|b bs IH]; cbn [map fold_right].
    - symmetry. apply of_base_0.
    - rewrite IH. rewrite !of_base_add. rewrite kbit_of_base. reflexivity.
  Qed.

  (* ---- the folded selection *)
  Lemma fold_pairs_length (b : K) : forall m l, length l = 2 * m -> length (fold_pairs b l) = m.
  Proof.
    induction m as [|m IH]; intros l Hl.
    - destruct l; [reflexivity | cbn [length] in Hl; lia].
    - destruct l as [|x [|y l]]; cbn [length] in Hl; try lia.
      cbn [fold_pairs length]. rewrite IH by lia. reflexivity.
  Qed.

  Lemma fold_pairs_nth (b : bool) : forall m l j, length l = 2 * m -> j < m ->
    nthF (fold_pairs (kbit b) l) j = nthF l (2 * j + (if b then 1 else 0)).
  Proof.
    induction m as [|m IH]; intros l j Hl Hj; [lia|].
    destruct l as [|x [|y l]]; cbn [length] in Hl; try lia.
    cbn [fold_pairs]. destruct j as [|j].
    - unfold nthF. cbn [nth]. destruct b; cbn [kbit Nat.mul Nat.add nth]; ring.
    - unfold nthF in *. cbn [nth]. rewrite IH by lia.
      replace (2 * S j + (if b then 1 else 0)) with (S (S (2 * j + (if b then 1 else 0)))) by lia.
      reflexivity.
  Qed.

  Lemma ra_select_cons b bs items : ra_select (b :: bs) items = ra_select bs (fold_pairs b items).
  Proof. reflexivity. Qed.

  Lemma ra_select_correct : forall n a (items : list K),
    length items = pow2 n -> (0 <= a < 2 ^ Z.of_nat n)%Z ->
    ra_select (map kbit (zbits n a)) items = nthF items (Z.to_nat a).
  Proof.
    induction n as [|n IH]; intros a items Hl Ha.
    - change (Z.of_nat 0) with 0%Z in Ha. rewrite Z.pow_0_r in Ha. assert (a = 0%Z) by lia. subst a.
      reflexivity.
    - cbn [zbits map]. rewrite ra_select_cons.
      assert (Hl2 : length items = 2 * pow2 n) by (rewrite Hl; unfold pow2; cbn [Nat.pow]; lia).
      rewrite Nat2Z.inj_succ, Z.pow_succ_r in Ha by lia.
      assert (Ha2 : (0 <= a / 2 < 2 ^ Z.of_nat n)%Z).
      { split; [apply Z.div_pos; lia | apply Z.div_lt_upper_bound; lia]. }
      rewrite IH; [|apply fold_pairs_length; exact Hl2 | exact Ha2].
      rewrite (fold_pairs_nth (Z.odd a) (pow2 n)); [|exact Hl2|].
      + f_equal. pose proof (Zmod_odd a) as Hm. pose proof (Z.div_mod a 2 ltac:(lia)) as Hd.
        destruct (Z.odd a); lia.
      + unfold pow2. assert (Z.of_nat (Z.to_nat (a / 2)) < Z.of_nat (2 ^ n))%Z; [|lia].
        rewrite Z2Nat.id by lia. rewrite Nat2Z.inj_pow. exact (proj2 Ha2).
  Qed.

  (* ---- index arithmetic *)
  Lemma lt_block M c k n : c < n -> k < M -> M * c + k < M * n.
  Proof. intros. nia. Qed.
  Lemma euclid_unique M c k c' k' : k < M -> k' < M -> M * c + k = M * c' + k' -> c = c' /\ k = k'.
  Proof. intros. assert (c = c') by nia. subst. split; [reflexivity | lia]. Qed.

  Variables bits copies extra : nat.
  Hypothesis Hbits : 1 <= bits.
  Hypothesis Hcopies : 1 <= copies.

  Let vs := ra_vec_size bits.
  Let M := 2 + vs.
  Let R := ra_num_routed bits copies extra.

  Lemma R_eq : R = M * copies + extra. Proof. reflexivity. Qed.
  Lemma wire_bit_eq i c : ra_wire_bit bits copies extra i c = R + (bits * c + i).
  Proof. unfold ra_wire_bit. fold R. lia. Qed.
  Lemma M_ge : 3 <= M.
  Proof. unfold M, vs, ra_vec_size, pow2. pose proof (Nat.pow_nonzero 2 bits ltac:(lia)). lia. Qed.

  Definition ra_access (row : list K) (c : nat) : Z := to_canon (nthF row (M * c)).
  Definition ra_copy_writes (row : list K) (c : nat) : list (nat * K) :=
    ((M * c + 1), nthF row (M * c + 2 + Z.to_nat (ra_access row c)))
    :: map (fun i => (ra_wire_bit bits copies extra i c,
                      kbit (Z.odd (Z.shiftr (ra_access row c) (Z.of_nat i))))) (seq 0 bits).

  Definition ra_step (row : list K) (copy : nat) (acc : option (list (nat * K))) : option (list (nat * K)) :=
    match acc with
    | None => None
    | Some l => if (ra_access row copy <? Z.of_nat vs)%Z then Some (ra_copy_writes row copy ++ l) else None
    end.

  Lemma ra_writes_fold (consts row : list K) :
    gate_writes (RandomAccessGate bits copies extra) consts row
    = fold_right (ra_step row) (Some []) (seq 0 copies).
  Proof. reflexivity. Qed.

  Lemma ra_writes_char_list (row : list K) : forall (l : list nat) wr,
    fold_right (ra_step row) (Some []) l = Some wr
    <-> (forall c, In c l -> (ra_access row c < Z.of_nat vs)%Z) /\ wr = flat_map (ra_copy_writes row) l.
  Proof.
    induction l as [|c l IH]; intros wr; cbn [fold_right flat_map].
    - split.
      + intros E. apply Some_eq in E. subst. split; [intros c []|reflexivity].
      + intros [_ E]. subst. reflexivity.
    - destruct (fold_right (ra_step row) (Some []) l) as [wl|] eqn:Efold; cbn [ra_step].
      + destruct (Z.ltb_spec (ra_access row c) (Z.of_nat vs)) as [Hlt|Hge].
        * destruct (proj1 (IH wl) eq_refl) as [Hall Ewl]. subst wl. split.
          -- intros E. apply Some_eq in E. subst wr.
             split; [intros c' [<-|Hc']; [exact Hlt | apply Hall; exact Hc'] | reflexivity].
          -- intros [_ E]. subst wr. reflexivity.
        * split; [discriminate|]. intros [Hall _]. specialize (Hall c (or_introl eq_refl)). lia.
      + split; [discriminate|]. intros [Hall E].
        assert (Hx : None = Some (flat_map (ra_copy_writes row) l)).
        { apply (IH (flat_map (ra_copy_writes row) l)). split; [intros c' Hc'; apply Hall; right; exact Hc' | reflexivity]. }
        discriminate.
  Qed.

  Lemma ra_writes_char (consts row : list K) wr :
    gate_writes (RandomAccessGate bits copies extra) consts row = Some wr
    <-> (forall c, c < copies -> (ra_access row c < Z.of_nat vs)%Z)
        /\ wr = flat_map (ra_copy_writes row) (seq 0 copies).
  Proof.
    rewrite ra_writes_fold. rewrite (ra_writes_char_list row (seq 0 copies) wr).
    split; intros [Hall E]; (split; [|exact E]); intros c Hc; apply Hall; [apply in_seq; lia | apply in_seq in Hc; lia].
  Qed.

  Lemma ra_in_copy_writes row c w v : In (w, v) (ra_copy_writes row c) <->
    (w = M * c + 1 /\ v = nthF row (M * c + 2 + Z.to_nat (ra_access row c)))
    \/ exists i, i < bits /\ w = ra_wire_bit bits copies extra i c
                 /\ v = kbit (Z.odd (Z.shiftr (ra_access row c) (Z.of_nat i))).
  Proof.
    unfold ra_copy_writes. cbn [In]. rewrite in_map_iff. split.
    - intros [E|[i [E Hi]]].
      + apply pair_equal_spec in E. left. destruct E; split; congruence.
      + apply pair_equal_spec in E. right. exists i. apply in_seq in Hi. destruct E. repeat split; try lia; congruence.
    - intros [[Ew Ev]|[i [Hi [Ew Ev]]]].
      + left. subst. reflexivity.
      + right. exists i. split; [subst; reflexivity | apply in_seq; lia].
  Qed.

  Lemma ra_in_written w : In w (gate_written (RandomAccessGate bits copies extra)) <->
    exists c, c < copies /\ (w = M * c + 1 \/ exists i, i < bits /\ w = ra_wire_bit bits copies extra i c).
  Proof.
    cbn [gate_written]. rewrite in_flat_map. fold vs M. split.
    - intros [c [Hc Hin]]. apply in_seq in Hc. exists c. split; [lia|]. cbn [In] in Hin.
      destruct Hin as [E|Hin]; [left; lia|]. right. apply in_map_iff in Hin. destruct Hin as [i [E Hi]].
      apply in_seq in Hi. exists i. split; [lia | congruence].
    - intros [c [Hc Hw]]. exists c. split; [apply in_seq; lia|]. cbn [In]. destruct Hw as [E|[i [Hi E]]].
      + left. lia.
      + right. apply in_map_iff. exists i. split; [congruence | apply in_seq; lia].
  Qed.

  (* the input wires are not written *)
  Lemma ra_input_not_written c k : c < copies -> k < M -> k <> 1 ->
    ~ In (M * c + k) (gate_written (RandomAccessGate bits copies extra)).
  Proof.
    intros Hc Hk Hk1 Hin. apply ra_in_written in Hin. destruct Hin as [c' [Hc' [E|[i [Hi E]]]]].
    - pose proof M_ge. destruct (euclid_unique M c k c' 1 Hk ltac:(lia) E). lia.
    - rewrite wire_bit_eq, R_eq in E. pose proof (lt_block M c k copies Hc Hk). lia.
  Qed.
  Lemma ra_extra_not_written i : i < extra ->
    ~ In (M * copies + i) (gate_written (RandomAccessGate bits copies extra)).
  Proof.
    intros Hi Hin. apply ra_in_written in Hin. destruct Hin as [c' [Hc' [E|[j [Hj E]]]]].
    - pose proof M_ge. pose proof (lt_block M c' 1 copies Hc' ltac:(lia)). lia.
    - rewrite wire_bit_eq, R_eq in E. lia.
  Qed.

  Hypothesis Hp2 : (2 < p)%Z.

  Lemma two_nonzero : ((1 + 1 : K) <> 0)%F.
  Proof.
    rewrite <- of_base_1, <- of_base_add, <- of_base_0. apply (of_base_neq p); lia.
  Qed.

  Definition ok_random_access (consts row pi : list K) : Prop :=
    forall i, i < extra -> nthF row (M * copies + i) = nthF consts i.

  Definition ra_true_bits (a : Z) : list K :=
    map (fun i => kbit (Z.odd (Z.shiftr a (Z.of_nat i)))) (seq 0 bits).

  Lemma ra_true_bits_zbits a : ra_true_bits a = map kbit (zbits bits a).
  Proof.
    unfold ra_true_bits.
    rewrite <- (map_map (fun i => Z.odd (Z.shiftr a (Z.of_nat i))) kbit). f_equal.
    rewrite zbits_seq. change (Z.of_nat 0) with 0%Z. rewrite Z.shiftr_0_r. reflexivity.
  Qed.

  Lemma ra_true_bits_recon a : (0 <= a < Z.of_nat vs)%Z -> ra_reconstruct (ra_true_bits a) = of_base a.
  Proof.
    intros Ha. rewrite ra_true_bits_zbits, ra_reconstruct_hom. rewrite zrecon_zbits by lia.
    f_equal. apply Z.mod_small. unfold vs, ra_vec_size, pow2 in Ha. rewrite Nat2Z.inj_pow in Ha. exact Ha.
  Qed.

  Lemma ra_items_length row c : length (ra_items bits row c) = pow2 bits.
  Proof. unfold ra_items. rewrite map_length, seq_length. reflexivity. Qed.

  Lemma ra_true_bits_select a row c : (0 <= a < Z.of_nat vs)%Z ->
    ra_select (ra_true_bits a) (ra_items bits row c) = nthF row (M * c + 2 + Z.to_nat a).
  Proof.
    intros Ha. rewrite ra_true_bits_zbits.
    rewrite (ra_select_correct bits a); [|apply ra_items_length|].
    - unfold ra_items, nthF. rewrite nth_map_seq_gen by (fold vs; lia). reflexivity.
    - unfold vs, ra_vec_size, pow2 in Ha. rewrite Nat2Z.inj_pow in Ha. exact Ha.
  Qed.

  Lemma ra_bits_nth row c i : i < bits ->
    nth i (ra_bits bits copies extra row c) 0%F = nthF row (ra_wire_bit bits copies extra i c).
  Proof. intros Hi. unfold ra_bits. rewrite nth_map_seq_gen by exact Hi. reflexivity. Qed.

  Lemma ra_true_bits_nth a i : i < bits ->
    nth i (ra_true_bits a) 0%F = kbit (Z.odd (Z.shiftr a (Z.of_nat i))).
  Proof. intros Hi. unfold ra_true_bits. rewrite nth_map_seq_gen by exact Hi. reflexivity. Qed.

  Lemma ra_bits_eq_true row c a :
    (forall i, i < bits -> nthF row (ra_wire_bit bits copies extra i c) = kbit (Z.odd (Z.shiftr a (Z.of_nat i)))) ->
    ra_bits bits copies extra row c = ra_true_bits a.
  Proof.
    intros Hb. unfold ra_bits, ra_true_bits. apply map_ext_in. intros i Hi. apply in_seq in Hi. apply Hb. lia.
  Qed.

  Lemma ra_access_range row c : (0 <= ra_access row c)%Z.
  Proof. unfold ra_access. pose proof (to_canon_range (nthF row (M * c))). lia. Qed.

  Lemma random_access_spec : gate_spec (RandomAccessGate bits copies extra) ok_random_access.
  Proof.
    pose proof M_ge as HM.
    assert (Hacc_ext : forall r1 r2 c, same_outside (gate_written (RandomAccessGate bits copies extra)) r1 r2 ->
               c < copies -> ra_access r1 c = ra_access r2 c).
    { intros r1 r2 c He Hc. unfold ra_access. f_equal.
      replace (M * c) with (M * c + 0) by lia. apply He. apply ra_input_not_written; lia. }
    constructor.
    - (* writes_ext *)
      intros consts r1 r2 He. rewrite !ra_writes_fold. apply fold_right_ext_in.
      intros c acc Hc. apply in_seq in Hc. unfold ra_step. destruct acc as [l|]; [|reflexivity].
      rewrite (Hacc_ext r1 r2 c He) by lia.
      destruct (Z.ltb_spec (ra_access r2 c) (Z.of_nat vs)) as [Hlt|Hge]; [|reflexivity].
      f_equal. f_equal. unfold ra_copy_writes. rewrite (Hacc_ext r1 r2 c He) by lia.
      f_equal. f_equal. pose proof (ra_access_range r2 c).
      replace (M * c + 2 + Z.to_nat (ra_access r2 c)) with (M * c + (2 + Z.to_nat (ra_access r2 c))) by lia.
      apply He. apply ra_input_not_written; unfold M; lia.
    - (* ok_ext *)
      intros consts pi r1 r2 He Hok i Hi. rewrite <- (He (M * copies + i)); [apply Hok; exact Hi|].
      apply ra_extra_not_written. exact Hi.
    - (* idx *)
      intros consts r wr w v Hw Hin. apply ra_writes_char in Hw. destruct Hw as [_ Ewr]. subst wr.
      apply in_flat_map in Hin. destruct Hin as [c [Hc Hin]]. apply in_seq in Hc.
      apply ra_in_copy_writes in Hin. split.
      + apply ra_in_written. exists c. split; [lia|].
        destruct Hin as [[Ew _]|[i [Hi [Ew _]]]]; [left; exact Ew | right; exists i; auto].
      + cbn [gate_num_wires]. rewrite wire_bit_eq, R_eq.
        destruct Hin as [[Ew _]|[i [Hi [Ew _]]]].
        * pose proof (lt_block M c 1 copies ltac:(lia) ltac:(lia)).
          assert (E1 : bits * (copies - 1) = bits * copies - bits) by (rewrite Nat.mul_sub_distr_l; lia).
          assert (E2 : bits <= bits * copies) by nia. lia.
        * rewrite Ew, wire_bit_eq, R_eq. pose proof (lt_block bits c i copies ltac:(lia) Hi).
          assert (E1 : bits * (copies - 1) = bits * copies - bits) by (rewrite Nat.mul_sub_distr_l; lia).
          assert (E2 : bits <= bits * copies) by nia. lia.
    - (* cov *)
      intros consts r wr w Hw Hin. apply ra_writes_char in Hw. destruct Hw as [_ Ewr]. subst wr.
      apply ra_in_written in Hin. destruct Hin as [c [Hc Hcase]].
      destruct Hcase as [Ew|[i [Hi Ew]]].
      + exists (nthF r (M * c + 2 + Z.to_nat (ra_access r c))). apply in_flat_map. exists c.
        split; [apply in_seq; lia|]. apply ra_in_copy_writes. left. auto.
      + exists (kbit (Z.odd (Z.shiftr (ra_access r c) (Z.of_nat i)))). apply in_flat_map. exists c.
        split; [apply in_seq; lia|]. apply ra_in_copy_writes. right. exists i. auto.
    - (* functional *)
      intros consts r wr Hw. apply ra_writes_char in Hw. destruct Hw as [_ Ewr]. subst wr.
      intros w v v' H1 H2. apply in_flat_map in H1, H2.
      destruct H1 as [c [Hc H1]]. destruct H2 as [c' [Hc' H2]]. apply in_seq in Hc, Hc'.
      apply ra_in_copy_writes in H1, H2.
      destruct H1 as [[Ew Ev]|[i [Hi [Ew Ev]]]]; destruct H2 as [[Ew' Ev']|[i' [Hi' [Ew' Ev']]]].
      + rewrite Ew in Ew'. destruct (euclid_unique M c 1 c' 1 ltac:(lia) ltac:(lia) Ew'). subst c'. congruence.
      + exfalso. rewrite Ew, wire_bit_eq, R_eq in Ew'. pose proof (lt_block M c 1 copies ltac:(lia) ltac:(lia)). lia.
      + exfalso. rewrite Ew', wire_bit_eq, R_eq in Ew. pose proof (lt_block M c' 1 copies ltac:(lia) ltac:(lia)). lia.
      + rewrite Ew, !wire_bit_eq in Ew'.
        destruct (euclid_unique bits c i c' i' Hi Hi' ltac:(lia)). subst c' i'. congruence.
    - (* satisfaction *)
      intros consts pi r wr Hok Hw Ha. apply ra_writes_char in Hw. destruct Hw as [Hlt Ewr]. subst wr.
      cbn [gate_eval_unfiltered]. unfold eval_random_access. apply zero_all_app. split.
      + apply zero_all_flat_map. intros c Hc. apply in_seq in Hc.
        assert (Harange : (0 <= ra_access r c < Z.of_nat vs)%Z).
        { split; [apply ra_access_range | apply Hlt; lia]. }
        assert (Hin : forall w v, In (w, v) (ra_copy_writes r c) -> nthF r w = v).
        { intros w v Hwv. apply Ha. apply in_flat_map. exists c. split; [apply in_seq; lia | exact Hwv]. }
        assert (Hbl : ra_bits bits copies extra r c = ra_true_bits (ra_access r c)).
        { apply ra_bits_eq_true. intros i Hi. apply Hin. apply ra_in_copy_writes. right. exists i. auto. }
        unfold ra_copy_constraints. fold vs M. rewrite Hbl. repeat (apply zero_all_app; split).
        * apply zero_all_map. intros b Hb. unfold ra_true_bits in Hb. apply in_map_iff in Hb.
          destruct Hb as [i [<- _]]. destruct (Z.odd _); cbn [kbit]; ring.
        * constructor; [|constructor]. rewrite (ra_true_bits_recon _ Harange).
          unfold ra_access. rewrite of_base_to_canon. ring.
        * constructor; [|constructor]. rewrite (ra_true_bits_select _ r c Harange).
          rewrite (Hin (M * c + 1) (nthF r (M * c + 2 + Z.to_nat (ra_access r c)))).
          -- ring.
          -- apply ra_in_copy_writes. left. auto.
      + apply zero_all_map. intros i Hi. apply in_seq in Hi. unfold ra_start_extra. fold vs M.
        rewrite (Hok i) by lia. ring.
    - (* one written wire replaced *)
      intros consts pi r wr w gv Hok Hw Hin Hex Hne.
      apply ra_writes_char in Hw. destruct Hw as [Hlt Ewr]. subst wr.
      apply in_flat_map in Hin. destruct Hin as [c [Hc Hin]]. apply in_seq in Hc.
      assert (Harange : (0 <= ra_access r c < Z.of_nat vs)%Z).
      { split; [apply ra_access_range | apply Hlt; lia]. }
      assert (Hother : forall w' v, In (w', v) (ra_copy_writes r c) -> w' <> w -> nthF r w' = v).
      { intros w' v Hwv Hn. apply Hex; [|exact Hn]. apply in_flat_map. exists c. split; [apply in_seq; lia | exact Hwv]. }
      cbn [gate_eval_unfiltered]. unfold eval_random_access. apply nonzero_some_app. left.
      apply (nonzero_some_flat_map _ _ c); [apply in_seq; lia|].
      unfold ra_copy_constraints. fold vs M.
      apply ra_in_copy_writes in Hin. destruct Hin as [[Ew Ev]|[i [Hi [Ew Ev]]]].
      + (* the claimed element *)
        assert (Hbl : ra_bits bits copies extra r c = ra_true_bits (ra_access r c)).
        { apply ra_bits_eq_true. intros i Hi. apply Hother.
          - apply ra_in_copy_writes. right. exists i. auto.
          - rewrite Ew, wire_bit_eq, R_eq. pose proof (lt_block M c 1 copies ltac:(lia) ltac:(lia)). lia. }
        rewrite Hbl. apply nonzero_some_app. right. apply nonzero_some_app. right.
        apply Exists_cons_hd. rewrite (ra_true_bits_select _ r c Harange). rewrite <- Ev, <- Ew.
        intros E. apply Hne. symmetry. apply f_sub_eq_0. exact E.
      + (* a bit wire: the index reconstruction is off by delta * 2^i *)
        apply nonzero_some_app. right. apply nonzero_some_app. left. apply Exists_cons_hd.
        rewrite ra_reconstruct_reduce.
        rewrite (reduce_diff (1 + 1)%F (ra_bits bits copies extra r c) (ra_true_bits (ra_access r c)) i).
        * rewrite <- ra_reconstruct_reduce. rewrite (ra_true_bits_recon _ Harange).
          unfold ra_access at 1. rewrite of_base_to_canon.
          rewrite (ra_bits_nth r c i Hi), (ra_true_bits_nth _ i Hi). rewrite <- Ew, <- Ev.
          intros E.
          assert (E2 : ((nthF r w - gv) * fpow (1 + 1) i)%F = 0%F) by (rewrite <- E; ring).
          apply f_mul_eq_0 in E2. destruct E2 as [E2|E2].
          -- apply Hne. apply f_sub_eq_0. exact E2.
          -- apply (fpow_neq_0 (1 + 1)%F i two_nonzero E2).
        * unfold ra_bits, ra_true_bits. rewrite !map_length. reflexivity.
        * unfold ra_bits. rewrite map_length, seq_length. exact Hi.
        * intros j Hj. destruct (Nat.lt_ge_cases j bits) as [Hjb|Hjb].
          -- rewrite (ra_bits_nth r c j Hjb), (ra_true_bits_nth _ j Hjb). apply Hother.
             ++ apply ra_in_copy_writes. right. exists j. auto.
             ++ rewrite Ew, !wire_bit_eq. lia.
          -- rewrite !nth_overflow; [reflexivity | unfold ra_true_bits; rewrite map_length, seq_length; lia
                                     | unfold ra_bits; rewrite map_length, seq_length; lia].
  Qed.
End RandomAccess.
