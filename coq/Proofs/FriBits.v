(* Bit-reversal and chunking facts for the FRI model:
   reverse_bits / reverse_index_bits (Model.Fri) and chunks_exact (Model.FriProver).
   Everything is in nat and fully proved. *)
From Coq Require Import List Arith Lia Bool.
From Verif Require Import Model.Fri Model.FriProver.
Import ListNotations.
Local Open Scope nat_scope.

(* ---------- arithmetic helpers ---------- *)

Lemma pow2_nz : forall a, 2 ^ a <> 0.
Proof. intro a. apply Nat.pow_nonzero. discriminate. Qed.

Lemma pow2_div : forall n a, a <= n -> 2 ^ n / 2 ^ a = 2 ^ (n - a).
Proof.
  intros n a Hle.
  replace n with ((n - a) + a) at 1 by lia.
  rewrite Nat.pow_add_r.
  apply Nat.div_mul. apply pow2_nz.
Qed.

Lemma index_split : forall x a, x = (x / 2 ^ a) * 2 ^ a + x mod 2 ^ a /\ x mod 2 ^ a < 2 ^ a.
Proof.
  intros x a. split.
  - rewrite (Nat.mul_comm (x / 2 ^ a)). apply Nat.div_mod. apply pow2_nz.
  - apply Nat.mod_upper_bound. apply pow2_nz.
Qed.

Lemma index_div_lt : forall x n a, a <= n -> x < 2 ^ n -> x / 2 ^ a < 2 ^ (n - a).
Proof.
  intros x n a Hle Hx.
  apply Nat.div_lt_upper_bound; [apply pow2_nz|].
  rewrite <- Nat.pow_add_r.
  replace (a + (n - a)) with n by lia. exact Hx.
Qed.

(* ---------- reverse_bits ---------- *)

Lemma reverse_bits_aux_acc : forall b m acc,
  reverse_bits_aux m b acc = acc * 2 ^ b + reverse_bits_aux m b 0.
Proof.
  induction b as [|b IHb]; intros m acc; cbn [reverse_bits_aux].
  - rewrite Nat.pow_0_r. lia.
  - rewrite (IHb (Nat.div2 m) (2 * acc + _)).
    rewrite (IHb (Nat.div2 m) (2 * 0 + _)).
    rewrite Nat.pow_succ_r'.
    set (e := if Nat.odd m then 1 else 0).
    set (P := 2 ^ b).
    set (R := reverse_bits_aux (Nat.div2 m) b 0).
    ring.
Qed.

Lemma div2_div_pow : forall m b, Nat.div2 m / 2 ^ b = m / 2 ^ S b.
Proof.
  intros m b. rewrite Nat.div2_div, Nat.pow_succ_r'.
  apply Nat.div_div; [discriminate | apply pow2_nz].
Qed.

Lemma reverse_bits_aux_split : forall b1 b2 m acc,
  reverse_bits_aux m (b1 + b2) acc = reverse_bits_aux (m / 2 ^ b1) b2 (reverse_bits_aux m b1 acc).
Proof.
  induction b1 as [|b1 IH]; intros b2 m acc.
  - cbn [Nat.add reverse_bits_aux]. rewrite Nat.pow_0_r, Nat.div_1_r. reflexivity.
  - cbn [Nat.add reverse_bits_aux]. rewrite IH. rewrite div2_div_pow. reflexivity.
Qed.

Lemma div2_shift : forall c b t, Nat.div2 (c * 2 ^ S b + t) = c * 2 ^ b + Nat.div2 t.
Proof.
  intros c b t. rewrite !Nat.div2_div, Nat.pow_succ_r'.
  replace (c * (2 * 2 ^ b) + t) with ((c * 2 ^ b) * 2 + t) by ring.
  apply Nat.div_add_l. discriminate.
Qed.

Lemma odd_shift : forall c b t, Nat.odd (c * 2 ^ S b + t) = Nat.odd t.
Proof.
  intros c b t. rewrite Nat.pow_succ_r'.
  replace (c * (2 * 2 ^ b) + t) with (t + 2 * (c * 2 ^ b)) by ring.
  apply Nat.odd_add_mul_2.
Qed.

Lemma reverse_bits_aux_mod : forall b c t acc, t < 2 ^ b ->
  reverse_bits_aux (c * 2 ^ b + t) b acc = reverse_bits_aux t b acc.
Proof.
  induction b as [|b IH]; intros c t acc Ht.
  - reflexivity.
  - cbn [reverse_bits_aux]. rewrite div2_shift, odd_shift.
    apply IH.
    rewrite Nat.div2_div. apply Nat.div_lt_upper_bound; [discriminate|].
    rewrite Nat.pow_succ_r' in Ht. exact Ht.
Qed.

Lemma reverse_bits_lt : forall a t, reverse_bits t a < 2 ^ a.
Proof.
  unfold reverse_bits.
  induction a as [|a IH]; intro t; cbn [reverse_bits_aux].
  - rewrite Nat.pow_0_r. lia.
  - rewrite reverse_bits_aux_acc. rewrite Nat.pow_succ_r'.
    specialize (IH (Nat.div2 t)).
    destruct (Nat.odd t); lia.
Qed.

Lemma reverse_bits_split : forall n a c t, a <= n -> t < 2 ^ a ->
  reverse_bits (c * 2 ^ a + t) n = reverse_bits t a * 2 ^ (n - a) + reverse_bits c (n - a).
Proof.
  intros n a c t Hle Ht. unfold reverse_bits.
  replace n with (a + (n - a)) at 1 by lia.
  rewrite reverse_bits_aux_split.
  rewrite Nat.div_add_l by apply pow2_nz.
  rewrite (Nat.div_small t) by exact Ht.
  rewrite Nat.add_0_r.
  rewrite reverse_bits_aux_mod by exact Ht.
  apply reverse_bits_aux_acc.
Qed.

(* low bit e, rest m *)
Lemma reverse_bits_low : forall a m e, e < 2 ->
  reverse_bits (2 * m + e) (S a) = e * 2 ^ a + reverse_bits m a.
Proof.
  intros a m e He.
  replace (2 * m + e) with (m * 2 ^ 1 + e) by (rewrite Nat.pow_1_r; ring).
  rewrite (reverse_bits_split (S a) 1 m e) by (rewrite ?Nat.pow_1_r; lia).
  replace (S a - 1) with a by lia.
  assert (He' : e = 0 \/ e = 1) by lia.
  destruct He' as [-> | ->]; reflexivity.
Qed.

(* high bit e, rest q *)
Lemma reverse_bits_high : forall a q e, q < 2 ^ a -> e < 2 ->
  reverse_bits (q + e * 2 ^ a) (S a) = 2 * reverse_bits q a + e.
Proof.
  intros a q e Hq He.
  rewrite Nat.add_comm.
  rewrite (reverse_bits_split (S a) a e q) by (try lia; exact Hq).
  replace (S a - a) with 1 by lia.
  rewrite Nat.pow_1_r.
  assert (He' : e = 0 \/ e = 1) by lia.
  destruct He' as [-> | ->]; cbn [reverse_bits reverse_bits_aux Nat.odd Nat.even Nat.div2 negb]; lia.
Qed.

Lemma reverse_bits_involutive : forall a t, t < 2 ^ a -> reverse_bits (reverse_bits t a) a = t.
Proof.
  induction a as [|a IH]; intros t Ht.
  - rewrite Nat.pow_0_r in Ht. unfold reverse_bits. cbn [reverse_bits_aux]. lia.
  - rewrite Nat.pow_succ_r' in Ht.
    pose proof (Nat.div_mod t 2 ltac:(discriminate)) as Hdm.
    pose proof (Nat.mod_upper_bound t 2 ltac:(discriminate)) as He.
    set (m := t / 2) in *. set (e := t mod 2) in *.
    assert (Hm : m < 2 ^ a) by lia.
    rewrite Hdm.
    rewrite reverse_bits_low by exact He.
    rewrite (Nat.add_comm (e * 2 ^ a)).
    rewrite reverse_bits_high by (try exact He; apply reverse_bits_lt).
    rewrite IH by exact Hm. reflexivity.
Qed.

Lemma reverse_index_bits_nth : forall {A} (l : list A) d a i, i < length l ->
  nth i (reverse_index_bits l d a) d = nth (reverse_bits i a) l d.
Proof.
  intros A l d a i Hi. unfold reverse_index_bits.
  set (f := fun i0 => nth (reverse_bits i0 a) l d).
  rewrite (nth_indep _ d (f 0)) by (rewrite map_length, seq_length; exact Hi).
  rewrite map_nth. rewrite seq_nth by exact Hi. reflexivity.
Qed.

(* ---------- chunks_exact ---------- *)

Lemma skipn_skipn_add : forall {A} b a (l : list A), skipn a (skipn b l) = skipn (b + a) l.
Proof.
  induction b as [|b IH]; intros a l.
  - reflexivity.
  - destruct l as [|x l].
    + cbn [skipn Nat.add]. apply skipn_nil.
    + cbn [skipn Nat.add]. apply IH.
Qed.

Lemma chunks_exact_length : forall {A} cnt r (l : list A), length (chunks_exact cnt r l) = cnt.
Proof.
  induction cnt as [|cnt IH]; intros r l; cbn [chunks_exact length].
  - reflexivity.
  - rewrite IH. reflexivity.
Qed.

Lemma chunks_exact_concat : forall {A} cnt r (l : list A),
  length l = cnt * r -> concat (chunks_exact cnt r l) = l.
Proof.
  induction cnt as [|cnt IH]; intros r l Hlen; cbn [chunks_exact concat].
  - destruct l; [reflexivity | discriminate].
  - rewrite IH.
    + apply firstn_skipn.
    + rewrite skipn_length. lia.
Qed.

Lemma chunks_exact_Forall : forall {A} cnt r (l : list A), cnt * r <= length l ->
  Forall (fun c : list A => length c = r) (chunks_exact cnt r l).
Proof.
  induction cnt as [|cnt IH]; intros r l Hlen; cbn [chunks_exact].
  - constructor.
  - constructor.
    + rewrite firstn_length. lia.
    + apply IH. rewrite skipn_length. lia.
Qed.

Lemma chunks_exact_nth : forall {A} cnt r (l : list A) j, j < cnt ->
  nth j (chunks_exact cnt r l) [] = firstn r (skipn (j * r) l).
Proof.
  induction cnt as [|cnt IH]; intros r l j Hj.
  - lia.
  - destruct j as [|j]; cbn [chunks_exact nth].
    + reflexivity.
    + rewrite IH by lia. rewrite skipn_skipn_add. reflexivity.
Qed.
