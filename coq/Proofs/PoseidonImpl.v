(* C13 (c) - the raw-u64 implementation model equals the textbook permutation.
   Every layer of Model/PoseidonImplModel.v (built from the translated gl_*, add_u160_u128,
   reduce_u160, mds_multiply_freq) is related to the corresponding field-level layer of
   Model/Poseidon.v at Fp:  for every state of 12 u64 representations the layer returns Some,
   its outputs are u64, and [map toFp] of the output is the field-level layer of [map toFp] of the
   input.  Composition gives poseidon_impl ~ poseidon_fast, and Proofs/Poseidon.v gives
   poseidon_fast = poseidon_spec. *)
From Coq Require Import ZArith List Lia Bool.
From Verif Require Import Base.Mach Base.Field Gen.FieldConsts Gen.GoldilocksImpl Gen.PoseidonConsts
  Gen.PoseidonImpl Model.FieldGeneric Model.Poseidon Model.PoseidonImplModel
  Proofs.Goldilocks Proofs.PoseidonMds Proofs.Poseidon Proofs.FpField Proofs.FpFieldPrime Model.Fp.
Import ListNotations.
Open Scope Z_scope.

Add Field FpFld : (@F_field_theory Fp FpOps FpLaws).

(* ------------------------------------------------------------------ constants *)
Definition canonb (c : Z) : bool := (0 <=? c) && (c <? ORDER).
Definition canon (c : Z) : Prop := 0 <= c < ORDER.

Lemma canonb_spec c : canonb c = true -> canon c.
Proof. unfold canonb, canon. intros H. apply andb_prop in H. destruct H as [H1 H2]. apply Z.leb_le in H1. apply Z.ltb_lt in H2. lia. Qed.

Lemma forallb_canon l : forallb canonb l = true -> Forall canon l.
Proof. intros H. apply Forall_forall. intros x Hx. apply canonb_spec. eapply forallb_forall in H; eauto. Qed.

Lemma forallb2_canon l : forallb (forallb canonb) l = true -> Forall (Forall canon) l.
Proof. intros H. apply Forall_forall. intros x Hx. apply forallb_canon. eapply forallb_forall in H; eauto. Qed.

Lemma constants_canonical :
  Forall canon ALL_ROUND_CONSTANTS /\
  Forall canon FAST_PARTIAL_FIRST_ROUND_CONSTANT /\
  Forall canon FAST_PARTIAL_ROUND_CONSTANTS /\
  Forall (Forall canon) FAST_PARTIAL_ROUND_VS /\
  Forall (Forall canon) FAST_PARTIAL_ROUND_W_HATS /\
  Forall (Forall canon) FAST_PARTIAL_ROUND_INITIAL_MATRIX.
Proof.
  repeat split; first [apply forallb_canon | apply forallb2_canon]; vm_compute; reflexivity.
Qed.

Lemma canon0 : canon 0. Proof. unfold canon, ORDER. lia. Qed.

Lemma Forall_nth_d {A} (Q : A -> Prop) l d i : Forall Q l -> Q d -> Q (nth i l d).
Proof.
  intros Hl Hd. revert i. induction Hl as [|a l Ha Hl IH]; intros [|i]; cbn [nth]; auto.
Qed.

Lemma canon_nthZ l i : Forall canon l -> canon (nthZ l i).
Proof. intros H. unfold nthZ. apply Forall_nth_d; [exact H|exact canon0]. Qed.

Lemma canon_tbl2 t r i : Forall (Forall canon) t -> canon (tbl2 t r i).
Proof. intros H. unfold tbl2. apply Forall_nth_d; [|exact canon0]. apply Forall_nth_d; [exact H|constructor]. Qed.

Lemma canon_u64 c : canon c -> 0 <= c < 2 ^ 64.
Proof. unfold canon, ORDER. lia. Qed.

(* ------------------------------------------------------------------ toFp is a ring morphism *)
Lemma toFp_eq_mod a b : a mod ORDER = b mod ORDER -> toFp a = toFp b.
Proof. intros H. apply Fp_ext. cbn [fval toFp]. exact H. Qed.

Lemma toFp_add a b : toFp (a + b) = fadd (toFp a) (toFp b).
Proof. apply Fp_ext. cbn [fval toFp fadd FpOps]. apply Zplus_mod. Qed.

Lemma toFp_mul a b : toFp (a * b) = fmul (toFp a) (toFp b).
Proof. apply Fp_ext. cbn [fval toFp fmul FpOps]. apply Zmult_mod. Qed.

Lemma toFp_mod z : toFp (z mod ORDER) = toFp z.
Proof. apply toFp_eq_mod. apply Z.mod_mod. unfold ORDER. lia. Qed.

Lemma toFp_0 : toFp 0 = @fzero Fp FpOps. Proof. reflexivity. Qed.

Lemma nthF_map s i : @nthF Fp FpOps (map toFp s) i = toFp (nthZ s i).
Proof. unfold nthF, nthZ. change (@fzero Fp FpOps) with (toFp 0). apply map_nth. Qed.

Lemma u64_nthZ s i : Forall u64 s -> 0 <= nthZ s i < 2 ^ 64.
Proof. intros H. unfold nthZ. apply (Forall_nth_d u64 s 0 i H). unfold u64. lia. Qed.

(* ------------------------------------------------------------------ result relation *)
Definition RF (m : M Z) (f : Fp) : Prop := exists r, m = Some r /\ 0 <= r < 2 ^ 64 /\ toFp r = f.

Lemma RF_of_Rz m spec : Rz m spec -> RF m (toFp spec).
Proof. intros (r & E & H & C). exists r. split; [exact E|]. split; [exact H|]. apply toFp_eq_mod. exact C. Qed.

Lemma RF_bind {B} m f (k : Z -> M B) (Q : M B -> Prop) :
  RF m f -> (forall r, 0 <= r < 2 ^ 64 -> toFp r = f -> Q (k r)) -> Q (bind m k).
Proof. intros (r & -> & H & C) HQ. cbn [bind]. apply HQ; assumption. Qed.

Lemma RF_eq m f g : RF m f -> f = g -> RF m g.
Proof. intros H <-. exact H. Qed.

Lemma RF_addc x y : 0 <= x < 2 ^ 64 -> canon y -> RF (gl_add_canonical_u64 x y) (fadd (toFp x) (toFp y)).
Proof. intros Hx Hy. rewrite <- toFp_add. apply RF_of_Rz. apply add_canonical_u64_correct; assumption. Qed.

Lemma RF_add x y : 0 <= x < 2 ^ 64 -> 0 <= y < 2 ^ 64 -> RF (gl_add x y) (fadd (toFp x) (toFp y)).
Proof. intros Hx Hy. rewrite <- toFp_add. apply RF_of_Rz. apply add_correct; assumption. Qed.

Lemma RF_mul x y : 0 <= x < 2 ^ 64 -> 0 <= y < 2 ^ 64 -> RF (gl_mul x y) (fmul (toFp x) (toFp y)).
Proof. intros Hx Hy. rewrite <- toFp_mul. apply RF_of_Rz. apply mul_correct; assumption. Qed.

Lemma RF_mac a x y : 0 <= a < 2 ^ 64 -> 0 <= x < 2 ^ 64 -> 0 <= y < 2 ^ 64 ->
  RF (gl_multiply_accumulate a x y) (fadd (toFp a) (fmul (toFp x) (toFp y))).
Proof.
  intros Ha Hx Hy. rewrite <- toFp_mul, <- toFp_add. apply RF_of_Rz. apply mac_correct; assumption.
Qed.

Lemma RF_sbox x : 0 <= x < 2 ^ 64 -> RF (sbox_monomial_impl x) (sbox_monomial (toFp x)).
Proof.
  intros Hx. unfold sbox_monomial_impl, sbox_monomial, gl_square.
  apply RF_bind with (f := fmul (toFp x) (toFp x)); [apply RF_mul; assumption|]. intros x2 H2 E2.
  apply RF_bind with (f := fmul (toFp x2) (toFp x2)); [apply RF_mul; assumption|]. intros x4 H4 E4.
  apply RF_bind with (f := fmul (toFp x) (toFp x2)); [apply RF_mul; assumption|]. intros x3 H3 E3.
  eapply RF_eq; [apply RF_mul; assumption|]. rewrite E3, E4, E2. reflexivity.
Qed.

(* ------------------------------------------------------------------ lists *)
Lemma mapM_RF {A} (f : A -> M Z) (g : A -> Fp) (l : list A) :
  (forall a, In a l -> RF (f a) (g a)) ->
  exists o, mapM f l = Some o /\ Forall u64 o /\ length o = length l /\ map toFp o = map g l.
Proof.
  induction l as [|a l IH]; intros H.
  - exists []. repeat split; constructor.
  - destruct (H a (or_introl eq_refl)) as (r & Er & Hr & Cr).
    destruct IH as (o & Eo & Uo & Lo & Co); [intros b Hb; apply H; right; exact Hb|].
    exists (r :: o). cbn [mapM]. rewrite Er, bind_Some, Eo, bind_Some. unfold ret.
    split; [reflexivity|]. split; [constructor; assumption|]. split; [cbn; lia|].
    cbn [map]. rewrite Cr, Co. reflexivity.
Qed.

Lemma foldM_RF {A} (f : Z -> A -> M Z) (g : Fp -> A -> Fp) (l : list A) :
  (forall acc a, In a l -> 0 <= acc < 2 ^ 64 -> RF (f acc a) (g (toFp acc) a)) ->
  forall acc, 0 <= acc < 2 ^ 64 -> RF (foldM f l acc) (fold_left g l (toFp acc)).
Proof.
  induction l as [|a l IH]; intros H acc Hacc; cbn [foldM fold_left].
  - exists acc. repeat split; try reflexivity; lia.
  - apply RF_bind with (f := g (toFp acc) a); [apply H; [left; reflexivity|exact Hacc]|].
    intros r Hr Er. rewrite <- Er. apply IH; [|exact Hr]. intros acc' b Hb. apply H. right. exact Hb.
Qed.

(* a layer: Some, u64 outputs, 12 of them, and the field-level value *)
Definition StepOK (m : M (list Z)) (f : list Fp) : Prop :=
  exists o, m = Some o /\ Forall u64 o /\ length o = 12%nat /\ map toFp o = f.

Lemma StepOK_bind m f (k : list Z -> M (list Z)) g :
  StepOK m f -> (forall o, Forall u64 o -> length o = 12%nat -> map toFp o = f -> StepOK (k o) g) ->
  StepOK (bind m k) g.
Proof. intros (o & -> & U & L & C) H. cbn [bind]. apply H; assumption. Qed.

Lemma foldM_StepOK {A} (f : list Z -> A -> M (list Z)) (g : list Fp -> A -> list Fp) (l : list A) :
  (forall s a, In a l -> Forall u64 s -> length s = 12%nat -> StepOK (f s a) (g (map toFp s) a)) ->
  forall s, Forall u64 s -> length s = 12%nat -> StepOK (foldM f l s) (fold_left g l (map toFp s)).
Proof.
  induction l as [|a l IH]; intros H s Us Ls; cbn [foldM fold_left].
  - exists s. repeat split; assumption.
  - eapply StepOK_bind; [apply H; [left; reflexivity|exact Us|exact Ls]|].
    intros o Uo Lo Co. rewrite <- Co. apply IH; [|exact Uo|exact Lo].
    intros s' b Hb. apply H. right. exact Hb.
Qed.

(* ------------------------------------------------------------------ layers *)
Lemma constant_layer_ok r s : Forall u64 s ->
  StepOK (constant_layer_impl r s) (constant_layer toFp r (map toFp s)).
Proof.
  intros Us. unfold constant_layer_impl, constant_layer.
  destruct (mapM_RF (fun i => gl_add_canonical_u64 (nthZ s i) (nthZ ALL_ROUND_CONSTANTS (i + 12 * r)))
              (fun i => fadd (nthF (map toFp s) i) (round_const toFp r i)) (seq 0 12)) as (o & E & U & L & C).
  { intros i _. rewrite nthF_map. unfold round_const, cst. apply RF_addc; [apply u64_nthZ; exact Us|].
    apply canon_nthZ. apply constants_canonical. }
  exists o. repeat split; assumption.
Qed.

Lemma sbox_layer_ok s : Forall u64 s -> length s = 12%nat ->
  StepOK (sbox_layer_impl s) (sbox_layer (map toFp s)).
Proof.
  intros Us Ls. unfold sbox_layer_impl, sbox_layer.
  destruct (mapM_RF sbox_monomial_impl (fun x => sbox_monomial (toFp x)) s) as (o & E & U & L & C).
  { intros x Hx. apply RF_sbox. eapply Forall_forall in Us; eauto. }
  exists o. split; [exact E|]. split; [exact U|]. split; [lia|]. rewrite C, map_map. reflexivity.
Qed.

Lemma circ_row_toFp r s :
  toFp (circ_row r s + nth r MDS_MATRIX_DIAG 0 * nth r s 0) = mds_row_shf toFp r (map toFp s).
Proof.
  unfold circ_row, mds_row_shf. cbn [seq map fold_right fold_left].
  rewrite !nthF_map. unfold cst, nthZ.
  repeat rewrite ?toFp_add, ?toFp_mul. rewrite toFp_0. ring.
Qed.

Lemma mds_layer_ok s : Forall u64 s -> length s = 12%nat ->
  StepOK (mds_layer_impl s) (mds_layer toFp (map toFp s)).
Proof.
  intros Us Ls. destruct (mds_layer_impl_correct s Ls Us) as (o & E & L & U & C).
  exists o. split; [exact E|]. split; [exact U|]. split; [exact L|].
  unfold mds_layer. apply nth_ext with (d := toFp 0) (d' := mds_row_shf toFp 0 (map toFp s)).
  - rewrite !map_length, seq_length. exact L.
  - intros n Hn. rewrite map_length, L in Hn. rewrite map_nth.
    rewrite map_nth with (f := fun r => mds_row_shf toFp r (map toFp s)). rewrite seq_nth by exact Hn. cbn [Nat.add].
    rewrite <- circ_row_toFp. apply toFp_eq_mod. apply C. exact Hn.
Qed.

Lemma full_round_ok r s : Forall u64 s -> length s = 12%nat ->
  StepOK (full_round_impl r s) (mds_layer toFp (sbox_layer (constant_layer toFp r (map toFp s)))).
Proof.
  intros Us Ls. unfold full_round_impl.
  eapply StepOK_bind; [apply constant_layer_ok; exact Us|]. intros o1 U1 L1 C1.
  eapply StepOK_bind; [apply sbox_layer_ok; assumption|]. intros o2 U2 L2 C2.
  rewrite <- C1, <- C2. apply mds_layer_ok; assumption.
Qed.

Lemma full_rounds_ok r0 s : Forall u64 s -> length s = 12%nat ->
  StepOK (full_rounds_impl r0 s) (full_rounds toFp r0 (map toFp s)).
Proof.
  intros Us Ls. unfold full_rounds_impl, full_rounds.
  apply foldM_StepOK with (g := fun s r => mds_layer toFp (sbox_layer (constant_layer toFp r s))); [|exact Us|exact Ls].
  intros s' r _ U' L'. apply full_round_ok; assumption.
Qed.

Lemma partial_first_constant_layer_ok s : Forall u64 s ->
  StepOK (partial_first_constant_layer_impl s) (partial_first_constant_layer toFp (map toFp s)).
Proof.
  intros Us. unfold partial_first_constant_layer_impl, partial_first_constant_layer.
  destruct (mapM_RF (fun i => gl_add (nthZ s i) (nthZ FAST_PARTIAL_FIRST_ROUND_CONSTANT i))
              (fun i => fadd (nthF (map toFp s) i) (cst toFp FAST_PARTIAL_FIRST_ROUND_CONSTANT i)) (seq 0 12))
    as (o & E & U & L & C).
  { intros i _. rewrite nthF_map. unfold cst. apply RF_add; [apply u64_nthZ; exact Us|].
    apply canon_u64, canon_nthZ, constants_canonical. }
  exists o. repeat split; assumption.
Qed.

Lemma mds_partial_layer_init_ok s : Forall u64 s -> length s = 12%nat ->
  StepOK (mds_partial_layer_init_impl s) (mds_partial_layer_init toFp (map toFp s)).
Proof.
  intros Us Ls. unfold mds_partial_layer_init_impl, mds_partial_layer_init.
  destruct (mapM_RF
    (fun c => foldM (fun acc r =>
                 bind (gl_mul (nthZ s r) (tbl2 FAST_PARTIAL_ROUND_INITIAL_MATRIX (r - 1) (c - 1)))
                      (fun p => gl_add acc p)) (seq 1 11) 0)
    (fun c => fold_left (fun acc r => fadd acc (fmul (nthF (map toFp s) r)
                 (cst2 toFp FAST_PARTIAL_ROUND_INITIAL_MATRIX (r - 1) (c - 1)))) (seq 1 11) (@fzero Fp FpOps))
    (seq 1 11)) as (o & E & U & L & C).
  { intros c _. rewrite <- toFp_0. apply foldM_RF; [|lia].
    intros acc r _ Hacc. rewrite nthF_map. unfold cst2. fold (tbl2 FAST_PARTIAL_ROUND_INITIAL_MATRIX (r - 1) (c - 1)).
    apply RF_bind with (f := fmul (toFp (nthZ s r)) (toFp (tbl2 FAST_PARTIAL_ROUND_INITIAL_MATRIX (r - 1) (c - 1)))).
    - apply RF_mul; [apply u64_nthZ; exact Us|]. apply canon_u64, canon_tbl2, constants_canonical.
    - intros p Hp Ep. rewrite <- Ep. apply RF_add; assumption. }
  rewrite E, bind_Some. unfold ret. exists (nthZ s 0 :: o).
  split; [reflexivity|]. split; [constructor; [apply u64_nthZ; exact Us|exact U]|].
  split; [cbn [length]; rewrite L, seq_length; reflexivity|].
  cbn [map]. rewrite nthF_map, C. reflexivity.
Qed.

(* ---- the u160 accumulator *)
Lemma add_u160_spec lo hi y : 0 <= lo < 2 ^ 128 -> 0 <= hi -> hi + 1 < 2 ^ 32 -> 0 <= y < 2 ^ 128 ->
  exists lo' hi', add_u160_u128 (lo, hi) y = Some (lo', hi') /\ 0 <= lo' < 2 ^ 128 /\ hi <= hi' <= hi + 1 /\
                  lo' + 2 ^ 128 * hi' = lo + 2 ^ 128 * hi + y.
Proof.
  intros Hlo Hhi Hh1 Hy. unfold add_u160_u128, ovf_addU.
  destruct (Z_lt_le_dec (lo + y) (2 ^ 128)) as [H|H].
  - rewrite inU_true, wrapU_small by lia. cbn [negb]. rewrite b2z_false, bind_chkU by lia.
    unfold ret. exists (lo + y), (hi + 0). split; [reflexivity|]. lia.
  - rewrite inU_false, wrapU_over by lia. cbn [negb]. rewrite b2z_true, bind_chkU by lia.
    unfold ret. exists (lo + y - 2 ^ 128), (hi + 1). split; [reflexivity|]. lia.
Qed.

Lemma fold160 (a b : nat -> Z) (l : list nat) :
  (forall i, In i l -> 0 <= a i < 2 ^ 64 /\ 0 <= b i < 2 ^ 64) ->
  forall lo hi, 0 <= lo < 2 ^ 128 -> 0 <= hi -> hi + Z.of_nat (length l) < 2 ^ 32 ->
  exists lo' hi',
    foldM (fun d i => bind (chkU 128 (a i * b i)) (fun p => add_u160_u128 d p)) l (lo, hi) = Some (lo', hi') /\
    0 <= lo' < 2 ^ 128 /\ 0 <= hi' <= hi + Z.of_nat (length l) /\
    lo' + 2 ^ 128 * hi' = fold_left (fun acc i => acc + a i * b i) l (lo + 2 ^ 128 * hi).
Proof.
  induction l as [|i l IH]; intros Hab lo hi Hlo Hhi Hlen; cbn [foldM fold_left length] in *.
  - exists lo, hi. split; [reflexivity|]. lia.
  - destruct (Hab i (or_introl eq_refl)) as [Ha Hb].
    pose proof (mul_range (a i) (b i) Ha Hb) as Hm.
    rewrite bind_chkU by lia.
    destruct (add_u160_spec lo hi (a i * b i)) as (lo1 & hi1 & E1 & Hlo1 & Hhi1 & V1); try lia.
    rewrite E1, bind_Some.
    destruct (IH (fun j Hj => Hab j (or_intror Hj)) lo1 hi1) as (lo2 & hi2 & E2 & Hlo2 & Hhi2 & V2); try lia.
    exists lo2, hi2. split; [exact E2|]. split; [exact Hlo2|]. split; [lia|]. rewrite V2, V1. reflexivity.
Qed.

Lemma reduce_u160_spec lo hi : 0 <= lo < 2 ^ 128 -> 0 <= hi < 2 ^ 32 ->
  Rz (reduce_u160 (lo, hi)) (lo + 2 ^ 128 * hi).
Proof.
  intros Hlo Hhi. unfold reduce_u160, shrZ, wrapU, shlU.
  assert (Hq : 0 <= lo / 2 ^ 64 < 2 ^ 64) by (apply div_range; lia).
  rewrite (Z.mod_small (lo / 2 ^ 64)) by lia.
  assert (Hm : 0 <= lo mod 2 ^ 64 < 2 ^ 64) by (apply Z.mod_pos_bound; lia).
  assert (Elo : lo = 2 ^ 64 * (lo / 2 ^ 64) + lo mod 2 ^ 64) by (apply Z.div_mod; lia).
  destruct (reduce96_correct (lo / 2 ^ 64) hi Hq Hhi) as (r & Er & Hr & Cr).
  rewrite Er, bind_Some. unfold wrapU. rewrite (Z.mod_small (r * 2 ^ 64)) by lia.
  rewrite bind_chkU by lia.
  destruct (reduce128_correct (r * 2 ^ 64 + lo mod 2 ^ 64)) as (r2 & Er2 & Hr2 & Cr2); [lia|].
  rewrite Er2, bind_Some. exists r2. split; [reflexivity|]. split; [exact Hr2|].
  rewrite Cr2. rewrite Elo at 2.
  replace (2 ^ 64 * (lo / 2 ^ 64) + lo mod 2 ^ 64 + 2 ^ 128 * hi)
    with ((lo / 2 ^ 64 + 2 ^ 64 * hi) * 2 ^ 64 + lo mod 2 ^ 64) by lia.
  rewrite Zplus_mod, Zmult_mod, Cr, <- Zmult_mod, <- Zplus_mod. reflexivity.
Qed.

Lemma fold_left_ext_fp {A B} (f g : A -> B -> A) l : (forall acc i, f acc i = g acc i) ->
  forall z, fold_left f l z = fold_left g l z.
Proof. intros H. induction l as [|i l IH]; intros z; cbn [fold_left]; [reflexivity|]. rewrite H. apply IH. Qed.

Lemma toFp_fold_sum (a b : nat -> Z) l : forall z,
  toFp (fold_left (fun acc i => acc + a i * b i) l z)
  = fold_left (fun acc i => fadd acc (fmul (toFp (a i)) (toFp (b i)))) l (toFp z).
Proof.
  induction l as [|i l IH]; intros z; cbn [fold_left]; [reflexivity|].
  rewrite IH, toFp_add, toFp_mul. reflexivity.
Qed.

Lemma mds_partial_layer_fast_ok r s : Forall u64 s -> length s = 12%nat ->
  StepOK (mds_partial_layer_fast_impl r s) (mds_partial_layer_fast toFp r (map toFp s)).
Proof.
  intros Us Ls. unfold mds_partial_layer_fast_impl, mds_partial_layer_fast.
  destruct (fold160 (fun i => nthZ s i) (fun i => tbl2 FAST_PARTIAL_ROUND_W_HATS r (i - 1)) (seq 1 11))
    with (lo := 0) (hi := 0) as (lo & hi & E & Hlo & Hhi & V); try (cbn; lia).
  { intros i _. split; [apply u64_nthZ; exact Us|]. apply canon_u64, canon_tbl2, constants_canonical. }
  rewrite E, bind_Some.
  change (nthZ MDS_MATRIX_CIRC 0 + nthZ MDS_MATRIX_DIAG 0) with 25. rewrite bind_chkU by lia.
  pose proof (u64_nthZ s 0 Us) as H0.
  rewrite bind_chkU by lia.
  cbn [length seq] in Hhi.
  destruct (add_u160_spec lo hi (nthZ s 0 * 25)) as (lo1 & hi1 & E1 & Hlo1 & Hhi1 & V1); try lia.
  rewrite E1, bind_Some.
  destruct (reduce_u160_spec lo1 hi1) as (d & Ed & Hd & Cd); try lia.
  rewrite Ed, bind_Some.
  destruct (mapM_RF (fun i => gl_multiply_accumulate (nthZ s i) (nthZ s 0) (tbl2 FAST_PARTIAL_ROUND_VS r (i - 1)))
              (fun i => fadd (nthF (map toFp s) i)
                             (fmul (nthF (map toFp s) 0) (cst2 toFp FAST_PARTIAL_ROUND_VS r (i - 1)))) (seq 1 11))
    as (o & Eo & Uo & Lo & Co).
  { intros i _. rewrite !nthF_map. unfold cst2. fold (tbl2 FAST_PARTIAL_ROUND_VS r (i - 1)).
    apply RF_mac; try (apply u64_nthZ; exact Us). apply canon_u64, canon_tbl2, constants_canonical. }
  rewrite Eo, bind_Some. unfold ret. exists (d :: o).
  split; [reflexivity|]. split; [constructor; [exact Hd|exact Uo]|].
  split; [cbn [length]; rewrite Lo, seq_length; reflexivity|].
  cbn [map]. rewrite Co. f_equal.
  transitivity (toFp (lo1 + 2 ^ 128 * hi1)); [apply toFp_eq_mod; exact Cd|].
  rewrite V1, V. rewrite toFp_add, toFp_mul, toFp_fold_sum.
  replace (0 + 2 ^ 128 * 0) with 0 by lia. rewrite toFp_0.
  unfold mds0to0. change (nth 0 MDS_MATRIX_CIRC 0 + nth 0 MDS_MATRIX_DIAG 0) with 25.
  rewrite nthF_map. f_equal.
  apply fold_left_ext_fp. intros acc i. rewrite nthF_map. unfold cst2. reflexivity.
Qed.

Lemma Forall_tl {A} (Q : A -> Prop) l : Forall Q l -> Forall Q (tl l).
Proof. intros H. destruct H; [constructor|assumption]. Qed.

Lemma length_tl_12 {A} (l : list A) (x : A) : length l = 12%nat -> length (x :: tl l) = 12%nat.
Proof. destruct l; cbn; intros H; [discriminate H|exact H]. Qed.

Lemma map_tl_fp (l : list Z) : map toFp (tl l) = tl (map toFp l).
Proof. destruct l; reflexivity. Qed.

Lemma partial_round_fast_ok i s : Forall u64 s -> length s = 12%nat ->
  StepOK (partial_round_fast_impl i s)
         (partial_round_fast_gen toFp (fun _ => sbox_monomial) i (map toFp s)).
Proof.
  intros Us Ls. unfold partial_round_fast_impl, partial_round_fast_gen.
  apply RF_bind with (f := sbox_monomial (toFp (nthZ s 0))); [apply RF_sbox, u64_nthZ; exact Us|].
  intros x Hx Ex.
  apply RF_bind with (f := fadd (toFp x) (toFp (nthZ FAST_PARTIAL_ROUND_CONSTANTS i))).
  { apply RF_addc; [exact Hx|]. apply canon_nthZ, constants_canonical. }
  intros s0 Hs0 Es0.
  rewrite nthF_map, <- Ex. unfold cst. fold (nthZ FAST_PARTIAL_ROUND_CONSTANTS i). rewrite <- Es0, <- map_tl_fp.
  change (toFp s0 :: map toFp (tl s)) with (map toFp (s0 :: tl s)).
  apply mds_partial_layer_fast_ok; [constructor; [exact Hs0|apply Forall_tl; exact Us]|apply length_tl_12; exact Ls].
Qed.

Lemma partial_rounds_ok s : Forall u64 s -> length s = 12%nat ->
  StepOK (partial_rounds_impl s) (partial_rounds toFp (map toFp s)).
Proof.
  intros Us Ls. unfold partial_rounds_impl, partial_rounds, partial_rounds_gen.
  eapply StepOK_bind; [apply partial_first_constant_layer_ok; exact Us|]. intros o1 U1 L1 C1.
  eapply StepOK_bind; [apply mds_partial_layer_init_ok; assumption|]. intros o2 U2 L2 C2.
  rewrite <- C1, <- C2.
  apply foldM_StepOK with (g := fun s i => partial_round_fast_gen toFp (fun _ => sbox_monomial) i s); [|exact U2|exact L2].
  intros s' i _ U' L'. apply partial_round_fast_ok; assumption.
Qed.

Lemma poseidon_impl_fast s : Forall u64 s -> length s = 12%nat ->
  StepOK (poseidon_impl s) (poseidon_fast toFp (map toFp s)).
Proof.
  intros Us Ls. unfold poseidon_impl, poseidon_fast.
  eapply StepOK_bind; [apply full_rounds_ok; assumption|]. intros o1 U1 L1 C1.
  eapply StepOK_bind; [apply partial_rounds_ok; assumption|]. intros o2 U2 L2 C2.
  rewrite <- C1, <- C2. apply full_rounds_ok; assumption.
Qed.

(* partial_rounds_naive / poseidon_naive at the raw level *)
Lemma partial_round_naive_ok k s : Forall u64 s -> length s = 12%nat ->
  StepOK (partial_round_naive_impl k s)
         (mds_layer toFp (sbox_first sbox_monomial (constant_layer toFp (4 + k) (map toFp s)))).
Proof.
  intros Us Ls. unfold partial_round_naive_impl.
  eapply StepOK_bind; [apply constant_layer_ok; exact Us|]. intros o1 U1 L1 C1.
  apply RF_bind with (f := sbox_monomial (toFp (nthZ o1 0))); [apply RF_sbox, u64_nthZ; exact U1|].
  intros x Hx Ex. rewrite <- C1.
  replace (sbox_first sbox_monomial (map toFp o1)) with (map toFp (x :: tl o1)).
  - apply mds_layer_ok; [constructor; [exact Hx|apply Forall_tl; exact U1]|apply length_tl_12; exact L1].
  - destruct o1 as [|a o1]; [discriminate L1|]. cbn [map tl sbox_first]. rewrite Ex. reflexivity.
Qed.

Lemma poseidon_naive_impl_ok s : Forall u64 s -> length s = 12%nat ->
  StepOK (poseidon_naive_impl s) (poseidon_naive toFp (map toFp s)).
Proof.
  intros Us Ls. unfold poseidon_naive_impl, poseidon_naive.
  eapply StepOK_bind; [apply full_rounds_ok; assumption|]. intros o1 U1 L1 C1.
  eapply StepOK_bind.
  - unfold partial_rounds_naive_impl.
    apply foldM_StepOK with (g := fun s k => mds_layer toFp (sbox_first sbox_monomial (constant_layer toFp (4 + k) s)));
      [|exact U1|exact L1].
    intros s' k _ U' L'. apply partial_round_naive_ok; assumption.
  - intros o2 U2 L2 C2. unfold partial_rounds_naive. rewrite <- C1, <- C2. apply full_rounds_ok; assumption.
Qed.

Lemma canon_out (o : list Z) : map (fun z => z mod ORDER) o = map fval (map toFp o).
Proof. rewrite map_map. apply map_ext. intros z. reflexivity. Qed.

Lemma canon_in (s : list Z) : map toFp (map (fun z => z mod ORDER) s) = map toFp s.
Proof. rewrite map_map. apply map_ext. intros z. apply toFp_mod. Qed.

Theorem poseidon_impl_eq_spec : forall s : list Z, length s = 12%nat -> Forall u64 s ->
  exists o, poseidon_impl s = Some o /\ Forall u64 o /\
            map (fun z => z mod ORDER) o = poseidon_Z (map (fun z => z mod ORDER) s).
Proof.
  intros s Ls Us. destruct (poseidon_impl_fast s Us Ls) as (o & E & U & L & C).
  exists o. split; [exact E|]. split; [exact U|].
  unfold poseidon_Z, poseidon_fp. rewrite canon_in, canon_out, C.
  rewrite poseidon_fast_eq_spec_all. reflexivity.
Qed.

Theorem poseidon_naive_impl_eq_spec : forall s : list Z, length s = 12%nat -> Forall u64 s ->
  exists o, poseidon_naive_impl s = Some o /\ Forall u64 o /\
            map (fun z => z mod ORDER) o = poseidon_Z (map (fun z => z mod ORDER) s).
Proof.
  intros s Ls Us. destruct (poseidon_naive_impl_ok s Us Ls) as (o & E & U & L & C).
  exists o. split; [exact E|]. split; [exact U|].
  unfold poseidon_Z, poseidon_fp. rewrite canon_in, canon_out, C.
  rewrite poseidon_naive_eq_spec. reflexivity.
Qed.
