(* Proofs about the FRI verifier model (Model/Fri.v), part 1: structure of acceptance
   (accept_iff_all_checks and the per-round decomposition), the bridge to the C12 Merkle model
   and the lifted binding theorems, the proof-of-work check.
   The hash functions stay abstract (section variables); nothing here computes with field
   constants.  All statements are for every proof size / number of rounds / number of layers. *)
From Coq Require Import ZArith List Bool Lia Arith.
From Verif Require Import Base.Field Gen.FieldConsts Model.Fp Model.Fp2 Model.FieldGeneric Model.Fri.
From Verif Require Model.Merkle Proofs.Merkle Model.RecursionParts Proofs.RecursionParts.
From Verif Require Import Proofs.FpFieldPrime Proofs.Fp2Field.
Import ListNotations.
Local Open Scope nat_scope.

(* ------------------------------------------------------------------------------------------ *)
(* the result monad *)

Lemma res_unit_cases (r : res unit) : r = inl tt \/ exists e, r = inr e.
Proof. destruct r as [[]|e]; [left; reflexivity | right; exists e; reflexivity]. Qed.

Lemma rbindr_unit_ok {A} (m : res A) (k : A -> res unit) :
  rbindr m k = inl tt <-> exists a, m = inl a /\ k a = inl tt.
Proof.
  destruct m as [a|e]; cbn [rbindr].
  - split; [intros Hk; exists a; auto | intros (a' & [= <-] & Hk); exact Hk].
  - split; [discriminate | intros (a' & Hd & _); discriminate].
Qed.

Lemma rbindr_ok {A B} (m : res A) (k : A -> res B) (b : B) :
  rbindr m k = inl b <-> exists a, m = inl a /\ k a = inl b.
Proof.
  destruct m as [a|e]; cbn [rbindr].
  - split; [intros Hk; exists a; auto | intros (a' & [= <-] & Hk); exact Hk].
  - split; [discriminate | intros (a' & Hd & _); discriminate].
Qed.

Lemma ensure_ok b e : ensure b e = inl tt <-> b = true.
Proof. unfold ensure, ok, err. destruct b; split; intros E; try reflexivity; discriminate E. Qed.

Lemma ensure_ok' b e u : ensure b e = inl u <-> b = true.
Proof. destruct u. apply ensure_ok. Qed.

(* ------------------------------------------------------------------------------------------ *)
(* digests: equality test *)

Lemma Fp_eqb_spec (x y : Fp) : (x =? y)%F = true <-> x = y.
Proof. apply (f_eqb_spec (F := Fp)). Qed.

Lemma Fp2_eqb_spec (x y : Fp2) : (x =? y)%F = true <-> x = y.
Proof. apply (f_eqb_spec (F := Fp2)). Qed.

Lemma forallb_combine_eq : forall a b : list Fp, length a = length b ->
  (forallb (fun p => (fst p =? snd p)%F) (combine a b) = true <-> a = b).
Proof.
  induction a as [|x a IH]; intros [|y b] Hl; try discriminate Hl.
  - split; reflexivity.
  - cbn [combine forallb fst snd]. rewrite andb_true_iff, Fp_eqb_spec, IH by (cbn [length] in Hl; lia).
    split; [intros [-> ->]; reflexivity | intros [= -> ->]; auto].
Qed.

Lemma digest_eqb_spec (a b : digest) : digest_eqb a b = true <-> a = b.
Proof.
  unfold digest_eqb. rewrite andb_true_iff, Nat.eqb_eq. split.
  - intros [Hl Hf]. apply forallb_combine_eq; assumption.
  - intros ->. split; [reflexivity|]. apply forallb_combine_eq; reflexivity.
Qed.

(* ------------------------------------------------------------------------------------------ *)
(* flatten (extension elements to base-field leaf data) is injective *)

Lemma flatten2_inj : forall l l' : list Fp2, flatten2 l = flatten2 l' -> l = l'.
Proof.
  induction l as [|[a b] l IH]; intros [|[a' b'] l'] E; cbn [flatten2 flat_map app fst snd] in E;
    try discriminate E.
  - reflexivity.
  - injection E as -> -> E. f_equal. apply IH. exact E.
Qed.

Lemma flatten2_length (l : list Fp2) : length (flatten2 l) = 2 * length l.
Proof.
  induction l as [|e l IH]; [reflexivity|].
  change (flatten2 (e :: l)) with (fst e :: snd e :: flatten2 l). cbn [length]. rewrite IH. lia.
Qed.

(* ------------------------------------------------------------------------------------------ *)
(* proof of work *)

Lemma pow_ok_spec (resp : Fp) (bits : nat) :
  pow_ok resp bits = true <-> (Z.of_nat bits <= RecursionParts.leading_zeros64 (fval resp))%Z.
Proof.
  unfold pow_ok. rewrite Z.ltb_lt. pose proof (fval_range resp) as Hr.
  assert (HP : (P < 2 ^ 64)%Z) by (unfold P, ORDER; lia).
  destruct (le_lt_dec bits 64) as [Hb|Hb].
  - symmetry. apply Proofs.RecursionParts.leading_zeros_ge; lia.
  - rewrite Z.pow_neg_r by lia.
    unfold RecursionParts.leading_zeros64, RecursionParts.bit_length.
    destruct (Z.eqb_spec (fval resp) 0) as [E|E]; [lia|].
    pose proof (Z.log2_nonneg (fval resp)). lia.
Qed.

(* value form *)
Lemma pow_ok_lt (resp : Fp) (bits : nat) :
  pow_ok resp bits = true <-> (fval resp < 2 ^ (64 - Z.of_nat bits))%Z.
Proof. unfold pow_ok. apply Z.ltb_lt. Qed.

Lemma pow_ok_too_many_bits (resp : Fp) (bits : nat) : 64 < bits -> pow_ok resp bits = false.
Proof.
  intros Hb. unfold pow_ok. apply Z.ltb_ge. rewrite Z.pow_neg_r by lia.
  pose proof (fval_range resp). lia.
Qed.

Section FriProofs.
  Variable hash_or_noop : list Fp -> digest.
  Variable two_to_one : digest -> digest -> digest.

  Notation vmp := (Fri.verify_merkle_proof_to_cap hash_or_noop two_to_one).
  Notation vinit := (Fri.verify_initial hash_or_noop two_to_one).
  Notation qsteps := (Fri.query_steps hash_or_noop two_to_one).
  Notation qround := (Fri.fri_verifier_query_round hash_or_noop two_to_one).
  Notation vrounds := (Fri.verify_rounds hash_or_noop two_to_one).
  Notation vfri := (Fri.verify_fri_proof hash_or_noop two_to_one).

  (* ---------------------------------------------------------------------------------------- *)
  (* 1. acceptance = all checks *)

  (* initial trees: every (zipped) oracle opening verifies *)
  Lemma verify_initial_iff : forall initial caps round x oi,
    vinit round x initial caps oi = inl tt <->
    (forall k evals sibs cap, nth_error initial k = Some (evals, sibs) -> nth_error caps k = Some cap ->
       vmp evals x cap sibs = Some true).
  Proof.
    induction initial as [|[ev sb] it IH]; intros caps round x oi.
    - cbn [Fri.verify_initial]. split; [|reflexivity].
      intros _ [|k] evals sibs cap Hn; discriminate Hn.
    - destruct caps as [|cap ct].
      + cbn [Fri.verify_initial]. split; [|reflexivity].
        intros _ [|k] evals sibs cap Hn Hc; discriminate Hc.
      + cbn [Fri.verify_initial].
        destruct (vmp ev x cap sb) as [[|]|] eqn:E.
        * rewrite IH. split.
          -- intros Hall [|k] evals sibs cap' Hn Hc; cbn [nth_error] in Hn, Hc.
             ++ injection Hn as <- <-. injection Hc as <-. exact E.
             ++ eapply Hall; eassumption.
          -- intros Hall k evals sibs cap' Hn Hc. apply (Hall (S k)); assumption.
        * split; [discriminate|]. intros Hall.
          specialize (Hall 0 ev sb cap eq_refl eq_refl). congruence.
        * split; [discriminate|]. intros Hall.
          specialize (Hall 0 ev sb cap eq_refl eq_refl). congruence.
  Qed.

  (* the reduction loop: [steps_accept .. r] says that every layer passes its consistency check
     and its Merkle check, with the state (x_index, subgroup_x, old_eval) evolving as in the code,
     and that the loop ends in state r = (subgroup_x, old_eval) *)
  Fixpoint steps_accept (caps : list (list digest)) (steps : list fri_query_step) (arities : list nat)
           (betas : list Fp2) (layer x_index : nat) (subgroup_x : Fp) (old_eval : Fp2)
           (r : Fp * Fp2) : Prop :=
    match arities, steps with
    | [], _ => r = (subgroup_x, old_eval)
    | a :: at', s :: st =>
      exists beta cap ev,
        nth_error betas layer = Some beta /\ nth_error caps layer = Some cap
        (* consistency: evals[x_index & (arity-1)] == old_eval *)
        /\ nth_error (fs_evals s) (x_index mod 2 ^ a) = Some old_eval
        (* the folded value *)
        /\ compute_evaluation subgroup_x (x_index mod 2 ^ a) a (fs_evals s) beta = inl ev
        (* the coset is the committed one *)
        /\ vmp (flatten2 (fs_evals s)) (x_index / 2 ^ a) cap (fs_siblings s) = Some true
        /\ steps_accept caps st at' betas (S layer) (x_index / 2 ^ a) (exp_power_of_2 subgroup_x a) ev r
    | _ :: _, [] => False
    end.

  Lemma query_steps_iff : forall arities steps round caps betas layer x sx oe r,
    qsteps round caps steps arities betas layer x sx oe = inl r <->
    steps_accept caps steps arities betas layer x sx oe r.
  Proof.
    induction arities as [|a at' IH]; intros steps round caps betas layer x sx oe r.
    - destruct steps; cbn [Fri.query_steps steps_accept]; unfold ok;
        (split; [intros [= <-]; reflexivity | intros ->; reflexivity]).
    - destruct steps as [|s st]; cbn [Fri.query_steps steps_accept].
      + unfold err. split; [discriminate | tauto].
      + destruct (nth_error (fs_evals s) (x mod 2 ^ a)) as [e|] eqn:Ee.
        2:{ split; [unfold err; discriminate|]. intros (b1 & c1 & ev & _ & _ & Hd & _). discriminate Hd. }
        destruct (nth_error betas layer) as [beta|] eqn:Eb.
        2:{ split; [unfold err; discriminate|]. intros (b1 & c1 & ev & Hd & _). discriminate Hd. }
        destruct (nth_error caps layer) as [cap|] eqn:Ec.
        2:{ split; [unfold err; discriminate|]. intros (b1 & c1 & ev & _ & Hd & _). discriminate Hd. }
        rewrite rbindr_ok. split.
        * intros ([] & He & Hk). apply ensure_ok in He. apply Fp2_eqb_spec in He. subst e.
          apply rbindr_ok in Hk. destruct Hk as (ev & Hce & Hk).
          destruct (vmp (flatten2 (fs_evals s)) (x / 2 ^ a) cap (fs_siblings s)) as [[|]|] eqn:Em;
            try (unfold err in Hk; discriminate Hk).
          apply IH in Hk. exists beta, cap, ev. repeat split; auto.
        * intros (beta' & cap' & ev & [= <-] & [= <-] & [= <-] & Hce & Hm & Hk).
          exists tt. split; [apply ensure_ok; apply Fp2_eqb_spec; reflexivity|].
          apply rbindr_ok. exists ev. split; [exact Hce|]. rewrite Hm. apply IH. exact Hk.
  Qed.

  (* what [steps_accept] says, one layer at a time *)
  Lemma steps_accept_nil caps steps betas layer x sx oe r :
    steps_accept caps steps [] betas layer x sx oe r <-> r = (sx, oe).
  Proof. destruct steps; reflexivity. Qed.

  Lemma steps_accept_cons caps s st a at' betas layer x sx oe r :
    steps_accept caps (s :: st) (a :: at') betas layer x sx oe r <->
    exists beta cap ev,
      nth_error betas layer = Some beta /\ nth_error caps layer = Some cap
      /\ nth_error (fs_evals s) (x mod 2 ^ a) = Some oe
      /\ compute_evaluation sx (x mod 2 ^ a) a (fs_evals s) beta = inl ev
      /\ vmp (flatten2 (fs_evals s)) (x / 2 ^ a) cap (fs_siblings s) = Some true
      /\ steps_accept caps st at' betas (S layer) (x / 2 ^ a) (exp_power_of_2 sx a) ev r.
  Proof. reflexivity. Qed.

  Lemma steps_accept_missing_step caps a at' betas layer x sx oe r :
    ~ steps_accept caps [] (a :: at') betas layer x sx oe r.
  Proof. intros Hf. exact Hf. Qed.

  (* closed form of the evolving state: after the layers with arities [as_], the index is
     x_index / 2^(sum as_) and the point is subgroup_x^(2^(sum as_)) *)
  Lemma steps_accept_final_x : forall arities steps caps betas layer x sx oe r,
    steps_accept caps steps arities betas layer x sx oe r ->
    fst r = exp_power_of_2 sx (fold_right Nat.add 0 arities).
  Proof.
    induction arities as [|a at' IH]; intros steps caps betas layer x sx oe r Hacc.
    - destruct steps; cbn [steps_accept] in Hacc; subst r; reflexivity.
    - destruct steps as [|s st]; cbn [steps_accept] in Hacc; [contradiction|].
      destruct Hacc as (beta & cap & ev & _ & _ & _ & _ & _ & Hk).
      apply IH in Hk. rewrite Hk. cbn [fold_right]. clear.
      generalize (fold_right Nat.add 0 at'). revert sx.
      induction a as [|a IHa]; intros sx n; cbn [exp_power_of_2 Nat.add]; [reflexivity|]. apply IHa.
  Qed.

  (* one query round *)
  Theorem round_accept_iff inst ch reduced caps pr p round x q :
    qround inst ch reduced caps pr p round x q = inl tt <->
    (forall k evals sibs cap, nth_error (qr_initial q) k = Some (evals, sibs) -> nth_error caps k = Some cap ->
       vmp evals x cap sibs = Some true)
    /\ exists old_eval sx ev,
        fri_combine_initial inst p (qr_initial q) (fri_alpha ch)
          (coset_shift * exp_u64 (primitive_root_of_unity (lde_bits p)) (N.of_nat (reverse_bits x (lde_bits p))))%F
          reduced = inl old_eval
        /\ steps_accept (fp_caps pr) (qr_steps q) (reduction_arity_bits p) (fri_betas ch) 0 x
             (coset_shift * exp_u64 (primitive_root_of_unity (lde_bits p)) (N.of_nat (reverse_bits x (lde_bits p))))%F
             old_eval (sx, ev)
        /\ peval2 (fp_final pr) (fp2_of_base sx) = ev.
  Proof.
    unfold Fri.fri_verifier_query_round. rewrite rbindr_unit_ok. split.
    - intros ([] & Hi & Hk). pose proof (proj1 (verify_initial_iff _ _ _ _ _) Hi) as Hi'. split; [exact Hi'|].
      apply rbindr_unit_ok in Hk. destruct Hk as (oe & Hc & Hk).
      apply rbindr_unit_ok in Hk. destruct Hk as ([sx ev] & Hs & Hk).
      apply query_steps_iff in Hs. apply ensure_ok in Hk. apply Fp2_eqb_spec in Hk.
      exists oe, sx, ev. auto.
    - intros (Hi & oe & sx & ev & Hc & Hs & Hf).
      exists tt. split; [apply (proj2 (verify_initial_iff _ _ _ _ _)); exact Hi|].
      apply rbindr_unit_ok. exists oe. split; [exact Hc|].
      apply rbindr_unit_ok. exists (sx, ev). split; [apply query_steps_iff; exact Hs|].
      apply ensure_ok. apply Fp2_eqb_spec. exact Hf.
  Qed.

  (* the zip of query indices and round proofs: the shorter list wins *)
  Lemma verify_rounds_iff inst ch reduced caps pr p : forall idxs rounds r0,
    vrounds inst ch reduced caps pr p r0 idxs rounds = inl tt <->
    (forall i x q, nth_error idxs i = Some x -> nth_error rounds i = Some q ->
       qround inst ch reduced caps pr p (r0 + i) x q = inl tt).
  Proof.
    induction idxs as [|x0 it IH]; intros rounds r0.
    - cbn [Fri.verify_rounds]. split; [|reflexivity]. intros _ [|i] x q Hn; discriminate Hn.
    - destruct rounds as [|q0 qt]; cbn [Fri.verify_rounds].
      + split; [|reflexivity]. intros _ [|i] x q _ Hn; discriminate Hn.
      + rewrite rbindr_unit_ok. split.
        * intros ([] & H0 & Hk). pose proof (proj1 (IH _ _) Hk) as Hk'. clear Hk. rename Hk' into Hk. intros [|i] x q Hx Hq; cbn [nth_error] in Hx, Hq.
          -- injection Hx as <-. injection Hq as <-. rewrite Nat.add_0_r. exact H0.
          -- replace (r0 + S i) with (S r0 + i) by lia. apply Hk; assumption.
        * intros Hall. exists tt. split.
          -- specialize (Hall 0 x0 q0 eq_refl eq_refl). rewrite Nat.add_0_r in Hall. exact Hall.
          -- apply IH. intros i x q Hx Hq. replace (S r0 + i) with (r0 + S i) by lia.
             apply Hall; assumption.
  Qed.

  Theorem accept_iff_all_checks inst openings ch caps pr p :
    vfri inst openings ch caps pr p = inl tt <->
    validate_fri_proof_shape inst p pr = true
    /\ pow_ok (fri_pow_response ch) (proof_of_work_bits (config p)) = true
    /\ num_query_rounds (config p) = length (fp_rounds pr)
    /\ (forall i x q, nth_error (fri_query_indices ch) i = Some x -> nth_error (fp_rounds pr) i = Some q ->
          qround inst ch (precomputed_reduced_openings openings (fri_alpha ch)) caps pr p i x q = inl tt).
  Proof.
    unfold Fri.verify_fri_proof. rewrite rbindr_unit_ok. split.
    - intros ([] & H1 & Hk). apply ensure_ok in H1.
      apply rbindr_unit_ok in Hk. destruct Hk as ([] & H2 & Hk). apply ensure_ok in H2.
      apply rbindr_unit_ok in Hk. destruct Hk as ([] & H3 & Hk). apply ensure_ok in H3.
      apply Nat.eqb_eq in H3. pose proof (proj1 (verify_rounds_iff _ _ _ _ _ _ _ _ _) Hk) as Hk'. auto.
    - intros (H1 & H2 & H3 & H4). exists tt. split; [apply ensure_ok; exact H1|].
      apply rbindr_unit_ok. exists tt. split; [apply ensure_ok; exact H2|].
      apply rbindr_unit_ok. exists tt. split; [apply ensure_ok; apply Nat.eqb_eq; exact H3|].
      apply (proj2 (verify_rounds_iff _ _ _ _ _ _ _ _ _)). exact H4.
  Qed.

  (* rejection names the first failing check: a too weak proof of work is rejected with EPow
     whenever the shape is valid *)
  Lemma bad_pow_rejected inst openings ch caps pr p :
    validate_fri_proof_shape inst p pr = true ->
    pow_ok (fri_pow_response ch) (proof_of_work_bits (config p)) = false ->
    vfri inst openings ch caps pr p = inr EPow.
  Proof.
    intros Hs Hp. unfold Fri.verify_fri_proof. rewrite Hs, Hp. reflexivity.
  Qed.

  Lemma bad_pow_rejected_lz inst openings ch caps pr p :
    validate_fri_proof_shape inst p pr = true ->
    (RecursionParts.leading_zeros64 (fval (fri_pow_response ch)) < Z.of_nat (proof_of_work_bits (config p)))%Z ->
    vfri inst openings ch caps pr p = inr EPow.
  Proof.
    intros Hs Hlz. apply bad_pow_rejected; [exact Hs|].
    destruct (pow_ok (fri_pow_response ch) (proof_of_work_bits (config p))) eqn:E; [|reflexivity].
    apply pow_ok_spec in E. lia.
  Qed.

  (* ---------------------------------------------------------------------------------------- *)
  (* 2. bridge to the C12 Merkle model, binding *)

  Lemma odd_mod2 n : Nat.odd n = (n mod 2 =? 1).
  Proof.
    pose proof (Nat.bit0_mod n) as Hm. rewrite Nat.bit0_odd in Hm. rewrite <- Hm.
    destruct (Nat.odd n); reflexivity.
  Qed.

  Lemma merkle_walk_eq : forall sibs cur idx,
    Fri.merkle_walk two_to_one cur idx sibs = Merkle.verify_walk digest two_to_one cur idx sibs.
  Proof.
    induction sibs as [|s t IH]; intros cur idx; cbn [Fri.merkle_walk Merkle.verify_walk]; [reflexivity|].
    rewrite IH. unfold Merkle.walk_step. rewrite odd_mod2, Nat.div2_div. reflexivity.
  Qed.

  Notation mverify := (Merkle.verify_merkle_proof_to_cap Fp digest hash_or_noop two_to_one digest_eqb).

  Theorem verify_merkle_bridge leaf i cap sibs :
    vmp leaf i cap sibs = Some true <-> mverify leaf i cap sibs = true.
  Proof.
    unfold Fri.verify_merkle_proof_to_cap, Merkle.verify_merkle_proof_to_cap,
      Merkle.verify_merkle_proof_to_cap_res.
    rewrite merkle_walk_eq.
    destruct (Merkle.verify_walk digest two_to_one (hash_or_noop leaf) i sibs) as [d j].
    destruct (nth_error cap j) as [c|]; [|split; discriminate].
    destruct (digest_eqb d c); split; congruence.
  Qed.

  (* the panic outcome of the two models coincides too *)
  Lemma verify_merkle_bridge_panic leaf i cap sibs :
    vmp leaf i cap sibs = None <->
    Merkle.verify_merkle_proof_to_cap_res Fp digest hash_or_noop two_to_one digest_eqb leaf i cap sibs
    = Merkle.VPanic.
  Proof.
    unfold Fri.verify_merkle_proof_to_cap, Merkle.verify_merkle_proof_to_cap_res.
    rewrite merkle_walk_eq.
    destruct (Merkle.verify_walk digest two_to_one (hash_or_noop leaf) i sibs) as [d j].
    destruct (nth_error cap j) as [c|]; [|split; reflexivity].
    destruct (digest_eqb d c); split; discriminate.
  Qed.

  (* a collision of the leaf hash or of the compression function, exhibited as a value *)
  Definition fri_collision : Type :=
    (Proofs.Merkle.leaf_collision hash_or_noop + Proofs.Merkle.node_collision two_to_one)%type.

  Theorem merkle_binding (l l' : list Fp) (i : nat) (cap sibs sibs' : list digest) :
    vmp l i cap sibs = Some true -> vmp l' i cap sibs' = Some true ->
    length sibs = length sibs' -> (l, sibs) <> (l', sibs') -> fri_collision.
  Proof.
    intros V V' Hl Hne. apply verify_merkle_bridge in V. apply verify_merkle_bridge in V'.
    exact (Proofs.Merkle.verify_binding Fp digest hash_or_noop two_to_one digest_eqb digest_eqb_spec
             l l' i cap sibs sibs' V V' Hl Hne).
  Qed.

  (* initial trees: two accepted openings of the same index that differ in some oracle's
     (leaf values, siblings) exhibit a collision *)
  Theorem initial_binding : forall initial initial' caps round round' x oi oi' k l sb l' sb',
    vinit round x initial caps oi = inl tt -> vinit round' x initial' caps oi' = inl tt ->
    k < length caps ->
    nth_error initial k = Some (l, sb) -> nth_error initial' k = Some (l', sb') ->
    length sb = length sb' -> (l, sb) <> (l', sb') -> fri_collision.
  Proof.
    intros initial initial' caps round round' x oi oi' k l sb l' sb' V V' Hk Hn Hn' Hl Hne.
    destruct (nth_error caps k) as [cap|] eqn:Ec.
    2:{ exfalso. apply nth_error_None in Ec. lia. }
    apply (merkle_binding l l' x cap sb sb'); auto.
    - exact (proj1 (verify_initial_iff _ _ _ _ _) V k l sb cap Hn Ec).
    - exact (proj1 (verify_initial_iff _ _ _ _ _) V' k l' sb' cap Hn' Ec).
  Qed.

  (* commit-phase layers: two accepted runs of the reduction loop from the same index (the
     challenges, the point and the evaluations may differ) whose step k differs in
     (evals, siblings) exhibit a collision *)
  Theorem step_binding : forall arities steps steps' caps round round' betas betas' layer x sx sx' oe oe' r r'
      k s s',
    qsteps round caps steps arities betas layer x sx oe = inl r ->
    qsteps round' caps steps' arities betas' layer x sx' oe' = inl r' ->
    k < length arities -> nth_error steps k = Some s -> nth_error steps' k = Some s' ->
    length (fs_siblings s) = length (fs_siblings s') ->
    (fs_evals s, fs_siblings s) <> (fs_evals s', fs_siblings s') -> fri_collision.
  Proof.
    induction arities as [|a at' IH];
      intros steps steps' caps round round' betas betas' layer x sx sx' oe oe' r r' k s s' Q Q' Hk Hn Hn' Hl Hne.
    - cbn [length] in Hk. exfalso. lia.
    - destruct steps as [|s0 st]; [destruct k; discriminate Hn|].
      destruct steps' as [|s0' st']; [destruct k; discriminate Hn'|].
      cbn [Fri.query_steps] in Q, Q'.
      destruct (nth_error (fs_evals s0) (x mod 2 ^ a)) as [e|]; [|discriminate Q].
      destruct (nth_error betas layer) as [beta|]; [|discriminate Q].
      destruct (nth_error (fs_evals s0') (x mod 2 ^ a)) as [e'|]; [|discriminate Q'].
      destruct (nth_error betas' layer) as [beta'|]; [|discriminate Q'].
      destruct (nth_error caps layer) as [cap|]; [|discriminate Q].
      destruct (ensure (e =? oe)%F (EConsistency round layer)) as [[]|]; [|discriminate Q].
      destruct (ensure (e' =? oe')%F (EConsistency round' layer)) as [[]|]; [|discriminate Q'].
      cbn [rbindr] in Q, Q'.
      destruct (compute_evaluation sx (x mod 2 ^ a) a (fs_evals s0) beta) as [ev|]; [|discriminate Q].
      destruct (compute_evaluation sx' (x mod 2 ^ a) a (fs_evals s0') beta') as [ev'|]; [|discriminate Q'].
      cbn [rbindr] in Q, Q'.
      destruct (vmp (flatten2 (fs_evals s0)) (x / 2 ^ a) cap (fs_siblings s0)) as [[|]|] eqn:M;
        try discriminate Q.
      destruct (vmp (flatten2 (fs_evals s0')) (x / 2 ^ a) cap (fs_siblings s0')) as [[|]|] eqn:M';
        try discriminate Q'.
      destruct k as [|k].
      + cbn [nth_error] in Hn, Hn'. injection Hn as <-. injection Hn' as <-.
        apply (merkle_binding _ _ _ _ _ _ M M' Hl).
        intros [= Ef Es]. apply Hne. apply flatten2_inj in Ef. rewrite Ef, Es. reflexivity.
      + cbn [nth_error] in Hn, Hn'. cbn [length] in Hk.
        apply (IH st st' caps round round' betas betas' (S layer) (x / 2 ^ a) _ _ _ _ r r' k s s' Q Q');
          auto; lia.
  Qed.

  (* the same at the level of whole query rounds *)
  Theorem round_binding_initial inst inst' ch ch' reduced reduced' caps pr pr' p p' round round' x q q' k l sb l' sb' :
    qround inst ch reduced caps pr p round x q = inl tt ->
    qround inst' ch' reduced' caps pr' p' round' x q' = inl tt ->
    k < length caps ->
    nth_error (qr_initial q) k = Some (l, sb) -> nth_error (qr_initial q') k = Some (l', sb') ->
    length sb = length sb' -> (l, sb) <> (l', sb') -> fri_collision.
  Proof.
    intros R R'. unfold Fri.fri_verifier_query_round in R, R'.
    destruct (vinit round x (qr_initial q) caps 0) as [[]|] eqn:V; [|discriminate R].
    destruct (vinit round' x (qr_initial q') caps 0) as [[]|] eqn:V'; [|discriminate R'].
    intros Hk Hn Hn' Hl Hne.
    exact (initial_binding _ _ _ _ _ _ _ _ _ _ _ _ _ V V' Hk Hn Hn' Hl Hne).
  Qed.

  Theorem round_binding_step inst inst' ch ch' reduced reduced' caps caps' pr pr' p p' round round' x q q' k s s' :
    qround inst ch reduced caps pr p round x q = inl tt ->
    qround inst' ch' reduced' caps' pr' p' round' x q' = inl tt ->
    fp_caps pr = fp_caps pr' -> reduction_arity_bits p = reduction_arity_bits p' ->
    k < length (reduction_arity_bits p) ->
    nth_error (qr_steps q) k = Some s -> nth_error (qr_steps q') k = Some s' ->
    length (fs_siblings s) = length (fs_siblings s') ->
    (fs_evals s, fs_siblings s) <> (fs_evals s', fs_siblings s') -> fri_collision.
  Proof.
    intros R R' Hc Ha. unfold Fri.fri_verifier_query_round in R, R'.
    destruct (vinit round x (qr_initial q) caps 0) as [[]|]; [|discriminate R].
    destruct (vinit round' x (qr_initial q') caps' 0) as [[]|]; [|discriminate R'].
    cbn [rbindr] in R, R'.
    destruct (fri_combine_initial inst p (qr_initial q) (fri_alpha ch) _ reduced) as [oe|]; [|discriminate R].
    destruct (fri_combine_initial inst' p' (qr_initial q') (fri_alpha ch') _ reduced') as [oe'|]; [|discriminate R'].
    cbn [rbindr] in R, R'. rewrite <- Hc, <- Ha in R'.
    match type of R with rbindr ?m _ = _ => destruct m as [r|] eqn:Q; [|discriminate R] end.
    match type of R' with rbindr ?m _ = _ => destruct m as [r'|] eqn:Q'; [|discriminate R'] end.
    intros Hk Hn Hn' Hl Hne.
    exact (step_binding _ _ _ _ _ _ _ _ _ _ _ _ _ _ _ _ _ _ _ Q Q' Hk Hn Hn' Hl Hne).
  Qed.
End FriProofs.
