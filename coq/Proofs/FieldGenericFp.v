(* Facts about the Goldilocks constants (regenerated from /repo into Gen/FieldConsts.v) needed to
   instantiate the abstract theorems of Proofs/FieldGeneric{,Ext}.v, all by vm_compute with binary
   exponentiation, and correctness of inverse_2exp for every exponent.  No axioms. *)
From Coq Require Import ZArith List Lia Znumtheory Zpow_facts.
From Verif Require Import Base.Field Gen.FieldConsts Model.Fp Model.FieldGeneric
  Proofs.FpField Proofs.FpFieldPrime Proofs.FieldGeneric Proofs.FieldGenericExt.
Import ListNotations.
Open Scope Z_scope.

Ltac fp_compute := apply Fp_ext; vm_compute; reflexivity.
Ltac fp_neq := let E := fresh in intros E; apply (f_equal fval) in E; vm_compute in E; discriminate E.

(* ------------------------------------------------------------------ *)
(* 6. two-adic generator: order exactly 2^32 *)

Lemma two_adicity_val : TWO_ADICITY = 32. Proof. reflexivity. Qed.

Lemma power_of_two_generator_order :
  exp_power_of_2 (toFp POWER_OF_TWO_GENERATOR) 32 = 1%F.
Proof. fp_compute. Qed.

Lemma power_of_two_generator_primitive :
  exp_power_of_2 (toFp POWER_OF_TWO_GENERATOR) 31 <> 1%F.
Proof. fp_neq. Qed.

(* the same in terms of fpow, through exp_power_of_2_correct (no unary number is computed) *)
Lemma power_of_two_generator_fpow :
  fpow (toFp POWER_OF_TWO_GENERATOR) (2 ^ 32) = 1%F /\
  fpow (toFp POWER_OF_TWO_GENERATOR) (2 ^ 31) <> 1%F.
Proof.
  rewrite <- !exp_power_of_2_correct.
  split; [exact power_of_two_generator_order | exact power_of_two_generator_primitive].
Qed.

(* P - 1 = 2^32 * odd: the two-adicity is exactly 32 *)
Lemma P_minus_1_two_adic : P - 1 = 2 ^ TWO_ADICITY * (2 ^ 32 - 1) /\ Z.odd (2 ^ 32 - 1) = true.
Proof. split; reflexivity. Qed.

(* POWER_OF_TWO_GENERATOR = MULTIPLICATIVE_GROUP_GENERATOR ^ ((P-1)/2^32) *)
Lemma power_of_two_generator_def :
  POWER_OF_TWO_GENERATOR = Zpow_mod MULTIPLICATIVE_GROUP_GENERATOR ((P - 1) / 2 ^ 32) P.
Proof. vm_compute. reflexivity. Qed.

(* DTH_ROOT constants: D-th roots of unity, primitive, equal to W^((P-1)/D) *)
Lemma ext2_dth_root_order : fpow (toFp EXT2_DTH_ROOT) 2 = 1%F. Proof. fp_compute. Qed.
Lemma ext4_dth_root_order : fpow (toFp EXT4_DTH_ROOT) 4 = 1%F. Proof. fp_compute. Qed.
Lemma ext5_dth_root_order : fpow (toFp EXT5_DTH_ROOT) 5 = 1%F. Proof. fp_compute. Qed.

Lemma ext2_dth_root_neq_1 : toFp EXT2_DTH_ROOT <> 1%F. Proof. fp_neq. Qed.
Lemma ext4_dth_root_sq_neq_1 : fpow (toFp EXT4_DTH_ROOT) 2 <> 1%F. Proof. fp_neq. Qed.
Lemma ext5_dth_root_neq_1 : toFp EXT5_DTH_ROOT <> 1%F. Proof. fp_neq. Qed.

Lemma ext2_dth_root_def : EXT2_DTH_ROOT = Zpow_mod EXT2_W ((P - 1) / 2) P.
Proof. vm_compute. reflexivity. Qed.
Lemma ext4_dth_root_def : EXT4_DTH_ROOT = Zpow_mod EXT4_W ((P - 1) / 4) P.
Proof. vm_compute. reflexivity. Qed.
Lemma ext5_dth_root_def : EXT5_DTH_ROOT = Zpow_mod EXT5_W ((P - 1) / 5) P.
Proof. vm_compute. reflexivity. Qed.

Lemma ext2_dth_root_is_neg_one : toFp EXT2_DTH_ROOT = (- (1))%F. Proof. fp_compute. Qed.

Lemma goldilocks_prim_roots :
  prim_root 2 (toFp EXT2_DTH_ROOT) /\ prim_root 4 (toFp EXT4_DTH_ROOT) /\ prim_root 5 (toFp EXT5_DTH_ROOT).
Proof.
  split; [|split].
  - apply prim_root_2; [exact ext2_dth_root_order | exact ext2_dth_root_neq_1].
  - apply prim_root_4; [exact ext4_dth_root_order | exact ext4_dth_root_sq_neq_1].
  - apply prim_root_5; [exact ext5_dth_root_order | exact ext5_dth_root_neq_1].
Qed.

(* repeated_frobenius is multiplicative for the three Goldilocks extensions (instance of
   ext_frobenius_mul with its hypothesis discharged) *)
Theorem goldilocks_frobenius_mul :
  (forall a b k, length a = 2%nat -> length b = 2%nat ->
     ext_repeated_frobenius 2 (toFp EXT2_DTH_ROOT) (ext_mul 2 (toFp EXT2_W) a b) k =
     ext_mul 2 (toFp EXT2_W) (ext_repeated_frobenius 2 (toFp EXT2_DTH_ROOT) a k)
                             (ext_repeated_frobenius 2 (toFp EXT2_DTH_ROOT) b k)) /\
  (forall a b k, length a = 4%nat -> length b = 4%nat ->
     ext_repeated_frobenius 4 (toFp EXT4_DTH_ROOT) (ext_mul 4 (toFp EXT4_W) a b) k =
     ext_mul 4 (toFp EXT4_W) (ext_repeated_frobenius 4 (toFp EXT4_DTH_ROOT) a k)
                             (ext_repeated_frobenius 4 (toFp EXT4_DTH_ROOT) b k)) /\
  (forall a b k, length a = 5%nat -> length b = 5%nat ->
     ext_repeated_frobenius 5 (toFp EXT5_DTH_ROOT) (ext_mul 5 (toFp EXT5_W) a b) k =
     ext_mul 5 (toFp EXT5_W) (ext_repeated_frobenius 5 (toFp EXT5_DTH_ROOT) a k)
                             (ext_repeated_frobenius 5 (toFp EXT5_DTH_ROOT) b k)).
Proof.
  split; [|split]; intros a b k Ha Hb; apply ext_frobenius_mul; auto;
    try (left; reflexivity); try (right; left; reflexivity); try (right; right; reflexivity).
  - exact ext2_dth_root_order.
  - exact ext4_dth_root_order.
  - exact ext5_dth_root_order.
Qed.

(* W = 7 is a quadratic non-residue (Euler's criterion, with Fermat from Proofs/Primality.v),
   so the quadratic extension is a field and the norm hypothesis of ext2_try_inverse_correct
   holds for every non-zero element *)
Lemma ext2_W_euler : Zpow_mod EXT2_W ((P - 1) / 2) P = P - 1.
Proof. vm_compute. reflexivity. Qed.

Lemma ext2_W_nonsquare : forall s : Fp, (s * s)%F <> toFp EXT2_W.
Proof.
  intros s E. apply (f_equal fval) in E. cbn [fval fmul FpOps toFp] in E.
  pose proof P_gt_1 as HP. pose proof (fval_range s) as Hs. set (v := fval s) in *.
  assert (Hv : v mod P <> 0).
  { intros Hv0. rewrite Z.mod_small in Hv0 by lia. rewrite Hv0 in E. vm_compute in E. discriminate E. }
  pose proof (fermat_P v Hv) as Hf.
  pose proof ext2_W_euler as He. rewrite Zpow_mod_correct in He by lia.
  assert (E2 : (P - 1) = 2 * ((P - 1) / 2)) by (vm_compute; reflexivity).
  set (e := (P - 1) / 2) in *. assert (He0 : 0 <= e) by (vm_compute; discriminate).
  rewrite E2 in Hf at 1. rewrite Z.pow_mul_r in Hf by lia.
  rewrite Zpower_mod in Hf by lia. replace (v ^ 2) with (v * v) in Hf by ring.
  rewrite E in Hf. rewrite <- Zpower_mod in Hf by lia. rewrite He in Hf.
  vm_compute in Hf. discriminate Hf.
Qed.

Theorem goldilocks_ext2_inverse : forall a : list Fp, length a = 2%nat -> ext_is_zero a = false ->
  exists r, ext2_try_inverse (toFp EXT2_W) (toFp EXT2_DTH_ROOT) a = Some r /\ length r = 2%nat /\
            ext_mul 2 (toFp EXT2_W) a r = ext_of_base 2 1%F.
Proof.
  intros a La Hz. apply ext2_try_inverse_correct.
  - exact La.
  - exact ext2_dth_root_order.
  - exact ext2_dth_root_neq_1.
  - rewrite ext2_dth_root_is_neg_one. apply ext2_norm_nonzero; auto. exact ext2_W_nonsquare.
Qed.

(* EXT_POWER_OF_TWO_GENERATOR: order exactly 2^33, 2^34, 2^32 in the three extensions *)
Definition ext_sq (D : nat) (W : Z) (a : list Fp) : list Fp := ext_mul D (toFp W) a a.

Lemma ext2_power_of_two_generator_order :
  map fval (Nat.iter 33 (ext_sq 2 EXT2_W) (map toFp EXT2_EXT_POWER_OF_TWO_GENERATOR)) = [1; 0] /\
  map fval (Nat.iter 32 (ext_sq 2 EXT2_W) (map toFp EXT2_EXT_POWER_OF_TWO_GENERATOR)) = [P - 1; 0].
Proof. split; vm_compute; reflexivity. Qed.

Lemma ext4_power_of_two_generator_order :
  map fval (Nat.iter 34 (ext_sq 4 EXT4_W) (map toFp EXT4_EXT_POWER_OF_TWO_GENERATOR)) = [1; 0; 0; 0] /\
  map fval (Nat.iter 33 (ext_sq 4 EXT4_W) (map toFp EXT4_EXT_POWER_OF_TWO_GENERATOR)) = [P - 1; 0; 0; 0].
Proof. split; vm_compute; reflexivity. Qed.

Lemma ext5_power_of_two_generator_order :
  map fval (Nat.iter 32 (ext_sq 5 EXT5_W) (map toFp EXT5_EXT_POWER_OF_TWO_GENERATOR)) = [1; 0; 0; 0; 0] /\
  map fval (Nat.iter 31 (ext_sq 5 EXT5_W) (map toFp EXT5_EXT_POWER_OF_TWO_GENERATOR)) = [P - 1; 0; 0; 0; 0].
Proof. split; vm_compute; reflexivity. Qed.

(* ------------------------------------------------------------------ *)
(* 7. inverse_2exp *)

Definition inv2_direct (e : nat) : Fp := toFp (P - Z.shiftr (P - 1) (Z.of_nat e)).

Lemma inv2_direct_correct e : (e <= 32)%nat ->
  (fval (inv2_direct e) * 2 ^ Z.of_nat e) mod P = 1.
Proof.
  intros He. unfold inv2_direct. cbn [fval toFp]. pose proof P_gt_1 as HP.
  rewrite Z.shiftr_div_pow2 by lia. set (E := Z.of_nat e). assert (HE : 0 <= E <= 32) by lia.
  set (q := 2 ^ (32 - E) * (2 ^ 32 - 1)).
  assert (Hpow : 0 < 2 ^ E) by (apply Z.pow_pos_nonneg; lia).
  assert (Hq : P - 1 = q * 2 ^ E).
  { unfold q. rewrite <- Z.mul_assoc, (Z.mul_comm (2 ^ 32 - 1)), Z.mul_assoc.
    rewrite <- Z.pow_add_r by lia. replace (32 - E + E) with 32 by lia. reflexivity. }
  rewrite Hq at 1. rewrite Z.div_mul by lia.
  rewrite Zmult_mod_idemp_l.
  replace ((P - q) * 2 ^ E) with (1 + (2 ^ E - 1) * P) by lia.
  rewrite Z_mod_plus_full. apply Z.mod_small. lia.
Qed.

Lemma inv2exp_loop_spec : forall fuel (res : Fp) e m,
  (e <= fuel)%nat -> (fval res * 2 ^ Z.of_nat m) mod P = 1 ->
  exists res' e', inv2exp_loop 32 fuel res (inv2_direct 32) e = (res', e') /\
    (e' <= 32)%nat /\ (e' <= e)%nat /\ (fval res' * 2 ^ Z.of_nat (m + e - e')) mod P = 1.
Proof.
  pose proof P_gt_1 as HP.
  induction fuel as [|fuel IH]; intros res e m He Hres.
  - exists res, e. cbn [inv2exp_loop]. repeat split; try lia.
    replace (m + e - e)%nat with m by lia. exact Hres.
  - cbn [inv2exp_loop]. destruct (Nat.ltb 32 e) eqn:Elt.
    + apply Nat.ltb_lt in Elt.
      destruct (IH (res * inv2_direct 32)%F (e - 32)%nat (m + 32)%nat) as (res' & e' & E & H1 & H2 & H3).
      * lia.
      * cbn [fval fmul FpOps toFp]. rewrite Zmult_mod_idemp_l.
        rewrite Nat2Z.inj_add, Z.pow_add_r by lia.
        replace (fval res * fval (inv2_direct 32) * (2 ^ Z.of_nat m * 2 ^ Z.of_nat 32))
          with ((fval res * 2 ^ Z.of_nat m) * (fval (inv2_direct 32) * 2 ^ Z.of_nat 32)) by ring.
        rewrite Zmult_mod, Hres, (inv2_direct_correct 32) by lia. apply Z.mod_small. lia.
      * exists res', e'. split; [exact E|]. repeat split; try lia.
        replace (m + e - e')%nat with (m + 32 + (e - 32) - e')%nat by lia. exact H3.
    + apply Nat.ltb_ge in Elt. exists res, e. repeat split; try lia.
      replace (m + e - e)%nat with m by lia. exact Hres.
Qed.

Theorem inverse_2exp_correct : forall k : nat,
  (fval (inverse_2exp toFp ORDER 32 k) * 2 ^ Z.of_nat k) mod P = 1.
Proof.
  intros k. pose proof P_gt_1 as HP. unfold inverse_2exp. fold P.
  destruct (Nat.ltb 32 k) eqn:Elt.
  - apply Nat.ltb_lt in Elt. fold (inv2_direct 32).
    destruct (inv2exp_loop_spec k (inv2_direct 32) (k - 32)%nat 32%nat) as (res' & e' & E & H1 & H2 & H3).
    + lia.
    + apply inv2_direct_correct. lia.
    + rewrite E. fold (inv2_direct e'). cbn [fval fmul FpOps toFp]. rewrite Zmult_mod_idemp_l.
      replace (Z.of_nat k) with (Z.of_nat (32 + (k - 32) - e') + Z.of_nat e') by lia.
      rewrite Z.pow_add_r by lia.
      replace (fval res' * fval (inv2_direct e') * (2 ^ Z.of_nat (32 + (k - 32) - e') * 2 ^ Z.of_nat e'))
        with ((fval res' * 2 ^ Z.of_nat (32 + (k - 32) - e')) * (fval (inv2_direct e') * 2 ^ Z.of_nat e')) by ring.
      rewrite Zmult_mod, H3, (inv2_direct_correct e') by lia. apply Z.mod_small. lia.
  - apply Nat.ltb_ge in Elt. apply (inv2_direct_correct k Elt).
Qed.

(* in field terms: inverse_2exp k is the inverse of 2^k *)
Corollary inverse_2exp_field : forall k : nat,
  (inverse_2exp toFp ORDER 32 k * fpow (toFp 2) k)%F = 1%F.
Proof.
  intros k. pose proof P_gt_1 as HP. apply Fp_ext. cbn [fval fmul fone FpOps toFp].
  assert (Hp : forall n, fval (fpow (toFp 2) n) = 2 ^ Z.of_nat n mod P).
  { induction n as [|n IHn].
    - reflexivity.
    - cbn [fpow]. cbn [fval fmul FpOps toFp]. rewrite IHn. rewrite Zmult_mod_idemp_r, Zmult_mod_idemp_l.
      rewrite Nat2Z.inj_succ, Z.pow_succ_r by lia. reflexivity. }
  rewrite Hp, Zmult_mod_idemp_r. rewrite inverse_2exp_correct. reflexivity.
Qed.
