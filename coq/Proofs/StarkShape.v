(* Proofs about Model/StarkShape.v and the zip of Model/Fri.v verify_initial. *)
From Coq Require Import ZArith List Bool Lia.
From Verif Require Import Base.Field Model.Fp Model.Fri Model.StarkShape.
Import ListNotations.
Local Open Scope nat_scope.

Lemma present_iff_quotient_spec s o len :
  present_iff_quotient s o len = true ->
  (sd_num_quotient s <> 0 -> o = Some len) /\ (sd_num_quotient s = 0 -> o = None).
Proof.
  unfold present_iff_quotient; destruct o as [l|]; intros H.
  - apply andb_prop in H; destruct H as [Hn Hl].
    apply negb_true_iff, Nat.eqb_neq in Hn. apply Nat.eqb_eq in Hl. subst l. split; [reflexivity|lia].
  - apply Nat.eqb_eq in H. split; [lia|reflexivity].
Qed.

Lemma check_lookup_options_spec s p :
  check_lookup_options s p = true ->
  if sd_uses_lookups s || sd_requires_ctls s
  then exists cap, ps_aux_cap p = Some cap /\
       ps_aux p = Some (sd_num_lookup_helpers s + sd_num_ctl_helpers s + sd_num_ctl_zs s) /\
       ps_aux_next p = Some (sd_num_lookup_helpers s + sd_num_ctl_helpers s + sd_num_ctl_zs s)
  else ps_aux_cap p = None /\ ps_aux p = None /\ ps_aux_next p = None /\ ps_ctl_zs_first p = None.
Proof.
  unfold check_lookup_options. destruct (sd_uses_lookups s || sd_requires_ctls s).
  - destruct (ps_aux_cap p) as [cap|]; [|discriminate].
    destruct (ps_aux p) as [aux|]; [|discriminate].
    destruct (ps_aux_next p) as [auxn|]; [|discriminate].
    intros H. repeat (apply andb_prop in H; destruct H as [H ?]).
    repeat match goal with E : Nat.eqb _ _ = true |- _ => apply Nat.eqb_eq in E end.
    subst. eexists; repeat split.
  - unfold is_none. destruct (ps_aux_cap p), (ps_aux p), (ps_aux_next p), (ps_ctl_zs_first p); simpl; try discriminate.
    intros _; repeat split.
Qed.

Lemma validate_parts s p :
  validate_proof_shape s p = true ->
  ps_pis p = sd_npis s /\ ps_trace_cap p = 2 ^ sd_cap_height s /\
  ps_local p = sd_columns s /\ ps_next p = sd_columns s /\
  present_iff_quotient s (ps_quot_cap p) (2 ^ sd_cap_height s) = true /\
  present_iff_quotient s (ps_quot p) (sd_num_quotient s) = true /\
  check_lookup_options s p = true.
Proof.
  unfold validate_proof_shape. destruct (ps_first_path p) as [fpl|]; [|discriminate].
  intros H. repeat (apply andb_prop in H; destruct H as [H ?]).
  repeat match goal with E : Nat.eqb _ _ = true |- _ => apply Nat.eqb_eq in E end.
  repeat split; assumption.
Qed.

Lemma shape_quotient_committed s p :
  validate_proof_shape s p = true -> sd_num_quotient s <> 0 ->
  ps_quot_cap p = Some (2 ^ sd_cap_height s) /\ ps_quot p = Some (sd_num_quotient s).
Proof.
  intros H Hq. destruct (validate_parts s p H) as (_ & _ & _ & _ & Hc & Ho & _).
  split; [apply (present_iff_quotient_spec _ _ _ Hc) | apply (present_iff_quotient_spec _ _ _ Ho)]; exact Hq.
Qed.

Lemma shape_caps_cover_oracles s p :
  validate_proof_shape s p = true -> num_merkle_caps p = num_oracles s.
Proof.
  intros H. destruct (validate_parts s p H) as (_ & _ & _ & _ & Hc & _ & Hl).
  apply present_iff_quotient_spec in Hc. apply check_lookup_options_spec in Hl.
  unfold num_merkle_caps, num_oracles.
  destruct (sd_uses_lookups s || sd_requires_ctls s).
  - destruct Hl as (cap & Ha & _). rewrite Ha.
    destruct (Nat.eqb_spec (sd_num_quotient s) 0) as [E|E].
    + rewrite (proj2 Hc E). reflexivity.
    + rewrite (proj1 Hc E). reflexivity.
  - destruct Hl as (Ha & _). rewrite Ha.
    destruct (Nat.eqb_spec (sd_num_quotient s) 0) as [E|E].
    + rewrite (proj2 Hc E). reflexivity.
    + rewrite (proj1 Hc E). reflexivity.
Qed.

Lemma shape_openings_cover_polys s p :
  validate_proof_shape s p = true -> num_zeta_openings p = num_zeta_polys s.
Proof.
  intros H. destruct (validate_parts s p H) as (_ & _ & Hlo & _ & _ & Ho & Hl).
  apply present_iff_quotient_spec in Ho. apply check_lookup_options_spec in Hl.
  unfold num_zeta_openings, num_zeta_polys. rewrite Hlo.
  destruct (sd_uses_lookups s || sd_requires_ctls s).
  - destruct Hl as (cap & _ & Ha & _). rewrite Ha.
    destruct (Nat.eq_dec (sd_num_quotient s) 0) as [E|E].
    + rewrite (proj2 Ho E). lia.
    + rewrite (proj1 Ho E). lia.
  - destruct Hl as (_ & Ha & _). rewrite Ha.
    destruct (Nat.eq_dec (sd_num_quotient s) 0) as [E|E].
    + rewrite (proj2 Ho E). lia.
    + rewrite (proj1 Ho E). lia.
Qed.

(* the rule without the repair: a STARK with two quotient polynomials, a proof without their cap *)
Definition witness_desc : stark_desc := mkStarkDesc 1 1 2 0 false false 0 2 0 0.
Definition witness_shape : proof_shape := mkProofShape 0 (Some 3) 2 None None 2 2 None None None (Some 2).

Lemma cap_optional_rule_refuted :
  exists s p, validate_proof_shape_cap_optional s p = true /\ sd_num_quotient s <> 0 /\
              num_merkle_caps p < num_oracles s /\ validate_proof_shape s p = false.
Proof. exists witness_desc, witness_shape. vm_compute. repeat split; try lia. Qed.

(* ---- the zip of fri_verify_initial_proof *)
Section Zip.
  Variable hash_or_noop : list Fp -> digest.
  Variable two_to_one : digest -> digest -> digest.
  Notation vi := (verify_initial hash_or_noop two_to_one).
  Notation vmp := (verify_merkle_proof_to_cap hash_or_noop two_to_one).

  Lemma verify_initial_checks_all : forall initial caps round x oi,
    length initial = length caps -> vi round x initial caps oi = ok tt ->
    Forall2 (fun ec cap => vmp (fst ec) x cap (snd ec) = Some true) initial caps.
  Proof.
    induction initial as [|[evals sibs] it IH]; intros [|cap ct] round x oi Hlen H; simpl in Hlen; try discriminate.
    - constructor.
    - cbn [verify_initial] in H.
      destruct (vmp evals x cap sibs) as [[|]|] eqn:E; try discriminate.
      constructor; [exact E|]. apply (IH ct round x (S oi)); [lia|exact H].
  Qed.

  (* an oracle beyond the caps is not looked at: whatever its leaf and Merkle path are *)
  Lemma verify_initial_ignores_uncapped : forall initial caps round x oi extra,
    length initial = length caps ->
    vi round x (initial ++ extra) caps oi = vi round x initial caps oi.
  Proof.
    induction initial as [|[evals sibs] it IH]; intros [|cap ct] round x oi extra Hlen; simpl in Hlen; try discriminate.
    - destruct extra as [|[e s] t]; reflexivity.
    - cbn [verify_initial app].
      destruct (vmp evals x cap sibs) as [[|]|]; try reflexivity.
      apply IH. lia.
  Qed.
End Zip.

(* ---- slice::chunks on a list whose length is a multiple of the chunk size: as many full chunks as the quotient *)
From Verif Require Import Model.Stark.
Section Chunks.
  Context {F : Type}.

  Lemma chunks_fuel_full : forall (nch k fuel : nat) (l : list F),
    k <> 0 -> length l = k * nch -> nch <= fuel ->
    length (chunks_fuel fuel k l) = nch /\
    forall ck, In ck (chunks_fuel fuel k l) -> length ck = k.
  Proof.
    induction nch as [|nch IH]; intros k fuel l Hk Hlen Hfuel.
    - rewrite Nat.mul_0_r in Hlen. destruct l; [|discriminate].
      destruct fuel; simpl; split; auto; intros ck [].
    - destruct fuel as [|fuel]; [lia|].
      destruct l as [|x l'] eqn:El.
      + simpl in Hlen. destruct k; [congruence|]. simpl in Hlen. lia.
      + cbn [chunks_fuel]. rewrite <- El in *.
        assert (Hk_le : k <= length l) by (rewrite Hlen; nia).
        destruct (IH k fuel (skipn k l) Hk) as [Hn Hall].
        * rewrite skipn_length, Hlen. nia.
        * lia.
        * split.
          -- simpl. rewrite Hn. reflexivity.
          -- intros ck [E|Hin]; [subst ck; rewrite firstn_length; lia | apply Hall; exact Hin].
  Qed.

  Lemma chunks_full : forall (nch k : nat) (l : list F) cks,
    k <> 0 -> length l = k * nch -> chunks k l = Some cks ->
    length cks = nch /\ forall ck, In ck cks -> length ck = k.
  Proof.
    intros nch k l cks Hk Hlen E. unfold chunks in E. destruct k as [|k']; [congruence|].
    injection E as <-. apply chunks_fuel_full; [lia|exact Hlen|].
    rewrite Hlen. nia.
  Qed.
End Chunks.

From Verif Require Import Proofs.Stark Base.Poly.
Lemma every_identity_checked :
  forall {F : Type} {FO : FieldOps F} {FL : FieldLaws F} (log_n qdf nch : nat) (zeta : F) (van q : list F),
    qdf <> 0 -> length q = qdf * nch -> length van = nch ->
    quotient_check log_n qdf zeta van (Some q) = Some true ->
    exists cks, chunks qdf q = Some cks /\ length cks = nch /\
      forall j, j < nch ->
        exists ck v, nth_error cks j = Some ck /\ length ck = qdf /\ nth_error van j = Some v /\
          v = ((fpow zeta (2 ^ log_n) - 1) * peval ck (fpow zeta (2 ^ log_n)))%F.
Proof.
  intros F FO FL log_n qdf nch zeta van q Hq Hlen Hvan E.
  destruct (quotient_check_true log_n qdf zeta van q E) as [cks [Ec Hall]].
  destruct (chunks_full nch qdf q cks Hq Hlen Ec) as [Hn Hk].
  exists cks. split; [exact Ec|]. split; [exact Hn|].
  intros j Hj.
  destruct (nth_error cks j) as [ck|] eqn:Ej.
  - destruct (Hall j ck Ej) as [v [Hv Hid]].
    exists ck, v. repeat split; try assumption. apply Hk. eapply nth_error_In; exact Ej.
  - apply nth_error_None in Ej. lia.
Qed.
