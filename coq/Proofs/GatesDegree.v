(* C07 - the abstract degree of every constraint (the evaluator of Model/Gates.v run over the degree
   semiring (nat, max, +) of Model/C07Run.v with wires and constants of degree <= 1 and the public-input
   hash of degree 0) is at most the degree the gate declares, for ALL parameter values.
   Together with eval_degree (Proofs/GatesParamInst.v) this bounds the degree of the constraint
   polynomials by gate_degree * witness degree.  Side conditions: BaseSum B >= 1, RandomAccess
   bits >= 1, CosetInterpolation degree >= 2 (with smaller values the declared degree is too small
   for the sum / booleanity / shifted-point constraint). *)
From Coq Require Import ZArith List Lia Arith Bool.
From Verif Require Import Base.Field Base.Poly Model.FieldGeneric Model.Gates Model.C07Run Proofs.GatesSimple
  Proofs.GatesParamInst.
Import ListNotations.
Local Open Scope nat_scope.

Section Degree.
  Local Existing Instance DegOps.
  Local Existing Instance DegOfBase.

  Ltac dsimp := unfold ofN, ofZs, of_base, DegOfBase in *; cbn [fadd fsub fmul fzero fone DegOps fst snd] in *.

  Ltac gen_nth := repeat match goal with
    | |- context [nthF ?l ?i] => let x := fresh "x" in set (x := nthF l i) in *; clearbody x
    | H : context [nthF ?l ?i] |- _ => let x := fresh "x" in set (x := nthF l i) in *; clearbody x
    end.

  Definition le_all (k : nat) (l : list nat) : Prop := Forall (fun d => d <= k) l.

  Lemma nth_le k l i : le_all k l -> nthF l i <= k.
  Proof.
    intros H. revert i. induction H as [|a l Ha _ IH]; intros [|i]; unfold nthF in *; cbn [nth]; dsimp; auto; lia.
  Qed.

  Lemma le_all_map {B} k (f : B -> nat) (l : list B) : (forall x, f x <= k) -> le_all k (map f l).
  Proof. intros H. induction l; cbn [map]; constructor; auto. Qed.
  Lemma le_all_flat_map {B} k (f : B -> list nat) (l : list B) : (forall x, le_all k (f x)) -> le_all k (flat_map f l).
  Proof. intros H. induction l; cbn [flat_map]; [constructor|]. apply Forall_app. split; [apply H | assumption]. Qed.
  Lemma le_all_app k l1 l2 : le_all k l1 -> le_all k l2 -> le_all k (l1 ++ l2).
  Proof. intros. apply Forall_app. split; assumption. Qed.
  Lemma le_all_mono k k' l : k <= k' -> le_all k l -> le_all k' l.
  Proof. intros Hk H. eapply Forall_impl; [|exact H]. cbn beta. intros; lia. Qed.

  Variables cs ws pi : list nat.
  Hypothesis Hcs : le_all 1 cs.
  Hypothesis Hws : le_all 1 ws.
  Hypothesis Hpi : le_all 0 pi.

  Lemma w_le i : nthF ws i <= 1. Proof. apply nth_le. exact Hws. Qed.
  Lemma c_le i : nthF cs i <= 1. Proof. apply nth_le. exact Hcs. Qed.
  Lemma p_le i : nthF pi i <= 0. Proof. apply nth_le. exact Hpi. Qed.

  (* degree of an algebra element: the maximum of its two coordinates *)
  Definition adeg (a : @alg nat) : nat := Nat.max (fst a) (snd a).
  Lemma adeg_at i : adeg (alg_at ws i) <= 1.
  Proof. unfold adeg, alg_at. cbn [fst snd]. pose proof (w_le i). pose proof (w_le (S i)). lia. Qed.
  Lemma adeg_add a b : adeg (alg_add a b) <= Nat.max (adeg a) (adeg b).
  Proof. unfold adeg, alg_add. dsimp. lia. Qed.
  Lemma adeg_sub a b : adeg (alg_sub a b) <= Nat.max (adeg a) (adeg b).
  Proof. unfold adeg, alg_sub. dsimp. lia. Qed.
  Lemma adeg_mul a b : adeg (alg_mul a b) <= adeg a + adeg b.
  Proof. unfold adeg, alg_mul, alg_W. dsimp. lia. Qed.
  Lemma adeg_smul a s : adeg (alg_smul a s) <= adeg a + s.
  Proof. unfold adeg, alg_smul. dsimp. lia. Qed.
  Lemma adeg_of x : adeg (alg_of x) <= x.
  Proof. unfold adeg, alg_of. dsimp. lia. Qed.
  Lemma coords_le k a : adeg a <= k -> le_all k (alg_coords a).
  Proof. unfold adeg, alg_coords. intros. constructor; [lia|]. constructor; [lia|]. constructor. Qed.

  Lemma deg_arithmetic n : le_all 3 (eval_arithmetic n cs ws).
  Proof.
    apply le_all_map. intros i. unfold arith_output. dsimp.
    pose proof (w_le (4 * i)). pose proof (w_le (4 * i + 1)). pose proof (w_le (4 * i + 2)). pose proof (w_le (4 * i + 3)).
    pose proof (c_le 0). pose proof (c_le 1). lia.
  Qed.

  Lemma deg_arithmetic_ext n : le_all 3 (eval_arithmetic_ext n cs ws).
  Proof.
    apply le_all_flat_map. intros i. apply coords_le. unfold arith_ext_output.
    pose proof (adeg_at (8 * i)). pose proof (adeg_at (8 * i + 2)). pose proof (adeg_at (8 * i + 4)). pose proof (adeg_at (8 * i + 6)).
    pose proof (c_le 0). pose proof (c_le 1).
    eapply Nat.le_trans; [apply adeg_sub|]. apply Nat.max_lub; [lia|].
    eapply Nat.le_trans; [apply adeg_add|]. apply Nat.max_lub.
    - eapply Nat.le_trans; [apply adeg_smul|]. pose proof (adeg_mul (alg_at ws (8 * i)) (alg_at ws (8 * i + 2))). lia.
    - eapply Nat.le_trans; [apply adeg_smul|]. lia.
  Qed.

  Lemma deg_mul_ext n : le_all 3 (eval_mul_ext n cs ws).
  Proof.
    apply le_all_flat_map. intros i. apply coords_le. unfold mul_ext_output.
    pose proof (adeg_at (6 * i)). pose proof (adeg_at (6 * i + 2)). pose proof (adeg_at (6 * i + 4)). pose proof (c_le 0).
    eapply Nat.le_trans; [apply adeg_sub|]. apply Nat.max_lub; [lia|].
    eapply Nat.le_trans; [apply adeg_smul|]. pose proof (adeg_mul (alg_at ws (6 * i)) (alg_at ws (6 * i + 2))). lia.
  Qed.

  Lemma deg_reduce (l : list nat) : le_all 1 l -> reduce_with_powers l (ofN 0) <= 1.
  Proof.
    intros H. unfold reduce_with_powers. induction H as [|a l Ha _ IH]; cbn [fold_right]; dsimp; [lia|].
    unfold ofN in *. dsimp. lia.
  Qed.

  Lemma deg_range_product B x : x <= 1 -> range_product B x <= B.
  Proof.
    intros Hx. unfold range_product.
    assert (Hgen : forall l a, fold_left (fun acc i => (acc * (x - ofN i))%F) l a <= a + length l).
    { induction l as [|i l IH]; intros a; cbn [fold_left length]; [lia|].
      eapply Nat.le_trans; [apply IH|]. unfold ofN. dsimp. lia. }
    specialize (Hgen (seq 0 B) 1%F). rewrite seq_length in Hgen. dsimp. lia.
  Qed.

  Lemma deg_base_sum B n : 1 <= B -> le_all B (eval_base_sum B n ws).
  Proof.
    intros HB. unfold eval_base_sum. cbv zeta. constructor.
    - dsimp. assert (Hl : le_all 1 (map (nthF ws) (seq 1 n))) by (apply le_all_map; intros; apply w_le).
      pose proof (deg_reduce _ Hl) as Hr. unfold ofN in *. dsimp. pose proof (w_le 0). lia.
    - rewrite map_map. apply le_all_map. intros i. apply deg_range_product. apply w_le.
  Qed.

  Lemma deg_constant n : le_all 1 (eval_constant n cs ws).
  Proof. apply le_all_map. intros i. dsimp. pose proof (c_le i). pose proof (w_le i). lia. Qed.

  Lemma deg_public_input : le_all 1 (eval_public_input ws pi).
  Proof. apply le_all_map. intros i. dsimp. pose proof (p_le i). pose proof (w_le i). lia. Qed.

  Lemma deg_exponentiation n : le_all 4 (eval_exponentiation n ws).
  Proof.
    unfold eval_exponentiation. apply le_all_app.
    - apply le_all_map. intros i. unfold exp_computed, exp_prev, fsquare.
      pose proof (w_le 0). pose proof (w_le (1 + (n - i - 1))). pose proof (w_le (2 + n + i)).
      destruct i as [|j]; dsimp; [lia|]. pose proof (w_le (2 + n + j)). lia.
    - constructor; [|constructor]. dsimp. pose proof (w_le (1 + n)). pose proof (w_le (2 + n + (n - 1))). lia.
  Qed.

  Lemma deg_reducing_gen (acc_start : nat -> nat) (coeff : nat -> @alg nat) n :
    (forall i, adeg (coeff i) <= 1) ->
    le_all 2 (flat_map (fun i => alg_coords (alg_sub (alg_add (alg_mul (reducing_prev acc_start ws i) (alg_at ws 2)) (coeff i))
                                                       (alg_at ws (acc_start i)))) (seq 0 n)).
  Proof.
    intros Hc. apply le_all_flat_map. intros i. apply coords_le.
    assert (Hp : adeg (reducing_prev acc_start ws i) <= 1) by (unfold reducing_prev; destruct i; apply adeg_at).
    pose proof (adeg_at 2). pose proof (adeg_at (acc_start i)). pose proof (Hc i).
    eapply Nat.le_trans; [apply adeg_sub|]. apply Nat.max_lub; [|lia].
    eapply Nat.le_trans; [apply adeg_add|]. apply Nat.max_lub; [|lia].
    eapply Nat.le_trans; [apply adeg_mul|]. lia.
  Qed.

  Lemma deg_reducing n : le_all 2 (eval_reducing n ws).
  Proof. apply deg_reducing_gen. intros i. eapply Nat.le_trans; [apply adeg_of|]. apply w_le. Qed.
  Lemma deg_reducing_ext n : le_all 2 (eval_reducing_ext n ws).
  Proof. apply (deg_reducing_gen _ (fun i => alg_at ws (6 + 2 * i))). intros i. apply adeg_at. Qed.

  (* ---- RandomAccessGate *)
  Lemma deg_fold_pairs b k : b <= 1 -> forall n l, length l <= n -> le_all k l -> le_all (S k) (fold_pairs b l).
  Proof.
    intros Hb. induction n as [|n IH]; intros l Hn Hl.
    - destruct l; [constructor | cbn [length] in Hn; lia].
    - destruct Hl as [|x l Hx Hl]; [constructor|]. destruct Hl as [|y l Hy Hl]; [constructor|].
      cbn [fold_pairs]. constructor; [dsimp; lia|]. apply IH; [cbn [length] in Hn; lia | exact Hl].
  Qed.

  Lemma deg_ra_select : forall bl k items, le_all 1 bl -> le_all k items -> ra_select bl items <= k + length bl.
  Proof.
    unfold ra_select. induction bl as [|b bl IH]; intros k items Hb Hit; cbn [fold_left length].
    - pose proof (nth_le k items 0 Hit). lia.
    - inversion Hb as [|? ? Hb1 Hb2]; subst.
      specialize (IH (S k) (fold_pairs b items) Hb2 (deg_fold_pairs b k Hb1 (length items) items (le_n _) Hit)). lia.
  Qed.

  Lemma deg_ra_reconstruct bl : le_all 1 bl -> ra_reconstruct bl <= 1.
  Proof. intros H. unfold ra_reconstruct. induction H; cbn [fold_right]; dsimp; lia. Qed.

  Lemma deg_random_access bits copies extra : 1 <= bits ->
    le_all (bits + 1) (eval_random_access bits copies extra cs ws).
  Proof.
    intros Hbits. unfold eval_random_access. apply le_all_app.
    - apply le_all_flat_map. intros c. unfold ra_copy_constraints. cbv zeta.
      assert (Hbl : le_all 1 (ra_bits bits copies extra ws c)) by (apply le_all_map; intros; apply w_le).
      assert (Hit : le_all 1 (ra_items bits ws c)) by (apply le_all_map; intros; apply w_le).
      assert (Hlen : length (ra_bits bits copies extra ws c) = bits) by (unfold ra_bits; rewrite map_length, seq_length; reflexivity).
      repeat apply le_all_app.
      + clear Hit Hlen. induction Hbl; cbn [map]; constructor; [dsimp; lia | assumption].
      + constructor; [|constructor]. pose proof (deg_ra_reconstruct _ Hbl). pose proof (w_le ((2 + ra_vec_size bits) * c)).
        dsimp. lia.
      + constructor; [|constructor]. pose proof (deg_ra_select _ 1 _ Hbl Hit). pose proof (w_le ((2 + ra_vec_size bits) * c + 1)).
        dsimp. lia.
    - apply le_all_map. intros i. pose proof (c_le i). pose proof (w_le (ra_start_extra bits copies + i)). dsimp. lia.
  Qed.

  (* ---- PoseidonMdsGate *)
  Definition adeg_all (k : nat) (l : list (@alg nat)) : Prop := Forall (fun a => adeg a <= k) l.
  Lemma adeg_nth k l i : adeg_all k l -> adeg (nth i l alg_zero) <= k.
  Proof.
    intros H. revert i. induction H as [|a l Ha _ IH]; intros [|i]; cbn [nth]; auto; unfold adeg, alg_zero; dsimp; lia.
  Qed.

  Lemma deg_mds_row_alg r v : adeg_all 1 v -> adeg (pg_mds_row_shf_alg r v) <= 1.
  Proof.
    intros Hv. unfold pg_mds_row_shf_alg. cbv zeta.
    assert (Hfold : forall l a, adeg a <= 1 ->
       adeg (fold_left (fun res i => alg_add res (alg_smul (nth ((i + r) mod SW) v alg_zero) (ofZs PoseidonConsts.MDS_MATRIX_CIRC i))) l a) <= 1).
    { induction l as [|i l IH]; intros a Ha; cbn [fold_left]; [exact Ha|]. apply IH.
      eapply Nat.le_trans; [apply adeg_add|]. apply Nat.max_lub; [exact Ha|].
      eapply Nat.le_trans; [apply adeg_smul|]. pose proof (adeg_nth 1 v ((i + r) mod SW) Hv). dsimp. lia. }
    eapply Nat.le_trans; [apply adeg_add|]. apply Nat.max_lub.
    - apply Hfold. unfold adeg, alg_zero. dsimp. lia.
    - eapply Nat.le_trans; [apply adeg_smul|]. pose proof (adeg_nth 1 v r Hv). dsimp. lia.
  Qed.

  Lemma deg_poseidon_mds : le_all 1 (eval_poseidon_mds ws).
  Proof.
    unfold eval_poseidon_mds. cbv zeta. apply le_all_flat_map. intros i. apply coords_le.
    eapply Nat.le_trans; [apply adeg_sub|]. apply Nat.max_lub; [apply adeg_at|].
    apply deg_mds_row_alg. unfold adeg_all. apply Forall_forall. intros a Ha. apply in_map_iff in Ha.
    destruct Ha as [j [<- _]]. apply adeg_at.
  Qed.

  (* ---- PoseidonGate *)
  Lemma deg_fold_max {B} (f : nat -> B -> nat) m (l : list B) :
    (forall a x, a <= m -> f a x <= m) -> forall a, a <= m -> fold_left f l a <= m.
  Proof. intros H. induction l as [|x l IH]; intros a Ha; cbn [fold_left]; auto. Qed.

  Lemma deg_constant_layer m st k : le_all m st -> le_all m (pg_constant_layer st k).
  Proof. intros H. apply le_all_map. intros i. pose proof (nth_le m st i H). dsimp. lia. Qed.
  Lemma deg_sbox x : pg_sbox_monomial x = 7 * x.
  Proof. unfold pg_sbox_monomial. cbv zeta. dsimp. lia. Qed.
  Lemma deg_sbox_layer st : le_all 1 st -> le_all 7 (pg_sbox_layer st).
  Proof. intros H. unfold pg_sbox_layer. induction H; cbn [map]; constructor; [rewrite deg_sbox; lia | assumption]. Qed.
  Lemma deg_mds_layer m st : le_all m st -> le_all m (pg_mds_layer st).
  Proof.
    intros H. apply le_all_map. intros r. unfold pg_mds_row_shf.
    assert (Hf : fold_left (fun res i => (res + nthF st ((i + r) mod SW) * ofZs PoseidonConsts.MDS_MATRIX_CIRC i)%F) (seq 0 SW) 0%F <= m).
    { apply deg_fold_max; [|dsimp; lia]. intros a i Ha. pose proof (nth_le m st ((i + r) mod SW) H). dsimp. lia. }
    pose proof (nth_le m st r H). dsimp. lia.
  Qed.
  Lemma deg_partial_first m st : le_all m st -> le_all m (pg_partial_first_constant_layer st).
  Proof. intros H. apply le_all_map. intros i. pose proof (nth_le m st i H). dsimp. lia. Qed.
  Lemma deg_partial_init m st : le_all m st -> le_all m (pg_mds_partial_layer_init st).
  Proof.
    intros H. unfold pg_mds_partial_layer_init. constructor; [apply nth_le; exact H|].
    apply le_all_map. intros c. apply deg_fold_max; [|dsimp; lia].
    intros a r Ha. pose proof (nth_le m st r H). dsimp. lia.
  Qed.
  Lemma deg_partial_fast m st k : le_all m st -> le_all m (pg_mds_partial_layer_fast st k).
  Proof.
    intros H. unfold pg_mds_partial_layer_fast. cbv zeta. pose proof (nth_le m st 0 H) as H0. constructor.
    - apply deg_fold_max; [|dsimp; lia]. intros a i Ha. pose proof (nth_le m st i H). dsimp. lia.
    - apply le_all_map. intros i. pose proof (nth_le m st i H). dsimp. lia.
  Qed.

  Lemma le_all_firstn m n l : le_all m l -> le_all m (firstn n l).
  Proof.
    intros H. revert n. induction H as [|a l Ha H IH]; intros [|n]; cbn [firstn]; try (constructor; fail).
    constructor; [exact Ha | apply IH].
  Qed.
  Lemma le_all_skipn m n l : le_all m l -> le_all m (skipn n l).
  Proof.
    intros H. revert n. induction H as [|a l Ha H IH]; intros [|n]; cbn [skipn]; try (constructor; fail).
    - constructor; assumption.
    - apply IH.
  Qed.

  Lemma deg_combine_sub m l1 l2 : le_all m l1 -> le_all m l2 ->
    le_all m (map (fun p => (fst p - snd p)%F) (combine l1 l2)).
  Proof.
    intros H1. revert l2. induction H1 as [|a l1 Ha _ IH]; intros l2 H2; cbn [combine map]; [constructor|].
    destruct H2 as [|b l2 Hb H2]; cbn [combine map]; constructor; [dsimp; lia | apply IH; exact H2].
  Qed.

  Lemma deg_check_subst m st start len : 1 <= m -> le_all m st ->
    le_all m (fst (check_subst st ws start len)) /\ le_all m (snd (check_subst st ws start len))
    /\ (length st <= len -> le_all 1 (snd (check_subst st ws start len))).
  Proof.
    intros Hm Hst. unfold check_subst. cbn [fst snd].
    assert (Hsb : le_all 1 (map (nthF ws) (seq start len))) by (apply le_all_map; intros; apply w_le).
    split; [|split].
    - apply deg_combine_sub; [apply le_all_firstn; exact Hst | apply (le_all_mono 1); assumption].
    - apply le_all_app; [apply (le_all_mono 1); assumption | apply le_all_skipn; exact Hst].
    - intros Hl. rewrite skipn_all2 by exact Hl. rewrite app_nil_r. exact Hsb.
  Qed.

  Definition pdeg (acc : list nat * list nat) : Prop := le_all 7 (fst acc) /\ le_all 7 (snd acc).

  Lemma constant_layer_length (st : list nat) k : length (pg_constant_layer st k) = SW.
  Proof. unfold pg_constant_layer. rewrite map_length, seq_length. reflexivity. Qed.

  Lemma pdeg_full_some s ctr acc : pdeg acc -> pdeg (poseidon_full_round ws (Some s) ctr acc).
  Proof.
    destruct acc as [st c]. intros [Hst Hc]. cbn [fst snd] in *. unfold poseidon_full_round.
    destruct (deg_check_subst 7 (pg_constant_layer st ctr) s SW ltac:(lia) (deg_constant_layer 7 st ctr Hst)) as [H1 [_ H3]].
    specialize (H3 ltac:(rewrite constant_layer_length; lia)).
    destruct (check_subst (pg_constant_layer st ctr) ws s SW) as [x y]. cbn [fst snd] in *.
    split; cbn [fst snd]; [apply deg_mds_layer, deg_sbox_layer; exact H3 | apply le_all_app; assumption].
  Qed.

  Lemma pdeg_full_none ctr st c : le_all 1 st -> le_all 7 c -> pdeg (poseidon_full_round ws None ctr (st, c)).
  Proof.
    intros Hst Hc. unfold poseidon_full_round.
    split; cbn [fst snd]; [apply deg_mds_layer, deg_sbox_layer, deg_constant_layer; exact Hst | rewrite app_nil_r; exact Hc].
  Qed.

  Lemma pdeg_partial k acc : pdeg acc -> pdeg (poseidon_partial_round ws acc k).
  Proof.
    destruct acc as [st c]. intros [Hst Hc]. cbn [fst snd] in *. unfold poseidon_partial_round.
    unfold check_subst. cbn [seq map].
    split; cbn [fst snd].
    - apply deg_partial_fast. constructor.
      + change (nthF ([nthF ws (P_START_PARTIAL + k)] ++ skipn 1 st) 0) with (nthF ws (P_START_PARTIAL + k)).
        rewrite deg_sbox. pose proof (w_le (P_START_PARTIAL + k)).
        destruct (k <? N_PARTIAL - 1); dsimp; lia.
      + cbn [app tl]. apply le_all_skipn. exact Hst.
    - apply le_all_app; [exact Hc|]. apply deg_combine_sub; [apply le_all_firstn; exact Hst|].
      constructor; [pose proof (w_le (P_START_PARTIAL + k)); lia | constructor].
  Qed.

  Lemma pdeg_fold {B} (f : list nat * list nat -> B -> list nat * list nat) (l : list B) :
    (forall a x, In x l -> pdeg a -> pdeg (f a x)) -> forall a, pdeg a -> pdeg (fold_left f l a).
  Proof.
    induction l as [|x l IH]; intros H a Ha; cbn [fold_left]; [exact Ha|].
    apply IH; [intros b y Hy; apply H; right; exact Hy|]. apply H; [left; reflexivity | exact Ha].
  Qed.

  Lemma deg_poseidon : le_all 7 (eval_poseidon ws).
  Proof.
    unfold eval_poseidon.
    assert (Hacc : pdeg (poseidon_eval_acc ws)).
    { unfold poseidon_eval_acc. cbv zeta.
      apply pdeg_fold; [intros a r _ Ha; apply pdeg_full_some; exact Ha|].
      apply pdeg_fold; [intros a r _ Ha; apply pdeg_partial; exact Ha|].
      assert (Hff : pdeg (fold_left (poseidon_first_full_step ws) (seq 0 HALF_FULL) (poseidon_input_state ws, poseidon_cs0 ws))).
      { rewrite HALF_FULL_eq. change (seq 0 4) with (0 :: seq 1 3). cbn [fold_left].
        apply pdeg_fold.
        - intros a r Hr Ha. apply in_seq in Hr. destruct r as [|j]; [lia|]. apply pdeg_full_some. exact Ha.
        - unfold poseidon_first_full_step. apply pdeg_full_none.
          + unfold poseidon_input_state. repeat apply le_all_app; apply le_all_map; intros i.
            * pose proof (w_le i). pose proof (w_le (P_START_DELTA + i)). dsimp. lia.
            * pose proof (w_le (i + 4)). pose proof (w_le (P_START_DELTA + i)). dsimp. lia.
            * apply w_le.
          + unfold poseidon_cs0. cbv zeta. pose proof (w_le P_WIRE_SWAP). constructor; [dsimp; lia|].
            apply le_all_map. intros i. pose proof (w_le (i + 4)). pose proof (w_le i). pose proof (w_le (P_START_DELTA + i)).
            dsimp. lia. }
      destruct Hff as [H1 H2]. unfold poseidon_partial_init. split; cbn [fst snd];
        [apply deg_partial_init, deg_partial_first; exact H1 | exact H2]. }
    destruct Hacc as [H1 H2]. unfold poseidon_output_constraints. apply le_all_app; [exact H2|].
    apply le_all_map. intros i. pose proof (nth_le 7 _ i H1). pose proof (w_le (SW + i)). dsimp. lia.
  Qed.

  (* ---- CosetInterpolationGate *)
  Lemma adeg_all_firstn k n l : adeg_all k l -> adeg_all k (firstn n l).
  Proof.
    intros H. revert n. induction H as [|a l Ha H IH]; intros [|n]; cbn [firstn]; try (constructor; fail).
    constructor; [exact Ha | apply IH].
  Qed.
  Lemma adeg_all_skipn k n l : adeg_all k l -> adeg_all k (skipn n l).
  Proof.
    intros H. revert n. induction H as [|a l Ha H IH]; intros [|n]; cbn [skipn]; try (constructor; fail).
    - constructor; assumption.
    - apply IH.
  Qed.

  Lemma deg_partial_interpolate x : adeg x <= 1 -> forall values, adeg_all 1 values ->
    forall domain weights ev pr D, adeg ev <= D -> adeg pr <= D ->
    adeg (fst (partial_interpolate domain values weights x ev pr)) <= D + length domain /\
    adeg (snd (partial_interpolate domain values weights x ev pr)) <= D + length domain.
  Proof.
    intros Hx values Hv. induction Hv as [|v values Hv1 Hv IH]; intros domain weights ev pr D He Hp.
    - destruct domain; cbn [partial_interpolate fst snd]; lia.
    - destruct domain as [|d domain]; [cbn [partial_interpolate fst snd length]; lia|].
      destruct weights as [|w weights]; [cbn [partial_interpolate fst snd length]; lia|].
      cbn [partial_interpolate length]. cbv zeta.
      assert (Hterm : adeg (alg_sub x (alg_of (of_base d))) <= 1).
      { eapply Nat.le_trans; [apply adeg_sub|]. pose proof (adeg_of (of_base d)). dsimp. lia. }
      assert (Hval : adeg (alg_smul v (of_base w)) <= 1).
      { eapply Nat.le_trans; [apply adeg_smul|]. dsimp. lia. }
      specialize (IH domain weights
        (alg_add (alg_mul ev (alg_sub x (alg_of (of_base d)))) (alg_mul (alg_smul v (of_base w)) pr))
        (alg_mul pr (alg_sub x (alg_of (of_base d)))) (S D)).
      assert (H1 : adeg (alg_add (alg_mul ev (alg_sub x (alg_of (of_base d)))) (alg_mul (alg_smul v (of_base w)) pr)) <= S D).
      { eapply Nat.le_trans; [apply adeg_add|]. apply Nat.max_lub.
        - eapply Nat.le_trans; [apply adeg_mul|]. lia.
        - eapply Nat.le_trans; [apply adeg_mul|]. lia. }
      assert (H2 : adeg (alg_mul pr (alg_sub x (alg_of (of_base d)))) <= S D).
      { eapply Nat.le_trans; [apply adeg_mul|]. lia. }
      specialize (IH H1 H2). lia.
  Qed.

  Lemma lslice_length {B} (l : list B) a b : length (lslice l a b) <= b - a.
  Proof. unfold lslice. rewrite firstn_length. lia. Qed.

  Lemma deg_coset bits degree weights : 2 <= degree ->
    le_all degree (eval_coset_interpolation bits degree weights ws).
  Proof.
    intros Hd. unfold eval_coset_interpolation. cbv zeta.
    set (sep := alg_at ws (ci_start_intermediates bits + 4 * ci_num_intermediates bits degree)).
    assert (Hsep : adeg sep <= 1) by apply adeg_at.
    assert (Hvals : adeg_all 1 (ci_values bits ws)).
    { unfold ci_values, adeg_all. apply Forall_forall. intros a Ha. apply in_map_iff in Ha.
      destruct Ha as [j [<- _]]. apply adeg_at. }
    assert (Hcomp : forall i,
      adeg (fst (ci_computed bits degree weights (ci_values bits ws) sep (ci_init bits degree ws i) i)) <= degree /\
      adeg (snd (ci_computed bits degree weights (ci_values bits ws) sep (ci_init bits degree ws i) i)) <= degree).
    { intros i. unfold ci_computed. destruct (ci_chunk bits degree i) as [a b] eqn:Ech.
      pose proof (deg_partial_interpolate sep Hsep (lslice (ci_values bits ws) a b)
                    (adeg_all_firstn 1 _ _ (adeg_all_skipn 1 _ _ Hvals))
                    (lslice (two_adic_subgroup bits) a b) (lslice weights a b)
                    (fst (ci_init bits degree ws i)) (snd (ci_init bits degree ws i))) as Hint.
      pose proof (lslice_length (two_adic_subgroup bits) a b) as Hlen.
      destruct i as [|j].
      - cbn [ci_chunk] in Ech. inversion Ech; subst a b. specialize (Hint 0).
        cbn [ci_init fst snd] in Hint.
        assert (Hz0 : adeg (@alg_zero nat DegOps) <= 0) by (unfold adeg, alg_zero; cbn [fst snd fzero DegOps]; lia).
        assert (Hz1 : adeg (@alg_one nat DegOps) <= 0) by (unfold adeg, alg_one; cbn [fst snd fzero fone DegOps]; lia).
        specialize (Hint Hz0 Hz1). unfold ci_init. cbv zeta. cbn [fst snd]. lia.
      - cbn [ci_chunk] in Ech. cbv zeta in Ech. inversion Ech; subst a b. specialize (Hint 1).
        unfold ci_init in Hint. cbv zeta in Hint. cbn [fst snd] in Hint.
        specialize (Hint (adeg_at _) (adeg_at _)). unfold ci_init. cbv zeta. cbn [fst snd]. lia. }
    repeat apply le_all_app.
    - apply coords_le. eapply Nat.le_trans; [apply adeg_sub|]. apply Nat.max_lub.
      + pose proof (adeg_at (1 + ci_num_points bits * 2)). lia.
      + eapply Nat.le_trans; [apply adeg_smul|]. pose proof (w_le 0). lia.
    - apply le_all_flat_map. intros i. destruct (Hcomp i) as [H1 H2].
      apply le_all_app; apply coords_le; (eapply Nat.le_trans; [apply adeg_sub|]); apply Nat.max_lub; try assumption.
      + pose proof (adeg_at (ci_start_intermediates bits + 2 * i)). lia.
      + pose proof (adeg_at (ci_start_intermediates bits + 2 * (ci_num_intermediates bits degree + i))). lia.
    - apply coords_le. eapply Nat.le_trans; [apply adeg_sub|]. apply Nat.max_lub.
      + pose proof (adeg_at (1 + ci_num_points bits * 2 + 2)). lia.
      + apply (Hcomp (ci_num_intermediates bits degree)).
  Qed.
End Degree.

(* ---- all gates *)
Definition deg_side (g : gate) : Prop :=
  match g with
  | BaseSumGate B _ => 1 <= B
  | RandomAccessGate bits _ _ => 1 <= bits
  | CosetInterpolationGate _ degree _ => 2 <= degree
  | _ => True
  end.

Theorem abs_degree_bound (g : gate) (cs ws pi : list nat) :
  deg_side g -> Forall (fun d => d <= 1) cs -> Forall (fun d => d <= 1) ws -> Forall (fun d => d <= 0) pi ->
  Forall (fun d => d <= gate_degree g) (@gate_eval_unfiltered nat DegOps DegOfBase g cs ws pi).
Proof.
  intros Hs Hcs Hws Hpi.
  destruct g as [n|n|n|B n|n|bits degree weights|n| | | |bits copies extra|n|n| |n|n];
    cbn [gate_eval_unfiltered gate_degree deg_side] in *.
  - apply deg_arithmetic; assumption.
  - apply deg_arithmetic_ext; assumption.
  - apply deg_mul_ext; assumption.
  - apply deg_base_sum; assumption.
  - apply deg_constant; assumption.
  - apply deg_coset; assumption.
  - apply deg_exponentiation; assumption.
  - apply deg_poseidon; assumption.
  - apply deg_poseidon_mds; assumption.
  - apply (deg_public_input ws pi); assumption.
  - apply deg_random_access; assumption.
  - apply deg_reducing; assumption.
  - apply deg_reducing_ext; assumption.
  - constructor.
  - constructor.
  - constructor.
Qed.

Corollary gate_abs_degree_le (g : gate) : deg_side g -> gate_abs_degree g <= gate_degree g.
Proof.
  intros Hs. unfold gate_abs_degree.
  assert (Hrep : forall d n, Forall (fun x => x <= d) (repeat d n)).
  { intros d n. induction n; cbn [repeat]; constructor; auto. }
  pose proof (abs_degree_bound g (repeat 1 (gate_num_constants g)) (repeat 1 (Nat.max (gate_eval_wires g) (gate_num_wires g)))
                (repeat 0 4) Hs (Hrep 1 _) (Hrep 1 _) (Hrep 0 4)) as H.
  induction H as [|d l Hd _ IH]; cbn [fold_right]; lia.
Qed.

(* the constraint polynomials of a gate, on wire / constant polynomials with at most delta + 1
   coefficients, have at most gate_degree * delta + 1 coefficients *)
Theorem constraint_degree_bound {K : Type} `{FL : FieldLaws K} {OB : OfBase K}
    (delta : nat) (g : gate) (cs ws pi : list (list K)) :
  deg_side g ->
  length cs = gate_num_constants g -> length ws = Nat.max (gate_eval_wires g) (gate_num_wires g) -> length pi = 4 ->
  Forall (fun p => length p <= delta + 1) cs -> Forall (fun p => length p <= delta + 1) ws ->
  Forall (fun p => length p <= 1) pi ->
  Forall (fun p => length p <= gate_degree g * delta + 1) (eval_polys g cs ws pi).
Proof.
  intros Hs Lc Lw Lp Hcs Hws Hpi.
  pose proof (eval_degree_abs delta g cs ws pi Lc Lw Lp Hcs Hws Hpi) as Habs.
  pose proof (gate_abs_degree_le g Hs) as Hle.
  eapply Forall_impl; [|exact Habs]. cbn beta. intros p Hp. nia.
Qed.
