(* FieldLaws for Fp2 = Fp[X]/(X^2 - 7): needs that W = 7 is a quadratic non-residue modulo P,
   from Euler's criterion direction "square => W^((P-1)/2) = 1" and the computed value
   7^((P-1)/2) = P - 1. *)
From Coq Require Import ZArith Bool Lia Zpow_facts Znumtheory Ring Field.
From Verif Require Import Base.Field Gen.FieldConsts Model.Fp Model.Fp2 Proofs.FpField Proofs.FpFieldPrime.
Open Scope Z_scope.

Lemma W_euler : Zpow_mod EXT2_W ((P - 1) / 2) P = P - 1.
Proof. vm_compute. reflexivity. Qed.

Lemma fpow_fval (x : Fp) n : fval (fpow x n) = (fval x ^ Z.of_nat n) mod P.
Proof.
  induction n as [|n IH].
  - simpl. reflexivity.
  - cbn [fpow]. cbn [fmul FpOps fval toFp]. rewrite IH.
    rewrite Zmult_mod_idemp_r. rewrite Nat2Z.inj_succ, Z.pow_succ_r by lia. reflexivity.
Qed.

(* W is not a square in Fp *)
Lemma W_nonresidue (c : Fp) : fmul c c <> W2.
Proof.
  intros E.
  assert (Hc : fval c mod P <> 0).
  { intros Hz. pose proof (fval_range c). rewrite Z.mod_small in Hz by lia.
    apply (f_equal fval) in E. cbn [fmul FpOps fval toFp W2] in E. rewrite Hz in E.
    vm_compute in E. discriminate. }
  pose proof (fermat_P (fval c) Hc) as Hf.
  pose proof W_euler as HW. rewrite Zpow_mod_correct in HW by (unfold P, ORDER; lia).
  apply (f_equal fval) in E. cbn [fmul FpOps fval toFp W2] in E.
  assert (E2 : (fval c * fval c) ^ ((P - 1) / 2) mod P = EXT2_W ^ ((P - 1) / 2) mod P).
  { rewrite (Zpower_mod (fval c * fval c)) by (unfold P, ORDER; lia).
    rewrite E. rewrite <- Zpower_mod by (unfold P, ORDER; lia). reflexivity. }
  rewrite HW in E2.
  replace ((fval c * fval c) ^ ((P - 1) / 2)) with (fval c ^ (P - 1)) in E2.
  - rewrite Hf in E2. vm_compute in E2. discriminate.
  - replace (fval c * fval c) with (fval c ^ 2) by ring.
    rewrite <- Z.pow_mul_r by (vm_compute; discriminate).
    f_equal.
Qed.

Section Laws.
  Local Open Scope field_scope.
  Add Field FpF : (@F_field_theory Fp _ FpLaws).

  Lemma norm_nonzero (a0 a1 : Fp) : (a0, a1) <> (0, 0) -> a0 * a0 - W2 * (a1 * a1) <> 0.
  Proof.
    intros Hnz E.
    destruct (F_eq_dec a1 0) as [->|H1].
    - assert (a0 * a0 = 0) by (rewrite <- E; ring).
      apply f_mul_eq_0 in H. apply Hnz. f_equal; tauto.
    - apply (W_nonresidue (a0 * finv a1)).
      assert (a0 * a0 = W2 * (a1 * a1)) by (apply f_sub_eq_0; exact E).
      transitivity (a0 * a0 * (finv a1 * finv a1)); [ring|].
      rewrite H. field. exact H1.
  Qed.

  Local Opaque FpOps.
  Lemma Fp2_laws : FieldLaws Fp2.
  Proof.
    constructor.
    - intros [x0 x1]. cbn. f_equal; ring.
    - intros [x0 x1] [y0 y1]. cbn. f_equal; ring.
    - intros [x0 x1] [y0 y1] [z0 z1]. cbn. f_equal; ring.
    - intros [x0 x1]. cbn. f_equal; ring.
    - intros [x0 x1] [y0 y1]. cbn. f_equal; ring.
    - intros [x0 x1] [y0 y1] [z0 z1]. cbn. f_equal; ring.
    - intros [x0 x1] [y0 y1] [z0 z1]. cbn. f_equal; ring.
    - intros [x0 x1] [y0 y1]. cbn. f_equal; ring.
    - intros [x0 x1]. cbn. f_equal; ring.
    - intros [x0 x1] Hnz. cbn [fmul finv Fp2Ops fp2_mul fp2_inv fone].
      pose proof (norm_nonzero x0 x1 Hnz) as Hn.
      f_equal; field; exact Hn.
    - intros E. apply (f_equal fst) in E. cbn [fst fone fzero Fp2Ops] in E. exact (f_1_neq_0 (F := Fp) E).
    - intros [x0 x1] [y0 y1]. cbn [feqb Fp2Ops fst snd]. rewrite andb_true_iff.
      rewrite !(f_eqb_spec (F := Fp)). split; [intros [-> ->]; reflexivity | intros E; inversion E; auto].
  Qed.
End Laws.

Global Instance Fp2Laws : FieldLaws Fp2 := Fp2_laws.
