(* C02 kernel: the chunked partial-product chain telescopes (soundness direction, incl. the
   wrap-around), the prover's accumulator satisfies every check (completeness), and
   reduce_with_powers(_multi) is Horner evaluation, which brings the root bounds of Base/Poly.v. *)
From Coq Require Import List Arith Bool Lia Permutation.
From Verif Require Import Base.Field Base.Poly Model.Permutation.
Import ListNotations.
Local Open Scope field_scope.

Section PermProofs.
  Context {F : Type} `{FL : FieldLaws F}.
  Add Field Ffp : (@F_field_theory F _ FL).

  (* ------------------------------------------------------------ products *)
  Lemma fold_left_mul (l : list F) a : fold_left fmul l a = a * fprod l.
  Proof.
    revert a. induction l as [|x l IH]; intros a; cbn [fold_left fprod fold_right].
    - ring.
    - rewrite IH. unfold fprod. ring.
  Qed.

  Lemma fprodl_fprod l : fprodl l = fprod l.
  Proof. unfold fprodl. rewrite fold_left_mul. ring. Qed.

  Lemma fprod_cons a l : fprod (a :: l) = a * fprod l.
  Proof. reflexivity. Qed.

  Lemma fprod_concat (ls : list (list F)) : fprod (concat ls) = fprod (map fprod ls).
  Proof.
    induction ls as [|l ls IH]; cbn [concat map]; [reflexivity|].
    rewrite fprod_app, fprod_cons, IH. reflexivity.
  Qed.

  Lemma fprod_Permutation l l' : Permutation l l' -> fprod l = fprod l'.
  Proof.
    induction 1; cbn [fprod fold_right] in *.
    - reflexivity.
    - fold (fprod l). fold (fprod l'). rewrite IHPermutation. reflexivity.
    - fold (fprod l). ring.
    - congruence.
  Qed.

  (* ------------------------------------------------------------ chunks *)
  Lemma chunks_aux_concat {A} fuel k (l : list A) :
    (1 <= k)%nat -> (length l <= fuel)%nat -> concat (chunks_aux fuel k l) = l.
  Proof.
    intros Hk. revert l. induction fuel as [|f IH]; intros l Hl.
    - destruct l; [reflexivity|cbn in Hl; lia].
    - destruct l as [|a t]; [reflexivity|].
      cbn [chunks_aux concat]. rewrite IH.
      + apply firstn_skipn.
      + rewrite skipn_length. cbn [length] in *. lia.
  Qed.

  Lemma chunks_concat {A} k (l : list A) : (1 <= k)%nat -> concat (chunks k l) = l.
  Proof. intros. apply chunks_aux_concat; auto. Qed.

  Lemma chunks_aux_length_same {A B} fuel k (l : list A) (l' : list B) :
    length l = length l' -> length (chunks_aux fuel k l) = length (chunks_aux fuel k l').
  Proof.
    revert l l'. induction fuel as [|f IH]; intros l l' Hl; [reflexivity|].
    destruct l, l'; try discriminate; [reflexivity|].
    cbn [chunks_aux length]. f_equal. apply IH. rewrite !skipn_length. congruence.
  Qed.

  Lemma chunks_length_same {A B} k (l : list A) (l' : list B) :
    length l = length l' -> length (chunks k l) = length (chunks k l').
  Proof. intros Hl. unfold chunks. rewrite Hl. apply chunks_aux_length_same. exact Hl. Qed.

  Lemma chunks_aux_map {A B} (f : A -> B) fuel k l :
    chunks_aux fuel k (map f l) = map (map f) (chunks_aux fuel k l).
  Proof.
    revert l. induction fuel as [|fu IH]; intros l; [reflexivity|].
    destruct l as [|a t]; [reflexivity|].
    change (map f (a :: t)) with (f a :: map f t) at 1.
    cbn [chunks_aux map]. rewrite <- IH.
    change (f a :: map f t) with (map f (a :: t)).
    rewrite firstn_map, skipn_map. reflexivity.
  Qed.

  Lemma chunks_map {A B} (f : A -> B) k l : chunks k (map f l) = map (map f) (chunks k l).
  Proof. unfold chunks. rewrite map_length. apply chunks_aux_map. Qed.

  Lemma skipn_combine {A B} n (l : list A) (l' : list B) :
    skipn n (combine l l') = combine (skipn n l) (skipn n l').
  Proof.
    revert l l'. induction n as [|n IH]; intros l l'; [reflexivity|].
    destruct l, l'; cbn [skipn combine]; try reflexivity.
    - destruct (skipn n l); reflexivity.
    - apply IH.
  Qed.

  Lemma chunks_aux_combine {A B} fuel k (l : list A) (l' : list B) :
    length l = length l' ->
    chunks_aux fuel k (combine l l') =
    map (fun '(x, y) => combine x y) (combine (chunks_aux fuel k l) (chunks_aux fuel k l')).
  Proof.
    revert l l'. induction fuel as [|fu IH]; intros l l' Hl; [reflexivity|].
    destruct l as [|a t], l' as [|b t']; try discriminate; [reflexivity|].
    change (combine (a :: t) (b :: t')) with ((a, b) :: combine t t') at 1.
    cbn [chunks_aux combine map].
    change ((a, b) :: combine t t') with (combine (a :: t) (b :: t')).
    rewrite combine_firstn, skipn_combine, IH; [reflexivity|].
    rewrite !skipn_length. congruence.
  Qed.

  Lemma chunks_combine {A B} k (l : list A) (l' : list B) :
    length l = length l' ->
    chunks k (combine l l') = map (fun '(x, y) => combine x y) (combine (chunks k l) (chunks k l')).
  Proof.
    intros Hl. unfold chunks. rewrite combine_length, <- Hl, Nat.min_id.
    apply chunks_aux_combine. exact Hl.
  Qed.

  Lemma chunks_nonempty {A} k (l : list A) : l <> [] -> chunks k l <> [].
  Proof. destruct l; [congruence|]. intros _. unfold chunks. cbn. discriminate. Qed.

  (* ------------------------------------------------------------ the chain of one row *)
  Fixpoint cpp_terms (cn cd : list (list F)) (prev : F) (rest : list F) : list F :=
    match cn, cd, rest with
    | n :: cn', d :: cd', next :: rest' => (prev * fprodl n - next * fprodl d) :: cpp_terms cn' cd' next rest'
    | _, _, _ => []
    end.

  Lemma windows_cons (a b : F) (t : list F) : windows (a :: b :: t) = (a, b) :: windows (b :: t).
  Proof. reflexivity. Qed.

  Lemma windows_length (a : F) (rest : list F) : length (windows (a :: rest)) = length rest.
  Proof.
    revert a. induction rest as [|b t IH]; intros a; [reflexivity|].
    rewrite windows_cons. cbn [length]. rewrite IH. reflexivity.
  Qed.

  Lemma cpp_terms_spec cn cd prev rest :
    map (fun '((n, d), (p, nx)) => p * fprodl n - nx * fprodl d)
        (combine (combine cn cd) (windows (prev :: rest))) = cpp_terms cn cd prev rest.
  Proof.
    revert cd prev rest. induction cn as [|n cn IH]; intros cd prev rest; [reflexivity|].
    destruct cd as [|d cd]; [reflexivity|].
    destruct rest as [|next rest]; [reflexivity|].
    rewrite windows_cons. cbn [combine map cpp_terms]. rewrite IH. reflexivity.
  Qed.

  Lemma last_indep {A} (l : list A) d d' : l <> [] -> last l d = last l d'.
  Proof.
    induction l as [|a t IH]; intros Hne; [congruence|].
    destruct t as [|b t']; [reflexivity|].
    change (last (a :: b :: t') d) with (last (b :: t') d).
    change (last (a :: b :: t') d') with (last (b :: t') d').
    apply IH. discriminate.
  Qed.

  Lemma last_cons_default {A} (a : A) l d : last (a :: l) d = last l a.
  Proof.
    destruct l as [|b t]; [reflexivity|].
    change (last (a :: b :: t) d) with (last (b :: t) d). apply last_indep. discriminate.
  Qed.

  Definition all_zero (ts : list F) : Prop := Forall (fun t => t = 0) ts.

  Lemma cpp_chain cn cd prev rest :
    length cn = length cd -> length rest = length cn ->
    all_zero (cpp_terms cn cd prev rest) ->
    prev * fprod (concat cn) = last rest prev * fprod (concat cd).
  Proof.
    revert cd prev rest. induction cn as [|n cn IH]; intros cd prev rest Hl Hr Hz.
    - destruct cd; [|discriminate]. destruct rest; [|discriminate]. reflexivity.
    - destruct cd as [|d cd]; [discriminate|]. destruct rest as [|next rest]; [discriminate|].
      cbn [cpp_terms] in Hz. inversion Hz as [|t ts Ht Hts]; subst.
      cbn [length] in Hl, Hr.
      specialize (IH cd next rest ltac:(lia) ltac:(lia) Hts).
      rewrite !fprodl_fprod in Ht. apply (proj1 (f_sub_eq_0 _ _)) in Ht.
      cbn [concat]. rewrite !fprod_app.
      assert (Hlast : last (next :: rest) prev = last rest next) by apply last_cons_default.
      rewrite Hlast.
      transitivity (fprod d * (next * fprod (concat cn))).
      + transitivity ((prev * fprod n) * fprod (concat cn)); [ring|]. rewrite Ht. ring.
      + rewrite IH. ring.
  Qed.

  Lemma check_partial_products_Some nums dens partials z_x z_gx md ts :
    check_partial_products nums dens partials z_x z_gx md = Some ts ->
    (1 <= md)%nat /\
    length (chunks md nums) = length (chunks md dens) /\
    length (chunks md nums) = S (length partials) /\
    ts = cpp_terms (chunks md nums) (chunks md dens) z_x (partials ++ [z_gx]).
  Proof.
    unfold check_partial_products. destruct md as [|md']; [discriminate|].
    destruct (Nat.eqb (length (chunks (S md') nums)) (length (chunks (S md') dens))) eqn:E1; [|discriminate].
    cbn [negb].
    destruct (Nat.eqb (length (chunks (S md') nums)) (length (windows (z_x :: partials ++ [z_gx])))) eqn:E2;
      [|discriminate].
    cbn [negb]. intros H0. injection H0 as <-.
    apply Nat.eqb_eq in E1, E2. rewrite windows_length, app_length in E2. cbn [length] in E2.
    repeat split; try lia. apply cpp_terms_spec.
  Qed.

  (* one row: all terms zero => Z(x) * prod numerators = Z(gx) * prod denominators *)
  Lemma row_sound nums dens partials z_x z_gx md ts :
    check_partial_products nums dens partials z_x z_gx md = Some ts -> all_zero ts ->
    z_x * fprod nums = z_gx * fprod dens.
  Proof.
    intros HS Hz. apply check_partial_products_Some in HS. destruct HS as (Hmd & Hl1 & Hl2 & ->).
    pose proof (cpp_chain (chunks md nums) (chunks md dens) z_x (partials ++ [z_gx]) Hl1) as HC.
    rewrite app_length in HC. cbn [length] in HC. specialize (HC ltac:(lia) Hz).
    rewrite !chunks_concat in HC by exact Hmd. rewrite last_last in HC. exact HC.
  Qed.

  (* ------------------------------------------------------------ all rows of H, with wrap-around *)
  Definition row_ok (md : nat) (r : prow) (znext : F) : Prop :=
    exists ts, check_partial_products (r_nums r) (r_dens r) (r_partials r) (r_z r) znext md = Some ts /\ all_zero ts.

  Lemma rows_chain md (rows : list prow) zend :
    Forall2 (row_ok md) rows (tl (map r_z rows) ++ [zend]) ->
    hd zend (map r_z rows) * fprod (concat (map r_nums rows)) = zend * fprod (concat (map r_dens rows)).
  Proof.
    induction rows as [|r rs IH]; intros H2.
    - inversion H2.
    - cbn [map tl hd concat] in *. rewrite !fprod_app.
      destruct rs as [|r2 rs'].
      + cbn [map app concat] in *. inversion H2 as [|? ? ? ? Hr _]; subst.
        destruct Hr as (ts & HS & Hz). pose proof (row_sound _ _ _ _ _ _ _ HS Hz) as E.
        cbn [fprod fold_right]. fold (fprod (r_nums r)). fold (fprod (r_dens r)).
        transitivity (r_z r * fprod (r_nums r)); [ring|]. rewrite E. ring.
      + cbn [map app] in H2. inversion H2 as [|? ? ? ? Hr Hrest]; subst.
        destruct Hr as (ts & HS & Hz). pose proof (row_sound _ _ _ _ _ _ _ HS Hz) as E.
        specialize (IH Hrest). cbn [map hd] in IH. cbn [map].
        set (N2 := fprod (concat (r_nums r2 :: map r_nums rs'))) in *.
        set (D2 := fprod (concat (r_dens r2 :: map r_dens rs'))) in *.
        transitivity ((r_z r * fprod (r_nums r)) * N2); [ring|].
        rewrite E.
        transitivity (fprod (r_dens r) * (r_z r2 * N2)); [ring|].
        rewrite IH. ring.
  Qed.

  Theorem partial_products_sound md (rows : list prow) :
    rows <> [] ->
    Forall2 (row_ok md) rows (next_zs rows) ->
    hd 1 (map r_z rows) = 1 ->
    fprod (concat (map r_nums rows)) = fprod (concat (map r_dens rows)).
  Proof.
    intros Hne H2 H1. unfold next_zs in H2.
    pose proof (rows_chain md rows (hd 1 (map r_z rows)) H2) as HC.
    destruct rows as [|r rs]; [congruence|]. cbn [map hd] in *.
    rewrite H1 in HC. transitivity (1 * fprod (concat (r_nums r :: map r_nums rs))); [ring|].
    rewrite HC. ring.
  Qed.

  (* the L_0 term pins Z on the first row: L_0(1) = 1 *)
  Lemma z1_term_first_row z : z1_term 1 z = 0 -> z = 1.
  Proof. unfold z1_term. intros H0. apply f_sub_eq_0. rewrite <- H0. ring. Qed.

  (* ------------------------------------------------------------ reduce_with_powers = Horner *)
  Lemma reduce_with_powers_spec terms alpha : reduce_with_powers terms alpha = peval terms alpha.
  Proof.
    unfold reduce_with_powers. rewrite <- fold_left_rev_right, rev_involutive.
    induction terms as [|t ts IH]; cbn [fold_right peval]; [reflexivity|]. rewrite IH. ring.
  Qed.

  Lemma reduce_multi_step (cumul alphas : list F) term :
    length cumul = length alphas ->
    length (map (fun '(c, alpha) => term + c * alpha) (combine cumul alphas)) = length alphas.
  Proof. intros H0. rewrite map_length, combine_length, H0, Nat.min_id. reflexivity. Qed.

  Lemma reduce_with_powers_multi_spec terms alphas :
    reduce_with_powers_multi terms alphas = map (peval terms) alphas.
  Proof.
    unfold reduce_with_powers_multi. rewrite <- fold_left_rev_right, rev_involutive.
    induction terms as [|t ts IH]; cbn [fold_right].
    - induction alphas; cbn [map peval]; congruence.
    - rewrite IH. clear IH. induction alphas as [|a al IHa]; cbn [map combine peval]; [reflexivity|].
      rewrite IHa. f_equal. ring.
  Qed.

  (* ------------------------------------------------------------ root bounds for the two random combinations *)
  (* reduce_with_powers_multi over the vanishing terms: if some term is non-zero, the combination for a
     challenge alpha vanishes for at most #terms - 1 values of alpha *)
  Theorem alpha_combination_bound_multi (terms : list F) :
    Exists (fun t => t <> 0) terms ->
    forall bad : list F, NoDup bad ->
      (forall a, In a bad -> reduce_with_powers_multi terms [a] = [0]) ->
      (length bad <= length terms - 1)%nat.
  Proof.
    intros HE bad Hnd Hbad. apply (alpha_combination_bound terms HE bad Hnd).
    intros a Ha. specialize (Hbad a Ha). rewrite reduce_with_powers_multi_spec in Hbad.
    cbn [map] in Hbad. congruence.
  Qed.

  (* Z_H = X^n - 1 as a coefficient list *)
  Definition zh_poly (n : nat) : list F := (- (1)) :: repeat 0 (n - 1) ++ [1].

  Lemma peval_repeat0 k (q : list F) x : peval (repeat 0 k ++ q) x = fpow x k * peval q x.
  Proof. induction k as [|k IH]; cbn [repeat app peval fpow]; [ring|]. rewrite IH. ring. Qed.

  Lemma peval_zh n x : (1 <= n)%nat -> peval (zh_poly n) x = fpow x n - 1.
  Proof.
    intros Hn. unfold zh_poly. cbn [peval]. rewrite peval_repeat0. cbn [peval].
    replace n with (S (n - 1)) at 2 by lia. cbn [fpow]. ring.
  Qed.

  Lemma pmul_length (p q : list F) : p <> [] -> q <> [] -> length (pmul p q) = (length p + length q - 1)%nat.
  Proof.
    intros Hp Hq. induction p as [|c p IH]; [congruence|].
    cbn [pmul]. rewrite padd_length, pscale_length. cbn [length].
    destruct p as [|c' p'].
    - cbn [pmul length]. destruct q; [congruence|]. cbn [length]. lia.
    - rewrite IH by discriminate. cbn [length]. destruct q; [congruence|]. cbn [length]. lia.
  Qed.

  (* the verifier's identity vanishing(zeta) = Z_H(zeta) * t(zeta): if it fails at one point, it holds at
     fewer than max(|V|, n + |t|) points *)
  Theorem identity_at_zeta_bound (v t : list F) (n : nat) (z0 : F) :
    (1 <= n)%nat -> t <> [] ->
    peval v z0 <> (fpow z0 n - 1) * peval t z0 ->
    forall good : list F, NoDup good ->
      (forall z, In z good -> peval v z = (fpow z n - 1) * peval t z) ->
      (length good < Nat.max (length v) (n + length t))%nat.
  Proof.
    intros Hn Ht Hne good Hnd Hgood.
    destruct (le_lt_dec (Nat.max (length v) (n + length t)) (length good)) as [Hle|Hlt]; [exfalso|exact Hlt].
    apply Hne. rewrite <- (peval_zh n z0 Hn), <- peval_pmul.
    apply (poly_eq_bound v (pmul (zh_poly n) t) good Hnd).
    - intros z Hz. rewrite peval_pmul, peval_zh by exact Hn. apply Hgood. exact Hz.
    - rewrite pmul_length; [|unfold zh_poly; discriminate|exact Ht].
      unfold zh_poly. cbn [length]. rewrite app_length, repeat_length. cbn [length]. lia.
  Qed.

  (* t(zeta) is recombined from the openings of its degree-n chunks with reduce_with_powers(chunk evals, zeta^n) *)
  Theorem quotient_chunks_recombine (chs : list (list F)) (n : nat) (z : F) :
    Forall (fun c => length c = n) chs ->
    reduce_with_powers (map (fun c => peval c z) chs) (fpow z n) = peval (concat chs) z.
  Proof.
    intros Hlen. rewrite reduce_with_powers_spec.
    induction Hlen as [|c chs Hc _ IH]; cbn [map concat peval]; [reflexivity|].
    rewrite peval_app, Hc, IH. reflexivity.
  Qed.

  (* ------------------------------------------------------------ completeness of the prover *)
  Definition nonzero (x : F) : Prop := x <> 0.
  Definition quot_list (nums dens : list F) : list F := map (fun '(n, d) => n * finv d) (combine nums dens).

  Lemma prod_quot nums dens :
    length nums = length dens -> Forall nonzero dens -> fprod (quot_list nums dens) * fprod dens = fprod nums.
  Proof.
    revert dens. induction nums as [|n ns IH]; intros dens Hl Hnz.
    - destruct dens; [|discriminate]. cbn. ring.
    - destruct dens as [|d ds]; [discriminate|]. inversion Hnz as [|? ? Hd Hds]; subst.
      unfold quot_list in *. cbn [combine map]. rewrite !fprod_cons.
      cbn [length] in Hl. specialize (IH ds ltac:(lia) Hds).
      transitivity (n * (finv d * d) * (fprod (map (fun '(n0, d0) => n0 * finv d0) (combine ns ds)) * fprod ds)); [ring|].
      rewrite f_inv_l by exact Hd. rewrite IH. ring.
  Qed.

  Lemma running_products_length z qs : length (running_products z qs) = length qs.
  Proof. revert z. induction qs as [|q qs IH]; intros z; cbn [running_products length]; [reflexivity|]. rewrite IH. reflexivity. Qed.

  Lemma running_products_last z qs : last (running_products z qs) z = z * fprod qs.
  Proof.
    revert z. induction qs as [|q qs IH]; intros z.
    - cbn. ring.
    - cbn [running_products]. rewrite last_cons_default, IH, fprod_cons. ring.
  Qed.

  Definition chunk_ok (n d : list F) : Prop := length n = length d /\ Forall nonzero d.

  Lemma cpp_terms_complete cn cd prev :
    Forall2 chunk_ok cn cd ->
    all_zero (cpp_terms cn cd prev
                (running_products prev (map fprodl (map (fun '(n, d) => quot_list n d) (combine cn cd))))).
  Proof.
    intros H2. revert prev. induction H2 as [|n d cn cd [Hl Hnz] _ IH]; intros prev.
    - constructor.
    - cbn [combine map running_products cpp_terms]. constructor.
      + rewrite !fprodl_fprod.
        transitivity (prev * fprod n - prev * (fprod (quot_list n d) * fprod d)); [ring|].
        rewrite prod_quot by assumption. ring.
      + apply IH.
  Qed.

  Lemma Forall_firstn' {A} (P : A -> Prop) n l : Forall P l -> Forall P (firstn n l).
  Proof. revert l. induction n; intros l Hl; [constructor|]. destruct Hl; cbn [firstn]; constructor; auto. Qed.
  Lemma Forall_skipn' {A} (P : A -> Prop) n l : Forall P l -> Forall P (skipn n l).
  Proof. revert l. induction n; intros l Hl; [exact Hl|]. destruct Hl; cbn [skipn]; [constructor|auto]. Qed.

  Lemma chunks_aux_ok fuel k nums dens :
    length nums = length dens -> Forall nonzero dens ->
    Forall2 chunk_ok (chunks_aux fuel k nums) (chunks_aux fuel k dens).
  Proof.
    revert nums dens. induction fuel as [|f IH]; intros nums dens Hl Hnz; [constructor|].
    destruct nums as [|a t], dens as [|b t']; try discriminate; [constructor|].
    cbn [chunks_aux]. constructor.
    - split; [rewrite !firstn_length; congruence|apply Forall_firstn'; exact Hnz].
    - apply IH; [rewrite !skipn_length; congruence|apply Forall_skipn'; exact Hnz].
  Qed.

  Lemma chunks_ok k nums dens :
    length nums = length dens -> Forall nonzero dens -> Forall2 chunk_ok (chunks k nums) (chunks k dens).
  Proof. intros Hl Hnz. unfold chunks. rewrite <- Hl. apply chunks_aux_ok; assumption. Qed.

  Lemma chunks_quot md nums dens :
    length nums = length dens ->
    chunks md (quot_list nums dens) = map (fun '(n, d) => quot_list n d) (combine (chunks md nums) (chunks md dens)).
  Proof.
    intros Hl. unfold quot_list at 1. rewrite chunks_map, chunks_combine by exact Hl.
    rewrite map_map. apply map_ext. intros [n d]. reflexivity.
  Qed.

  Lemma firstn_nth_last {A} k (l : list A) d : length l = S k -> firstn k l ++ [nth k l d] = l.
  Proof.
    revert l. induction k as [|k IH]; intros l Hl.
    - destruct l as [|a [|b t]]; try discriminate. reflexivity.
    - destruct l as [|a t]; [discriminate|]. cbn [firstn nth app]. f_equal. apply IH. cbn in Hl. lia.
  Qed.

  Lemma nth_last {A} k (l : list A) d d' : length l = S k -> nth k l d = last l d'.
  Proof.
    revert l d'. induction k as [|k IH]; intros l d' Hl.
    - destruct l as [|a [|b t]]; try discriminate. reflexivity.
    - destruct l as [|a t]; [discriminate|]. cbn [nth]. rewrite last_cons_default.
      cbn in Hl. apply IH. lia.
  Qed.

  Lemma existsb_zero_false dens : Forall nonzero dens -> existsb (fun d => d =? 0) dens = false.
  Proof.
    induction 1 as [|d ds Hd _ IH]; [reflexivity|]. cbn [existsb]. rewrite IH.
    apply (proj2 (feqb_false d 0)) in Hd. rewrite Hd. reflexivity.
  Qed.

  (* the chunk products of one row as the prover computes them *)
  Definition row_qcp (md : nat) (nd : list F * list F) : list F :=
    map fprodl (chunks md (quot_list (fst nd) (snd nd))).

  Lemma quotient_values_Some nums dens :
    Forall nonzero dens -> quotient_values nums dens = Some (quot_list nums dens).
  Proof. intros Hnz. unfold quotient_values. rewrite existsb_zero_false by exact Hnz. reflexivity. Qed.

  Lemma quotient_chunk_products_Some qv md :
    qv <> [] -> (1 <= md)%nat -> quotient_chunk_products qv md = Some (map fprodl (chunks md qv)).
  Proof. intros Hne Hmd. unfold quotient_chunk_products. destruct qv; [congruence|]. destruct md; [lia|]. reflexivity. Qed.

  Definition mk_prow (nd : list F * list F) (pz : list F * F) : prow :=
    {| r_nums := fst nd; r_dens := snd nd; r_partials := fst pz; r_z := snd pz |}.

  Definition row_shape (m : nat) (nd : list F * list F) : Prop :=
    length (fst nd) = m /\ length (snd nd) = m /\ Forall nonzero (snd nd).

  (* one row *)
  Lemma row_complete md m np nd z :
    (1 <= md)%nat -> (1 <= m)%nat -> row_shape m nd -> S np = length (chunks md (fst nd)) ->
    let ppz := running_products z (row_qcp md nd) in
    length ppz = S np /\
    nth np ppz 0 = z * fprod (quot_list (fst nd) (snd nd)) /\
    row_ok md (mk_prow nd (firstn np ppz, z)) (nth np ppz 0).
  Proof.
    intros Hmd Hm (Hn & Hd & Hnz) Hnp ppz. destruct nd as [nums dens]. cbn [fst snd] in *.
    assert (Hl : length nums = length dens) by congruence.
    assert (Hqcp : row_qcp md (nums, dens) =
                   map fprodl (map (fun '(n, d) => quot_list n d) (combine (chunks md nums) (chunks md dens)))).
    { unfold row_qcp. cbn [fst snd]. rewrite chunks_quot by exact Hl. reflexivity. }
    assert (Hlen : length ppz = S np).
    { unfold ppz. rewrite running_products_length, Hqcp, !map_length, combine_length.
      rewrite <- (chunks_length_same md nums dens Hl), Nat.min_id. auto. }
    split; [exact Hlen|]. split.
    - rewrite (nth_last np ppz 0 z Hlen). unfold ppz. rewrite running_products_last.
      f_equal. unfold row_qcp. cbn [fst snd].
      rewrite <- (chunks_concat md (quot_list nums dens)) at 2 by exact Hmd.
      rewrite fprod_concat. f_equal. apply map_ext. intros a. apply fprodl_fprod.
    - unfold row_ok, mk_prow. cbn [r_nums r_dens r_partials r_z fst snd].
      exists (cpp_terms (chunks md nums) (chunks md dens) z ppz). split.
      + unfold check_partial_products. destruct md as [|md']; [lia|].
        rewrite <- (chunks_length_same (S md') nums dens Hl), Nat.eqb_refl. cbn [negb].
        rewrite (firstn_nth_last np ppz 0 Hlen), windows_length, Hlen, <- Hnp, Nat.eqb_refl. cbn [negb].
        rewrite cpp_terms_spec. reflexivity.
      + unfold ppz. rewrite Hqcp. apply cpp_terms_complete. apply chunks_ok; assumption.
  Qed.

  Lemma pp_and_z_Some z qs : qs <> [] -> partial_products_and_z_gx z qs = Some (running_products z qs).
  Proof. destruct qs; [congruence|reflexivity]. Qed.

  (* all rows: the sequential loop *)
  Lemma prover_rows_complete md m np (nds : list (list F * list F)) z0 :
    (1 <= md)%nat -> (1 <= m)%nat -> Forall (row_shape m) nds ->
    Forall (fun nd => S np = length (chunks md (fst nd))) nds ->
    exists rows zf,
      prover_rows np z0 (map (row_qcp md) nds) = Some (rows, zf) /\
      zf = z0 * fprod (map (fun nd => fprod (quot_list (fst nd) (snd nd))) nds) /\
      length rows = length nds /\
      hd zf (map snd rows) = z0 /\
      (nds <> [] ->
       Forall2 (row_ok md) (map (fun '(nd, pz) => mk_prow nd pz) (combine nds rows)) (tl (map snd rows) ++ [zf])).
  Proof.
    intros Hmd Hm Hsh Hnp. revert z0. induction nds as [|nd nds IH]; intros z0.
    - exists [], z0. cbn. repeat split; try ring. congruence.
    - inversion Hsh as [|? ? Hs Hss]; subst. inversion Hnp as [|? ? Hp Hps]; subst.
      destruct (row_complete md m np nd z0 Hmd Hm Hs Hp) as (Hlen & Hnth & Hok).
      set (ppz := running_products z0 (row_qcp md nd)) in *.
      destruct (IH Hss Hps (nth np ppz 0)) as (rows & zf & HP & Hzf & Hlr & Hhd & HF).
      exists ((firstn np ppz, z0) :: rows), zf.
      assert (Hqne : row_qcp md nd <> []).
      { intros E. unfold ppz in Hlen. rewrite E in Hlen. cbn in Hlen. lia. }
      split; [|split; [|split; [|split]]].
      + cbn [map prover_rows].
        rewrite (pp_and_z_Some z0 _ Hqne). fold ppz.
        rewrite Hlen, Nat.eqb_refl. cbn [negb]. rewrite HP. reflexivity.
      + rewrite Hzf, Hnth. cbn [map]. rewrite fprod_cons. ring.
      + cbn [length]. lia.
      + reflexivity.
      + intros _. cbn [combine map tl app]. destruct rows as [|[p2 z2] rows'].
        * destruct nds; [|discriminate]. cbn [combine map app tl] in *. constructor; [|constructor].
          cbn [hd map] in Hhd. rewrite Hhd. exact Hok.
        * destruct nds as [|nd2 nds']; [discriminate|].
          cbn [map hd snd] in Hhd. cbn [map snd app]. constructor.
          -- rewrite Hhd. exact Hok.
          -- apply HF. discriminate.
  Qed.

  (* ------------------------------------------------------------ sigma is a permutation of positions *)
  Lemma combine_map_same {A B C} (f : A -> B) (g : A -> C) l :
    combine (map f l) (map g l) = map (fun a => (f a, g a)) l.
  Proof. induction l; cbn [map combine]; congruence. Qed.

  Lemma concat_map_list_prod {A B C} (f : A * B -> C) (l : list A) (l' : list B) :
    concat (map (fun a => map (fun b => f (a, b)) l') l) = map f (list_prod l l').
  Proof.
    induction l as [|a l IH]; cbn [map concat list_prod]; [reflexivity|].
    rewrite map_app, map_map, IH. reflexivity.
  Qed.

  Lemma combine_map_l {A B C} (f : A -> B) (l : list A) (l' : list C) :
    combine (map f l) l' = map (fun '(a, c) => (f a, c)) (combine l l').
  Proof. revert l'. induction l as [|a l IH]; intros [|c l']; cbn [map combine]; try reflexivity. rewrite IH. reflexivity. Qed.

  Lemma prod_quot_rows (nds : list (list F * list F)) m :
    Forall (row_shape m) nds ->
    fprod (map (fun nd => fprod (quot_list (fst nd) (snd nd))) nds) * fprod (concat (map snd nds)) =
    fprod (concat (map fst nds)).
  Proof.
    induction 1 as [|nd nds (Hn & Hd & Hnz) _ IH]; cbn [map concat].
    - cbn. ring.
    - rewrite !fprod_cons, !fprod_app.
      transitivity ((fprod (quot_list (fst nd) (snd nd)) * fprod (snd nd)) *
                    (fprod (map (fun nd0 => fprod (quot_list (fst nd0) (snd nd0))) nds) * fprod (concat (map snd nds)))); [ring|].
      rewrite prod_quot by (try congruence; assumption). rewrite IH. ring.
  Qed.

  Section Sigma.
    Variables (n m : nat) (w : nat -> nat -> F) (k x : nat -> F) (sigma : nat * nat -> nat * nat) (beta gamma : F).

    Definition positions : list (nat * nat) := list_prod (seq 0 n) (seq 0 m).
    (* the identity value k_j * g^i of a position, its wire value *)
    Definition sid (p : nat * nat) : F := k (snd p) * x (fst p).
    Definition wv (p : nat * nat) : F := w (fst p) (snd p).
    Definition num_at (p : nat * nat) : F := wv p + beta * sid p + gamma.
    Definition den_at (p : nat * nat) : F := wv p + beta * sid (sigma p) + gamma.
    (* the row data handed to the model functions *)
    Definition row_wires (i : nat) : list F := map (w i) (seq 0 m).
    Definition row_ks : list F := map k (seq 0 m).
    Definition row_sigmas (i : nat) : list F := map (fun j => sid (sigma (i, j))) (seq 0 m).
    Definition row_nd (i : nat) : list F * list F :=
      (numerators beta gamma (x i) row_ks (row_wires i), denominators beta gamma (row_sigmas i) (row_wires i)).

    Lemma numerators_at i : fst (row_nd i) = map (fun j => num_at (i, j)) (seq 0 m).
    Proof.
      unfold row_nd, numerators, row_wires, row_ks. cbn [fst]. rewrite combine_map_same, map_map.
      apply map_ext. intros j. reflexivity.
    Qed.
    Lemma denominators_at i : snd (row_nd i) = map (fun j => den_at (i, j)) (seq 0 m).
    Proof.
      unfold row_nd, denominators, row_wires, row_sigmas. cbn [snd]. rewrite combine_map_same, map_map.
      apply map_ext. intros j. reflexivity.
    Qed.

    Lemma all_nums_at : concat (map fst (map row_nd (seq 0 n))) = map num_at positions.
    Proof.
      rewrite map_map. unfold positions. rewrite <- concat_map_list_prod. f_equal.
      apply map_ext. intros i. apply numerators_at.
    Qed.
    Lemma all_dens_at : concat (map snd (map row_nd (seq 0 n))) = map den_at positions.
    Proof.
      rewrite map_map. unfold positions. rewrite <- concat_map_list_prod. f_equal.
      apply map_ext. intros i. apply denominators_at.
    Qed.

    Hypothesis sigma_perm : Permutation (map sigma positions) positions.
    Hypothesis wires_respect : forall p, In p positions -> wv (sigma p) = wv p.

    (* grand products agree because sigma permutes the positions and the wires respect it *)
    Lemma sigma_products_equal : fprod (map den_at positions) = fprod (map num_at positions).
    Proof.
      transitivity (fprod (map num_at (map sigma positions))).
      - f_equal. rewrite map_map. apply map_ext_in. intros p Hp. unfold den_at, num_at.
        rewrite wires_respect by exact Hp. reflexivity.
      - apply fprod_Permutation. apply Permutation_map. exact sigma_perm.
    Qed.

    Hypothesis dens_nonzero : forall p, In p positions -> den_at p <> 0.

    Lemma rows_shape : Forall (row_shape m) (map row_nd (seq 0 n)).
    Proof.
      apply Forall_forall. intros nd Hin. apply in_map_iff in Hin. destruct Hin as (i & <- & Hi).
      unfold row_shape. rewrite numerators_at, denominators_at, !map_length, seq_length.
      repeat split. apply Forall_forall. intros d Hd. apply in_map_iff in Hd. destruct Hd as (j & <- & Hj).
      apply dens_nonzero. unfold positions. apply in_prod; assumption.
    Qed.

    Theorem perm_complete md np :
      (1 <= md)%nat -> (1 <= m)%nat -> (1 <= n)%nat -> S np = length (chunks md (seq 0 m)) ->
      exists qcps rows,
        Forall2 (fun i qcp => row_chunk_products beta gamma (x i) row_ks (row_sigmas i) (row_wires i) md = Some qcp)
                (seq 0 n) qcps /\
        prover_rows np 1 qcps = Some (rows, 1) /\
        let prs := map (fun '(i, pz) => mk_prow (row_nd i) pz) (combine (seq 0 n) rows) in
        length prs = n /\ hd 1 (map r_z prs) = 1 /\ Forall2 (row_ok md) prs (next_zs prs).
    Proof.
      intros Hmd Hm Hn Hnp.
      set (nds := map row_nd (seq 0 n)).
      assert (Hsh : Forall (row_shape m) nds) by apply rows_shape.
      assert (Hch : Forall (fun nd => S np = length (chunks md (fst nd))) nds).
      { apply Forall_forall. intros nd Hin. apply in_map_iff in Hin. destruct Hin as (i & <- & Hi).
        rewrite Hnp. apply chunks_length_same. rewrite numerators_at, map_length. reflexivity. }
      destruct (prover_rows_complete md m np nds 1 Hmd Hm Hsh Hch) as (rows & zf & HP & Hzf & Hlr & Hhd & HF).
      assert (Hzf1 : zf = 1).
      { rewrite Hzf. pose proof (prod_quot_rows nds m Hsh) as HQ.
        unfold nds in HQ at 2 3. rewrite all_nums_at, all_dens_at, sigma_products_equal in HQ.
        assert (Hnz : fprod (map num_at positions) <> 0).
        { rewrite <- sigma_products_equal. apply fprod_neq_0. apply Forall_forall. intros d Hd.
          apply in_map_iff in Hd. destruct Hd as (p & <- & Hp). apply dens_nonzero. exact Hp. }
        set (Q := fprod (map (fun nd => fprod (quot_list (fst nd) (snd nd))) nds)) in *.
        assert (HQ1 : Q = 1).
        { apply (f_mul_cancel_l (fprod (map num_at positions))); [exact Hnz|].
          rewrite (f_mul_comm _ Q), HQ. ring. }
        rewrite HQ1. ring. }
      clear Hzf. subst zf.
      exists (map (row_qcp md) nds), rows. split; [|split; [exact HP|]].
      - unfold nds. rewrite map_map.
        assert (G : forall l, (forall i, In i l -> In i (seq 0 n)) ->
                  Forall2 (fun i qcp => row_chunk_products beta gamma (x i) row_ks (row_sigmas i) (row_wires i) md = Some qcp)
                          l (map (fun i => row_qcp md (row_nd i)) l)).
        { induction l as [|i l IHl]; intros Hin; [constructor|]. cbn [map]. constructor.
          - unfold row_chunk_products.
            assert (Hs : row_shape m (row_nd i)).
            { eapply Forall_forall; [exact Hsh|]. apply in_map. apply Hin. left. reflexivity. }
            destruct Hs as (Hln & Hld & Hnz).
            change (numerators beta gamma (x i) row_ks (row_wires i)) with (fst (row_nd i)).
            change (denominators beta gamma (row_sigmas i) (row_wires i)) with (snd (row_nd i)).
            rewrite quotient_values_Some by exact Hnz.
            apply quotient_chunk_products_Some; [|exact Hmd].
            intros E. apply (f_equal (@length F)) in E. unfold quot_list in E.
            rewrite map_length, combine_length, Hln, Hld, Nat.min_id in E. cbn in E. lia.
          - apply IHl. intros j Hj. apply Hin. right. exact Hj. }
        apply G. auto.
      - cbv zeta.
        assert (Hprs : map (fun '(i, pz) => mk_prow (row_nd i) pz) (combine (seq 0 n) rows) =
                       map (fun '(nd, pz) => mk_prow nd pz) (combine nds rows)).
        { unfold nds. rewrite combine_map_l, map_map. apply map_ext. intros [i pz]. reflexivity. }
        rewrite Hprs.
        assert (Hz : map r_z (map (fun '(nd, pz) => mk_prow nd pz) (combine nds rows)) = map snd rows).
        { rewrite map_map. clear - Hlr. revert rows Hlr. induction nds as [|nd l IHl]; intros [|pz rows] Hl; try discriminate; [reflexivity|].
          cbn [combine map]. f_equal. apply IHl. cbn in Hl. lia. }
        assert (Hnds : nds <> []).
        { unfold nds. destruct n; [lia|]. cbn. discriminate. }
        split; [|split].
        + rewrite map_length, combine_length, Hlr, Nat.min_id. unfold nds. rewrite map_length, seq_length. reflexivity.
        + rewrite Hz. exact Hhd.
        + unfold next_zs. rewrite Hz. rewrite Hhd. apply HF. exact Hnds.
    Qed.
  End Sigma.
End PermProofs.
