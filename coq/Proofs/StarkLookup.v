(* C10 kernel lemmas: the algebra of logUp helper columns, the telescoping of the lookup
   running sum Z (including the wrap-around instance), completeness of the honest running sum,
   the reverse running sum of cross-table lookups, and the invariance of sums of reciprocals
   under permutation (the completeness direction of logUp). No axioms. *)
From Coq Require Import ZArith List Bool Lia Arith Ring Field Permutation.
From Verif Require Import Base.Field Model.Stark Model.StarkLookup Proofs.Stark.
Import ListNotations.
Local Open Scope field_scope.

Section LookupProofs.
  Context {F : Type} {FO : FieldOps F} {FL : FieldLaws F}.

  Add Field Ffl : (@F_field_theory F FO FL).

  (* ------------------------------------------------------------------ helper columns *)

  (* the constraint emitted for a batch of two looking columns (combin_i = x + f_i, filters p_i) *)
  Theorem helper_algebra : forall c0 c1 p0 p1 h : F,
    c0 <> 0 -> c1 <> 0 ->
    (c1 * c0 * h - p0 * c1 - p1 * c0 = 0 <-> h = p0 * finv c0 + p1 * finv c1).
  Proof.
    intros c0 c1 p0 p1 h H0 H1. split.
    - intros E.
      assert (E' : c1 * c0 * h = p0 * c1 + p1 * c0).
      { apply f_sub_eq_0. rewrite <- E. ring. }
      apply (f_mul_cancel_l (c1 * c0)); [apply f_mul_neq_0; assumption|].
      rewrite E'. field. split; assumption.
    - intros ->. field. split; assumption.
  Qed.

  (* and for a batch of one *)
  Theorem helper_algebra_one : forall c0 p0 h : F,
    c0 <> 0 -> (c0 * h - p0 = 0 <-> h = p0 * finv c0).
  Proof.
    intros c0 p0 h H0. split.
    - intros E. assert (E' : c0 * h = p0) by (apply f_sub_eq_0; exact E).
      apply (f_mul_cancel_l c0); [exact H0|]. rewrite E'. field. exact H0.
    - intros ->. field. exact H0.
  Qed.

  (* ------------------------------------------------------------------ finite sums *)

  Fixpoint sumn (f : nat -> F) (n : nat) : F :=
    match n with O => 0 | S m => sumn f m + f m end.

  Lemma sumn_ext f g n : (forall i, (i < n)%nat -> f i = g i) -> sumn f n = sumn g n.
  Proof.
    induction n as [|n IH]; intros E; [reflexivity|].
    cbn [sumn]. rewrite IH, (E n) by (intros; try apply E; lia). reflexivity.
  Qed.

  Lemma sumn_sub f g n : sumn (fun i => f i - g i) n = sumn f n - sumn g n.
  Proof. induction n as [|n IH]; cbn [sumn]; [ring|]. rewrite IH. ring. Qed.

  Lemma sumn_shift f n : sumn f (S n) = f 0%nat + sumn (fun i => f (S i)) n.
  Proof.
    induction n as [|n IH]; [cbn; ring|].
    change (sumn f (S (S n))) with (sumn f (S n) + f (S n)). rewrite IH. cbn [sumn]. ring.
  Qed.

  (* sum over one turn of the cycle of Z(next) - Z is zero *)
  Lemma cyclic_telescope (Z : nat -> F) n : (0 < n)%nat ->
    sumn (fun i => Z (S i mod n) - Z i) n = 0.
  Proof.
    intros Hn. rewrite sumn_sub. destruct n as [|m]; [lia|].
    assert (E : sumn (fun i => Z (S i mod S m)) (S m) = sumn Z (S m)).
    { rewrite (sumn_shift Z m). cbn [sumn].
      rewrite Nat.mod_same by lia.
      rewrite (sumn_ext (fun i => Z (S i mod S m)) (fun i => Z (S i)) m).
      - ring.
      - intros i Hi. rewrite Nat.mod_small by lia. reflexivity. }
    rewrite E. ring.
  Qed.

  (* ------------------------------------------------------------------ the lookup Z *)

  (* If the Z constraint of eval_packed_lookups_generic
       (Z(next) - Z) * (t + x) - ((sum of helpers) * (t + x) - m) = 0
     holds on ALL n rows (next taken cyclically, so including the wrap-around row), then
       sum over the rows of (sum of helpers - m / (t + x)) = 0.
     The first-row constraint Z = 0 is not needed for this direction. *)
  Theorem lookup_Z_sum : forall (n : nat) (x : F) (Z hs m t : nat -> F),
    (0 < n)%nat ->
    (forall i, (i < n)%nat -> t i + x <> 0) ->
    (forall i, (i < n)%nat -> (Z (S i mod n) - Z i) * (t i + x) - (hs i * (t i + x) - m i) = 0) ->
    sumn (fun i => hs i - m i * finv (t i + x)) n = 0.
  Proof.
    intros n x Z hs m t Hn Ht Hc.
    rewrite <- (cyclic_telescope Z n Hn). apply sumn_ext. intros i Hi.
    specialize (Hc i Hi). specialize (Ht i Hi).
    assert (E : (Z (S i mod n) - Z i) * (t i + x) = hs i * (t i + x) - m i).
    { apply f_sub_eq_0. exact Hc. }
    apply (f_mul_cancel_l (t i + x)); [exact Ht|].
    transitivity (hs i * (t i + x) - m i); [field; exact Ht|]. rewrite <- E. ring.
  Qed.

  Lemma running_length acc xs : length (running acc xs) = length xs.
  Proof. revert acc. induction xs as [|a xs IH]; intros acc; cbn; [reflexivity|]. rewrite IH. reflexivity. Qed.

  Lemma running_nth : forall xs acc i, (i < length xs)%nat ->
    nth i (running acc xs) 0 = acc + sumn (fun j => nth j xs 0) i.
  Proof.
    induction xs as [|a xs IH]; intros acc i Hi; [cbn in Hi; lia|].
    destruct i as [|i].
    - cbn. ring.
    - rewrite (sumn_shift (fun j => nth j (a :: xs) 0) i). cbn [running nth].
      rewrite IH by (cbn in Hi; lia). ring.
  Qed.

  (* the running sum computed by lookup_helper_columns: Z_0 = 0, Z_(i+1) = Z_i + step_i *)
  Definition z_honest (n : nat) (step : nat -> F) : list F := running 0 (map step (seq 0 n)).

  Lemma z_honest_nth n step i : (i < n)%nat -> nth i (z_honest n step) 0 = sumn step i.
  Proof.
    intros Hi. unfold z_honest. rewrite running_nth by (rewrite map_length, seq_length; exact Hi).
    rewrite (sumn_ext (fun j => nth j (map step (seq 0 n)) 0) step i).
    - ring.
    - intros j Hj. rewrite (nth_indep _ 0 (step 0%nat)) by (rewrite map_length, seq_length; lia).
      rewrite map_nth, seq_nth by lia. reflexivity.
  Qed.

  (* Completeness: when the row contributions sum to zero (which is what correct frequencies
     give, see [logup_complete]), the honest running sum satisfies the first-row constraint and
     the Z constraint on every row, the wrap-around row included - although the prover never
     adds the last row's contribution. *)
  Theorem lookup_Z_complete : forall (n : nat) (x : F) (hs m t : nat -> F),
    (0 < n)%nat ->
    (forall i, (i < n)%nat -> t i + x <> 0) ->
    let step := fun i => hs i - m i * finv (t i + x) in
    sumn step n = 0 ->
    let Z := fun i => nth i (z_honest n step) 0 in
    Z 0%nat = 0 /\
    forall i, (i < n)%nat -> (Z (S i mod n) - Z i) * (t i + x) - (hs i * (t i + x) - m i) = 0.
  Proof.
    intros n x hs m t Hn Ht step Hsum Z. split.
    - unfold Z. rewrite z_honest_nth by exact Hn. reflexivity.
    - intros i Hi. specialize (Ht i Hi). unfold Z.
      rewrite (z_honest_nth n step i Hi).
      assert (Hnext : nth (S i mod n) (z_honest n step) 0 = sumn step i + step i).
      { destruct (Nat.eq_dec (S i) n) as [E|E].
        - rewrite E, Nat.mod_same by lia. rewrite z_honest_nth by exact Hn.
          cbn [sumn]. rewrite <- E in Hsum. cbn [sumn] in Hsum. rewrite Hsum. reflexivity.
        - rewrite Nat.mod_small by lia. rewrite z_honest_nth by lia. reflexivity. }
      rewrite Hnext. unfold step. field. exact Ht.
  Qed.


  (* ------------------------------------------------------------------ the model prover *)

  Lemma omap_length {A B} (f : A -> option B) : forall l r, omap f l = Some r -> length r = length l.
  Proof.
    induction l as [|a l IH]; intros r E; cbn [omap] in E.
    - inversion E. reflexivity.
    - unfold obind in E. destruct (f a) as [b|]; [|discriminate].
      destruct (omap f l) as [bs|] eqn:Eb; [|discriminate]. inversion E. cbn [length]. rewrite (IH bs eq_refl). reflexivity.
  Qed.

  (* The running-sum column produced by the model of lookup_helper_columns (tied to the real
     function by the `lkcols` correspondence) is the honest running sum of
       (sum of helper columns)(i) - freq(i) / (table(i) + challenge),
     and table(i) + challenge is non-zero on every row whenever the function returns. *)
  Theorem lookup_helper_columns_Z : forall (lk : lookup) (rows : list (list F)) (ch : F) (d : nat) cols,
    lookup_helper_columns lk rows ch d = Some cols ->
    exists helpers table freqs,
      length table = length rows /\ length freqs = length rows /\
      (forall i, (i < length rows)%nat -> nth i table 0 + ch <> 0) /\
      cols = helpers ++
             [z_honest (length rows)
                (fun i => nth_col helpers i - nth i freqs 0 * finv (nth i table 0 + ch))].
  Proof.
    intros lk rows ch d cols E. unfold lookup_helper_columns in E.
    destruct (negb (Nat.eqb (length (l_columns lk)) (length (l_filters lk)))); [discriminate|].
    unfold obind in E.
    destruct (get_helper_cols rows _ 1 ch d) as [helpers|]; [|discriminate].
    destruct (omap (fun r => col_eval_table (l_table lk) rows r) (seq 0 (length rows))) as [table|] eqn:Et; [|discriminate].
    destruct (existsb (fun t => t =? 0) (map (fun t => ch + t) table)) eqn:Ez; [discriminate|].
    destruct (omap (fun r => col_eval_table (l_freq lk) rows r) (seq 0 (length rows))) as [freqs|] eqn:Ef; [|discriminate].
    assert (Ecols : cols = helpers ++
              [running 0 (map (fun i => nth_col helpers i - nth i freqs 0 * finv (nth i (map (fun t => ch + t) table) 0))
                              (seq 0 (length rows)))]).
    { destruct rows; [discriminate|]. injection E as <-. reflexivity. }
    clear E. subst cols.
    pose proof (omap_length _ _ _ Et) as Lt. rewrite seq_length in Lt.
    pose proof (omap_length _ _ _ Ef) as Lf. rewrite seq_length in Lf.
    exists helpers, table, freqs. split; [exact Lt|]. split; [exact Lf|].
    assert (Hnz : forall i, (i < length rows)%nat -> nth i table 0 + ch <> 0).
    { intros i Hi Z0.
      assert (X : existsb (fun t => t =? 0) (map (fun t => ch + t) table) = true).
      { apply existsb_exists. exists (ch + nth i table 0). split.
        - apply in_map. apply nth_In. lia.
        - apply f_eqb_spec. rewrite f_add_comm. exact Z0. }
      congruence. }
    split; [exact Hnz|].
    f_equal. f_equal. unfold z_honest. f_equal. apply map_ext_in. intros i Hi. apply in_seq in Hi.
    f_equal. f_equal. f_equal.
    rewrite (nth_indep _ 0 (ch + 0)) by (rewrite map_length; lia).
    rewrite (map_nth (fun t => ch + t) table 0 i). apply f_add_comm.
  Qed.

  (* ------------------------------------------------------------------ logUp, completeness direction *)

  Definition inv_sum (x : F) (l : list F) : F := fsum_list (map (fun v => finv (x + v)) l).

  Lemma inv_sum_app x l1 l2 : inv_sum x (l1 ++ l2) = inv_sum x l1 + inv_sum x l2.
  Proof.
    unfold inv_sum, fsum_list. induction l1 as [|a l1 IH]; cbn [app map fold_right]; [ring|]. rewrite IH. ring.
  Qed.

  Lemma inv_sum_perm x l1 l2 : Permutation l1 l2 -> inv_sum x l1 = inv_sum x l2.
  Proof.
    unfold inv_sum, fsum_list. induction 1 as [|a l1 l2 HP IH|a b l|l1 l2 l3 HP1 IH1 HP2 IH2]; cbn [map fold_right].
    - reflexivity.
    - rewrite IH. reflexivity.
    - ring.
    - rewrite IH1. exact IH2.
  Qed.

  Lemma inv_sum_repeat x t k : inv_sum x (repeat t k) = nat_F k * finv (x + t).
  Proof.
    unfold inv_sum, fsum_list. induction k as [|k IH]; cbn [repeat map fold_right nat_F]; [ring|].
    rewrite IH. ring.
  Qed.

  (* the table side: each table value t with frequency m contributes m / (x + t) *)
  Definition table_sum (x : F) (tm : list (F * nat)) : F :=
    fsum_list (map (fun p => nat_F (snd p) * finv (x + fst p)) tm).

  (* If the filtered looking values are, as a multiset, the table values repeated by their
     frequencies, the two sides of the logUp identity agree for every challenge x. *)
  Theorem logup_complete : forall (x : F) (looking : list F) (tm : list (F * nat)),
    Permutation looking (concat (map (fun p => repeat (fst p) (snd p)) tm)) ->
    inv_sum x looking = table_sum x tm.
  Proof.
    intros x looking tm HP. rewrite (inv_sum_perm x _ _ HP). clear HP.
    unfold table_sum. induction tm as [|[t k] tm IH]; [reflexivity|].
    cbn [map concat fst snd fsum_list fold_right]. rewrite inv_sum_app, inv_sum_repeat, IH. reflexivity.
  Qed.

  (* cross-table version: looking rows of all looking tables plus the extra values are a
     permutation of the looked rows (values already combined by the challenge) *)
  Theorem ctl_complete : forall (x : F) (looking extra looked : list F),
    Permutation (looking ++ extra) looked ->
    inv_sum x looking + inv_sum x extra = inv_sum x looked.
  Proof. intros x looking extra looked HP. rewrite <- inv_sum_app. apply inv_sum_perm. exact HP. Qed.

  (* ------------------------------------------------------------------ the CTL Z (reverse running sum) *)

  Lemma suffix_sums_length xs : length (suffix_sums xs) = length xs.
  Proof.
    induction xs as [|a xs IH]; [reflexivity|].
    cbn [suffix_sums]. destruct (suffix_sums xs) as [|s r] eqn:E; cbn [length] in *; lia.
  Qed.

  Lemma suffix_sums_hd xs : hd 0 (suffix_sums xs) = fsum_list xs.
  Proof.
    induction xs as [|a xs IH]; [reflexivity|].
    cbn [suffix_sums fsum_list fold_right]. unfold fsum_list in IH.
    destruct (suffix_sums xs) as [|s r] eqn:E.
    - destruct xs; [cbn; ring|]. pose proof (suffix_sums_length (f :: xs)) as L.
      rewrite E in L. cbn in L. lia.
    - cbn [hd] in *. rewrite <- IH. ring.
  Qed.

  Lemma suffix_sums_cons a xs :
    suffix_sums (a :: xs) = (hd 0 (suffix_sums xs) + a) :: suffix_sums xs.
  Proof.
    cbn [suffix_sums]. destruct (suffix_sums xs) as [|s r] eqn:E; cbn [hd].
    - destruct xs; [f_equal; ring|]. pose proof (suffix_sums_length (f :: xs)) as L.
      rewrite E in L. cbn in L. lia.
    - reflexivity.
  Qed.

  (* partial_sums: the first entry is the total, the last entry is the last row's contribution,
     and consecutive entries differ by the row's contribution - exactly the last-row and
     transition constraints of eval_cross_table_lookup_checks *)
  Theorem ctl_Z_honest : forall (hs : list F),
    let Z := suffix_sums hs in
    hd 0 Z = fsum_list hs /\
    length Z = length hs /\
    (forall i, (S i < length hs)%nat -> nth i Z 0 - nth (S i) Z 0 - nth i hs 0 = 0) /\
    (forall i, S i = length hs -> nth i Z 0 - nth i hs 0 = 0).
  Proof.
    intros hs Z. split; [apply suffix_sums_hd|]. split; [apply suffix_sums_length|].
    unfold Z. clear Z. induction hs as [|a hs IH]; [split; intros i Hi; cbn in Hi; lia|].
    destruct IH as [IHt IHl]. rewrite suffix_sums_cons. split.
    - intros i Hi. destruct i as [|i]; cbn [nth].
      + destruct (suffix_sums hs) as [|s r] eqn:E; cbn [hd nth].
        * pose proof (suffix_sums_length hs) as L. rewrite E in L. cbn in Hi, L. lia.
        * ring.
      + apply IHt. cbn in Hi. lia.
    - intros i Hi. destruct i as [|i]; cbn [nth].
      + destruct hs; [cbn; ring|cbn in Hi; lia].
      + apply IHl. cbn in Hi. lia.
  Qed.

  (* Soundness direction: any Z that satisfies the last-row constraint Z(n-1) = h(n-1) and the
     transition constraints Z(i) = Z(i+1) + h(i) for i < n-1 opens at the first row to the total *)
  Theorem ctl_Z_first_is_total : forall (n : nat) (Z hs : nat -> F),
    (0 < n)%nat ->
    Z (n - 1)%nat - hs (n - 1)%nat = 0 ->
    (forall i, (S i < n)%nat -> Z i - Z (S i) - hs i = 0) ->
    Z 0%nat = sumn hs n.
  Proof.
    intros n Z hs Hn Hlast Htr.
    assert (G : forall k, (k < n)%nat -> Z (n - 1 - k)%nat = sumn (fun j => hs (n - 1 - k + j)%nat) (S k)).
    { induction k as [|k IH]; intros Hk.
      - rewrite Nat.sub_0_r. cbn [sumn]. rewrite Nat.add_0_r.
        apply (proj1 (f_sub_eq_0 _ _)) in Hlast. rewrite Hlast. ring.
      - specialize (IH ltac:(lia)).
        assert (E : Z (n - 1 - S k)%nat = Z (S (n - 1 - S k)) + hs (n - 1 - S k)%nat).
        { specialize (Htr (n - 1 - S k)%nat ltac:(lia)).
          apply f_sub_eq_0. rewrite <- Htr. ring. }
        replace (S (n - 1 - S k)) with (n - 1 - k)%nat in E by lia.
        rewrite E, IH. rewrite (sumn_shift (fun j => hs (n - 1 - S k + j)%nat) (S k)).
        rewrite Nat.add_0_r.
        rewrite (sumn_ext (fun i => hs (n - 1 - S k + S i)%nat) (fun j => hs (n - 1 - k + j)%nat) (S k)).
        + ring.
        + intros i Hi. f_equal. lia. }
    specialize (G (n - 1)%nat ltac:(lia)).
    replace (n - 1 - (n - 1))%nat with 0%nat in G by lia.
    rewrite G. replace (S (n - 1)) with n by lia. apply sumn_ext. intros i Hi. reflexivity.
  Qed.

  (* ------------------------------------------------------------------ verify_cross_table_lookups *)

  (* "we want to iterate on each looking table only once": first occurrences, in order *)
  Lemma dedup_nat_in : forall l seen t, In t (dedup_nat l seen) <-> (In t l /\ ~ In t seen).
  Proof.
    induction l as [|a l IH]; intros seen t; cbn [dedup_nat].
    - split; [contradiction|intros [[] _]].
    - destruct (existsb (Nat.eqb a) seen) eqn:E.
      + rewrite IH. apply existsb_exists in E. destruct E as [b [Hb Hab]].
        apply Nat.eqb_eq in Hab. subst b. split.
        * intros [H1 H2]. split; [right; exact H1|exact H2].
        * intros [[->|H1] H2]; [contradiction|]. split; assumption.
      + assert (Ha : ~ In a seen).
        { intros Hin. assert (X : existsb (Nat.eqb a) seen = true).
          { apply existsb_exists. exists a. split; [exact Hin|apply Nat.eqb_refl]. }
          congruence. }
        cbn [In]. rewrite IH. split.
        * intros [->|[H1 H2]]; [split; [left; reflexivity|exact Ha]|].
          split; [right; exact H1|]. intros Hs. apply H2. apply in_or_app. left. exact Hs.
        * intros [[->|H1] H2]; [left; reflexivity|].
          destruct (Nat.eq_dec a t) as [->|Hne]; [left; reflexivity|right].
          split; [exact H1|]. intros Hs. apply in_app_or in Hs. destruct Hs as [Hs|[Hs|[]]]; [contradiction|congruence].
  Qed.

  Lemma dedup_nat_nodup : forall l seen, NoDup (dedup_nat l seen).
  Proof.
    induction l as [|a l IH]; intros seen; cbn [dedup_nat]; [constructor|].
    destruct (existsb (Nat.eqb a) seen); [apply IH|].
    constructor; [|apply IH].
    intros Hin. apply dedup_nat_in in Hin. destruct Hin as [_ Hn]. apply Hn.
    apply in_or_app. right. left. reflexivity.
  Qed.

  Theorem ctl_looking_tables_once : forall l,
    NoDup (dedup_nat l []) /\ forall t, In t (dedup_nat l []) <-> In t l.
  Proof.
    intros l. split; [apply dedup_nat_nodup|].
    intros t. rewrite dedup_nat_in. split; [intros [H1 _]; exact H1|intros H1; split; [exact H1|intros []]].
  Qed.

End LookupProofs.
