From Coq Require Import List Arith Lia Ring Field Bool.
From Verif Require Import Base.Field Model.FinalPolyMask.
Import ListNotations.

Section MaskProofs.
  Context {F : Type} {FO : FieldOps F} {FL : FieldLaws F}.
  Local Open Scope field_scope.
  Add Field Fmask : (@F_field_theory F FO FL).

  Lemma sum_one_hot : forall n a fb,
    fold_right fadd 0 (map (one_hot fb) (seq a n))
    = if (a <=? fb)%nat && (fb <? a + n)%nat then 1 else 0.
  Proof.
    induction n as [|n IH]; intros a fb.
    - simpl. destruct (a <=? fb)%nat eqn:E1; simpl; [|reflexivity].
      replace (a + 0)%nat with a by lia.
      apply Nat.leb_le in E1. destruct (Nat.ltb_spec fb a); [lia|reflexivity].
    - cbn [seq map fold_right]. rewrite IH. unfold one_hot.
      destruct (Nat.eqb_spec a fb) as [->|Hne].
      + replace (S fb <=? fb)%nat with false by (symmetry; apply Nat.leb_gt; lia).
        replace (fb <=? fb)%nat with true by (symmetry; apply Nat.leb_le; lia).
        replace (fb <? fb + S n)%nat with true by (symmetry; apply Nat.ltb_lt; lia).
        simpl. ring.
      + destruct (Nat.leb_spec (S a) fb) as [H1|H1].
        * replace (a <=? fb)%nat with true by (symmetry; apply Nat.leb_le; lia).
          replace (fb <? a + S n)%nat with (fb <? S a + n)%nat by (f_equal; lia).
          simpl. destruct (fb <? S (a + n))%nat; ring.
        * replace (a <=? fb)%nat with false by (symmetry; apply Nat.leb_gt; lia).
          simpl. ring.
  Qed.

  Lemma allowed_spec fb mx k :
    (fb <= mx)%nat -> (k < mx)%nat -> allowed fb mx k = if (k <? fb)%nat then 1 else 0.
  Proof.
    intros Hfb Hk. unfold allowed. rewrite sum_one_hot.
    replace (S k + (mx - k))%nat with (S mx) by lia.
    replace (fb <? S mx)%nat with true by (symmetry; apply Nat.ltb_lt; lia).
    rewrite andb_true_r.
    destruct (Nat.ltb_spec k fb) as [H|H].
    - replace (S k <=? fb)%nat with true by (symmetry; apply Nat.leb_le; lia). reflexivity.
    - replace (S k <=? fb)%nat with false by (symmetry; apply Nat.leb_gt; lia). reflexivity.
  Qed.

  Theorem mask_constraints_iff_length_bound fb mx (coeffs : list F) :
    (fb <= mx)%nat -> (mask_constraints fb mx coeffs <-> length_bound fb mx coeffs).
  Proof.
    intros Hfb. unfold mask_constraints, length_bound. split.
    - intros H j [Hlo Hhi].
      assert (Hj : (0 < j)%nat) by (pose proof (Nat.pow_nonzero 2 fb); lia).
      pose proof (Nat.log2_spec j Hj) as [L1 L2].
      assert (Hk : (Nat.log2 j < mx)%nat) by (apply Nat.log2_lt_pow2; assumption).
      assert (Hge : (fb <= Nat.log2 j)%nat) by (apply Nat.log2_le_pow2; assumption).
      specialize (H (Nat.log2 j) Hk j (conj L1 L2)).
      rewrite (allowed_spec fb mx _ Hfb Hk) in H.
      replace (Nat.log2 j <? fb)%nat with false in H by (symmetry; apply Nat.ltb_ge; lia).
      cbv iota in H.
      transitivity (nth j coeffs 0 * (1 - 0)); [ring | exact H].
    - intros H k Hk j [Hlo Hhi].
      rewrite (allowed_spec fb mx k Hfb Hk).
      destruct (Nat.ltb_spec k fb) as [Hlt|Hge].
      + ring.
      + rewrite (H j).
        * ring.
        * split.
          -- apply Nat.le_trans with (2 ^ k)%nat; [apply Nat.pow_le_mono_r; lia | exact Hlo].
          -- apply Nat.lt_le_trans with (2 ^ S k)%nat; [exact Hhi | apply Nat.pow_le_mono_r; lia].
  Qed.

  (* without any constraint on the upper coefficients (the circuit before the repair) a final polynomial with as
     many coefficients as the last domain has points can reproduce ANY value at one queried point: the check
     "final_poly(x) = folded value" then says nothing. One point is enough to see it: *)
  Lemma free_constant_coefficient_fits_any_value (x v : F) (rest : list F) :
    exists c0, fold_right (fun c acc => c + x * acc) 0 (c0 :: rest) = v.
  Proof.
    exists (v - x * fold_right (fun c acc => c + x * acc) 0 rest). cbn [fold_right]. ring.
  Qed.
End MaskProofs.
