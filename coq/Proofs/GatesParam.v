(* C07 - relational parametricity of the gate evaluator.  gate_eval_unfiltered is one polymorphic
   function; for ANY relation R between two carriers that is respected by 0, 1, +, -, * and the
   embedding of constants, related inputs give related constraint vectors (eval_param).
   Instances (Proofs/GatesParamInst.v): a ring homomorphism (base field -> extension field: the
   base-field and extension-field evaluators agree), evaluation of polynomials at a point, and the
   degree bound  deg <= abstract degree * witness degree. *)
From Coq Require Import ZArith List Lia Arith Bool.
From Verif Require Import Base.Field Model.FieldGeneric Model.Gates.
Import ListNotations.
Local Open Scope nat_scope.

Section Param.
  Context {K1 K2 : Type} {F1 : FieldOps K1} {F2 : FieldOps K2} {O1 : OfBase K1} {O2 : OfBase K2}.
  Variable R : K1 -> K2 -> Prop.
  Hypothesis R0 : R 0%F 0%F.
  Hypothesis R1 : R 1%F 1%F.
  Hypothesis Radd : forall a b c d, R a b -> R c d -> R (a + c)%F (b + d)%F.
  Hypothesis Rsub : forall a b c d, R a b -> R c d -> R (a - c)%F (b - d)%F.
  Hypothesis Rmul : forall a b c d, R a b -> R c d -> R (a * c)%F (b * d)%F.
  Hypothesis Rbase : forall z, R (of_base z) (of_base z).

  Notation RL := (Forall2 R).

  Lemma R_nthF l1 l2 i : RL l1 l2 -> R (nthF l1 i) (nthF l2 i).
  Proof.
    intros H. revert i. induction H as [|a b l1 l2 Hab Hl IH]; intros [|i]; unfold nthF in *; cbn [nth]; auto.
  Qed.

  Lemma RL_map {B} (f : B -> K1) (g : B -> K2) (l : list B) :
    (forall x, In x l -> R (f x) (g x)) -> RL (map f l) (map g l).
  Proof.
    induction l as [|x l IH]; intros H; cbn [map]; constructor.
    - apply H. left. reflexivity.
    - apply IH. intros y Hy. apply H. right. exact Hy.
  Qed.

  Lemma RL_map2 (f : K1 -> K1) (g : K2 -> K2) l1 l2 :
    RL l1 l2 -> (forall x y, R x y -> R (f x) (g y)) -> RL (map f l1) (map g l2).
  Proof. intros Hl Hfg. induction Hl; cbn [map]; constructor; auto. Qed.

  Lemma RL_flat_map {B} (f : B -> list K1) (g : B -> list K2) (l : list B) :
    (forall x, In x l -> RL (f x) (g x)) -> RL (flat_map f l) (flat_map g l).
  Proof.
    induction l as [|x l IH]; intros H; cbn [flat_map]; [constructor|].
    apply Forall2_app; [apply H; left; reflexivity | apply IH; intros y Hy; apply H; right; exact Hy].
  Qed.

  Lemma R_fold_left {B} (f : K1 -> B -> K1) (g : K2 -> B -> K2) (l : list B) :
    (forall a b x, R a b -> R (f a x) (g b x)) -> forall a b, R a b -> R (fold_left f l a) (fold_left g l b).
  Proof. intros H. induction l as [|x l IH]; intros a b Hab; cbn [fold_left]; auto. Qed.

  Lemma RL_firstn n l1 l2 : RL l1 l2 -> RL (firstn n l1) (firstn n l2).
  Proof. intros H. revert n. induction H; intros [|n]; cbn [firstn]; constructor; auto. Qed.
  Lemma RL_skipn n l1 l2 : RL l1 l2 -> RL (skipn n l1) (skipn n l2).
  Proof. intros H. revert n. induction H; intros [|n]; cbn [skipn]; auto. Qed.
  Lemma RL_tl l1 l2 : RL l1 l2 -> RL (tl l1) (tl l2).
  Proof. intros H. destruct H; cbn [tl]; auto. Qed.

  Lemma RL_combine_sub l1 l2 m1 m2 : RL l1 l2 -> RL m1 m2 ->
    RL (map (fun p => (fst p - snd p)%F) (combine l1 m1)) (map (fun p => (fst p - snd p)%F) (combine l2 m2)).
  Proof.
    intros Hl. revert m1 m2. induction Hl as [|a b l1 l2 Hab Hl IH]; intros m1 m2 Hm; cbn [combine map]; [constructor|].
    destruct Hm as [|c d m1 m2 Hcd Hm]; cbn [combine map]; constructor; [cbn [fst snd]; auto | apply IH; exact Hm].
  Qed.

  (* ---- extension algebra *)
  Definition Ralg (a : @alg K1) (b : @alg K2) : Prop := R (fst a) (fst b) /\ R (snd a) (snd b).

  Lemma Ralg_at l1 l2 s : RL l1 l2 -> Ralg (alg_at l1 s) (alg_at l2 s).
  Proof. intros H. split; cbn [alg_at fst snd]; apply R_nthF; exact H. Qed.
  Lemma Ralg_add a b c d : Ralg a b -> Ralg c d -> Ralg (alg_add a c) (alg_add b d).
  Proof. intros [] []. split; cbn [alg_add fst snd]; auto. Qed.
  Lemma Ralg_sub a b c d : Ralg a b -> Ralg c d -> Ralg (alg_sub a c) (alg_sub b d).
  Proof. intros [] []. split; cbn [alg_sub fst snd]; auto. Qed.
  Lemma Ralg_mul a b c d : Ralg a b -> Ralg c d -> Ralg (alg_mul a c) (alg_mul b d).
  Proof. intros [] []. split; cbn [alg_mul fst snd]; unfold alg_W; auto 10. Qed.
  Lemma Ralg_smul a b s t : Ralg a b -> R s t -> Ralg (alg_smul a s) (alg_smul b t).
  Proof. intros [] ?. split; cbn [alg_smul fst snd]; auto. Qed.
  Lemma Ralg_of x y : R x y -> Ralg (alg_of x) (alg_of y).
  Proof. intros. split; cbn [alg_of fst snd]; auto. Qed.
  Lemma Ralg_zero : Ralg alg_zero alg_zero. Proof. split; exact R0. Qed.
  Lemma Ralg_one : Ralg alg_one alg_one. Proof. split; [exact R1 | exact R0]. Qed.
  Lemma RL_coords a b : Ralg a b -> RL (alg_coords a) (alg_coords b).
  Proof. intros []. unfold alg_coords. repeat constructor; auto. Qed.

  Hint Resolve R0 R1 Radd Rsub Rmul Rbase R_nthF Ralg_at Ralg_add Ralg_sub Ralg_mul Ralg_smul Ralg_of
       Ralg_zero Ralg_one RL_coords : rel.

  Variables (cs1 ws1 pi1 : list K1) (cs2 ws2 pi2 : list K2).
  Hypothesis Hcs : RL cs1 cs2.
  Hypothesis Hws : RL ws1 ws2.
  Hypothesis Hpi : RL pi1 pi2.

  Lemma RofN k : R (ofN k) (ofN k). Proof. apply Rbase. Qed.
  Lemma RofZs l i : R (ofZs l i) (ofZs l i). Proof. apply Rbase. Qed.
  Hint Resolve RofN RofZs : rel.

  (* ---- simple gates *)
  Lemma param_arithmetic n : RL (eval_arithmetic n cs1 ws1) (eval_arithmetic n cs2 ws2).
  Proof. apply RL_map. intros i _. unfold arith_output. auto 10 with rel. Qed.

  Lemma param_arithmetic_ext n : RL (eval_arithmetic_ext n cs1 ws1) (eval_arithmetic_ext n cs2 ws2).
  Proof. apply RL_flat_map. intros i _. unfold arith_ext_output. auto 10 with rel. Qed.

  Lemma param_mul_ext n : RL (eval_mul_ext n cs1 ws1) (eval_mul_ext n cs2 ws2).
  Proof. apply RL_flat_map. intros i _. unfold mul_ext_output. auto 10 with rel. Qed.

  Lemma param_constant n : RL (eval_constant n cs1 ws1) (eval_constant n cs2 ws2).
  Proof. apply RL_map. intros i _. auto with rel. Qed.

  Lemma param_public_input : RL (eval_public_input ws1 pi1) (eval_public_input ws2 pi2).
  Proof. apply RL_map. intros i _. auto with rel. Qed.

  Lemma param_reduce l1 l2 a b : RL l1 l2 -> R a b -> R (reduce_with_powers l1 a) (reduce_with_powers l2 b).
  Proof. intros Hl Hab. unfold reduce_with_powers. induction Hl; cbn [fold_right]; auto with rel. Qed.

  Lemma param_range_product B x y : R x y -> R (range_product B x) (range_product B y).
  Proof. intros Hxy. unfold range_product. apply R_fold_left; auto with rel. Qed.

  Lemma param_base_sum B n : RL (eval_base_sum B n ws1) (eval_base_sum B n ws2).
  Proof.
    unfold eval_base_sum. cbv zeta. constructor.
    - apply Rsub; [|auto with rel]. apply param_reduce; [|auto with rel]. apply RL_map. auto with rel.
    - rewrite !map_map. apply RL_map. intros i _. apply param_range_product. auto with rel.
  Qed.

  Lemma param_exponentiation n : RL (eval_exponentiation n ws1) (eval_exponentiation n ws2).
  Proof.
    unfold eval_exponentiation. apply Forall2_app; [|repeat constructor; auto with rel].
    apply RL_map. intros i _. unfold exp_computed, exp_prev, fsquare.
    apply Rsub; [|auto with rel]. apply Rmul; [destruct i; auto with rel | auto 10 with rel].
  Qed.

  Lemma param_reducing n : RL (eval_reducing n ws1) (eval_reducing n ws2).
  Proof.
    apply RL_flat_map. intros i _. apply RL_coords. apply Ralg_sub; [|auto with rel].
    apply Ralg_add; [|auto with rel]. apply Ralg_mul; [|auto with rel].
    unfold reducing_prev. destruct i; auto with rel.
  Qed.

  Lemma param_reducing_ext n : RL (eval_reducing_ext n ws1) (eval_reducing_ext n ws2).
  Proof.
    apply RL_flat_map. intros i _. apply RL_coords. apply Ralg_sub; [|auto with rel].
    apply Ralg_add; [|auto with rel]. apply Ralg_mul; [|auto with rel].
    unfold reducing_prev. destruct i; auto with rel.
  Qed.

  (* ---- RandomAccessGate *)
  Lemma param_fold_pairs b1 b2 : R b1 b2 -> forall n l1 l2, length l1 <= n -> RL l1 l2 ->
    RL (fold_pairs b1 l1) (fold_pairs b2 l2).
  Proof.
    intros Hb. induction n as [|n IH]; intros l1 l2 Hn Hl.
    - destruct Hl; [constructor | cbn [length] in Hn; lia].
    - destruct Hl as [|x x' l1 l2 Hx Hl]; [constructor|].
      destruct Hl as [|y y' l1 l2 Hy Hl]; [constructor|].
      cbn [fold_pairs]. constructor; [auto with rel|]. apply IH; [cbn [length] in Hn; lia | exact Hl].
  Qed.

  Lemma param_ra_select bl1 bl2 : RL bl1 bl2 -> forall it1 it2, RL it1 it2 ->
    R (ra_select bl1 it1) (ra_select bl2 it2).
  Proof.
    unfold ra_select. intros Hb. induction Hb as [|b b' bl1 bl2 Hbb Hb IH]; intros it1 it2 Hit; cbn [fold_left].
    - apply R_nthF. exact Hit.
    - apply IH. apply (param_fold_pairs b b' Hbb (length it1)); [lia | exact Hit].
  Qed.

  Lemma param_ra_reconstruct bl1 bl2 : RL bl1 bl2 -> R (ra_reconstruct bl1) (ra_reconstruct bl2).
  Proof. intros Hb. unfold ra_reconstruct. induction Hb; cbn [fold_right]; auto with rel. Qed.

  Lemma param_random_access bits copies extra :
    RL (eval_random_access bits copies extra cs1 ws1) (eval_random_access bits copies extra cs2 ws2).
  Proof.
    unfold eval_random_access. apply Forall2_app.
    - apply RL_flat_map. intros c _. unfold ra_copy_constraints. cbv zeta.
      assert (Hbl : RL (ra_bits bits copies extra ws1 c) (ra_bits bits copies extra ws2 c)).
      { apply RL_map. auto with rel. }
      assert (Hit : RL (ra_items bits ws1 c) (ra_items bits ws2 c)).
      { apply RL_map. auto with rel. }
      repeat apply Forall2_app.
      + apply (RL_map2 _ _ _ _ Hbl). intros x y Hxy. auto with rel.
      + repeat constructor. apply Rsub; [apply param_ra_reconstruct; exact Hbl | auto with rel].
      + repeat constructor. apply Rsub; [apply param_ra_select; assumption | auto with rel].
    - apply RL_map. auto with rel.
  Qed.

  (* ---- Poseidon *)
  Lemma param_mds_row_shf r st1 st2 : RL st1 st2 -> R (pg_mds_row_shf r st1) (pg_mds_row_shf r st2).
  Proof.
    intros Hst. unfold pg_mds_row_shf. apply Radd; [|auto with rel]. apply R_fold_left; auto with rel.
  Qed.
  Lemma param_mds_layer st1 st2 : RL st1 st2 -> RL (pg_mds_layer st1) (pg_mds_layer st2).
  Proof. intros Hst. apply RL_map. intros r _. apply param_mds_row_shf. exact Hst. Qed.
  Lemma param_constant_layer k st1 st2 : RL st1 st2 -> RL (pg_constant_layer st1 k) (pg_constant_layer st2 k).
  Proof. intros Hst. apply RL_map. auto with rel. Qed.
  Lemma param_sbox x y : R x y -> R (pg_sbox_monomial x) (pg_sbox_monomial y).
  Proof. intros. unfold pg_sbox_monomial. cbv zeta. auto 10 with rel. Qed.
  Lemma param_sbox_layer st1 st2 : RL st1 st2 -> RL (pg_sbox_layer st1) (pg_sbox_layer st2).
  Proof. intros Hst. unfold pg_sbox_layer. apply (RL_map2 _ _ _ _ Hst). apply param_sbox. Qed.
  Lemma param_partial_first st1 st2 : RL st1 st2 ->
    RL (pg_partial_first_constant_layer st1) (pg_partial_first_constant_layer st2).
  Proof. intros Hst. apply RL_map. auto with rel. Qed.
  Lemma param_partial_init st1 st2 : RL st1 st2 -> RL (pg_mds_partial_layer_init st1) (pg_mds_partial_layer_init st2).
  Proof.
    intros Hst. unfold pg_mds_partial_layer_init. constructor; [auto with rel|].
    apply RL_map. intros c _. apply R_fold_left; auto with rel.
  Qed.
  Lemma param_partial_fast k st1 st2 : RL st1 st2 -> RL (pg_mds_partial_layer_fast st1 k) (pg_mds_partial_layer_fast st2 k).
  Proof.
    intros Hst. unfold pg_mds_partial_layer_fast. cbv zeta. constructor.
    - apply R_fold_left; auto with rel.
    - apply RL_map. auto with rel.
  Qed.

  Definition Racc (a : list K1 * list K1) (b : list K2 * list K2) : Prop := RL (fst a) (fst b) /\ RL (snd a) (snd b).

  Lemma param_check_subst st1 st2 start len : RL st1 st2 ->
    RL (fst (check_subst st1 ws1 start len)) (fst (check_subst st2 ws2 start len)) /\
    RL (snd (check_subst st1 ws1 start len)) (snd (check_subst st2 ws2 start len)).
  Proof.
    intros Hst. unfold check_subst. cbn [fst snd].
    assert (Hsb : RL (map (nthF ws1) (seq start len)) (map (nthF ws2) (seq start len))) by (apply RL_map; auto with rel).
    split.
    - apply RL_combine_sub; [apply RL_firstn; exact Hst | exact Hsb].
    - apply Forall2_app; [exact Hsb | apply RL_skipn; exact Hst].
  Qed.

  Lemma param_full_round wstart ctr a b : Racc a b ->
    Racc (poseidon_full_round ws1 wstart ctr a) (poseidon_full_round ws2 wstart ctr b).
  Proof.
    destruct a as [st1 c1], b as [st2 c2]. intros [Hst Hc]. cbn [fst snd] in *.
    unfold poseidon_full_round.
    pose proof (param_constant_layer ctr st1 st2 Hst) as Hcl.
    destruct wstart as [s|].
    - destruct (param_check_subst _ _ s SW Hcl) as [H1 H2].
      destruct (check_subst (pg_constant_layer st1 ctr) ws1 s SW) as [x1 y1].
      destruct (check_subst (pg_constant_layer st2 ctr) ws2 s SW) as [x2 y2]. cbn [fst snd] in *.
      split; cbn [fst snd]; [apply param_mds_layer, param_sbox_layer; exact H2 | apply Forall2_app; assumption].
    - split; cbn [fst snd]; [apply param_mds_layer, param_sbox_layer; exact Hcl | apply Forall2_app; [exact Hc | constructor]].
  Qed.

  Lemma param_partial_round k a b : Racc a b ->
    Racc (poseidon_partial_round ws1 a k) (poseidon_partial_round ws2 b k).
  Proof.
    destruct a as [st1 c1], b as [st2 c2]. intros [Hst Hc]. cbn [fst snd] in *.
    unfold poseidon_partial_round.
    destruct (param_check_subst _ _ (P_START_PARTIAL + k) 1 Hst) as [H1 H2].
    destruct (check_subst st1 ws1 (P_START_PARTIAL + k) 1) as [x1 y1].
    destruct (check_subst st2 ws2 (P_START_PARTIAL + k) 1) as [x2 y2]. cbn [fst snd] in *.
    split; cbn [fst snd]; [|apply Forall2_app; assumption].
    apply param_partial_fast. constructor; [|apply RL_tl; exact H2].
    destruct (k <? N_PARTIAL - 1); auto using param_sbox with rel.
  Qed.

  Lemma Racc_fold {B} (f : list K1 * list K1 -> B -> list K1 * list K1) (g : list K2 * list K2 -> B -> list K2 * list K2)
        (l : list B) : (forall a b x, Racc a b -> Racc (f a x) (g b x)) ->
    forall a b, Racc a b -> Racc (fold_left f l a) (fold_left g l b).
  Proof. intros H. induction l as [|x l IH]; intros a b Hab; cbn [fold_left]; auto. Qed.

  Lemma param_poseidon : RL (eval_poseidon ws1) (eval_poseidon ws2).
  Proof.
    unfold eval_poseidon.
    assert (Hacc : Racc (poseidon_eval_acc ws1) (poseidon_eval_acc ws2)).
    { unfold poseidon_eval_acc. cbv zeta.
      apply Racc_fold; [intros a b x Hab; apply param_full_round; exact Hab|].
      apply Racc_fold; [intros a b x Hab; apply param_partial_round; exact Hab|].
      assert (Hff : Racc (fold_left (poseidon_first_full_step ws1) (seq 0 HALF_FULL) (poseidon_input_state ws1, poseidon_cs0 ws1))
                         (fold_left (poseidon_first_full_step ws2) (seq 0 HALF_FULL) (poseidon_input_state ws2, poseidon_cs0 ws2))).
      { apply Racc_fold; [intros a b x Hab; apply param_full_round; exact Hab|].
        split; cbn [fst snd].
        - unfold poseidon_input_state. repeat apply Forall2_app; apply RL_map; auto with rel.
        - unfold poseidon_cs0. cbv zeta. constructor; [auto 10 with rel|]. apply RL_map. auto 10 with rel. }
      destruct Hff as [H1 H2]. unfold poseidon_partial_init. split; cbn [fst snd];
        [apply param_partial_init, param_partial_first; exact H1 | exact H2]. }
    destruct Hacc as [H1 H2]. unfold poseidon_output_constraints. apply Forall2_app; [exact H2|].
    apply RL_map. auto with rel.
  Qed.

  (* ---- PoseidonMdsGate *)
  Definition RLalg := Forall2 Ralg.
  Lemma Ralg_nth l1 l2 i : RLalg l1 l2 -> Ralg (nth i l1 alg_zero) (nth i l2 alg_zero).
  Proof.
    intros H. revert i. induction H; intros [|i]; cbn [nth]; auto using Ralg_zero.
  Qed.
  Lemma RLalg_map {B} (f : B -> @alg K1) (g : B -> @alg K2) (l : list B) :
    (forall x, Ralg (f x) (g x)) -> RLalg (map f l) (map g l).
  Proof. intros H. induction l; cbn [map]; constructor; auto. Qed.

  Lemma Ralg_fold_left {B} (f : @alg K1 -> B -> @alg K1) (g : @alg K2 -> B -> @alg K2) (l : list B) :
    (forall a b x, Ralg a b -> Ralg (f a x) (g b x)) -> forall a b, Ralg a b -> Ralg (fold_left f l a) (fold_left g l b).
  Proof. intros H. induction l as [|x l IH]; intros a b Hab; cbn [fold_left]; auto. Qed.

  Lemma param_mds_row_alg r v1 v2 : RLalg v1 v2 -> Ralg (pg_mds_row_shf_alg r v1) (pg_mds_row_shf_alg r v2).
  Proof.
    intros Hv. unfold pg_mds_row_shf_alg. cbv zeta. apply Ralg_add.
    - apply Ralg_fold_left; [|apply Ralg_zero]. intros a b i Hab.
      apply Ralg_add; [exact Hab|]. apply Ralg_smul; [apply Ralg_nth; exact Hv | auto with rel].
    - apply Ralg_smul; [apply Ralg_nth; exact Hv | auto with rel].
  Qed.

  Lemma param_poseidon_mds : RL (eval_poseidon_mds ws1) (eval_poseidon_mds ws2).
  Proof.
    unfold eval_poseidon_mds. cbv zeta. apply RL_flat_map. intros i _. apply RL_coords.
    apply Ralg_sub; [auto with rel|]. apply param_mds_row_alg. apply RLalg_map. auto with rel.
  Qed.

  (* ---- CosetInterpolationGate *)
  Lemma RLalg_firstn n l1 l2 : RLalg l1 l2 -> RLalg (firstn n l1) (firstn n l2).
  Proof.
    intros H. revert n. induction H as [|a b l1 l2 Hab H IH]; intros [|n]; cbn [firstn]; try constructor; auto.
    apply IH.
  Qed.
  Lemma RLalg_skipn n l1 l2 : RLalg l1 l2 -> RLalg (skipn n l1) (skipn n l2).
  Proof.
    intros H. revert n. induction H as [|a b l1 l2 Hab H IH]; intros [|n]; cbn [skipn]; try (constructor; assumption).
    apply IH.
  Qed.

  Definition Rpair (a : @alg K1 * @alg K1) (b : @alg K2 * @alg K2) : Prop := Ralg (fst a) (fst b) /\ Ralg (snd a) (snd b).

  Lemma param_partial_interpolate (domain weights : list Z) : forall (weights' : list Z) v1 v2 x1 x2 e1 e2 p1 p2,
    weights' = weights -> RLalg v1 v2 -> Ralg x1 x2 -> Ralg e1 e2 -> Ralg p1 p2 ->
    Rpair (partial_interpolate domain v1 weights x1 e1 p1) (partial_interpolate domain v2 weights x2 e2 p2).
  Proof.
    intros weights' v1 v2 x1 x2 e1 e2 p1 p2 _ Hv. revert domain weights e1 e2 p1 p2.
    induction Hv as [|a b v1 v2 Hab Hv IH]; intros domain weights e1 e2 p1 p2 Hx He Hp.
    - destruct domain; cbn [partial_interpolate]; split; assumption.
    - destruct domain as [|d domain]; [split; assumption|].
      destruct weights as [|w weights]; [split; assumption|].
      cbn [partial_interpolate]. cbv zeta. apply IH; [exact Hx | |].
      + apply Ralg_add; [apply Ralg_mul; [exact He|] | apply Ralg_mul; [|exact Hp]].
        * apply Ralg_sub; [exact Hx | apply Ralg_of, Rbase].
        * apply Ralg_smul; [exact Hab | apply Rbase].
      + apply Ralg_mul; [exact Hp|]. apply Ralg_sub; [exact Hx | apply Ralg_of, Rbase].
  Qed.

  Lemma param_ci_computed bits degree weights v1 v2 s1 s2 i1 i2 i :
    RLalg v1 v2 -> Ralg s1 s2 -> Rpair i1 i2 ->
    Rpair (ci_computed bits degree weights v1 s1 i1 i) (ci_computed bits degree weights v2 s2 i2 i).
  Proof.
    intros Hv Hs [Hi1 Hi2]. unfold ci_computed. destruct (ci_chunk bits degree i) as [a b].
    apply (param_partial_interpolate _ _ _ _ _ _ _ _ _ _ _ eq_refl); try assumption.
    unfold lslice. apply RLalg_firstn, RLalg_skipn. exact Hv.
  Qed.

  Lemma param_coset bits degree weights :
    RL (eval_coset_interpolation bits degree weights ws1) (eval_coset_interpolation bits degree weights ws2).
  Proof.
    unfold eval_coset_interpolation. cbv zeta.
    assert (Hv : RLalg (ci_values bits ws1) (ci_values bits ws2)).
    { unfold ci_values. apply RLalg_map. intros i. apply Ralg_at. exact Hws. }
    assert (Hinit : forall i, Rpair (ci_init bits degree ws1 i) (ci_init bits degree ws2 i)).
    { intros [|j]; unfold ci_init; cbv zeta; split; cbn [fst snd]; auto with rel. }
    assert (Hcomp : forall i, Rpair
      (ci_computed bits degree weights (ci_values bits ws1)
         (alg_at ws1 (ci_start_intermediates bits + 4 * ci_num_intermediates bits degree)) (ci_init bits degree ws1 i) i)
      (ci_computed bits degree weights (ci_values bits ws2)
         (alg_at ws2 (ci_start_intermediates bits + 4 * ci_num_intermediates bits degree)) (ci_init bits degree ws2 i) i)).
    { intros i. apply param_ci_computed; [exact Hv | apply Ralg_at; exact Hws | apply Hinit]. }
    repeat apply Forall2_app.
    - apply RL_coords. auto 10 with rel.
    - apply RL_flat_map. intros i _. destruct (Hcomp i) as [Hc1 Hc2].
      apply Forall2_app; apply RL_coords; apply Ralg_sub; auto with rel.
    - apply RL_coords. apply Ralg_sub; [auto with rel|]. apply (Hcomp (ci_num_intermediates bits degree)).
  Qed.

  (* ---- all gates *)
  Theorem eval_param (g : gate) :
    RL (gate_eval_unfiltered g cs1 ws1 pi1) (gate_eval_unfiltered g cs2 ws2 pi2).
  Proof.
    destruct g; cbn [gate_eval_unfiltered].
    - apply param_arithmetic.
    - apply param_arithmetic_ext.
    - apply param_mul_ext.
    - apply param_base_sum.
    - apply param_constant.
    - apply param_coset.
    - apply param_exponentiation.
    - apply param_poseidon.
    - apply param_poseidon_mds.
    - apply param_public_input.
    - apply param_random_access.
    - apply param_reducing.
    - apply param_reducing_ext.
    - constructor.
    - constructor.
    - constructor.
  Qed.

  (* the filter and the filtered evaluation *)
  Lemma param_compute_filter row lo hi s1 s2 many : R s1 s2 ->
    R (compute_filter row lo hi s1 many) (compute_filter row lo hi s2 many).
  Proof. intros Hs. unfold compute_filter. apply R_fold_left; auto with rel. Qed.
End Param.
