(* C07 - the per-gate results assembled: for every gate of Model/Gates.v and ALL parameter values,
     count        the evaluator returns exactly gate_num_constraints values
     gen_sat      a row completed by the gate's own generators satisfies every constraint
     gen_pinned   replacing one generator-written wire by any other value violates some constraint
     filter_exact compute_filter vanishes on the other indices of the group and on UNUSED_SELECTOR
                  and does not vanish on the gate's own index
   over an abstract field K with an integer embedding injective below p (BaseLaws), and the
   Goldilocks instance (Fp, p = P) with all side conditions discharged. *)
From Coq Require Import ZArith List Lia Arith Bool.
From Verif Require Import Base.Field Gen.FieldConsts Model.Fp Model.FieldGeneric Model.Gates
  Proofs.FpField Proofs.FpFieldPrime
  Proofs.GatesLib Proofs.GatesSimple Proofs.GatesChain Proofs.GatesBaseSum Proofs.GatesRandomAccess
  Proofs.GatesPoseidon Proofs.GatesCoset.
Import ListNotations.
Local Open Scope nat_scope.

Section All.
  Context {K : Type} `{FL : FieldLaws K} {OB : OfBase K} {TC : ToCanon K}.
  Variable p : Z.
  Context {BL : BaseLaws K p}.
  Add Field Kf_all : (@F_field_theory K _ FL).

  (* conditions on the wires the gate's generators do not write (inputs, routed constants, public
     input hash); RandomAccess additionally needs access_index < 2^bits, which is part of
     "gate_generate = Some _" *)
  Definition gate_input_ok (g : gate) (consts row pi : list K) : Prop :=
    match g with
    | BaseSumGate B n => ok_base_sum B n consts row pi
    | ConstantGate n => ok_constant n consts row pi
    | ExponentiationGate n => ok_exp n consts row pi
    | PoseidonGate => ok_poseidon consts row pi
    | PublicInputGate => ok_public_input consts row pi
    | RandomAccessGate bits copies extra => ok_random_access bits copies extra consts row pi
    | _ => True
    end.

  (* parameter side conditions (beyond gate_wf) *)
  Definition gate_side (g : gate) : Prop :=
    match g with
    | BaseSumGate B _ => 1 <= B /\ (Z.of_nat B < p)%Z
    | ExponentiationGate n => 1 <= n
    | RandomAccessGate bits copies _ => 1 <= bits /\ 1 <= copies /\ (2 < p)%Z
    | ReducingGate n => 1 <= n
    | _ => True
    end.

  Theorem gate_spec_all (g : gate) : gate_side g -> gate_spec g (gate_input_ok g).
  Proof.
    destruct g; cbn [gate_side gate_input_ok]; intros Hs.
    - apply arithmetic_spec.
    - apply arithmetic_ext_spec.
    - apply mul_ext_spec.
    - destruct Hs. apply (base_sum_spec p); assumption.
    - apply constant_spec.
    - apply coset_spec.
    - apply exponentiation_spec. exact Hs.
    - apply poseidon_spec.
    - apply poseidon_mds_spec.
    - apply public_input_spec.
    - destruct Hs as [H1 [H2 H3]]. apply (random_access_spec p); assumption.
    - apply reducing_spec. exact Hs.
    - apply reducing_ext_spec.
    - apply noop_spec.
    - apply lookup_spec.
    - apply lookup_table_spec.
  Qed.

  Theorem gen_sat (g : gate) (consts row pi row' : list K) :
    gate_side g -> gate_num_wires g <= length row -> gate_input_ok g consts row pi ->
    gate_generate g consts row = Some row' ->
    zero_all (gate_eval_unfiltered g consts row' pi).
  Proof. intros Hs. apply (spec_gen_sat g _ (gate_spec_all g Hs)). Qed.

  Theorem gen_pinned (g : gate) (consts row pi row' : list K) (w : nat) (v : K) :
    gate_side g -> gate_num_wires g <= length row -> gate_input_ok g consts row pi ->
    gate_generate g consts row = Some row' ->
    In w (gate_written g) -> v <> nthF row' w ->
    nonzero_some (gate_eval_unfiltered g consts (upd row' w v) pi).
  Proof. intros Hs. apply (spec_gen_pinned g _ (gate_spec_all g Hs)). Qed.

  (* ---- count *)
  Lemma length_flat_map_const {B} (f : B -> list K) k (l : list B) :
    (forall x, length (f x) = k) -> length (flat_map f l) = k * length l.
  Proof.
    intros Hf. induction l as [|a l IH]; cbn [flat_map length]; [lia|].
    rewrite app_length, Hf, IH. lia.
  Qed.

  Lemma poseidon_count (ws : list K) : length (eval_poseidon ws) = 123.
  Proof. lazy. reflexivity. Qed.

  Theorem count (g : gate) (consts wires pi : list K) :
    length (gate_eval_unfiltered g consts wires pi) = gate_num_constraints g.
  Proof.
    destruct g as [n|n|n|B n|n|bits degree weights|n| | | |bits copies extra|n|n| |n|n];
      cbn [gate_eval_unfiltered gate_num_constraints].
    - unfold eval_arithmetic. rewrite map_length, seq_length. reflexivity.
    - unfold eval_arithmetic_ext. rewrite (length_flat_map_const _ 2) by reflexivity. rewrite seq_length. lia.
    - unfold eval_mul_ext. rewrite (length_flat_map_const _ 2) by reflexivity. rewrite seq_length. lia.
    - unfold eval_base_sum. cbn [length]. rewrite !map_length, seq_length. reflexivity.
    - unfold eval_constant. rewrite map_length, seq_length. reflexivity.
    - unfold eval_coset_interpolation. cbv zeta. rewrite !app_length.
      rewrite (length_flat_map_const _ 4) by reflexivity. rewrite seq_length. cbn [alg_coords length]. lia.
    - unfold eval_exponentiation. rewrite app_length, map_length, seq_length. reflexivity.
    - apply poseidon_count.
    - unfold eval_poseidon_mds. rewrite (length_flat_map_const _ 2) by reflexivity. rewrite seq_length. lia.
    - reflexivity.
    - unfold eval_random_access. rewrite app_length, map_length, seq_length.
      rewrite (length_flat_map_const _ (bits + 2)).
      + rewrite seq_length. lia.
      + intros c. unfold ra_copy_constraints. rewrite !app_length, map_length. unfold ra_bits.
        rewrite map_length, seq_length. cbn [length]. lia.
    - unfold eval_reducing. rewrite (length_flat_map_const _ 2) by reflexivity. rewrite seq_length. reflexivity.
    - unfold eval_reducing_ext. rewrite (length_flat_map_const _ 2) by reflexivity. rewrite seq_length. reflexivity.
    - reflexivity.
    - reflexivity.
    - reflexivity.
  Qed.

  (* ---- ReducingGate { num_coeffs: 0 }: the generator writes the output wires (= old_acc) but the
     gate has no constraint at all, so nothing pins them *)
  Theorem reducing_zero_unpinned (consts row pi : list K) (v : K) :
    6 <= length row ->
    exists row', gate_generate (ReducingGate 0) consts row = Some row' /\
      In 0 (gate_written (ReducingGate 0)) /\
      nthF row' 0 = nthF row 4 /\
      gate_eval_unfiltered (ReducingGate 0) consts (upd row' 0 v) pi = [].
  Proof.
    intros Hlen. eexists. split; [reflexivity|]. split; [left; reflexivity|]. split; [|reflexivity].
    cbn [gate_writes option_map]. unfold alg_writes. cbn [flat_map seq app last reducing_gen_loop map row_write].
    rewrite nthF_upd_neq by lia. rewrite nthF_upd_eq by lia. reflexivity.
  Qed.

  (* ---- filters *)
  Lemma compute_filter_zero_iff row lo hi (s : K) many :
    compute_filter row lo hi s many = 0%F <-> exists i, In i (filter_indices row lo hi many) /\ s = of_base i.
  Proof.
    unfold compute_filter. rewrite (fold_prod_zero (fun i => (of_base i - s)%F)). split.
    - intros [E|[i [Hi Ei]]]; [exfalso; apply f_1_neq_0; exact E|].
      exists i. split; [exact Hi|]. symmetry. apply f_sub_eq_0. exact Ei.
    - intros [i [Hi Ei]]. right. exists i. split; [exact Hi|]. apply f_sub_eq_0. symmetry. exact Ei.
  Qed.

  Lemma in_filter_indices row lo hi many i :
    In i (filter_indices row lo hi many) <->
    (exists j, lo <= j < hi /\ j <> row /\ i = Z.of_nat j) \/ (many = true /\ i = UNUSED_SELECTOR).
  Proof.
    unfold filter_indices. rewrite in_app_iff, in_map_iff. split.
    - intros [[j [E Hj]]|Hu].
      + apply filter_In in Hj. destruct Hj as [Hj Hne]. apply in_seq in Hj.
        left. exists j. split; [lia|]. split; [|congruence].
        apply negb_true_iff in Hne. apply Nat.eqb_neq in Hne. exact Hne.
      + right. destruct many; [|destruct Hu]. destruct Hu as [E|[]]. auto.
    - intros [[j [Hj [Hne E]]]|[Hm E]].
      + left. exists j. split; [congruence|]. apply filter_In. split; [apply in_seq; lia|].
        apply negb_true_iff. apply Nat.eqb_neq. exact Hne.
      + right. subst many. left. congruence.
  Qed.

  (* zero on every other index of the group *)
  Theorem filter_zero_other row lo hi many j :
    lo <= j < hi -> j <> row -> compute_filter row lo hi (of_base (Z.of_nat j)) many = 0%F.
  Proof.
    intros Hj Hne. apply compute_filter_zero_iff. exists (Z.of_nat j). split; [|reflexivity].
    apply in_filter_indices. left. exists j. auto.
  Qed.

  (* zero on UNUSED_SELECTOR when the circuit has several selector polynomials *)
  Theorem filter_zero_unused row lo hi :
    compute_filter row lo hi (of_base UNUSED_SELECTOR) true = 0%F.
  Proof.
    apply compute_filter_zero_iff. exists UNUSED_SELECTOR. split; [|reflexivity].
    apply in_filter_indices. right. auto.
  Qed.

  (* non-zero on the gate's own index (indices below UNUSED_SELECTOR < p, distinct) *)
  Theorem filter_nonzero_own row lo hi many :
    (Z.of_nat hi <= UNUSED_SELECTOR)%Z -> (UNUSED_SELECTOR < p)%Z -> lo <= row < hi ->
    compute_filter row lo hi (of_base (Z.of_nat row)) many <> 0%F.
  Proof.
    intros Hhi Hp Hrow E. apply compute_filter_zero_iff in E. destruct E as [i [Hi Ei]].
    apply in_filter_indices in Hi. unfold UNUSED_SELECTOR in *.
    destruct Hi as [[j [Hj [Hne Eij]]]|[_ Eiu]]; subst i.
    - apply (of_base_inj (Z.of_nat row) (Z.of_nat j)) in Ei; lia.
    - apply (of_base_inj (Z.of_nat row) 4294967295%Z) in Ei; lia.
  Qed.

  (* eval_filtered is the unfiltered vector scaled by the filter *)
  Lemma eval_filtered_length g consts wires pi row sel lo hi ns nls :
    length (eval_filtered g consts wires pi row sel lo hi ns nls) = gate_num_constraints g.
  Proof. unfold eval_filtered. cbv zeta. rewrite map_length. apply count. Qed.
End All.

(* ---- the Goldilocks instance *)
Lemma Fp_BaseLaws : BaseLaws Fp P.
Proof.
  pose proof P_pos as HP. pose proof P_gt_1 as HP1.
  constructor.
  - exact HP1.
  - intros a b. apply Fp_ext. cbn [fval fadd FpOps toFp of_base FpOfBase]. unfold of_base, FpOfBase.
    cbn [fval toFp]. apply Zplus_mod.
  - intros a b. apply Fp_ext. unfold of_base, FpOfBase. cbn [fval fmul FpOps toFp]. apply Zmult_mod.
  - reflexivity.
  - reflexivity.
  - intros a b Ha Hb E. unfold of_base, FpOfBase in E. apply (f_equal fval) in E. cbn [fval toFp] in E.
    rewrite !Z.mod_small in E by lia. exact E.
  - intros x. apply fval_range.
  - intros x. apply toFp_fval.
Qed.
