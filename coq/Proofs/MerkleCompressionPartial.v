(* Path compression on PARTIAL trees: the statement of Proofs/MerkleCompression.v
   (decompress_merkle_proofs inverts compress_merkle_proofs on the proofs determined by a labelling
   [val] of the tree nodes) with the labelling constrained only where the verifier can see it: on the
   leaves of the given indices and on the nodes above them up to the cap.  The siblings along these
   paths are arbitrary digests (no preimage is required), which is the situation of a set of accepted
   Merkle openings.  The section below is Section Compression of Proofs/MerkleCompression.v with the
   two hypotheses [val_leaf] / [val_node] weakened in this way; the proofs are the same except
   where these hypotheses are used ([parent_val], [seen0_spec]). *)
From Coq Require Import List Arith Bool Lia.
From Verif Require Import Model.Merkle Proofs.Merkle Proofs.MerkleCompression.
Import ListNotations.

Module Partial.
Section Compression.
  Variable F : Type.
  Variable digest : Type.
  Variable hash_leaf : list F -> digest.
  Variable two_to_one : digest -> digest -> digest.
  Variable k h : nat.                        (* height of the tree, cap height *)
  Hypothesis Hh : h <= k.
  Variable val : nat -> digest.              (* digest of node v *)
  Variable leaf_of : nat -> list F.          (* data of leaf i *)

  Notation n := (2 ^ k).
  Notation m := (k - h).

  Definition node (i j : nat) : nat := (i + n) / 2 ^ j.
  Definition sib (i j : nat) : nat := xor1 (node i j).
  (* the proof of position i determined by the labelling *)
  Definition proof_of (i : nat) : list digest := map (fun j => val (sib i j)) (seq 0 m).

  Lemma node_0 i : node i 0 = i + n.
  Proof. unfold node. simpl. apply Nat.div_1_r. Qed.

  Lemma node_S i j : node i (S j) = node i j / 2.
  Proof.
    unfold node. rewrite Nat.div_div by (pose proof (pow2_pos j); lia).
    f_equal. rewrite pow2_S. lia.
  Qed.

  Lemma node_bounds i j : i < n -> j <= k -> 2 ^ (k - j) <= node i j < 2 ^ S (k - j).
  Proof.
    intros Hi Hj. unfold node. pose proof (pow2_pos j) as Hp.
    assert (En : n = 2 ^ j * 2 ^ (k - j)) by (rewrite <- Nat.pow_add_r; f_equal; lia).
    split.
    - apply Nat.div_le_lower_bound; lia.
    - apply Nat.div_lt_upper_bound; [lia|]. rewrite pow2_S. lia.
  Qed.

  Lemma node_log2 i j : i < n -> j <= k -> Nat.log2 (node i j) = k - j.
  Proof. intros Hi Hj. apply Nat.log2_unique; [lia|]. apply node_bounds; assumption. Qed.

  Lemma node_ge2 i j : i < n -> j < k -> 2 <= node i j.
  Proof.
    intros Hi Hj. destruct (node_bounds i j Hi ltac:(lia)) as [Hlo _].
    assert (2 ^ 1 <= 2 ^ (k - j)) by (apply Nat.pow_le_mono_r; lia). simpl in *. lia.
  Qed.

  Lemma sib_log2 i j : i < n -> j < k -> Nat.log2 (sib i j) = k - j.
  Proof.
    intros Hi Hj. unfold sib. rewrite log2_xor1 by (apply node_ge2; assumption).
    apply node_log2; [assumption|lia].
  Qed.

  Lemma node_lt i j : i < n -> j <= k -> node i j < 2 * n.
  Proof.
    intros Hi Hj. destruct (node_bounds i j Hi Hj) as [_ Hhi].
    assert (2 ^ S (k - j) <= 2 ^ S k) by (apply Nat.pow_le_mono_r; lia).
    rewrite (pow2_S k) in *. lia.
  Qed.

  Lemma sib_lt i j : i < n -> j <= k -> sib i j < 2 * n.
  Proof.
    intros Hi Hj. destruct (node_bounds i j Hi Hj) as [_ Hhi]. rewrite pow2_S in Hhi.
    unfold sib. apply xor1_lt in Hhi.
    assert (2 ^ (k - j) <= 2 ^ k) by (apply Nat.pow_le_mono_r; lia). lia.
  Qed.

  Lemma sib_half i j : sib i j / 2 = node i (S j).
  Proof. unfold sib. rewrite xor1_div2, node_S. reflexivity. Qed.

  Lemma node_parent_range i j : i < n -> j < k -> 1 <= node i (S j) < n.
  Proof.
    intros Hi Hj. destruct (node_bounds i (S j) Hi ltac:(lia)) as [Hlo Hhi].
    pose proof (pow2_pos (k - S j)).
    assert (2 ^ S (k - S j) <= 2 ^ k) by (apply Nat.pow_le_mono_r; lia). lia.
  Qed.

  (* distinctness by depth *)
  Lemma sib_neq_sib i i' j j' : i < n -> i' < n -> j < k -> j' < k -> j <> j' -> sib i j <> sib i' j'.
  Proof.
    intros Hi Hi' Hj Hj' Hne E. apply (f_equal Nat.log2) in E.
    rewrite !sib_log2 in E by assumption. lia.
  Qed.

  Lemma sib_neq_node i i' j j' : i < n -> i' < n -> j < k -> j' <= k -> j <> j' -> sib i j <> node i' j'.
  Proof.
    intros Hi Hi' Hj Hj' Hne E. apply (f_equal Nat.log2) in E.
    rewrite sib_log2, node_log2 in E by assumption. lia.
  Qed.

  (* ------------------------------------------------------------------------------------ *)
  (* compress: the [known] array *)

  Variable indices : list nat.
  Hypothesis indices_lt : forall i, In i indices -> i < n.
  (* the labelling is only required on the paths of the indices: their leaves carry the hashes of
     the leaf data, and every node above a leaf of [indices] (up to the cap) is the compression of
     its children *)
  Hypothesis val_leaf : forall i, In i indices -> val (i + 2 ^ k) = hash_leaf (leaf_of i).
  Hypothesis val_node : forall i j, In i indices -> j < k - h ->
    val (node i (S j)) = two_to_one (val (2 * node i (S j))) (val (2 * node i (S j) + 1)).

  Definition Kinv (known : list bool) (A : nat -> Prop) : Prop :=
    length known = 2 * n /\ forall v, v < 2 * n -> (nth v known false = true <-> A v).

  Lemma Kinv_ext known A B : (forall u, A u <-> B u) -> Kinv known A -> Kinv known B.
  Proof. intros E [Hl Hk]. split; [exact Hl|]. intros v Hv. rewrite <- E. apply Hk. exact Hv. Qed.

  Lemma Kinv_upd known A v : Kinv known A -> v < 2 * n -> Kinv (upd v true known) (fun u => A u \/ u = v).
  Proof.
    intros [Hl Hk] Hv. split; [rewrite upd_length; exact Hl|]. intros u Hu.
    destruct (Nat.eq_dec v u) as [->|Hne].
    - rewrite nth_upd_eq by lia. tauto.
    - rewrite nth_upd_neq by assumption. rewrite (Hk u Hu). split; [tauto|]. intros [?|?]; [assumption|lia].
  Qed.

  Lemma mark_path_spec : forall cnt known v A,
    Kinv known A -> (forall t, t < cnt -> v / 2 ^ t < 2 * n) ->
    exists known', mark_path known v cnt = Some known'
                   /\ Kinv known' (fun u => A u \/ exists t, t < cnt /\ u = v / 2 ^ t).
  Proof.
    induction cnt; intros known v A HK Hr.
    - exists known. split; [reflexivity|]. eapply Kinv_ext; [|exact HK]. intros u. split; [tauto|].
      intros [?|(t & Ht & _)]; [assumption|lia].
    - cbn [mark_path]. pose proof (Hr 0 ltac:(lia)) as H0. cbn [Nat.pow] in H0. rewrite Nat.div_1_r in H0.
      destruct HK as [Hl Hk]. replace (v <? length known) with true by (symmetry; apply Nat.ltb_lt; lia).
      destruct (IHcnt (upd v true known) (v / 2) _ (Kinv_upd known A v (conj Hl Hk) H0)) as (known' & E & HK').
      { intros t Ht. specialize (Hr (S t) ltac:(lia)). rewrite pow2_S in Hr.
        rewrite Nat.div_div by (pose proof (pow2_pos t); lia). exact Hr. }
      exists known'. split; [exact E|]. eapply Kinv_ext; [|exact HK']. intros u. split.
      + intros [[Ha| ->]|(t & Ht & ->)].
        * left; assumption.
        * right. exists 0. split; [lia|]. cbn [Nat.pow]. rewrite Nat.div_1_r. reflexivity.
        * right. exists (S t). split; [lia|]. rewrite pow2_S, Nat.div_div by (pose proof (pow2_pos t); lia). reflexivity.
      + intros [Ha|(t & Ht & ->)]; [left; left; assumption|]. destruct t as [|t].
        * left. right. cbn [Nat.pow]. apply Nat.div_1_r.
        * right. exists t. split; [lia|]. rewrite pow2_S, Nat.div_div by (pose proof (pow2_pos t); lia). reflexivity.
  Qed.

  Definition inP (u : nat) : Prop := exists i, In i indices /\ exists t, t < m /\ u = node i t.

  Lemma mark_paths_spec : forall todo known A,
    Kinv known A -> (forall i, In i todo -> i < n) ->
    exists known', mark_paths known n m todo = Some known'
                   /\ Kinv known' (fun u => A u \/ exists i, In i todo /\ exists t, t < m /\ u = node i t).
  Proof.
    induction todo as [|i todo IH]; intros known A HK Hlt.
    - exists known. split; [reflexivity|]. eapply Kinv_ext; [|exact HK]. intros u. split; [tauto|].
      intros [?|(i & [] & _)]; assumption.
    - cbn [mark_paths].
      destruct (mark_path_spec m known (i + n) A HK) as (k1 & E1 & HK1).
      { intros t Ht. apply (node_lt i t); [apply Hlt; left; reflexivity|lia]. }
      rewrite E1.
      destruct (IH k1 _ HK1 ltac:(intros; apply Hlt; right; assumption)) as (k2 & E2 & HK2).
      exists k2. split; [exact E2|]. eapply Kinv_ext; [|exact HK2]. intros u. split.
      + intros [[Ha|(t & Ht & ->)]|(i' & Hi' & t & Ht & ->)].
        * left; assumption.
        * right. exists i. split; [left; reflexivity|]. exists t. split; [assumption|reflexivity].
        * right. exists i'. split; [right; assumption|]. exists t. auto.
      + intros [Ha|(i' & [<- |Hi'] & t & Ht & ->)].
        * left; left; assumption.
        * left. right. exists t. auto.
        * right. exists i'. split; [assumption|]. exists t. auto.
  Qed.

  Lemma Kinv_init : Kinv (repeat false (2 * n)) (fun _ => False).
  Proof.
    split; [apply repeat_length|]. intros v Hv. split; [|tauto].
    intros E. rewrite nth_repeat in E. discriminate.
  Qed.

  (* nodes visited by the proofs already processed *)
  Definition vis (done : list nat) (u : nat) : Prop :=
    exists i, In i done /\ exists t, t < m /\ (u = sib i t \/ u = node i (S t)).
  Definition knownP (done : list nat) (u : nat) : Prop := inP u \/ vis done u.

  Definition inPb (u : nat) : bool :=
    existsb (fun i => existsb (fun t => u =? node i t) (seq 0 m)) indices.
  Definition visb (done : list nat) (u : nat) : bool :=
    existsb (fun i => existsb (fun t => (u =? sib i t) || (u =? node i (S t))) (seq 0 m)) done.
  Definition knownb (done : list nat) (u : nat) : bool := inPb u || visb done u.

  Lemma knownb_spec done u : knownb done u = true <-> knownP done u.
  Proof.
    unfold knownb, knownP, inPb, visb, inP, vis. rewrite orb_true_iff, !existsb_exists.
    split; (intros [H|H]; [left|right]).
    - destruct H as (i & Hi & H). apply existsb_exists in H. destruct H as (t & Ht & E).
      apply in_seq in Ht. apply Nat.eqb_eq in E. exists i. split; [assumption|]. exists t. split; [lia|assumption].
    - destruct H as (i & Hi & H). apply existsb_exists in H. destruct H as (t & Ht & E).
      apply in_seq in Ht. apply orb_true_iff in E. rewrite !Nat.eqb_eq in E.
      exists i. split; [assumption|]. exists t. split; [lia|assumption].
    - destruct H as (i & Hi & t & Ht & E). exists i. split; [assumption|]. apply existsb_exists.
      exists t. split; [apply in_seq; lia|]. apply Nat.eqb_eq. assumption.
    - destruct H as (i & Hi & t & Ht & E). exists i. split; [assumption|]. apply existsb_exists.
      exists t. split; [apply in_seq; lia|]. apply orb_true_iff. rewrite !Nat.eqb_eq. assumption.
  Qed.

  Lemma bool_eq_iff (a b : bool) : (a = true <-> b = true) -> a = b.
  Proof. destruct a, b; intros [H1 H2]; auto; try (symmetry; auto); discriminate (H1 eq_refl) || discriminate (H2 eq_refl). Qed.

  (* the compressed proof of index i when [done] were processed before, from layer j on *)
  Definition stream (j : nat) (done : list nat) (i : nat) : list digest :=
    flat_map (fun t => if knownb done (sib i t) then [] else [val (sib i t)]) (seq j (m - j)).

  Fixpoint streams (j : nat) (done todo : list nat) : list (list digest) :=
    match todo with
    | [] => []
    | i :: r => stream j done i :: streams j (done ++ [i]) r
    end.

  Lemma streams_length j : forall todo done, length (streams j done todo) = length todo.
  Proof. induction todo; intros; simpl; auto. Qed.

  Lemma compress_one_spec done i : i < n ->
    forall len t0 known_t (A_t : nat -> Prop),
      t0 + len = m -> Kinv known_t A_t ->
      (forall t, t0 <= t < m -> (A_t (sib i t) <-> knownP done (sib i t))) ->
      exists known',
        compress_one digest known_t (node i t0) (map (fun t => val (sib i t)) (seq t0 len))
        = Some (known', flat_map (fun t => if knownb done (sib i t) then [] else [val (sib i t)]) (seq t0 len))
        /\ Kinv known' (fun u => A_t u \/ exists t, t0 <= t < m /\ (u = sib i t \/ u = node i (S t))).
  Proof.
    intros Hi. induction len; intros t0 known_t A_t Hlen HK HA.
    - exists known_t. split; [reflexivity|]. eapply Kinv_ext; [|exact HK]. intros u. split; [tauto|].
      intros [?|(t & Ht & _)]; [assumption|lia].
    - cbn [seq map compress_one flat_map].
      assert (Ht0 : t0 < m) by lia. assert (Ht0k : t0 < k) by lia.
      pose proof (sib_lt i t0 Hi ltac:(lia)) as Hs. fold (sib i t0).
      destruct HK as [Hl Hk].
      rewrite (nth_error_nth' known_t false) by lia.
      set (b := nth (sib i t0) known_t false).
      assert (Eb : b = knownb done (sib i t0)).
      { apply bool_eq_iff. unfold b. rewrite (Hk _ Hs), knownb_spec. apply HA. lia. }
      set (known1 := if b then known_t else upd (sib i t0) true known_t).
      assert (HK1 : Kinv known1 (fun u => A_t u \/ u = sib i t0)).
      { unfold known1. destruct b eqn:Eb'.
        - eapply Kinv_ext; [|exact (conj Hl Hk)]. intros u. split; [tauto|].
          intros [?| ->]; [assumption|]. apply (Hk _ Hs). exact Eb'.
        - apply Kinv_upd; [exact (conj Hl Hk)|exact Hs]. }
      rewrite <- node_S.
      pose proof (node_lt i (S t0) Hi ltac:(lia)) as Hn1.
      replace (length known1 <=? node i (S t0)) with false
        by (symmetry; apply Nat.leb_gt; destruct HK1 as [-> _]; exact Hn1).
      pose proof (Kinv_upd _ _ _ HK1 Hn1) as HK2.
      destruct (IHlen (S t0) _ _ ltac:(lia) HK2) as (known' & E & HK').
      { intros t Ht. rewrite <- (HA t ltac:(lia)). split; [|tauto].
        intros [[Ha|Es]|En]; [assumption| |]; exfalso.
        - revert Es. apply sib_neq_sib; try assumption; lia.
        - destruct (Nat.eq_dec t (S t0)) as [->|Hne].
          + unfold sib in En. exact (xor1_neq _ En).
          + revert En. apply sib_neq_node; try assumption; lia. }
      rewrite E. exists known'. split.
      + rewrite <- Eb. destruct b; reflexivity.
      + eapply Kinv_ext; [|exact HK']. intros u. split.
        * intros [[[Ha| ->]| ->]|(t & Ht & Hu)].
          -- left; assumption.
          -- right. exists t0. split; [lia|]. left; reflexivity.
          -- right. exists t0. split; [lia|]. right; reflexivity.
          -- right. exists t. split; [lia|assumption].
        * intros [Ha|(t & Ht & Hu)]; [left; left; left; assumption|].
          destruct (Nat.eq_dec t t0) as [->|Hne].
          -- destruct Hu as [->| ->]; [left; left; right; reflexivity|left; right; reflexivity].
          -- right. exists t. split; [lia|assumption].
  Qed.

  Lemma compress_all_spec : forall todo done known,
    Kinv known (knownP done) -> (forall i, In i todo -> i < n) ->
    compress_all digest known n (combine todo (map proof_of todo)) = Some (streams 0 done todo).
  Proof.
    induction todo as [|i todo IH]; intros done known HK Hlt; [reflexivity|].
    cbn [map combine compress_all streams].
    assert (Hi : i < n) by (apply Hlt; left; reflexivity).
    destruct (compress_one_spec done i Hi m 0 known (knownP done) ltac:(lia) HK ltac:(tauto))
      as (known' & E & HK').
    rewrite node_0 in E. unfold proof_of at 1. rewrite E.
    rewrite (IH (done ++ [i]) known').
    - unfold stream. rewrite Nat.sub_0_r. reflexivity.
    - eapply Kinv_ext; [|exact HK']. intros u. unfold knownP, vis. split.
      + intros [[Hp|(i' & Hi' & t & Ht & Hu)]|(t & Ht & Hu)].
        * left; assumption.
        * right. exists i'. split; [apply in_or_app; left; assumption|]. exists t. auto.
        * right. exists i. split; [apply in_or_app; right; left; reflexivity|]. exists t. split; [lia|assumption].
      + intros [Hp|(i' & Hi' & t & Ht & Hu)]; [left; left; assumption|].
        apply in_app_or in Hi'. destruct Hi' as [Hi'|[<- |[]]].
        * left. right. exists i'. split; [assumption|]. exists t. auto.
        * right. exists t. split; [lia|assumption].
    - intros; apply Hlt; right; assumption.
  Qed.

  Lemma proof_of_length i : length (proof_of i) = m.
  Proof. unfold proof_of. rewrite map_length, seq_length. reflexivity. Qed.

  Theorem compress_spec :
    indices <> [] ->
    compress_merkle_proofs digest h indices (map proof_of indices) = Some (streams 0 [] indices).
  Proof.
    intros Hne. unfold compress_merkle_proofs.
    destruct indices as [|i0 rest] eqn:Ei; [contradiction|]. cbn [map].
    rewrite !proof_of_length.
    replace (h + (k - h)) with k by lia.
    rewrite <- Ei in *.
    destruct (mark_paths_spec indices (repeat false (2 * n)) _ Kinv_init indices_lt) as (known & E & HK).
    rewrite E.
    replace (proof_of i0 :: map proof_of rest) with (map proof_of indices) by (rewrite Ei; reflexivity).
    apply compress_all_spec; [|exact indices_lt].
    eapply Kinv_ext; [|exact HK]. intros u. unfold knownP, inP, vis. split.
    - intros [[]|H]. left. exact H.
    - intros [H|(i & [] & _)]. right. exact H.
  Qed.

  (* ------------------------------------------------------------------------------------ *)
  (* decompress: the [seen] map *)

  Notation sget := (seen_get digest).
  Notation sins := (seen_insert digest).

  Definition has (seen : seen_map digest) (v : nat) : Prop := sget seen v <> None.
  Definition Vok (seen : seen_map digest) : Prop := forall v d, sget seen v = Some d -> d = val v.

  (* keys present when layer j starts: path nodes of levels <= j, siblings of levels < j *)
  Definition Key (j v : nat) : Prop :=
    (exists i, In i indices /\ exists t, t <= j /\ v = node i t)
    \/ (exists i, In i indices /\ exists t, t < j /\ v = sib i t).

  Definition Minv (j : nat) (done : list nat) (seen : seen_map digest) : Prop :=
    Vok seen
    /\ forall v, has seen v <-> (Key j v \/ exists i, In i done /\ (v = sib i j \/ v = node i (S j))).

  Lemma sget_insert seen a d v : sget (sins seen a d) v = if a =? v then Some d else sget seen v.
  Proof. reflexivity. Qed.

  Lemma has_insert seen a d v : has (sins seen a d) v <-> (v = a \/ has seen v).
  Proof.
    unfold has. rewrite sget_insert. destruct (a =? v) eqn:E.
    - apply Nat.eqb_eq in E. split; [auto|discriminate].
    - apply Nat.eqb_neq in E. split; [auto|]. intros [->|?]; [congruence|assumption].
  Qed.

  Lemma Vok_insert seen a d : Vok seen -> d = val a -> Vok (sins seen a d).
  Proof.
    intros Hv -> v d'. rewrite sget_insert. destruct (a =? v) eqn:E.
    - apply Nat.eqb_eq in E. subst. intros [= <-]. reflexivity.
    - apply Hv.
  Qed.

  Lemma decide_sib done i j :
    i < n -> j < m -> incl done indices ->
    ((Key j (sib i j) \/ exists i', In i' done /\ (sib i j = sib i' j \/ sib i j = node i' (S j)))
     <-> knownP done (sib i j)).
  Proof.
    intros Hi Hj Hincl. assert (Hjk : j < k) by lia. unfold knownP, inP, vis. split.
    - intros [[(i' & Hi' & t & Ht & E)|(i' & Hi' & t & Ht & E)]|(i' & Hi' & [E|E])].
      + left. exists i'. split; [assumption|]. exists t. split; [lia|assumption].
      + exfalso. revert E. apply sib_neq_sib; auto; lia.
      + right. exists i'. split; [assumption|]. exists j. split; [assumption|]. left. assumption.
      + exfalso. revert E. apply sib_neq_node; auto; lia.
    - intros [(i' & Hi' & t & Ht & E)|(i' & Hi' & t & Ht & [E|E])].
      + destruct (Nat.eq_dec j t) as [->|Hne].
        * left. left. exists i'. split; [assumption|]. exists t. split; [lia|assumption].
        * exfalso. revert E. apply sib_neq_node; auto; lia.
      + destruct (Nat.eq_dec j t) as [->|Hne].
        * right. exists i'. split; [assumption|]. left. assumption.
        * exfalso. revert E. apply sib_neq_sib; auto; lia.
      + destruct (Nat.eq_dec j (S t)) as [->|Hne].
        * left. left. exists i'. split; [apply Hincl; assumption|]. exists (S t). split; [lia|assumption].
        * exfalso. revert E. apply sib_neq_node; auto; lia.
  Qed.

  Lemma stream_step j done i :
    j < m ->
    stream j done i = (if knownb done (sib i j) then [] else [val (sib i j)]) ++ stream (S j) done i.
  Proof.
    intros Hj. unfold stream. replace (m - j) with (S (m - S j)) by lia. reflexivity.
  Qed.

  Lemma parent_val i j :
    In i indices -> j < m ->
    (if Nat.even (node i j) then two_to_one (val (node i j)) (val (sib i j))
     else two_to_one (val (sib i j)) (val (node i j))) = val (node i (S j)).
  Proof.
    intros Hii Hj. pose proof (indices_lt i Hii) as Hi.
    pose proof (val_node i j Hii Hj) as Hvn. rewrite node_S in Hvn |- *. unfold sib. set (v := node i j) in *.
    pose proof (node_parent_range i j Hi ltac:(lia)) as Hr. rewrite node_S in Hr. fold v in Hr.
    rewrite Hvn.
    pose proof (Nat.div_mod v 2 ltac:(lia)) as Hd.
    destruct (Nat.even v) eqn:Ev.
    - apply xor1_even_iff in Ev. destruct (xor1_cases v) as [[_ ->]|[Hm _]]; [|lia].
      replace (2 * (v / 2)) with v by lia. reflexivity.
    - assert (Hm : v mod 2 = 1).
      { destruct (xor1_cases v) as [[Hm _]|[Hm _]]; [|assumption].
        apply xor1_even_iff in Hm. congruence. }
      destruct (xor1_cases v) as [[Hm' _]|[_ ->]]; [lia|].
      replace (2 * (v / 2) + 1) with v by lia. replace (2 * (v / 2)) with (v - 1) by lia. reflexivity.
  Qed.

  Lemma decompress_layer_spec j : j < m ->
    forall todo done seen,
      Minv j done seen -> (forall i, In i todo -> In i indices) -> incl done indices ->
      exists seen',
        decompress_layer digest two_to_one seen n j (combine todo (streams j done todo))
        = Some (seen', streams (S j) done todo)
        /\ Minv j (done ++ todo) seen'.
  Proof.
    intros Hj. induction todo as [|i todo IH]; intros done seen HM Hin Hincl.
    - exists seen. split; [reflexivity|]. rewrite app_nil_r. exact HM.
    - cbn [streams combine decompress_layer].
      assert (Hii : In i indices) by (apply Hin; left; reflexivity).
      assert (Hi : i < n) by (apply indices_lt; assumption).
      fold (node i j). fold (sib i j).
      destruct HM as [Hv Hk].
      (* seen[&index] *)
      assert (Hcur : has seen (node i j)).
      { apply Hk. left. left. exists i. split; [assumption|]. exists j. split; [lia|reflexivity]. }
      destruct (sget seen (node i j)) as [cur|] eqn:Ecur; [|exfalso; apply Hcur; exact Ecur].
      pose proof (Hv _ _ Ecur) as Hcurv. subst cur.
      rewrite <- node_S.
      assert (Hincl' : incl (done ++ [i]) indices).
      { intros x Hx. apply in_app_or in Hx. destruct Hx as [Hx|[<-|[]]]; [apply Hincl|]; assumption. }
      pose proof (decide_sib done i j Hi Hj Hincl) as Hdec.
      rewrite <- Hk, <- knownb_spec in Hdec.
      rewrite (stream_step j done i Hj).
      destruct (sget seen (sib i j)) as [sh|] eqn:Esib.
      + (* sibling already known *)
        assert (Hkb : knownb done (sib i j) = true) by (apply Hdec; unfold has; rewrite Esib; discriminate).
        rewrite Hkb. cbn [app].
        pose proof (Hv _ _ Esib) as Hshv. subst sh. rewrite (parent_val i j Hii Hj).
        destruct (IH (done ++ [i]) (sins seen (node i (S j)) (val (node i (S j))))) as (seen' & E & HM').
        * split; [apply Vok_insert; [exact Hv|reflexivity]|]. intros v. rewrite has_insert, Hk. split.
          -- intros [->|[HK|(i' & Hi' & Hu)]].
             ++ right. exists i. split; [apply in_or_app; right; left; reflexivity|]. right. reflexivity.
             ++ left. assumption.
             ++ right. exists i'. split; [apply in_or_app; left; assumption|assumption].
          -- intros [HK|(i' & Hi' & Hu)]; [right; left; assumption|].
             apply in_app_or in Hi'. destruct Hi' as [Hi'|[<- |[]]].
             ++ right. right. exists i'. split; assumption.
             ++ destruct Hu as [->| ->]; [|left; reflexivity].
                right. apply Hk. unfold has. rewrite Esib. discriminate.
        * intros; apply Hin; right; assumption.
        * exact Hincl'.
        * rewrite E. exists seen'. split; [reflexivity|]. rewrite <- app_assoc in HM'. exact HM'.
      + (* sibling taken from the compressed proof *)
        assert (Hkb : knownb done (sib i j) = false).
        { apply not_true_is_false. intros Eb. apply Hdec in Eb. apply Eb. exact Esib. }
        rewrite Hkb. cbn [app]. rewrite (parent_val i j Hii Hj).
        destruct (IH (done ++ [i])
                     (sins (sins seen (sib i j) (val (sib i j))) (node i (S j)) (val (node i (S j)))))
          as (seen' & E & HM').
        * split; [apply Vok_insert; [apply Vok_insert; [exact Hv|reflexivity]|reflexivity]|].
          intros v. rewrite !has_insert, Hk. split.
          -- intros [->|[->|[HK|(i' & Hi' & Hu)]]].
             ++ right. exists i. split; [apply in_or_app; right; left; reflexivity|]. right. reflexivity.
             ++ right. exists i. split; [apply in_or_app; right; left; reflexivity|]. left. reflexivity.
             ++ left. assumption.
             ++ right. exists i'. split; [apply in_or_app; left; assumption|assumption].
          -- intros [HK|(i' & Hi' & Hu)]; [right; right; left; assumption|].
             apply in_app_or in Hi'. destruct Hi' as [Hi'|[<- |[]]].
             ++ right. right. right. exists i'. split; assumption.
             ++ destruct Hu as [->| ->]; [right; left; reflexivity|left; reflexivity].
        * intros; apply Hin; right; assumption.
        * exact Hincl'.
        * rewrite E. exists seen'. split; [reflexivity|]. rewrite <- app_assoc in HM'. exact HM'.
  Qed.

  Lemma Minv_next j seen : Minv j indices seen -> Minv (S j) [] seen.
  Proof.
    intros [Hv Hk]. split; [exact Hv|]. intros v. rewrite Hk. unfold Key. split.
    - intros [[(i & Hi & t & Ht & E)|(i & Hi & t & Ht & E)]|(i & Hi & [E|E])].
      + left. left. exists i. split; [assumption|]. exists t. split; [lia|assumption].
      + left. right. exists i. split; [assumption|]. exists t. split; [lia|assumption].
      + left. right. exists i. split; [assumption|]. exists j. split; [lia|assumption].
      + left. left. exists i. split; [assumption|]. exists (S j). split; [lia|assumption].
    - intros [[(i & Hi & t & Ht & E)|(i & Hi & t & Ht & E)]|(i & [] & _)].
      + destruct (Nat.eq_dec t (S j)) as [->|Hne].
        * right. exists i. split; [assumption|]. right. assumption.
        * left. left. exists i. split; [assumption|]. exists t. split; [lia|assumption].
      + destruct (Nat.eq_dec t j) as [->|Hne].
        * right. exists i. split; [assumption|]. left. assumption.
        * left. right. exists i. split; [assumption|]. exists t. split; [lia|assumption].
  Qed.

  Lemma decompress_fill_spec : forall cnt j seen,
    j + cnt = m -> Minv j [] seen ->
    exists seen',
      decompress_fill digest two_to_one seen n j cnt indices (streams j [] indices) = Some seen'
      /\ Minv m [] seen'.
  Proof.
    induction cnt; intros j seen Hjc HM.
    - exists seen. split; [reflexivity|]. replace m with j by lia. exact HM.
    - cbn [decompress_fill].
      destruct (decompress_layer_spec j ltac:(lia) indices [] seen HM ltac:(auto) ltac:(intros x []))
        as (seen1 & E & HM1).
      rewrite E. cbn [app] in HM1. apply Minv_next in HM1.
      rewrite skipn_all2, app_nil_r by (rewrite !streams_length; lia).
      apply IHcnt; [lia|exact HM1].
  Qed.

  Lemma seen0_spec : forall l acc,
    (forall i, In i l -> In i indices) -> Vok acc ->
    let seen := fold_left (fun mp iv => sins mp (fst iv + n) (hash_leaf (snd iv)))
                          (combine l (map leaf_of l)) acc in
    Vok seen /\ forall v, has seen v <-> (has acc v \/ exists i, In i l /\ v = i + n).
  Proof.
    induction l as [|i l IH]; intros acc Hlt Hv; cbn [map combine fold_left].
    - split; [exact Hv|]. intros v. split; [auto|]. intros [?|(i & [] & _)]; assumption.
    - destruct (IH (sins acc (i + n) (hash_leaf (leaf_of i)))) as [Hv' Hk'].
      + intros; apply Hlt; right; assumption.
      + apply Vok_insert; [exact Hv|]. cbn [fst snd]. symmetry. apply val_leaf. apply Hlt. left. reflexivity.
      + cbn [fst snd]. split; [exact Hv'|]. intros v. rewrite Hk', has_insert. split.
        * intros [[->|Ha]|(i' & Hi' & ->)].
          -- right. exists i. split; [left; reflexivity|reflexivity].
          -- left. assumption.
          -- right. exists i'. split; [right; assumption|reflexivity].
        * intros [Ha|(i' & [<- |Hi'] & ->)].
          -- left. right. assumption.
          -- left. left. reflexivity.
          -- right. exists i'. split; [assumption|reflexivity].
  Qed.

  Lemma read_path_spec seen i : Minv m [] seen -> In i indices ->
    forall cnt t0, t0 + cnt = m ->
      read_path digest seen (node i t0) cnt = Some (map (fun t => val (sib i t)) (seq t0 cnt)).
  Proof.
    intros [Hv Hk] Hi. induction cnt; intros t0 Ht; [reflexivity|].
    cbn [read_path seq map]. fold (sib i t0).
    assert (Hh' : has seen (sib i t0)).
    { apply Hk. left. right. exists i. split; [assumption|]. exists t0. split; [lia|reflexivity]. }
    destruct (sget seen (sib i t0)) as [d|] eqn:E; [|exfalso; apply Hh'; exact E].
    rewrite (Hv _ _ E). rewrite <- node_S. rewrite IHcnt by lia. reflexivity.
  Qed.

  Lemma read_paths_spec seen : Minv m [] seen ->
    forall l, (forall i, In i l -> In i indices) ->
      read_paths digest seen n m l = Some (map proof_of l).
  Proof.
    intros HM. induction l as [|i l IH]; intros Hin; [reflexivity|].
    cbn [read_paths map]. rewrite <- node_0.
    rewrite (read_path_spec seen i HM (Hin i (or_introl eq_refl)) m 0 ltac:(lia)).
    rewrite IH by (intros; apply Hin; right; assumption). reflexivity.
  Qed.

  Theorem decompress_spec :
    decompress_merkle_proofs F digest hash_leaf two_to_one (map leaf_of indices) indices
                             (streams 0 [] indices) k h
    = Some (map proof_of indices).
  Proof.
    unfold decompress_merkle_proofs.
    replace (k <? h) with false by (symmetry; apply Nat.ltb_ge; exact Hh).
    destruct (seen0_spec indices [] (fun i Hi => Hi) ltac:(intros v d; discriminate)) as [Hv0 Hk0].
    set (seen0 := fold_left _ _ _) in *.
    assert (HM0 : Minv 0 [] seen0).
    { split; [exact Hv0|]. intros v. rewrite Hk0. unfold Key. split.
      - intros [Ha|(i & Hi & ->)]; [exfalso; apply Ha; reflexivity|].
        left. left. exists i. split; [assumption|]. exists 0. split; [lia|]. symmetry. apply node_0.
      - intros [[(i & Hi & t & Ht & ->)|(i & Hi & t & Ht & _)]|(i & [] & _)]; [|lia].
        right. exists i. split; [assumption|]. replace t with 0 by lia. apply node_0. }
    destruct (decompress_fill_spec m 0 seen0 ltac:(lia) HM0) as (seen' & E & HM).
    rewrite E. apply read_paths_spec; auto.
  Qed.

  (* decompression inverts compression, for any list of indices (multiset, any order) *)
  Theorem decompress_compress_val :
    indices <> [] ->
    exists cps,
      compress_merkle_proofs digest h indices (map proof_of indices) = Some cps
      /\ decompress_merkle_proofs F digest hash_leaf two_to_one (map leaf_of indices) indices cps k h
         = Some (map proof_of indices).
  Proof.
    intros Hne. exists (streams 0 [] indices). split; [apply compress_spec; exact Hne|apply decompress_spec].
  Qed.
End Compression.
End Partial.
