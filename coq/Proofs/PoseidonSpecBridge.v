(* Bridge between the shared executable specification Model/PoseidonSpec.v (used by the Merkle /
   FRI / PLONK verifier models) and the C13 models: the two textbook permutations are the same
   function, and the Poseidon sponge functions coincide.  Hence every C13 theorem about
   [poseidon_fp] / Model/Sponge.v applies to [PoseidonSpec.poseidon] / [PoseidonSpec.p_*], and in
   particular the implementation-level permutation equals PoseidonSpec.poseidon. *)
From Coq Require Import ZArith List Lia Arith.
From Verif Require Import Base.Mach Base.Field Gen.FieldConsts Gen.PoseidonConsts Model.FieldGeneric Model.Fp
  Model.Poseidon Model.PoseidonImplModel Model.Sponge
  Proofs.FpField Proofs.FpFieldPrime Proofs.Poseidon Proofs.PoseidonImpl Proofs.Sponge.
From Verif Require Model.PoseidonSpec.
Import ListNotations.

Module PS := Verif.Model.PoseidonSpec.

Add Field FpFldB : (@F_field_theory Fp FpOps FpLaws).

Lemma nthFp_map_toFp T j : PS.nthFp (map toFp T) j = toFp (nth j T 0%Z).
Proof. unfold PS.nthFp. change (@fzero Fp FpOps) with (toFp 0). apply map_nth. Qed.

Lemma ps_constant_layer s r : PS.constant_layer s r = constant_layer toFp r s.
Proof.
  unfold PS.constant_layer, constant_layer. change PS.WIDTH with 12%nat. apply map_ext. intros i.
  unfold PS.rc_fp. rewrite nthFp_map_toFp. reflexivity.
Qed.

Lemma ps_mds_layer s : PS.mds_layer s = mds_layer toFp s.
Proof.
  unfold PS.mds_layer, mds_layer. change PS.WIDTH with 12%nat. apply map_ext. intros r.
  unfold PS.mds_row, mds_row_shf. change PS.WIDTH with 12%nat.
  cbn [seq map fold_right fold_left].
  unfold PS.mds_circ_fp, PS.mds_diag_fp. rewrite !nthFp_map_toFp. unfold cst, PS.nthFp, nthF. ring.
Qed.

Lemma ps_sbox x : PS.sbox x = sbox_monomial x.
Proof. reflexivity. Qed.

Lemma ps_rounds f n : forall s r0, PS.rounds f n s r0 = fold_left (fun s r => f s r) (seq r0 n) s.
Proof. induction n as [|n IH]; intros s r0; cbn [PS.rounds seq fold_left]; [reflexivity|]. apply IH. Qed.

Lemma ps_full_fold : forall l s,
  fold_left (fun s r => PS.full_round s r) l s
  = fold_left (fun s r => mds_layer toFp (sbox_layer (constant_layer toFp r s))) l s.
Proof.
  induction l as [|r l IH]; intros s0; cbn [fold_left]; [reflexivity|]. rewrite IH. f_equal.
  unfold PS.full_round. rewrite ps_mds_layer, ps_constant_layer. reflexivity.
Qed.

Lemma ps_partial_fold : forall n k s,
  fold_left (fun s r => PS.partial_round s r) (seq (4 + k) n) s
  = fold_left (fun s k => mds_layer toFp (sbox_first sbox_monomial (constant_layer toFp (4 + k) s))) (seq k n) s.
Proof.
  induction n as [|n IH]; intros k s0; cbn [seq fold_left]; [reflexivity|].
  replace (S (4 + k)) with (4 + S k)%nat by lia. rewrite IH. f_equal.
  unfold PS.partial_round. rewrite ps_mds_layer, ps_constant_layer. reflexivity.
Qed.

Lemma ps_poseidon_naive s : PS.poseidon s = poseidon_naive toFp s.
Proof.
  unfold PS.poseidon, poseidon_naive, full_rounds, partial_rounds_naive.
  change (Z.to_nat HALF_N_FULL_ROUNDS) with 4%nat. change (Z.to_nat N_PARTIAL_ROUNDS) with 22%nat.
  rewrite !ps_rounds. change (4 + 22)%nat with 26%nat.
  rewrite !ps_full_fold. f_equal. apply (ps_partial_fold 22 0).
Qed.

(* the shared specification permutation IS the C13 permutation *)
Theorem poseidonspec_eq_poseidon_fp : forall s, PS.poseidon s = poseidon_fp s.
Proof. intros s. rewrite ps_poseidon_naive. apply poseidon_naive_eq_spec. Qed.

(* ... and therefore what the implementation computes, on every u64 representation *)
Theorem poseidon_impl_eq_poseidonspec : forall s : list Z, length s = 12%nat -> Forall u64 s ->
  exists o, poseidon_impl s = Some o /\ Forall u64 o /\ map toFp o = PS.poseidon (map toFp s).
Proof.
  intros s Ls Us. destruct (poseidon_impl_fast s Us Ls) as (o & E & U & L & C).
  exists o. split; [exact E|]. split; [exact U|].
  rewrite C, poseidonspec_eq_poseidon_fp. apply poseidon_fast_eq_spec_all.
Qed.

(* ---- sponge functions *)
Section SpongeBridge.
  Variable permute : list Fp -> list Fp.
  Hypothesis Hperm : forall s, length (permute s) = 12%nat.

  Lemma ps_absorb : forall fuel st l, PS.absorb permute fuel st l = absorb_chunks permute fuel st l.
  Proof. induction fuel as [|fuel IH]; intros st l; cbn [PS.absorb absorb_chunks]; [reflexivity|].
    destruct l; [reflexivity|]. apply IH. Qed.

  Lemma ps_hash_no_pad l : PS.hash_no_pad permute l = hash_n_to_hash_no_pad permute l.
  Proof.
    unfold PS.hash_no_pad, PS.hash_n_to_m_no_pad, hash_n_to_hash_no_pad. rewrite ps_absorb.
    change (repeat (@fzero Fp FpOps) PS.WIDTH) with (@zero_state Fp FpOps).
    rewrite (absorb_chunks_fuel permute (S (length l)) (length l)) by lia. fold (absorb permute zero_state l).
    pose proof (absorb_length permute Hperm zero_state l (@zero_state_length Fp FpOps)) as Hl.
    set (st := absorb permute zero_state l) in *.
    do 13 (destruct st as [|? st]; try discriminate Hl). reflexivity.
  Qed.

  Lemma ps_two_to_one x y : PS.two_to_one permute x y = two_to_one permute x y.
  Proof.
    unfold PS.two_to_one, two_to_one, squeeze. change (PS.WIDTH - 8)%nat with 4%nat.
    change (SPONGE_WIDTH - 2 * NUM_HASH_OUT_ELTS)%nat with 4%nat.
    rewrite firstn_firstn. reflexivity.
  Qed.

  Lemma ps_hash_or_noop l : PS.hash_or_noop permute l = hash_or_noop permute l.
  Proof.
    unfold PS.hash_or_noop, hash_or_noop. rewrite ps_hash_no_pad.
    replace (Nat.leb (length l * 8) 32) with (Nat.leb (length l) 4); [reflexivity|].
    destruct (Nat.leb_spec (length l) 4); destruct (Nat.leb_spec (length l * 8) 32); try reflexivity; lia.
  Qed.
End SpongeBridge.

(* the same sponge over two pointwise-equal permutations *)
Lemma absorb_chunks_ext (p1 p2 : list Fp -> list Fp) : (forall s, p1 s = p2 s) ->
  forall fuel st l, absorb_chunks p1 fuel st l = absorb_chunks p2 fuel st l.
Proof.
  intros H. induction fuel as [|fuel IH]; intros st l; cbn [absorb_chunks]; [reflexivity|].
  destruct l; [reflexivity|]. rewrite H. apply IH.
Qed.

Lemma squeeze_loop_ext (p1 p2 : list Fp -> list Fp) : (forall s, p1 s = p2 s) ->
  forall fuel st n, squeeze_loop p1 fuel st n = squeeze_loop p2 fuel st n.
Proof.
  intros H. induction fuel as [|fuel IH]; intros st n; cbn [squeeze_loop]; [reflexivity|].
  destruct (Nat.leb n SPONGE_RATE); [reflexivity|]. rewrite H, IH. reflexivity.
Qed.

Lemma hash_n_to_hash_no_pad_ext (p1 p2 : list Fp -> list Fp) : (forall s, p1 s = p2 s) ->
  forall l, hash_n_to_hash_no_pad p1 l = hash_n_to_hash_no_pad p2 l.
Proof.
  intros H l. unfold hash_n_to_hash_no_pad, absorb.
  rewrite (absorb_chunks_ext p1 p2 H). apply squeeze_loop_ext. exact H.
Qed.

Lemma ps_poseidon_width : forall s, length (PS.poseidon s) = 12%nat.
Proof. intros s. rewrite poseidonspec_eq_poseidon_fp. apply poseidon_fp_length. Qed.

Theorem p_hash_no_pad_eq l : PS.p_hash_no_pad l = poseidon_hash_no_pad l.
Proof.
  unfold PS.p_hash_no_pad, poseidon_hash_no_pad.
  rewrite (ps_hash_no_pad PS.poseidon ps_poseidon_width).
  apply hash_n_to_hash_no_pad_ext. exact poseidonspec_eq_poseidon_fp.
Qed.

Theorem p_two_to_one_eq x y : PS.p_two_to_one x y = poseidon_two_to_one x y.
Proof.
  unfold PS.p_two_to_one, poseidon_two_to_one. rewrite ps_two_to_one.
  unfold two_to_one. rewrite poseidonspec_eq_poseidon_fp. reflexivity.
Qed.

Theorem p_hash_or_noop_eq l : PS.p_hash_or_noop l = poseidon_hash_or_noop l.
Proof.
  unfold PS.p_hash_or_noop, poseidon_hash_or_noop.
  rewrite (ps_hash_or_noop PS.poseidon ps_poseidon_width).
  unfold hash_or_noop. destruct (Nat.leb (length l * 8) 32); [reflexivity|].
  apply hash_n_to_hash_no_pad_ext. exact poseidonspec_eq_poseidon_fp.
Qed.

(* ---- hash_pad: the closed-form padding of PoseidonSpec is the pad10*1 loop of config.rs *)
Lemma pad_zeros_spec : forall z fuel (l : list Fp), (z <= fuel)%nat ->
  ((length l + 1 + z) mod 8 = 0)%nat ->
  (forall j, (j < z)%nat -> ((length l + 1 + j) mod 8 <> 0)%nat) ->
  pad_zeros fuel l = l ++ repeat fzero z.
Proof.
  induction z as [|z IH]; intros fuel l Hf H0 Hmin.
  - cbn [repeat]. rewrite app_nil_r. destruct fuel as [|fuel]; [reflexivity|]. cbn [pad_zeros].
    unfold SPONGE_RATE. rewrite Nat.add_0_r in H0. rewrite H0. reflexivity.
  - destruct fuel as [|fuel]; [lia|]. cbn [pad_zeros]. unfold SPONGE_RATE.
    pose proof (Hmin 0%nat ltac:(lia)) as Hm0. rewrite Nat.add_0_r in Hm0.
    destruct (Nat.eqb_spec ((length l + 1) mod 8) 0); [contradiction|].
    rewrite IH.
    + rewrite <- app_assoc. reflexivity.
    + lia.
    + rewrite app_length. cbn [length]. replace (length l + 1 + 1 + z)%nat with (length l + 1 + S z)%nat by lia. exact H0.
    + intros j Hj. rewrite app_length. cbn [length]. replace (length l + 1 + 1 + j)%nat with (length l + 1 + S j)%nat by lia.
      apply Hmin. lia.
Qed.

Lemma pad_arith n : let m := (S n mod 8)%nat in let z := ((8 - m) mod 8)%nat in
  (z <= 8)%nat /\ ((n + 1 + z) mod 8 = 0)%nat /\ (forall j, (j < z)%nat -> ((n + 1 + j) mod 8 <> 0)%nat).
Proof.
  cbn zeta. pose proof (Nat.mod_upper_bound (S n) 8 ltac:(lia)) as Hm.
  pose proof (Nat.div_mod (S n) 8 ltac:(lia)) as Hd.
  set (m := (S n mod 8)%nat) in *. set (q := (S n / 8)%nat) in *.
  destruct (Nat.eq_dec m 0) as [E|E].
  - rewrite E. change ((8 - 0) mod 8)%nat with 0%nat. split; [lia|]. split; [|intros j Hj; lia].
    replace (n + 1 + 0)%nat with (S n) by lia. exact E.
  - rewrite (Nat.mod_small (8 - m) 8) by lia. split; [lia|]. split.
    + replace (n + 1 + (8 - m))%nat with ((q + 1) * 8)%nat by lia. apply Nat.mod_mul. lia.
    + intros j Hj. replace (n + 1 + j)%nat with ((m + j) + q * 8)%nat by lia.
      rewrite Nat.mod_add by lia. rewrite Nat.mod_small by lia. lia.
Qed.

Lemma ps_pad (input : list Fp) :
  let padded := input ++ [fone] in
  padded ++ repeat fzero (Nat.modulo (PS.RATE - Nat.modulo (S (length padded)) PS.RATE) PS.RATE) ++ [fone]
  = pad10star1 input.
Proof.
  cbn zeta. unfold pad10star1. change PS.RATE with 8%nat. unfold SPONGE_RATE.
  set (l := input ++ [fone]). rewrite app_assoc. f_equal. symmetry.
  destruct (pad_arith (length l)) as (H1 & H2 & H3). apply pad_zeros_spec; assumption.
Qed.

Lemma ps_hash_pad permute (Hp : forall s, length (permute s) = 12%nat) l :
  PS.hash_pad permute l = hash_pad permute l.
Proof. unfold PS.hash_pad, hash_pad. rewrite (ps_hash_no_pad permute Hp). f_equal. apply ps_pad. Qed.

Theorem p_hash_pad_eq l : PS.p_hash_pad l = poseidon_hash_pad l.
Proof.
  unfold PS.p_hash_pad, poseidon_hash_pad. rewrite (ps_hash_pad PS.poseidon ps_poseidon_width).
  unfold hash_pad. apply hash_n_to_hash_no_pad_ext. exact poseidonspec_eq_poseidon_fp.
Qed.
