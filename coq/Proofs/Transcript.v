(* C04: facts about the Fiat-Shamir transcript of the verifier model (Model/Plonk.v):
   - the challenger never serves a stale output (outputs exist only when no input is pending);
   - every challenge is a function of the operations before it (later messages are irrelevant);
   - the encoding of the statement and prover messages into observed segments is injective for
     proofs of the same shape. *)
From Coq Require Import ZArith List Bool Lia.
From Verif Require Import Base.Field Model.Fp Model.Fp2 Model.PoseidonSpec Model.Fri Model.Plonk.
Import ListNotations.
Local Open Scope nat_scope.

(* the permutation is never unfolded in these proofs *)
Local Opaque poseidon get_n_challenges.

(* ---------------------------------------------------------------- no stale output *)
Definition ch_inv (c : challenger) : Prop := output_buffer c = [] \/ input_buffer c = [].

Lemma duplexing_inv c : ch_inv (duplexing c).
Proof. right. unfold duplexing. reflexivity. Qed.

Lemma observe_element_inv c e : ch_inv (observe_element c e).
Proof.
  unfold observe_element. cbn [input_buffer].
  destruct (Nat.eqb (length (input_buffer c ++ [e])) RATE).
  - apply duplexing_inv.
  - left. cbn [output_buffer]. reflexivity.
Qed.

Lemma observe_elements_inv es : forall c, ch_inv c -> ch_inv (observe_elements c es).
Proof.
  unfold observe_elements. induction es as [|e t IH]; intros c H; cbn [fold_left]; [exact H|].
  apply IH. apply observe_element_inv.
Qed.

(* the challenge returned is an element of the rate part of a sponge state computed with no
   input pending: it reflects every element observed so far *)
Lemma get_challenge_fresh c x c' : ch_inv c -> get_challenge c = (x, c') ->
  input_buffer c' = [] /\ ch_inv c'.
Proof.
  intros Hinv E. unfold get_challenge in E.
  destruct (negb (Nat.eqb (length (input_buffer c)) 0) || Nat.eqb (length (output_buffer c)) 0) eqn:B.
  - inversion E; subst. unfold duplexing. cbn [input_buffer output_buffer sponge_state].
    split; [reflexivity | right; reflexivity].
  - inversion E; subst. cbn [input_buffer output_buffer sponge_state]. apply orb_false_iff in B. destruct B as [B1 B2].
    apply negb_false_iff in B1. apply Nat.eqb_eq in B1.
    destruct (input_buffer c); [|discriminate]. split; [reflexivity | right; reflexivity].
Qed.

(* ---------------------------------------------------------------- prefix determinism *)
Fixpoint state_after (c : challenger) (ops : list chop) : challenger :=
  match ops with
  | [] => c
  | Observe xs :: t => state_after (observe_elements c xs) t
  | Squeeze n :: t => state_after (snd (get_n_challenges c n)) t
  end.

Lemma run_ops_app a : forall c b,
  run_ops c (a ++ b) = run_ops c a ++ run_ops (state_after c a) b.
Proof.
  induction a as [|o t IH]; intros c b; cbn [app run_ops state_after]; [reflexivity|].
  destruct o as [xs|n]; cbn [app run_ops state_after].
  - apply IH.
  - destruct (get_n_challenges c n) as [out c'] eqn:E. cbn [snd app]. f_equal. apply IH.
Qed.

(* the challenges drawn during a prefix of the transcript do not depend on what follows *)
Theorem challenges_ignore_later_messages c a b1 b2 :
  firstn (length (run_ops c a)) (run_ops c (a ++ b1)) = firstn (length (run_ops c a)) (run_ops c (a ++ b2)).
Proof.
  rewrite !run_ops_app. rewrite !firstn_app, !Nat.sub_diag. cbn [firstn]. rewrite !firstn_all. reflexivity.
Qed.

(* ---------------------------------------------------------------- injective encoding *)
Fixpoint observations (ops : list chop) : list (list Fp) :=
  match ops with
  | [] => []
  | Observe xs :: t => xs :: observations t
  | Squeeze _ :: t => observations t
  end.

Lemma observations_app a b : observations (a ++ b) = observations a ++ observations b.
Proof. induction a as [|[xs|n] t IH]; simpl; [reflexivity | f_equal; exact IH | exact IH]. Qed.

Lemma app_eq_length {A} : forall (x y t u : list A), length x = length y -> x ++ t = y ++ u -> x = y /\ t = u.
Proof.
  induction x as [|a x IH]; intros [|b y] t u Hl E; simpl in *; try discriminate; [auto|].
  inversion E; subst. destruct (IH y t u) as [-> ->]; auto.
Qed.

Lemma concat_width_injective {A} (w : nat) : forall (l1 l2 : list (list A)),
  Forall (fun x => length x = w) l1 -> Forall (fun x => length x = w) l2 ->
  length l1 = length l2 -> concat l1 = concat l2 -> l1 = l2.
Proof.
  induction l1 as [|x t IH]; intros [|y u] H1 H2 Hl E; simpl in *; try discriminate; [reflexivity|].
  inversion H1; subst. inversion H2; subst.
  assert (Hxy : x = y /\ concat t = concat u).
  { apply app_eq_length; [congruence | exact E]. }
  destruct Hxy as [-> Ht]. f_equal. apply IH; auto.
Qed.

Lemma flatten2_injective : forall (l1 l2 : list Fp2), flatten2 l1 = flatten2 l2 -> l1 = l2.
Proof.
  induction l1 as [|[a b] t IH]; intros [|[c d] u] E; simpl in *; try discriminate; [reflexivity|].
  inversion E; subst. f_equal. apply IH. assumption.
Qed.

Lemma Forall2_len {A B} (R : A -> B -> Prop) l1 l2 : Forall2 R l1 l2 -> length l1 = length l2.
Proof. induction 1; simpl; congruence. Qed.

Lemma observations_flat_map_caps caps :
  observations (flat_map (fun cap => [Observe (concat cap); Squeeze 2]) caps) = map (@concat Fp) caps.
Proof. induction caps as [|c t IH]; cbn [flat_map app observations map]; [reflexivity | f_equal; exact IH]. Qed.

Lemma observations_map_observe (l : list (list Fp2)) :
  observations (map (fun b => Observe (flatten2 b)) l) = map flatten2 l.
Proof. induction l as [|b t IH]; cbn [map observations]; [reflexivity | f_equal; exact IH]. Qed.

Lemma map_concat_injective : forall (l1 l2 : list (list digest)),
  Forall (Forall (fun d => length d = 4)) l1 -> Forall (Forall (fun d => length d = 4)) l2 ->
  Forall2 (fun a b => length a = length b) l1 l2 ->
  map (@concat Fp) l1 = map (@concat Fp) l2 -> l1 = l2.
Proof.
  induction l1 as [|x t IH]; intros l2 H1 H2 HF E; inversion HF; subst; [reflexivity|].
  cbn [map] in E. inversion E. inversion H1; subst. inversion H2; subst.
  f_equal; [eapply concat_width_injective; eauto | apply IH; auto].
Qed.

Lemma map_flatten2_injective : forall (l1 l2 : list (list Fp2)), map flatten2 l1 = map flatten2 l2 -> l1 = l2.
Proof.
  induction l1 as [|x t IH]; intros [|y u] E; cbn [map] in E; try discriminate; [reflexivity|].
  inversion E. f_equal; [apply flatten2_injective; assumption | apply IH; assumption].
Qed.

(* well-formedness of the digests of one (verifier data, proof, public-input hash) triple *)
Definition digests_ok (vo : verifier_only) (pr : proof) (h : digest) : Prop :=
  length (circuit_digest vo) = 4 /\ length h = 4 /\
  Forall (fun d => length d = 4) (wires_cap pr) /\ Forall (fun d => length d = 4) (zs_pp_cap pr) /\
  Forall (fun d => length d = 4) (quotient_cap pr) /\
  Forall (Forall (fun d => length d = 4)) (fp_caps (opening_proof pr)).

(* two proofs have the same cap shapes (what shape validation pins for accepted proofs) *)
Definition same_cap_shape (p1 p2 : proof) : Prop :=
  length (wires_cap p1) = length (wires_cap p2) /\ length (zs_pp_cap p1) = length (zs_pp_cap p2) /\
  length (quotient_cap p1) = length (quotient_cap p2) /\
  Forall2 (fun a b => length a = length b) (fp_caps (opening_proof p1)) (fp_caps (opening_proof p2)).

Theorem plonk_transcript_injective cd vo1 pr1 h1 vo2 pr2 h2 :
  digests_ok vo1 pr1 h1 -> digests_ok vo2 pr2 h2 -> same_cap_shape pr1 pr2 ->
  observations (plonk_ops cd vo1 pr1 h1) = observations (plonk_ops cd vo2 pr2 h2) ->
  circuit_digest vo1 = circuit_digest vo2 /\ h1 = h2 /\
  wires_cap pr1 = wires_cap pr2 /\ zs_pp_cap pr1 = zs_pp_cap pr2 /\ quotient_cap pr1 = quotient_cap pr2 /\
  to_fri_openings (openings pr1) = to_fri_openings (openings pr2) /\
  fp_caps (opening_proof pr1) = fp_caps (opening_proof pr2) /\
  fp_final (opening_proof pr1) = fp_final (opening_proof pr2) /\
  fp_pow_witness (opening_proof pr1) = fp_pow_witness (opening_proof pr2).
Proof.
  intros (D1 & Hh1 & W1 & Z1 & Q1 & C1) (D2 & Hh2 & W2 & Z2 & Q2 & C2) (LW & LZ & LQ & LC) E.
  unfold plonk_ops, fri_ops in E.
  repeat rewrite observations_app in E.
  rewrite !observations_flat_map_caps, !observations_map_observe in E.
  assert (Hsq : forall (b : bool) (n : nat), observations (if b then [Squeeze n] else []) = []) by (intros [|] n; reflexivity).
  rewrite !Hsq in E.
  cbn [observations app] in E.
  unfold to_fri_openings in E. cbn [map app] in E.
  injection E as Edg Eh Ew Ez Eq Eo0 Eo1 Erest.
  assert (Hlen : length (map (@concat Fp) (fp_caps (opening_proof pr1)))
                 = length (map (@concat Fp) (fp_caps (opening_proof pr2)))).
  { rewrite !map_length. eapply Forall2_len; eauto. }
  destruct (app_eq_length _ _ _ _ Hlen Erest) as [Ecaps Etail].
  injection Etail as Efin Epow.
  split; [exact Edg|]. split; [exact Eh|].
  split; [eapply concat_width_injective; eauto|].
  split; [eapply concat_width_injective; eauto|].
  split; [eapply concat_width_injective; eauto|].
  split.
  { unfold to_fri_openings. apply flatten2_injective in Eo0. apply flatten2_injective in Eo1.
    rewrite Eo0, Eo1. reflexivity. }
  split; [apply map_concat_injective; auto|].
  split; [apply flatten2_injective; exact Efin | exact Epow].
Qed.
