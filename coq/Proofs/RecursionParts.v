(* Lemmas about the component models of Model/RecursionParts.v (C06, C11, C20). *)
From Coq Require Import ZArith List Lia Bool Ring.
From Verif Require Import Base.Field Model.Fp Proofs.FpField Model.RecursionParts.
Import ListNotations.
Local Open Scope nat_scope.

(* ========================================================================================== *)
(* C20: select *)
Section SelectProofs.
  Context {R : Type} (rO rI : R) (radd rmul rsub : R -> R -> R) (ropp : R -> R).
  Context (Rth : ring_theory rO rI radd rmul rsub ropp eq).
  Add Ring Rring : Rth.

  Notation sel := (sel_arith rmul rsub).

  Lemma sel_arith_one x y : sel rI x y = x.
  Proof. unfold sel_arith. ring. Qed.

  Lemma sel_arith_zero x y : sel rO x y = y.
  Proof. unfold sel_arith. ring. Qed.

  (* boolean condition embedded in the ring *)
  Definition of_bool (b : bool) : R := if b then rI else rO.

  Lemma sel_arith_bool b x y : sel (of_bool b) x y = if b then x else y.
  Proof. destruct b; [apply sel_arith_one | apply sel_arith_zero]. Qed.

  (* the other form used in the documentation: b*(x - y) + y *)
  Lemma sel_arith_alt b x y : sel b x y = radd (rmul b (rsub x y)) y.
  Proof. unfold sel_arith. ring. Qed.

  Lemma select_vec_bool b v0 v1 : length v0 = length v1 ->
    select_vec rmul rsub (of_bool b) v0 v1 = Some (if b then v0 else v1).
  Proof.
    revert v1. induction v0 as [|x v0 IH]; intros [|y v1] L; simpl in L; try discriminate.
    - destruct b; reflexivity.
    - injection L as L. cbn [select_vec]. rewrite (IH v1 L), sel_arith_bool. destruct b; reflexivity.
  Qed.

  Lemma select_vec_len_mismatch b v0 v1 : length v0 <> length v1 -> select_vec rmul rsub b v0 v1 = None.
  Proof.
    revert v1. induction v0 as [|x v0 IH]; intros [|y v1] L; simpl in *; try reflexivity; try congruence.
    rewrite IH; auto.
  Qed.

  Lemma select_struct_bool b s0 s1 : same_shape s0 s1 ->
    select_struct rmul rsub (of_bool b) s0 s1 = Some (if b then s0 else s1).
  Proof.
    unfold same_shape. revert s1. induction s0 as [|v0 s0 IH]; intros [|v1 s1] L; simpl in L; try discriminate.
    - destruct b; reflexivity.
    - injection L as L0 L. cbn [select_struct]. rewrite (select_vec_bool b v0 v1 L0), (IH s1 L).
      destruct b; reflexivity.
  Qed.

  Lemma select_struct_shape_mismatch b s0 s1 : ~ same_shape s0 s1 -> select_struct rmul rsub b s0 s1 = None.
  Proof.
    unfold same_shape. revert s1. induction s0 as [|v0 s0 IH]; intros [|v1 s1] L; simpl in *; try reflexivity; try congruence.
    destruct (Nat.eq_dec (length v0) (length v1)) as [E|E].
    - rewrite IH; [destruct (select_vec _ _ _ _ _); reflexivity|]. intros E2. apply L. congruence.
    - rewrite select_vec_len_mismatch; auto.
  Qed.

  (* select, then one verification: the verdict is that of the selected pair, whatever the other is *)
  Lemma select_then_verify (T : Type) (V : list (list R) -> list (list R) -> T) b p0 p1 vd0 vd1 :
    same_shape p0 p1 -> same_shape vd0 vd1 ->
    exists sp svd,
      select_struct rmul rsub (of_bool b) p0 p1 = Some sp /\
      select_struct rmul rsub (of_bool b) vd0 vd1 = Some svd /\
      V sp svd = if b then V p0 vd0 else V p1 vd1.
  Proof.
    intros Sp Sv. exists (if b then p0 else p1), (if b then vd0 else vd1).
    repeat split; try (apply select_struct_bool; assumption). destruct b; reflexivity.
  Qed.
End SelectProofs.

(* ========================================================================================== *)
(* C20: verifier data slice of the public inputs *)
Section CyclicProofs.
  Context {A : Type} (d : A).

  Lemma nth_skipn_add (n k : nat) (l : list A) : nth (n + k) l d = nth k (skipn n l) d.
  Proof.
    revert l. induction n as [|n IH]; intros l; [reflexivity|].
    destruct l as [|a l]; simpl; [destruct k; reflexivity | apply IH].
  Qed.

  Lemma hash_at_skipn s n : hash_at d s n = firstn 4 (skipn n s) \/ length (skipn n s) < 4.
  Proof.
    unfold hash_at. cbn [seq map]. rewrite !nth_skipn_add.
    destruct (skipn n s) as [|a [|b [|c [|e r]]]]; simpl; try (right; lia). left. reflexivity.
  Qed.

  (* reading 4-element groups at offsets 0,4,8,.. of a list of length 4*c gives the list back *)
  Lemma groups_concat c : forall u, length u = 4 * c ->
    concat (map (fun i => hash_at d u (4 * i)) (seq 0 c)) = u /\
    Forall (fun h => length h = 4) (map (fun i => hash_at d u (4 * i)) (seq 0 c)).
  Proof.
    induction c as [|c IH]; intros u L.
    - destruct u; [split; [reflexivity|constructor] | simpl in L; lia].
    - destruct u as [|a [|b [|c' [|e u']]]]; simpl in L; try lia.
      assert (L' : length u' = 4 * c) by lia.
      destruct (IH u' L') as [IH1 IH2].
      change (seq 0 (S c)) with (0 :: seq 1 c). rewrite <- seq_shift. cbn [map concat]. rewrite map_map.
      assert (E : map (fun x => hash_at d (a :: b :: c' :: e :: u') (4 * S x)) (seq 0 c)
                  = map (fun i => hash_at d u' (4 * i)) (seq 0 c)).
      { apply map_ext. intros i. unfold hash_at. apply map_ext. intros j.
        replace (4 * S i + j) with (S (S (S (S (4 * i + j))))) by lia. reflexivity. }
      rewrite E. split.
      + unfold hash_at at 1. cbn [seq map nth Nat.add Nat.mul]. simpl. f_equal. f_equal. f_equal. f_equal. exact IH1.
      + constructor; [reflexivity | exact IH2].
  Qed.

  Lemma concat_length_4 (cap : list (list A)) : Forall (fun h => length h = 4) cap -> length (concat cap) = 4 * length cap.
  Proof. induction 1; simpl; [reflexivity|]. rewrite app_length. lia. Qed.

  (* a cap is determined by its concatenation when all hashes have 4 elements *)
  Lemma concat_inj_4 (c1 c2 : list (list A)) :
    Forall (fun h => length h = 4) c1 -> Forall (fun h => length h = 4) c2 -> concat c1 = concat c2 -> c1 = c2.
  Proof.
    intros F1. revert c2. induction F1 as [|h1 c1 L1 F1 IH]; intros c2 F2 E.
    - destruct F2 as [|h2 c2 L2 F2]; [reflexivity|]. simpl in E.
      destruct h2; simpl in *; [lia | discriminate].
    - destruct F2 as [|h2 c2 L2 F2]; simpl in E.
      + destruct h1; simpl in *; [lia | discriminate].
      + assert (h1 = h2 /\ concat c1 = concat c2) as [-> E2].
        { destruct h1 as [|a1 [|a2 [|a3 [|a4 [|]]]]]; simpl in L1; try lia.
          destruct h2 as [|b1 [|b2 [|b3 [|b4 [|]]]]]; simpl in L2; try lia.
          simpl in E. injection E as -> -> -> -> E. auto. }
        f_equal. apply IH; auto.
  Qed.

  Lemma from_slice_groups cap_len s : 4 + 4 * cap_len <= length s ->
    map (fun i => hash_at d s (length s - 4 * (cap_len - i))) (seq 0 cap_len)
    = map (fun i => hash_at d (skipn (length s - 4 * cap_len) s) (4 * i)) (seq 0 cap_len).
  Proof.
    intros L. apply map_ext_in. intros i Hi. apply in_seq in Hi.
    unfold hash_at. apply map_ext. intros j.
    rewrite <- nth_skipn_add. f_equal. lia.
  Qed.

  Lemma skipn_skipn' (n m : nat) (l : list A) : skipn n (skipn m l) = skipn (m + n) l.
  Proof.
    revert l. induction m as [|m IH]; intros l; [reflexivity|].
    destruct l as [|a l]; simpl; [apply skipn_nil | apply IH].
  Qed.

  Lemma some_pair_inj {X Y} (a c : X) (b e : Y) : Some (a, b) = Some (c, e) -> a = c /\ b = e.
  Proof. intros E. inversion E. auto. Qed.

  (* the decoder returns (cap, digest) exactly when the public inputs END with digest ++ concat cap *)
  Lemma from_slice_spec cap_len pis cap digest : wf_vd cap_len cap digest ->
    (from_slice d cap_len pis = Some (cap, digest) <-> exists pre, pis = pre ++ vd_pis cap digest).
  Proof.
    intros (Lc & Fc & Ld). unfold from_slice, vd_pis. cbv zeta. split.
    - destruct (Nat.ltb_spec (length pis) (4 + 4 * cap_len)) as [|L]; [discriminate|].
      intros E. apply some_pair_inj in E as [Ec Ed].
      rewrite (from_slice_groups cap_len pis L) in Ec.
      set (a := length pis - 4 - 4 * cap_len) in *.
      exists (firstn a pis).
      assert (Lt : length (skipn (length pis - 4 * cap_len) pis) = 4 * cap_len) by (rewrite skipn_length; lia).
      destruct (groups_concat cap_len _ Lt) as [G1 _]. rewrite Ec in G1.
      rewrite <- (firstn_skipn a pis) at 1. f_equal.
      rewrite <- Ed, G1.
      replace (length pis - 4 * cap_len) with (4 + a) by (unfold a; lia).
      rewrite <- (firstn_skipn 4 (skipn a pis)) at 1. f_equal.
      rewrite skipn_skipn'. f_equal. lia.
    - intros [pre ->]. rewrite !app_length, (concat_length_4 cap Fc), Lc, Ld.
      destruct (Nat.ltb_spec (length pre + (4 + 4 * cap_len)) (4 + 4 * cap_len)) as [|L]; [lia|].
      assert (L2 : 4 + 4 * cap_len <= length (pre ++ digest ++ concat cap))
        by (rewrite !app_length, (concat_length_4 cap Fc), Lc, Ld; lia).
      pose proof (from_slice_groups cap_len (pre ++ digest ++ concat cap) L2) as G.
      rewrite !app_length, (concat_length_4 cap Fc), Lc, Ld in G. rewrite G. clear G.
      replace (length pre + (4 + 4 * cap_len) - 4 * cap_len) with (length pre + 4) by lia.
      replace (length pre + (4 + 4 * cap_len) - 4 - 4 * cap_len) with (length pre) by lia.
      assert (S1 : skipn (length pre + 4) (pre ++ digest ++ concat cap) = concat cap).
      { rewrite app_assoc, skipn_app.
        replace (length pre + 4 - length (pre ++ digest)) with 0 by (rewrite app_length; lia).
        rewrite skipn_all2 by (rewrite app_length; lia). reflexivity. }
      assert (S2 : skipn (length pre) (pre ++ digest ++ concat cap) = digest ++ concat cap).
      { rewrite skipn_app, Nat.sub_diag, skipn_all2 by lia. reflexivity. }
      rewrite S1, S2.
      assert (Lcc : length (concat cap) = 4 * cap_len) by (rewrite (concat_length_4 cap Fc); lia).
      destruct (groups_concat cap_len (concat cap) Lcc) as [G1 G2].
      f_equal. f_equal.
      + apply concat_inj_4; auto.
      + rewrite firstn_app, <- Ld, firstn_all, Nat.sub_diag. simpl. apply app_nil_r.
  Qed.

  (* layout produced by add_verifier_data_public_inputs is read back *)
  Lemma vd_public_inputs_layout cap_len pre cap digest : wf_vd cap_len cap digest ->
    from_slice d cap_len (pre ++ vd_pis cap digest) = Some (cap, digest).
  Proof. intros W. apply (from_slice_spec cap_len _ cap digest W). exists pre. reflexivity. Qed.

  Context (eqb : A -> A -> bool) (eqb_spec : forall x y, eqb x y = true <-> x = y).

  Lemma list_eqb_spec a b : list_eqb eqb a b = true <-> a = b.
  Proof.
    revert b. induction a as [|x a IH]; intros [|y b]; simpl; split; intros E; try reflexivity; try discriminate.
    - apply andb_true_iff in E as [E1 E2]. apply eqb_spec in E1. apply IH in E2. congruence.
    - injection E as -> ->. apply andb_true_iff. split; [apply eqb_spec; reflexivity | apply IH; reflexivity].
  Qed.

  Lemma cap_eqb_spec a b : cap_eqb eqb a b = true <-> a = b.
  Proof.
    revert b. induction a as [|x a IH]; intros [|y b]; simpl; split; intros E; try reflexivity; try discriminate.
    - apply andb_true_iff in E as [E1 E2]. apply list_eqb_spec in E1. apply IH in E2. congruence.
    - injection E as -> ->. apply andb_true_iff. split; [apply list_eqb_spec; reflexivity | apply IH; reflexivity].
  Qed.

  (* check_cyclic_proof_verifier_data accepts exactly the public inputs ending with the verifier data *)
  Lemma check_cyclic_spec cap_len pis cap digest : wf_vd cap_len cap digest ->
    (check_cyclic d eqb cap_len pis cap digest = true <-> exists pre, pis = pre ++ vd_pis cap digest).
  Proof.
    intros W. rewrite <- (from_slice_spec cap_len pis cap digest W). unfold check_cyclic.
    destruct (from_slice d cap_len pis) as [[c dg]|]; split; intros E; try discriminate.
    - apply andb_true_iff in E as [E1 E2]. apply cap_eqb_spec in E1. apply list_eqb_spec in E2. congruence.
    - injection E as -> ->. apply andb_true_iff. split; [apply cap_eqb_spec | apply list_eqb_spec]; reflexivity.
  Qed.

  (* every single-element alteration inside the verifier-data slice is rejected *)
  Lemma check_cyclic_rejects_altered cap_len pre cap digest pis' i : wf_vd cap_len cap digest ->
    length pis' = length (pre ++ vd_pis cap digest) ->
    length pre <= i ->
    nth i pis' d <> nth i (pre ++ vd_pis cap digest) d ->
    check_cyclic d eqb cap_len pis' cap digest = false.
  Proof.
    intros W L Hi Hne. destruct (check_cyclic d eqb cap_len pis' cap digest) eqn:E; [|reflexivity].
    apply (check_cyclic_spec cap_len pis' cap digest W) in E as [pre' E]. exfalso. apply Hne.
    subst pis'. rewrite !app_length in L. assert (Lp : length pre' = length pre) by lia.
    rewrite !app_nth2 by lia. rewrite Lp. reflexivity.
  Qed.
End CyclicProofs.

(* ========================================================================================== *)
(* C06: bit decompositions, low bits, proof of work *)
Section BitsProofs.
  Local Open Scope Z_scope.

  Lemma P_val : P = 2 ^ 64 - 2 ^ 32 + 1.
  Proof. reflexivity. Qed.

  Lemma le_sum_range bits : is_bits bits -> 0 <= le_sum bits < 2 ^ Z.of_nat (length bits).
  Proof.
    induction 1 as [|b r Hb Hr IH].
    - simpl. lia.
    - cbn [le_sum length]. rewrite Nat2Z.inj_succ, Z.pow_succ_r by lia. destruct Hb; lia.
  Qed.

  Lemma to_bits_spec n : forall y, 0 <= y < 2 ^ Z.of_nat n ->
    length (to_bits n y) = n /\ is_bits (to_bits n y) /\ le_sum (to_bits n y) = y.
  Proof.
    induction n as [|n IH]; intros y Hy.
    - change (2 ^ Z.of_nat 0) with 1 in Hy. cbn [to_bits length le_sum]. repeat split; [constructor | lia].
    - rewrite Nat2Z.inj_succ, Z.pow_succ_r in Hy by lia. cbn [to_bits length le_sum].
      destruct (IH (y / 2)) as (L & B & S).
      { split; [apply Z.div_pos; lia | apply Z.div_lt_upper_bound; lia]. }
      split; [f_equal; exact L|]. split.
      + constructor; [pose proof (Z.mod_pos_bound y 2); lia | exact B].
      + rewrite S. pose proof (Z.div_mod y 2). lia.
  Qed.

  Lemma le_sum_inj a : forall b, is_bits a -> is_bits b -> length a = length b -> le_sum a = le_sum b -> a = b.
  Proof.
    induction a as [|x a IH]; intros [|y b] Ha Hb L E; simpl in L; try discriminate; [reflexivity|].
    inversion Ha as [|? ? Hx Ha']; inversion Hb as [|? ? Hy Hb']; subst. cbn [le_sum] in E.
    assert (x = y /\ le_sum a = le_sum b) as [-> E'] by (destruct Hx, Hy; lia).
    f_equal. apply IH; auto.
  Qed.

  Lemma le_sum_firstn k : forall bits, is_bits bits ->
    le_sum (firstn k bits) = le_sum bits mod 2 ^ Z.of_nat k.
  Proof.
    induction k as [|k IH]; intros bits B.
    - cbn [firstn le_sum]. change (2 ^ Z.of_nat 0) with 1. rewrite Z.mod_1_r. reflexivity.
    - destruct bits as [|b r].
      + cbn [firstn le_sum]. rewrite Z.mod_0_l; [reflexivity|]. apply Z.pow_nonzero; lia.
      + inversion B as [|? ? Hb Br]; subst. cbn [firstn le_sum]. rewrite (IH r Br).
        rewrite Nat2Z.inj_succ, Z.pow_succ_r by lia.
        set (m := 2 ^ Z.of_nat k). assert (Hm : 0 < m) by (apply Z.pow_pos_nonneg; lia).
        set (s := le_sum r).
        apply Z.mod_unique_pos with (q := s / m).
        * pose proof (Z.mod_pos_bound s m Hm). destruct Hb; lia.
        * pose proof (Z.div_mod s m). lia.
  Qed.

  Lemma range64 bits : length bits = 64%nat -> is_bits bits -> 0 <= le_sum bits < 18446744073709551616.
  Proof. intros L B. pose proof (le_sum_range bits B) as R. rewrite L in R. exact R. Qed.

  (* the 64-bit decompositions of a canonical x: x itself, and x + P when that still fits *)
  Lemma split64_iff x bits : 0 <= x < P -> length bits = 64%nat -> is_bits bits ->
    (le_sum bits mod P = x <-> le_sum bits = x \/ (x < 2 ^ 32 - 1 /\ le_sum bits = x + P)).
  Proof.
    intros Hx L B. pose proof (range64 bits L B) as R.
    change (2 ^ 32) with 4294967296. unfold P, Gen.FieldConsts.ORDER in *.
    split.
    - intros E. Z.div_mod_to_equations. lia.
    - intros [E | [Hs E]]; rewrite E; Z.div_mod_to_equations; lia.
  Qed.

  Lemma split_le_ok_canonical x : 0 <= x < P -> split_le_ok x 64 (to_bits 64 x).
  Proof.
    intros Hx. destruct (to_bits_spec 64 x) as (L & B & S).
    { unfold P, Gen.FieldConsts.ORDER in Hx. change (2 ^ Z.of_nat 64) with 18446744073709551616. lia. }
    repeat split; auto. rewrite S. apply Z.mod_small. exact Hx.
  Qed.

  Lemma split_le_ok_alternative x : 0 <= x < 2 ^ 32 - 1 -> split_le_ok x 64 (to_bits 64 (x + P)).
  Proof.
    intros Hx. change (2 ^ 32) with 4294967296 in Hx. destruct (to_bits_spec 64 (x + P)) as (L & B & S).
    { unfold P, Gen.FieldConsts.ORDER. change (2 ^ Z.of_nat 64) with 18446744073709551616. lia. }
    repeat split; auto. rewrite S. unfold P, Gen.FieldConsts.ORDER. Z.div_mod_to_equations. lia.
  Qed.

  (* two different advice vectors satisfy split_le(x, 64) exactly for x < 2^32 - 1 = 2^64 - P *)
  Lemma two_decompositions_iff x : 0 <= x < P ->
    ((exists b1 b2, b1 <> b2 /\ split_le_ok x 64 b1 /\ split_le_ok x 64 b2) <-> x < 2 ^ 32 - 1).
  Proof.
    intros Hx. split.
    - intros (b1 & b2 & Hne & (L1 & B1 & E1) & (L2 & B2 & E2)).
      destruct (Z_lt_ge_dec x (2 ^ 32 - 1)) as [|Hge]; [assumption|]. exfalso. apply Hne.
      apply (split64_iff x b1 Hx L1 B1) in E1. apply (split64_iff x b2 Hx L2 B2) in E2.
      apply le_sum_inj; auto; [congruence|]. destruct E1 as [E1|[? ?]], E2 as [E2|[? ?]]; lia.
    - intros Hlt. exists (to_bits 64 x), (to_bits 64 (x + P)). split; [|split].
      + intros E. apply (f_equal le_sum) in E.
        destruct (to_bits_spec 64 x) as (_ & _ & S1).
        { unfold P, Gen.FieldConsts.ORDER in Hx. change (2 ^ Z.of_nat 64) with 18446744073709551616. lia. }
        destruct (to_bits_spec 64 (x + P)) as (_ & _ & S2).
        { change (2 ^ 32) with 4294967296 in Hlt. unfold P, Gen.FieldConsts.ORDER.
          change (2 ^ Z.of_nat 64) with 18446744073709551616. lia. }
        rewrite S1, S2 in E. unfold P, Gen.FieldConsts.ORDER in E. lia.
      + apply split_le_ok_canonical; assumption.
      + apply split_le_ok_alternative; lia.
  Qed.

  (* low_bits(x, k, 64): the value of the kept bits *)
  Lemma low_bits_eq_mod x bits k : 0 <= x < P -> split_le_ok x 64 bits ->
    le_sum (low_bits_of k bits) = x mod 2 ^ Z.of_nat k \/
    (x < 2 ^ 32 - 1 /\ le_sum (low_bits_of k bits) = (x + P) mod 2 ^ Z.of_nat k).
  Proof.
    intros Hx (L & B & E). unfold low_bits_of. rewrite (le_sum_firstn k bits B).
    apply (split64_iff x bits Hx L B) in E. destruct E as [->|[Hs ->]]; [left|right]; auto.
  Qed.

  Lemma low_bits_eq_mod_unique x bits k : 2 ^ 32 - 1 <= x < P -> split_le_ok x 64 bits ->
    le_sum (low_bits_of k bits) = x mod 2 ^ Z.of_nat k.
  Proof.
    intros Hx S. destruct (low_bits_eq_mod x bits k) as [E|[Hs _]]; auto; lia.
  Qed.

  (* the alternative decomposition yields a DIFFERENT index whenever at least one bit is kept *)
  Lemma alt_low_bits_differ x k : (1 <= k)%nat -> (x + P) mod 2 ^ Z.of_nat k <> x mod 2 ^ Z.of_nat k.
  Proof.
    intros Hk E. set (m := 2 ^ Z.of_nat k) in *.
    assert (Hm : m <> 0) by (apply Z.pow_nonzero; lia).
    assert (H0 : (x + P - x) mod m = 0).
    { rewrite Zminus_mod, E, Z.sub_diag. apply Z.mod_0_l. exact Hm. }
    replace (x + P - x) with P in H0 by ring.
    apply Z.mod_divide in H0; [|exact Hm]. destruct H0 as [c Hc].
    assert (Em : m = 2 * 2 ^ (Z.of_nat k - 1)).
    { unfold m. rewrite <- Z.pow_succ_r by lia. f_equal. lia. }
    set (t := c * 2 ^ (Z.of_nat k - 1)).
    assert (Hp : P = 2 * t) by (unfold t; rewrite Hc, Em; ring).
    unfold P, Gen.FieldConsts.ORDER in Hp. lia.
  Qed.

  (* fewer than 64 bits: the decomposition is unique and exists iff x < 2^n *)
  Lemma split_le_small n x : (n <= 63)%nat -> 0 <= x < P ->
    ((exists bits, split_le_ok x n bits) <-> x < 2 ^ Z.of_nat n).
  Proof.
    intros Hn Hx.
    assert (Hp : 2 ^ Z.of_nat n <= 2 ^ 63) by (apply Z.pow_le_mono_r; lia).
    change (2 ^ 63) with 9223372036854775808 in Hp.
    split.
    - intros (bits & L & B & E). pose proof (le_sum_range bits B) as R. rewrite L in R.
      rewrite Z.mod_small in E; [lia|]. unfold P, Gen.FieldConsts.ORDER. lia.
    - intros Hlt. exists (to_bits n x). destruct (to_bits_spec n x) as (L & B & S); [lia|].
      repeat split; auto. rewrite S. apply Z.mod_small. exact Hx.
  Qed.

  Lemma split_le_range n x : (n <= 64)%nat -> 0 <= x < P ->
    ((exists bits, split_le_ok x n bits) <-> x < 2 ^ Z.of_nat n).
  Proof.
    intros Hn Hx. destruct (Nat.eq_dec n 64) as [->|Hne].
    - split.
      + intros _. unfold P, Gen.FieldConsts.ORDER in Hx. change (2 ^ Z.of_nat 64) with 18446744073709551616. lia.
      + intros _. exists (to_bits 64 x). apply split_le_ok_canonical. exact Hx.
    - apply split_le_small; [lia | exact Hx].
  Qed.

  Lemma leading_zeros_ge k x : 0 <= x < 2 ^ 64 -> 0 <= k <= 64 ->
    (k <= leading_zeros64 x <-> x < 2 ^ (64 - k)).
  Proof.
    intros Hx Hk. unfold leading_zeros64, bit_length.
    destruct (Z.eqb_spec x 0) as [->|Hne].
    - split; intros _; [apply Z.pow_pos_nonneg; lia | lia].
    - rewrite (Z.log2_lt_pow2 x (64 - k)) by lia. lia.
  Qed.

  (* circuit PoW check = native PoW check = "value < 2^(64-k)" *)
  Lemma pow_circuit_iff k x : (k <= 64)%nat -> 0 <= x < P ->
    (pow_circuit_ok k x <-> x < 2 ^ (64 - Z.of_nat k)).
  Proof.
    intros Hk Hx. unfold pow_circuit_ok. rewrite (split_le_range (64 - k) x) by (auto; lia).
    rewrite Nat2Z.inj_sub by exact Hk. reflexivity.
  Qed.

  Lemma pow_native_iff k x : (k <= 64)%nat -> 0 <= x < P ->
    (pow_native_ok k x = true <-> x < 2 ^ (64 - Z.of_nat k)).
  Proof.
    intros Hk Hx. unfold pow_native_ok. rewrite Z.leb_le. apply leading_zeros_ge; [|lia].
    unfold P, Gen.FieldConsts.ORDER in Hx. change (2 ^ 64) with 18446744073709551616. lia.
  Qed.

  Lemma pow_leading_zeros_eq k x : (k <= 64)%nat -> 0 <= x < P ->
    (pow_circuit_ok k x <-> pow_native_ok k x = true).
  Proof. intros Hk Hx. rewrite pow_circuit_iff, pow_native_iff by assumption. reflexivity. Qed.

  (* the field-level sum the circuit constrains is the integer sum reduced mod P *)
  Lemma fval_add_mul2 b (acc : Fp) : fval (fadd (toFp b) (fmul (toFp 2) acc)) = (b + 2 * fval acc) mod P.
  Proof.
    cbn [fadd fmul FpOps]. rewrite !fval_toFp. rewrite Zmult_mod_idemp_l, <- Zplus_mod. reflexivity.
  Qed.

  Lemma fval_le_sum_F bits : fval (le_sum_F bits) = le_sum bits mod P.
  Proof.
    induction bits as [|b r IH]; [reflexivity|].
    unfold le_sum_F in *. cbn [fold_right le_sum]. rewrite fval_add_mul2, IH.
    rewrite Zplus_mod, Zmult_mod_idemp_r, <- Zplus_mod. reflexivity.
  Qed.

  Lemma le_sum_F_eq bits x : 0 <= x < P -> (le_sum_F bits = toFp x <-> le_sum bits mod P = x).
  Proof.
    intros Hx. split; intros E.
    - apply (f_equal fval) in E. rewrite fval_le_sum_F, fval_toFp, (Z.mod_small x P Hx) in E. exact E.
    - apply Fp_ext. rewrite fval_le_sum_F, fval_toFp, (Z.mod_small x P Hx). exact E.
  Qed.
End BitsProofs.

(* ========================================================================================== *)
(* C06: reducing factors *)
Section ListAux.
  Context {A : Type}.

  Lemma chunks_concat m (Hm : 0 < m) : forall q fuel (l : list A),
    length l = q * m -> q <= fuel -> concat (chunks_exact_fuel fuel m l) = l.
  Proof.
    induction q as [|q IH]; intros fuel l L Hf.
    - destruct l; [|discriminate]. destruct fuel; [reflexivity|]. cbn [chunks_exact_fuel length].
      destruct (Nat.ltb_spec 0 m); [reflexivity | lia].
    - destruct fuel as [|fuel]; [lia|]. cbn [chunks_exact_fuel].
      assert (L' : length l = m + q * m) by (rewrite L; reflexivity).
      destruct (Nat.ltb_spec (length l) m); [lia|]. cbn [concat].
      rewrite (IH fuel (skipn m l)); [apply firstn_skipn | rewrite skipn_length; lia | lia].
  Qed.

  Lemma chunks_exact_concat m (l : list A) : 0 < m -> length l mod m = 0 -> concat (chunks_exact m l) = l.
  Proof.
    intros Hm Hd. unfold chunks_exact.
    apply Nat.mod_divides in Hd; [|lia]. destruct Hd as [q Hq].
    apply (chunks_concat m Hm q); [lia|]. rewrite Hq. destruct m; [lia|]. rewrite Nat.mul_succ_l. lia.
  Qed.

  Lemma pad_loop_spec m (Hm : 0 < m) (z : A) : forall fuel l,
    (length l mod m = 0 \/ m - length l mod m <= fuel) ->
    exists k, pad_loop fuel m z l = l ++ repeat z k /\ (length l + k) mod m = 0.
  Proof.
    induction fuel as [|fuel IH]; intros l Hl.
    - exists 0. cbn [pad_loop repeat]. rewrite app_nil_r, Nat.add_0_r. split; [reflexivity|].
      pose proof (Nat.mod_upper_bound (length l) m). lia.
    - cbn [pad_loop]. destruct (Nat.eqb_spec (length l mod m) 0) as [E|E].
      + exists 0. cbn [repeat]. rewrite app_nil_r, Nat.add_0_r. auto.
      + destruct (IH (l ++ [z])) as (k & Ek & Hk).
        { rewrite app_length. cbn [length].
          pose proof (Nat.mod_upper_bound (length l) m ltac:(lia)) as Hr.
          pose proof (Nat.div_mod_eq (length l) m) as Hd.
          destruct (Nat.eq_dec (length l mod m + 1) m) as [Em|Em].
          - left. symmetry. apply (Nat.mod_unique _ _ (length l / m + 1)); lia.
          - right. assert (Er : (length l + 1) mod m = length l mod m + 1).
            { symmetry. apply (Nat.mod_unique _ _ (length l / m)); lia. }
            rewrite Er. lia. }
        exists (S k). split.
        * rewrite Ek, <- app_assoc. reflexivity.
        * rewrite app_length in Hk. cbn [length] in Hk. rewrite <- Hk. f_equal. lia.
  Qed.

  Lemma map_repeat' {B} (f : A -> B) x n : map f (repeat x n) = repeat (f x) n.
  Proof. induction n; simpl; congruence. Qed.

  Lemma concat_repeat_repeat (x : A) a n : concat (repeat (repeat x a) n) = repeat x (n * a).
  Proof. induction n; simpl; [reflexivity|]. rewrite IHn, repeat_app. reflexivity. Qed.
End ListAux.

Section ReduceProofs.
  Context {F : Type} `{FL : FieldLaws F}.
  Add Field Ffr : (@F_field_theory F _ FL).
  Local Open Scope field_scope.

  Lemma reduce_eq_wsum alpha xs : reduce alpha xs = wsum alpha xs.
  Proof.
    unfold reduce. induction xs as [|x xs IH]; [reflexivity|].
    cbn [rev wsum]. rewrite fold_left_app. cbn [fold_left]. rewrite IH. ring.
  Qed.

  Lemma wsum_pow_shift alpha xs : forall i, wsum_pow alpha i xs = fpow alpha i * wsum alpha xs.
  Proof.
    induction xs as [|x xs IH]; intros i; cbn [wsum_pow wsum]; [ring|].
    rewrite IH. cbn [fpow]. ring.
  Qed.

  (* Horner form = sum of alpha^i * x_i *)
  Lemma wsum_eq_pow alpha xs : wsum alpha xs = wsum_pow alpha 0 xs.
  Proof. rewrite wsum_pow_shift. cbn [fpow]. ring. Qed.

  Lemma gate_fold_rev alpha xs : fold_left (fun a c => a * alpha + c) (rev xs) 0 = wsum alpha xs.
  Proof.
    induction xs as [|x xs IH]; [reflexivity|].
    cbn [rev wsum]. rewrite fold_left_app. cbn [fold_left]. rewrite IH. ring.
  Qed.

  Lemma fold_chunks alpha chs : forall a,
    fold_left (gate_fold alpha) chs a = fold_left (fun a c => a * alpha + c) (concat chs) a.
  Proof.
    induction chs as [|ch chs IH]; intros a; [reflexivity|].
    cbn [fold_left concat]. rewrite fold_left_app. apply IH.
  Qed.

  Lemma wsum_app_zeros alpha xs k : wsum alpha (xs ++ repeat 0 k) = wsum alpha xs.
  Proof.
    induction xs as [|x xs IH]; cbn [app wsum].
    - induction k as [|k IHk]; cbn [repeat wsum]; [reflexivity|]. rewrite IHk. ring.
    - rewrite IH. reflexivity.
  Qed.

  Lemma reduce_gates_eq m alpha xs : 0 < m -> reduce_gates m alpha xs = wsum alpha xs.
  Proof.
    intros Hm. unfold reduce_gates.
    destruct (pad_loop_spec m Hm 0 m xs) as (k & Ek & Hk).
    { right. lia. }
    rewrite Ek, fold_chunks, chunks_exact_concat; [| exact Hm | rewrite rev_length, app_length, repeat_length; exact Hk].
    rewrite gate_fold_rev. apply wsum_app_zeros.
  Qed.

  (* the in-circuit reduction equals the native one for every threshold and every chunk size *)
  Lemma reduce_target_eq t m alpha xs : 0 < m -> reduce_target t m alpha xs = reduce alpha xs.
  Proof.
    intros Hm. unfold reduce_target. destruct (Nat.leb (length xs) t); [reflexivity|].
    rewrite reduce_gates_eq, reduce_eq_wsum by exact Hm. reflexivity.
  Qed.

  Lemma reduce_base_target_eq {B} (emb : B -> F) (bzero : B) t m alpha ts : 0 < m -> emb bzero = 0 ->
    reduce_base_target emb bzero t m alpha ts = reduce alpha (map emb ts).
  Proof.
    intros Hm Hz. unfold reduce_base_target. destruct (Nat.leb (length ts) t); [reflexivity|].
    destruct (pad_loop_spec m Hm bzero m ts) as (k & Ek & Hk).
    { right. lia. }
    rewrite Ek, map_app, map_repeat', Hz, fold_chunks, chunks_exact_concat;
      [| exact Hm | rewrite rev_length, app_length, map_length, repeat_length; exact Hk].
    rewrite gate_fold_rev, wsum_app_zeros, reduce_eq_wsum. reflexivity.
  Qed.

  Lemma reduce_eq_sum alpha xs : reduce alpha xs = wsum_pow alpha 0 xs.
  Proof. rewrite reduce_eq_wsum. apply wsum_eq_pow. Qed.
End ReduceProofs.

(* ========================================================================================== *)
(* C11: padded transcripts *)
Section TranscriptProofs.
  Context {A : Type} (z : A).

  Lemma prover_native_ops_eq cap_height D caps final fl ms :
    prover_ops z cap_height D caps final fl ms = native_ops z cap_height D caps final fl ms.
  Proof. reflexivity. Qed.

  Lemma obs_cap_zero cap_height :
    obs_cap (zero_cap z cap_height) = obs_elems (repeat z (2 ^ cap_height * 4)).
  Proof. unfold obs_cap, zero_cap. rewrite concat_repeat_repeat. reflexivity. Qed.

  Lemma obs_exts_repeat (e : list A) n : obs_exts (repeat e n) = concat (repeat (obs_elems e) n).
  Proof. unfold obs_exts, obs_elems. rewrite concat_map, map_repeat'. reflexivity. Qed.

  Lemma obs_exts_app (a b : list (list A)) : obs_exts (a ++ b) = obs_exts a ++ obs_exts b.
  Proof. unfold obs_exts, obs_elems. rewrite concat_app, map_app. reflexivity. Qed.

  (* the circuit, reading the zero-padded targets, performs exactly the operations the native
     verifier (and the prover) perform with the explicit padding loops *)
  Lemma padding_keeps_transcripts_equal cap_height D caps final max_steps final_len :
    circuit_ops (pad_caps z cap_height caps max_steps) (pad_final z D final final_len)
    = native_ops z cap_height D caps final (Some final_len) (Some max_steps).
  Proof.
    unfold circuit_ops, native_ops, pad_caps, pad_final, for_range.
    rewrite map_app, concat_app, map_repeat', obs_cap_zero, obs_exts_app, obs_exts_repeat, <- !app_assoc.
    reflexivity.
  Qed.

  (* without padding requests (plain recursion) nothing is added *)
  Lemma no_padding_ops cap_height D caps final :
    circuit_ops caps final = native_ops z cap_height D caps final None None.
  Proof. unfold circuit_ops, native_ops. rewrite !app_nil_r. reflexivity. Qed.
End TranscriptProofs.
