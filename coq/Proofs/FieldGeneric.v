(* Correctness of the generic (trait-default) field code modelled in Model/FieldGeneric.v,
   over an abstract field: binary exponentiation (exp_u64, exp_power_of_2), the Powers iterator,
   and batch_multiplicative_inverse (Montgomery trick with four interleaved chains) for lists of
   EVERY length.  No axioms. *)
From Coq Require Import ZArith NArith List Lia Arith Ring Field.
From Verif Require Import Base.Field Model.FieldGeneric.
Import ListNotations.

Section GenericProofs.
  Context {F : Type} `{FL : FieldLaws F}.
  Add Field Ff : (@F_field_theory F _ FL).

  (* ------------------------------------------------------------------ *)
  (* 1. exponentiation *)

  Lemma fpow_square (x : F) n : fpow (fsquare x) n = fpow x (2 * n).
  Proof.
    unfold fsquare. rewrite (fpow_mul x 2 n). f_equal. cbn [fpow]. ring.
  Qed.

  Lemma exp_bits_correct : forall b power (cur prod : F),
    (N.to_nat (N.size power) <= b)%nat ->
    exp_bits b power cur prod = (prod * fpow cur (N.to_nat power))%F.
  Proof.
    induction b as [|b IH]; intros power cur prod Hb.
    - assert (E : power = 0%N).
      { destruct power as [|p]; [reflexivity|]. cbn [N.size] in Hb. lia. }
      subst power. cbn [exp_bits N.to_nat fpow]. ring.
    - cbn [exp_bits]. destruct power as [|[p|p|]].
      + cbn [N.odd N.even negb N.div2 Pos.div2]. rewrite IH by (cbn; lia). cbn [N.to_nat fpow]. ring.
      + cbn [N.odd N.even negb N.div2 Pos.div2]. rewrite IH.
        * rewrite fpow_square.
          replace (N.to_nat (N.pos p~1)) with (S (2 * N.to_nat (N.pos p))) by lia.
          cbn [fpow]. ring.
        * cbn [N.size Pos.size] in Hb |- *. lia.
      + cbn [N.odd N.even negb N.div2 Pos.div2]. rewrite IH.
        * rewrite fpow_square.
          replace (N.to_nat (N.pos p~0)) with (2 * N.to_nat (N.pos p))%nat by lia.
          reflexivity.
        * cbn [N.size Pos.size] in Hb |- *. lia.
      + cbn [N.odd N.even negb N.div2 Pos.div2]. rewrite IH by (cbn; lia).
        change (N.to_nat 1) with 1%nat. cbn [N.to_nat fpow]. ring.
  Qed.

  Theorem exp_u64_correct : forall (x : F) (n : N), exp_u64 x n = fpow x (N.to_nat n).
  Proof.
    intros x n. unfold exp_u64, bits_u64. rewrite exp_bits_correct by lia. ring.
  Qed.

  Theorem exp_power_of_2_correct : forall k (x : F), exp_power_of_2 x k = fpow x (2 ^ k).
  Proof.
    induction k as [|k IH]; intros x.
    - cbn [exp_power_of_2 Nat.pow fpow]. ring.
    - cbn [exp_power_of_2]. rewrite IH, fpow_square. f_equal.
  Qed.

  (* the Powers iterator *)
  Lemma powers_from_nth : forall n (cur base : F) i, (i < n)%nat ->
    nth i (powers_from cur base n) 0%F = (cur * fpow base i)%F.
  Proof.
    induction n as [|n IH]; intros cur base i Hi; [lia|].
    cbn [powers_from]. destruct i as [|i].
    - cbn [nth fpow]. ring.
    - cbn [nth]. rewrite IH by lia. cbn [fpow]. ring.
  Qed.

  Lemma powers_from_length : forall n (cur base : F), length (powers_from cur base n) = n.
  Proof. induction n; intros; cbn [powers_from length]; [reflexivity|]. rewrite IHn. reflexivity. Qed.

  Theorem powers_correct : forall (base : F) n,
    length (powers base n) = n /\ forall i, (i < n)%nat -> nth i (powers base n) 0%F = fpow base i.
  Proof.
    intros base n. unfold powers. split; [apply powers_from_length|].
    intros i Hi. rewrite powers_from_nth by exact Hi. ring.
  Qed.

  (* ------------------------------------------------------------------ *)
  (* 2. batch_multiplicative_inverse *)

  Lemma upd_length {A} : forall (l : list A) i v, length (upd l i v) = length l.
  Proof.
    induction l as [|h t IH]; intros i v; [reflexivity|].
    destruct i; cbn [upd length]; [reflexivity|]. rewrite IH. reflexivity.
  Qed.

  Lemma nth_upd_eq {A} : forall (l : list A) i v d, (i < length l)%nat -> nth i (upd l i v) d = v.
  Proof.
    induction l as [|h t IH]; intros i v d Hi; cbn [length] in Hi; [lia|].
    destruct i; cbn [upd nth]; [reflexivity|]. apply IH. lia.
  Qed.

  Lemma nth_upd_neq {A} : forall (l : list A) i j v d, i <> j -> nth j (upd l i v) d = nth j l d.
  Proof.
    induction l as [|h t IH]; intros i j v d Hij; [reflexivity|].
    destruct i, j; cbn [upd nth]; try reflexivity; try lia. apply IH. lia.
  Qed.

  Lemma nth_skipn {A} : forall n (l : list A) i d, nth i (skipn n l) d = nth (n + i) l d.
  Proof.
    induction n as [|n IH]; intros l i d; [reflexivity|].
    destruct l as [|h t]; [destruct i; reflexivity|]. cbn [skipn Nat.add nth]. apply IH.
  Qed.

  Lemma skipn_S_nth {A} : forall n (l : list A) a rest d,
    skipn n l = a :: rest -> nth n l d = a /\ skipn (S n) l = rest /\ (n < length l)%nat.
  Proof.
    induction n as [|n IH]; intros l a rest d E.
    - cbn [skipn] in E. subst l. cbn. repeat split. lia.
    - destruct l as [|h t]; [discriminate|]. cbn [skipn] in E.
      destruct (IH t a rest d E) as (E1 & E2 & E3). cbn [nth length]. repeat split; auto. lia.
  Qed.

  Ltac mod4 a :=
    pose proof (Nat.div_mod a 4 ltac:(discriminate));
    pose proof (Nat.mod_upper_bound a 4 ltac:(discriminate)).

  Lemma mod4_neq i j : (i < j < i + 4)%nat -> (j mod 4 <> i mod 4)%nat.
  Proof. intros. mod4 i. mod4 j. lia. Qed.
  Lemma mod4_add4 i : ((i + 4) mod 4 = i mod 4)%nat.
  Proof. mod4 i. mod4 (i + 4)%nat. lia. Qed.
  Lemma mod4_lt i : (i mod 4 < 4)%nat.
  Proof. apply Nat.mod_upper_bound. discriminate. Qed.
  Lemma mod4_small i : (i < 4)%nat -> (i mod 4 = i)%nat.
  Proof. intros. apply Nat.mod_small. assumption. Qed.

  Definition nz (x : F) : Prop := x <> 0%F.

  (* Forward pass.  [pre4] are the first four inputs, [buf_rev] the (reversed) products pushed
     so far; i is the index into x[4..].  Invariant: with pre = pre4 ++ rev buf_rev (length i+4),
     pre[k] = pre[k-4] * x[k] for 4 <= k < i+4, and cumul[j mod 4] = pre[j] for the last four j. *)
  Lemma bmi_forward_inv : forall xs i cumul buf_rev (pre4 x cumul' tb : list F),
    bmi_forward xs i cumul buf_rev = (cumul', tb) ->
    length pre4 = 4%nat -> length buf_rev = i -> length cumul = 4%nat ->
    skipn (i + 4) x = xs -> (i + 4 <= length x)%nat ->
    (forall k, (4 <= k < i + 4)%nat ->
       nth k (pre4 ++ rev buf_rev) 0%F = (nth (k - 4) (pre4 ++ rev buf_rev) 0 * nth k x 0)%F) ->
    (forall j, (i <= j < i + 4)%nat -> nth (j mod 4) cumul 0%F = nth j (pre4 ++ rev buf_rev) 0%F) ->
    length tb = (length x - 4)%nat /\ length cumul' = 4%nat /\
    (forall k, (k < 4)%nat -> nth k (pre4 ++ tb) 0%F = nth k pre4 0%F) /\
    (forall k, (4 <= k < length x)%nat ->
       nth k (pre4 ++ tb) 0%F = (nth (k - 4) (pre4 ++ tb) 0 * nth k x 0)%F) /\
    (forall j, (length x - 4 <= j < length x)%nat -> nth (j mod 4) cumul' 0%F = nth j (pre4 ++ tb) 0%F).
  Proof.
    induction xs as [|xi xs IH]; intros i cumul buf_rev pre4 x cumul' tb E L4 Lb Lc Hs Hle Hk Hj.
    - cbn [bmi_forward] in E. injection E as <- <-.
      assert (Lx : length x = (i + 4)%nat).
      { apply (f_equal (@length F)) in Hs. rewrite skipn_length in Hs. cbn [length] in Hs. lia. }
      rewrite Lx, rev_length. repeat split.
      + lia.
      + exact Lc.
      + intros k Hk4. apply app_nth1. lia.
      + exact Hk.
      + intros j Hj'. apply Hj. lia.
    - cbn [bmi_forward] in E. unfold nthF in E.
      destruct (skipn_S_nth _ _ _ _ 0%F Hs) as (Hxi & Hs' & Hlt).
      set (c := (nth (i mod 4) cumul 0 * xi)%F) in *.
      set (pre := pre4 ++ rev buf_rev) in *.
      assert (Lpre : length pre = (i + 4)%nat).
      { unfold pre. rewrite app_length, rev_length. lia. }
      assert (Epre : pre4 ++ rev (c :: buf_rev) = pre ++ [c]).
      { cbn [rev]. unfold pre. rewrite app_assoc. reflexivity. }
      apply (IH (S i) _ _ pre4 x cumul' tb E); clear IH E.
      + exact L4.
      + cbn [length]. lia.
      + rewrite upd_length. exact Lc.
      + exact Hs'.
      + cbn [Nat.add]. lia.
      + intros k Hk'. rewrite Epre.
        destruct (Nat.eq_dec k (i + 4)) as [->|Hne].
        * rewrite (app_nth2 pre) by lia. rewrite Lpre, Nat.sub_diag. cbn [nth].
          rewrite (app_nth1 pre) by lia. replace (i + 4 - 4)%nat with i by lia.
          rewrite Hxi. unfold c. rewrite (Hj i) by lia. reflexivity.
        * rewrite !(app_nth1 pre) by lia. apply Hk. lia.
      + intros j Hj'. rewrite Epre.
        destruct (Nat.eq_dec j (i + 4)) as [->|Hne].
        * rewrite mod4_add4. rewrite nth_upd_eq by (rewrite Lc; apply mod4_lt).
          rewrite (app_nth2 pre) by lia. rewrite Lpre, Nat.sub_diag. reflexivity.
        * rewrite nth_upd_neq by (apply not_eq_sym, mod4_neq; lia).
          rewrite (app_nth1 pre) by lia. apply Hj. lia.
  Qed.

  (* all cumulative products stay non-zero *)
  Lemma bmi_forward_nz : forall xs i cumul buf_rev (cumul' tb : list F),
    bmi_forward xs i cumul buf_rev = (cumul', tb) ->
    length cumul = 4%nat -> Forall nz xs ->
    (forall r, (r < 4)%nat -> nz (nth r cumul 0%F)) ->
    (forall r, (r < 4)%nat -> nz (nth r cumul' 0%F)).
  Proof.
    induction xs as [|xi xs IH]; intros i cumul buf_rev cumul' tb E Lc Hnz Hc.
    - cbn [bmi_forward] in E. injection E as <- <-. exact Hc.
    - cbn [bmi_forward] in E. inversion Hnz as [|? ? Hxi Hxs]; subst.
      apply (IH _ _ _ _ _ E); [rewrite upd_length; exact Lc | exact Hxs |].
      intros r Hr. destruct (Nat.eq_dec (i mod 4) r) as [<-|Hne].
      + rewrite nth_upd_eq by (rewrite Lc; apply mod4_lt). unfold nthF.
        apply f_mul_neq_0; [apply Hc, mod4_lt | exact Hxi].
      + rewrite nth_upd_neq by exact Hne. apply Hc, Hr.
  Qed.

  (* Backward pass, with bound b = k + 4 (next index processed is b - 1).  buf0 is the buffer
     produced by the forward pass. *)
  Lemma bmi_backward_inv : forall k (x buf0 buf a_inv buf' a_inv' : list F),
    bmi_backward k (k + 4 - 1) x buf a_inv = (buf', a_inv') ->
    (k + 4 <= length x)%nat ->
    length buf = length x -> length a_inv = 4%nat ->
    (forall i, (4 <= i < length x)%nat -> nth i buf0 0%F = (nth (i - 4) buf0 0 * nth i x 0)%F) ->
    (forall j, (j < k + 4)%nat -> nth j buf 0%F = nth j buf0 0%F) ->
    (forall j, (k + 4 <= j < length x)%nat -> (nth j buf 0 * nth j x 0 = 1)%F) ->
    (forall j, (k <= j < k + 4)%nat -> (nth (j mod 4) a_inv 0 * nth j buf0 0 = 1)%F) ->
    length buf' = length x /\ length a_inv' = 4%nat /\
    (forall j, (4 <= j < length x)%nat -> (nth j buf' 0 * nth j x 0 = 1)%F) /\
    (forall j, (j < 4)%nat -> (nth j a_inv' 0 * nth j buf0 0 = 1)%F).
  Proof.
    induction k as [|k IH]; intros x buf0 buf a_inv buf' a_inv' E Hle Lb La H0 Hlo Hhi Ha.
    - cbn [bmi_backward] in E. injection E as <- <-. repeat split; auto.
      intros j Hj. rewrite <- (mod4_small j Hj) at 1. apply Ha. lia.
    - cbn [bmi_backward] in E. unfold nthF in E.
      replace (S k + 4 - 1)%nat with (k + 4)%nat in E by lia.
      set (i := (k + 4)%nat) in *.
      replace (i - 1)%nat with (k + 4 - 1)%nat in E by lia.
      assert (Hai : (nth (i mod 4) a_inv 0 * nth i buf0 0 = 1)%F) by (apply Ha; lia).
      assert (H0i : nth i buf0 0%F = (nth (i - 4) buf0 0 * nth i x 0)%F) by (apply H0; lia).
      apply (IH x buf0 _ _ buf' a_inv' E); clear IH E.
      + lia.
      + rewrite upd_length. exact Lb.
      + rewrite upd_length. exact La.
      + exact H0.
      + intros j Hj. rewrite nth_upd_neq by lia. apply Hlo. lia.
      + intros j Hj. destruct (Nat.eq_dec j i) as [->|Hne].
        * rewrite nth_upd_eq by lia. rewrite (Hlo (i - 4)%nat) by lia.
          rewrite H0i in Hai. rewrite <- Hai. ring.
        * rewrite nth_upd_neq by lia. apply Hhi. lia.
      + intros j Hj. destruct (Nat.eq_dec j k) as [->|Hne].
        * replace (k mod 4)%nat with (i mod 4)%nat by (unfold i; apply mod4_add4).
          rewrite nth_upd_eq by (rewrite La; apply mod4_lt).
          replace (i - 4)%nat with k in H0i by lia.
          rewrite H0i in Hai. rewrite <- Hai. ring.
        * rewrite nth_upd_neq by (apply mod4_neq; lia). apply Ha. lia.
  Qed.

  Theorem batch_inverse_correct : forall xs : list F,
    Forall (fun x => x <> 0%F) xs ->
    length (batch_multiplicative_inverse xs) = length xs /\
    forall i, (i < length xs)%nat ->
      (nth i (batch_multiplicative_inverse xs) 0 * nth i xs 0 = 1)%F.
  Proof.
    intros xs Hnz.
    destruct xs as [|x0 [|x1 [|x2 [|x3 rest]]]].
    - split; [reflexivity|]. cbn [length]. intros; lia.
    - inversion Hnz as [|? ? N0 _]; subst.
      split; [reflexivity|]. cbn [length]. intros [|i] Hi; [|lia].
      cbn [batch_multiplicative_inverse nth]. field. exact N0.
    - inversion Hnz as [|? ? N0 Hnz1]; subst. inversion Hnz1 as [|? ? N1 _]; subst.
      split; [reflexivity|]. cbn [length]. intros [|[|i]] Hi; [| |lia];
        cbn [batch_multiplicative_inverse nth]; field; auto.
    - inversion Hnz as [|? ? N0 Hnz1]; subst. inversion Hnz1 as [|? ? N1 Hnz2]; subst.
      inversion Hnz2 as [|? ? N2 _]; subst.
      split; [reflexivity|]. cbn [length]. intros [|[|[|i]]] Hi; [| | |lia];
        cbn [batch_multiplicative_inverse nth]; field; auto.
    - inversion Hnz as [|? ? N0 Hnz1]; subst. inversion Hnz1 as [|? ? N1 Hnz2]; subst.
      inversion Hnz2 as [|? ? N2 Hnz3]; subst. inversion Hnz3 as [|? ? N3 Hnzr]; subst.
      cbn [batch_multiplicative_inverse].
      set (x := x0 :: x1 :: x2 :: x3 :: rest) in *.
      set (pre4 := [x0; x1; x2; x3]).
      destruct (bmi_forward rest 0 pre4 []) as [cumul tb] eqn:Ef.
      assert (Lx : length x = (4 + length rest)%nat) by reflexivity.
      destruct (bmi_forward_inv rest 0 pre4 [] pre4 x cumul tb Ef) as (Ltb & Lc & B2 & B3 & HC).
      { reflexivity. } { reflexivity. } { reflexivity. } { reflexivity. } { lia. }
      { intros k Hk. lia. }
      { intros j Hj. rewrite mod4_small by lia. cbn [rev]. rewrite app_nil_r. reflexivity. }
      assert (Cnz : forall r, (r < 4)%nat -> nz (nth r cumul 0%F)).
      { apply (bmi_forward_nz rest 0 pre4 [] cumul tb Ef); [reflexivity | exact Hnzr |].
        intros [|[|[|[|r]]]] Hr; cbn [pre4 nth]; unfold nz; auto; lia. }
      set (buf0 := pre4 ++ tb) in *.
      unfold nthF.
      destruct cumul as [|c0 [|c1 [|c2 [|c3 [|? ?]]]]]; try discriminate Lc.
      cbn [nth].
      pose proof (Cnz 0%nat ltac:(lia)) as Z0. pose proof (Cnz 1%nat ltac:(lia)) as Z1.
      pose proof (Cnz 2%nat ltac:(lia)) as Z2. pose proof (Cnz 3%nat ltac:(lia)) as Z3.
      cbn [nth] in Z0, Z1, Z2, Z3. unfold nz in Z0, Z1, Z2, Z3.
      set (a_inv := [_; _; _; _]).
      assert (Ainv : forall r, (r < 4)%nat -> (nth r a_inv 0 * nth r [c0; c1; c2; c3] 0 = 1)%F).
      { intros [|[|[|[|r]]]] Hr; [| | | |lia]; unfold a_inv; cbn [nth]; field; auto. }
      replace (length x - 1)%nat with (length x - 4 + 4 - 1)%nat by lia.
      destruct (bmi_backward (length x - 4) (length x - 4 + 4 - 1) x buf0 a_inv) as [buf' a_inv'] eqn:Eb.
      destruct (bmi_backward_inv (length x - 4) x buf0 buf0 a_inv buf' a_inv' Eb)
        as (Lb' & La' & Hhi & Hlo).
      { lia. }
      { unfold buf0. rewrite app_length, Ltb. cbn [pre4 length]. lia. }
      { reflexivity. }
      { exact B3. }
      { reflexivity. }
      { intros j Hj. lia. }
      { intros j Hj. rewrite <- HC by lia. apply Ainv, mod4_lt. }
      split.
      + rewrite app_length, skipn_length, La', Lb'. lia.
      + intros i Hi. destruct (Nat.lt_ge_cases i 4) as [Hi4|Hi4].
        * rewrite app_nth1 by lia.
          replace (nth i x 0%F) with (nth i buf0 0%F); [apply Hlo; exact Hi4|].
          rewrite B2 by exact Hi4.
          destruct i as [|[|[|[|i]]]]; try reflexivity. lia.
        * rewrite app_nth2 by lia. rewrite La', nth_skipn.
          replace (4 + (i - 4))%nat with i by lia. apply Hhi. lia.
  Qed.
End GenericProofs.
